(* Lemmas about Model/IOSup.v: materialize with supplied statistics, derived
   datasets, the file-stability invariant, generations. *)
From Coq Require Import List Arith Bool String Lia.
From PF Require Import Lib.ListX Gen.Tables Model.IO Model.IOSup Proofs.IOProofs.
Import ListNotations.

Section IOSupProofs.
  Variable tensor : Type.
  Variable tdim : tensor -> nat.
  Variable tsize : tensor -> nat -> nat.
  Variable valid_nested valid_embed : nat -> nat -> tensor -> tensor -> bool.
  Variable stats : Type.
  Variable byte : Type.
  Variable enc : payload tensor stats -> list byte.
  Variable dec : list byte -> option (payload tensor stats).
  Hypothesis H_dec_enc : forall x, dec (enc x) = Some x.
  Hypothesis H_load_prefix_fails : forall x k, k < List.length (enc x) -> dec (firstn k (enc x)) = None.
  Variable rows cout : Type.
  Variable conv : stats -> rows -> option cout.
  Variable compute : option stats -> tframe tensor * stats.
  Hypothesis H_wf : forall s, tframe_wf tdim tsize valid_nested valid_embed (fst (compute s)).

  Local Notation twf := (tframe_wf tdim tsize valid_nested valid_embed).
  Local Notation load := (IO.load tdim tsize valid_nested valid_embed dec).
  Local Notation save := (IO.save enc).
  Local Notation world := (IO.world tensor stats byte).
  Local Notation materializeS := (IOSup.materializeS tdim tsize valid_nested valid_embed enc dec compute).
  Local Notation stepS := (IOSup.stepS tdim tsize valid_nested valid_embed enc dec conv compute).
  Local Notation runS := (IOSup.runS tdim tsize valid_nested valid_embed enc dec conv compute).
  Local Notation guarded := (IOSup.guarded tdim tsize valid_nested valid_embed enc dec conv compute).
  Local Notation new := (new_dataset tensor stats).

  Definition mat_of (fr : tframe tensor * stats) : dataset tensor stats :=
    MkDs true (Some (fst fr)) (Some (snd fr)) (Some (snd fr)).

  (* the complete file of the computation with statistics argument s *)
  Definition file_of (s : option stats) (b : list byte) : Prop :=
    save (fst (compute s)) (snd (compute s)) = Some b.

  Lemma file_of_exists : forall s, exists b, file_of s b /\ load b = Some (compute s).
  Proof.
    intros s. destruct (save_load_roundtrip tensor tdim tsize valid_nested valid_embed stats byte enc dec H_dec_enc
                          (fst (compute s)) (snd (compute s)) (H_wf s)) as (b & Hb & Hl).
    exists b. split; auto. rewrite Hl. destruct (compute s); reflexivity.
  Qed.

  Lemma file_of_load : forall s b, file_of s b -> load b = Some (compute s).
  Proof.
    intros s b Hb. destruct (file_of_exists s) as (b' & Hb' & Hl). unfold file_of in *.
    rewrite Hb in Hb'. injection Hb' as <-. exact Hl.
  Qed.

  Lemma file_of_prefix : forall s b k, file_of s b ->
    load (firstn k b) = None \/ load (firstn k b) = Some (compute s).
  Proof.
    intros s b k Hb. destruct (Nat.lt_ge_cases k (List.length b)) as [Hk|Hk].
    - left. exact (truncated_never_loads tensor tdim tsize valid_nested valid_embed stats byte enc dec H_load_prefix_fails _ _ _ _ Hb Hk).
    - right. rewrite firstn_all2 by exact Hk. exact (file_of_load _ _ Hb).
  Qed.

  (* ---------------------------------------------------------------- *)
  (* 1. No call ever rewrites an existing file (complete or cut). *)
  Lemma materialize_keeps_file : forall fr cut (w : world) p b,
    fs w = Some b ->
    fs (fst (IO.materialize tdim tsize valid_nested valid_embed enc dec fr cut w p)) = Some b.
  Proof.
    intros fr cut [f c] p b Hf. cbn [fs] in Hf. subst f.
    unfold IO.materialize, isfile. cbn [fs cur]. rewrite andb_false_r.
    destruct (ds_mat c); cbn [fst fs]; [reflexivity|].
    destruct p; cbn [andb]; [|reflexivity].
    destruct (load b) as [[t cs]|]; reflexivity.
  Qed.

  Lemma step_keeps_file : forall fr (w : world) (e : event rows) b,
    fs w = Some b ->
    fs (fst (IO.step tdim tsize valid_nested valid_embed enc dec conv fr w e)) = Some b.
  Proof.
    intros fr w e b Hf. destruct e as [p|k|p|r]; cbn [IO.step fst fs].
    - apply materialize_keeps_file; exact Hf.
    - apply materialize_keeps_file; exact Hf.
    - apply materialize_keeps_file; exact Hf.
    - destruct (ds_mat (cur w)); [destruct (ds_conv (cur w)) as [cs|]; [destruct (conv cs r)|]|]; exact Hf.
  Qed.

  Lemma file_never_rewritten : forall (w : world) e b,
    fs w = Some b -> fs (fst (stepS w e)) = Some b.
  Proof.
    intros w e b Hf. destruct e as [sup e|sel p sup]; cbn [IOSup.stepS fst].
    - apply step_keeps_file; exact Hf.
    - destruct (ds_mat (cur w)); [|exact Hf]. destruct (ds_tf (cur w)); [|exact Hf].
      cbn [fst fs]. unfold IOSup.materializeS. apply materialize_keeps_file. exact Hf.
  Qed.

  (* 2. With a file present, materialize on a derived dataset changes nothing. *)
  Lemma derived_noop_when_file_exists : forall (w : world) sel p sup,
    isfile w = true -> fst (stepS w (DerivedMat sel p sup)) = w.
  Proof.
    intros [f c] sel p sup Hf. unfold isfile in Hf. cbn [fs] in Hf. destruct f as [b|]; [|discriminate].
    cbn [IOSup.stepS cur fs]. destruct (ds_mat c); [|reflexivity]. destruct (ds_tf c); [|reflexivity].
    cbn [fst]. unfold IOSup.materializeS.
    rewrite (materialize_keeps_file (compute sup) None (MkW (Some b) _) p b eq_refl). reflexivity.
  Qed.

  Lemma derived_noop_without_path : forall (w : world) sel sup,
    fst (stepS w (DerivedMat sel false sup)) = w.
  Proof.
    intros [f c] sel sup. cbn [IOSup.stepS cur fs]. destruct (ds_mat c); [|reflexivity].
    destruct (ds_tf c); [|reflexivity]. reflexivity.
  Qed.

  (* 3. A cache hit ignores the statistics argument: the restoring call returns
        exactly what the file was written from. *)
  Lemma restore_ignores_supplied : forall (w : world) s0 b s',
    file_of s0 b -> fs w = Some b ->
    stepS w (EvS s' (NewDatasetMaterialize rows true)) =
      (MkW (Some b) (mat_of (compute s0)), OS (OMat cout (fst (compute s0)) (snd (compute s0)))).
  Proof.
    intros [f c] s0 b s' Hb Hf. cbn [fs] in Hf. subst f.
    cbn [IOSup.stepS IO.step fst snd]. unfold IO.materialize, isfile.
    cbn [fs cur new_dataset ds_mat andb]. rewrite (file_of_load _ _ Hb).
    destruct (compute s0) as [t cs]. reflexivity.
  Qed.

  (* 4. materialize(path, col_stats=s) with no file writes the file of `compute s`. *)
  Lemma supplied_write : forall (w : world) s b,
    file_of s b -> fs w = None ->
    stepS w (EvS s (NewDatasetMaterialize rows true)) =
      (MkW (Some b) (mat_of (compute s)), OS (OMat cout (fst (compute s)) (snd (compute s)))).
  Proof.
    intros [f c] s b Hb Hf. cbn [fs] in Hf. subst f.
    cbn [IOSup.stepS IO.step fst snd]. unfold IO.materialize, isfile.
    cbn [fs cur new_dataset ds_mat andb]. unfold file_of in Hb. rewrite Hb. reflexivity.
  Qed.

  (* ---------------------------------------------------------------- *)
  (* 5. the invariant over histories whose statistics arguments come from S *)
  Section Inv.
    Variable S : list (option stats).

    Definition fileS (f : option (list byte)) : Prop :=
      f = None \/ exists s k b, In s S /\ file_of s b /\ f = Some (firstn k b).
    Definition curS (c : dataset tensor stats) : Prop :=
      c = new \/ exists s, In s S /\ c = mat_of (compute s).
    Definition invS (w : world) : Prop := fileS (fs w) /\ curS (cur w).

    Lemma written_firstn : forall cut (b : list byte), exists k, written cut b = firstn k b.
    Proof.
      intros [k|] b; cbn; [exists k; reflexivity|]. exists (List.length b). rewrite firstn_all. reflexivity.
    Qed.

    Lemma materialize_invS : forall cut f c p sup,
      fileS f -> curS c -> In sup S ->
      let r := materializeS cut (MkW f c) p sup in
      invS (fst r) /\ (snd r = false -> exists s, In s S /\ cur (fst r) = mat_of (compute s)).
    Proof.
      intros cut f c p sup Hf Hc Hs. unfold IOSup.materializeS, IO.materialize, isfile. cbn [fs cur].
      destruct Hc as [-> | (s1 & Hs1 & ->)]; cbn [ds_mat new_dataset mat_of ds_tf ds_stats].
      - (* a fresh object *)
        destruct f as [bf|].
        + destruct p; cbn [andb].
          * destruct Hf as [Hf | (s0 & k & b & Hs0 & Hb & Hf)]; [discriminate|]. injection Hf as ->.
            destruct (file_of_prefix s0 b k Hb) as [-> | ->].
            -- cbn [fst snd]. split; [|discriminate]. split; cbn [fs cur]; [right; eauto 8|left; reflexivity].
            -- destruct (compute s0) as [t0 cs0] eqn:E0. cbn [fst snd fs cur].
               assert (Hm : MkDs true (Some t0) (Some cs0) (Some cs0) = mat_of (compute s0)) by (rewrite E0; reflexivity).
               rewrite Hm. split; [split; cbn [fs cur]; [right; exists s0, k, b; auto|right; eauto]|eauto].
          * cbn [fst snd fs cur]. split; [split; cbn [fs cur]; [exact Hf|right; exists sup; auto]|eauto].
        + rewrite andb_false_r. destruct p.
          * destruct (file_of_exists sup) as (b & Hb & _). pose proof Hb as Hb'. unfold file_of in Hb'. rewrite Hb'.
            destruct (written_firstn cut b) as (k & ->). cbn [fst snd fs cur].
            split; [split; cbn [fs cur]; [right; exists sup, k, b; auto|right; exists sup; auto]|eauto].
          * cbn [fst snd fs cur]. split; [split; cbn [fs cur]; [left; reflexivity|right; exists sup; auto]|eauto].
      - (* already materialized *)
        destruct f as [bf|].
        + rewrite andb_false_r. cbn [fst snd fs cur]. split; [split; cbn [fs cur]; [exact Hf|right; eauto]|eauto].
        + destruct p; cbn [andb negb].
          * destruct (file_of_exists s1) as (b & Hb & _). pose proof Hb as Hb'. unfold file_of in Hb'. rewrite Hb'.
            destruct (written_firstn cut b) as (k & ->). cbn [fst snd fs cur].
            split; [split; cbn [fs cur]; [right; exists s1, k, b; auto|right; eauto]|eauto].
          * cbn [fst snd fs cur]. split; [split; cbn [fs cur]; [left; reflexivity|right; eauto]|eauto].
    Qed.

    (* an observation that is never partial: whatever a materialize returns was
       computed with one of the statistics arguments of the history *)
    Definition goodS (o : obsS tensor stats cout) : Prop :=
      match o with
      | OS (OMat _ t cs) => exists s, In s S /\ (t, cs) = compute s
      | _ => True
      end.

    Lemma mat_obs_goodS : forall (r : world * bool),
      (snd r = false -> exists s, In s S /\ cur (fst r) = mat_of (compute s)) ->
      goodS (OS (@mat_obs tensor stats byte cout r)).
    Proof.
      intros [w b] H. unfold mat_obs. cbn [fst snd] in *. destruct b; cbn; auto.
      destruct (H eq_refl) as (s & Hs & ->). cbn. exists s. split; auto. destruct (compute s); reflexivity.
    Qed.

    Lemma stepS_invS : forall (w : world) e,
      invS w -> In (sup_of e) S ->
      match e with DerivedMat _ true _ => isfile w = true | _ => True end ->
      invS (fst (stepS w e)) /\ goodS (snd (stepS w e)).
    Proof.
      intros [f c] e (Hf & Hc) Hs Hg. cbn [fs cur] in Hf, Hc.
      destruct e as [sup e|sel p sup]; cbn [sup_of] in Hs.
      - destruct e as [p|k|p|r]; cbn [IOSup.stepS IO.step fst snd fs cur].
        + destruct (materialize_invS None f c p sup Hf Hc Hs) as (Hi & Hm). split; [exact Hi|].
          apply mat_obs_goodS. exact Hm.
        + destruct (materialize_invS (Some k) f c true sup Hf Hc Hs) as ((Hi & _) & _).
          split; [split; cbn [fs cur]; [exact Hi|left; reflexivity]|exact I].
        + destruct (materialize_invS None f new p sup Hf (or_introl eq_refl) Hs) as (Hi & Hm). split; [exact Hi|].
          apply mat_obs_goodS. exact Hm.
        + assert (HI : invS (MkW f c)) by (split; assumption).
          destruct (ds_mat c); [destruct (ds_conv c) as [cs|]; [destruct (conv cs r)|]|]; cbn [fst snd]; split; auto; exact I.
      - split.
        + destruct p.
          * rewrite (derived_noop_when_file_exists (MkW f c) sel true sup Hg). split; assumption.
          * rewrite derived_noop_without_path. split; assumption.
        + cbn [IOSup.stepS cur]. destruct (ds_mat c); [destruct (ds_tf c)|]; exact I.
    Qed.

    Lemma runS_invS : forall h (w : world),
      invS w -> incl (sups h) S -> guarded w h ->
      Forall goodS (snd (runS w h)).
    Proof.
      induction h as [|e h IH]; intros w Hw Hs Hg; cbn [IOSup.runS snd]; [constructor|].
      cbn [IOSup.guarded] in Hg. destruct Hg as (Hg1 & Hg2).
      assert (He : In (sup_of e) S) by (apply Hs; left; reflexivity).
      destruct (stepS_invS w e Hw He Hg1) as (Hi & Ho).
      constructor; [exact Ho|]. apply IH; auto. intros x Hx. apply Hs. right. exact Hx.
    Qed.
  End Inv.

  Lemma historyS_never_partial : forall h,
    guarded (init tensor stats byte) h ->
    Forall (goodS (sups h)) (snd (runS (init tensor stats byte) h)).
  Proof.
    intros h Hg. apply runS_invS; auto.
    - split; cbn; left; reflexivity.
    - apply incl_refl.
  Qed.

  (* ---------------------------------------------------------------- *)
  (* 6. generations are transparent *)
  Lemma generations_transparent : forall (sels : list (tframe tensor -> tframe tensor)) (t : tframe tensor) cs,
    (forall f u, In f sels -> twf u -> twf (f u)) -> twf t ->
    generations tdim tsize valid_nested valid_embed enc dec sels t cs = Some (fold_left (fun a f => f a) sels t).
  Proof.
    induction sels as [|f r IH]; intros t cs Hsel Ht; cbn [generations fold_left]; [reflexivity|].
    assert (Hft : twf (f t)) by (apply Hsel; [left; reflexivity|exact Ht]).
    destruct (save_load_roundtrip tensor tdim tsize valid_nested valid_embed stats byte enc dec H_dec_enc (f t) cs Hft) as (b & Hb & Hl).
    rewrite Hb. cbn [obind]. rewrite Hl. cbn [obind fst]. apply IH; auto.
    intros g u Hg. apply Hsel. right. exact Hg.
  Qed.

  (* ---------------------------------------------------------------- *)
  (* 7. path reuse with the truncating open *)
  Local Notation save_all := (IOSup.save_all enc).
  Local Notation reuse_then_load := (IOSup.reuse_then_load tdim tsize valid_nested valid_embed enc dec).

  Lemma save_all_trunc_last : forall (l : list (tframe tensor * stats)) f t cs,
    Forall (fun p => twf (fst p)) l -> twf t ->
    exists b, save t cs = Some b /\ save_all OTrunc f (l ++ [(t, cs)]) = Some (Some b).
  Proof.
    induction l as [|[t0 cs0] l IH]; intros f t cs Hl Ht; cbn [app IOSup.save_all].
    - destruct (save_load_roundtrip tensor tdim tsize valid_nested valid_embed stats byte enc dec H_dec_enc t cs Ht)
        as (b & Hb & _).
      exists b. split; [exact Hb|]. unfold save_to. rewrite Hb. reflexivity.
    - inversion Hl as [|? ? H0 Hl']; subst. cbn [fst] in H0.
      destruct (save_load_roundtrip tensor tdim tsize valid_nested valid_embed stats byte enc dec H_dec_enc t0 cs0 H0)
        as (b0 & Hb0 & _).
      unfold save_to at 1. rewrite Hb0. cbn [option_map obind write_file]. apply IH; assumption.
  Qed.

  Lemma path_reuse_returns_last : forall (l : list (tframe tensor * stats)) f t cs,
    Forall (fun p => twf (fst p)) l -> twf t ->
    reuse_then_load OTrunc f (l ++ [(t, cs)]) = Some (t, cs).
  Proof.
    intros l f t cs Hl Ht. unfold IOSup.reuse_then_load.
    destruct (save_all_trunc_last l f t cs Hl Ht) as (b & Hb & ->). cbn [obind].
    destruct (save_load_roundtrip tensor tdim tsize valid_nested valid_embed stats byte enc dec H_dec_enc t cs Ht)
      as (b' & Hb' & Hl'). rewrite Hb in Hb'. injection Hb' as <-. exact Hl'.
  Qed.

  (* without truncation the file is the new bytes followed by the old tail *)
  Lemma notrunc_keeps_tail : forall old t cs b,
    save t cs = Some b ->
    IOSup.save_to enc ONoTrunc (Some old) t cs = Some (Some (b ++ skipn (List.length b) old)).
  Proof. intros old t cs b Hb. unfold save_to. rewrite Hb. reflexivity. Qed.
End IOSupProofs.
