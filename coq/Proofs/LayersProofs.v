(* Lemmas about Lib/Tensor.v and Model/Layers.v (properties C14, C15).
   Exact arithmetic over an abstract scalar structure; see the header of Lib/Tensor.v for what
   that does and does not cover. *)
From Coq Require Import List Arith Bool Lia Permutation ZArith.
From PF Require Import Lib.Chunks Lib.Tensor Proofs.ChunksFacts Model.Layers.
Import ListNotations.

(* ================================================================== *)
(* 1. list toolbox                                                     *)
(* ================================================================== *)
Section Toolbox.
  Context {A B C D : Type}.

  Lemma zipw_nil_l : forall (h : A -> B -> C) b, zipw h [] b = [].
  Proof. reflexivity. Qed.

  Lemma zipw_cons : forall (h : A -> B -> C) x a y b, zipw h (x :: a) (y :: b) = h x y :: zipw h a b.
  Proof. reflexivity. Qed.

  Lemma zipw_length : forall (h : A -> B -> C) a b, length (zipw h a b) = Nat.min (length a) (length b).
  Proof. intros. unfold zipw. rewrite map_length, combine_length. reflexivity. Qed.

  Lemma zipw_map : forall (h : A -> B -> C) (f : D -> A) (g : D -> B) (X : list D),
    zipw h (map f X) (map g X) = map (fun x => h (f x) (g x)) X.
  Proof. induction X as [|x X IH]; [reflexivity|]. cbn [map]. rewrite zipw_cons, IH. reflexivity. Qed.

  Lemma zipw_map_l : forall (h : A -> B -> C) (g : A -> B) (X : list A),
    zipw h X (map g X) = map (fun x => h x (g x)) X.
  Proof. induction X as [|x X IH]; [reflexivity|]. cbn [map]. rewrite zipw_cons, IH. reflexivity. Qed.

  Lemma zipw_map_r : forall (h : A -> B -> C) (f : B -> A) (X : list B),
    zipw h (map f X) X = map (fun x => h (f x) x) X.
  Proof. induction X as [|x X IH]; [reflexivity|]. cbn [map]. rewrite zipw_cons, IH. reflexivity. Qed.

  Lemma zipw_repeat_r : forall (h : A -> B -> C) (X : list A) c n, length X <= n ->
    zipw h X (repeat c n) = map (fun x => h x c) X.
  Proof.
    induction X as [|x X IH]; intros c n Hn; [reflexivity|].
    destruct n; cbn [length] in Hn; [lia|]. cbn [repeat map]. rewrite zipw_cons, IH by lia. reflexivity.
  Qed.

  Lemma zipw_repeat_l : forall (h : A -> B -> C) (X : list B) c n, length X <= n ->
    zipw h (repeat c n) X = map (fun x => h c x) X.
  Proof.
    induction X as [|x X IH]; intros c n Hn.
    - unfold zipw. rewrite combine_nil. reflexivity.
    - destruct n; cbn [length] in Hn; [lia|]. cbn [repeat map]. rewrite zipw_cons, IH by lia. reflexivity.
  Qed.

  Lemma zipw_app : forall (h : A -> B -> C) a1 a2 b1 b2, length a1 = length b1 ->
    zipw h (a1 ++ a2) (b1 ++ b2) = zipw h a1 b1 ++ zipw h a2 b2.
  Proof.
    induction a1 as [|x a1 IH]; intros a2 b1 b2 Hl; destruct b1 as [|y b1]; try discriminate; [reflexivity|].
    cbn [app]. rewrite !zipw_cons. cbn [app]. f_equal. apply IH. simpl in Hl. lia.
  Qed.

  Lemma zipw_flat_map : forall (h : A -> B -> C) (f : D -> list A) (g : D -> list B) (X : list D),
    (forall x, length (f x) = length (g x)) ->
    zipw h (flat_map f X) (flat_map g X) = flat_map (fun x => zipw h (f x) (g x)) X.
  Proof.
    intros h f g X Hl. induction X as [|x X IH]; [reflexivity|].
    cbn [flat_map]. rewrite zipw_app by apply Hl. rewrite IH. reflexivity.
  Qed.

  Lemma zipw_ext : forall (h h' : A -> B -> C) a b, (forall x y, h x y = h' x y) -> zipw h a b = zipw h' a b.
  Proof. intros. unfold zipw. apply map_ext. intros [x y]. apply H. Qed.
End Toolbox.

Lemma map_flat_map' : forall {A B C} (f : A -> list B) (g : B -> C) (l : list A),
  map g (flat_map f l) = flat_map (fun x => map g (f x)) l.
Proof. induction l as [|x l IH]; [reflexivity|]. cbn [flat_map]. rewrite map_app, IH. reflexivity. Qed.

Lemma flat_map_map' : forall {A B C} (f : A -> B) (g : B -> list C) (l : list A),
  flat_map g (map f l) = flat_map (fun x => g (f x)) l.
Proof. induction l as [|x l IH]; [reflexivity|]. cbn [map flat_map]. rewrite IH. reflexivity. Qed.

Lemma flat_map_ext' : forall {A B} (f g : A -> list B) (l : list A),
  (forall x, In x l -> f x = g x) -> flat_map f l = flat_map g l.
Proof.
  induction l as [|x l IH]; intros H; [reflexivity|]. cbn [flat_map].
  rewrite H by (left; reflexivity). rewrite IH; [reflexivity|]. intros; apply H; right; assumption.
Qed.

Lemma concat_map_map : forall {A B} (f : A -> B) (ls : list (list A)),
  concat (map (map f) ls) = map f (concat ls).
Proof. intros. rewrite concat_map. reflexivity. Qed.

(* chunks of a concatenation of pieces of exactly k elements are the pieces *)
Lemma chunks_fuel_indep : forall {A} f1 f2 k (l : list A), 0 < k -> length l <= f1 -> length l <= f2 ->
  chunks_fuel f1 k l = chunks_fuel f2 k l.
Proof.
  induction f1 as [|f1 IH]; intros f2 k l Hk H1 H2.
  - destruct l; [|simpl in H1; lia]. destruct f2; reflexivity.
  - destruct l as [|x l]; [destruct f2; reflexivity|].
    destruct f2; [simpl in H2; lia|]. cbn [chunks_fuel]. f_equal.
    apply IH; auto; rewrite skipn_length; cbn [length] in *; lia.
Qed.

Lemma chunks_flat_map_uniform : forall {A B} k (g : A -> list B) (X : list A), 0 < k ->
  (forall x, length (g x) = k) -> chunks k (flat_map g X) = map g X.
Proof.
  intros A B k g X Hk Hg. induction X as [|x X IH]; [reflexivity|].
  cbn [flat_map map]. unfold chunks.
  assert (Hne : g x <> []) by (intro E; specialize (Hg x); rewrite E in Hg; simpl in Hg; lia).
  destruct (g x ++ flat_map g X) as [|y r] eqn:E.
  - destruct (g x); [congruence|discriminate].
  - rewrite <- E. rewrite app_length, Hg.
    destruct k as [|k']; [lia|]. cbn [Nat.add chunks_fuel]. rewrite E. rewrite <- E.
    rewrite firstn_app, skipn_app, Hg, Nat.sub_diag. rewrite <- (Hg x) at 1 3. rewrite firstn_all, skipn_all.
    cbn [firstn skipn app]. rewrite app_nil_r. f_equal.
    rewrite <- IH. unfold chunks. apply chunks_fuel_indep; lia.
Qed.

(* ---------- opt_all ---------- *)
Lemma opt_all_map_Some : forall {A B} (f : A -> B) (l : list A), opt_all (map (fun x => Some (f x)) l) = Some (map f l).
Proof. induction l as [|x l IH]; [reflexivity|]. cbn [map opt_all]. rewrite IH. reflexivity. Qed.

Lemma opt_all_Some_length : forall {A} (l : list (option A)) r, opt_all l = Some r -> length r = length l.
Proof.
  induction l as [|[x|] l IH]; intros r H; cbn [opt_all] in H; try discriminate.
  - inversion H; reflexivity.
  - destruct (opt_all l) eqn:E; [|discriminate]. inversion H; subst. cbn [length]. f_equal. apply IH; reflexivity.
Qed.

Lemma opt_all_map_ext : forall {A B} (f g : A -> option B) (l : list A),
  (forall x, In x l -> f x = g x) -> opt_all (map f l) = opt_all (map g l).
Proof.
  intros. f_equal. apply map_ext_in. assumption.
Qed.

(* ---------- select ---------- *)
Lemma select_map : forall {A B} (f : A -> B) idx (X : list A),
  select idx (map f X) = option_map (map f) (select idx X).
Proof.
  induction idx as [|i idx IH]; intros X; [reflexivity|].
  cbn [select]. rewrite nth_error_map, IH.
  destruct (nth_error X i); [|reflexivity]. cbn [option_map]. destruct (select idx X); reflexivity.
Qed.

(* ---------- take_cols / permutations ---------- *)
Lemma take_cols_map : forall {A B} (f : A -> B) p (row : list A),
  take_cols p (map f row) = map f (take_cols p row).
Proof.
  intros. unfold take_cols. rewrite map_flat_map'. apply flat_map_ext'. intros i _.
  rewrite nth_error_map. destruct (nth_error row i); reflexivity.
Qed.

Lemma take_cols_nth : forall {A} (d : A) p (row : list A), Forall (fun i => i < length row) p ->
  take_cols p row = map (fun i => nth i row d) p.
Proof.
  intros A d p row H. induction H as [|i p Hi _ IH]; [reflexivity|].
  unfold take_cols in *. cbn [flat_map map]. rewrite IH.
  destruct (nth_error row i) eqn:E.
  - rewrite (nth_error_nth _ _ d E). reflexivity.
  - apply nth_error_None in E. lia.
Qed.

Lemma map_nth_seq' : forall {A} (d : A) (l : list A), map (fun i => nth i l d) (seq 0 (length l)) = l.
Proof.
  intros A d l. induction l as [|x l IH]; [reflexivity|].
  cbn [length seq map nth]. f_equal. rewrite <- seq_shift, map_map. exact IH.
Qed.

Lemma is_perm_bound : forall p n, is_perm p n -> Forall (fun i => i < n) p.
Proof.
  intros p n H. apply Forall_forall. intros i Hi.
  apply (Permutation_in _ H) in Hi. apply in_seq in Hi. lia.
Qed.

Lemma take_cols_perm : forall {A} p (row : list A), is_perm p (length row) -> Permutation (take_cols p row) row.
Proof.
  intros A p row H. destruct row as [|d row'] eqn:E.
  - unfold is_perm in H. cbn in H. apply Permutation_sym, Permutation_nil in H. subst. constructor.
  - rewrite <- E in *. rewrite (take_cols_nth d) by (apply is_perm_bound; assumption).
    eapply Permutation_trans; [apply Permutation_map; exact H|]. rewrite map_nth_seq'. apply Permutation_refl.
Qed.

Lemma take_cols_length : forall {A} p (row : list A), is_perm p (length row) -> length (take_cols p row) = length row.
Proof. intros. apply Permutation_length, take_cols_perm. assumption. Qed.

(* a fold with a left-commutative step does not see the order of the list *)
Lemma fold_right_perm : forall {A B} (f : A -> B -> B) (z : B) l l',
  (forall a b c, f a (f b c) = f b (f a c)) -> Permutation l l' -> fold_right f z l = fold_right f z l'.
Proof.
  intros A B f z l l' Hc H. induction H; cbn [fold_right]; try congruence.
Qed.

(* ================================================================== *)
(* 2. scalar-level facts                                               *)
(* ================================================================== *)
Section Algebra.
  Context {R : Type} (O : Ops R).
  Notation vec := (list R).
  Notation mat := (list (list R)).

  Hypothesis add_comm : forall a b, oadd O a b = oadd O b a.
  Hypothesis add_assoc : forall a b c, oadd O a (oadd O b c) = oadd O (oadd O a b) c.

  Lemma add_lcomm : forall a b c, oadd O a (oadd O b c) = oadd O b (oadd O a c).
  Proof. intros. rewrite !add_assoc, (add_comm a b). reflexivity. Qed.

  Lemma vsum_perm : forall v v', Permutation v v' -> vsum O v = vsum O v'.
  Proof. intros. unfold vsum. apply fold_right_perm; [apply add_lcomm | assumption]. Qed.

  Lemma vadd_comm : forall a b, vadd O a b = vadd O b a.
  Proof.
    induction a as [|x a IH]; intros [|y b]; try reflexivity.
    unfold vadd in *. rewrite !zipw_cons, IH, add_comm. reflexivity.
  Qed.

  Lemma vadd_assoc : forall a b c, vadd O a (vadd O b c) = vadd O (vadd O a b) c.
  Proof.
    induction a as [|x a IH]; intros [|y b] [|z c]; try reflexivity.
    unfold vadd in *. rewrite !zipw_cons, IH, add_assoc. reflexivity.
  Qed.

  Lemma vadd_lcomm : forall a b c, vadd O a (vadd O b c) = vadd O b (vadd O a c).
  Proof. intros. rewrite !vadd_assoc, (vadd_comm a b). reflexivity. Qed.

  Lemma vecsum_perm : forall n vs vs', Permutation vs vs' -> vecsum O n vs = vecsum O n vs'.
  Proof. intros. unfold vecsum. apply fold_right_perm; [apply vadd_lcomm | assumption]. Qed.

  (* softmax-weighted combination, written over a list of items xs with score s and value v *)
  Lemma attn_agg_form : forall n (g : R -> R) (s : vec -> R) (v : vec -> vec) (xs : mat),
    lincomb O n (softmax O (map (fun x => g (s x)) xs)) (map v xs) =
    vecsum O n (map (fun x => vscale O (odiv O (ofn O FExp (g (s x)))
                                              (vsum O (map (fun y => ofn O FExp (g (s y))) xs))) (v x)) xs).
  Proof.
    intros. unfold lincomb, softmax. rewrite !map_map. rewrite zipw_map. reflexivity.
  Qed.

  Lemma attn_agg_perm : forall n (g : R -> R) (s : vec -> R) (v : vec -> vec) (xs xs' : mat),
    Permutation xs xs' ->
    lincomb O n (softmax O (map (fun x => g (s x)) xs)) (map v xs) =
    lincomb O n (softmax O (map (fun x => g (s x)) xs')) (map v xs').
  Proof.
    intros n g s v xs xs' H. rewrite !attn_agg_form.
    rewrite (vsum_perm _ _ (Permutation_map (fun y => ofn O FExp (g (s y))) H)).
    apply vecsum_perm. apply Permutation_map. exact H.
  Qed.
End Algebra.

(* ================================================================== *)
(* 3. row-wise theorems (C14 core, C15 "all layers row-wise")          *)
(* ================================================================== *)
Section Rowwise.
  Context {R : Type} (O : Ops R).
  Notation vec := (list R).
  Notation mat := (list (list R)).
  Notation t3 := (list (list (list R))).

  (* a batch-level block F acts on every element of the batch axis separately, as f *)
  Definition acts_rowwise {U T : Type} (F : list U -> list T) (f : U -> T) : Prop := forall X, F X = map f X.
  (* a block on [B, cols, C] acting on the last axis only (nn.Linear, LayerNorm) *)
  Definition acts_lastaxis (F : t3 -> t3) (f : vec -> vec) : Prop := forall X, F X = map (map f) X.

  Lemma lastaxis_rowwise : forall F f, acts_lastaxis F f -> acts_rowwise F (map f).
  Proof. intros F f H X. apply H. Qed.

  Lemma sequential_rowwise : forall {T} (Fs : list (list T -> list T)) (fs : list (T -> T)),
    Forall2 acts_rowwise Fs fs -> acts_rowwise (sequential Fs) (sequential fs).
  Proof.
    intros T Fs fs H. induction H as [|F f Fs fs HF _ IH]; intros X.
    - cbn. rewrite map_id. reflexivity.
    - unfold sequential in *. cbn [fold_left]. rewrite HF. rewrite IH. rewrite map_map. reflexivity.
  Qed.

  (* consequences of row-wiseness: what the property statement lists *)
  Lemma rowwise_select : forall {U T} (F : list U -> list T) f, acts_rowwise F f ->
    forall idx X, select idx (F X) = option_map F (select idx X).
  Proof.
    intros U T F f H idx X. rewrite H, select_map. destruct (select idx X); cbn; [rewrite H|]; reflexivity.
  Qed.
  Lemma rowwise_alone : forall {U T} (F : list U -> list T) f, acts_rowwise F f ->
    forall X, F X = flat_map (fun x => F [x]) X.
  Proof.
    intros U T F f H X. rewrite H. induction X as [|x X IH]; [reflexivity|].
    cbn [map flat_map]. rewrite H. cbn [map app]. f_equal. exact IH.
  Qed.
  Lemma rowwise_length : forall {U T} (F : list U -> list T) f, acts_rowwise F f -> forall X, length (F X) = length X.
  Proof. intros. rewrite H. apply map_length. Qed.
  Lemma rowwise_one_row_changes : forall {U T} (F : list U -> list T) f, acts_rowwise F f ->
    forall X1 x x' X2, F (X1 ++ x' :: X2) = firstn (length X1) (F (X1 ++ x :: X2)) ++ f x' :: skipn (S (length X1)) (F (X1 ++ x :: X2)).
  Proof.
    intros U T F f H X1 x x' X2. rewrite !H, !map_app. cbn [map].
    rewrite <- (map_length f X1) at 1 2.
    rewrite firstn_app, Nat.sub_diag, firstn_all. cbn [firstn]. rewrite app_nil_r.
    replace (S (length (map f X1))) with (length (map f X1 ++ [f x])) by (rewrite app_length; simpl; lia).
    replace (map f X1 ++ f x :: map f X2) with ((map f X1 ++ [f x]) ++ map f X2) by (rewrite <- app_assoc; reflexivity).
    rewrite skipn_app, Nat.sub_diag, skipn_all. reflexivity.
  Qed.

  (* ---------- batch norm, ghost batch norm ---------- *)
  (* the broadcast over the batch axis makes eval-mode batch norm a per-row map *)
  Lemma bn_eval_rowwise : forall mean var w b, acts_rowwise (bn_eval O mean var w b) (bn_eval_row O mean var w b).
  Proof.
    intros mean var w b X. unfold bn_eval, bn_eval_row.
    rewrite !zipw_repeat_r by (rewrite ?zipw_length, ?map_length, ?repeat_length; lia).
    rewrite !map_map. reflexivity.
  Qed.

  Lemma cdiv_pos : forall a b, 0 < a -> 0 < b -> 0 < cdiv a b.
  Proof.
    intros a b Ha Hb. unfold cdiv. apply Nat.div_str_pos. lia.
  Qed.

  (* GhostBatchNorm1d around ANY row-wise bn (eval mode): the chunking is invisible, for every batch
     size and every virtual batch size >= 1 *)
  Lemma ghost_bn_rowwise : forall (Bn : mat -> mat) bn vbs, 0 < vbs -> acts_rowwise Bn bn -> acts_rowwise (ghost_bn Bn vbs) bn.
  Proof.
    intros Bn bn vbs Hv H X. unfold ghost_bn.
    destruct (0 <? length X) eqn:E; [|apply H].
    apply Nat.ltb_lt in E.
    rewrite (map_ext _ _ H). rewrite concat_map_map. f_equal.
    unfold torch_chunk. apply chunks_concat.
    apply cdiv_pos; [assumption|]. apply cdiv_pos; assumption.
  Qed.

  (* ---------- MLP ---------- *)
  Lemma mlp_rowwise : forall {A} C (Enc : list A -> t3) enc_r Mlp mlp_r,
    acts_rowwise Enc enc_r -> acts_rowwise Mlp mlp_r ->
    acts_rowwise (mlp_forward O C Enc Mlp) (mlp_row O C enc_r mlp_r).
  Proof.
    intros A C Enc enc_r Mlp mlp_r HE HM X. unfold mlp_forward, mlp_row.
    rewrite HE, HM, !map_map. reflexivity.
  Qed.

  (* ---------- ResNet ---------- *)
  Definition opt_rowwise {U T} (F : option (list U -> list T)) (f : option (U -> T)) : Prop :=
    match F, f with
    | Some F, Some f => acts_rowwise F f
    | None, None => True
    | _, _ => False
    end.

  Lemma fc_residual_block_rowwise : forall Lin1 lin1 Lin2 lin2 N1 n1 N2 n2 Sc sc,
    acts_rowwise Lin1 lin1 -> acts_rowwise Lin2 lin2 ->
    opt_rowwise N1 n1 -> opt_rowwise N2 n2 -> opt_rowwise Sc sc ->
    acts_rowwise (fc_residual_block O Lin1 Lin2 N1 N2 Sc) (fc_residual_block_row O lin1 lin2 n1 n2 sc).
  Proof.
    intros Lin1 lin1 Lin2 lin2 N1 n1 N2 n2 Sc sc H1 H2 HN1 HN2 HS X.
    unfold fc_residual_block, fc_residual_block_row.
    rewrite H1.
    assert (E1 : match N1 with Some N => N (map lin1 X) | None => map lin1 X end =
                 map (fun x => match n1 with Some N => N (lin1 x) | None => lin1 x end) X).
    { destruct N1, n1; cbn in HN1; try contradiction; [rewrite HN1, map_map|]; reflexivity. }
    rewrite E1, map_map, H2, map_map.
    assert (E2 : forall (g : vec -> vec), match N2 with Some N => N (map g X) | None => map g X end =
                 map (fun x => match n2 with Some N => N (g x) | None => g x end) X).
    { intros g. destruct N2, n2; cbn in HN2; try contradiction; [rewrite HN2, map_map|]; reflexivity. }
    rewrite E2, map_map.
    assert (E3 : match Sc with Some S0 => S0 X | None => X end =
                 map (fun x => match sc with Some S0 => S0 x | None => x end) X).
    { destruct Sc, sc; cbn in HS; try contradiction; [rewrite HS | rewrite map_id]; reflexivity. }
    rewrite E3, zipw_map. reflexivity.
  Qed.

  Lemma resnet_rowwise : forall {A} (Enc : list A -> t3) enc_r Backbone backbone_r Dec dec_r,
    acts_rowwise Enc enc_r -> Forall2 acts_rowwise Backbone backbone_r -> acts_rowwise Dec dec_r ->
    acts_rowwise (resnet_forward Enc Backbone Dec) (resnet_row enc_r backbone_r dec_r).
  Proof.
    intros A Enc enc_r Bb bb Dec dec_r HE HB HD X. unfold resnet_forward, resnet_row.
    rewrite HE, map_map, (sequential_rowwise _ _ HB), HD, !map_map. reflexivity.
  Qed.

  (* ---------- TabNet ---------- *)
  Lemma glu_block_from_rowwise : forall Gs gs, Forall2 acts_rowwise Gs gs -> forall i nfr,
    acts_rowwise (glu_block_from O i nfr Gs) (glu_block_from_row O i nfr gs).
  Proof.
    intros Gs gs H. induction H as [|G g Gs gs HG _ IH]; intros i nfr X.
    - cbn. rewrite map_id. reflexivity.
    - cbn [glu_block_from glu_block_from_row].
      destruct (nfr && (i =? 0)).
      + rewrite (HG X), IH, map_map. reflexivity.
      + rewrite (HG X), zipw_map, IH, map_map. reflexivity.
  Qed.
  Lemma glu_block_rowwise : forall Gs gs nfr, Forall2 acts_rowwise Gs gs ->
    acts_rowwise (glu_block O nfr Gs) (glu_block_row O nfr gs).
  Proof. intros. apply glu_block_from_rowwise. assumption. Qed.

  Lemma attentive_rowwise : forall {A} Lin lin Bn bn vbs (f fp : A -> vec) (X : list A), 0 < vbs ->
    acts_rowwise Lin lin -> acts_rowwise Bn bn ->
    attentive O Lin Bn vbs (map f X) (map fp X) = map (fun x => attentive_row O lin bn (f x) (fp x)) X.
  Proof.
    intros A Lin lin Bn bn vbs f fp X Hv HL HB. unfold attentive, attentive_row.
    rewrite HL, (ghost_bn_rowwise _ _ _ Hv HB), !map_map, zipw_map, map_map. reflexivity.
  Qed.

  Definition step_rowwise (St : tabnet_step R) (s : tabnet_step_row R) : Prop :=
    match St, s with
    | (Lin, Bn, Ft), (lin, bn, ft) => acts_rowwise Lin lin /\ acts_rowwise Bn bn /\ acts_rowwise Ft ft
    end.

  Lemma tabnet_loop_rowwise : forall {A} split vbs Steps steps, 0 < vbs -> Forall2 step_rowwise Steps steps ->
    forall (fx fa fp : A -> vec) (g0 : A -> vec) (X : list A),
      fold_left (zipw (vadd O)) (tabnet_loop O split vbs Steps (map fx X) (map fa X) (map fp X)) (map g0 X) =
      map (fun a => fold_left (vadd O) (tabnet_loop_row O split steps (fx a) (fa a) (fp a)) (g0 a)) X.
  Proof.
    intros A split vbs Steps steps Hv H. induction H as [|St s Steps steps HS _ IH]; intros fx fa fp g0 X.
    - reflexivity.
    - destruct St as [[Lin Bn] Ft], s as [[lin bn] ft]. destruct HS as (HL & HB & HF).
      cbn [tabnet_loop tabnet_loop_row fold_left].
      rewrite (attentive_rowwise _ _ _ _ _ fa fp X Hv HL HB).
      rewrite zipw_map, HF, !map_map, zipw_map, zipw_map.
      rewrite (IH fx _ _ _ X). reflexivity.
  Qed.

  Lemma tabnet_loop_nil_iff : forall split vbs Steps x att prior,
    tabnet_loop O split vbs Steps x att prior = [] <-> Steps = [].
  Proof. intros. destruct Steps as [|[[? ?] ?] ?]; cbn; split; congruence. Qed.

  Lemma tabnet_rowwise : forall {A} (Enc : list A -> t3) enc_r Bn0 bn0 Ft0 ft0 split vbs Steps steps Lin lin,
    0 < vbs -> acts_rowwise Enc enc_r -> acts_rowwise Bn0 bn0 -> acts_rowwise Ft0 ft0 ->
    Forall2 step_rowwise Steps steps -> acts_rowwise Lin lin ->
    forall X, tabnet_forward O Enc Bn0 Ft0 split vbs Steps Lin X =
              match steps with [] => None | _ => Some (map (fun a => match tabnet_row O enc_r bn0 ft0 split steps lin a with Some v => v | None => [] end) X) end.
  Proof.
    intros A Enc enc_r Bn0 bn0 Ft0 ft0 split vbs Steps steps Lin lin Hv HE HB HF HS HL X.
    unfold tabnet_forward, tabnet_row. rewrite HE, map_map, HB, map_map, HF, !map_map.
    destruct HS as [|St s Steps steps HS1 HS].
    - reflexivity.
    - destruct St as [[Lin1 Bn1] Ft1], s as [[lin1 bn1] ft1]. destruct HS1 as (HL1 & HB1 & HF1).
      cbn [tabnet_loop tabnet_loop_row].
      rewrite (attentive_rowwise _ _ _ _ _ _ _ X Hv HL1 HB1).
      rewrite zipw_map, HF1, !map_map, zipw_map.
      rewrite (tabnet_loop_rowwise split vbs Steps steps Hv HS _ _ _ _ X).
      rewrite HL, map_map. reflexivity.
  Qed.
End Rowwise.

(* ================================================================== *)
(* 4. attention layers, decoders, Trompt: row-wise                     *)
(* ================================================================== *)
Section RowwiseConvs.
  Context {R : Type} (O : Ops R).
  Notation vec := (list R).
  Notation mat := (list (list R)).
  Notation t3 := (list (list (list R))).

  Lemma heads_split_length : forall H d (row : mat), length (heads_split H d row) = H.
  Proof. intros. unfold heads_split. rewrite map_length, seq_length. reflexivity. Qed.

  Lemma mha_rowwise : forall H d post LinQ lq LinK lk LinV lv, 0 < H ->
    acts_lastaxis LinQ lq -> acts_lastaxis LinK lk -> acts_lastaxis LinV lv ->
    acts_rowwise (mha O H d post LinQ LinK LinV) (mha_row O H d post lq lk lv).
  Proof.
    intros H d post LinQ lq LinK lk LinV lv HH HQ HK HV X.
    unfold mha, mha_row, reshape_heads. rewrite HQ, HK, HV.
    rewrite <- !flat_map_concat_map, !flat_map_map'.
    rewrite zipw_flat_map by (intros; rewrite !heads_split_length; reflexivity).
    rewrite map_flat_map'.
    rewrite zipw_flat_map
      by (intros; rewrite map_length, zipw_length, !heads_split_length, Nat.min_id; reflexivity).
    rewrite chunks_flat_map_uniform; [rewrite map_map; reflexivity | assumption |].
    intros row. rewrite zipw_length, map_length, zipw_length, !heads_split_length, !Nat.min_id. reflexivity.
  Qed.

  Lemma tab_conv_rowwise : forall H d Norm1 norm1 LinQ lq LinK lk LinV lv LinOut lout Lin1 lin1 Lin2 lin2, 0 < H ->
    acts_lastaxis Norm1 norm1 -> acts_lastaxis LinQ lq -> acts_lastaxis LinK lk -> acts_lastaxis LinV lv ->
    acts_lastaxis LinOut lout -> acts_lastaxis Lin1 lin1 -> acts_lastaxis Lin2 lin2 ->
    acts_rowwise (tab_conv O H d Norm1 LinQ LinK LinV LinOut Lin1 Lin2)
                 (tab_conv_row O H d norm1 lq lk lv lout lin1 lin2).
  Proof.
    intros H d Norm1 norm1 LinQ lq LinK lk LinV lv LinOut lout Lin1 lin1 Lin2 lin2 HH HN HQ HK HV HO H1 H2 X.
    unfold tab_conv, tab_conv_row. rewrite HN.
    rewrite (mha_rowwise H d _ _ _ _ _ _ _ HH HQ HK HV). rewrite HO, !map_map, zipw_map, H1, !map_map, H2, !map_map.
    apply map_ext. intros row. unfold ffn_vec. rewrite !map_map. reflexivity.
  Qed.

  Definition opt_lastaxis (F : option (t3 -> t3)) (f : option (vec -> vec)) : Prop :=
    match F, f with
    | Some F, Some f => acts_lastaxis F f
    | None, None => True
    | _, _ => False
    end.

  Lemma diam_rowwise : forall n H d LinQ lq LinK lk LinV lv LinOut lout, 0 < H ->
    acts_lastaxis LinQ lq -> acts_lastaxis LinK lk -> acts_lastaxis LinV lv -> opt_lastaxis LinOut lout ->
    acts_rowwise (diam O n H d LinQ LinK LinV LinOut) (diam_row O n H d lq lk lv lout).
  Proof.
    intros n H d LinQ lq LinK lk LinV lv LinOut lout HH HQ HK HV HO X. unfold diam, diam_row.
    rewrite (mha_rowwise H d _ _ _ _ _ _ _ HH HQ HK HV).
    destruct LinOut, lout; cbn in HO; try contradiction; [rewrite HO, map_map|]; reflexivity.
  Qed.

  Lemma opt_all_map_if : forall {A B} (c : A -> bool) (f : A -> B) (X : list A),
    opt_all (map (fun x => if c x then Some (f x) else None) X) =
    if forallb c X then Some (map f X) else None.
  Proof.
    induction X as [|x X IH]; [reflexivity|]. cbn [map opt_all forallb].
    destruct (c x); [|reflexivity]. cbn [andb]. rewrite IH. destruct (forallb c X); reflexivity.
  Qed.

  (* the batch computation raises iff it raises for some row; otherwise it is the map of the row function *)
  Lemma excel_conv_rowwise : forall n H d Norm1 norm1 LinQ lq LinK lk LinV lv LinOut lout Norm2 norm2 A1 a1 A2 a2,
    0 < H -> acts_lastaxis Norm1 norm1 -> acts_lastaxis LinQ lq -> acts_lastaxis LinK lk -> acts_lastaxis LinV lv ->
    opt_lastaxis LinOut lout -> acts_lastaxis Norm2 norm2 -> acts_lastaxis A1 a1 -> acts_lastaxis A2 a2 ->
    forall X, excel_conv O n H d Norm1 LinQ LinK LinV LinOut Norm2 A1 A2 X =
              opt_all (map (excel_conv_row O n H d norm1 lq lk lv lout norm2 a1 a2) X).
  Proof.
    intros n H d Norm1 norm1 LinQ lq LinK lk LinV lv LinOut lout Norm2 norm2 A1 a1 A2 a2
           HH HN HQ HK HV HO HN2 HA1 HA2 X.
    unfold excel_conv, excel_conv_row.
    rewrite (opt_all_map_if (fun row => length row =? n)).
    destruct (forallb _ X); [|reflexivity]. f_equal.
    rewrite HN, (diam_rowwise n H d _ _ _ _ _ _ _ _ HH HQ HK HV HO), !map_map, zipw_map.
    rewrite HN2, HA1, HA2, !map_map, zipw_map, zipw_map.
    apply map_ext. intros row. unfold excel_conv_core_row, aium_vec.
    rewrite !map_map, zipw_map. reflexivity.
  Qed.

  Lemma excel_decoder_rowwise : forall Cin Cout LinF lin_f LinD lin_d,
    acts_lastaxis LinF lin_f -> acts_lastaxis LinD lin_d ->
    acts_rowwise (excel_decoder O Cin Cout LinF LinD) (excel_decoder_row O Cin Cout lin_f lin_d).
  Proof.
    intros Cin Cout LinF lin_f LinD lin_d HF HD X. unfold excel_decoder, excel_decoder_row.
    rewrite HF, !map_map, HD, !map_map. apply map_ext. intros row. rewrite !map_map. reflexivity.
  Qed.

  (* ---------- FT-Transformer convs ---------- *)
  Lemma split_first_rowwise : forall (g : mat -> mat) (X : t3),
    match opt_all (map (fun row => nth_error (g row) 0) X) with
    | Some c => Some (map (fun row => skipn 1 (g row)) X, c)
    | None => None
    end =
    option_map (fun l => (map fst l, map snd l))
      (opt_all (map (fun row => match nth_error (g row) 0 with
                                | Some c => Some (skipn 1 (g row), c)
                                | None => None
                                end) X)).
  Proof.
    intros g X. induction X as [|x X IH]; [reflexivity|].
    cbn [map opt_all]. destruct (nth_error (g x) 0) as [c|]; [|reflexivity].
    destruct (opt_all (map (fun row => nth_error (g row) 0) X)) as [cs|];
      destruct (opt_all (map _ X)) as [l|]; cbn [option_map] in IH |- *; try discriminate; [|reflexivity].
    assert (E1 : map (fun row => skipn 1 (g row)) X = map fst l) by congruence.
    assert (E2 : cs = map snd l) by congruence.
    cbn [map fst snd]. rewrite E1, E2. reflexivity.
  Qed.

  Lemma ft_convs_rowwise : forall (cls : vec) (TE : t3 -> t3) te_r, acts_rowwise TE te_r ->
    forall X, ft_convs cls TE X =
              option_map (fun l => (map fst l, map snd l)) (opt_all (map (ft_convs_row cls te_r) X)).
  Proof.
    intros cls TE te_r HT X. unfold ft_convs. cbv zeta.
    rewrite zipw_repeat_l by lia. rewrite (HT _), !map_map.
    exact (split_first_rowwise (fun row => te_r (cls :: row)) X).
  Qed.
End RowwiseConvs.

(* ================================================================== *)
(* 5. option plumbing and the remaining models                         *)
(* ================================================================== *)
Definition unwrap {A} (d : A) (o : option A) : A := match o with Some x => x | None => d end.

Lemma opt_all_option_map : forall {A B C} (h : B -> C) (F : A -> option B) (X : list A),
  opt_all (map (fun a => option_map h (F a)) X) = option_map (map h) (opt_all (map F X)).
Proof.
  induction X as [|x X IH]; [reflexivity|]. cbn [map opt_all].
  destruct (F x); cbn [option_map]; [|reflexivity]. rewrite IH. destruct (opt_all (map F X)); reflexivity.
Qed.

Lemma opt_all_Some_inv : forall {A B} (d : B) (F : A -> option B) (X : list A) Y,
  opt_all (map F X) = Some Y ->
  Y = map (fun a => unwrap d (F a)) X /\ (forall a, In a X -> F a = Some (unwrap d (F a))).
Proof.
  induction X as [|x X IH]; intros Y H; cbn [map opt_all] in H.
  - inversion H. split; [reflexivity | intros a []].
  - destruct (F x) as [y|] eqn:E; [|discriminate].
    destruct (opt_all (map F X)) as [Y'|] eqn:E'; [|discriminate]. inversion H; subst.
    destruct (IH Y' eq_refl) as [IH1 IH2]. split.
    + cbn [map]. rewrite E. cbn. f_equal. exact IH1.
    + intros a [<-|Ha]; [rewrite E; reflexivity | apply IH2; assumption].
Qed.

Lemma opt_all_None_inv : forall {A B} (F : A -> option B) (X : list A),
  opt_all (map F X) = None -> exists a, In a X /\ F a = None.
Proof.
  induction X as [|x X IH]; intros H; cbn [map opt_all] in H; [discriminate|].
  destruct (F x) eqn:E.
  - destruct (opt_all (map F X)) eqn:E'; [discriminate|].
    destruct (IH eq_refl) as (a & Ha & Fa). exists a. split; [right|]; assumption.
  - exists x. split; [left; reflexivity | assumption].
Qed.

Lemma opt_all_None_intro : forall {A B} (G : A -> option B) (X : list A) a,
  In a X -> G a = None -> opt_all (map G X) = None.
Proof.
  induction X as [|x X IH]; intros a Ha Ga; [destruct Ha|]. cbn [map opt_all].
  destruct Ha as [<-|Ha]; [rewrite Ga; reflexivity|].
  destruct (G x); [|reflexivity]. rewrite (IH a Ha Ga). reflexivity.
Qed.

(* sequencing a row-wise partial step F with a row-wise continuation *)
Lemma opt_all_bind : forall {A B C} (d : B) (F : A -> option B) (K : A -> B -> option C) (X : list A),
  opt_all (map (fun a => match F a with Some y => K a y | None => None end) X) =
  match opt_all (map F X) with
  | Some _ => opt_all (map (fun a => K a (unwrap d (F a))) X)
  | None => None
  end.
Proof.
  intros A B C d F K X. destruct (opt_all (map F X)) as [Y|] eqn:E.
  - destruct (opt_all_Some_inv d F X Y E) as [_ H]. apply opt_all_map_ext. intros a Ha.
    rewrite (H a Ha) at 1. reflexivity.
  - destruct (opt_all_None_inv F X E) as (a & Ha & Fa).
    apply (opt_all_None_intro _ X a Ha). rewrite Fa. reflexivity.
Qed.

Lemma zipw_map2 : forall {A B C D E} (h : C -> D -> E) (f : A -> C) (g : B -> D) (X : list A) (Y : list B),
  zipw h (map f X) (map g Y) = zipw (fun x y => h (f x) (g y)) X Y.
Proof.
  induction X as [|x X IH]; intros Y; [reflexivity|]. destruct Y as [|y Y]; [reflexivity|].
  cbn [map]. rewrite !zipw_cons, IH. reflexivity.
Qed.

Lemma zipw_flip_ext : forall {A B C} (h1 : B -> A -> C) (h2 : A -> B -> C) (X : list A) (Y : list B),
  (forall x y, h1 y x = h2 x y) -> zipw h1 Y X = zipw h2 X Y.
Proof.
  intros A B C h1 h2 X Y H. revert Y. induction X as [|x X IH]; intros [|y Y]; try reflexivity.
  rewrite !zipw_cons, IH, H. reflexivity.
Qed.

Lemma zipw_same : forall {A C} (h : A -> A -> C) (X : list A), zipw h X X = map (fun x => h x x) X.
Proof. induction X as [|x X IH]; [reflexivity|]. rewrite zipw_cons, IH. reflexivity. Qed.

Section RowwiseModels.
  Context {R : Type} (O : Ops R).
  Notation vec := (list R).
  Notation mat := (list (list R)).
  Notation t3 := (list (list (list R))).

  (* a partial batch-level block: raises iff it raises on some row *)
  Definition acts_rowwise_opt {U T : Type} (F : list U -> option (list T)) (f : U -> option T) : Prop :=
    forall X, F X = opt_all (map f X).

  (* ---------- FT-Transformer ---------- *)
  Lemma ft_rowwise : forall {A} (Enc : list A -> t3) enc_r (cls : vec) TE te_r Dec dec_r,
    acts_rowwise Enc enc_r -> acts_rowwise TE te_r -> acts_rowwise Dec dec_r ->
    acts_rowwise_opt (ft_forward Enc cls TE Dec) (ft_row enc_r cls te_r dec_r).
  Proof.
    intros A Enc enc_r cls TE te_r Dec dec_r HE HT HD X. unfold ft_forward, ft_row.
    rewrite HE, (ft_convs_rowwise cls TE te_r HT), map_map.
    rewrite (opt_all_map_ext _ (fun a => option_map (fun p => dec_r (snd p)) (ft_convs_row cls te_r (enc_r a))))
      by (intros a _; destruct (ft_convs_row cls te_r (enc_r a)) as [[? ?]|]; reflexivity).
    rewrite opt_all_option_map.
    destruct (opt_all (map (fun a => ft_convs_row cls te_r (enc_r a)) X)) as [l|]; cbn [option_map]; [|reflexivity].
    rewrite HD, map_map. reflexivity.
  Qed.

  (* ---------- TabTransformer ---------- *)
  Lemma tabt_rowwise : forall {A} has_cat has_num (CatEnc : list A -> t3) cat_enc_r (pad : mat) Convs convs_r
                              NumEnc num_enc_r NumNorm num_norm_r Dec dec_r,
    has_cat || has_num = true ->
    acts_rowwise CatEnc cat_enc_r -> Forall2 acts_rowwise Convs convs_r ->
    acts_rowwise NumEnc num_enc_r -> acts_rowwise NumNorm num_norm_r -> acts_rowwise Dec dec_r ->
    acts_rowwise_opt (tabt_forward has_cat has_num CatEnc pad Convs NumEnc NumNorm Dec)
                     (tabt_row has_cat has_num cat_enc_r pad convs_r num_enc_r num_norm_r dec_r).
  Proof.
    intros A hc hn CatEnc cat_enc_r pad Convs convs_r NumEnc num_enc_r NumNorm num_norm_r Dec dec_r
           Hb HC HCv HN HNn HD X.
    unfold tabt_forward, tabt_row.
    assert (Ecat : map (@concat R) (sequential Convs (zipw (zipw (@app R)) (CatEnc X) (repeat pad (length X)))) =
                   map (fun a => concat (sequential convs_r (zipw (@app R) (cat_enc_r a) pad))) X).
    { rewrite HC, zipw_repeat_r by (rewrite map_length; lia).
      rewrite (sequential_rowwise _ _ HCv), !map_map. reflexivity. }
    assert (Enum : NumNorm (map (@concat R) (NumEnc X)) = map (fun a => num_norm_r (concat (num_enc_r a))) X).
    { rewrite HN, HNn, !map_map. reflexivity. }
    destruct hc, hn; try discriminate; cbn [app fold_left]; cbv zeta.
    - rewrite Ecat, Enum, zipw_map, HD, map_map, opt_all_map_Some. reflexivity.
    - rewrite Ecat, HD, map_map, opt_all_map_Some. reflexivity.
    - rewrite Enum, HD, map_map, opt_all_map_Some. reflexivity.
  Qed.

  (* ---------- TabNet, restated ---------- *)
  Lemma tabnet_rowwise_opt : forall {A} (Enc : list A -> t3) enc_r Bn0 bn0 Ft0 ft0 split vbs Steps steps Lin lin,
    0 < vbs -> steps <> [] -> acts_rowwise Enc enc_r -> acts_rowwise Bn0 bn0 -> acts_rowwise Ft0 ft0 ->
    Forall2 (step_rowwise (R := R)) Steps steps -> acts_rowwise Lin lin ->
    acts_rowwise_opt (tabnet_forward O Enc Bn0 Ft0 split vbs Steps Lin) (tabnet_row O enc_r bn0 ft0 split steps lin).
  Proof.
    intros A Enc enc_r Bn0 bn0 Ft0 ft0 split vbs Steps steps Lin lin Hv Hne HE HB HF HS HL X.
    rewrite (tabnet_rowwise O Enc enc_r Bn0 bn0 Ft0 ft0 split vbs Steps steps Lin lin Hv HE HB HF HS HL X).
    destruct steps as [|[[l b] f] steps]; [congruence|].
    rewrite <- opt_all_map_Some. apply opt_all_map_ext. intros a _.
    unfold tabnet_row. cbn [tabnet_loop_row]. reflexivity.
  Qed.

  (* ---------- ExcelFormer ---------- *)
  Lemma opt_seq_rowwise : forall (Fs : list (t3 -> option t3)) (fs : list (mat -> option mat)),
    Forall2 acts_rowwise_opt Fs fs -> acts_rowwise_opt (opt_seq Fs) (opt_seq fs).
  Proof.
    intros Fs fs H. induction H as [|F f Fs fs HF _ IH]; intros X.
    - cbn [opt_seq]. rewrite opt_all_map_Some, map_id. reflexivity.
    - cbn [opt_seq]. rewrite HF.
      rewrite (opt_all_bind (@nil (list R)) f (fun _ y => opt_seq fs y) X).
      destruct (opt_all (map f X)) as [Y|] eqn:E; [|reflexivity].
      destruct (opt_all_Some_inv (@nil (list R)) f X Y E) as [-> _].
      rewrite IH, map_map. reflexivity.
  Qed.

  Lemma excel_rowwise : forall {A} (Enc : list A -> t3) enc_r Convs convs_r Dec dec_r,
    acts_rowwise Enc enc_r -> Forall2 acts_rowwise_opt Convs convs_r -> acts_rowwise Dec dec_r ->
    acts_rowwise_opt (excel_forward Enc Convs Dec) (excel_row enc_r convs_r dec_r).
  Proof.
    intros A Enc enc_r Convs convs_r Dec dec_r HE HC HD X. unfold excel_forward, excel_row.
    rewrite HE, (opt_seq_rowwise _ _ HC), map_map.
    rewrite (opt_all_map_ext _ (fun a => option_map dec_r (opt_seq convs_r (enc_r a))))
      by (intros a _; destruct (opt_seq convs_r (enc_r a)); reflexivity).
    rewrite opt_all_option_map.
    destruct (opt_all _); cbn [option_map]; [rewrite HD|]; reflexivity.
  Qed.
End RowwiseModels.

(* ================================================================== *)
(* 6. Trompt                                                           *)
(* ================================================================== *)
Section Trompt.
  Context {R : Type} (O : Ops R).
  Notation vec := (list R).
  Notation mat := (list (list R)).
  Notation t3 := (list (list (list R))).

  Lemma opt_all_zipw_guard : forall {A B C} (c1 : A -> bool) (c2 : B -> bool) (h : A -> B -> C) (X : list A) (Y : list B),
    length Y = length X ->
    opt_all (zipw (fun x y => if negb (c1 x) then None else if negb (c2 y) then None else Some (h x y)) X Y) =
    if negb (forallb c1 X) then None else if negb (forallb c2 Y) then None else Some (zipw h X Y).
  Proof.
    induction X as [|x X IH]; intros [|y Y] Hl; try discriminate; [reflexivity|].
    rewrite !zipw_cons. cbn [opt_all forallb]. injection Hl as Hl. rewrite (IH Y Hl).
    destruct (c1 x), (c2 y), (forallb c1 X), (forallb c2 Y); reflexivity.
  Qed.

  (* the conv treats the batch as a zip of (row of x, row of x_prompt); a batch-size mismatch is rejected *)
  Definition trompt_conv_rowwise_stmt (Conv : t3 -> t3 -> option t3) (conv : mat -> mat -> option mat) : Prop :=
    forall X Xp, Conv X Xp = if length Xp =? length X then opt_all (zipw conv X Xp) else None.

  Lemma trompt_conv_rowwise : forall n C P (ep ec : mat) (w : vec) Lin lin (GN : list t3 -> list t3) gn_r,
    acts_lastaxis Lin lin -> acts_rowwise GN gn_r ->
    trompt_conv_rowwise_stmt (trompt_conv O n C P ep ec w Lin GN) (trompt_conv_row O n C P ep ec w lin gn_r).
  Proof.
    intros n C P ep ec w Lin lin GN gn_r HL HG X Xp. unfold trompt_conv, trompt_conv_row.
    destruct (length Xp =? length X) eqn:El.
    - apply Nat.eqb_eq in El. rewrite (opt_all_zipw_guard (shape2_ok n C) (shape2_ok P C) _ X Xp El).
      unfold shape3_ok. cbn [andb].
      destruct (negb (forallb (shape2_ok n C) X)); [reflexivity|].
      destruct (negb (forallb (shape2_ok P C) Xp)); [reflexivity|]. f_equal.
      rewrite !zipw_repeat_l by lia.
      rewrite HL, !map_map, zipw_map.
      rewrite zipw_repeat_r by (rewrite map_length; lia). rewrite !map_map.
      rewrite HG, !map_map, zipw_map.
      rewrite zipw_map2.
      apply zipw_flip_ext. intros x y. rewrite map_map. reflexivity.
    - cbn [andb]. destruct (negb (shape3_ok n C X)); reflexivity.
  Qed.

  Lemma trompt_decoder_rowwise : forall P C LinAttn lin_attn Mlp mlp,
    acts_lastaxis LinAttn lin_attn -> acts_rowwise Mlp mlp ->
    acts_rowwise_opt (trompt_decoder O P C LinAttn Mlp) (trompt_decoder_row O P C lin_attn mlp).
  Proof.
    intros P C LinAttn lin_attn Mlp mlp HL HM X. unfold trompt_decoder, trompt_decoder_row.
    rewrite (opt_all_map_ext _ (fun x => if shape2_ok P C x
                                         then Some (mlp (lincomb O C (softmax O (concat (map lin_attn x))) x)) else None))
      by (intros x _; destruct (shape2_ok P C x); reflexivity).
    rewrite opt_all_map_if. unfold shape3_ok. destruct (forallb (shape2_ok P C) X); cbn [negb]; [|reflexivity].
    rewrite HL, map_map, zipw_map_r, HM, map_map. reflexivity.
  Qed.

  (* ---------- the model ---------- *)
  Definition trompt_layer_rowwise {A} (L : (list A -> t3) * (t3 -> t3 -> option t3))
             (l : (A -> mat) * (mat -> mat -> option mat)) : Prop :=
    acts_rowwise (fst L) (fst l) /\ trompt_conv_rowwise_stmt (snd L) (snd l).

  Lemma trompt_loop_rowwise : forall {A} layers layers_r (Dec : t3 -> option mat) dec,
    Forall2 (@trompt_layer_rowwise A) layers layers_r -> acts_rowwise_opt Dec dec ->
    forall (xpf : A -> mat) (g0 : A -> mat) (X : list A),
      match trompt_loop layers Dec X (map xpf X) with
      | Some outs => Some (fold_left (zipw (@app vec)) outs (map g0 X))
      | None => None
      end =
      opt_all (map (fun a => match trompt_loop_row layers_r dec a (xpf a) with
                             | Some outs => Some (fold_left (@app vec) outs (g0 a))
                             | None => None
                             end) X).
  Proof.
    intros A layers layers_r Dec dec H HD. induction H as [|L l layers layers_r HL _ IH]; intros xpf g0 X.
    - cbn [trompt_loop trompt_loop_row fold_left]. rewrite opt_all_map_Some. reflexivity.
    - destruct L as [Enc Conv], l as [enc conv]. destruct HL as [HE HC]. cbn [fst snd] in HE, HC.
      cbn [trompt_loop trompt_loop_row].
      rewrite HE, HC, !map_length, Nat.eqb_refl, zipw_map.
      (* row side: sequence conv, then dec, then the rest *)
      pose (K1 := fun (a : A) (xp' : mat) =>
                    match dec xp' with
                    | Some out => match trompt_loop_row layers_r dec a xp' with
                                  | Some outs => Some (fold_left (@app vec) ([out] :: outs) (g0 a))
                                  | None => None
                                  end
                    | None => None
                    end).
      transitivity (opt_all (map (fun a => match conv (enc a) (xpf a) with Some y => K1 a y | None => None end) X));
        [| apply opt_all_map_ext; intros a _; unfold K1; destruct (conv (enc a) (xpf a)) as [y|]; [|reflexivity];
            destruct (dec y); [|reflexivity]; destruct (trompt_loop_row layers_r dec a y); reflexivity].
      rewrite (opt_all_bind (@nil (list R)) (fun a => conv (enc a) (xpf a)) K1 X). unfold K1. clear K1.
      destruct (opt_all (map (fun a => conv (enc a) (xpf a)) X)) as [XP|] eqn:E1; [|reflexivity].
      destruct (opt_all_Some_inv (@nil (list R)) _ X XP E1) as [-> _].
      set (xpf' := fun a => unwrap [] (conv (enc a) (xpf a))).
      rewrite HD, map_map.
      pose (K2 := fun (a : A) (out : vec) =>
                    match trompt_loop_row layers_r dec a (xpf' a) with
                    | Some outs => Some (fold_left (@app vec) ([out] :: outs) (g0 a))
                    | None => None
                    end).
      transitivity (opt_all (map (fun a => match dec (xpf' a) with Some y => K2 a y | None => None end) X));
        [| apply opt_all_map_ext; intros a _; reflexivity].
      rewrite (opt_all_bind (@nil R) (fun a => dec (xpf' a)) K2 X). unfold K2. clear K2.
      destruct (opt_all (map (fun a => dec (xpf' a)) X)) as [OUT|] eqn:E2; [|reflexivity].
      destruct (opt_all_Some_inv (@nil R) _ X OUT E2) as [-> _].
      specialize (IH xpf' (fun a => g0 a ++ [unwrap [] (dec (xpf' a))]) X).
      cbn [fold_left]. rewrite <- IH.
      destruct (trompt_loop layers Dec X (map xpf' X)) as [outs|]; [|reflexivity].
      cbn [fold_left]. rewrite map_map, zipw_map. reflexivity.
  Qed.

  Lemma trompt_rowwise : forall {A} (prompt : mat) layers layers_r (Dec : t3 -> option mat) dec,
    layers_r <> [] ->
    Forall2 (@trompt_layer_rowwise A) layers layers_r -> acts_rowwise_opt Dec dec ->
    acts_rowwise_opt (trompt_forward prompt layers Dec) (trompt_row prompt layers_r dec).
  Proof.
    intros A prompt layers layers_r Dec dec Hne H HD X. unfold trompt_forward, trompt_row.
    destruct H as [|L l layers layers_r HL H]; [congruence|].
    destruct L as [Enc Conv], l as [enc conv]. destruct HL as [HE HC]. cbn [fst snd] in HE, HC.
    replace (repeat prompt (length X)) with (map (fun _ : A => prompt) X)
      by (induction X; cbn; congruence).
    cbn [trompt_loop trompt_loop_row].
    rewrite HE, HC, !map_length, Nat.eqb_refl, zipw_map.
    pose (K1 := fun (a : A) (xp' : mat) =>
                  match dec xp' with
                  | Some out => match trompt_loop_row layers_r dec a xp' with
                                | Some outs => Some (fold_left (@app vec) outs [out])
                                | None => None
                                end
                  | None => None
                  end).
    transitivity (opt_all (map (fun a => match conv (enc a) prompt with Some y => K1 a y | None => None end) X));
        [| apply opt_all_map_ext; intros a _; unfold K1; destruct (conv (enc a) prompt) as [y|]; [|reflexivity];
          destruct (dec y); [|reflexivity]; destruct (trompt_loop_row layers_r dec a y); reflexivity].
    rewrite (opt_all_bind (@nil (list R)) (fun a => conv (enc a) prompt) K1 X). unfold K1. clear K1.
    destruct (opt_all (map (fun a => conv (enc a) prompt) X)) as [XP|] eqn:E1; [|reflexivity].
    destruct (opt_all_Some_inv (@nil (list R)) _ X XP E1) as [-> _].
    set (xpf' := fun a => unwrap [] (conv (enc a) prompt)).
    rewrite HD, map_map.
    pose (K2 := fun (a : A) (out : vec) =>
                  match trompt_loop_row layers_r dec a (xpf' a) with
                  | Some outs => Some (fold_left (@app vec) outs [out])
                  | None => None
                  end).
    transitivity (opt_all (map (fun a => match dec (xpf' a) with Some y => K2 a y | None => None end) X));
        [| apply opt_all_map_ext; intros a _; reflexivity].
    rewrite (opt_all_bind (@nil R) (fun a => dec (xpf' a)) K2 X). unfold K2. clear K2.
    destruct (opt_all (map (fun a => dec (xpf' a)) X)) as [OUT|] eqn:E2; [|reflexivity].
    destruct (opt_all_Some_inv (@nil R) _ X OUT E2) as [-> _].
    pose proof (trompt_loop_rowwise layers layers_r Dec dec H HD xpf' (fun a => [unwrap [] (dec (xpf' a))]) X) as IH.
    rewrite map_map.
    destruct (trompt_loop layers Dec X (map xpf' X)) as [outs|].
    - rewrite IH. apply opt_all_map_ext. intros a _.
      destruct (trompt_loop_row layers_r dec a (xpf' a)); reflexivity.
    - rewrite IH. apply opt_all_map_ext. intros a _.
      destruct (trompt_loop_row layers_r dec a (xpf' a)); reflexivity.
  Qed.
End Trompt.

(* ================================================================== *)
(* 7. column form of multi-head attention; permutation equivariance    *)
(* ================================================================== *)
Section Equivariance.
  Context {R : Type} (O : Ops R).
  Notation vec := (list R).
  Notation mat := (list (list R)).
  Notation t3 := (list (list (list R))).

  (* merging the heads = concatenating, per column, the head outputs *)
  Lemma heads_merge_map : forall {A} (F : nat -> A -> vec) (row : list A) hs, hs <> [] ->
    heads_merge (map (fun h => map (F h) row) hs) = map (fun x => flat_map (fun h => F h x) hs) row.
  Proof.
    intros A F row hs. induction hs as [|h hs IH]; intros Hne; [congruence|].
    destruct hs as [|h' hs].
    - cbn. apply map_ext. intros x. rewrite app_nil_r. reflexivity.
    - change (heads_merge (map (fun h0 => map (F h0) row) (h :: h' :: hs)))
        with (zipw (@app R) (map (F h) row) (heads_merge (map (fun h0 => map (F h0) row) (h' :: hs)))).
      rewrite IH by congruence. rewrite zipw_map. reflexivity.
  Qed.

  Lemma seq_nonempty : forall H, 0 < H -> seq 0 H <> [].
  Proof. intros [|H] Hp; [lia|]. discriminate. Qed.

  (* SelfAttention of TabTransformerConv, column by column *)
  Lemma tab_mha_colform : forall H d lq lk lv (xs : mat), 0 < H ->
    mha_row O H d (tab_post O) lq lk lv xs =
    map (fun xj => flat_map (fun h => tab_head_out O d lq lk lv h xj xs) (seq 0 H)) xs.
  Proof.
    intros H d lq lk lv xs HH. unfold mha_row, heads_split.
    rewrite zipw_map, map_map, zipw_map.
    transitivity (heads_merge (map (fun h => map (fun xj => tab_head_out O d lq lk lv h xj xs) xs) (seq 0 H))).
    - f_equal. apply map_ext. intros h. unfold tab_post, tab_head_out, head_slice, vfn. rewrite !map_map.
      apply map_ext. intros xj. rewrite !map_map. reflexivity.
    - apply (heads_merge_map (fun h xj => tab_head_out O d lq lk lv h xj xs)).
      apply seq_nonempty; assumption.
  Qed.

  Lemma tab_conv_colform : forall H d norm1 lq lk lv lout lin1 lin2 (row : mat), 0 < H ->
    tab_conv_row O H d norm1 lq lk lv lout lin1 lin2 row =
    map (fun xj => tab_conv_col O H d lq lk lv lout lin1 lin2 xj (map norm1 row)) (map norm1 row).
  Proof.
    intros H d norm1 lq lk lv lout lin1 lin2 row HH. unfold tab_conv_row.
    rewrite tab_mha_colform by assumption. rewrite map_map, zipw_map_l, map_map. reflexivity.
  Qed.

  (* a layer of the form  out[j] = G(x_j, {all columns})  with G blind to the order of the columns
     commutes with every re-ordering of the columns *)
  Lemma colform_equivariant : forall (G : vec -> mat -> vec),
    (forall x xs xs', Permutation xs xs' -> G x xs = G x xs') ->
    forall p (row : mat), is_perm p (length row) ->
      map (fun x => G x (take_cols p row)) (take_cols p row) = take_cols p (map (fun x => G x row) row).
  Proof.
    intros G HG p row Hp. rewrite take_cols_map. apply map_ext. intros x.
    apply HG. apply take_cols_perm. assumption.
  Qed.

  Section WithLaws.
    Hypothesis add_comm : forall a b, oadd O a b = oadd O b a.
    Hypothesis add_assoc : forall a b c, oadd O a (oadd O b c) = oadd O (oadd O a b) c.

    Lemma tab_head_out_perm : forall d lq lk lv h xj xs xs', Permutation xs xs' ->
      tab_head_out O d lq lk lv h xj xs = tab_head_out O d lq lk lv h xj xs'.
    Proof.
      intros d lq lk lv h xj xs xs' HP. unfold tab_head_out, vfn. rewrite !map_map.
      apply (attn_agg_perm O add_comm add_assoc d (ofn O FScale)
               (fun xl => dot O (head_slice d h (lq xj)) (head_slice d h (lk xl)))
               (fun xl => head_slice d h (lv xl)) xs xs' HP).
    Qed.

    Lemma tab_conv_col_perm : forall H d lq lk lv lout lin1 lin2 xj xs xs', Permutation xs xs' ->
      tab_conv_col O H d lq lk lv lout lin1 lin2 xj xs = tab_conv_col O H d lq lk lv lout lin1 lin2 xj xs'.
    Proof.
      intros. unfold tab_conv_col. do 3 f_equal. apply flat_map_ext'. intros h _.
      apply tab_head_out_perm. assumption.
    Qed.

    Theorem tab_conv_row_equivariant : forall H d norm1 lq lk lv lout lin1 lin2 p (row : mat),
      0 < H -> is_perm p (length row) ->
      tab_conv_row O H d norm1 lq lk lv lout lin1 lin2 (take_cols p row) =
      take_cols p (tab_conv_row O H d norm1 lq lk lv lout lin1 lin2 row).
    Proof.
      intros H d norm1 lq lk lv lout lin1 lin2 p row HH Hp.
      rewrite (tab_conv_colform H d norm1 lq lk lv lout lin1 lin2 row HH).
      rewrite (tab_conv_colform H d norm1 lq lk lv lout lin1 lin2 (take_cols p row) HH).
      rewrite <- (take_cols_map norm1 p row).
      refine (colform_equivariant (fun x xs => tab_conv_col O H d lq lk lv lout lin1 lin2 x xs) _ p (map norm1 row) _).
      - intros. apply tab_conv_col_perm. assumption.
      - rewrite map_length. assumption.
    Qed.
  End WithLaws.

  (* ---------- FT-Transformer: CLS slot fixed, the other tokens permuted ---------- *)
  Lemma take_cols_cons_shift : forall {A} (c : A) p (row : list A),
    take_cols (0 :: map S p) (c :: row) = c :: take_cols p row.
  Proof.
    intros. unfold take_cols. cbn [flat_map nth_error app]. f_equal. rewrite flat_map_map'. reflexivity.
  Qed.

  Lemma is_perm_cons_shift : forall p n, is_perm p n -> is_perm (0 :: map S p) (S n).
  Proof.
    intros p n H. unfold is_perm in *. cbn [seq]. apply perm_skip. rewrite <- seq_shift.
    apply Permutation_map. assumption.
  Qed.

  Theorem ft_convs_row_equivariant : forall (cls : vec) (te_r : mat -> mat),
    (forall toks, length (te_r toks) = length toks) ->
    (forall q toks, is_perm q (length toks) -> te_r (take_cols q toks) = take_cols q (te_r toks)) ->
    forall p (row y : mat) c, is_perm p (length row) ->
      ft_convs_row cls te_r row = Some (y, c) ->
      ft_convs_row cls te_r (take_cols p row) = Some (take_cols p y, c).
  Proof.
    intros cls te_r Hlen Heq p row y c Hp H. unfold ft_convs_row in *.
    rewrite <- take_cols_cons_shift.
    rewrite Heq by (cbn [length]; apply is_perm_cons_shift; assumption).
    destruct (te_r (cls :: row)) as [|c0 y0] eqn:E; cbn [nth_error] in H; [discriminate|].
    cbn [skipn] in H. inversion H; subst. rewrite take_cols_cons_shift. reflexivity.
  Qed.

  (* the CLS read-out never fails when the encoder keeps the token count *)
  Lemma ft_convs_row_total : forall (cls : vec) (te_r : mat -> mat) row,
    (forall toks, length (te_r toks) = length toks) -> exists y c, ft_convs_row cls te_r row = Some (y, c).
  Proof.
    intros cls te_r row Hlen. unfold ft_convs_row. specialize (Hlen (cls :: row)).
    destruct (te_r (cls :: row)) as [|c y]; [discriminate|]. exists y, c. reflexivity.
  Qed.
End Equivariance.

(* ================================================================== *)
(* 8. ExcelFormerConv: causality from the DiaM mask                    *)
(* ================================================================== *)
Lemma nth_error_zipw : forall {A B C} (h : A -> B -> C) a b i,
  nth_error (zipw h a b) i =
  match nth_error a i, nth_error b i with Some u, Some v => Some (h u v) | _, _ => None end.
Proof.
  induction a as [|x a IH]; intros [|y b] [|i]; try reflexivity.
  - cbn. destruct (nth_error a i); reflexivity.
  - rewrite zipw_cons. cbn [nth_error]. apply IH.
Qed.

Lemma nth_error_firstn' : forall {A} (l : list A) n i, i < n -> nth_error (firstn n l) i = nth_error l i.
Proof.
  induction l as [|x l IH]; intros [|n] [|i] H; try reflexivity; try lia.
  cbn [firstn nth_error]. apply IH. lia.
Qed.

Lemma nth_error_seq' : forall n s i, i < n -> nth_error (seq s n) i = Some (s + i).
Proof.
  induction n as [|n IH]; intros s [|i] H; try lia; cbn [seq nth_error].
  - f_equal. lia.
  - rewrite IH by lia. f_equal. lia.
Qed.

Lemma nth_error_combine' : forall {A B} (a : list A) (b : list B) i,
  nth_error (combine a b) i =
  match nth_error a i, nth_error b i with Some u, Some v => Some (u, v) | _, _ => None end.
Proof.
  induction a as [|x a IH]; intros [|y b] [|i]; try reflexivity.
  - cbn. destruct (nth_error a i); reflexivity.
  - cbn [combine nth_error]. apply IH.
Qed.

Lemma map_const_in : forall {A B} (f : A -> B) c (l : list A), (forall x, In x l -> f x = c) -> map f l = repeat c (length l).
Proof.
  induction l as [|x l IH]; intros H; [reflexivity|]. cbn [map length repeat].
  rewrite H by (left; reflexivity). f_equal. apply IH. intros; apply H; right; assumption.
Qed.

Section Causality.
  Context {R : Type} (O : Ops R).
  Notation vec := (list R).
  Notation mat := (list (list R)).

  (* DiaM of ExcelFormerConv, column by column (column j carries its position) *)
  Lemma diam_mha_colform : forall n H d lq lk lv (xs : mat), 0 < H ->
    mha_row O H d (diam_post O n) lq lk lv xs =
    map (fun p => flat_map (fun h => diam_head_out O n d lq lk lv h (snd p) (fst p) xs) (seq 0 H))
        (combine xs (seq 0 n)).
  Proof.
    intros n H d lq lk lv xs HH. unfold mha_row, heads_split.
    rewrite zipw_map, map_map, zipw_map.
    transitivity (heads_merge (map (fun h => map (fun p => diam_head_out O n d lq lk lv h (snd p) (fst p) xs)
                                                 (combine xs (seq 0 n))) (seq 0 H))).
    - f_equal. apply map_ext. intros h. unfold diam_post, diam_mask.
      rewrite !map_map. rewrite zipw_map2. unfold zipw at 1. rewrite !map_map.
      apply map_ext. intros [xj j]. cbn [fst snd]. unfold diam_head_out, diam_mask_row, head_slice.
      rewrite !map_map. reflexivity.
    - apply (heads_merge_map (fun h p => diam_head_out O n d lq lk lv h (snd p) (fst p) xs)).
      apply seq_nonempty; assumption.
  Qed.

  Lemma diam_mask_row_split : forall n i, i < n ->
    diam_mask_row O n i = repeat (o0 O) (S i) ++ repeat (onegbig O) (n - S i).
  Proof.
    intros n i Hi. unfold diam_mask_row.
    replace n with (S i + (n - S i)) at 1 by lia. rewrite seq_app, map_app. f_equal.
    - rewrite (map_const_in _ (o0 O)); [rewrite seq_length; reflexivity|].
      intros l Hl. apply in_seq in Hl. replace (l <=? i) with true; [reflexivity|].
      symmetry. apply Nat.leb_le. lia.
    - rewrite (map_const_in _ (onegbig O)); [rewrite seq_length; reflexivity|].
      intros l Hl. apply in_seq in Hl. replace (l <=? i) with false; [reflexivity|].
      symmetry. apply Nat.leb_gt. lia.
  Qed.

  Section WithZeroLaws.
    (* what the causality theorem needs of the scalars: 0 is neutral for + and absorbing for * and /,
       and H_mask_kills: a score with the -1e5 mask added has softmax numerator exactly 0 *)
    Hypothesis add_0_l : forall x, oadd O (o0 O) x = x.
    Hypothesis mul_0_l : forall x, omul O (o0 O) x = o0 O.
    Hypothesis div_0_l : forall x, odiv O (o0 O) x = o0 O.
    (* H_mask_kills, with its domain of validity: only BOUNDED scores are killed by the additive mask *)
    Variable bounded : R -> Prop.
    Hypothesis H_mask_kills : forall s, bounded s -> ofn O FExp (ofn O FScale (oadd O s (onegbig O))) = o0 O.

    Lemma vsum_app_zeros : forall v k, vsum O (v ++ repeat (o0 O) k) = vsum O v.
    Proof.
      intros v k. unfold vsum. rewrite fold_right_app. f_equal.
      induction k as [|k IH]; [reflexivity|]. cbn [repeat fold_right]. rewrite IH. apply add_0_l.
    Qed.

    Lemma vadd_zeros : forall d, vadd O (vzeros O d) (vzeros O d) = vzeros O d.
    Proof.
      induction d as [|d IH]; [reflexivity|]. unfold vadd, vzeros in *. cbn [repeat].
      rewrite zipw_cons, IH, add_0_l. reflexivity.
    Qed.

    Lemma vecsum_app_zeros : forall d (T : mat) k, vecsum O d (T ++ repeat (vzeros O d) k) = vecsum O d T.
    Proof.
      intros d T k. unfold vecsum. rewrite fold_right_app. f_equal.
      induction k as [|k IH]; [reflexivity|]. cbn [repeat fold_right]. rewrite IH. apply vadd_zeros.
    Qed.

    Lemma vscale_zero : forall u, vscale O (o0 O) u = vzeros O (length u).
    Proof.
      induction u as [|x u IH]; [reflexivity|]. unfold vscale, vzeros in *. cbn [map length repeat].
      rewrite mul_0_l, IH. reflexivity.
    Qed.

    Lemma softmax_app_masked : forall (a : vec) (b : vec),
      (forall x, In x b -> ofn O FExp x = o0 O) ->
      softmax O (a ++ b) = softmax O a ++ repeat (o0 O) (length b).
    Proof.
      intros a b Hb. unfold softmax. rewrite map_app.
      rewrite (map_const_in (ofn O FExp) (o0 O) b Hb). rewrite vsum_app_zeros, map_app. f_equal.
      rewrite (map_const_in _ (o0 O)); [rewrite repeat_length; reflexivity|].
      intros x Hx. apply repeat_spec in Hx. subst. apply div_0_l.
    Qed.

    Lemma head_slice_length : forall H d h (u : vec), h < H -> length u = H * d -> length (head_slice d h u) = d.
    Proof.
      intros H d h u Hh Hu. unfold head_slice. rewrite firstn_length, skipn_length, Hu.
      apply Nat.min_l. nia.
    Qed.

    (* the masked attention of column i over all columns = the unmasked attention over the prefix *)
    Lemma diam_head_out_prefix : forall n H d lq lk lv h i xj (pre suf : mat),
      h < H -> (forall x, length (lv x) = H * d) ->
      (forall x y, bounded (dot O (head_slice d h (lq x)) (head_slice d h (lk y)))) ->
      length pre = S i -> length (pre ++ suf) = n ->
      diam_head_out O n d lq lk lv h i xj (pre ++ suf) = diam_head_prefix O d lq lk lv h xj pre.
    Proof.
      intros n H d lq lk lv h i xj pre suf Hh Hlv Hbd Hpre Hn.
      assert (Hi : i < n) by (rewrite app_length in Hn; lia).
      assert (Hsuf : length suf = n - S i) by (rewrite app_length in Hn; lia).
      unfold diam_head_out, diam_head_prefix.
      set (sc := fun xl => dot O (head_slice d h (lq xj)) (head_slice d h (lk xl))).
      set (v := fun xl => head_slice d h (lv xl)).
      rewrite (diam_mask_row_split n i Hi), !map_app.
      rewrite zipw_app by (rewrite map_length, repeat_length; assumption).
      rewrite !zipw_repeat_r by (rewrite map_length; lia). rewrite !map_map.
      rewrite softmax_app_masked
        by (intros x Hx; apply in_map_iff in Hx; destruct Hx as (xl & <- & _); apply H_mask_kills; apply Hbd).
      unfold lincomb. rewrite zipw_app by (unfold softmax; rewrite !map_length; reflexivity).
      rewrite map_length, zipw_repeat_l by (rewrite map_length; lia). rewrite map_map.
      rewrite (map_const_in (fun x => vscale O (o0 O) (v x)) (vzeros O d) suf).
      - rewrite vecsum_app_zeros. reflexivity.
      - intros xl _. rewrite vscale_zero. f_equal. apply (head_slice_length H); [assumption | apply Hlv].
    Qed.

    Theorem excel_conv_causal : forall n H d norm1 lq lk lv lout norm2 a1 a2 (row : mat) i,
      0 < H -> (forall x, length (lv x) = H * d) ->
      (forall h x y, bounded (dot O (head_slice d h (lq x)) (head_slice d h (lk y)))) ->
      length row = n -> i < n ->
      nth_error (excel_conv_core_row O n H d norm1 lq lk lv lout norm2 a1 a2 row) i =
      excel_col_prefix O H d norm1 lq lk lv lout norm2 a1 a2 (firstn (S i) row) i.
    Proof.
      intros n H d norm1 lq lk lv lout norm2 a1 a2 row i HH Hlv Hbd Hn Hi.
      unfold excel_conv_core_row, excel_col_prefix.
      rewrite <- firstn_map. set (xs := map norm1 row).
      assert (Hxs : length xs = n) by (unfold xs; rewrite map_length; assumption).
      rewrite nth_error_firstn' by lia.
      destruct (nth_error xs i) as [xi|] eqn:Exi; [|apply nth_error_None in Exi; lia].
      rewrite nth_error_zipw, nth_error_map, nth_error_zipw, Exi.
      assert (Ed : nth_error (diam_row O n H d lq lk lv lout xs) i =
                   Some (match lout with Some L => L (flat_map (fun h => diam_head_prefix O d lq lk lv h xi (firstn (S i) xs)) (seq 0 H))
                                    | None => flat_map (fun h => diam_head_prefix O d lq lk lv h xi (firstn (S i) xs)) (seq 0 H) end)).
      { unfold diam_row. rewrite (diam_mha_colform n H d lq lk lv xs HH).
        assert (E : nth_error (map (fun p => flat_map (fun h => diam_head_out O n d lq lk lv h (snd p) (fst p) xs) (seq 0 H))
                                   (combine xs (seq 0 n))) i =
                    Some (flat_map (fun h => diam_head_prefix O d lq lk lv h xi (firstn (S i) xs)) (seq 0 H))).
        { rewrite nth_error_map, nth_error_combine', Exi, nth_error_seq' by assumption.
          cbn [option_map fst snd Nat.add]. f_equal. apply flat_map_ext'. intros h Hh. apply in_seq in Hh.
          rewrite <- (firstn_skipn (S i) xs) at 1.
          apply (diam_head_out_prefix n H d); [lia | assumption | apply Hbd | rewrite firstn_length; lia |].
          rewrite firstn_skipn. assumption. }
        destruct lout; [rewrite nth_error_map, E|]; [reflexivity | exact E]. }
      rewrite Ed. cbn [option_map]. reflexivity.
    Qed.

    (* the reading the property text gives: columns after i do not matter *)
    Corollary excel_conv_suffix_independent : forall n H d norm1 lq lk lv lout norm2 a1 a2 (row row' : mat) i,
      0 < H -> (forall x, length (lv x) = H * d) ->
      (forall h x y, bounded (dot O (head_slice d h (lq x)) (head_slice d h (lk y)))) ->
      length row = n -> length row' = n -> i < n ->
      firstn (S i) row = firstn (S i) row' ->
      nth_error (excel_conv_core_row O n H d norm1 lq lk lv lout norm2 a1 a2 row) i =
      nth_error (excel_conv_core_row O n H d norm1 lq lk lv lout norm2 a1 a2 row') i.
    Proof.
      intros. rewrite !excel_conv_causal by assumption. congruence.
    Qed.
  End WithZeroLaws.
End Causality.

(* ================================================================== *)
(* 9. shapes: decoders reduce to [B, out]; Trompt keeps the prompt shape *)
(* ================================================================== *)
Section Shapes.
  Context {R : Type} (O : Ops R).
  Notation vec := (list R).
  Notation mat := (list (list R)).
  Notation t3 := (list (list (list R))).

  Lemma transpose_length : forall {A} n (m : list (list A)), Forall (fun r => n <= length r) m ->
    length (transpose n m) = n.
  Proof.
    intros A n m H. induction H as [|r m Hr _ IH]; cbn [transpose fold_right].
    - apply repeat_length.
    - unfold transpose in IH. rewrite zipw_length, IH. lia.
  Qed.

  Lemma concat_length_ones : forall {A} (l : list (list A)), Forall (fun v => length v = 1) l -> length (concat l) = length l.
  Proof.
    intros A l H. induction H as [|v l Hv _ IH]; [reflexivity|]. cbn [concat length]. rewrite app_length, Hv, IH. reflexivity.
  Qed.

  Lemma excel_decoder_row_length : forall Cin Cout lin_f lin_d (row : mat),
    (forall v, length (lin_f v) = Cout) -> (forall v, length (lin_d v) = 1) ->
    length (excel_decoder_row O Cin Cout lin_f lin_d row) = Cout.
  Proof.
    intros Cin Cout lin_f lin_d row Hf Hd. unfold excel_decoder_row.
    rewrite concat_length_ones by (apply Forall_forall; intros v Hv; apply in_map_iff in Hv; destruct Hv as (u & <- & _); apply Hd).
    rewrite map_length. apply transpose_length.
    apply Forall_forall. intros r Hr. apply in_map_iff in Hr. destruct Hr as (u & <- & _).
    unfold vfn. rewrite map_length, Hf. lia.
  Qed.

  (* ExcelFormerDecoder: [B, cols, C] -> [B, out] for every batch size B >= 0 *)
  Theorem excel_decoder_shape : forall Cin Cout LinF lin_f LinD lin_d (X : t3),
    acts_lastaxis LinF lin_f -> acts_lastaxis LinD lin_d ->
    (forall v, length (lin_f v) = Cout) -> (forall v, length (lin_d v) = 1) ->
    length (excel_decoder O Cin Cout LinF LinD X) = length X /\
    Forall (fun r => length r = Cout) (excel_decoder O Cin Cout LinF LinD X).
  Proof.
    intros Cin Cout LinF lin_f LinD lin_d X HF HD Hf Hd.
    rewrite (excel_decoder_rowwise O Cin Cout LinF lin_f LinD lin_d HF HD X). split; [apply map_length|].
    apply Forall_forall. intros r Hr. apply in_map_iff in Hr. destruct Hr as (row & <- & _).
    apply excel_decoder_row_length; assumption.
  Qed.

  (* TromptDecoder: accepted input gives [B, out] for every B >= 0; a shape mismatch is rejected *)
  Theorem trompt_decoder_shape : forall P C out LinAttn lin_attn Mlp mlp (X : t3) Y,
    acts_lastaxis LinAttn lin_attn -> acts_rowwise Mlp mlp -> (forall v, length (mlp v) = out) ->
    trompt_decoder O P C LinAttn Mlp X = Some Y ->
    length Y = length X /\ Forall (fun r => length r = out) Y.
  Proof.
    intros P C out LinAttn lin_attn Mlp mlp X Y HL HM Hm H. unfold trompt_decoder in H.
    destruct (negb (shape3_ok P C X)); [discriminate|]. inversion H; subst. clear H.
    rewrite HM. split.
    - rewrite map_length, zipw_length, map_length, HL, map_length. apply Nat.min_id.
    - apply Forall_forall. intros r Hr. apply in_map_iff in Hr. destruct Hr as (u & <- & _). apply Hm.
  Qed.

  Theorem trompt_decoder_rejects : forall P C LinAttn Mlp (X : t3),
    shape3_ok P C X = false -> trompt_decoder O P C LinAttn Mlp X = None.
  Proof. intros. unfold trompt_decoder. rewrite H. reflexivity. Qed.

  Theorem trompt_conv_rejects : forall n C P ep ec w Lin GN (X Xp : t3),
    shape3_ok n C X = false \/ length Xp <> length X \/ shape3_ok P C Xp = false ->
    trompt_conv O n C P ep ec w Lin GN X Xp = None.
  Proof.
    intros n C P ep ec w Lin GN X Xp H. unfold trompt_conv.
    destruct (shape3_ok n C X) eqn:E1; cbn [negb]; [|reflexivity].
    destruct H as [H|[H|H]]; [discriminate| |].
    - apply Nat.eqb_neq in H. rewrite H. reflexivity.
    - rewrite H, andb_false_r. reflexivity.
  Qed.

  Lemma vadd_length : forall a b, length (vadd O a b) = Nat.min (length a) (length b).
  Proof. intros. apply zipw_length. Qed.

  Lemma vecsum_length : forall C (ts : mat), Forall (fun t => length t = C) ts -> length (vecsum O C ts) = C.
  Proof.
    intros C ts H. induction H as [|t ts Ht _ IH]; cbn [vecsum fold_right].
    - apply repeat_length.
    - unfold vecsum in IH. rewrite vadd_length, Ht, IH. apply Nat.min_id.
  Qed.

  Lemma Forall_zipw : forall {A B C0} (h : A -> B -> C0) (Q : C0 -> Prop) a b,
    (forall x y, In x a -> In y b -> Q (h x y)) -> Forall Q (zipw h a b).
  Proof.
    intros A B C0 h Q a b H. apply Forall_forall. intros z Hz. unfold zipw in Hz.
    apply in_map_iff in Hz. destruct Hz as ([x y] & <- & Hxy).
    apply H; [eapply in_combine_l | eapply in_combine_r]; eassumption.
  Qed.

  Lemma shape2_ok_spec : forall {A} n c (m : list (list A)), shape2_ok n c m = true ->
    length m = n /\ Forall (fun v => length v = c) m.
  Proof.
    intros A n c m H. unfold shape2_ok in H. apply andb_prop in H. destruct H as [H1 H2].
    apply Nat.eqb_eq in H1. split; [assumption|]. apply Forall_forall. intros v Hv.
    rewrite forallb_forall in H2. apply Nat.eqb_eq. apply H2. assumption.
  Qed.

  (* one row of TromptConv: accepted input gives new prompts of the SAME shape [P, C] *)
  Theorem trompt_conv_row_shape : forall n C P (ep ec : mat) (w : vec) lin gn_r (x xp y : mat),
    length ep = P -> length w = P ->
    (forall z, length (gn_r z) = length z) ->
    (forall z, Forall (fun zk => Forall (fun v => length v = C) zk) z ->
               Forall (fun zk => Forall (fun v => length v = C) zk) (gn_r z)) ->
    trompt_conv_row O n C P ep ec w lin gn_r x xp = Some y ->
    length y = P /\ Forall (fun v => length v = C) y.
  Proof.
    intros n C P ep ec w lin gn_r x xp y Hep Hw Hgl Hgs H. unfold trompt_conv_row in H.
    destruct (shape2_ok n C x) eqn:Ex; cbn [negb] in H; [|discriminate].
    destruct (shape2_ok P C xp) eqn:Exp; cbn [negb] in H; [|discriminate].
    injection H as <-.
    destruct (shape2_ok_spec _ _ _ Ex) as [Hxn HxC]. destruct (shape2_ok_spec _ _ _ Exp) as [HxpP _].
    split.
    - rewrite !zipw_length, !map_length, !zipw_length, !map_length, !zipw_length, Hgl, map_length, repeat_length.
      rewrite Hep, HxpP, Hw. lia.
    - apply Forall_zipw. intros mp xpm _ Hx4. unfold lincomb. apply vecsum_length.
      apply Forall_zipw. intros s v _ Hv. unfold vscale. rewrite map_length.
      (* v is an entry of  group_norm(z)[p] + x : length C *)
      unfold zipw in Hx4 at 1. apply in_map_iff in Hx4. destruct Hx4 as ([gz xr] & <- & Hp). cbn [fst snd] in Hv.
      assert (Hgz : Forall (fun u => length u = C) gz).
      { apply in_combine_l in Hp.
        assert (HF : Forall (fun zk => Forall (fun v0 => length v0 = C) zk)
                       (gn_r (map (fun wk => map (fun v0 => vfn O FRelu (map (fun s0 => omul O s0 wk) v0)) x) w))).
        2: { rewrite Forall_forall in HF. apply HF. assumption. }
        apply Hgs.
        apply Forall_forall. intros zk Hzk. apply in_map_iff in Hzk. destruct Hzk as (wk & <- & _).
        apply Forall_forall. intros u Hu. apply in_map_iff in Hu. destruct Hu as (v0 & <- & Hv0).
        unfold vfn. rewrite !map_length. rewrite Forall_forall in HxC. apply HxC. assumption. }
      assert (Hxr : xr = x) by (apply in_combine_r in Hp; apply repeat_spec in Hp; assumption). subst xr.
      unfold zipw in Hv. apply in_map_iff in Hv. destruct Hv as ([u1 u2] & <- & Hu). cbn [fst snd].
      rewrite vadd_length.
      rewrite Forall_forall in Hgz, HxC.
      rewrite (Hgz u1) by (eapply in_combine_l; eassumption).
      rewrite (HxC u2) by (eapply in_combine_r; eassumption). apply Nat.min_id.
  Qed.
End Shapes.

(* ================================================================== *)
(* 10. batch-level corollaries                                          *)
(* ================================================================== *)
Lemma select_In : forall {A} idx (X X' : list A), select idx X = Some X' -> forall a, In a X' -> In a X.
Proof.
  induction idx as [|i idx IH]; intros X X' H a Ha; cbn [select] in H.
  - inversion H; subst. destruct Ha.
  - destruct (nth_error X i) as [x|] eqn:E; [|discriminate].
    destruct (select idx X) as [xs|] eqn:E'; [|discriminate]. inversion H; subst.
    destruct Ha as [<-|Ha]; [eapply nth_error_In; eassumption | eapply IH; eauto].
Qed.

Section BatchCorollaries.
  Context {R : Type} (O : Ops R).
  Notation vec := (list R).
  Notation mat := (list (list R)).
  Notation t3 := (list (list (list R))).

  (* partial row-wise functions: scoring a sub-batch (subset / permutation / duplicates) of an accepted
     batch is accepted and gives the corresponding outputs *)
  Lemma rowwise_opt_select : forall {U T} (F : list U -> option (list T)) f, acts_rowwise_opt F f ->
    forall idx X X' Y, F X = Some Y -> select idx X = Some X' ->
    exists Y', F X' = Some Y' /\ select idx Y = Some Y'.
  Proof.
    intros U T F f H idx X X' Y HY HX.
    destruct Y as [|y0 Y0] eqn:EY.
    - (* empty output: empty batch *)
      rewrite H in HY. apply opt_all_Some_length in HY. rewrite map_length in HY.
      destruct X; [|discriminate]. destruct idx as [|i idx]; cbn [select] in HX.
      + inversion HX; subst. exists []. rewrite H. split; reflexivity.
      + destruct i; discriminate.
    - rewrite <- EY in *. clear EY. rewrite H in HY.
      destruct (opt_all_Some_inv y0 f X Y HY) as [-> Hall].
      exists (map (fun a => unwrap y0 (f a)) X'). split.
      + rewrite H. rewrite <- opt_all_map_Some. apply opt_all_map_ext. intros a Ha.
        apply Hall. eapply select_In; eassumption.
      + rewrite select_map, HX. reflexivity.
  Qed.

  Lemma rowwise_opt_length : forall {U T} (F : list U -> option (list T)) f, acts_rowwise_opt F f ->
    forall X Y, F X = Some Y -> length Y = length X.
  Proof. intros U T F f H X Y HY. rewrite H in HY. apply opt_all_Some_length in HY. rewrite map_length in HY. exact HY. Qed.

  Lemma rowwise_opt_empty : forall {U T} (F : list U -> option (list T)) f, acts_rowwise_opt F f -> F [] = Some [].
  Proof. intros U T F f H. rewrite H. reflexivity. Qed.

  Lemma tab_conv_row_length : forall H d norm1 lq lk lv lout lin1 lin2 (row : mat), 0 < H ->
    length (tab_conv_row O H d norm1 lq lk lv lout lin1 lin2 row) = length row.
  Proof. intros. rewrite tab_conv_colform by assumption. rewrite !map_length. reflexivity. Qed.

  (* conv(x[:, perm]) = conv(x)[:, perm] on a whole batch *)
  Theorem tab_conv_equivariant : forall H d Norm1 norm1 LinQ lq LinK lk LinV lv LinOut lout Lin1 lin1 Lin2 lin2,
    (forall a b, oadd O a b = oadd O b a) -> (forall a b c, oadd O a (oadd O b c) = oadd O (oadd O a b) c) ->
    0 < H ->
    acts_lastaxis Norm1 norm1 -> acts_lastaxis LinQ lq -> acts_lastaxis LinK lk -> acts_lastaxis LinV lv ->
    acts_lastaxis LinOut lout -> acts_lastaxis Lin1 lin1 -> acts_lastaxis Lin2 lin2 ->
    forall n p (X : t3), Forall (fun row => length row = n) X -> is_perm p n ->
      tab_conv O H d Norm1 LinQ LinK LinV LinOut Lin1 Lin2 (map (take_cols p) X) =
      map (take_cols p) (tab_conv O H d Norm1 LinQ LinK LinV LinOut Lin1 Lin2 X).
  Proof.
    intros H d Norm1 norm1 LinQ lq LinK lk LinV lv LinOut lout Lin1 lin1 Lin2 lin2 Hc Ha HH HN HQ HK HV HO H1 H2 n p X HX Hp.
    rewrite !(tab_conv_rowwise O H d _ _ _ _ _ _ _ _ _ _ _ _ _ _ HH HN HQ HK HV HO H1 H2), !map_map.
    apply map_ext_in. intros row Hrow. rewrite Forall_forall in HX.
    apply tab_conv_row_equivariant; auto. rewrite (HX row Hrow). assumption.
  Qed.
End BatchCorollaries.

(* ================================================================== *)
(* 11. ghost batch norm: the chunk arithmetic for every batch size     *)
(* ================================================================== *)
Section GhostChunks.
  Lemma cdiv_mul_ge : forall a b, 0 < b -> a <= b * cdiv a b.
  Proof.
    intros a b Hb. unfold cdiv.
    pose proof (Nat.div_mod (a + b - 1) b ltac:(lia)) as E.
    pose proof (Nat.mod_upper_bound (a + b - 1) b ltac:(lia)) as M. nia.
  Qed.

  Lemma cdiv_le_of_mul : forall a b c, 0 < b -> a <= b * c -> cdiv a b <= c.
  Proof.
    intros a b c Hb H. unfold cdiv.
    assert (Hlt : (a + b - 1) / b < S c); [|lia].
    apply Nat.div_lt_upper_bound; [lia|]. nia.
  Qed.

  Lemma cdiv_pos' : forall a b, 0 < a -> 0 < b -> 0 < cdiv a b.
  Proof. intros a b Ha Hb. unfold cdiv. apply Nat.div_str_pos. lia. Qed.

  (* chunk size of torch.chunk(x, ceil(n / v)) never exceeds the virtual batch size v *)
  Lemma ghost_chunk_size_le : forall n v, 0 < n -> 0 < v -> cdiv n (cdiv n v) <= v.
  Proof.
    intros n v Hn Hv. apply cdiv_le_of_mul; [apply cdiv_pos'; assumption|].
    rewrite Nat.mul_comm. apply cdiv_mul_ge. assumption.
  Qed.

  (* GhostBatchNorm1d.forward, the pieces self.bn is called with, for EVERY batch size n >= 1 and every virtual
     batch size v >= 1:  in order, they partition the batch; each has between 1 and v rows; all but the last have
     exactly ceil(n / ceil(n / v)) rows; there are at most ceil(n / v) of them *)
  Theorem ghost_chunks_partition_lemma : forall {A} v (X : list A), 0 < v -> 0 < length X ->
    let k := cdiv (length X) (cdiv (length X) v) in
    let cs := torch_chunk (cdiv (length X) v) X in
    concat cs = X /\
    Forall (fun c => 0 < length c <= v) cs /\
    (forall pre last, cs = pre ++ [last] -> Forall (fun c => length c = k) pre) /\
    length cs <= cdiv (length X) v.
  Proof.
    intros A v X Hv Hn k cs.
    assert (Hm : 0 < cdiv (length X) v) by (apply cdiv_pos'; assumption).
    assert (Hk : 0 < k) by (apply cdiv_pos'; assumption).
    assert (Hkv : k <= v) by (apply ghost_chunk_size_le; assumption).
    unfold cs, torch_chunk. fold k. repeat split.
    - apply chunks_concat. assumption.
    - eapply Forall_impl; [|apply (chunks_sizes k X Hk)]. cbv beta. intros c Hc. lia.
    - intros pre last E. eapply chunks_all_but_last_full; eassumption.
    - rewrite chunks_count by assumption. change ((length X + k - 1) / k) with (cdiv (length X) k).
      apply cdiv_le_of_mul; [assumption|]. rewrite Nat.mul_comm. unfold k. apply cdiv_mul_ge. assumption.
  Qed.
End GhostChunks.

(* ================================================================== *)
(* 12. the causal mask as an integer comparison over column ids         *)
(* ================================================================== *)
Section IntegerMask.
  Lemma nth_error_ids_int64 : forall n i, i < n -> nth_error (ids_int64 n) i = Some (Z.of_nat i).
  Proof.
    intros n i H. unfold ids_int64. rewrite nth_error_map, nth_error_seq' by assumption. reflexivity.
  Qed.

  (* with the int64 buffer torch.arange(num_cols) the mask is "key column <= query column" for EVERY width *)
  Theorem mask_allowed_int64_lemma : forall n j l, j < n -> l < n -> mask_allowed (ids_int64 n) j l = (l <=? j).
  Proof.
    intros n j l Hj Hl. unfold mask_allowed. rewrite !nth_error_ids_int64 by assumption.
    destruct (l <=? j) eqn:E.
    - apply Nat.leb_le in E. apply Z.leb_le. lia.
    - apply Nat.leb_gt in E. apply Z.leb_gt. lia.
  Qed.

  Lemma wrap8_small : forall z, (0 <= z < 128)%Z -> wrap8 z = z.
  Proof. intros z H. unfold wrap8. rewrite Z.mod_small by lia. lia. Qed.

  (* an 8-bit buffer is still right up to 128 columns ... *)
  Theorem mask_allowed_int8_upto_128_lemma : forall n j l, n <= 128 -> j < n -> l < n ->
    mask_allowed (ids_int8 n) j l = (l <=? j).
  Proof.
    intros n j l Hn Hj Hl. unfold mask_allowed, ids_int8.
    rewrite !nth_error_map, !nth_error_seq' by assumption. cbn [option_map Nat.add].
    rewrite !wrap8_small by lia.
    destruct (l <=? j) eqn:E.
    - apply Nat.leb_le in E. apply Z.leb_le. lia.
    - apply Nat.leb_gt in E. apply Z.leb_gt. lia.
  Qed.

  (* ... and wrong from 129 columns on: column 0 may attend to the LATER column 128 *)
  Theorem mask_int8_refuted_lemma : exists n j l, j < n /\ l < n /\ j < l /\ mask_allowed (ids_int8 n) j l = true.
  Proof. exists 129, 0, 128. split; [lia|]. split; [lia|]. split; [lia|]. vm_compute. reflexivity. Qed.

  (* the mask of Model/Layers.v (diam_mask_row) is this comparison on the int64 ids *)
  Lemma diam_mask_row_is_integer_comparison : forall {R} (O : Ops R) n j l, j < n -> l < n ->
    nth_error (diam_mask_row O n j) l = Some (if mask_allowed (ids_int64 n) j l then o0 O else onegbig O).
  Proof.
    intros R O n j l Hj Hl. unfold diam_mask_row. rewrite nth_error_map, nth_error_seq' by assumption.
    cbn [option_map Nat.add]. rewrite mask_allowed_int64_lemma by assumption. reflexivity.
  Qed.
End IntegerMask.
