(* Lemmas about Lib/Tensor.v and Model/Layers.v (properties C14, C15).
   Exact arithmetic over an abstract scalar structure; see the header of Lib/Tensor.v for what
   that does and does not cover. *)
From Coq Require Import List Arith Bool Lia Permutation ZArith.
From PF Require Import Lib.Chunks Lib.Tensor Proofs.ChunksFacts Model.Layers.
Import ListNotations.

(* ================================================================== *)
(* 1. list toolbox                                                     *)
(* ================================================================== *)
Section Toolbox.
  Context {A B C D : Type}.

  Lemma zipw_nil_l : forall (h : A -> B -> C) b, zipw h [] b = [].
  Proof. reflexivity. Qed.

  Lemma zipw_cons : forall (h : A -> B -> C) x a y b, zipw h (x :: a) (y :: b) = h x y :: zipw h a b.
  Proof. reflexivity. Qed.

  Lemma zipw_length : forall (h : A -> B -> C) a b, length (zipw h a b) = Nat.min (length a) (length b).
  Proof. intros. unfold zipw. rewrite map_length, combine_length. reflexivity. Qed.

  Lemma zipw_map : forall (h : A -> B -> C) (f : D -> A) (g : D -> B) (X : list D),
    zipw h (map f X) (map g X) = map (fun x => h (f x) (g x)) X.
  Proof. induction X as [|x X IH]; [reflexivity|]. cbn [map]. rewrite zipw_cons, IH. reflexivity. Qed.

  Lemma zipw_map_l : forall (h : A -> B -> C) (g : A -> B) (X : list A),
    zipw h X (map g X) = map (fun x => h x (g x)) X.
  Proof. induction X as [|x X IH]; [reflexivity|]. cbn [map]. rewrite zipw_cons, IH. reflexivity. Qed.

  Lemma zipw_map_r : forall (h : A -> B -> C) (f : B -> A) (X : list B),
    zipw h (map f X) X = map (fun x => h (f x) x) X.
  Proof. induction X as [|x X IH]; [reflexivity|]. cbn [map]. rewrite zipw_cons, IH. reflexivity. Qed.

  Lemma zipw_repeat_r : forall (h : A -> B -> C) (X : list A) c n, length X <= n ->
    zipw h X (repeat c n) = map (fun x => h x c) X.
  Proof.
    induction X as [|x X IH]; intros c n Hn; [reflexivity|].
    destruct n; cbn [length] in Hn; [lia|]. cbn [repeat map]. rewrite zipw_cons, IH by lia. reflexivity.
  Qed.

  Lemma zipw_repeat_l : forall (h : A -> B -> C) (X : list B) c n, length X <= n ->
    zipw h (repeat c n) X = map (fun x => h c x) X.
  Proof.
    induction X as [|x X IH]; intros c n Hn.
    - unfold zipw. rewrite combine_nil. reflexivity.
    - destruct n; cbn [length] in Hn; [lia|]. cbn [repeat map]. rewrite zipw_cons, IH by lia. reflexivity.
  Qed.

  Lemma zipw_app : forall (h : A -> B -> C) a1 a2 b1 b2, length a1 = length b1 ->
    zipw h (a1 ++ a2) (b1 ++ b2) = zipw h a1 b1 ++ zipw h a2 b2.
  Proof.
    induction a1 as [|x a1 IH]; intros a2 b1 b2 Hl; destruct b1 as [|y b1]; try discriminate; [reflexivity|].
    cbn [app]. rewrite !zipw_cons. cbn [app]. f_equal. apply IH. simpl in Hl. lia.
  Qed.

  Lemma zipw_flat_map : forall (h : A -> B -> C) (f : D -> list A) (g : D -> list B) (X : list D),
    (forall x, length (f x) = length (g x)) ->
    zipw h (flat_map f X) (flat_map g X) = flat_map (fun x => zipw h (f x) (g x)) X.
  Proof.
    intros h f g X Hl. induction X as [|x X IH]; [reflexivity|].
    cbn [flat_map]. rewrite zipw_app by apply Hl. rewrite IH. reflexivity.
  Qed.

  Lemma zipw_ext : forall (h h' : A -> B -> C) a b, (forall x y, h x y = h' x y) -> zipw h a b = zipw h' a b.
  Proof. intros. unfold zipw. apply map_ext. intros [x y]. apply H. Qed.
End Toolbox.

Lemma map_flat_map' : forall {A B C} (f : A -> list B) (g : B -> C) (l : list A),
  map g (flat_map f l) = flat_map (fun x => map g (f x)) l.
Proof. induction l as [|x l IH]; [reflexivity|]. cbn [flat_map]. rewrite map_app, IH. reflexivity. Qed.

Lemma flat_map_map' : forall {A B C} (f : A -> B) (g : B -> list C) (l : list A),
  flat_map g (map f l) = flat_map (fun x => g (f x)) l.
Proof. induction l as [|x l IH]; [reflexivity|]. cbn [map flat_map]. rewrite IH. reflexivity. Qed.

Lemma flat_map_ext' : forall {A B} (f g : A -> list B) (l : list A),
  (forall x, In x l -> f x = g x) -> flat_map f l = flat_map g l.
Proof.
  induction l as [|x l IH]; intros H; [reflexivity|]. cbn [flat_map].
  rewrite H by (left; reflexivity). rewrite IH; [reflexivity|]. intros; apply H; right; assumption.
Qed.

Lemma concat_map_map : forall {A B} (f : A -> B) (ls : list (list A)),
  concat (map (map f) ls) = map f (concat ls).
Proof. intros. rewrite concat_map. reflexivity. Qed.

(* chunks of a concatenation of pieces of exactly k elements are the pieces *)
Lemma chunks_fuel_indep : forall {A} f1 f2 k (l : list A), 0 < k -> length l <= f1 -> length l <= f2 ->
  chunks_fuel f1 k l = chunks_fuel f2 k l.
Proof.
  induction f1 as [|f1 IH]; intros f2 k l Hk H1 H2.
  - destruct l; [|simpl in H1; lia]. destruct f2; reflexivity.
  - destruct l as [|x l]; [destruct f2; reflexivity|].
    destruct f2; [simpl in H2; lia|]. cbn [chunks_fuel]. f_equal.
    apply IH; auto; rewrite skipn_length; cbn [length] in *; lia.
Qed.

Lemma chunks_flat_map_uniform : forall {A B} k (g : A -> list B) (X : list A), 0 < k ->
  (forall x, length (g x) = k) -> chunks k (flat_map g X) = map g X.
Proof.
  intros A B k g X Hk Hg. induction X as [|x X IH]; [reflexivity|].
  cbn [flat_map map]. unfold chunks.
  assert (Hne : g x <> []) by (intro E; specialize (Hg x); rewrite E in Hg; simpl in Hg; lia).
  destruct (g x ++ flat_map g X) as [|y r] eqn:E.
  - destruct (g x); [congruence|discriminate].
  - rewrite <- E. rewrite app_length, Hg.
    destruct k as [|k']; [lia|]. cbn [Nat.add chunks_fuel]. rewrite E. rewrite <- E.
    rewrite firstn_app, skipn_app, Hg, Nat.sub_diag. rewrite <- (Hg x) at 1 3. rewrite firstn_all, skipn_all.
    cbn [firstn skipn app]. rewrite app_nil_r. f_equal.
    rewrite <- IH. unfold chunks. apply chunks_fuel_indep; lia.
Qed.

(* ---------- opt_all ---------- *)
Lemma opt_all_map_Some : forall {A B} (f : A -> B) (l : list A), opt_all (map (fun x => Some (f x)) l) = Some (map f l).
Proof. induction l as [|x l IH]; [reflexivity|]. cbn [map opt_all]. rewrite IH. reflexivity. Qed.

Lemma opt_all_Some_length : forall {A} (l : list (option A)) r, opt_all l = Some r -> length r = length l.
Proof.
  induction l as [|[x|] l IH]; intros r H; cbn [opt_all] in H; try discriminate.
  - inversion H; reflexivity.
  - destruct (opt_all l) eqn:E; [|discriminate]. inversion H; subst. cbn [length]. f_equal. apply IH; reflexivity.
Qed.

Lemma opt_all_map_ext : forall {A B} (f g : A -> option B) (l : list A),
  (forall x, In x l -> f x = g x) -> opt_all (map f l) = opt_all (map g l).
Proof.
  intros. f_equal. apply map_ext_in. assumption.
Qed.

(* ---------- select ---------- *)
Lemma select_map : forall {A B} (f : A -> B) idx (X : list A),
  select idx (map f X) = option_map (map f) (select idx X).
Proof.
  induction idx as [|i idx IH]; intros X; [reflexivity|].
  cbn [select]. rewrite nth_error_map, IH.
  destruct (nth_error X i); [|reflexivity]. cbn [option_map]. destruct (select idx X); reflexivity.
Qed.

(* ---------- take_cols / permutations ---------- *)
Lemma take_cols_map : forall {A B} (f : A -> B) p (row : list A),
  take_cols p (map f row) = map f (take_cols p row).
Proof.
  intros. unfold take_cols. rewrite map_flat_map'. apply flat_map_ext'. intros i _.
  rewrite nth_error_map. destruct (nth_error row i); reflexivity.
Qed.

Lemma take_cols_nth : forall {A} (d : A) p (row : list A), Forall (fun i => i < length row) p ->
  take_cols p row = map (fun i => nth i row d) p.
Proof.
  intros A d p row H. induction H as [|i p Hi _ IH]; [reflexivity|].
  unfold take_cols in *. cbn [flat_map map]. rewrite IH.
  destruct (nth_error row i) eqn:E.
  - rewrite (nth_error_nth _ _ d E). reflexivity.
  - apply nth_error_None in E. lia.
Qed.

Lemma map_nth_seq' : forall {A} (d : A) (l : list A), map (fun i => nth i l d) (seq 0 (length l)) = l.
Proof.
  intros A d l. induction l as [|x l IH]; [reflexivity|].
  cbn [length seq map nth]. f_equal. rewrite <- seq_shift, map_map. exact IH.
Qed.

Lemma is_perm_bound : forall p n, is_perm p n -> Forall (fun i => i < n) p.
Proof.
  intros p n H. apply Forall_forall. intros i Hi.
  apply (Permutation_in _ H) in Hi. apply in_seq in Hi. lia.
Qed.

Lemma take_cols_perm : forall {A} p (row : list A), is_perm p (length row) -> Permutation (take_cols p row) row.
Proof.
  intros A p row H. destruct row as [|d row'] eqn:E.
  - unfold is_perm in H. cbn in H. apply Permutation_sym, Permutation_nil in H. subst. constructor.
  - rewrite <- E in *. rewrite (take_cols_nth d) by (apply is_perm_bound; assumption).
    eapply Permutation_trans; [apply Permutation_map; exact H|]. rewrite map_nth_seq'. apply Permutation_refl.
Qed.

Lemma take_cols_length : forall {A} p (row : list A), is_perm p (length row) -> length (take_cols p row) = length row.
Proof. intros. apply Permutation_length, take_cols_perm. assumption. Qed.

(* a fold with a left-commutative step does not see the order of the list *)
Lemma fold_right_perm : forall {A B} (f : A -> B -> B) (z : B) l l',
  (forall a b c, f a (f b c) = f b (f a c)) -> Permutation l l' -> fold_right f z l = fold_right f z l'.
Proof.
  intros A B f z l l' Hc H. induction H; cbn [fold_right]; try congruence.
Qed.

(* ================================================================== *)
(* 2. scalar-level facts                                               *)
(* ================================================================== *)
Section Algebra.
  Context {R : Type} (O : Ops R).
  Notation vec := (list R).
  Notation mat := (list (list R)).

  Hypothesis add_comm : forall a b, oadd O a b = oadd O b a.
  Hypothesis add_assoc : forall a b c, oadd O a (oadd O b c) = oadd O (oadd O a b) c.

  Lemma add_lcomm : forall a b c, oadd O a (oadd O b c) = oadd O b (oadd O a c).
  Proof. intros. rewrite !add_assoc, (add_comm a b). reflexivity. Qed.

  Lemma vsum_perm : forall v v', Permutation v v' -> vsum O v = vsum O v'.
  Proof. intros. unfold vsum. apply fold_right_perm; [apply add_lcomm | assumption]. Qed.

  Lemma vadd_comm : forall a b, vadd O a b = vadd O b a.
  Proof.
    induction a as [|x a IH]; intros [|y b]; try reflexivity.
    unfold vadd in *. rewrite !zipw_cons, IH, add_comm. reflexivity.
  Qed.

  Lemma vadd_assoc : forall a b c, vadd O a (vadd O b c) = vadd O (vadd O a b) c.
  Proof.
    induction a as [|x a IH]; intros [|y b] [|z c]; try reflexivity.
    unfold vadd in *. rewrite !zipw_cons, IH, add_assoc. reflexivity.
  Qed.

  Lemma vadd_lcomm : forall a b c, vadd O a (vadd O b c) = vadd O b (vadd O a c).
  Proof. intros. rewrite !vadd_assoc, (vadd_comm a b). reflexivity. Qed.

  Lemma vecsum_perm : forall n vs vs', Permutation vs vs' -> vecsum O n vs = vecsum O n vs'.
  Proof. intros. unfold vecsum. apply fold_right_perm; [apply vadd_lcomm | assumption]. Qed.

  (* softmax-weighted combination, written over a list of items xs with score s and value v *)
  Lemma attn_agg_form : forall n (g : R -> R) (s : vec -> R) (v : vec -> vec) (xs : mat),
    lincomb O n (softmax O (map (fun x => g (s x)) xs)) (map v xs) =
    vecsum O n (map (fun x => vscale O (odiv O (ofn O FExp (g (s x)))
                                              (vsum O (map (fun y => ofn O FExp (g (s y))) xs))) (v x)) xs).
  Proof.
    intros. unfold lincomb, softmax. rewrite !map_map. rewrite zipw_map. reflexivity.
  Qed.

  Lemma attn_agg_perm : forall n (g : R -> R) (s : vec -> R) (v : vec -> vec) (xs xs' : mat),
    Permutation xs xs' ->
    lincomb O n (softmax O (map (fun x => g (s x)) xs)) (map v xs) =
    lincomb O n (softmax O (map (fun x => g (s x)) xs')) (map v xs').
  Proof.
    intros n g s v xs xs' H. rewrite !attn_agg_form.
    rewrite (vsum_perm _ _ (Permutation_map (fun y => ofn O FExp (g (s y))) H)).
    apply vecsum_perm. apply Permutation_map. exact H.
  Qed.
End Algebra.

(* ================================================================== *)
(* 3. row-wise theorems (C14 core, C15 "all layers row-wise")          *)
(* ================================================================== *)
Section Rowwise.
  Context {R : Type} (O : Ops R).
  Notation vec := (list R).
  Notation mat := (list (list R)).
  Notation t3 := (list (list (list R))).

  (* a batch-level block F acts on every element of the batch axis separately, as f *)
  Definition acts_rowwise {U T : Type} (F : list U -> list T) (f : U -> T) : Prop := forall X, F X = map f X.
  (* a block on [B, cols, C] acting on the last axis only (nn.Linear, LayerNorm) *)
  Definition acts_lastaxis (F : t3 -> t3) (f : vec -> vec) : Prop := forall X, F X = map (map f) X.

  Lemma lastaxis_rowwise : forall F f, acts_lastaxis F f -> acts_rowwise F (map f).
  Proof. intros F f H X. apply H. Qed.

  Lemma sequential_rowwise : forall {T} (Fs : list (list T -> list T)) (fs : list (T -> T)),
    Forall2 acts_rowwise Fs fs -> acts_rowwise (sequential Fs) (sequential fs).
  Proof.
    intros T Fs fs H. induction H as [|F f Fs fs HF _ IH]; intros X.
    - cbn. rewrite map_id. reflexivity.
    - unfold sequential in *. cbn [fold_left]. rewrite HF. rewrite IH. rewrite map_map. reflexivity.
  Qed.

  (* consequences of row-wiseness: what the property statement lists *)
  Lemma rowwise_select : forall {U T} (F : list U -> list T) f, acts_rowwise F f ->
    forall idx X, select idx (F X) = option_map F (select idx X).
  Proof.
    intros U T F f H idx X. rewrite H, select_map. destruct (select idx X); cbn; [rewrite H|]; reflexivity.
  Qed.
  Lemma rowwise_alone : forall {U T} (F : list U -> list T) f, acts_rowwise F f ->
    forall X, F X = flat_map (fun x => F [x]) X.
  Proof.
    intros U T F f H X. rewrite H. induction X as [|x X IH]; [reflexivity|].
    cbn [map flat_map]. rewrite H. cbn [map app]. f_equal. exact IH.
  Qed.
  Lemma rowwise_length : forall {U T} (F : list U -> list T) f, acts_rowwise F f -> forall X, length (F X) = length X.
  Proof. intros. rewrite H. apply map_length. Qed.
  Lemma rowwise_one_row_changes : forall {U T} (F : list U -> list T) f, acts_rowwise F f ->
    forall X1 x x' X2, F (X1 ++ x' :: X2) = firstn (length X1) (F (X1 ++ x :: X2)) ++ f x' :: skipn (S (length X1)) (F (X1 ++ x :: X2)).
  Proof.
    intros U T F f H X1 x x' X2. rewrite !H, !map_app. cbn [map].
    rewrite <- (map_length f X1) at 1 2.
    rewrite firstn_app, Nat.sub_diag, firstn_all. cbn [firstn]. rewrite app_nil_r.
    replace (S (length (map f X1))) with (length (map f X1 ++ [f x])) by (rewrite app_length; simpl; lia).
    replace (map f X1 ++ f x :: map f X2) with ((map f X1 ++ [f x]) ++ map f X2) by (rewrite <- app_assoc; reflexivity).
    rewrite skipn_app, Nat.sub_diag, skipn_all. reflexivity.
  Qed.

  (* ---------- batch norm, ghost batch norm ---------- *)
  Lemma bn_eval_rowwise : forall ps, acts_rowwise (bn_eval O ps) (bn_eval_row O ps).
  Proof. intros ps X. reflexivity. Qed.

  Lemma cdiv_pos : forall a b, 0 < a -> 0 < b -> 0 < cdiv a b.
  Proof.
    intros a b Ha Hb. unfold cdiv. apply Nat.div_str_pos. lia.
  Qed.

  (* GhostBatchNorm1d around ANY row-wise bn (eval mode): the chunking is invisible, for every batch
     size and every virtual batch size >= 1 *)
  Lemma ghost_bn_rowwise : forall (Bn : mat -> mat) bn vbs, 0 < vbs -> acts_rowwise Bn bn -> acts_rowwise (ghost_bn Bn vbs) bn.
  Proof.
    intros Bn bn vbs Hv H X. unfold ghost_bn.
    destruct (0 <? length X) eqn:E; [|apply H].
    apply Nat.ltb_lt in E.
    rewrite (map_ext _ _ H). rewrite concat_map_map. f_equal.
    unfold torch_chunk. apply chunks_concat.
    apply cdiv_pos; [assumption|]. apply cdiv_pos; assumption.
  Qed.

  (* ---------- MLP ---------- *)
  Lemma mlp_rowwise : forall {A} C (Enc : list A -> t3) enc_r Mlp mlp_r,
    acts_rowwise Enc enc_r -> acts_rowwise Mlp mlp_r ->
    acts_rowwise (mlp_forward O C Enc Mlp) (mlp_row O C enc_r mlp_r).
  Proof.
    intros A C Enc enc_r Mlp mlp_r HE HM X. unfold mlp_forward, mlp_row.
    rewrite HE, HM, !map_map. reflexivity.
  Qed.

  (* ---------- ResNet ---------- *)
  Definition opt_rowwise {U T} (F : option (list U -> list T)) (f : option (U -> T)) : Prop :=
    match F, f with
    | Some F, Some f => acts_rowwise F f
    | None, None => True
    | _, _ => False
    end.

  Lemma fc_residual_block_rowwise : forall Lin1 lin1 Lin2 lin2 N1 n1 N2 n2 Sc sc,
    acts_rowwise Lin1 lin1 -> acts_rowwise Lin2 lin2 ->
    opt_rowwise N1 n1 -> opt_rowwise N2 n2 -> opt_rowwise Sc sc ->
    acts_rowwise (fc_residual_block O Lin1 Lin2 N1 N2 Sc) (fc_residual_block_row O lin1 lin2 n1 n2 sc).
  Proof.
    intros Lin1 lin1 Lin2 lin2 N1 n1 N2 n2 Sc sc H1 H2 HN1 HN2 HS X.
    unfold fc_residual_block, fc_residual_block_row.
    rewrite H1.
    assert (E1 : match N1 with Some N => N (map lin1 X) | None => map lin1 X end =
                 map (fun x => match n1 with Some N => N (lin1 x) | None => lin1 x end) X).
    { destruct N1, n1; cbn in HN1; try contradiction; [rewrite HN1, map_map|]; reflexivity. }
    rewrite E1, map_map, H2, map_map.
    assert (E2 : forall (g : vec -> vec), match N2 with Some N => N (map g X) | None => map g X end =
                 map (fun x => match n2 with Some N => N (g x) | None => g x end) X).
    { intros g. destruct N2, n2; cbn in HN2; try contradiction; [rewrite HN2, map_map|]; reflexivity. }
    rewrite E2, map_map.
    assert (E3 : match Sc with Some S0 => S0 X | None => X end =
                 map (fun x => match sc with Some S0 => S0 x | None => x end) X).
    { destruct Sc, sc; cbn in HS; try contradiction; [rewrite HS | rewrite map_id]; reflexivity. }
    rewrite E3, zipw_map. reflexivity.
  Qed.

  Lemma resnet_rowwise : forall {A} (Enc : list A -> t3) enc_r Backbone backbone_r Dec dec_r,
    acts_rowwise Enc enc_r -> Forall2 acts_rowwise Backbone backbone_r -> acts_rowwise Dec dec_r ->
    acts_rowwise (resnet_forward Enc Backbone Dec) (resnet_row enc_r backbone_r dec_r).
  Proof.
    intros A Enc enc_r Bb bb Dec dec_r HE HB HD X. unfold resnet_forward, resnet_row.
    rewrite HE, map_map, (sequential_rowwise _ _ HB), HD, !map_map. reflexivity.
  Qed.

  (* ---------- TabNet ---------- *)
  Lemma glu_block_from_rowwise : forall Gs gs, Forall2 acts_rowwise Gs gs -> forall i nfr,
    acts_rowwise (glu_block_from O i nfr Gs) (glu_block_from_row O i nfr gs).
  Proof.
    intros Gs gs H. induction H as [|G g Gs gs HG _ IH]; intros i nfr X.
    - cbn. rewrite map_id. reflexivity.
    - cbn [glu_block_from glu_block_from_row].
      destruct (nfr && (i =? 0)).
      + rewrite (HG X), IH, map_map. reflexivity.
      + rewrite (HG X), zipw_map, IH, map_map. reflexivity.
  Qed.
  Lemma glu_block_rowwise : forall Gs gs nfr, Forall2 acts_rowwise Gs gs ->
    acts_rowwise (glu_block O nfr Gs) (glu_block_row O nfr gs).
  Proof. intros. apply glu_block_from_rowwise. assumption. Qed.

  Lemma attentive_rowwise : forall {A} Lin lin Bn bn vbs (f fp : A -> vec) (X : list A), 0 < vbs ->
    acts_rowwise Lin lin -> acts_rowwise Bn bn ->
    attentive O Lin Bn vbs (map f X) (map fp X) = map (fun x => attentive_row O lin bn (f x) (fp x)) X.
  Proof.
    intros A Lin lin Bn bn vbs f fp X Hv HL HB. unfold attentive, attentive_row.
    rewrite HL, (ghost_bn_rowwise _ _ _ Hv HB), !map_map, zipw_map, map_map. reflexivity.
  Qed.

  Definition step_rowwise (St : tabnet_step R) (s : tabnet_step_row R) : Prop :=
    match St, s with
    | (Lin, Bn, Ft), (lin, bn, ft) => acts_rowwise Lin lin /\ acts_rowwise Bn bn /\ acts_rowwise Ft ft
    end.

  Lemma tabnet_loop_rowwise : forall {A} split vbs Steps steps, 0 < vbs -> Forall2 step_rowwise Steps steps ->
    forall (fx fa fp : A -> vec) (g0 : A -> vec) (X : list A),
      fold_left (zipw (vadd O)) (tabnet_loop O split vbs Steps (map fx X) (map fa X) (map fp X)) (map g0 X) =
      map (fun a => fold_left (vadd O) (tabnet_loop_row O split steps (fx a) (fa a) (fp a)) (g0 a)) X.
  Proof.
    intros A split vbs Steps steps Hv H. induction H as [|St s Steps steps HS _ IH]; intros fx fa fp g0 X.
    - reflexivity.
    - destruct St as [[Lin Bn] Ft], s as [[lin bn] ft]. destruct HS as (HL & HB & HF).
      cbn [tabnet_loop tabnet_loop_row fold_left].
      rewrite (attentive_rowwise _ _ _ _ _ fa fp X Hv HL HB).
      rewrite zipw_map, HF, !map_map, zipw_map, zipw_map.
      rewrite (IH fx _ _ _ X). reflexivity.
  Qed.

  Lemma tabnet_loop_nil_iff : forall split vbs Steps x att prior,
    tabnet_loop O split vbs Steps x att prior = [] <-> Steps = [].
  Proof. intros. destruct Steps as [|[[? ?] ?] ?]; cbn; split; congruence. Qed.

  Lemma tabnet_rowwise : forall {A} (Enc : list A -> t3) enc_r Bn0 bn0 Ft0 ft0 split vbs Steps steps Lin lin,
    0 < vbs -> acts_rowwise Enc enc_r -> acts_rowwise Bn0 bn0 -> acts_rowwise Ft0 ft0 ->
    Forall2 step_rowwise Steps steps -> acts_rowwise Lin lin ->
    forall X, tabnet_forward O Enc Bn0 Ft0 split vbs Steps Lin X =
              match steps with [] => None | _ => Some (map (fun a => match tabnet_row O enc_r bn0 ft0 split steps lin a with Some v => v | None => [] end) X) end.
  Proof.
    intros A Enc enc_r Bn0 bn0 Ft0 ft0 split vbs Steps steps Lin lin Hv HE HB HF HS HL X.
    unfold tabnet_forward, tabnet_row. rewrite HE, map_map, HB, map_map, HF, !map_map.
    destruct HS as [|St s Steps steps HS1 HS].
    - reflexivity.
    - destruct St as [[Lin1 Bn1] Ft1], s as [[lin1 bn1] ft1]. destruct HS1 as (HL1 & HB1 & HF1).
      cbn [tabnet_loop tabnet_loop_row].
      rewrite (attentive_rowwise _ _ _ _ _ _ _ X Hv HL1 HB1).
      rewrite zipw_map, HF1, !map_map, zipw_map.
      rewrite (tabnet_loop_rowwise split vbs Steps steps Hv HS _ _ _ _ X).
      rewrite HL, map_map. reflexivity.
  Qed.
End Rowwise.
