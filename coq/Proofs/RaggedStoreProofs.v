(* Lemmas about Model/RaggedStore.v (C06, store level): allocation and write
   frames, clone / cat / fillna_col on objects that view numbered storages. *)
From Coq Require Import ZArith List Bool Arith Lia.
From PF Require Import Lib.ListX Lib.PySlice Model.Ragged Model.RaggedRun Model.RaggedCat Model.RaggedStore.
From PF Require Import Proofs.ListXFacts Proofs.RaggedCatProofs.
Import ListNotations.

(* ---------------------------------------------------------------------- *)
Section Generic.
  Variables Buf H T : Type.
  Variable hbuf : H -> nat.
  Variable view : H -> Buf -> option T.

  Lemma g_read_alloc : forall st b h, hbuf h < length st ->
    g_read hbuf view (st ++ [b]) h = g_read hbuf view st h.
  Proof. intros st b h Hl. unfold g_read. rewrite nth_error_app1 by assumption. reflexivity. Qed.

  Lemma g_read_fresh : forall st b h, hbuf h = length st ->
    g_read hbuf view (st ++ [b]) h = view h b.
  Proof.
    intros st b h E. unfold g_read. rewrite nth_error_app2 by lia. rewrite E, Nat.sub_diag. reflexivity.
  Qed.

  Lemma g_read_valid : forall st h t, g_read hbuf view st h = Some t -> hbuf h < length st.
  Proof.
    intros st h t E. unfold g_read in E. destruct (nth_error st (hbuf h)) eqn:En; [|discriminate].
    apply nth_error_Some. congruence.
  Qed.

  Lemma update_length : forall (st : list Buf) k b, k < length st -> length (g_update st k b) = length st.
  Proof.
    intros st k b Hk. unfold g_update. rewrite app_length, firstn_length. cbn [length]. rewrite skipn_length. lia.
  Qed.

  Lemma update_nth_same : forall (st : list Buf) k b, k < length st -> nth_error (g_update st k b) k = Some b.
  Proof.
    intros st k b Hk. unfold g_update. rewrite nth_error_app2 by (rewrite firstn_length; lia).
    rewrite firstn_length. replace (k - Nat.min k (length st)) with 0 by lia. reflexivity.
  Qed.

  Lemma update_nth_other : forall (st : list Buf) k b k', k < length st -> k' <> k ->
    nth_error (g_update st k b) k' = nth_error st k'.
  Proof.
    intros st k b k' Hk Hne. unfold g_update.
    rewrite <- (firstn_skipn k st) at 3.
    destruct (Nat.lt_ge_cases k' k) as [Hlt|Hge].
    - rewrite !nth_error_app1 by (rewrite firstn_length; lia). reflexivity.
    - rewrite !nth_error_app2 by (rewrite firstn_length; lia). rewrite firstn_length.
      replace (Nat.min k (length st)) with k by lia.
      destruct (k' - k) as [|d] eqn:E; [lia|]. simpl.
      destruct (skipn k st) as [|x r] eqn:Es.
      + assert (length (skipn k st) = 0) by (rewrite Es; reflexivity). rewrite skipn_length in *. lia.
      + simpl. f_equal. assert (Hs : skipn (S k) st = r).
        { replace (S k) with (k + 1) by lia. rewrite <- (skipn_skipn' st 1 k), Es. reflexivity. }
        exact Hs.
  Qed.

  Lemma g_read_update_other : forall st k b h, k < length st -> hbuf h <> k ->
    g_read hbuf view (g_update st k b) h = g_read hbuf view st h.
  Proof. intros. unfold g_read. rewrite update_nth_other by assumption. reflexivity. Qed.

  Lemma g_read_update_same : forall st k b h, k < length st -> hbuf h = k ->
    g_read hbuf view (g_update st k b) h = view h b.
  Proof. intros st k b h Hk E. unfold g_read. rewrite E, update_nth_same by assumption. reflexivity. Qed.
End Generic.

(* ---------------------------------------------------------------------- *)
Section StoreProofs.
  Variable A : Type.
  Variable junk_o : nat -> nat.
  Variable junk_v : nat -> A.
  Variable is_na : A -> bool.
  Notation nstore := (list (list A)).
  Notation n_read := (n_read A).

  (* ------------------------------------------------------------------ *)
  (* MultiNestedTensor *)
  Lemma n_new_spec : forall (st : nstore) (t : mnt A),
    let '(st', h) := n_new A st t in
    st' = st ++ [vals t] /\ n_buf h = length st /\ n_read st' h = Some t.
  Proof.
    intros st t. unfold n_new, g_alloc. split; [reflexivity|]. split; [reflexivity|].
    unfold RaggedStore.n_read. rewrite g_read_fresh by reflexivity. unfold n_view. cbn [n_start n_len n_nr n_nc n_offs].
    cbn [Nat.add]. rewrite Nat.leb_refl. rewrite tslice_all. destruct t; reflexivity.
  Qed.

  Lemma n_read_alloc : forall (st : nstore) b h, n_buf h < length st -> n_read (st ++ [b]) h = n_read st h.
  Proof. intros. apply g_read_alloc. assumption. Qed.

  (* clone: an equal container in a storage nobody else views; nothing existing changes *)
  Lemma n_clone_spec : forall (st st' : nstore) h c, n_clone A st h = Some (st', c) ->
    n_buf c = length st
    /\ (exists b, st' = st ++ [b])
    /\ n_read st' c = (t <- n_read st h ;; mnt_clone A t)
    /\ (forall h0, n_buf h0 < length st -> n_read st' h0 = n_read st h0).
  Proof.
    intros st st' h c E. unfold n_clone in E.
    destruct (n_read st h) as [t|] eqn:Et; [|discriminate]. cbn [obind] in *.
    destruct (mnt_clone A t) as [r|] eqn:Er; [|discriminate]. cbn [obind] in E.
    pose proof (n_new_spec st r) as Hn. destruct (n_new A st r) as [s2 h2]. injection E as <- <-.
    destruct Hn as [-> [Hb Hr]]. repeat split; auto.
    - eexists; reflexivity.
    - intros. apply n_read_alloc. assumption.
  Qed.

  Lemma n_write_spec : forall (st st' : nstore) h new, n_write A st h new = Some st' ->
    length st' = length st
    /\ n_buf h < length st
    /\ (forall k, k <> n_buf h -> nth_error st' k = nth_error st k)
    /\ (exists b, nth_error st (n_buf h) = Some b /\
                  nth_error st' (n_buf h) =
                  Some (firstn (n_start h) b ++ new ++ skipn (n_start h + n_len h) b))
    /\ n_read st' h = Some (MkMnt (n_nr h) (n_nc h) new (n_offs h)).
  Proof.
    intros st st' h new E. unfold n_write in E.
    destruct (nth_error st (n_buf h)) as [b|] eqn:Eb; [|discriminate]. cbn [obind] in E.
    destruct ((length new =? n_len h) && (n_start h + n_len h <=? length b)) eqn:Ec; [|discriminate].
    injection E as <-. apply andb_true_iff in Ec. destruct Ec as [E1 E2].
    apply Nat.eqb_eq in E1. apply Nat.leb_le in E2.
    assert (Hk : n_buf h < length st) by (apply nth_error_Some; congruence).
    split; [apply update_length; assumption|]. split; [assumption|]. split; [|split].
    - intros k Hne. apply update_nth_other; assumption.
    - exists b. split; [reflexivity|]. apply update_nth_same. assumption.
    - unfold RaggedStore.n_read. rewrite g_read_update_same by auto. unfold n_view.
      rewrite !app_length, firstn_length, skipn_length.
      replace (n_start h + n_len h <=? Nat.min (n_start h) (length b) + (length new + (length b - (n_start h + n_len h))))
        with true by (symmetry; apply Nat.leb_le; lia).
      f_equal. f_equal. unfold tslice.
      replace (n_start h + n_len h - n_start h) with (length new) by lia.
      rewrite skipn_app, skipn_all2 by (rewrite firstn_length; lia). rewrite firstn_length. simpl.
      replace (n_start h - Nat.min (n_start h) (length b)) with 0 by lia. simpl.
      rewrite firstn_app, firstn_all, Nat.sub_diag. simpl. apply app_nil_r.
  Qed.

  (* fillna_col: the object afterwards reads as the pure fill of what it read before; only the
     window of its own storage is written; every object on another storage reads the same *)
  Lemma n_fill_spec : forall (st st' : nstore) h j v, n_fill A is_na st h j v = Some st' ->
    length st' = length st
    /\ n_read st' h = (t <- n_read st h ;; mnt_fillna_col A is_na t j v)
    /\ (forall h0, n_buf h0 <> n_buf h -> n_read st' h0 = n_read st h0)
    /\ (exists b b', nth_error st (n_buf h) = Some b /\ nth_error st' (n_buf h) = Some b' /\
                     firstn (n_start h) b' = firstn (n_start h) b /\
                     skipn (n_start h + n_len h) b' = skipn (n_start h + n_len h) b).
  Proof.
    intros st st' h j v E. unfold n_fill in E.
    destruct (n_read st h) as [t|] eqn:Et; [|discriminate]. cbn [obind] in *.
    destruct (mnt_fillna_col A is_na t j v) as [r|] eqn:Er; [|discriminate]. cbn [obind] in E.
    destruct (n_write_spec st st' h (vals r) E) as [Hl [Hk [Hoth [[b [Hb Hb']] Hrd]]]].
    split; [assumption|]. split; [|split].
    - rewrite Hrd. f_equal.
      (* the pure fill keeps sizes and offsets of what was read *)
      unfold RaggedStore.n_read, g_read in Et. rewrite Hb in Et. cbn [obind] in Et. unfold n_view in Et.
      destruct (n_start h + n_len h <=? length b); [|discriminate]. injection Et as <-.
      unfold mnt_fillna_col in Er. cbn [nr nc offs vals] in Er.
      repeat match type of Er with
             | (x <- ?e ;; _) = Some _ => destruct e; [cbn [obind] in Er|discriminate]
             end.
      injection Er as <-. reflexivity.
    - intros h0 Hne. unfold RaggedStore.n_read, g_read. rewrite Hoth by assumption. reflexivity.
    - exists b. eexists. split; [exact Hb|]. split; [exact Hb'|].
      assert (Hwin : n_start h + n_len h <= length b /\ length (vals r) = n_len h).
      { unfold n_write in E. rewrite Hb in E. cbn [obind] in E.
        destruct ((length (vals r) =? n_len h) && (n_start h + n_len h <=? length b)) eqn:Ec; [|discriminate].
        apply andb_true_iff in Ec. destruct Ec as [E1 E2]. apply Nat.eqb_eq in E1. apply Nat.leb_le in E2. lia. }
      destruct Hwin as [Hw1 Hw2]. split.
      + rewrite firstn_app, firstn_firstn, firstn_length. replace (Nat.min (n_start h) (n_start h)) with (n_start h) by lia.
        replace (n_start h - Nat.min (n_start h) (length b)) with 0 by lia. simpl. apply app_nil_r.
      + rewrite skipn_app, skipn_all2 by (rewrite firstn_length; lia). rewrite firstn_length. simpl.
        replace (n_start h + n_len h - Nat.min (n_start h) (length b)) with (length (vals r)) by lia.
        rewrite skipn_app, skipn_all, Nat.sub_diag. reflexivity.
  Qed.

  (* clone shares no storage: a write to the clone changes no object that existed before
     (in particular not the source), and a write to the source does not change the clone *)
  Lemma n_clone_no_shared_storage : forall (st st1 : nstore) h c, n_clone A st h = Some (st1, c) ->
    forall j v st2,
      (n_fill A is_na st1 c j v = Some st2 -> forall h0, n_buf h0 < length st -> n_read st2 h0 = n_read st h0)
      /\ (n_fill A is_na st1 h j v = Some st2 -> n_read st2 c = n_read st1 c).
  Proof.
    intros st st1 h c E j v st2. destruct (n_clone_spec st st1 h c E) as [Hb [[b Hst] [Hrd Hfr]]].
    assert (Hh : n_buf h < length st).
    { unfold n_clone in E. destruct (n_read st h) as [t|] eqn:Et; [|discriminate].
      exact (g_read_valid _ _ _ _ _ _ _ _ Et). }
    split; intros Ef.
    - intros h0 H0. destruct (n_fill_spec st1 st2 c j v Ef) as [_ [_ [Hoth _]]].
      rewrite Hoth by lia. apply Hfr. assumption.
    - destruct (n_fill_spec st1 st2 h j v Ef) as [_ [_ [Hoth _]]]. apply Hoth. lia.
  Qed.

  (* cat allocates its result: every object that existed before reads the same afterwards
     (the arguments are not modified); torch_frame.cat of one element is that element *)
  Lemma n_cat_frame : forall (st st' : nstore) hs d tf r, n_cat A junk_o junk_v st hs d tf = Some (st', r) ->
    (forall h0, n_buf h0 < length st -> n_read st' h0 = n_read st h0)
    /\ ((exists h, hs = [h] /\ tf = true /\ st' = st /\ r = h)
        \/ (n_buf r = length st /\
            n_read st' r = (ts <- mapM (n_read st) hs ;;
                            if tf then x <- cat_tensor_data A junk_o junk_v (map TMnt ts) d ;; as_mnt A x
                            else mnt_cat A junk_o junk_v ts d))).
  Proof.
    intros st st' hs d tf r E. unfold n_cat in E.
    destruct (mapM (RaggedStore.n_read A st) hs) as [ts|] eqn:Ets; [|discriminate]. cbn [obind] in E.
    remember (if tf then x <- cat_tensor_data A junk_o junk_v (map TMnt ts) d ;; as_mnt A x
              else mnt_cat A junk_o junk_v ts d) as pure eqn:Ep.
    assert (Hfresh : (x <- pure ;; Some (n_new A st x)) = Some (st', r) ->
              (forall h0, n_buf h0 < length st -> n_read st' h0 = n_read st h0) /\
              n_buf r = length st /\ n_read st' r = pure).
    { intros E'. destruct pure as [x|]; [|discriminate]. cbn [obind] in E'.
      pose proof (n_new_spec st x) as Hn. destruct (n_new A st x) as [s2 h2]. injection E' as <- <-.
      destruct Hn as [-> [Hb Hr]]. split; [|split]; auto. intros. apply n_read_alloc. assumption. }
    destruct hs as [|h [|h' hs']].
    - destruct (Hfresh E) as [H1 [H2 H3]]. split; [exact H1|]. right. split; [exact H2|]. rewrite H3, Ep. reflexivity.
    - destruct tf.
      + injection E as <- <-. split; [reflexivity|]. left. exists h. auto.
      + destruct (Hfresh E) as [H1 [H2 H3]]. split; [exact H1|]. right. split; [exact H2|]. rewrite H3, Ep. reflexivity.
    - destruct (Hfresh E) as [H1 [H2 H3]]. split; [exact H1|]. right. split; [exact H2|]. rewrite H3, Ep. reflexivity.
  Qed.

  (* ------------------------------------------------------------------ *)
  (* MultiEmbeddingTensor *)
  Notation estore := (list (list (list A))).
  Notation e_read := (e_read A).

  (* a 2-D values tensor: er rows, all of the declared width *)
  Definition met_ok (t : met A) : Prop :=
    length (t2rows (evals t)) = er t /\ Forall (fun row => length row = t2w (evals t)) (t2rows (evals t)).

  Lemma e_read_ok : forall (st : estore) h t, e_read st h = Some t -> met_ok t.
  Proof.
    intros st h t E. unfold RaggedStore.e_read, g_read in E.
    destruct (nth_error st (e_buf h)) as [b|]; [|discriminate]. cbn [obind] in E. unfold e_view in E.
    destruct ((e_r0 h + e_nr h <=? length b) && _) eqn:Ec; [|discriminate]. injection E as <-.
    apply andb_true_iff in Ec. destruct Ec as [E1 E2]. apply Nat.leb_le in E1.
    unfold met_ok. cbn [evals t2rows t2w er]. split.
    - rewrite map_length, tslice_length by assumption. lia.
    - apply Forall_forall. intros x Hx. apply in_map_iff in Hx. destruct Hx as [row [<- Hrow]].
      rewrite forallb_forall in E2. specialize (E2 row Hrow). apply Nat.leb_le in E2.
      rewrite tslice_length by assumption. lia.
  Qed.

  Lemma e_new_spec : forall (st : estore) (t : met A), met_ok t ->
    let '(st', h) := e_new A st t in
    st' = st ++ [t2rows (evals t)] /\ e_buf h = length st /\ e_read st' h = Some t.
  Proof.
    intros st t [Hl Hw]. unfold e_new, g_alloc. split; [reflexivity|]. split; [reflexivity|].
    unfold RaggedStore.e_read. rewrite g_read_fresh by reflexivity. unfold e_view.
    cbn [e_r0 e_nr e_c0 e_w e_nc e_offs Nat.add]. rewrite <- Hl, Nat.leb_refl, tslice_all.
    rewrite (proj2 (forallb_forall _ _)).
    2: { intros row Hrow. apply Nat.leb_le. rewrite Forall_forall in Hw. rewrite (Hw row Hrow). lia. }
    cbn [andb]. f_equal.
    replace (map (fun row => tslice row 0 (t2w (evals t))) (t2rows (evals t))) with (t2rows (evals t)).
    - rewrite Hl. destruct t as [r c [rows w] o]. reflexivity.
    - rewrite <- (map_id (t2rows (evals t))) at 1. apply map_ext_in. intros row Hrow.
      rewrite Forall_forall in Hw. rewrite <- (Hw row Hrow). symmetry. apply tslice_all.
  Qed.

  Lemma e_read_alloc : forall (st : estore) b h, e_buf h < length st -> e_read (st ++ [b]) h = e_read st h.
  Proof. intros. apply g_read_alloc. assumption. Qed.

  Lemma met_clone_ok : forall t r, met_ok t -> met_clone A t = Some r -> met_ok r.
  Proof.
    intros t r H E. unfold met_clone, mk_met in E. destruct (eoffs t) as [|o0 os]; [discriminate|].
    destruct ((o0 =? 0) && _); [|discriminate]. injection E as <-. exact H.
  Qed.

  Lemma e_clone_spec : forall (st st' : estore) h c, e_clone A st h = Some (st', c) ->
    e_buf c = length st
    /\ (exists b, st' = st ++ [b])
    /\ e_read st' c = (t <- e_read st h ;; met_clone A t)
    /\ (forall h0, e_buf h0 < length st -> e_read st' h0 = e_read st h0).
  Proof.
    intros st st' h c E. unfold e_clone in E.
    destruct (e_read st h) as [t|] eqn:Et; [|discriminate]. cbn [obind] in *.
    destruct (met_clone A t) as [r|] eqn:Er; [|discriminate]. cbn [obind] in E.
    pose proof (e_new_spec st r (met_clone_ok t r (e_read_ok st h t Et) Er)) as Hn.
    destruct (e_new A st r) as [s2 h2]. injection E as <- <-.
    destruct Hn as [-> [Hb Hr]]. repeat split; auto.
    - eexists; reflexivity.
    - intros. apply e_read_alloc. assumption.
  Qed.

  (* fillna_col writes one storage only *)
  Lemma e_fill_frame : forall (st st' : estore) h j v, e_fill A is_na st h j v = Some st' ->
    length st' = length st /\ e_buf h < length st
    /\ (forall k, k <> e_buf h -> nth_error st' k = nth_error st k)
    /\ (forall h0, e_buf h0 <> e_buf h -> e_read st' h0 = e_read st h0).
  Proof.
    intros st st' h j v E. unfold e_fill in E.
    destruct (e_read st h) as [t|]; [|discriminate]. cbn [obind] in E.
    destruct (met_fillna_col A is_na t j v) as [r|]; [|discriminate]. cbn [obind] in E.
    unfold e_write in E. destruct (nth_error st (e_buf h)) as [b|] eqn:Eb; [|discriminate]. cbn [obind] in E.
    match type of E with (if ?c then _ else _) = _ => destruct c; [|discriminate] end.
    injection E as <-.
    assert (Hk : e_buf h < length st) by (apply nth_error_Some; congruence).
    split; [apply update_length; assumption|]. split; [assumption|]. split.
    - intros k Hne. apply update_nth_other; assumption.
    - intros h0 Hne. unfold RaggedStore.e_read. apply g_read_update_other; assumption.
  Qed.

  Lemma e_clone_no_shared_storage : forall (st st1 : estore) h c, e_clone A st h = Some (st1, c) ->
    forall j v st2,
      (e_fill A is_na st1 c j v = Some st2 -> forall h0, e_buf h0 < length st -> e_read st2 h0 = e_read st h0)
      /\ (e_fill A is_na st1 h j v = Some st2 -> e_read st2 c = e_read st1 c).
  Proof.
    intros st st1 h c E j v st2. destruct (e_clone_spec st st1 h c E) as [Hb [[b Hst] [Hrd Hfr]]].
    assert (Hh : e_buf h < length st).
    { unfold e_clone in E. destruct (e_read st h) as [t|] eqn:Et; [|discriminate].
      exact (g_read_valid _ _ _ _ _ _ _ _ Et). }
    split; intros Ef.
    - intros h0 H0. destruct (e_fill_frame st1 st2 c j v Ef) as [_ [_ [_ Hoth]]].
      rewrite Hoth by lia. apply Hfr. assumption.
    - destruct (e_fill_frame st1 st2 h j v Ef) as [_ [_ [_ Hoth]]]. apply Hoth. lia.
  Qed.

  (* cat: every object that existed before reads the same; a one-element cat is that element *)
  Lemma e_cat_frame : forall (st st' : estore) hs d tf r, e_cat A junk_o junk_v st hs d tf = Some (st', r) ->
    (forall h0, e_buf h0 < length st -> e_read st' h0 = e_read st h0)
    /\ ((exists h, hs = [h] /\ st' = st /\ r = h) \/ (exists b, st' = st ++ [b] /\ e_buf r = length st)).
  Proof.
    intros st st' hs d tf r E. unfold e_cat in E.
    destruct (mapM (RaggedStore.e_read A st) hs) as [ts|]; [|discriminate]. cbn [obind] in E.
    assert (Hfresh : forall pure : option (met A), (x <- pure ;; Some (e_new A st x)) = Some (st', r) ->
              (forall h0, e_buf h0 < length st -> e_read st' h0 = e_read st h0) /\
              (exists b, st' = st ++ [b] /\ e_buf r = length st)).
    { intros pure E'. destruct pure as [x|]; [|discriminate]. cbn [obind] in E'.
      unfold e_new, g_alloc in E'. injection E' as <- <-. split.
      - intros. apply e_read_alloc. assumption.
      - eexists. split; reflexivity. }
    destruct hs as [|h [|h' hs']].
    - destruct (Hfresh _ E) as [H1 H2]. split; [exact H1|]. right. exact H2.
    - assert (Es : st' = st /\ r = h).
      { destruct tf; [injection E as <- <-; auto|].
        destruct (met_cat A ts d); [|discriminate]. cbn [obind] in E. injection E as <- <-. auto. }
      destruct Es as [-> ->]. split; [reflexivity|]. left. exists h. auto.
    - destruct (Hfresh _ E) as [H1 H2]. split; [exact H1|]. right. exact H2.
  Qed.

  (* ------------------------------------------------------------------ *)
  (* MultiEmbeddingTensor: read-back after an in-place write and after cat *)
  Lemma tslice_mid : forall {B} (a m z : list B) s l, length a = s -> length m = l ->
    tslice (a ++ m ++ z) s (s + l) = m.
  Proof.
    intros B a m z s l Ha Hm. unfold tslice. replace (s + l - s) with l by lia.
    rewrite skipn_app, skipn_all2 by lia. rewrite Ha, Nat.sub_diag. simpl.
    rewrite firstn_app, firstn_all2 by lia. rewrite Hm, Nat.sub_diag. simpl. apply app_nil_r.
  Qed.

  Lemma combine_fst_in : forall {B C} (l1 : list B) (l2 : list C) p, In p (combine l1 l2) -> In (fst p) l1 /\ In (snd p) l2.
  Proof. intros B C l1 l2 [x y] H. split; [eapply in_combine_l|eapply in_combine_r]; exact H. Qed.

  Lemma map_snd_combine : forall {B C} (l1 : list B) (l2 : list C), length l1 = length l2 ->
    map snd (combine l1 l2) = l2.
  Proof.
    intros B C l1. induction l1 as [|x l1 IH]; intros [|y l2] H; simpl in *; try discriminate; auto.
    f_equal. apply IH. lia.
  Qed.

  Lemma e_write_spec : forall (st st' : estore) h new, e_write A st h new = Some st' ->
    e_read st' h = Some (MkMet (e_nr h) (e_nc h) (MkT2 new (e_w h)) (e_offs h)).
  Proof.
    intros st st' h new E. unfold e_write in E.
    destruct (nth_error st (e_buf h)) as [b|] eqn:Eb; [|discriminate]. cbn [obind] in E.
    set (old := tslice b (e_r0 h) (e_r0 h + e_nr h)) in *.
    destruct ((length new =? e_nr h) && (e_r0 h + e_nr h <=? length b)
              && forallb (fun row => e_c0 h + e_w h <=? length row) old
              && forallb (fun row => length row =? e_w h) new) eqn:Ec; [|discriminate].
    injection E as <-.
    apply andb_true_iff in Ec. destruct Ec as [Ec E4]. apply andb_true_iff in Ec. destruct Ec as [Ec E3].
    apply andb_true_iff in Ec. destruct Ec as [E1 E2]. apply Nat.eqb_eq in E1. apply Nat.leb_le in E2.
    rewrite forallb_forall in E3, E4.
    assert (Hk : e_buf h < length st) by (apply nth_error_Some; congruence).
    assert (Hold : length old = e_nr h) by (unfold old; rewrite tslice_length by assumption; lia).
    set (upd := fun p : list A * list A => firstn (e_c0 h) (fst p) ++ snd p ++ skipn (e_c0 h + e_w h) (fst p)).
    assert (Hmid : length (map upd (combine old new)) = e_nr h).
    { rewrite map_length, combine_length, Hold, E1. lia. }
    unfold RaggedStore.e_read. rewrite g_read_update_same by auto. unfold e_view.
    rewrite (tslice_mid (firstn (e_r0 h) b) (map upd (combine old new)) (skipn (e_r0 h + e_nr h) b))
      by (try rewrite firstn_length; lia).
    replace (e_r0 h + e_nr h <=? length (firstn (e_r0 h) b ++ map upd (combine old new) ++ skipn (e_r0 h + e_nr h) b))
      with true by (symmetry; apply Nat.leb_le; rewrite !app_length, firstn_length, Hmid, skipn_length; lia).
    assert (Hrow : forall p, In p (combine old new) ->
                   length (fst p) >= e_c0 h + e_w h /\ length (snd p) = e_w h).
    { intros p Hp. destruct (combine_fst_in _ _ _ Hp) as [H1 H2].
      specialize (E3 _ H1). specialize (E4 _ H2). apply Nat.leb_le in E3. apply Nat.eqb_eq in E4. lia. }
    rewrite (proj2 (forallb_forall _ _)).
    2: { intros row Hr. apply in_map_iff in Hr. destruct Hr as [p [<- Hp]]. destruct (Hrow p Hp) as [H1 H2].
         apply Nat.leb_le. unfold upd. rewrite !app_length, firstn_length, skipn_length. lia. }
    cbn [andb]. f_equal. f_equal. f_equal.
    rewrite map_map. rewrite <- (map_snd_combine old new) at 2 by lia.
    apply map_ext_in. intros p Hp. destruct (Hrow p Hp) as [H1 H2]. unfold upd.
    apply tslice_mid; [rewrite firstn_length; lia|assumption].
  Qed.

  (* fillna_col at store level: the object reads as the pure fillna_col of what it read before *)
  Lemma e_fill_read : forall (st st' : estore) h j v, e_fill A is_na st h j v = Some st' ->
    e_read st' h = (t <- e_read st h ;; met_fillna_col A is_na t j v).
  Proof.
    intros st st' h j v E. unfold e_fill in E.
    destruct (e_read st h) as [t|] eqn:Et; [|discriminate]. cbn [obind] in *.
    destruct (met_fillna_col A is_na t j v) as [r|] eqn:Er; [|discriminate]. cbn [obind] in E.
    rewrite (e_write_spec st st' h _ E). f_equal.
    unfold RaggedStore.e_read, g_read in Et. destruct (nth_error st (e_buf h)) as [b|]; [|discriminate].
    cbn [obind] in Et. unfold e_view in Et. destruct (_ && _); [|discriminate]. injection Et as <-.
    unfold met_fillna_col in Er. cbn [eoffs evals t2rows t2w er ec] in Er.
    repeat match type of Er with
           | (x <- ?e ;; _) = Some _ => destruct e; [cbn [obind] in Er|discriminate]
           end.
    injection Er as <-. reflexivity.
  Qed.

  (* cat keeps 2-D values tensors well formed *)
  Lemma t2_cat0_inv : forall vs v, t2_cat0 A vs = Some v ->
    t2rows v = concat (map (@t2rows A) vs) /\ Forall (fun u => t2w u = t2w v) vs.
  Proof.
    intros vs v E. unfold t2_cat0 in E. destruct vs as [|v0 rest]; [discriminate|].
    destruct (forallb (fun u => t2w u =? t2w v0) rest) eqn:Ew; [|discriminate]. injection E as <-.
    split; [reflexivity|]. cbn [t2w]. constructor; [reflexivity|].
    rewrite forallb_forall in Ew. apply Forall_forall. intros u Hu. apply Nat.eqb_eq. auto.
  Qed.

  Lemma t2_cat1_inv : forall vs v, t2_cat1 A vs = Some v -> exists n,
    t2rows v = map (fun r => concat (map (fun u => nth r (t2rows u) []) vs)) (seq 0 n)
    /\ t2w v = sum (map (@t2w A) vs) /\ Forall (fun u => length (t2rows u) = n) vs.
  Proof.
    intros vs v E. unfold t2_cat1 in E. destruct vs as [|v0 rest]; [discriminate|].
    destruct (forallb (fun u => length (t2rows u) =? length (t2rows v0)) rest) eqn:Ew; [|discriminate].
    injection E as <-. exists (length (t2rows v0)). split; [reflexivity|]. split; [reflexivity|].
    constructor; [reflexivity|]. rewrite forallb_forall in Ew. apply Forall_forall. intros u Hu. apply Nat.eqb_eq. auto.
  Qed.

  Lemma met_cat0_ok : forall ts x, Forall met_ok ts -> met_cat0 A ts = Some x -> met_ok x.
  Proof.
    intros ts x H E. unfold met_cat0 in E. destruct ts as [|t0 [|t1 ts']]; [discriminate| |].
    - injection E as <-. inversion H; assumption.
    - remember (t0 :: t1 :: ts') as ts eqn:Ets.
      destruct (forallb _ (t1 :: ts')); [|discriminate].
      destruct (t2_cat0 A (map (@evals A) ts)) as [vals|] eqn:Ev; [|discriminate]. cbn [obind] in E.
      unfold mk_met in E. destruct (eoffs t0) as [|o0 os]; [discriminate|].
      destruct ((o0 =? 0) && _); [|discriminate]. injection E as <-.
      destruct (t2_cat0_inv _ _ Ev) as [Hrows Hw]. unfold met_ok. cbn [evals er]. rewrite Hrows. clear Ev Hrows Ets.
      rewrite Forall_map in Hw. rewrite map_map. split.
      + induction H as [|t ts0 [Hl _] _ IH]; simpl; auto.
        rewrite app_length, Hl. f_equal. apply IH. inversion Hw; assumption.
      + apply Forall_concat. apply Forall_forall. intros rows Hr.
        apply in_map_iff in Hr. destruct Hr as [t [<- Ht]].
        rewrite Forall_forall in H, Hw. destruct (H t Ht) as [_ Hrw]. rewrite <- (Hw t Ht). exact Hrw.
  Qed.

  Lemma met_cat1_ok : forall ts x, Forall met_ok ts -> met_cat1 A ts = Some x -> met_ok x.
  Proof.
    intros ts x H E. unfold met_cat1 in E. destruct ts as [|t0 [|t1 ts']]; [discriminate| |].
    - injection E as <-. inversion H; assumption.
    - remember (t0 :: t1 :: ts') as ts eqn:Ets.
      destruct (forallb _ (t1 :: ts')); [|discriminate].
      destruct (t2_cat1 A (map (@evals A) ts)) as [vals|] eqn:Ev; [|discriminate]. cbn [obind] in E.
      destruct (met_cat1_offsets A ts [0]) as [o|]; [|discriminate]. cbn [obind] in E.
      unfold mk_met in E. destruct o as [|o0 os]; [discriminate|].
      destruct ((o0 =? 0) && _); [|discriminate]. injection E as <-.
      destruct (t2_cat1_inv _ _ Ev) as [n [Hrows [Hwid Hn]]]. unfold met_ok. cbn [evals er].
      rewrite Hrows, Hwid. rewrite Forall_map in Hn.
      assert (H0 : n = er t0).
      { rewrite Ets in H, Hn. inversion H as [|? ? [Hl _] _]. inversion Hn as [|? ? Hn0 _]. congruence. }
      split.
      + rewrite map_length, seq_length. exact H0.
      + apply Forall_forall. intros row Hr. apply in_map_iff in Hr. destruct Hr as [r [<- Hr]]. apply in_seq in Hr.
        rewrite !map_map. clear Ev Hrows Hwid Ets H0. induction H as [|t ts0 [_ Hrw] _ IH]; simpl; auto.
        inversion Hn as [|? ? Hn1 Hn2]; subst. rewrite app_length, IH by assumption. f_equal.
        rewrite Forall_forall in Hrw. apply Hrw. apply nth_In. lia.
  Qed.

  Lemma met_cat_ok : forall ts d x, Forall met_ok ts -> met_cat A ts d = Some x -> met_ok x.
  Proof.
    intros ts d x H E. unfold met_cat in E. destruct ts as [|t ts']; [discriminate|].
    destruct (normalize_dim d) as [k|]; [|discriminate]. cbn [obind] in E.
    destruct (k =? 0); [eapply met_cat0_ok|eapply met_cat1_ok]; eauto.
  Qed.

  Lemma mapM_e_read_ok : forall (st : estore) hs ts, mapM (e_read st) hs = Some ts -> Forall met_ok ts.
  Proof.
    intros st hs. induction hs as [|h hs IH]; intros ts E; simpl in E.
    - injection E as <-. constructor.
    - destruct (e_read st h) as [t|] eqn:Et; [|discriminate]. destruct (mapM (e_read st) hs) as [ts'|]; [|discriminate].
      injection E as <-. constructor; [eapply e_read_ok; eauto|auto].
  Qed.

  (* cat at store level, full form: arguments untouched, and the result -- the element itself for a
     one-element list, otherwise an object on a new storage -- reads as the pure cat of what the arguments read *)
  Definition e_pure_cat (ts : list (met A)) (d : Z) (tf : bool) : option (met A) :=
    if tf then x <- cat_tensor_data A junk_o junk_v (map TMet ts) d ;; as_met A x else met_cat A ts d.

  Lemma met_cat_single : forall t d y, met_cat A [t] d = Some y -> y = t.
  Proof.
    intros t d y E. unfold met_cat in E. destruct (normalize_dim d) as [k|]; [|discriminate].
    cbn [obind] in E. destruct (k =? 0); simpl in E; injection E as <-; reflexivity.
  Qed.

  Lemma e_pure_cat_ok : forall ts d tf x, Forall met_ok ts -> e_pure_cat ts d tf = Some x -> met_ok x.
  Proof.
    intros ts d tf x H E. unfold e_pure_cat in E. destruct tf; [|eapply met_cat_ok; eauto].
    destruct ts as [|t0 [|t1 ts']].
    - simpl in E. discriminate.
    - simpl in E. injection E as <-. inversion H; assumption.
    - rewrite (cat_tensor_data_met A junk_o junk_v t0 t1 ts' d) in E.
      destruct (met_cat A (t0 :: t1 :: ts') d) as [y|] eqn:Ey; [|discriminate]. simpl in E. injection E as <-.
      eapply met_cat_ok; eauto.
  Qed.

  Lemma e_cat_spec : forall (st st' : estore) hs d tf r, e_cat A junk_o junk_v st hs d tf = Some (st', r) ->
    (forall h0, e_buf h0 < length st -> e_read st' h0 = e_read st h0)
    /\ ((exists h, hs = [h] /\ st' = st /\ r = h) \/ e_buf r = length st)
    /\ e_read st' r = (ts <- mapM (e_read st) hs ;; e_pure_cat ts d tf).
  Proof.
    intros st st' hs d tf r E. destruct (e_cat_frame st st' hs d tf r E) as [Hfr Hcase].
    split; [exact Hfr|]. split; [destruct Hcase as [H|[b [_ H]]]; auto|].
    unfold e_cat in E. destruct (mapM (RaggedStore.e_read A st) hs) as [ts|] eqn:Ets; [|discriminate].
    cbn [obind] in *. pose proof (mapM_e_read_ok st hs ts Ets) as Hok.
    assert (Hfresh : (x <- e_pure_cat ts d tf ;; Some (e_new A st x)) = Some (st', r) ->
                     e_read st' r = e_pure_cat ts d tf).
    { intros E'. destruct (e_pure_cat ts d tf) as [x|] eqn:Ep; [|discriminate]. cbn [obind] in E'.
      pose proof (e_new_spec st x (e_pure_cat_ok ts d tf x Hok Ep)) as Hn. destruct (e_new A st x) as [s2 h2].
      injection E' as <- <-. destruct Hn as [_ [_ Hr]]. exact Hr. }
    destruct hs as [|h [|h' hs']].
    - apply Hfresh. exact E.
    - simpl in Ets. destruct (RaggedStore.e_read A st h) as [t|] eqn:Et; [|discriminate]. injection Ets as <-.
      unfold e_pure_cat. destruct tf.
      + injection E as <- <-. rewrite Et. reflexivity.
      + destruct (met_cat A [t] d) as [y|] eqn:Ey; [|discriminate]. cbn [obind] in E. injection E as <- <-.
        rewrite Et. f_equal. symmetry. eapply met_cat_single. exact Ey.
    - apply Hfresh. exact E.
  Qed.
End StoreProofs.
