(* Lemmas about Model/RaggedStore.v (C06, store level): allocation and write
   frames, clone / cat / fillna_col on objects that view numbered storages. *)
From Coq Require Import ZArith List Bool Arith Lia.
From PF Require Import Lib.ListX Lib.PySlice Model.Ragged Model.RaggedRun Model.RaggedCat Model.RaggedStore.
From PF Require Import Proofs.ListXFacts.
Import ListNotations.

(* ---------------------------------------------------------------------- *)
Section Generic.
  Variables Buf H T : Type.
  Variable hbuf : H -> nat.
  Variable view : H -> Buf -> option T.

  Lemma g_read_alloc : forall st b h, hbuf h < length st ->
    g_read hbuf view (st ++ [b]) h = g_read hbuf view st h.
  Proof. intros st b h Hl. unfold g_read. rewrite nth_error_app1 by assumption. reflexivity. Qed.

  Lemma g_read_fresh : forall st b h, hbuf h = length st ->
    g_read hbuf view (st ++ [b]) h = view h b.
  Proof.
    intros st b h E. unfold g_read. rewrite nth_error_app2 by lia. rewrite E, Nat.sub_diag. reflexivity.
  Qed.

  Lemma g_read_valid : forall st h t, g_read hbuf view st h = Some t -> hbuf h < length st.
  Proof.
    intros st h t E. unfold g_read in E. destruct (nth_error st (hbuf h)) eqn:En; [|discriminate].
    apply nth_error_Some. congruence.
  Qed.

  Lemma update_length : forall (st : list Buf) k b, k < length st -> length (g_update st k b) = length st.
  Proof.
    intros st k b Hk. unfold g_update. rewrite app_length, firstn_length. cbn [length]. rewrite skipn_length. lia.
  Qed.

  Lemma update_nth_same : forall (st : list Buf) k b, k < length st -> nth_error (g_update st k b) k = Some b.
  Proof.
    intros st k b Hk. unfold g_update. rewrite nth_error_app2 by (rewrite firstn_length; lia).
    rewrite firstn_length. replace (k - Nat.min k (length st)) with 0 by lia. reflexivity.
  Qed.

  Lemma update_nth_other : forall (st : list Buf) k b k', k < length st -> k' <> k ->
    nth_error (g_update st k b) k' = nth_error st k'.
  Proof.
    intros st k b k' Hk Hne. unfold g_update.
    rewrite <- (firstn_skipn k st) at 3.
    destruct (Nat.lt_ge_cases k' k) as [Hlt|Hge].
    - rewrite !nth_error_app1 by (rewrite firstn_length; lia). reflexivity.
    - rewrite !nth_error_app2 by (rewrite firstn_length; lia). rewrite firstn_length.
      replace (Nat.min k (length st)) with k by lia.
      destruct (k' - k) as [|d] eqn:E; [lia|]. simpl.
      destruct (skipn k st) as [|x r] eqn:Es.
      + assert (length (skipn k st) = 0) by (rewrite Es; reflexivity). rewrite skipn_length in *. lia.
      + simpl. f_equal. assert (Hs : skipn (S k) st = r).
        { replace (S k) with (k + 1) by lia. rewrite <- (skipn_skipn' st 1 k), Es. reflexivity. }
        exact Hs.
  Qed.

  Lemma g_read_update_other : forall st k b h, k < length st -> hbuf h <> k ->
    g_read hbuf view (g_update st k b) h = g_read hbuf view st h.
  Proof. intros. unfold g_read. rewrite update_nth_other by assumption. reflexivity. Qed.

  Lemma g_read_update_same : forall st k b h, k < length st -> hbuf h = k ->
    g_read hbuf view (g_update st k b) h = view h b.
  Proof. intros st k b h Hk E. unfold g_read. rewrite E, update_nth_same by assumption. reflexivity. Qed.
End Generic.

(* ---------------------------------------------------------------------- *)
Section StoreProofs.
  Variable A : Type.
  Variable junk_o : nat -> nat.
  Variable junk_v : nat -> A.
  Variable is_na : A -> bool.
  Notation nstore := (list (list A)).
  Notation n_read := (n_read A).

  (* ------------------------------------------------------------------ *)
  (* MultiNestedTensor *)
  Lemma n_new_spec : forall (st : nstore) (t : mnt A),
    let '(st', h) := n_new A st t in
    st' = st ++ [vals t] /\ n_buf h = length st /\ n_read st' h = Some t.
  Proof.
    intros st t. unfold n_new, g_alloc. split; [reflexivity|]. split; [reflexivity|].
    unfold RaggedStore.n_read. rewrite g_read_fresh by reflexivity. unfold n_view. cbn [n_start n_len n_nr n_nc n_offs].
    cbn [Nat.add]. rewrite Nat.leb_refl. rewrite tslice_all. destruct t; reflexivity.
  Qed.

  Lemma n_read_alloc : forall (st : nstore) b h, n_buf h < length st -> n_read (st ++ [b]) h = n_read st h.
  Proof. intros. apply g_read_alloc. assumption. Qed.

  (* clone: an equal container in a storage nobody else views; nothing existing changes *)
  Lemma n_clone_spec : forall (st st' : nstore) h c, n_clone A st h = Some (st', c) ->
    n_buf c = length st
    /\ (exists b, st' = st ++ [b])
    /\ n_read st' c = (t <- n_read st h ;; mnt_clone A t)
    /\ (forall h0, n_buf h0 < length st -> n_read st' h0 = n_read st h0).
  Proof.
    intros st st' h c E. unfold n_clone in E.
    destruct (n_read st h) as [t|] eqn:Et; [|discriminate]. cbn [obind] in *.
    destruct (mnt_clone A t) as [r|] eqn:Er; [|discriminate]. cbn [obind] in E.
    pose proof (n_new_spec st r) as Hn. destruct (n_new A st r) as [s2 h2]. injection E as <- <-.
    destruct Hn as [-> [Hb Hr]]. repeat split; auto.
    - eexists; reflexivity.
    - intros. apply n_read_alloc. assumption.
  Qed.

  Lemma n_write_spec : forall (st st' : nstore) h new, n_write A st h new = Some st' ->
    length st' = length st
    /\ n_buf h < length st
    /\ (forall k, k <> n_buf h -> nth_error st' k = nth_error st k)
    /\ (exists b, nth_error st (n_buf h) = Some b /\
                  nth_error st' (n_buf h) =
                  Some (firstn (n_start h) b ++ new ++ skipn (n_start h + n_len h) b))
    /\ n_read st' h = Some (MkMnt (n_nr h) (n_nc h) new (n_offs h)).
  Proof.
    intros st st' h new E. unfold n_write in E.
    destruct (nth_error st (n_buf h)) as [b|] eqn:Eb; [|discriminate]. cbn [obind] in E.
    destruct ((length new =? n_len h) && (n_start h + n_len h <=? length b)) eqn:Ec; [|discriminate].
    injection E as <-. apply andb_true_iff in Ec. destruct Ec as [E1 E2].
    apply Nat.eqb_eq in E1. apply Nat.leb_le in E2.
    assert (Hk : n_buf h < length st) by (apply nth_error_Some; congruence).
    split; [apply update_length; assumption|]. split; [assumption|]. split; [|split].
    - intros k Hne. apply update_nth_other; assumption.
    - exists b. split; [reflexivity|]. apply update_nth_same. assumption.
    - unfold RaggedStore.n_read. rewrite g_read_update_same by auto. unfold n_view.
      rewrite !app_length, firstn_length, skipn_length.
      replace (n_start h + n_len h <=? Nat.min (n_start h) (length b) + (length new + (length b - (n_start h + n_len h))))
        with true by (symmetry; apply Nat.leb_le; lia).
      f_equal. f_equal. unfold tslice.
      replace (n_start h + n_len h - n_start h) with (length new) by lia.
      rewrite skipn_app, skipn_all2 by (rewrite firstn_length; lia). rewrite firstn_length. simpl.
      replace (n_start h - Nat.min (n_start h) (length b)) with 0 by lia. simpl.
      rewrite firstn_app, firstn_all, Nat.sub_diag. simpl. apply app_nil_r.
  Qed.

  (* fillna_col: the object afterwards reads as the pure fill of what it read before; only the
     window of its own storage is written; every object on another storage reads the same *)
  Lemma n_fill_spec : forall (st st' : nstore) h j v, n_fill A is_na st h j v = Some st' ->
    length st' = length st
    /\ n_read st' h = (t <- n_read st h ;; mnt_fillna_col A is_na t j v)
    /\ (forall h0, n_buf h0 <> n_buf h -> n_read st' h0 = n_read st h0)
    /\ (exists b b', nth_error st (n_buf h) = Some b /\ nth_error st' (n_buf h) = Some b' /\
                     firstn (n_start h) b' = firstn (n_start h) b /\
                     skipn (n_start h + n_len h) b' = skipn (n_start h + n_len h) b).
  Proof.
    intros st st' h j v E. unfold n_fill in E.
    destruct (n_read st h) as [t|] eqn:Et; [|discriminate]. cbn [obind] in *.
    destruct (mnt_fillna_col A is_na t j v) as [r|] eqn:Er; [|discriminate]. cbn [obind] in E.
    destruct (n_write_spec st st' h (vals r) E) as [Hl [Hk [Hoth [[b [Hb Hb']] Hrd]]]].
    split; [assumption|]. split; [|split].
    - rewrite Hrd. f_equal.
      (* the pure fill keeps sizes and offsets of what was read *)
      unfold RaggedStore.n_read, g_read in Et. rewrite Hb in Et. cbn [obind] in Et. unfold n_view in Et.
      destruct (n_start h + n_len h <=? length b); [|discriminate]. injection Et as <-.
      unfold mnt_fillna_col in Er. cbn [nr nc offs vals] in Er.
      repeat match type of Er with
             | (x <- ?e ;; _) = Some _ => destruct e; [cbn [obind] in Er|discriminate]
             end.
      injection Er as <-. reflexivity.
    - intros h0 Hne. unfold RaggedStore.n_read, g_read. rewrite Hoth by assumption. reflexivity.
    - exists b. eexists. split; [exact Hb|]. split; [exact Hb'|].
      assert (Hwin : n_start h + n_len h <= length b /\ length (vals r) = n_len h).
      { unfold n_write in E. rewrite Hb in E. cbn [obind] in E.
        destruct ((length (vals r) =? n_len h) && (n_start h + n_len h <=? length b)) eqn:Ec; [|discriminate].
        apply andb_true_iff in Ec. destruct Ec as [E1 E2]. apply Nat.eqb_eq in E1. apply Nat.leb_le in E2. lia. }
      destruct Hwin as [Hw1 Hw2]. split.
      + rewrite firstn_app, firstn_firstn, firstn_length. replace (Nat.min (n_start h) (n_start h)) with (n_start h) by lia.
        replace (n_start h - Nat.min (n_start h) (length b)) with 0 by lia. simpl. apply app_nil_r.
      + rewrite skipn_app, skipn_all2 by (rewrite firstn_length; lia). rewrite firstn_length. simpl.
        replace (n_start h + n_len h - Nat.min (n_start h) (length b)) with (length (vals r)) by lia.
        rewrite skipn_app, skipn_all, Nat.sub_diag. reflexivity.
  Qed.

  (* clone shares no storage: a write to the clone changes no object that existed before
     (in particular not the source), and a write to the source does not change the clone *)
  Lemma n_clone_no_shared_storage : forall (st st1 : nstore) h c, n_clone A st h = Some (st1, c) ->
    forall j v st2,
      (n_fill A is_na st1 c j v = Some st2 -> forall h0, n_buf h0 < length st -> n_read st2 h0 = n_read st h0)
      /\ (n_fill A is_na st1 h j v = Some st2 -> n_read st2 c = n_read st1 c).
  Proof.
    intros st st1 h c E j v st2. destruct (n_clone_spec st st1 h c E) as [Hb [[b Hst] [Hrd Hfr]]].
    assert (Hh : n_buf h < length st).
    { unfold n_clone in E. destruct (n_read st h) as [t|] eqn:Et; [|discriminate].
      exact (g_read_valid _ _ _ _ _ _ _ _ Et). }
    split; intros Ef.
    - intros h0 H0. destruct (n_fill_spec st1 st2 c j v Ef) as [_ [_ [Hoth _]]].
      rewrite Hoth by lia. apply Hfr. assumption.
    - destruct (n_fill_spec st1 st2 h j v Ef) as [_ [_ [Hoth _]]]. apply Hoth. lia.
  Qed.

  (* cat allocates its result: every object that existed before reads the same afterwards
     (the arguments are not modified); torch_frame.cat of one element is that element *)
  Lemma n_cat_frame : forall (st st' : nstore) hs d tf r, n_cat A junk_o junk_v st hs d tf = Some (st', r) ->
    (forall h0, n_buf h0 < length st -> n_read st' h0 = n_read st h0)
    /\ ((exists h, hs = [h] /\ tf = true /\ st' = st /\ r = h)
        \/ (n_buf r = length st /\
            n_read st' r = (ts <- mapM (n_read st) hs ;;
                            if tf then x <- cat_tensor_data A junk_o junk_v (map TMnt ts) d ;; as_mnt A x
                            else mnt_cat A junk_o junk_v ts d))).
  Proof.
    intros st st' hs d tf r E. unfold n_cat in E.
    destruct (mapM (RaggedStore.n_read A st) hs) as [ts|] eqn:Ets; [|discriminate]. cbn [obind] in E.
    remember (if tf then x <- cat_tensor_data A junk_o junk_v (map TMnt ts) d ;; as_mnt A x
              else mnt_cat A junk_o junk_v ts d) as pure eqn:Ep.
    assert (Hfresh : (x <- pure ;; Some (n_new A st x)) = Some (st', r) ->
              (forall h0, n_buf h0 < length st -> n_read st' h0 = n_read st h0) /\
              n_buf r = length st /\ n_read st' r = pure).
    { intros E'. destruct pure as [x|]; [|discriminate]. cbn [obind] in E'.
      pose proof (n_new_spec st x) as Hn. destruct (n_new A st x) as [s2 h2]. injection E' as <- <-.
      destruct Hn as [-> [Hb Hr]]. split; [|split]; auto. intros. apply n_read_alloc. assumption. }
    destruct hs as [|h [|h' hs']].
    - destruct (Hfresh E) as [H1 [H2 H3]]. split; [exact H1|]. right. split; [exact H2|]. rewrite H3, Ep. reflexivity.
    - destruct tf.
      + injection E as <- <-. split; [reflexivity|]. left. exists h. auto.
      + destruct (Hfresh E) as [H1 [H2 H3]]. split; [exact H1|]. right. split; [exact H2|]. rewrite H3, Ep. reflexivity.
    - destruct (Hfresh E) as [H1 [H2 H3]]. split; [exact H1|]. right. split; [exact H2|]. rewrite H3, Ep. reflexivity.
  Qed.

  (* ------------------------------------------------------------------ *)
  (* MultiEmbeddingTensor *)
  Notation estore := (list (list (list A))).
  Notation e_read := (e_read A).

  (* a 2-D values tensor: er rows, all of the declared width *)
  Definition met_ok (t : met A) : Prop :=
    length (t2rows (evals t)) = er t /\ Forall (fun row => length row = t2w (evals t)) (t2rows (evals t)).

  Lemma e_read_ok : forall (st : estore) h t, e_read st h = Some t -> met_ok t.
  Proof.
    intros st h t E. unfold RaggedStore.e_read, g_read in E.
    destruct (nth_error st (e_buf h)) as [b|]; [|discriminate]. cbn [obind] in E. unfold e_view in E.
    destruct ((e_r0 h + e_nr h <=? length b) && _) eqn:Ec; [|discriminate]. injection E as <-.
    apply andb_true_iff in Ec. destruct Ec as [E1 E2]. apply Nat.leb_le in E1.
    unfold met_ok. cbn [evals t2rows t2w er]. split.
    - rewrite map_length, tslice_length by assumption. lia.
    - apply Forall_forall. intros x Hx. apply in_map_iff in Hx. destruct Hx as [row [<- Hrow]].
      rewrite forallb_forall in E2. specialize (E2 row Hrow). apply Nat.leb_le in E2.
      rewrite tslice_length by assumption. lia.
  Qed.

  Lemma e_new_spec : forall (st : estore) (t : met A), met_ok t ->
    let '(st', h) := e_new A st t in
    st' = st ++ [t2rows (evals t)] /\ e_buf h = length st /\ e_read st' h = Some t.
  Proof.
    intros st t [Hl Hw]. unfold e_new, g_alloc. split; [reflexivity|]. split; [reflexivity|].
    unfold RaggedStore.e_read. rewrite g_read_fresh by reflexivity. unfold e_view.
    cbn [e_r0 e_nr e_c0 e_w e_nc e_offs Nat.add]. rewrite <- Hl, Nat.leb_refl, tslice_all.
    rewrite (proj2 (forallb_forall _ _)).
    2: { intros row Hrow. apply Nat.leb_le. rewrite Forall_forall in Hw. rewrite (Hw row Hrow). lia. }
    cbn [andb]. f_equal.
    replace (map (fun row => tslice row 0 (t2w (evals t))) (t2rows (evals t))) with (t2rows (evals t)).
    - rewrite Hl. destruct t as [r c [rows w] o]. reflexivity.
    - rewrite <- (map_id (t2rows (evals t))) at 1. apply map_ext_in. intros row Hrow.
      rewrite Forall_forall in Hw. rewrite <- (Hw row Hrow). symmetry. apply tslice_all.
  Qed.

  Lemma e_read_alloc : forall (st : estore) b h, e_buf h < length st -> e_read (st ++ [b]) h = e_read st h.
  Proof. intros. apply g_read_alloc. assumption. Qed.

  Lemma met_clone_ok : forall t r, met_ok t -> met_clone A t = Some r -> met_ok r.
  Proof.
    intros t r H E. unfold met_clone, mk_met in E. destruct (eoffs t) as [|o0 os]; [discriminate|].
    destruct ((o0 =? 0) && _); [|discriminate]. injection E as <-. exact H.
  Qed.

  Lemma e_clone_spec : forall (st st' : estore) h c, e_clone A st h = Some (st', c) ->
    e_buf c = length st
    /\ (exists b, st' = st ++ [b])
    /\ e_read st' c = (t <- e_read st h ;; met_clone A t)
    /\ (forall h0, e_buf h0 < length st -> e_read st' h0 = e_read st h0).
  Proof.
    intros st st' h c E. unfold e_clone in E.
    destruct (e_read st h) as [t|] eqn:Et; [|discriminate]. cbn [obind] in *.
    destruct (met_clone A t) as [r|] eqn:Er; [|discriminate]. cbn [obind] in E.
    pose proof (e_new_spec st r (met_clone_ok t r (e_read_ok st h t Et) Er)) as Hn.
    destruct (e_new A st r) as [s2 h2]. injection E as <- <-.
    destruct Hn as [-> [Hb Hr]]. repeat split; auto.
    - eexists; reflexivity.
    - intros. apply e_read_alloc. assumption.
  Qed.

  (* fillna_col writes one storage only *)
  Lemma e_fill_frame : forall (st st' : estore) h j v, e_fill A is_na st h j v = Some st' ->
    length st' = length st /\ e_buf h < length st
    /\ (forall k, k <> e_buf h -> nth_error st' k = nth_error st k)
    /\ (forall h0, e_buf h0 <> e_buf h -> e_read st' h0 = e_read st h0).
  Proof.
    intros st st' h j v E. unfold e_fill in E.
    destruct (e_read st h) as [t|]; [|discriminate]. cbn [obind] in E.
    destruct (met_fillna_col A is_na t j v) as [r|]; [|discriminate]. cbn [obind] in E.
    unfold e_write in E. destruct (nth_error st (e_buf h)) as [b|] eqn:Eb; [|discriminate]. cbn [obind] in E.
    match type of E with (if ?c then _ else _) = _ => destruct c; [|discriminate] end.
    injection E as <-.
    assert (Hk : e_buf h < length st) by (apply nth_error_Some; congruence).
    split; [apply update_length; assumption|]. split; [assumption|]. split.
    - intros k Hne. apply update_nth_other; assumption.
    - intros h0 Hne. unfold RaggedStore.e_read. apply g_read_update_other; assumption.
  Qed.

  Lemma e_clone_no_shared_storage : forall (st st1 : estore) h c, e_clone A st h = Some (st1, c) ->
    forall j v st2,
      (e_fill A is_na st1 c j v = Some st2 -> forall h0, e_buf h0 < length st -> e_read st2 h0 = e_read st h0)
      /\ (e_fill A is_na st1 h j v = Some st2 -> e_read st2 c = e_read st1 c).
  Proof.
    intros st st1 h c E j v st2. destruct (e_clone_spec st st1 h c E) as [Hb [[b Hst] [Hrd Hfr]]].
    assert (Hh : e_buf h < length st).
    { unfold e_clone in E. destruct (e_read st h) as [t|] eqn:Et; [|discriminate].
      exact (g_read_valid _ _ _ _ _ _ _ _ Et). }
    split; intros Ef.
    - intros h0 H0. destruct (e_fill_frame st1 st2 c j v Ef) as [_ [_ [_ Hoth]]].
      rewrite Hoth by lia. apply Hfr. assumption.
    - destruct (e_fill_frame st1 st2 h j v Ef) as [_ [_ [_ Hoth]]]. apply Hoth. lia.
  Qed.

  (* cat: every object that existed before reads the same; a one-element cat is that element *)
  Lemma e_cat_frame : forall (st st' : estore) hs d tf r, e_cat A junk_o junk_v st hs d tf = Some (st', r) ->
    (forall h0, e_buf h0 < length st -> e_read st' h0 = e_read st h0)
    /\ ((exists h, hs = [h] /\ st' = st /\ r = h) \/ (exists b, st' = st ++ [b] /\ e_buf r = length st)).
  Proof.
    intros st st' hs d tf r E. unfold e_cat in E.
    destruct (mapM (RaggedStore.e_read A st) hs) as [ts|]; [|discriminate]. cbn [obind] in E.
    assert (Hfresh : forall pure : option (met A), (x <- pure ;; Some (e_new A st x)) = Some (st', r) ->
              (forall h0, e_buf h0 < length st -> e_read st' h0 = e_read st h0) /\
              (exists b, st' = st ++ [b] /\ e_buf r = length st)).
    { intros pure E'. destruct pure as [x|]; [|discriminate]. cbn [obind] in E'.
      unfold e_new, g_alloc in E'. injection E' as <- <-. split.
      - intros. apply e_read_alloc. assumption.
      - eexists. split; reflexivity. }
    destruct hs as [|h [|h' hs']].
    - destruct (Hfresh _ E) as [H1 H2]. split; [exact H1|]. right. exact H2.
    - assert (Es : st' = st /\ r = h).
      { destruct tf; [injection E as <- <-; auto|].
        destruct (met_cat A ts d); [|discriminate]. cbn [obind] in E. injection E as <- <-. auto. }
      destruct Es as [-> ->]. split; [reflexivity|]. left. exists h. auto.
    - destruct (Hfresh _ E) as [H1 H2]. split; [exact H1|]. right. exact H2.
  Qed.
End StoreProofs.
