(* C16 — lemmas about Model/Embedders.v. *)
From Coq Require Import String.
From Coq Require Import List Arith Bool Lia.
From PF Require Import Lib.ListX Lib.Chunks Lib.PySlice Proofs.ChunksFacts Proofs.ListXFacts Model.Embedders.
Import ListNotations.

(* ------------------------------------------------------------------ *)
(* the argument lists *)

Lemma map_fst_pair : forall {A B} (f : A -> B) (l : list A), map fst (map (fun a => (a, f a)) l) = l.
Proof. intros. rewrite map_map. simpl. apply map_id. Qed.

Lemma map_snd_pair : forall {A B} (f : A -> B) (l : list A), map snd (map (fun a => (a, f a)) l) = map f l.
Proof. intros. rewrite map_map. reflexivity. Qed.

Definition valid_bs (bs : option nat) : Prop := match bs with None => True | Some k => 0 < k end.

(* ------------------------------------------------------------------ *)
(* the Python loop `for i in range(0, len(l), k): l[i:i+k]` yields the consecutive chunks *)

Lemma ceil_div_step : forall n k, 0 < n -> 0 < k -> (n + k - 1) / k = S ((n - k + k - 1) / k).
Proof.
  intros n k Hn Hk. destruct (le_lt_dec n k) as [Hle|Hlt].
  - replace (n - k) with 0 by lia. rewrite (Nat.div_small (0 + k - 1) k) by lia.
    symmetry. apply Nat.div_unique with (r := n - 1); lia.
  - replace (n + k - 1) with ((n - k + k - 1) + 1 * k) by lia.
    rewrite Nat.div_add by lia. lia.
Qed.

Lemma count_up_0 : forall n k, 0 < k -> count_up 0 n k = (n + k - 1) / k.
Proof.
  intros n k Hk. unfold count_up. destruct (0 <? n) eqn:E.
  - rewrite Nat.sub_0_r. reflexivity.
  - apply Nat.ltb_ge in E. replace n with 0 by lia. symmetry. apply Nat.div_small. lia.
Qed.

Lemma batch_slices_fuel : forall {A} fuel k (l : list A), 0 < k -> length l <= fuel ->
  chunks_fuel fuel k l =
  map (fun j => tslice l (j * k) (j * k + k)) (seq 0 ((length l + k - 1) / k)).
Proof.
  intros A fuel k. induction fuel as [|f IH]; intros l Hk Hl.
  - destruct l; [|simpl in Hl; lia]. simpl. rewrite Nat.div_small by lia. reflexivity.
  - destruct l as [|x r].
    + simpl. rewrite Nat.div_small by lia. reflexivity.
    + cbn [chunks_fuel]. rewrite (ceil_div_step (length (x :: r)) k) by (simpl; lia).
      cbn [seq]. rewrite <- seq_shift. cbn [map]. rewrite map_map. f_equal.
      * unfold tslice. simpl. rewrite Nat.sub_0_r. reflexivity.
      * rewrite IH by (try rewrite skipn_length; cbn [length] in *; lia).
        rewrite skipn_length. apply map_ext. intro j. unfold tslice.
        rewrite skipn_skipn'.
        replace (S j * k) with (k + j * k) by (simpl; lia).
        replace (j * k + k - j * k) with (k + j * k + k - (k + j * k)) by lia. reflexivity.
Qed.

Theorem batch_slices_chunks : forall {A} k (l : list A), 0 < k -> batch_slices k l = chunks k l.
Proof.
  intros A k l Hk. unfold batch_slices, chunks, range_up. rewrite count_up_0 by exact Hk.
  rewrite (batch_slices_fuel (length l) k l Hk (le_n _)). rewrite map_map. apply map_ext. intro j.
  reflexivity.
Qed.

(* batch_size = 0: the loop makes no call at all (Python: ValueError from range()) *)
Lemma batch_slices_zero : forall {A} (l : list A), batch_slices 0 l = [].
Proof.
  intros A l. unfold batch_slices, range_up, count_up. destruct (0 <? length l); [|reflexivity].
  reflexivity.
Qed.

Lemma arg_lists_chunks : forall k cells, 0 < k -> arg_lists (Some k) cells = chunks k (ser_list cells).
Proof. intros. simpl. apply batch_slices_chunks. assumption. Qed.

Lemma arg_lists_concat : forall bs cells, valid_bs bs -> concat (arg_lists bs cells) = ser_list cells.
Proof.
  intros [k|] cells H.
  - rewrite arg_lists_chunks by exact H. apply chunks_concat; exact H.
  - simpl. apply app_nil_r.
Qed.

Lemma arg_lists_sizes : forall k cells, 0 < k ->
  Forall (fun a => 0 < length a <= k) (arg_lists (Some k) cells).
Proof. intros. rewrite arg_lists_chunks by assumption. apply chunks_sizes; assumption. Qed.

Lemma arg_lists_full : forall k cells cs c, 0 < k ->
  arg_lists (Some k) cells = cs ++ [c] -> Forall (fun a => length a = k) cs.
Proof. intros k cells cs c Hk E. rewrite arg_lists_chunks in E by exact Hk. eapply chunks_all_but_last_full; eauto. Qed.

Lemma arg_lists_count : forall k cells, 0 < k ->
  length (arg_lists (Some k) cells) = (length cells + k - 1) / k.
Proof. intros. rewrite arg_lists_chunks by assumption. rewrite chunks_count by assumption. unfold ser_list. rewrite map_length. reflexivity. Qed.

Lemma chunks_nonempty : forall {A} k (l : list A), 0 < k -> l <> [] ->
  exists c cs, chunks k l = c :: cs /\ c <> [].
Proof.
  intros A k l Hk Hl. destruct (chunks k l) as [|c cs] eqn:E.
  - exfalso. apply Hl. rewrite <- (chunks_concat k l Hk), E. reflexivity.
  - exists c, cs. split; [reflexivity|].
    pose proof (chunks_sizes k l Hk) as Hs. rewrite E in Hs. inversion Hs as [|? ? Hc _]; subst.
    intro Hn. subst c. simpl in Hc. lia.
Qed.

Lemma arg_lists_nonempty : forall bs cells, valid_bs bs -> cells <> [] ->
  exists a r, arg_lists bs cells = a :: r /\ a <> [].
Proof.
  intros [k|] cells Hv Hc.
  - rewrite arg_lists_chunks by exact Hv. apply chunks_nonempty; auto. unfold ser_list. destruct cells; [congruence | discriminate].
  - exists (ser_list cells), []. split; [reflexivity|]. unfold ser_list. destruct cells; [congruence | discriminate].
Qed.

(* a missing cell arrives as a string *)
Lemma render_missing : render CNone = "None"%string /\ render CNaN = "nan"%string /\ render CNA = "<NA>"%string.
Proof. repeat split. Qed.

(* ------------------------------------------------------------------ *)
(* embedders *)
Section EmbeddingFacts.
  Context {V : Type}.
  Variable embedder : list string -> list V.

  Lemma emb_calls_are_arg_lists : forall bs cells, emb_calls embedder bs cells = arg_lists bs cells.
  Proof. intros. unfold emb_calls, emb_invocations. apply map_fst_pair. Qed.

  (* the callable is row-wise: it maps a concatenation to the concatenation, and
     one string to one output row *)
  Variable emb1 : string -> V.
  Hypothesis H_app : forall xs ys, embedder (xs ++ ys) = embedder xs ++ embedder ys.
  Hypothesis H_one : forall x, embedder [x] = [emb1 x].

  Lemma embedder_nil : embedder [] = [].
  Proof.
    pose proof (H_app [] []) as H. simpl in H.
    destruct (embedder []) as [|v r]; [reflexivity|].
    apply (f_equal (@length V)) in H. rewrite app_length in H. simpl in H. lia.
  Qed.

  Lemma embedder_map : forall xs, embedder xs = map emb1 xs.
  Proof.
    induction xs as [|x xs IH]; [apply embedder_nil|].
    change (x :: xs) with ([x] ++ xs). rewrite H_app, H_one, IH. reflexivity.
  Qed.

  Lemma emb_forward_rowwise : forall bs cells, valid_bs bs -> cells <> [] ->
    emb_forward embedder bs cells = Some (length cells, map (fun c => emb1 (render c)) cells).
  Proof.
    intros bs cells Hv Hc. unfold emb_forward, emb_invocations. rewrite map_snd_pair.
    assert (Hres : forall vals, vals = map (fun c => emb1 (render c)) cells ->
                   match vals with [] => None | _ => Some (length cells, vals) end =
                   Some (length cells, map (fun c => emb1 (render c)) cells)).
    { intros vals ->. destruct cells; [congruence | reflexivity]. }
    destruct bs as [k|].
    - destruct (arg_lists_nonempty (Some k) cells Hv Hc) as [a [r [E _]]].
      assert (Hcat : concat (map embedder (arg_lists (Some k) cells)) = map (fun c => emb1 (render c)) cells).
      { rewrite (map_ext _ _ embedder_map). rewrite <- concat_map. rewrite arg_lists_concat by exact Hv.
        unfold ser_list. apply map_map. }
      rewrite E in *. cbn [map torch_cat0 obind]. apply Hres. exact Hcat.
    - cbn [arg_lists map hd_error obind]. apply Hres. rewrite embedder_map. unfold ser_list. apply map_map.
  Qed.

  Lemma emb_forward_batch_independent : forall bs1 bs2 cells, valid_bs bs1 -> valid_bs bs2 -> cells <> [] ->
    emb_forward embedder bs1 cells = emb_forward embedder bs2 cells.
  Proof. intros. rewrite !emb_forward_rowwise by assumption. reflexivity. Qed.

  Lemma emb_forward_row : forall bs cells n vals i, valid_bs bs -> cells <> [] ->
    emb_forward embedder bs cells = Some (n, vals) ->
    n = length cells /\ length vals = length cells /\
    nth_error vals i = option_map (fun c => emb1 (render c)) (nth_error cells i).
  Proof.
    intros bs cells n vals i Hv Hc H. rewrite emb_forward_rowwise in H by assumption.
    injection H as <- <-. split; [reflexivity|]. split; [apply map_length|]. apply nth_error_map.
  Qed.
End EmbeddingFacts.

(* ------------------------------------------------------------------ *)
(* tokenizers *)
Section TokenizerFacts.
  Context {K T : Type}.
  Variable key_eqb : K -> K -> bool.
  Hypothesis key_eqb_spec : forall a b, key_eqb a b = true <-> a = b.
  Variable tokenizer : list string -> tok_out K T.

  Lemma tok_calls_are_arg_lists : forall bs cells, tok_calls tokenizer bs cells = arg_lists bs cells.
  Proof. intros. unfold tok_calls, tok_invocations. apply map_fst_pair. Qed.

  (* the per-sentence tokenization: key -> string -> token tensor, over a fixed key list *)
  Variable keys : list K.
  Variable tokk : K -> string -> T.

  (* the per-sentence mapping of one string *)
  Definition tok1 (x : string) : list (K * T) := map (fun k => (k, tokk k x)) keys.

  (* the two output formats of a row-wise tokenizer *)
  Definition list_format : Prop := forall xs, tokenizer xs = OutList (map tok1 xs).
  Definition map_format : Prop := forall xs, tokenizer xs = OutMap (map (fun k => (k, map (tokk k) xs)) keys).

  (* the assembled result the property demands: for every key, row i holds the
     tokens of row i's text *)
  Definition tok_expected (cells : list cell) : list (K * list T) :=
    map (fun k => (k, map (fun c => tokk k (render c)) cells)) keys.

  Lemma key_eqb_refl : forall k, key_eqb k k = true.
  Proof. intro k. apply key_eqb_spec. reflexivity. Qed.

  Lemma lookup_tabulate : forall {X} (g : K -> X) (ks : list K) key, In key ks ->
    lookup key_eqb key (map (fun k => (k, g k)) ks) = Some (g key).
  Proof.
    intros X g ks key. induction ks as [|k ks IH]; simpl; intro H; [contradiction|].
    destruct (key_eqb key k) eqn:E.
    - apply key_eqb_spec in E. subst. reflexivity.
    - destruct H as [->|H]; [rewrite key_eqb_refl in E; discriminate | auto].
  Qed.

  Lemma mnt_column_nonempty : forall (ts : list T), ts <> [] -> mnt_column ts = Some ts.
  Proof. intros [|t ts] H; [congruence | reflexivity]. Qed.

  Lemma map_keys_fst : forall {X} (g : K -> X) (ks : list K), map fst (map (fun k => (k, g k)) ks) = ks.
  Proof. intros. apply map_fst_pair. Qed.

  Lemma tok1_keys : forall x, map fst (tok1 x) = keys.
  Proof. intro x. unfold tok1. apply map_keys_fst. Qed.

  (* the per-key step shared by the four branches *)
  Lemma assemble_keys : forall (cells : list cell) (step : K -> option (K * list T)),
    (forall key, In key keys -> step key = Some (key, map (fun c => tokk key (render c)) cells)) ->
    mapM step keys = Some (tok_expected cells).
  Proof. intros cells step H. unfold tok_expected. apply mapM_Some_map. exact H. Qed.

  Lemma map_nonempty : forall {A B} (f : A -> B) l, l <> [] -> map f l <> [].
  Proof. intros A B f [|x l] H; [congruence | discriminate]. Qed.

  Lemma tok_forward_list_format : forall bs cells, list_format -> valid_bs bs -> cells <> [] ->
    tok_forward key_eqb tokenizer bs cells = Some (tok_expected cells).
  Proof.
    intros bs cells Hf Hv Hc. unfold tok_forward, tok_invocations. rewrite map_snd_pair.
    destruct (arg_lists_nonempty bs cells Hv Hc) as [a [r [E Ha]]].
    destruct a as [|x0 a']; [congruence|].
    destruct bs as [k|].
    - (* batched *)
      rewrite (map_ext tokenizer _ Hf).
      set (outs := map (fun xs => OutList (map tok1 xs)) (arg_lists (Some k) cells)).
      assert (Hhd : hd_error outs = Some (OutList (map tok1 (x0 :: a')))).
      { unfold outs. rewrite E. reflexivity. }
      rewrite Hhd. cbn [obind]. unfold assemble_batched_list. cbn [map hd_error obind]. rewrite tok1_keys.
      apply assemble_keys. intros key Hkey.
      assert (Hx : mapM (fun o => match o with OutList l => mapM (lookup key_eqb key) l | OutMap _ => None end) outs
                   = Some (map (map (tokk key)) (arg_lists (Some k) cells))).
      { unfold outs. rewrite mapM_map. apply mapM_Some_map. intros ch _. cbv beta iota.
        rewrite mapM_map. apply mapM_Some_map. intros x _. unfold tok1. apply (lookup_tabulate (fun k0 => tokk k0 x)). exact Hkey. }
      rewrite Hx. cbn [obind]. rewrite <- concat_map, arg_lists_concat by exact Hv.
      unfold ser_list. rewrite map_map. rewrite mnt_column_nonempty by (apply map_nonempty; exact Hc). reflexivity.
    - (* unbatched *)
      cbn [arg_lists] in E. injection E as E _.
      cbn [arg_lists map hd_error obind]. rewrite Hf. unfold assemble_unbatched_list.
      rewrite E. cbn [map hd_error obind]. rewrite tok1_keys.
      apply assemble_keys. intros key Hkey.
      assert (Hx : mapM (lookup key_eqb key) (tok1 x0 :: map tok1 a') = Some (map (tokk key) (x0 :: a'))).
      { change (tok1 x0 :: map tok1 a') with (map tok1 (x0 :: a')). rewrite mapM_map.
        apply mapM_Some_map. intros x _. unfold tok1. apply (lookup_tabulate (fun k0 => tokk k0 x)). exact Hkey. }
      rewrite Hx. cbn [obind]. rewrite <- E. unfold ser_list. rewrite map_map.
      rewrite mnt_column_nonempty by (apply map_nonempty; exact Hc). reflexivity.
  Qed.

  Lemma tok_forward_map_format : forall bs cells, map_format -> valid_bs bs -> cells <> [] ->
    tok_forward key_eqb tokenizer bs cells = Some (tok_expected cells).
  Proof.
    intros bs cells Hf Hv Hc. unfold tok_forward, tok_invocations. rewrite map_snd_pair.
    destruct (arg_lists_nonempty bs cells Hv Hc) as [a [r [E Ha]]].
    destruct bs as [k|].
    - (* batched *)
      rewrite (map_ext tokenizer _ Hf).
      set (outs := map (fun xs => OutMap (map (fun k0 => (k0, map (tokk k0) xs)) keys)) (arg_lists (Some k) cells)).
      assert (Hhd : hd_error outs = Some (OutMap (map (fun k0 => (k0, map (tokk k0) a)) keys))).
      { unfold outs. rewrite E. reflexivity. }
      rewrite Hhd. cbn [obind]. unfold assemble_batched_map. rewrite map_keys_fst.
      apply assemble_keys. intros key Hkey.
      assert (Hx : mapM (fun o => match o with OutMap m => lookup key_eqb key m | OutList _ => None end) outs
                   = Some (map (map (tokk key)) (arg_lists (Some k) cells))).
      { unfold outs. rewrite mapM_map. apply mapM_Some_map. intros ch _. cbv beta iota.
        apply (lookup_tabulate (fun k0 => map (tokk k0) ch)). exact Hkey. }
      rewrite Hx. cbn [obind]. rewrite <- concat_map, arg_lists_concat by exact Hv.
      unfold ser_list. rewrite map_map. rewrite mnt_column_nonempty by (apply map_nonempty; exact Hc). reflexivity.
    - (* unbatched *)
      cbn [arg_lists map hd_error obind]. rewrite Hf. unfold assemble_unbatched_map. rewrite map_keys_fst.
      apply assemble_keys. intros key Hkey.
      rewrite (lookup_tabulate (fun k0 => map (tokk k0) (ser_list cells))) by exact Hkey. cbn [obind].
      unfold ser_list. rewrite map_map. rewrite mnt_column_nonempty by (apply map_nonempty; exact Hc). reflexivity.
  Qed.
End TokenizerFacts.

(* ------------------------------------------------------------------ *)
(* wiring *)
Lemma cfg_broadcast_lookup : forall {F} (cols : list string) (x : @cfg F) col,
  In col cols -> cfg_lookup col (cfg_broadcast cols x) = Some x.
Proof.
  intros F cols x col. induction cols as [|c cols IH]; simpl; intro H; [contradiction|].
  destruct (String.eqb col c) eqn:E; [reflexivity|].
  destruct H as [->|H]; [rewrite String.eqb_refl in E; discriminate | auto].
Qed.

Lemma cfg_lookup_own : forall {F} (pre post : list (string * @cfg F)) col x,
  ~ In col (map fst pre) -> cfg_lookup col (pre ++ (col, x) :: post) = Some x.
Proof.
  intros F pre post col x. induction pre as [|[c y] pre IH]; simpl; intro H.
  - rewrite String.eqb_refl. reflexivity.
  - destruct (String.eqb col c) eqn:E.
    + apply String.eqb_eq in E. subst. exfalso. apply H. left; reflexivity.
    + apply IH. intro Hi. apply H. right; exact Hi.
Qed.

(* ------------------------------------------------------------------ *)
(* the default image retrieval and a callable that may raise *)

Lemma mapM_none_in' : forall {B C} (f : B -> option C) (l : list B) x, In x l -> f x = None -> mapM f l = None.
Proof.
  intros B C f l x. induction l as [|y l IH]; simpl; intros Hi Hx; [contradiction|].
  destruct Hi as [->|Hi]; [rewrite Hx; reflexivity|].
  rewrite (IH Hi Hx). destruct (f y); reflexivity.
Qed.

Lemma mapM_Forall2' : forall {B C} (f : B -> option C) (l : list B) l',
  mapM f l = Some l' -> Forall2 (fun x y => f x = Some y) l l'.
Proof.
  intros B C f l. induction l as [|x l IH]; simpl; intros l' H.
  - injection H as <-. constructor.
  - destruct (f x) eqn:Ex; try discriminate. destruct (mapM f l) eqn:E; try discriminate.
    injection H as <-. constructor; auto.
Qed.

(* mapM over a concatenation succeeds exactly when it succeeds on every block *)
Lemma mapM_concat_some : forall {B C} (f : B -> option C) (ls : list (list B)) r,
  mapM f (concat ls) = Some r -> exists rs, mapM (mapM f) ls = Some rs /\ concat rs = r.
Proof.
  intros B C f ls. induction ls as [|l ls IH]; simpl; intros r H.
  - injection H as <-. exists []. split; reflexivity.
  - rewrite mapM_app in H. destruct (mapM f l) as [a|] eqn:Ea; try discriminate.
    destruct (mapM f (concat ls)) as [b|] eqn:Eb; try discriminate. injection H as <-.
    destruct (IH b eq_refl) as [rs [Hrs Hc]]. exists (a :: rs). rewrite Hrs. split; [reflexivity | simpl; rewrite Hc; reflexivity].
Qed.

Lemma mapM_concat_none : forall {B C} (f : B -> option C) (ls : list (list B)),
  mapM f (concat ls) = None -> mapM (mapM f) ls = None.
Proof.
  intros B C f ls. induction ls as [|l ls IH]; simpl; intro H; [discriminate|].
  rewrite mapM_app in H. destruct (mapM f l) as [a|] eqn:Ea; [|reflexivity].
  destruct (mapM f (concat ls)) as [b|] eqn:Eb; [discriminate|]. rewrite (IH eq_refl). reflexivity.
Qed.

Lemma mapM_bind_some : forall {B C D} (h : B -> option C) (g : C -> D) (l : list B) rs,
  mapM h l = Some rs -> mapM (fun a => x <- h a ;; Some (g x)) l = Some (map g rs).
Proof.
  intros B C D h g l. induction l as [|a l IH]; simpl; intros rs H.
  - injection H as <-. reflexivity.
  - destruct (h a) as [x|]; try discriminate. destruct (mapM h l) as [r|]; try discriminate.
    injection H as <-. cbn [obind]. rewrite (IH r eq_refl). reflexivity.
Qed.

Lemma mapM_bind_none : forall {B C D} (h : B -> option C) (g : C -> D) (l : list B),
  mapM h l = None -> mapM (fun a => x <- h a ;; Some (g x)) l = None.
Proof.
  intros B C D h g l. induction l as [|a l IH]; simpl; intro H; [discriminate|].
  destruct (h a) as [x|]; cbn [obind]; [|reflexivity].
  destruct (mapM h l) as [r|]; [discriminate|]. rewrite (IH eq_refl). reflexivity.
Qed.

Section ImageFacts.
  Context {Img V : Type}.
  Variable open_image : string -> option Img.
  Variable forward_embed : list Img -> list V.

  (* retrieval returns one image per path, in order: image i is the one row i's path opens to *)
  Lemma retrieve_one_per_path : forall paths imgs,
    forward_retrieve open_image paths = Some imgs ->
    length imgs = length paths /\ Forall2 (fun p im => open_image p = Some im) paths imgs.
  Proof.
    intros paths imgs H. unfold forward_retrieve in H. split.
    - apply mapM_length in H. exact H.
    - apply mapM_Forall2'. exact H.
  Qed.

  (* ... and raises as soon as one path cannot be opened *)
  Lemma retrieve_raises : forall paths p, In p paths -> open_image p = None ->
    image_call open_image forward_embed paths = None.
  Proof.
    intros paths p Hi Hp. unfold image_call, forward_retrieve. rewrite (mapM_none_in' _ _ p Hi Hp). reflexivity.
  Qed.

  (* forward_embed is row-wise *)
  Variable embed1 : Img -> V.
  Hypothesis H_app : forall xs ys, forward_embed (xs ++ ys) = forward_embed xs ++ forward_embed ys.
  Hypothesis H_one : forall x, forward_embed [x] = [embed1 x].

  Lemma forward_embed_map : forall xs, forward_embed xs = map embed1 xs.
  Proof.
    assert (Hnil : forward_embed [] = []).
    { pose proof (H_app [] []) as H. simpl in H. destruct (forward_embed []) as [|v r]; [reflexivity|].
      apply (f_equal (@length V)) in H. rewrite app_length in H. simpl in H. lia. }
    induction xs as [|x xs IH]; [exact Hnil|].
    change (x :: xs) with ([x] ++ xs). rewrite H_app, H_one, IH. reflexivity.
  Qed.

  (* an unopenable cell anywhere in the column: the conversion raises (no row is dropped silently) *)
  Lemma image_forward_raises : forall bs cells c, valid_bs bs ->
    In c cells -> open_image (render c) = None ->
    emb_forward_raising (image_call open_image forward_embed) bs cells = None.
  Proof.
    intros bs cells c Hv Hi Hc. unfold emb_forward_raising.
    assert (Hall : mapM open_image (ser_list cells) = None).
    { apply (mapM_none_in' _ _ (render c)); [unfold ser_list; apply in_map; exact Hi | exact Hc]. }
    rewrite <- (arg_lists_concat bs cells Hv) in Hall. apply mapM_concat_none in Hall.
    unfold image_call, forward_retrieve. rewrite (mapM_bind_none _ _ _ Hall). reflexivity.
  Qed.

  (* every cell opens: one image per row, and row i of the result is forward_embed's output for the
     image of row i's path, whatever the batch size *)
  Lemma image_forward_covers : forall bs cells imgs, valid_bs bs -> cells <> [] ->
    mapM open_image (ser_list cells) = Some imgs ->
    length imgs = length cells /\
    emb_forward_raising (image_call open_image forward_embed) bs cells = Some (length cells, map embed1 imgs).
  Proof.
    intros bs cells imgs Hv Hc Hall.
    assert (Hlen : length imgs = length cells).
    { apply mapM_length in Hall. unfold ser_list in Hall. rewrite map_length in Hall. exact Hall. }
    split; [exact Hlen|]. unfold emb_forward_raising.
    pose proof Hall as Hall2. rewrite <- (arg_lists_concat bs cells Hv) in Hall2.
    destruct (mapM_concat_some _ _ _ Hall2) as [rs [Hrs Hcat]].
    unfold image_call, forward_retrieve. rewrite (mapM_bind_some _ forward_embed _ _ Hrs). cbn [obind].
    assert (Hne : map embed1 imgs <> []).
    { destruct imgs; [destruct cells; [congruence | simpl in Hlen; discriminate] | discriminate]. }
    assert (Hres : forall vals, vals = map embed1 imgs ->
                   match vals with [] => None | _ => Some (length cells, vals) end = Some (length cells, map embed1 imgs)).
    { intros vals ->. destruct (map embed1 imgs); [congruence | reflexivity]. }
    destruct bs as [k|].
    - destruct (arg_lists_nonempty (Some k) cells Hv Hc) as [a [r [E _]]].
      assert (Hl : length rs = length (arg_lists (Some k) cells)) by (apply mapM_length in Hrs; exact Hrs).
      destruct rs as [|r0 rs']; [rewrite E in Hl; discriminate|].
      cbn [map torch_cat0 obind]. apply Hres.
      change (forward_embed r0 :: map forward_embed rs') with (map forward_embed (r0 :: rs')).
      rewrite (map_ext _ _ forward_embed_map), <- concat_map, Hcat. reflexivity.
    - cbn [arg_lists mapM] in Hrs. destruct (mapM open_image (ser_list cells)) as [im|] eqn:E; [|discriminate].
      injection Hrs as <-. cbn [map hd_error obind]. apply Hres.
      simpl in Hcat. rewrite app_nil_r in Hcat. subst im. apply forward_embed_map.
  Qed.
End ImageFacts.
