(* Lemmas about Model/LazyModule.v: the lazily configured Module of nn/base.py and
   StypeWiseFeatureEncoder's key validation and output order. *)
From Coq Require Import List Arith Bool String Lia.
Require Import PF.Lib.ListX PF.Gen.Tables PF.Model.LazyModule.
Import ListNotations.

(* ------------------------------------------------------------------ helpers *)
Lemma mem_remove_other : forall k k' l, k <> k' -> mem k' (remove_key k l) = mem k' l.
Proof.
  induction l as [|x r IH]; intros Hne; simpl; [reflexivity|].
  destruct (String.eqb k x) eqn:E.
  - apply String.eqb_eq in E; subst x. rewrite IH by assumption.
    destruct (String.eqb k' k) eqn:E2; [apply String.eqb_eq in E2; congruence | reflexivity].
  - simpl. rewrite IH by assumption. reflexivity.
Qed.

Lemma mem_remove_self : forall k l, mem k (remove_key k l) = false.
Proof.
  induction l as [|x r IH]; simpl; [reflexivity|].
  destruct (String.eqb k x) eqn:E; [assumption|]. simpl. rewrite E, IH. reflexivity.
Qed.

Lemma mem_nil_false : forall k l, l = [] -> mem k l = false.
Proof. intros; subst; reflexivity. Qed.

Lemma mem_true_nonnil : forall k l, mem k l = true -> l <> [].
Proof. intros k l H E; subst; discriminate. Qed.

Section Lazy.
  Variable V : Type.
  Variable params : list string.
  Variable lazy_attrs : list string.

  Notation mstate := (mstate V).
  Notation setattr := (setattr V params).
  Notation setattrs := (setattrs V params).
  Notation construct := (construct V params lazy_attrs).
  Notation run := (run V params).
  Notation snapshot := (snapshot V params).
  Notation clobber_free := (clobber_free V params lazy_attrs).

  Definition mk (m : list string) (a : attrs V) (i : bool) (f : list (list (string * option V))) : mstate :=
    {| missing := m; values := a; in_init := i; fired := f |}.

  (* what one assignment does, as three cases *)
  Lemma setattr_cases : forall (s : mstate) k v,
      exists s', setattr s k v = Some s' /\
                 values s' = bind V (values s) k v /\ in_init s' = in_init s /\
                 ( (* nothing supplied *)
                   ((v = None \/ mem k (missing s) = false) /\ missing s' = missing s /\ fired s' = fired s)
                   \/ (* supplied, fires *)
                   (v <> None /\ mem k (missing s) = true /\ missing s' = remove_key k (missing s) /\
                    in_init s = false /\ missing s' = [] /\
                    fired s' = fired s ++ [snapshot (bind V (values s) k v)])
                   \/ (* supplied, does not fire *)
                   (v <> None /\ mem k (missing s) = true /\ missing s' = remove_key k (missing s) /\
                    (in_init s = true \/ missing s' <> []) /\ fired s' = fired s)).
  Proof.
    intros s k v. unfold LazyModule.setattr. destruct v as [x|]; simpl.
    - destruct (mem k (missing s)) eqn:M; simpl.
      + destruct (in_init s) eqn:I; simpl.
        * eexists; split; [reflexivity|]. simpl. repeat split; try assumption.
          right; right. repeat split; auto; discriminate.
        * unfold is_fully_specified; simpl.
          destruct (remove_key k (missing s)) eqn:Rm; simpl.
          -- unfold init_modules_, validate, is_fully_specified; simpl.
             eexists; split; [reflexivity|]. simpl. repeat split; auto.
             right; left. repeat split; auto; discriminate.
          -- eexists; split; [reflexivity|]. simpl. repeat split; auto.
             right; right. repeat split; auto; try discriminate. right. discriminate.
      + eexists; split; [reflexivity|]. simpl. repeat split; auto.
    - eexists; split; [reflexivity|]. simpl. repeat split; auto.
  Qed.

  Lemma setattr_total : forall (s : mstate) k v, exists s', setattr s k v = Some s'.
  Proof. intros. destruct (setattr_cases s k v) as [s' [H _]]. eauto. Qed.

  Lemma setattrs_total : forall ops (s : mstate), exists s', setattrs s ops = Some s'.
  Proof.
    induction ops as [|[k v] r IH]; intros s; simpl; [eauto|].
    destruct (setattr_total s k v) as [s' H]. rewrite H. apply IH.
  Qed.

  (* the invariant of a constructed module *)
  Definition Inv (s : mstate) : Prop :=
    in_init s = false /\
    ((missing s <> [] /\ fired s = []) \/ (missing s = [] /\ exists snap, fired s = [snap])).

  Lemma setattr_inv : forall (s s' : mstate) k v, Inv s -> setattr s k v = Some s' -> Inv s'.
  Proof.
    intros s s' k v [I H] E.
    destruct (setattr_cases s k v) as [s2 [E2 [Hv [Hi C]]]]. rewrite E in E2; inversion E2; subst s2; clear E2.
    split; [congruence|].
    destruct C as [[_ [Hm Hf]] | [[Hn [Hmem [Hm [_ [Hnil Hf]]]]] | [Hn [Hmem [Hm [Hor Hf]]]]]].
    - rewrite Hm, Hf. exact H.
    - right. split; [assumption|]. destruct H as [[_ F] | [M _]].
      + rewrite F in Hf. simpl in Hf. eauto.
      + rewrite M in Hmem. discriminate.
    - destruct Hor as [Hb | Hne]; [congruence|].
      left. split; [assumption|]. destruct H as [[_ F] | [M _]]; [congruence|].
      rewrite M in Hmem; discriminate.
  Qed.

  Lemma run_inv : forall ops (s s' : mstate), Inv s -> run s ops = Some s' -> Inv s'.
  Proof.
    unfold LazyModule.run.
    induction ops as [|[k v] r IH]; intros s s' HI E; simpl in E.
    - inversion E; subst; assumption.
    - destruct (setattr s k v) as [s1|] eqn:E1; [|discriminate].
      eapply IH; [eapply setattr_inv; eauto | exact E].
  Qed.

  (* in the constructor's loop nothing fires *)
  Lemma setattrs_in_init : forall kvs (s s' : mstate),
      in_init s = true -> fired s = [] -> setattrs s kvs = Some s' -> in_init s' = true /\ fired s' = [].
  Proof.
    induction kvs as [|[k v] r IH]; intros s s' I F E; simpl in E.
    - inversion E; subst; auto.
    - destruct (setattr_cases s k v) as [s1 [E1 [_ [Hi C]]]]. rewrite E1 in E.
      apply (IH s1 s'); [congruence| |exact E].
      destruct C as [[_ [_ Hf]] | [[_ [_ [_ [Hb _]]]] | [_ [_ [_ [_ Hf]]]]]]; congruence.
  Qed.

  Lemma construct_total_inv : forall args, exists s, construct args = Some s /\ Inv s.
  Proof.
    intros args. unfold LazyModule.construct.
    destruct (setattrs_total (combine params args) (mk lazy_attrs [] true [])) as [s1 E1].
    unfold mk in E1. rewrite E1.
    destruct (setattrs_in_init (combine params args) (mk lazy_attrs [] true []) s1 eq_refl eq_refl E1) as [_ F].
    unfold is_fully_specified; simpl.
    destruct (missing s1) eqn:M.
    - unfold init_modules_, validate, is_fully_specified; simpl.
      eexists; split; [reflexivity|]. split; simpl; [reflexivity|]. right. split; [reflexivity|].
      rewrite F. simpl. eauto.
    - eexists; split; [reflexivity|]. split; simpl; [reflexivity|]. left. split; [discriminate|assumption].
  Qed.

  (* T1: init_modules runs exactly once, exactly when the missing set is empty *)
  Lemma fires_exactly_once : forall args ops,
      exists s0 s, construct args = Some s0 /\ run s0 ops = Some s /\
                   (missing s = [] -> exists snap, fired s = [snap]) /\
                   (missing s <> [] -> fired s = []).
  Proof.
    intros. destruct (construct_total_inv args) as [s0 [E0 I0]].
    destruct (setattrs_total ops s0) as [s E].
    exists s0, s. repeat split; auto.
    - intros M. destruct (run_inv ops s0 s I0 E) as [_ [[N _] | [_ F]]]; [contradiction | assumption].
    - intros N. destruct (run_inv ops s0 s I0 E) as [_ [[_ F] | [M _]]]; [assumption | contradiction].
  Qed.

  (* T2: every guarded use before completion raises; after completion it does not *)
  Lemma use_iff_complete : forall (s : mstate),
      (missing s <> [] -> use V s = None) /\ (missing s = [] -> use V s = Some tt).
  Proof.
    intros s. unfold use, validate, is_fully_specified. destruct (missing s); split; intros; congruence.
  Qed.

  (* T3: once complete, later assignments never rebuild *)
  Lemma frozen_after_fire : forall ops (s s' : mstate),
      missing s = [] -> run s ops = Some s' -> fired s' = fired s /\ missing s' = [].
  Proof.
    unfold LazyModule.run.
    induction ops as [|[k v] r IH]; intros s s' M E; simpl in E.
    - inversion E; subst; auto.
    - destruct (setattr_cases s k v) as [s1 [E1 [_ [_ C]]]]. rewrite E1 in E.
      destruct C as [[_ [Hm Hf]] | [[_ [Hmem _]] | [_ [Hmem _]]]].
      + destruct (IH s1 s' (eq_trans Hm M) E) as [A B]. split; congruence.
      + rewrite M in Hmem; discriminate.
      + rewrite M in Hmem; discriminate.
  Qed.

  (* ---------------------------------------------------------------- T4 *)
  Variable vals : string -> option V.

  (* an assignment agrees with the target configuration, or assigns None to a lazy attribute *)
  Definition consistent (kv : string * option V) : Prop :=
    snd kv = vals (fst kv) \/ (snd kv = None /\ mem (fst kv) lazy_attrs = true).

  Definition target : list (string * option V) := map (fun k => (k, vals k)) params.

  Definition assigned (s : mstate) (k : string) : Prop := In k (map fst (values s)).

  (* every attribute assigned so far reads as the target value, unless it is a
     lazy attribute still missing *)
  Definition K (s : mstate) : Prop :=
    forall k, assigned s k ->
              lookup V (values s) k = vals k \/ (mem k lazy_attrs = true /\ mem k (missing s) = true).

  Lemma lookup_bind_same : forall a k v, lookup V (bind V a k v) k = v.
  Proof. intros. simpl. rewrite String.eqb_refl. reflexivity. Qed.

  Lemma lookup_bind_other : forall a k k' v, k <> k' -> lookup V (bind V a k v) k' = lookup V a k'.
  Proof.
    intros. simpl. destruct (String.eqb k' k) eqn:E; [apply String.eqb_eq in E; congruence | reflexivity].
  Qed.

  Lemma snapshot_target : forall (a : attrs V),
      (forall k, In k params -> lookup V a k = vals k) -> snapshot a = target.
  Proof.
    intros a H. unfold LazyModule.snapshot, target. apply map_ext_in. intros k Hk. rewrite H by assumption. reflexivity.
  Qed.

  Definition covers (s : mstate) : Prop := forall k, In k params -> assigned s k.

  (* one consistent, non-clobbering assignment keeps K; if it fires, it fires with the target *)
  Lemma setattr_K : forall (s s' : mstate) k v,
      K s -> consistent (k, v) ->
      (v = None -> mem k lazy_attrs = true -> mem k (missing s) = true) ->
      setattr s k v = Some s' ->
      K s' /\ (forall k', assigned s k' -> assigned s' k') /\ assigned s' k /\
      (covers s -> fired s' = fired s \/ fired s' = fired s ++ [target]).
  Proof.
    intros s s' k v HK HC Hcl E.
    destruct (setattr_cases s k v) as [s2 [E2 [Hv [Hi C]]]]. rewrite E in E2; inversion E2; subst s2; clear E2.
    assert (Hass : forall k', assigned s k' -> assigned s' k').
    { intros k' A. unfold assigned in *. rewrite Hv. simpl. right; assumption. }
    assert (Hk : assigned s' k). { unfold assigned. rewrite Hv. simpl. left; reflexivity. }
    assert (HK' : K s').
    { intros k' A. unfold assigned in A. rewrite Hv in A. simpl in A.
      destruct (string_dec k k') as [Heq | Hne].
      - subst k'. rewrite Hv, lookup_bind_same.
        destruct HC as [Hc | [Hn Hl]]; simpl in *.
        + left; assumption.
        + subst v. right. split; [assumption|].
          destruct C as [[_ [Hm _]] | [[Hn _] | [Hn _]]]; try congruence.
          rewrite Hm. apply Hcl; auto.
      - destruct A as [A | A]; [congruence|].
        rewrite Hv, lookup_bind_other by assumption.
        destruct (HK k' A) as [L | [Hl Hm]]; [left; assumption|].
        right. split; [assumption|].
        destruct C as [[_ [Hm' _]] | [[_ [_ [Hm' _]]] | [_ [_ [Hm' _]]]]]; rewrite Hm'; auto;
          rewrite mem_remove_other; auto. }
    repeat split; auto.
    intros Hcov.
    destruct C as [[_ [_ Hf]] | [[_ [_ [_ [_ [Hnil Hf]]]]] | [_ [_ [_ [_ Hf]]]]]]; auto.
    right. rewrite Hf. f_equal. f_equal. rewrite <- Hv. apply snapshot_target.
    intros k' Hp. destruct (HK' k' (Hass k' (Hcov k' Hp))) as [L | [_ Hm]]; [assumption|].
    rewrite Hnil in Hm. discriminate.
  Qed.

  Lemma covers_mono : forall (s s' : mstate), (forall k, assigned s k -> assigned s' k) -> covers s -> covers s'.
  Proof. unfold covers; auto. Qed.

  Lemma run_K : forall ops (s s' : mstate),
      K s -> covers s -> Forall consistent ops -> clobber_free s ops = true ->
      run s ops = Some s' ->
      K s' /\ covers s' /\ exists n, fired s' = fired s ++ repeat target n.
  Proof.
    unfold LazyModule.run.
    induction ops as [|[k v] r IH]; intros s s' HK Hcov HF Hcl E; simpl in E.
    - inversion E; subst. repeat split; auto. exists 0. simpl. rewrite app_nil_r. reflexivity.
    - inversion HF as [|x l Hc HF']; subst.
      simpl in Hcl.
      destruct (setattr s k v) as [s1|] eqn:E1; [|discriminate].
      assert (Hnb : v = None -> mem k lazy_attrs = true -> mem k (missing s) = true).
      { intros Hn Hl. subst v. rewrite Hl in Hcl. simpl in Hcl.
        destruct (mem k (missing s)); [reflexivity | simpl in Hcl; discriminate]. }
      assert (Hcl' : clobber_free s1 r = true).
      { destruct v as [x|].
        - exact Hcl.
        - destruct (mem k lazy_attrs && negb (mem k (missing s))); [discriminate | exact Hcl]. }
      destruct (setattr_K s s1 k v HK Hc Hnb E1) as [HK1 [Hass [_ Hf]]].
      destruct (IH s1 s' HK1 (covers_mono _ _ Hass Hcov) HF' Hcl' E) as [HK' [Hcov' [n Hn]]].
      repeat split; auto.
      destruct (Hf Hcov) as [F | F]; rewrite F in Hn.
      + exists n; assumption.
      + exists (S n). rewrite Hn. rewrite <- app_assoc. reflexivity.
  Qed.

  (* the constructor's loop: with duplicate-free parameter names it never clobbers *)
  Lemma construct_loop_clobber_free : forall ps args (s : mstate),
      NoDup ps ->
      (forall k, In k ps -> mem k lazy_attrs = true -> mem k (missing s) = true) ->
      clobber_free s (combine ps args) = true.
  Proof.
    induction ps as [|k ps IH]; intros args s ND H; simpl; [reflexivity|].
    destruct args as [|v args]; simpl; [reflexivity|].
    inversion ND as [|x l Hnin ND']; subst.
    assert (Hbad : match v with None => mem k lazy_attrs && negb (mem k (missing s)) | Some _ => false end = false).
    { destruct v; [reflexivity|]. destruct (mem k lazy_attrs) eqn:L; [|reflexivity].
      rewrite (H k (or_introl eq_refl) L). reflexivity. }
    rewrite Hbad.
    destruct (setattr_cases s k v) as [s1 [E1 [_ [_ C]]]]. rewrite E1.
    apply IH; [assumption|].
    intros k' Hin Hl.
    assert (Hne : k <> k') by (intro; subst; contradiction).
    destruct C as [[_ [Hm _]] | [[_ [_ [Hm _]]] | [_ [_ [Hm _]]]]]; rewrite Hm;
      try rewrite mem_remove_other by assumption; apply H; auto; right; assumption.
  Qed.

  Lemma setattrs_assigned : forall kvs (s s' : mstate),
      setattrs s kvs = Some s' -> forall k, (In k (map fst kvs) \/ assigned s k) -> assigned s' k.
  Proof.
    induction kvs as [|[k v] r IH]; intros s s' E k' H; simpl in *.
    - inversion E; subst. destruct H; [contradiction | assumption].
    - destruct (setattr_cases s k v) as [s1 [E1 [Hv _]]]. rewrite E1 in E.
      apply (IH s1 s' E). destruct H as [[H | H] | H].
      + right. subst. unfold assigned. rewrite Hv. simpl. left; reflexivity.
      + left; assumption.
      + right. unfold assigned in *. rewrite Hv. simpl. right; assumption.
  Qed.

  Lemma map_fst_combine : forall (A B : Type) (l : list A) (l' : list B),
      List.length l = List.length l' -> map fst (combine l l') = l.
  Proof.
    induction l as [|a l IH]; intros [|b l'] H; simpl in *; try discriminate; [reflexivity|].
    f_equal. apply IH. lia.
  Qed.

  (* state after the constructor, for consistent arguments *)
  Lemma construct_K : forall args,
      NoDup params -> List.length args = List.length params ->
      Forall consistent (combine params args) ->
      exists s, construct args = Some s /\ K s /\ covers s /\ (fired s = [] \/ fired s = [target]).
  Proof.
    intros args ND HL HF. unfold LazyModule.construct.
    set (s0 := {| missing := lazy_attrs; values := []; in_init := true; fired := [] |}).
    destruct (setattrs_total (combine params args) s0) as [s1 E1]. rewrite E1.
    assert (HK0 : K s0) by (intros k A; inversion A).
    (* run the loop as a sequence of consistent non-clobbering assignments; it cannot fire *)
    assert (Hcl : clobber_free s0 (combine params args) = true).
    { apply construct_loop_clobber_free; [assumption|]. intros k _ Hl. exact Hl. }
    (* K along the loop: generalised run_K without the covers hypothesis *)
    assert (Hloop : forall kvs (s s' : mstate), K s -> Forall consistent kvs -> clobber_free s kvs = true ->
                                               setattrs s kvs = Some s' -> K s').
    { induction kvs as [|[k v] r IH]; intros s s' HKs HFs Hcs Es; simpl in Es.
      - inversion Es; subst; assumption.
      - inversion HFs as [|x l Hc HF']; subst. simpl in Hcs.
        destruct (LazyModule.setattr V params s k v) as [sx|] eqn:Ex; [|discriminate].
        assert (Hnb : v = None -> mem k lazy_attrs = true -> mem k (missing s) = true).
        { intros Hn Hl. subst v. rewrite Hl in Hcs. simpl in Hcs.
          destruct (mem k (missing s)); [reflexivity | simpl in Hcs; discriminate]. }
        assert (Hcs' : clobber_free sx r = true).
        { destruct v as [x|]; [exact Hcs|].
          destruct (mem k lazy_attrs && negb (mem k (missing s))); [discriminate | exact Hcs]. }
        destruct (setattr_K s sx k v HKs Hc Hnb Ex) as [HK1 _].
        eapply IH; eauto. }
    pose proof (Hloop _ _ _ HK0 HF Hcl E1) as HK1.
    destruct (setattrs_in_init (combine params args) s0 s1 eq_refl eq_refl E1) as [_ F1].
    assert (Hcov1 : forall k, In k params -> In k (map fst (values s1))).
    { intros k Hk. apply (setattrs_assigned _ _ _ E1). left. rewrite map_fst_combine by lia. assumption. }
    unfold is_fully_specified; simpl.
    destruct (missing s1) eqn:M.
    - unfold init_modules_, validate, is_fully_specified; simpl.
      eexists; split; [reflexivity|]. repeat split.
      + intros k A. simpl in *. destruct (HK1 k A) as [L | [_ Hm]]; [left; assumption|].
        rewrite M in Hm; discriminate.
      + intros k Hk. unfold assigned; simpl. auto.
      + right. simpl. rewrite F1. simpl. f_equal. apply snapshot_target.
        intros k Hk. destruct (HK1 k (Hcov1 k Hk)) as [L | [_ Hm]]; [assumption|].
        rewrite M in Hm; discriminate.
    - eexists; split; [reflexivity|]. repeat split.
      + intros k A. destruct (HK1 k A) as [L | [Hl Hm]]; [left; exact L | right; split; [exact Hl | rewrite M in Hm; exact Hm]].
      + intros k Hk. unfold assigned; simpl. auto.
      + left. simpl. assumption.
  Qed.

  (* T4a: eager construction with every lazy attribute given builds from the target *)
  Lemma eager_builds_target :
      NoDup params ->
      (forall k, mem k lazy_attrs = true -> In k params /\ vals k <> None) ->
      exists s, construct (map vals params) = Some s /\ missing s = [] /\ fired s = [target].
  Proof.
    intros ND HL.
    assert (HF : Forall consistent (combine params (map vals params))).
    { apply Forall_forall. intros [k v] Hin. left. simpl.
      clear - Hin. induction params as [|p ps IH]; simpl in Hin; [contradiction|].
      destruct Hin as [H | H]; [inversion H; reflexivity | apply IH; assumption]. }
    destruct (construct_K (map vals params) ND (map_length _ _) HF) as [s [E [HK [Hcov Hf]]]].
    exists s. split; [assumption|].
    destruct (construct_total_inv (map vals params)) as [s' [E' [_ HI]]]. rewrite E in E'; inversion E'; subst s'.
    assert (M : missing s = []).
    { destruct (missing s) as [|k r] eqn:M; [reflexivity|]. exfalso.
      assert (Hm : mem k (missing s) = true) by (rewrite M; simpl; rewrite String.eqb_refl; reflexivity).
      (* k is missing, so K says: its value is not the target unless lazy-and-missing; but missing
         keys come from lazy_attrs and were assigned Some *)
      (* missing s is a sub-multiset of lazy_attrs obtained by removals: show k lazy *)
      assert (Hsub : forall (sA sB : mstate) kvs, setattrs sA kvs = Some sB ->
                       forall q, mem q (missing sB) = true -> mem q (missing sA) = true).
      { intros sA sB kvs. revert sA sB. induction kvs as [|[a b] r' IH]; intros sA sB Es q Hq; simpl in Es.
        - inversion Es; subst; assumption.
        - destruct (setattr_cases sA a b) as [sx [Ex [_ [_ C]]]]. rewrite Ex in Es.
          pose proof (IH sx sB Es q Hq) as Hx.
          destruct C as [[_ [Hm' _]] | [[_ [_ [Hm' _]]] | [_ [_ [Hm' _]]]]]; rewrite Hm' in Hx; auto;
            destruct (string_dec a q) as [->|Hne]; try (rewrite mem_remove_self in Hx; discriminate);
            rewrite mem_remove_other in Hx; auto. }
      (* unfold construct to reach the loop state *)
      unfold LazyModule.construct in E.
      destruct (LazyModule.setattrs V params
                  {| missing := lazy_attrs; values := []; in_init := true; fired := [] |}
                  (combine params (map vals params))) as [s1|] eqn:E1; [|discriminate].
      assert (Hms : missing s = missing s1).
      { unfold is_fully_specified in E; simpl in E. destruct (missing s1) eqn:M1.
        - unfold init_modules_, validate, is_fully_specified in E; simpl in E.
          inversion E; subst; simpl; auto.
        - inversion E; subst; simpl; auto. }
      rewrite Hms in Hm.
      pose proof (Hsub _ _ _ E1 k Hm) as Hl. simpl in Hl.
      destruct (HL k Hl) as [Hin Hnn].
      (* the loop assigned vals k <> None to k while k was missing, so it was removed *)
      assert (Hrem : forall ps (sA sB : mstate), setattrs sA (combine ps (map vals ps)) = Some sB ->
                       In k ps -> mem k (missing sB) = false).
      { induction ps as [|p ps IH]; intros sA sB Es Hp; simpl in *; [contradiction|].
        destruct (setattr_cases sA p (vals p)) as [sx [Ex [_ [_ C]]]]. rewrite Ex in Es.
        destruct (string_dec p k) as [->|Hne].
        - assert (Hx : mem k (missing sx) = false).
          { destruct C as [[[Hn | Hn] [Hm' _]] | [[_ [_ [Hm' _]]] | [_ [_ [Hm' _]]]]].
            - congruence.
            - rewrite Hm'; assumption.
            - rewrite Hm'. apply mem_remove_self.
            - rewrite Hm'. apply mem_remove_self. }
          destruct (mem k (missing sB)) eqn:Hb; [|reflexivity].
          rewrite (Hsub _ _ _ Es k Hb) in Hx. discriminate.
        - destruct Hp as [Hp | Hp]; [congruence|]. eapply IH; eauto. }
      rewrite (Hrem params _ _ E1 Hin) in Hm. discriminate. }
    split; [assumption|].
    destruct Hf as [F | F]; [|assumption].
    destruct HI as [[N _] | [_ [snap Fs]]]; [contradiction | congruence].
  Qed.

  (* T4b: lazy configuration, any order, any interleaving, None re-assignments of
     still-missing attributes: when the module completes, init_modules sees exactly
     the target configuration -- the same snapshot the eager constructor sees *)
  Lemma lazy_any_order_builds_target : forall args ops,
      NoDup params -> List.length args = List.length params ->
      Forall consistent (combine params args) -> Forall consistent ops ->
      exists s0 s, construct args = Some s0 /\ run s0 ops = Some s /\
                   (clobber_free s0 ops = true -> missing s = [] -> fired s = [target]).
  Proof.
    intros args ops ND HL HFa HFo.
    destruct (construct_K args ND HL HFa) as [s0 [E0 [HK [Hcov Hf]]]].
    destruct (setattrs_total ops s0) as [s E].
    exists s0, s. repeat split; auto.
    intros Hcl M.
    destruct (run_K ops s0 s HK Hcov HFo Hcl E) as [_ [_ [n Hn]]].
    destruct (construct_total_inv args) as [s0' [E0' I0]]. rewrite E0 in E0'; inversion E0'; subst s0'.
    destruct (run_inv ops s0 s I0 E) as [_ [[N _] | [_ [snap Fs]]]]; [contradiction|].
    rewrite Fs in Hn.
    destruct Hf as [F | F]; rewrite F in Hn; simpl in Hn.
    - destruct n as [|[|n]]; simpl in Hn; try discriminate. inversion Hn; subst. assumption.
    - destruct n; simpl in Hn; [|discriminate]. inversion Hn; subst. assumption.
  Qed.
End Lazy.

(* ------------------------------------------------------------ StypeWise init *)
Section StypeWiseInit.
  Variable Enc : Type.
  Variable supported : Enc -> list stype.
  Notation init := (stypewise_init Enc supported).

  Definition key_ok (p : stype * Enc) : bool :=
    stype_eqb (fst p) (stype_parent (fst p)) && stype_in (fst p) (supported (snd p)).

  Lemma init_some_iff : forall keys d,
      init keys d = (if forallb key_ok d then Some (filter (fun p => stype_in (fst p) keys) d) else None).
  Proof.
    induction d as [|[s e] r IH]; simpl; [reflexivity|].
    unfold key_ok at 1; simpl.
    destruct (stype_eqb s (stype_parent s)); simpl; [|reflexivity].
    destruct (stype_in s (supported e)); simpl; [|reflexivity].
    rewrite IH. destruct (forallb key_ok r); [|reflexivity].
    destruct (stype_in s keys); reflexivity.
  Qed.

  Lemma init_rejects : forall keys d s e,
      In (s, e) d -> (stype_eqb s (stype_parent s) = false \/ stype_in s (supported e) = false) ->
      init keys d = None.
  Proof.
    intros keys d s e Hin H. rewrite init_some_iff.
    destruct (forallb key_ok d) eqn:F; [|reflexivity].
    rewrite forallb_forall in F. specialize (F _ Hin). unfold key_ok in F; simpl in F.
    apply andb_true_iff in F. destruct F as [A B]. destruct H; congruence.
  Qed.
End StypeWiseInit.

(* --------------------------------------------------------- StypeWise forward *)
Section StypeWiseForward.
  Variable A : Type.

  Definition part_ok (cnd : list (stype * list string)) (enc : stype -> list string -> option (list A))
             (s : stype) (p : list A * list string) : Prop :=
    assoc_stype cnd s = Some (snd p) /\ enc s (snd p) = Some (fst p) /\ List.length (fst p) = List.length (snd p).

  Lemma forward_fold : forall cnd fd enc sts xs0 ns0 xs ns,
      fold_left (fun (acc : option (list A * list string)) (s : stype) =>
        match acc with
        | None => None
        | Some (xs, ns) =>
            match assoc_stype cnd s, assoc_stype fd s with
            | Some names, Some ncols =>
                if negb (Nat.eqb ncols (List.length names)) then None
                else match enc s names with
                     | Some cols => if Nat.eqb (List.length cols) ncols then Some (xs ++ cols, ns ++ names) else None
                     | None => None
                     end
            | _, _ => None
            end
        end) sts (Some (xs0, ns0)) = Some (xs, ns) ->
      exists parts, Forall2 (part_ok cnd enc) sts parts /\
                    xs = xs0 ++ List.concat (map fst parts) /\ ns = ns0 ++ List.concat (map snd parts).
  Proof.
    intros cnd fd enc. induction sts as [|s r IH]; intros xs0 ns0 xs ns H; simpl in H.
    - inversion H; subst. exists []. simpl. rewrite !app_nil_r. repeat split; constructor.
    - destruct (assoc_stype cnd s) as [names|] eqn:En.
      2:{ exfalso. clear - H. induction r; simpl in H; [discriminate | auto]. }
      destruct (assoc_stype fd s) as [ncols|] eqn:Ef.
      2:{ exfalso. clear - H. induction r; simpl in H; [discriminate | auto]. }
      destruct (Nat.eqb ncols (List.length names)) eqn:E1; simpl in H.
      2:{ exfalso. clear - H. induction r; simpl in H; [discriminate | auto]. }
      destruct (enc s names) as [cols|] eqn:Ee.
      2:{ exfalso. clear - H. induction r; simpl in H; [discriminate | auto]. }
      destruct (Nat.eqb (List.length cols) ncols) eqn:E2.
      2:{ exfalso. clear - H. induction r; simpl in H; [discriminate | auto]. }
      destruct (IH _ _ _ _ H) as [parts [HF [Hx Hn]]].
      exists ((cols, names) :: parts). simpl. repeat split.
      + constructor; [|assumption]. unfold part_ok; simpl. repeat split; auto.
        apply Nat.eqb_eq in E1. apply Nat.eqb_eq in E2. congruence.
      + rewrite Hx, <- app_assoc. reflexivity.
      + rewrite Hn, <- app_assoc. reflexivity.
  Qed.

  Lemma forward_order : forall cnd fd enc xs ns,
      stypewise_forward A cnd fd enc = Some (xs, ns) ->
      exists parts, Forall2 (part_ok cnd enc) (tf_stypes fd) parts /\
                    xs = List.concat (map fst parts) /\ ns = List.concat (map snd parts).
  Proof.
    intros cnd fd enc xs ns H. unfold stypewise_forward in H.
    destruct (forward_fold _ _ _ _ _ _ _ _ H) as [parts [HF [Hx Hn]]].
    exists parts. auto.
  Qed.

  (* names and columns are aligned: same length, and position by position the
     j-th output column is the one the stype's encoder returned for the j-th name *)
  Lemma forward_aligned : forall cnd fd enc xs ns,
      stypewise_forward A cnd fd enc = Some (xs, ns) -> List.length xs = List.length ns.
  Proof.
    intros. destruct (forward_order _ _ _ _ _ H) as [parts [HF [Hx Hn]]]. subst.
    clear H. induction HF as [|s p sts parts Hp HF IH]; simpl; [reflexivity|].
    rewrite !app_length, IH. destruct Hp as [_ [_ Hl]]. rewrite Hl. reflexivity.
  Qed.
End StypeWiseForward.

(* ----------------------------------------------- generated tables (finite) *)
(* every supported pairing of a built-in class is a documented one, and every key a class
   supports other than through the user-model wrapper is a parent stype *)
Lemma supported_is_documented :
  forall e s, stype_in s (encoder_supported e) = true -> stype_in s (documented_stypes e) = true.
Proof. intros e s. destruct e, s; vm_compute; intro H; try reflexivity; discriminate. Qed.

Lemma documented_is_supported :
  forall e s, stype_in s (documented_stypes e) = true -> stype_in s (encoder_supported e) = true.
Proof. intros e s. destruct e, s; vm_compute; intro H; try reflexivity; discriminate. Qed.

Lemma stype_encoder_signature_ok :
  NoDup stype_encoder_params /\
  (forall k, mem k stype_encoder_lazy_attrs = true -> In k stype_encoder_params).
Proof.
  split.
  - unfold stype_encoder_params. repeat constructor; simpl; intuition discriminate.
  - intros k H. unfold stype_encoder_lazy_attrs, mem in H. simpl in H.
    repeat (apply orb_true_iff in H; destruct H as [H | H]); try discriminate;
      apply String.eqb_eq in H; subst; vm_compute; tauto.
Qed.
