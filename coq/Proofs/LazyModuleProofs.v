(* Lemmas about Model/LazyModule.v: the lazily configured Module of nn/base.py and
   StypeWiseFeatureEncoder's key validation and output order. *)
From Coq Require Import List Arith Bool String Lia.
Require Import PF.Lib.ListX PF.Gen.Tables PF.Model.LazyModule.
Import ListNotations.

(* ------------------------------------------------------------------ helpers *)
Lemma mem_remove_other : forall k k' l, k <> k' -> mem k' (remove_key k l) = mem k' l.
Proof.
  induction l as [|x r IH]; intros Hne; simpl; [reflexivity|].
  destruct (String.eqb k x) eqn:E.
  - apply String.eqb_eq in E; subst x. rewrite IH by assumption.
    destruct (String.eqb k' k) eqn:E2; [apply String.eqb_eq in E2; congruence | reflexivity].
  - simpl. rewrite IH by assumption. reflexivity.
Qed.

Lemma mem_remove_self : forall k l, mem k (remove_key k l) = false.
Proof.
  induction l as [|x r IH]; simpl; [reflexivity|].
  destruct (String.eqb k x) eqn:E; [assumption|]. simpl. rewrite E, IH. reflexivity.
Qed.

Lemma mem_nil_false : forall k l, l = [] -> mem k l = false.
Proof. intros; subst; reflexivity. Qed.

Lemma mem_true_nonnil : forall k l, mem k l = true -> l <> [].
Proof. intros k l H E; subst; discriminate. Qed.

Section Lazy.
  Variable V : Type.
  Variable params : list string.
  Variable lazy_attrs : list string.
  Variable init_ok : list (string * option V) -> bool.

  Notation mstate := (mstate V).
  Notation setattr := (setattr V params init_ok).
  Notation setattrs := (setattrs V params init_ok).
  Notation construct := (construct V params lazy_attrs init_ok).
  Notation run := (run V params init_ok).
  Notation snapshot := (snapshot V params).
  Notation clobber_free := (clobber_free V params lazy_attrs init_ok).
  Notation built := (built V init_ok).

  (* what one assignment does, as three cases *)
  Lemma setattr_cases : forall (s : mstate) k v,
      let o := setattr s k v in
      let s' := state_of o in
      values s' = bind V (values s) k v /\ in_init s' = in_init s /\
      ( (* nothing supplied *)
        ((v = None \/ mem k (missing s) = false) /\ missing s' = missing s /\ fired s' = fired s /\ is_raised o = false)
        \/ (* supplied, init_modules runs (and raises iff it rejects the configuration) *)
        (v <> None /\ mem k (missing s) = true /\ missing s' = remove_key k (missing s) /\
         in_init s = false /\ missing s' = [] /\
         fired s' = fired s ++ [snapshot (bind V (values s) k v)] /\
         is_raised o = negb (init_ok (snapshot (bind V (values s) k v))))
        \/ (* supplied, does not fire *)
        (v <> None /\ mem k (missing s) = true /\ missing s' = remove_key k (missing s) /\
         (in_init s = true \/ missing s' <> []) /\ fired s' = fired s /\ is_raised o = false)).
  Proof.
    intros s k v. unfold LazyModule.setattr. destruct v as [x|]; simpl.
    - destruct (mem k (missing s)) eqn:M; simpl.
      + destruct (in_init s) eqn:I; simpl.
        * repeat split; try assumption. right; right. repeat split; auto; discriminate.
        * unfold is_fully_specified; simpl.
          destruct (remove_key k (missing s)) eqn:Rm; simpl.
          -- unfold init_modules_, validate, is_fully_specified; simpl.
             destruct (init_ok _) eqn:Ok; simpl; repeat split; auto;
               right; left; simpl; rewrite ?Ok; repeat split; auto; discriminate.
          -- repeat split; auto.
             right; right. repeat split; auto; try discriminate. right. discriminate.
      + repeat split; auto.
    - repeat split; auto.
  Qed.

  (* the invariant of a constructed module *)
  Definition Inv (s : mstate) : Prop :=
    in_init s = false /\
    ((missing s <> [] /\ fired s = []) \/ (missing s = [] /\ exists snap, fired s = [snap])).

  Lemma setattr_inv : forall (s : mstate) k v, Inv s -> Inv (state_of (setattr s k v)).
  Proof.
    intros s k v [I H].
    destruct (setattr_cases s k v) as [Hv [Hi C]].
    split; [congruence|].
    destruct C as [[_ [Hm [Hf _]]] | [[Hn [Hmem [Hm [_ [Hnil [Hf _]]]]]] | [Hn [Hmem [Hm [Hor [Hf _]]]]]]].
    - rewrite Hm, Hf. exact H.
    - right. split; [assumption|]. destruct H as [[_ F] | [M _]].
      + rewrite F in Hf. simpl in Hf. eauto.
      + rewrite M in Hmem. discriminate.
    - destruct Hor as [Hb | Hne]; [congruence|].
      left. split; [assumption|]. destruct H as [[_ F] | [M _]]; [congruence|].
      rewrite M in Hmem; discriminate.
  Qed.

  Lemma run_inv : forall ops (s : mstate), Inv s -> Inv (run s ops).
  Proof.
    unfold LazyModule.run.
    induction ops as [|[k v] r IH]; intros s HI; simpl; [assumption|].
    apply IH. apply setattr_inv. assumption.
  Qed.

  (* in the constructor's loop nothing fires *)
  Lemma setattrs_in_init : forall kvs (s : mstate),
      in_init s = true -> fired s = [] -> in_init (setattrs s kvs) = true /\ fired (setattrs s kvs) = [].
  Proof.
    induction kvs as [|[k v] r IH]; intros s I F; simpl; [auto|].
    destruct (setattr_cases s k v) as [_ [Hi C]].
    apply IH; [congruence|].
    destruct C as [[_ [_ [Hf _]]] | [[_ [_ [_ [Hb _]]]] | [_ [_ [_ [_ [Hf _]]]]]]]; congruence.
  Qed.

  Definition s_init : mstate := {| missing := lazy_attrs; values := []; in_init := true; fired := [] |}.

  Lemma construct_inv : forall args, Inv (state_of (construct args)).
  Proof.
    intros args. unfold LazyModule.construct. fold s_init.
    set (s1 := setattrs s_init (combine params args)).
    destruct (setattrs_in_init (combine params args) s_init eq_refl eq_refl) as [_ F].
    fold s1 in F. unfold is_fully_specified; simpl.
    destruct (missing s1) eqn:M.
    - unfold init_modules_, validate, is_fully_specified; simpl.
      destruct (init_ok _); simpl; (split; simpl; [reflexivity|]); right; (split; [reflexivity|]);
        rewrite F; simpl; eauto.
    - simpl. split; simpl; [reflexivity|]. left. split; [discriminate|assumption].
  Qed.

  (* T1: init_modules is called exactly once, exactly when the missing set is empty *)
  Lemma fires_exactly_once : forall args ops,
      let s := run (state_of (construct args)) ops in
      (missing s = [] -> exists snap, fired s = [snap]) /\ (missing s <> [] -> fired s = []).
  Proof.
    intros. pose proof (run_inv ops _ (construct_inv args)) as [_ H]. fold s in H. split.
    - intros M. destruct H as [[N _] | [_ F]]; [contradiction | assumption].
    - intros N. destruct H as [[_ F] | [M _]]; [assumption | contradiction].
  Qed.

  (* T2: every guarded use before completion raises; after completion the guard lets it through *)
  Lemma use_iff_complete : forall (s : mstate),
      (missing s <> [] -> use V s = None) /\ (missing s = [] -> use V s = Some tt).
  Proof.
    intros s. unfold use, validate, is_fully_specified. destruct (missing s); split; intros; congruence.
  Qed.

  (* T3: once complete, later assignments never call init_modules again *)
  Lemma frozen_after_fire : forall ops (s : mstate),
      missing s = [] -> fired (run s ops) = fired s /\ missing (run s ops) = [].
  Proof.
    unfold LazyModule.run.
    induction ops as [|[k v] r IH]; intros s M; simpl; [auto|].
    destruct (setattr_cases s k v) as [_ [_ C]].
    destruct C as [[_ [Hm [Hf _]]] | [[_ [Hmem _]] | [_ [Hmem _]]]].
    - destruct (IH _ (eq_trans Hm M)) as [A B]. split; congruence.
    - rewrite M in Hmem; discriminate.
    - rewrite M in Hmem; discriminate.
  Qed.

  (* T3': an assignment raises exactly when it completes the module with a configuration
     init_modules rejects; afterwards the module is "fully specified", passes the validate()
     guard, and is built from nothing *)
  Lemma setattr_raises_iff : forall (s : mstate) k v,
      Inv s ->
      is_raised (setattr s k v) = true ->
      let s' := state_of (setattr s k v) in
      missing s' = [] /\ use V s' = Some tt /\ built s' = [] /\
      exists snap, fired s' = [snap] /\ init_ok snap = false.
  Proof.
    intros s k v [_ HI] R. destruct (setattr_cases s k v) as [_ [_ C]].
    destruct C as [[_ [_ [_ Hr]]] | [[_ [Hmem [_ [_ [Hnil [Hf Hr]]]]]] | [_ [_ [_ [_ [_ Hr]]]]]]]; try congruence.
    rewrite R in Hr. symmetry in Hr. apply negb_true_iff in Hr.
    destruct HI as [[_ F] | [M _]]; [|rewrite M in Hmem; discriminate].
    rewrite F in Hf. simpl in Hf.
    split; [assumption|]. split; [apply use_iff_complete; assumption|].
    split; [unfold LazyModule.built; rewrite Hf; simpl; rewrite Hr; reflexivity|]. eauto.
  Qed.

  (* ---------------------------------------------------------------- T4 *)
  Variable vals : string -> option V.
  Notation consistent := (consistent V lazy_attrs vals).
  Notation target := (target V params vals).

  Definition assigned (s : mstate) (k : string) : Prop := In k (map fst (values s)).

  (* every attribute assigned so far reads as the target value, unless it is a
     lazy attribute still missing *)
  Definition K (s : mstate) : Prop :=
    forall k, assigned s k ->
              lookup V (values s) k = vals k \/ (mem k lazy_attrs = true /\ mem k (missing s) = true).

  Lemma lookup_bind_same : forall a k v, lookup V (bind V a k v) k = v.
  Proof. intros. simpl. rewrite String.eqb_refl. reflexivity. Qed.

  Lemma lookup_bind_other : forall a k k' v, k <> k' -> lookup V (bind V a k v) k' = lookup V a k'.
  Proof.
    intros. simpl. destruct (String.eqb k' k) eqn:E; [apply String.eqb_eq in E; congruence | reflexivity].
  Qed.

  Lemma snapshot_target : forall (a : attrs V),
      (forall k, In k params -> lookup V a k = vals k) -> snapshot a = target.
  Proof.
    intros a H. unfold LazyModule.snapshot, LazyModule.target. apply map_ext_in. intros k Hk.
    rewrite H by assumption. reflexivity.
  Qed.

  Definition covers (s : mstate) : Prop := forall k, In k params -> assigned s k.

  (* one consistent, non-clobbering assignment keeps K; if it fires, it fires with the target *)
  Lemma setattr_K : forall (s : mstate) k v,
      K s -> consistent (k, v) ->
      (v = None -> mem k lazy_attrs = true -> mem k (missing s) = true) ->
      let s' := state_of (setattr s k v) in
      K s' /\ (forall k', assigned s k' -> assigned s' k') /\ assigned s' k /\
      (covers s -> fired s' = fired s \/ fired s' = fired s ++ [target]).
  Proof.
    intros s k v HK HC Hcl s'.
    destruct (setattr_cases s k v) as [Hv [Hi C]]. fold s' in Hv, Hi, C.
    assert (Hass : forall k', assigned s k' -> assigned s' k').
    { intros k' A. unfold assigned in *. rewrite Hv. simpl. right; assumption. }
    assert (Hk : assigned s' k). { unfold assigned. rewrite Hv. simpl. left; reflexivity. }
    assert (HK' : K s').
    { intros k' A. unfold assigned in A. rewrite Hv in A. simpl in A.
      destruct (string_dec k k') as [Heq | Hne].
      - subst k'. rewrite Hv, lookup_bind_same.
        destruct HC as [Hc | [Hn Hl]]; simpl in *.
        + left; assumption.
        + subst v. right. split; [assumption|].
          destruct C as [[_ [Hm _]] | [[Hn _] | [Hn _]]]; try congruence.
          rewrite Hm. apply Hcl; auto.
      - destruct A as [A | A]; [congruence|].
        rewrite Hv, lookup_bind_other by assumption.
        destruct (HK k' A) as [L | [Hl Hm]]; [left; assumption|].
        right. split; [assumption|].
        destruct C as [[_ [Hm' _]] | [[_ [_ [Hm' _]]] | [_ [_ [Hm' _]]]]]; rewrite Hm'; auto;
          rewrite mem_remove_other; auto. }
    repeat split; auto.
    intros Hcov.
    destruct C as [[_ [_ [Hf _]]] | [[_ [_ [_ [_ [Hnil [Hf _]]]]]] | [_ [_ [_ [_ [Hf _]]]]]]]; auto.
    right. rewrite Hf. f_equal. f_equal. rewrite <- Hv. apply snapshot_target.
    intros k' Hp. destruct (HK' k' (Hass k' (Hcov k' Hp))) as [L | [_ Hm]]; [assumption|].
    rewrite Hnil in Hm. discriminate.
  Qed.

  Lemma covers_mono : forall (s s' : mstate), (forall k, assigned s k -> assigned s' k) -> covers s -> covers s'.
  Proof. unfold covers; auto. Qed.

  Lemma clobber_step : forall (s : mstate) k v r,
      clobber_free s ((k, v) :: r) = true ->
      (v = None -> mem k lazy_attrs = true -> mem k (missing s) = true) /\
      clobber_free (state_of (setattr s k v)) r = true.
  Proof.
    intros s k v r H. simpl in H. split.
    - intros Hn Hl. subst v. rewrite Hl in H. simpl in H.
      destruct (mem k (missing s)); [reflexivity | simpl in H; discriminate].
    - destruct v as [x|]; [exact H|].
      destruct (mem k lazy_attrs && negb (mem k (missing s))); [discriminate | exact H].
  Qed.

  Lemma run_K : forall ops (s : mstate),
      K s -> Forall consistent ops -> clobber_free s ops = true ->
      K (run s ops) /\ (covers s -> covers (run s ops) /\ exists n, fired (run s ops) = fired s ++ repeat target n).
  Proof.
    unfold LazyModule.run.
    induction ops as [|[k v] r IH]; intros s HK HF Hcl; simpl.
    - split; [assumption|]. intros Hc. split; [assumption|]. exists 0. simpl. rewrite app_nil_r. reflexivity.
    - inversion HF as [|x l Hc HF']; subst.
      destruct (clobber_step s k v r Hcl) as [Hnb Hcl'].
      destruct (setattr_K s k v HK Hc Hnb) as [HK1 [Hass [_ Hf]]].
      destruct (IH _ HK1 HF' Hcl') as [HK' Hrest].
      split; [assumption|]. intros Hcov.
      destruct (Hrest (covers_mono _ _ Hass Hcov)) as [Hcov' [n Hn]].
      split; [assumption|].
      destruct (Hf Hcov) as [F | F]; rewrite F in Hn.
      + exists n; assumption.
      + exists (S n). rewrite Hn. rewrite <- app_assoc. reflexivity.
  Qed.

  (* the constructor's loop: with duplicate-free parameter names it never clobbers *)
  Lemma construct_loop_clobber_free : forall ps args (s : mstate),
      NoDup ps ->
      (forall k, In k ps -> mem k lazy_attrs = true -> mem k (missing s) = true) ->
      clobber_free s (combine ps args) = true.
  Proof.
    induction ps as [|k ps IH]; intros args s ND H; simpl; [reflexivity|].
    destruct args as [|v args]; simpl; [reflexivity|].
    inversion ND as [|x l Hnin ND']; subst.
    assert (Hbad : match v with None => mem k lazy_attrs && negb (mem k (missing s)) | Some _ => false end = false).
    { destruct v; [reflexivity|]. destruct (mem k lazy_attrs) eqn:L; [|reflexivity].
      rewrite (H k (or_introl eq_refl) L). reflexivity. }
    rewrite Hbad.
    destruct (setattr_cases s k v) as [_ [_ C]].
    apply IH; [assumption|].
    intros k' Hin Hl.
    assert (Hne : k <> k') by (intro; subst; contradiction).
    destruct C as [[_ [Hm _]] | [[_ [_ [Hm _]]] | [_ [_ [Hm _]]]]]; rewrite Hm;
      try rewrite mem_remove_other by assumption; apply H; auto; right; assumption.
  Qed.

  Lemma setattrs_assigned : forall kvs (s : mstate) k,
      (In k (map fst kvs) \/ assigned s k) -> assigned (setattrs s kvs) k.
  Proof.
    induction kvs as [|[k v] r IH]; intros s k' H; simpl in *.
    - destruct H; [contradiction | assumption].
    - destruct (setattr_cases s k v) as [Hv _].
      apply IH. destruct H as [[H | H] | H].
      + right. subst. unfold assigned. rewrite Hv. simpl. left; reflexivity.
      + left; assumption.
      + right. unfold assigned in *. rewrite Hv. simpl. right; assumption.
  Qed.

  Lemma map_fst_combine : forall (A B : Type) (l : list A) (l' : list B),
      List.length l = List.length l' -> map fst (combine l l') = l.
  Proof.
    induction l as [|a l IH]; intros [|b l'] H; simpl in *; try discriminate; [reflexivity|].
    f_equal. apply IH. lia.
  Qed.

  Lemma missing_shrinks : forall kvs (s : mstate) q,
      mem q (missing (setattrs s kvs)) = true -> mem q (missing s) = true.
  Proof.
    induction kvs as [|[a b] r IH]; intros s q Hq; simpl in Hq; [assumption|].
    pose proof (IH _ q Hq) as Hx.
    destruct (setattr_cases s a b) as [_ [_ C]].
    destruct C as [[_ [Hm' _]] | [[_ [_ [Hm' _]]] | [_ [_ [Hm' _]]]]]; rewrite Hm' in Hx; auto;
      destruct (string_dec a q) as [->|Hne]; try (rewrite mem_remove_self in Hx; discriminate);
      rewrite mem_remove_other in Hx; auto.
  Qed.

  (* state after the constructor, for consistent arguments *)
  Lemma construct_K : forall args,
      NoDup params -> List.length args = List.length params ->
      Forall consistent (combine params args) ->
      let o := construct args in
      K (state_of o) /\ covers (state_of o) /\
      ((fired (state_of o) = [] /\ is_raised o = false) \/
       (fired (state_of o) = [target] /\ is_raised o = negb (init_ok target))).
  Proof.
    intros args ND HL HF. unfold LazyModule.construct. fold s_init.
    set (s1 := setattrs s_init (combine params args)).
    assert (HK0 : K s_init) by (intros k A; inversion A).
    assert (Hcl : clobber_free s_init (combine params args) = true).
    { apply construct_loop_clobber_free; [assumption|]. intros k _ Hl. exact Hl. }
    destruct (run_K (combine params args) s_init HK0 HF Hcl) as [HK1 _].
    unfold LazyModule.run in HK1. fold s1 in HK1.
    destruct (setattrs_in_init (combine params args) s_init eq_refl eq_refl) as [_ F1]. fold s1 in F1.
    assert (Hcov1 : forall k, In k params -> In k (map fst (values s1))).
    { intros k Hk. apply (setattrs_assigned (combine params args) s_init). left.
      rewrite map_fst_combine by lia. assumption. }
    unfold is_fully_specified; simpl.
    destruct (missing s1) eqn:M.
    - unfold init_modules_, validate, is_fully_specified; simpl.
      assert (Hsnap : snapshot (values s1) = target).
      { apply snapshot_target. intros k Hk. destruct (HK1 k (Hcov1 k Hk)) as [L | [_ Hm]]; [assumption|].
        rewrite M in Hm; discriminate. }
      rewrite Hsnap.
      destruct (init_ok target) eqn:Ok; simpl; repeat split;
        try (intros k A; simpl in *; destruct (HK1 k A) as [L | [_ Hm]]; [left; assumption| rewrite M in Hm; discriminate]);
        try (intros k Hk; unfold assigned; simpl; auto);
        right; rewrite F1; simpl; auto.
    - simpl. repeat split.
      + intros k A. destruct (HK1 k A) as [L | [Hl Hm]]; [left; exact L | right; split; [exact Hl | rewrite M in Hm; exact Hm]].
      + intros k Hk. unfold assigned; simpl. auto.
      + left. simpl. auto.
  Qed.

  (* T4a: eager construction with every lazy attribute given calls init_modules on the target,
     and raises exactly when init_modules rejects it *)
  Lemma eager_builds_target :
      NoDup params ->
      (forall k, mem k lazy_attrs = true -> In k params /\ vals k <> None) ->
      let o := construct (map vals params) in
      missing (state_of o) = [] /\ fired (state_of o) = [target] /\ is_raised o = negb (init_ok target).
  Proof.
    intros ND HL o.
    assert (HF : Forall consistent (combine params (map vals params))).
    { apply Forall_forall. intros [k v] Hin. left. simpl.
      clear - Hin. induction params as [|p ps IH]; simpl in Hin; [contradiction|].
      destruct Hin as [H | H]; [inversion H; reflexivity | apply IH; assumption]. }
    destruct (construct_K (map vals params) ND (map_length _ _) HF) as [HK [Hcov Hf]]. fold o in HK, Hcov, Hf.
    pose proof (construct_inv (map vals params)) as [_ HI]. fold o in HI.
    assert (M : missing (state_of o) = []).
    { destruct (missing (state_of o)) as [|k r] eqn:M; [reflexivity|]. exfalso.
      assert (Hm : mem k (missing (state_of o)) = true) by (rewrite M; simpl; rewrite String.eqb_refl; reflexivity).
      set (s1 := setattrs s_init (combine params (map vals params))).
      assert (Hms : missing (state_of o) = missing s1).
      { unfold o, LazyModule.construct. fold s_init. fold s1.
        unfold is_fully_specified; simpl. destruct (missing s1) eqn:M1.
        - unfold init_modules_, validate, is_fully_specified; simpl.
          destruct (init_ok (snapshot (values s1))); reflexivity.
        - reflexivity. }
      rewrite Hms in Hm.
      pose proof (missing_shrinks _ s_init k Hm) as Hl. simpl in Hl.
      destruct (HL k Hl) as [Hin Hnn].
      assert (Hrem : forall ps (sA : mstate), In k ps -> mem k (missing (setattrs sA (combine ps (map vals ps)))) = false).
      { induction ps as [|p ps IH]; intros sA Hp; simpl in *; [contradiction|].
        destruct (setattr_cases sA p (vals p)) as [_ [_ C]].
        destruct (string_dec p k) as [->|Hne].
        - assert (Hx : mem k (missing (state_of (setattr sA k (vals k)))) = false).
          { destruct C as [[[Hn | Hn] [Hm' _]] | [[_ [_ [Hm' _]]] | [_ [_ [Hm' _]]]]].
            - congruence.
            - rewrite Hm'; assumption.
            - rewrite Hm'. apply mem_remove_self.
            - rewrite Hm'. apply mem_remove_self. }
          destruct (mem k (missing (setattrs _ (combine ps (map vals ps))))) eqn:Hb; [|reflexivity].
          rewrite (missing_shrinks _ _ k Hb) in Hx. discriminate.
        - destruct Hp as [Hp | Hp]; [congruence|]. apply IH. assumption. }
      unfold s1 in Hm. rewrite (Hrem params s_init Hin) in Hm. discriminate. }
    split; [assumption|].
    destruct Hf as [[F _] | [F R]]; [|auto].
    destruct HI as [[N _] | [_ [snap Fs]]]; [contradiction | congruence].
  Qed.

  (* T4b: lazy configuration, any order, any interleaving, None re-assignments of
     still-missing attributes: when the module completes, init_modules sees exactly
     the target configuration -- the same snapshot the eager constructor sees *)
  Lemma lazy_any_order_builds_target : forall args ops,
      NoDup params -> List.length args = List.length params ->
      Forall consistent (combine params args) -> Forall consistent ops ->
      let s0 := state_of (construct args) in
      clobber_free s0 ops = true -> missing (run s0 ops) = [] -> fired (run s0 ops) = [target].
  Proof.
    intros args ops ND HL HFa HFo s0 Hcl M.
    destruct (construct_K args ND HL HFa) as [HK [Hcov Hf]]. fold s0 in HK, Hcov, Hf.
    destruct (run_K ops s0 HK HFo Hcl) as [_ Hrest]. destruct (Hrest Hcov) as [_ [n Hn]].
    pose proof (run_inv ops s0 (construct_inv args)) as [_ [[N _] | [_ [snap Fs]]]]; [contradiction|].
    rewrite Fs in Hn.
    destruct Hf as [[F _] | [F _]]; rewrite F in Hn; simpl in Hn.
    - destruct n as [|[|n]]; simpl in Hn; try discriminate. inversion Hn; subst. assumption.
    - destruct n; simpl in Hn; [|discriminate]. inversion Hn; subst. assumption.
  Qed.
End Lazy.

(* ------------------------------------------------------------ StypeWise init *)
Section StypeWiseInit.
  Variable Enc : Type.
  Variable supported : Enc -> list stype.
  Notation init := (stypewise_init Enc supported).

  Notation key_ok := (key_ok Enc supported).

  Lemma init_some_iff : forall keys d,
      init keys d = (if forallb key_ok d then Some (filter (fun p => stype_in (fst p) keys) d) else None).
  Proof.
    induction d as [|[s e] r IH]; simpl; [reflexivity|].
    unfold key_ok at 1; simpl.
    destruct (stype_eqb s (stype_parent s)); simpl; [|reflexivity].
    destruct (stype_in s (supported e)); simpl; [|reflexivity].
    rewrite IH. destruct (forallb key_ok r); [|reflexivity].
    destruct (stype_in s keys); reflexivity.
  Qed.

  Lemma init_rejects : forall keys d s e,
      In (s, e) d -> (stype_eqb s (stype_parent s) = false \/ stype_in s (supported e) = false) ->
      init keys d = None.
  Proof.
    intros keys d s e Hin H. rewrite init_some_iff.
    destruct (forallb key_ok d) eqn:F; [|reflexivity].
    rewrite forallb_forall in F. specialize (F _ Hin). unfold key_ok in F; simpl in F.
    apply andb_true_iff in F. destruct F as [A B]. destruct H; congruence.
  Qed.
End StypeWiseInit.

(* --------------------------------------------------------- StypeWise forward *)
Section StypeWiseForward.
  Variable A : Type.

  Notation part_ok := (part_ok A).

  Lemma forward_fold : forall cnd fd enc sts xs0 ns0 xs ns,
      fold_left (fun (acc : option (list A * list string)) (s : stype) =>
        match acc with
        | None => None
        | Some (xs, ns) =>
            match assoc_stype cnd s, assoc_stype fd s with
            | Some names, Some ncols =>
                if negb (Nat.eqb ncols (List.length names)) then None
                else match enc s names with
                     | Some cols => if Nat.eqb (List.length cols) ncols then Some (xs ++ cols, ns ++ names) else None
                     | None => None
                     end
            | _, _ => None
            end
        end) sts (Some (xs0, ns0)) = Some (xs, ns) ->
      exists parts, Forall2 (part_ok cnd enc) sts parts /\
                    xs = xs0 ++ List.concat (map fst parts) /\ ns = ns0 ++ List.concat (map snd parts).
  Proof.
    intros cnd fd enc. induction sts as [|s r IH]; intros xs0 ns0 xs ns H; simpl in H.
    - inversion H; subst. exists []. simpl. rewrite !app_nil_r. repeat split; constructor.
    - destruct (assoc_stype cnd s) as [names|] eqn:En.
      2:{ exfalso. clear - H. induction r; simpl in H; [discriminate | auto]. }
      destruct (assoc_stype fd s) as [ncols|] eqn:Ef.
      2:{ exfalso. clear - H. induction r; simpl in H; [discriminate | auto]. }
      destruct (Nat.eqb ncols (List.length names)) eqn:E1; simpl in H.
      2:{ exfalso. clear - H. induction r; simpl in H; [discriminate | auto]. }
      destruct (enc s names) as [cols|] eqn:Ee.
      2:{ exfalso. clear - H. induction r; simpl in H; [discriminate | auto]. }
      destruct (Nat.eqb (List.length cols) ncols) eqn:E2.
      2:{ exfalso. clear - H. induction r; simpl in H; [discriminate | auto]. }
      destruct (IH _ _ _ _ H) as [parts [HF [Hx Hn]]].
      exists ((cols, names) :: parts). simpl. repeat split.
      + constructor; [|assumption]. unfold part_ok; simpl. repeat split; auto.
        apply Nat.eqb_eq in E1. apply Nat.eqb_eq in E2. congruence.
      + rewrite Hx, <- app_assoc. reflexivity.
      + rewrite Hn, <- app_assoc. reflexivity.
  Qed.

  Lemma forward_order : forall cnd fd enc xs ns,
      stypewise_forward A cnd fd enc = Some (xs, ns) ->
      exists parts, Forall2 (part_ok cnd enc) (tf_stypes fd) parts /\
                    xs = List.concat (map fst parts) /\ ns = List.concat (map snd parts).
  Proof.
    intros cnd fd enc xs ns H. unfold stypewise_forward in H.
    destruct (forward_fold _ _ _ _ _ _ _ _ H) as [parts [HF [Hx Hn]]].
    exists parts. auto.
  Qed.

  (* names and columns are aligned: same length, and position by position the
     j-th output column is the one the stype's encoder returned for the j-th name *)
  Lemma forward_aligned : forall cnd fd enc xs ns,
      stypewise_forward A cnd fd enc = Some (xs, ns) -> List.length xs = List.length ns.
  Proof.
    intros. destruct (forward_order _ _ _ _ _ H) as [parts [HF [Hx Hn]]]. subst.
    clear H. induction HF as [|s p sts parts Hp HF IH]; simpl; [reflexivity|].
    rewrite !app_length, IH. destruct Hp as [_ [_ Hl]]. rewrite Hl. reflexivity.
  Qed.
End StypeWiseForward.

(* ----------------------------------------------- generated tables (finite) *)
(* every supported pairing of a built-in class is a documented one, and every key a class
   supports other than through the user-model wrapper is a parent stype *)
Lemma supported_is_documented :
  forall e s, stype_in s (encoder_supported e) = true -> stype_in s (documented_stypes e) = true.
Proof. intros e s. destruct e, s; vm_compute; intro H; try reflexivity; discriminate. Qed.

Lemma documented_is_supported :
  forall e s, stype_in s (documented_stypes e) = true -> stype_in s (encoder_supported e) = true.
Proof. intros e s. destruct e, s; vm_compute; intro H; try reflexivity; discriminate. Qed.

Lemma stype_encoder_signature_ok :
  NoDup stype_encoder_params /\
  (forall k, mem k stype_encoder_lazy_attrs = true -> In k stype_encoder_params).
Proof.
  split.
  - unfold stype_encoder_params. repeat constructor; simpl; intuition discriminate.
  - intros k H. unfold stype_encoder_lazy_attrs, mem in H. simpl in H.
    repeat (apply orb_true_iff in H; destruct H as [H | H]); try discriminate;
      apply String.eqb_eq in H; subst; vm_compute; tauto.
Qed.
