(* The other public entry points of _MultiTensor (multi_tensor.py) besides
   __getitem__/select: narrow(dim, start, length) called directly, and the
   dimension argument as Python passes it (an integer in -3..1).  Proofs for
   Props/C05.v. *)
From Coq Require Import ZArith List Bool Arith Lia.
From PF Require Import Lib.ListX Lib.PySlice Model.Ragged Model.RaggedSpec Model.RaggedRun.
From PF Require Import Proofs.MntProofs Proofs.MetProofs.
Import ListNotations.

Section Entry.
  Variable A : Type.

  Lemma mnt_narrow_refines_proof : forall (c : nat) (m : cellmat A) (dim start len : nat),
    rect c m -> dim < 2 ->
    start + len <= (if dim =? 0 then length m else c) ->
    narrow A _ (mnt_kernels A) (mnt_of_cells c m) dim start (Z.of_nat len) =
    Some (mnt_of_cells (if dim =? 0 then c else len) (pick dim (seq start len) m)).
  Proof.
    intros c m dim start len Hr Hd Hle.
    pose proof (cells_narrow A c m Hr dim start (start + len) Hd Hle) as H.
    replace (Z.of_nat (start + len) - Z.of_nat start)%Z with (Z.of_nat len) in H by lia.
    replace (start + len - start) with len in H by lia.
    rewrite seq_length in H. exact H.
  Qed.

  Lemma met_narrow_refines_proof : forall (ws : list nat) (m : cellmat A) (dim start len : nat),
    rect_w ws m -> dim < 2 ->
    start + len <= (if dim =? 0 then length m else length ws) ->
    narrow A _ (met_kernels A) (met_of_cells ws m) dim start (Z.of_nat len) =
    Some (met_of_cells (pick_ws dim (seq start len) ws) (pick dim (seq start len) m)).
  Proof.
    intros ws m dim start len Hr Hd Hle.
    pose proof (met_cells_narrow A ws m Hr dim start (start + len) Hd Hle) as H.
    replace (Z.of_nat (start + len) - Z.of_nat start)%Z with (Z.of_nat len) in H by lia.
    replace (start + len - start) with len in H by lia.
    exact H.
  Qed.

  (* narrow(dim, 0, length) with length >= size returns the container itself *)
  Lemma narrow_whole_proof : forall (T : Type) (K : kernels A T) (t : T) (dim : nat) (len : Z),
    (Z.of_nat (size A T K t dim) <= len)%Z -> narrow A T K t dim 0 len = Some t.
  Proof.
    intros T K t dim len H. unfold narrow. cbn [Nat.eqb andb].
    replace (Z.of_nat (size A T K t dim) <=? Z.of_nat 0 + len)%Z with true; [reflexivity|].
    symmetry. apply Z.leb_le. lia.
  Qed.

  (* a non-positive length gives the empty selection (unless it is the whole, empty, axis) *)
  Lemma mnt_narrow_nonpositive_proof : forall (c : nat) (m : cellmat A) (dim start : nat) (len : Z),
    rect c m -> dim < 2 -> (len <= 0)%Z ->
    narrow A _ (mnt_kernels A) (mnt_of_cells c m) dim start len =
    Some (mnt_of_cells (if dim =? 0 then c else 0) (pick dim [] m)).
  Proof.
    intros c m dim start len Hr Hd Hl. unfold narrow, size.
    destruct dim as [|[|dim]]; [| |lia];
      cbn [Nat.eqb mnt_kernels k_rows k_cols k_empty] in *;
      change (nr (mnt_of_cells c m)) with (length m); change (nc (mnt_of_cells c m)) with c.
    - destruct ((start =? 0) && (Z.of_nat (length m) <=? Z.of_nat start + len)%Z) eqn:E1.
      + apply andb_true_iff in E1. destruct E1 as [E1 E2]. apply Nat.eqb_eq in E1. apply Z.leb_le in E2.
        assert (length m = 0) by lia. destruct m; [reflexivity|discriminate].
      + replace (len <=? 0)%Z with true by (symmetry; apply Z.leb_le; lia).
        apply (cells_empty_rows A c m).
    - destruct ((start =? 0) && (Z.of_nat c <=? Z.of_nat start + len)%Z) eqn:E1.
      + apply andb_true_iff in E1. destruct E1 as [E1 E2]. apply Nat.eqb_eq in E1. apply Z.leb_le in E2.
        assert (c = 0) by lia. subst c.
        unfold pick; cbn [Nat.eqb]. unfold pick_cols, mnt_of_cells. f_equal.
        assert (Hm : map (fun _ : list (list A) => @nil (list A)) m = m).
        { unfold rect in Hr. induction Hr as [|x l0 Hx Hl0 IH]; simpl; [reflexivity|].
          f_equal; [destruct x; [reflexivity|discriminate]|exact IH]. }
        simpl. rewrite Hm. reflexivity.
      + replace (len <=? 0)%Z with true by (symmetry; apply Z.leb_le; lia).
        apply (cells_empty_cols A c m).
  Qed.


  Lemma met_narrow_nonpositive_proof : forall (ws : list nat) (m : cellmat A) (dim start : nat) (len : Z),
    rect_w ws m -> dim < 2 -> (len <= 0)%Z ->
    narrow A _ (met_kernels A) (met_of_cells ws m) dim start len =
    Some (met_of_cells (pick_ws dim [] ws) (pick dim [] m)).
  Proof.
    intros ws m dim start len Hr Hd Hl. unfold narrow, size.
    destruct dim as [|[|dim]]; [| |lia];
      cbn [Nat.eqb met_kernels k_rows k_cols k_empty] in *;
      change (er (met_of_cells ws m)) with (length m); change (ec (met_of_cells ws m)) with (length ws).
    - destruct ((start =? 0) && (Z.of_nat (length m) <=? Z.of_nat start + len)%Z) eqn:E1.
      + apply andb_true_iff in E1. destruct E1 as [E1 E2]. apply Nat.eqb_eq in E1. apply Z.leb_le in E2.
        assert (length m = 0) by lia. destruct m; [reflexivity|discriminate].
      + replace (len <=? 0)%Z with true by (symmetry; apply Z.leb_le; lia).
        apply (met_cells_empty_rows A ws m).
    - destruct ((start =? 0) && (Z.of_nat (length ws) <=? Z.of_nat start + len)%Z) eqn:E1.
      + apply andb_true_iff in E1. destruct E1 as [E1 E2]. apply Nat.eqb_eq in E1. apply Z.leb_le in E2.
        assert (Hw : ws = []) by (destruct ws; [reflexivity|simpl in E2; lia]). subst ws.
        unfold pick, pick_ws; cbn [Nat.eqb map]. unfold pick_cols.
        assert (Hm : map (fun _ : list (list A) => @nil (list A)) m = m).
        { unfold rect_w in Hr. induction Hr as [|x l0 Hx Hl0 IH]; simpl; [reflexivity|].
          f_equal; [destruct x; [reflexivity|discriminate]|exact IH]. }
        simpl. rewrite Hm. reflexivity.
      + replace (len <=? 0)%Z with true by (symmetry; apply Z.leb_le; lia).
        apply (met_cells_empty_cols A ws m).
  Qed.

  (* the dimension argument as Python passes it *)
  Lemma normalize_dim_z_spec_proof : forall d : Z,
    normalize_dim_z d =
    if ((d =? 0) || (d =? -3))%Z then Some 0
    else if ((d =? 1) || (d =? -2))%Z then Some 1 else None.
  Proof.
    intros d. unfold normalize_dim_z.
    destruct (d <? 0)%Z eqn:E; [apply Z.ltb_lt in E | apply Z.ltb_ge in E];
      repeat match goal with
             | |- context [(?a =? ?b)%Z] => destruct (Z.eqb_spec a b)
             end; cbn [orb]; try reflexivity; lia.
  Qed.
End Entry.
