(* Lemmas about Model/IO.v: serialisation round trip per storage kind and stype,
   save/load round trip, and the invariant of the materialisation cache. *)
From Coq Require Import List Arith Bool String Lia.
From PF Require Import Lib.ListX Gen.Tables Model.IO.
Import ListNotations.

(* ------------------------------------------------------------------ *)
(* Finite facts about the generated storage-flag tables (case analysis over
   the generated enum `stype`: re-proved whenever Gen/Tables.v changes). *)

Lemma use_multi_tensor_spec : forall st,
  use_multi_tensor st = use_multi_nested st || use_multi_embedding st.
Proof. destruct st; reflexivity. Qed.

Lemma flags_exclusive : forall st,
  (use_multi_nested st = true -> use_multi_embedding st = false /\ use_dict_nested st = false) /\
  (use_multi_embedding st = true -> use_multi_nested st = false /\ use_dict_nested st = false) /\
  (use_dict_nested st = true -> use_multi_nested st = false /\ use_multi_embedding st = false).
Proof. destruct st; cbn; repeat split; intros; try discriminate; reflexivity. Qed.

Section IOProofs.
  Variable tensor : Type.
  Variable tdim : tensor -> nat.
  Variable tsize : tensor -> nat -> nat.
  Variable valid_nested valid_embed : nat -> nat -> tensor -> tensor -> bool.
  Variable stats : Type.

  Local Notation deser_feat := (deserialize_feat valid_nested valid_embed).
  Local Notation deser := (deserialize_feat_dict valid_nested valid_embed).
  Local Notation fwf := (feat_wf valid_nested valid_embed).
  Local Notation fdwf := (feat_dict_wf valid_nested valid_embed).
  Local Notation twf := (tframe_wf tdim tsize valid_nested valid_embed).

  Lemma multi_kwargs_to_dict : forall valid (m : multi tensor),
    multi_ok valid m -> multi_kwargs valid (to_dict m) = Some m.
  Proof.
    intros valid [r c v o] H. unfold multi_ok in H; cbn in H.
    unfold multi_kwargs, to_dict. cbn. rewrite H. reflexivity.
  Qed.

  Lemma dict_roundtrip : forall d : list (string * multi tensor),
    Forall (fun p => multi_ok valid_nested (snd p)) d ->
    mapM (fun p : string * ser tensor => m <- multi_kwargs valid_nested (snd p) ;; Some (fst p, m))
         (map (fun p => (fst p, to_dict (snd p))) d) = Some d.
  Proof.
    induction 1 as [|[k m] d Hm _ IH]; [reflexivity|].
    cbn [map mapM fst snd]. cbn [fst snd] in Hm.
    rewrite (multi_kwargs_to_dict _ _ Hm). cbn [obind]. rewrite IH. reflexivity.
  Qed.

  Lemma feat_roundtrip : forall st (f : feat tensor), fwf st f ->
    exists s, serialize_feat st f = Some s /\ deser_feat st s = Some f.
  Proof.
    intros st f H. unfold serialize_feat, deserialize_feat. rewrite use_multi_tensor_spec.
    destruct (flags_exclusive st) as (En & Ee & Ed).
    destruct f as [t|m|m|d]; cbn [feat_wf] in H.
    - destruct H as (H1 & H2 & H3). rewrite H1, H2, H3. cbn. eauto.
    - destruct H as (H1 & Hm). rewrite H1. cbn [orb]. eexists; split; [reflexivity|].
      rewrite (multi_kwargs_to_dict _ _ Hm). reflexivity.
    - destruct H as (H1 & Hm). destruct (Ee H1) as (H2 & H3). rewrite H1, H2. cbn [orb].
      eexists; split; [reflexivity|]. rewrite (multi_kwargs_to_dict _ _ Hm). reflexivity.
    - destruct H as (H1 & Hd). destruct (Ed H1) as (H2 & H3). rewrite H1, H2, H3. cbn [orb].
      eexists; split; [reflexivity|]. cbn beta iota. rewrite (dict_roundtrip _ Hd). reflexivity.
  Qed.

  Lemma feat_dict_roundtrip : forall fd : list (stype * feat tensor), fdwf fd ->
    exists sd, serialize_feat_dict fd = Some sd /\ deser sd = Some fd /\ map fst sd = map fst fd.
  Proof.
    unfold feat_dict_wf, serialize_feat_dict, deserialize_feat_dict.
    induction 1 as [|[st f] fd Hf _ (sd & IH1 & IH2 & IH3)].
    - exists []. auto.
    - cbn [fst snd] in Hf. destruct (feat_roundtrip _ _ Hf) as (s & Hs & Hd).
      exists ((st, s) :: sd). cbn [mapM fst snd map]. rewrite Hs. cbn [obind]. rewrite IH1.
      rewrite Hd. cbn [obind]. rewrite IH2. rewrite IH3. auto.
  Qed.

  Lemma feat_wfb_sound : forall st (f : feat tensor),
    feat_wfb valid_nested valid_embed st f = true -> fwf st f.
  Proof.
    intros st [t|m|m|d]; cbn [feat_wfb feat_wf]; intros H.
    - apply andb_true_iff in H. destruct H as (H & H3). apply andb_true_iff in H. destruct H as (H1 & H2).
      apply negb_true_iff in H1, H2, H3. auto.
    - apply andb_true_iff in H. exact H.
    - apply andb_true_iff in H. exact H.
    - apply andb_true_iff in H. destruct H as (H1 & H2). split; auto.
      apply Forall_forall. intros p Hp. exact (proj1 (forallb_forall _ _) H2 p Hp).
  Qed.

  Lemma tframe_wfb_sound : forall t : tframe tensor,
    tframe_wfb tdim tsize valid_nested valid_embed t = true -> twf t.
  Proof.
    intros t H. unfold tframe_wfb in H.
    apply andb_true_iff in H. destruct H as (H1 & H2).
    split; [|exact H2].
    apply Forall_forall. intros p Hp. apply feat_wfb_sound. exact (proj1 (forallb_forall _ _) H1 p Hp).
  Qed.

  (* ---------------------------------------------------------------- *)
  Variable byte : Type.
  Variable enc : payload tensor stats -> list byte.
  Variable dec : list byte -> option (payload tensor stats).
  Hypothesis H_dec_enc : forall x, dec (enc x) = Some x.
  Hypothesis H_load_prefix_fails : forall x k, k < List.length (enc x) -> dec (firstn k (enc x)) = None.

  Local Notation load := (IO.load tdim tsize valid_nested valid_embed dec).
  Local Notation save := (IO.save enc).

  Lemma save_load_roundtrip : forall (t : tframe tensor) (cs : stats), twf t ->
    exists b, save t cs = Some b /\ load b = Some (t, cs).
  Proof.
    intros t cs (Hfd & Hv).
    destruct (feat_dict_roundtrip _ Hfd) as (sd & Hs & Hd & _).
    unfold IO.save, save_payload, IO.load. rewrite Hs. cbn [obind option_map].
    eexists; split; [reflexivity|].
    rewrite H_dec_enc. cbn [obind fst snd d_ser d_names d_y d_num_rows]. rewrite Hd. cbn [obind].
    unfold mk_tframe. destruct t as [fd names y nr]. cbn [tf_feat tf_names tf_y tf_num_rows].
    rewrite Hv. reflexivity.
  Qed.

  Lemma save_is_enc : forall (t : tframe tensor) (cs : stats) b,
    save t cs = Some b -> exists p, b = enc p.
  Proof.
    unfold IO.save. intros t cs b H. destruct (save_payload t cs) as [p|]; cbn in H; [|discriminate].
    exists p. congruence.
  Qed.

  Lemma truncated_never_loads : forall (t : tframe tensor) (cs : stats) b k,
    save t cs = Some b -> k < List.length b -> load (firstn k b) = None.
  Proof.
    intros t cs b k H Hk. destruct (save_is_enc _ _ _ H) as (p & ->).
    unfold IO.load. rewrite (H_load_prefix_fails _ _ Hk). reflexivity.
  Qed.

  (* ---------------------------------------------------------------- *)
  Variable rows : Type.
  Variable cout : Type.
  Variable conv : stats -> rows -> option cout.
  Variable ft : tframe tensor.
  Variable fcs : stats.
  Hypothesis H_fresh_wf : twf ft.
  Variable B : list byte.
  Hypothesis H_B : save ft fcs = Some B.

  Local Notation materialize := (IO.materialize tdim tsize valid_nested valid_embed enc dec (ft, fcs)).
  Local Notation step := (IO.step tdim tsize valid_nested valid_embed enc dec conv (ft, fcs)).
  Local Notation run := (IO.run tdim tsize valid_nested valid_embed enc dec conv (ft, fcs)).
  Local Notation world := (IO.world tensor stats byte).
  Local Notation obs := (IO.obs tensor stats cout).

  Definition mat_ds : dataset tensor stats := MkDs true (Some ft) (Some fcs) (Some fcs).

  (* the file is absent or a prefix (possibly all) of the complete file; the
     live object is fresh or holds exactly the fresh computation *)
  Definition inv (w : world) : Prop :=
    (fs w = None \/ exists k, fs w = Some (firstn k B)) /\
    (cur w = new_dataset tensor stats \/ cur w = mat_ds).

  (* without crashes the file is absent or complete *)
  Definition inv_cf (w : world) : Prop :=
    (fs w = None \/ fs w = Some B) /\
    (cur w = new_dataset tensor stats \/ cur w = mat_ds).

  Lemma inv_cf_inv : forall w, inv_cf w -> inv w.
  Proof.
    intros w ([H|H] & Hc); split; auto. right. exists (List.length B). rewrite firstn_all. exact H.
  Qed.

  Lemma load_B : load B = Some (ft, fcs).
  Proof.
    destruct (save_load_roundtrip _ fcs H_fresh_wf) as (b & Hb & Hl). rewrite H_B in Hb.
    injection Hb as <-. exact Hl.
  Qed.

  Lemma load_prefix : forall k,
    (k < List.length B /\ load (firstn k B) = None) \/ (List.length B <= k /\ load (firstn k B) = Some (ft, fcs)).
  Proof.
    intros k. destruct (Nat.lt_ge_cases k (List.length B)) as [Hk|Hk].
    - left. split; auto. exact (truncated_never_loads _ _ _ _ H_B Hk).
    - right. split; auto. rewrite firstn_all2 by exact Hk. exact load_B.
  Qed.

  Lemma written_prefix : forall cut, exists k, written cut B = firstn k B.
  Proof.
    intros [k|]; cbn; [exists k; reflexivity|]. exists (List.length B). rewrite firstn_all. reflexivity.
  Qed.

  (* one call of materialize: the invariant is kept; a call that does not raise
     leaves the object holding exactly the fresh computation *)
  Lemma materialize_inv : forall cut w p, inv w ->
    inv (fst (materialize cut w p)) /\
    (snd (materialize cut w p) = false -> cur (fst (materialize cut w p)) = mat_ds).
  Proof.
    intros cut [f c] p (Hf & Hc). cbn [fs cur] in Hf, Hc.
    destruct (written_prefix cut) as (kw & Hw).
    unfold IO.materialize, isfile. cbn [fs cur fst snd].
    assert (Fin : forall f' c' (r : bool),
              (f' = None \/ exists k, f' = Some (firstn k B)) ->
              (c' = new_dataset tensor stats \/ c' = mat_ds) -> (r = false -> c' = mat_ds) ->
              inv (fst (MkW f' c', r)) /\ (snd (MkW f' c', r) = false -> cur (fst (MkW f' c', r)) = mat_ds)).
    { intros f' c' r H1 H2 H3. cbn [fst snd cur]. split; [split; cbn [fs cur]; assumption|assumption]. }
    destruct Hc as [-> | ->]; cbn [ds_mat new_dataset mat_ds ds_tf ds_stats].
    - (* a fresh object *)
      destruct Hf as [-> | (k & ->)].
      + (* no file: compute, save when a path is given *)
        rewrite andb_false_r. destruct p.
        * rewrite H_B. rewrite Hw. apply Fin; eauto.
        * apply Fin; eauto.
      + destruct p; cbn [andb].
        * destruct (load_prefix k) as [(_ & ->) | (_ & ->)].
          -- apply Fin; eauto. discriminate.
          -- apply Fin; eauto.
        * apply Fin; eauto.
    - (* already materialized *)
      destruct Hf as [-> | (k & ->)].
      + destruct p; cbn [andb negb].
        * rewrite H_B. rewrite Hw. apply Fin; eauto.
        * apply Fin; eauto.
      + rewrite andb_false_r. apply Fin; eauto.
  Qed.

  Lemma materialize_inv_cf : forall w p, inv_cf w ->
    inv_cf (fst (materialize None w p)) /\ snd (materialize None w p) = false /\
    cur (fst (materialize None w p)) = mat_ds.
  Proof.
    intros [f c] p (Hf & Hc). cbn [fs cur] in Hf, Hc.
    unfold IO.materialize, isfile. cbn [fs cur fst snd].
    destruct Hc as [-> | ->]; cbn [ds_mat new_dataset mat_ds ds_tf ds_stats].
    - destruct Hf as [-> | ->].
      + rewrite andb_false_r. destruct p.
        * rewrite H_B. cbn. repeat split; auto.
        * cbn. repeat split; auto.
      + destruct p; cbn [andb].
        * rewrite load_B. cbn. repeat split; auto.
        * cbn. repeat split; auto.
    - destruct Hf as [-> | ->].
      + destruct p; cbn [andb negb].
        * rewrite H_B. cbn. repeat split; auto.
        * cbn. repeat split; auto.
      + rewrite andb_false_r. cbn. repeat split; auto.
  Qed.

  Lemma mat_obs_of : forall (r : world * bool),
    (snd r = false -> cur (fst r) = mat_ds) ->
    @mat_obs tensor stats byte cout r = ORaise _ _ _ \/ @mat_obs tensor stats byte cout r = OMat _ ft fcs.
  Proof.
    intros [w b] H. unfold mat_obs. cbn [fst snd] in *. destruct b; auto.
    rewrite (H eq_refl). cbn. auto.
  Qed.

  Lemma step_inv : forall w e, inv w ->
    inv (fst (step w e)) /\ complete_or_raise conv (ft, fcs) e (snd (step w e)).
  Proof.
    intros w e Hw. destruct e as [p|k|p|r]; cbn [IO.step fst snd complete_or_raise].
    - destruct (materialize_inv None _ p Hw) as (Hi & Hm). split; auto. apply mat_obs_of; auto.
    - destruct (materialize_inv (Some k) _ true Hw) as ((Hf & _) & _). split; auto.
      split; cbn [fs cur]; auto.
    - assert (Hn : inv (MkW (fs w) (new_dataset tensor stats))).
      { destruct Hw as (Hf & _). split; cbn [fs cur]; auto. }
      destruct (materialize_inv None _ p Hn) as (Hi & Hm). split; auto. apply mat_obs_of; auto.
    - destruct Hw as (Hf & [Hc | Hc]); rewrite Hc; cbn [ds_mat new_dataset mat_ds ds_conv fst snd].
      + split; [split; auto|auto].
      + unfold conv_obs. cbn [snd]. destruct (conv fcs r); cbn [fst snd]; (split; [split; auto|auto]).
  Qed.

  Lemma run_inv : forall h w, inv w ->
    inv (fst (run w h)) /\ Forall2 (complete_or_raise conv (ft, fcs)) h (snd (run w h)).
  Proof.
    induction h as [|e h IH]; intros w Hw; cbn [IO.run fst snd].
    - split; auto.
    - destruct (step_inv _ e Hw) as (Hi & Ho). destruct (IH _ Hi) as (Hi' & Hf). split; auto.
  Qed.

  Lemma init_inv_cf : inv_cf (init tensor stats byte).
  Proof. split; cbn; auto. Qed.

  Lemma run_never_partial : forall h,
    Forall2 (complete_or_raise conv (ft, fcs)) h (snd (run (init tensor stats byte) h)).
  Proof. intros h. apply run_inv. apply inv_cf_inv, init_inv_cf. Qed.

  Lemma step_inv_cf : forall w e, inv_cf w ->
    match e with CrashDuringSave _ _ => True | _ =>
      inv_cf (fst (step w e)) /\ (is_materialize e = true -> snd (step w e) = OMat _ ft fcs)
    end.
  Proof.
    intros w e Hw. destruct e as [p|k|p|r]; cbn [IO.step fst snd is_materialize]; auto.
    - destruct (materialize_inv_cf _ p Hw) as (Hi & Hr & Hc). split; auto. intros _.
      unfold mat_obs. rewrite Hr, Hc. reflexivity.
    - assert (Hn : inv_cf (MkW (fs w) (new_dataset tensor stats))).
      { destruct Hw as (Hf & _). split; cbn [fs cur]; auto. }
      destruct (materialize_inv_cf _ p Hn) as (Hi & Hr & Hc). split; auto. intros _.
      unfold mat_obs. rewrite Hr, Hc. reflexivity.
    - split; [|discriminate].
      destruct (ds_mat (cur w)); [destruct (ds_conv (cur w)) as [cs|]; [destruct (conv cs r)|]|]; exact Hw.
  Qed.

  Lemma run_crash_free : forall h w, inv_cf w -> crash_free h ->
    Forall2 (fun e o => is_materialize e = true -> o = OMat _ ft fcs) h (snd (run w h)).
  Proof.
    induction h as [|e h IH]; intros w Hw Hcf; cbn [IO.run fst snd]; [constructor|].
    inversion Hcf as [|? ? He Hcf']; subst.
    pose proof (step_inv_cf _ e Hw) as Hs. destruct e as [p|k|p|r]; try contradiction;
      destruct Hs as (Hi & Ho); (constructor; [exact Ho | apply IH; assumption]).
  Qed.

  (* a materialize(path) on a fresh object that does not raise restores the
     converter around exactly the fresh statistics *)
  Lemma restored_converter : forall w p, inv w ->
    let s := step w (NewDatasetMaterialize _ p) in
    snd s <> ORaise _ _ _ ->
    ds_conv (cur (fst s)) = Some fcs /\
    forall r, snd (step (fst s) (Convert r)) = conv_obs tensor conv fcs r.
  Proof.
    intros w p Hw. cbv zeta.
    assert (Hn : inv (MkW (fs w) (new_dataset tensor stats))).
    { destruct Hw as (Hf & _). split; cbn [fs cur]; auto. }
    destruct (materialize_inv None _ p Hn) as (_ & Hm).
    cbn [IO.step fst snd].
    set (m := materialize None (MkW (fs w) (new_dataset tensor stats)) p) in *.
    intros Hnr. unfold mat_obs in Hnr.
    destruct (snd m) eqn:Er; [congruence|].
    rewrite (Hm eq_refl). cbn [mat_ds ds_conv ds_mat]. split; [reflexivity|].
    intros r. unfold conv_obs. destruct (conv fcs r); reflexivity.
  Qed.

  (* the converter of a dataset materialized without any cache *)
  Lemma original_converter :
    ds_conv (cur (fst (step (init tensor stats byte) (Materialize _ false)))) = Some fcs.
  Proof. reflexivity. Qed.

  Lemma materialize_writes_file : forall w, inv w -> fs w = None ->
    fs (fst (step w (Materialize _ true))) = Some B /\
    fs (fst (step w (NewDatasetMaterialize _ true))) = Some B /\
    load B = Some (ft, fcs).
  Proof.
    intros [f c] (_ & Hc) Hf. cbn [fs cur] in *. subst f.
    cbn [IO.step fst snd]. unfold IO.materialize, isfile. cbn [fs cur new_dataset ds_mat andb negb fst snd].
    split; [|split; [rewrite H_B; reflexivity|exact load_B]].
    destruct Hc as [-> | ->]; cbn [ds_mat new_dataset mat_ds ds_tf ds_stats andb negb]; rewrite H_B; reflexivity.
  Qed.

  Lemma crash_then_materialize : forall k p,
    snd (run (init tensor stats byte) [CrashDuringSave _ k; NewDatasetMaterialize _ p]) =
      [OCrash _ _ _;
       if p then (if k <? List.length B then ORaise _ _ _ else OMat _ ft fcs) else OMat _ ft fcs].
  Proof.
    intros k p.
    assert (S1 : step (init tensor stats byte) (CrashDuringSave _ k) =
                 (MkW (Some (firstn k B)) (new_dataset tensor stats), OCrash _ _ _)).
    { unfold init. cbn [IO.step]. unfold IO.materialize, isfile.
      cbn [fs cur new_dataset ds_mat andb negb fst snd]. rewrite H_B. reflexivity. }
    cbn [IO.run]. rewrite S1. cbn [fst snd]. f_equal. f_equal.
    cbn [IO.step fst snd]. unfold IO.materialize, isfile.
    cbn [fs cur new_dataset ds_mat andb negb fst snd].
    destruct p; cbn [andb].
    - destruct (load_prefix k) as [(Hk & ->) | (Hk & ->)].
      + apply Nat.ltb_lt in Hk. rewrite Hk. reflexivity.
      + apply Nat.ltb_ge in Hk. rewrite Hk. reflexivity.
    - reflexivity.
  Qed.
End IOProofs.

(* ------------------------------------------------------------------ *)
(* Soundness of load: whatever it returns -- from ANY byte string, written by
   save or not -- went through the keyword constructors' validate() and
   TensorFrame.validate(), hence is a well-formed frame. *)
Section LoadSound.
  Variable tensor : Type.
  Variable tdim : tensor -> nat.
  Variable tsize : tensor -> nat -> nat.
  Variable valid_nested valid_embed : nat -> nat -> tensor -> tensor -> bool.
  Variable stats : Type.
  Variable byte : Type.
  Variable enc : payload tensor stats -> list byte.
  Variable dec : list byte -> option (payload tensor stats).

  Lemma multi_kwargs_ok : forall valid (s : ser tensor) m,
    multi_kwargs valid s = Some m -> multi_ok valid m.
  Proof.
    intros valid s m H. destruct s as [n|t|d]; cbn in H; try discriminate.
    destruct (lookup String.eqb "num_rows"%string d) as [[r| |]|]; try discriminate.
    destruct (lookup String.eqb "num_cols"%string d) as [[c| |]|]; try discriminate.
    destruct (lookup String.eqb "values"%string d) as [[|v|]|]; try discriminate.
    destruct (lookup String.eqb "offset"%string d) as [[|o|]|]; try discriminate.
    destruct ((List.length d =? 4) && valid r c v o) eqn:E; [|discriminate].
    injection H as <-. apply andb_true_iff in E. exact (proj2 E).
  Qed.

  Lemma mapM_dict_ok : forall (d : list (string * ser tensor)) l,
    mapM (fun p : string * ser tensor => m <- multi_kwargs valid_nested (snd p) ;; Some (fst p, m)) d = Some l ->
    Forall (fun p => multi_ok valid_nested (snd p)) l.
  Proof.
    induction d as [|[k s] d IH]; intros l H; cbn [mapM fst snd] in H.
    - injection H as <-. constructor.
    - destruct (multi_kwargs valid_nested s) as [m|] eqn:Em; cbn [obind] in H; [|discriminate].
      destruct (mapM _ d) as [r|] eqn:Er; [|discriminate]. injection H as <-.
      constructor; [exact (multi_kwargs_ok _ _ _ Em)|exact (IH _ eq_refl)].
  Qed.

  Lemma deserialize_feat_wf : forall st (s : ser tensor) f,
    deserialize_feat valid_nested valid_embed st s = Some f -> feat_wf valid_nested valid_embed st f.
  Proof.
    intros st s f H. unfold deserialize_feat in H.
    destruct (use_multi_nested st) eqn:En.
    - destruct (multi_kwargs valid_nested s) as [m|] eqn:Em; cbn in H; [|discriminate]. injection H as <-.
      cbn. split; [exact En|exact (multi_kwargs_ok _ _ _ Em)].
    - destruct (use_multi_embedding st) eqn:Ee.
      + destruct (multi_kwargs valid_embed s) as [m|] eqn:Em; cbn in H; [|discriminate]. injection H as <-.
        cbn. split; [exact Ee|exact (multi_kwargs_ok _ _ _ Em)].
      + destruct (use_dict_nested st) eqn:Ed.
        * destruct s as [n|t|d]; try discriminate.
          destruct (mapM _ d) as [l|] eqn:El; cbn in H; [|discriminate]. injection H as <-.
          cbn. split; [exact Ed|exact (mapM_dict_ok _ _ El)].
        * destruct s as [n|t|d]; try discriminate. injection H as <-. cbn. auto.
  Qed.

  Lemma deserialize_feat_dict_wf : forall (sd : list (stype * ser tensor)) fd,
    deserialize_feat_dict valid_nested valid_embed sd = Some fd -> feat_dict_wf valid_nested valid_embed fd.
  Proof.
    unfold deserialize_feat_dict, feat_dict_wf.
    induction sd as [|[st s] sd IH]; intros fd H; cbn [mapM fst snd] in H.
    - injection H as <-. constructor.
    - destruct (deserialize_feat valid_nested valid_embed st s) as [f|] eqn:Ef; cbn [obind] in H; [|discriminate].
      destruct (mapM _ sd) as [r|] eqn:Er; [|discriminate]. injection H as <-.
      constructor; [exact (deserialize_feat_wf _ _ _ Ef)|exact (IH _ eq_refl)].
  Qed.

  Lemma load_sound : forall b (t : tframe tensor) (cs : stats),
    IO.load tdim tsize valid_nested valid_embed dec b = Some (t, cs) ->
    tframe_wf tdim tsize valid_nested valid_embed t.
  Proof.
    intros b t cs H. unfold IO.load in H.
    destruct (dec b) as [p|]; cbn [obind] in H; [|discriminate].
    destruct (deserialize_feat_dict valid_nested valid_embed (d_ser (fst p))) as [fd|] eqn:Ed; cbn [obind] in H; [|discriminate].
    unfold mk_tframe in H.
    destruct (tf_validate tdim tsize (MkTF fd (d_names (fst p)) (d_y (fst p)) (d_num_rows (fst p)))) eqn:Ev;
      cbn [obind] in H; [|discriminate].
    injection H as <- _. split; [exact (deserialize_feat_dict_wf _ _ Ed)|exact Ev].
  Qed.

  Hypothesis H_dec_enc : forall x, dec (enc x) = Some x.

  (* ... and therefore saving it again and loading that gives it back *)
  Lemma loaded_frame_roundtrips : forall b (t : tframe tensor) (cs : stats),
    IO.load tdim tsize valid_nested valid_embed dec b = Some (t, cs) ->
    exists b', IO.save enc t cs = Some b' /\
               IO.load tdim tsize valid_nested valid_embed dec b' = Some (t, cs).
  Proof.
    intros b t cs H.
    exact (save_load_roundtrip tensor tdim tsize valid_nested valid_embed stats byte enc dec H_dec_enc t cs (load_sound _ _ _ H)).
  Qed.
End LoadSound.
