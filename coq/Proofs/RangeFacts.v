(* `list(range(a, b, s))` in plain terms.  `py_range` (Lib/PySlice.v) uses the closed-form element counts
   (b - a + s - 1) / s and (a - b - s - 1) / (- s); this file proves, over all of Z, that it lists exactly the
   integers between a (included) and b (excluded) that differ from a by a multiple of s, and that s = 0 raises. *)
From Coq Require Import List Arith Bool Lia ZArith.
From PF Require Import Lib.ListX Lib.PySlice.
Import ListNotations.
Local Open Scope Z_scope.

Lemma zcount_spec : forall a b s k, 0 < s -> 0 <= k ->
  (k < (if a <? b then (b - a + s - 1) / s else 0) <-> a + k * s < b).
Proof.
  intros a b s k Hs Hk. destruct (a <? b) eqn:E.
  - apply Z.ltb_lt in E.
    pose proof (Z.div_mod (b - a + s - 1) s ltac:(lia)) as Hdm.
    pose proof (Z.mod_pos_bound (b - a + s - 1) s Hs) as Hmod.
    set (q := (b - a + s - 1) / s) in *. set (r := (b - a + s - 1) mod s) in *.
    split; intro H.
    + assert (Hk1 : (k + 1) * s <= q * s) by (apply Z.mul_le_mono_nonneg_r; lia). lia.
    + destruct (Z.lt_ge_cases k q) as [Hlt|Hge]; [exact Hlt|exfalso].
      assert (Hk1 : q * s <= k * s) by (apply Z.mul_le_mono_nonneg_r; lia). lia.
  - apply Z.ltb_ge in E. split; intro H; [lia|]. exfalso.
    assert (0 <= k * s) by (apply Z.mul_nonneg_nonneg; lia). lia.
Qed.

Lemma in_affine_seq : forall a s c x,
  In x (map (fun k => a + Z.of_nat k * s) (seq 0 c)) <-> exists k, 0 <= k < Z.of_nat c /\ x = a + k * s.
Proof.
  intros a s c x. rewrite in_map_iff. split.
  - intros [k [Hx Hin]]. apply in_seq in Hin. exists (Z.of_nat k). split; [lia|congruence].
  - intros [k [Hk Hx]]. exists (Z.to_nat k). split; [rewrite Z2Nat.id by lia; congruence|].
    apply in_seq. lia.
Qed.

Lemma py_range_up_In : forall a b s l x, 0 < s -> py_range a b s = Some l ->
  (In x l <-> (a <= x < b /\ (x - a) mod s = 0)).
Proof.
  intros a b s l x Hs H. unfold py_range in H.
  destruct (s =? 0) eqn:E0; [apply Z.eqb_eq in E0; lia|].
  rewrite (proj2 (Z.ltb_lt 0 s) Hs) in H. injection H as <-.
  rewrite in_affine_seq. split.
  - intros [k [[Hk0 Hk] ->]].
    assert (Hc : k < (if a <? b then (b - a + s - 1) / s else 0)).
    { set (c := if a <? b then (b - a + s - 1) / s else 0) in *. clearbody c. lia. }
    apply (zcount_spec a b s k Hs Hk0) in Hc.
    assert (0 <= k * s) by (apply Z.mul_nonneg_nonneg; lia).
    split; [lia|]. replace (a + k * s - a) with (k * s) by lia. apply Z.mod_mul. lia.
  - intros [[Hlo Hhi] Hmod].
    pose proof (Z.div_mod (x - a) s ltac:(lia)) as Hdm. rewrite Hmod in Hdm.
    assert (Hq : 0 <= (x - a) / s) by (apply Z.div_pos; lia).
    exists ((x - a) / s). split; [|lia].
    assert (Hc : (x - a) / s < (if a <? b then (b - a + s - 1) / s else 0))
      by (apply (zcount_spec a b s _ Hs Hq); lia).
    split; [exact Hq|]. rewrite Z2Nat.id; lia.
Qed.

(* the descending case is the ascending one mirrored at a *)
Lemma py_range_down_mirror : forall a b s, s < 0 ->
  py_range a b s = option_map (map (fun y => (a + a) - y)) (py_range a ((a + a) - b) (- s)).
Proof.
  intros a b s Hs. unfold py_range.
  destruct (s =? 0) eqn:E0; [apply Z.eqb_eq in E0; lia|].
  destruct (- s =? 0) eqn:E1; [apply Z.eqb_eq in E1; lia|].
  rewrite (proj2 (Z.ltb_ge 0 s)) by lia. rewrite (proj2 (Z.ltb_lt 0 (- s))) by lia.
  unfold option_map. f_equal. rewrite map_map.
  replace (a <? (a + a) - b) with (b <? a) by (destruct (Z.ltb_spec b a), (Z.ltb_spec a ((a + a) - b)); lia).
  replace ((a + a) - b - a + - s - 1) with (a - b + - s - 1) by lia.
  apply map_ext. intro k. lia.
Qed.

Lemma py_range_down_In : forall a b s l x, s < 0 -> py_range a b s = Some l ->
  (In x l <-> (b < x <= a /\ (a - x) mod (- s) = 0)).
Proof.
  intros a b s l x Hs H. rewrite (py_range_down_mirror a b s Hs) in H.
  destruct (py_range a ((a + a) - b) (- s)) as [l0|] eqn:E; [|discriminate H].
  unfold option_map in H. injection H as <-. rewrite in_map_iff. split.
  - intros [y [Hy Hin]]. apply (py_range_up_In a ((a + a) - b) (- s) l0 y ltac:(lia) E) in Hin.
    destruct Hin as [Hr Hm]. subst x. split; [lia|]. replace (a - ((a + a) - y)) with (y - a) by ring. exact Hm.
  - intros [Hr Hm]. exists ((a + a) - x). split; [lia|].
    apply (py_range_up_In a ((a + a) - b) (- s) l0 ((a + a) - x) ltac:(lia) E).
    split; [lia|]. replace ((a + a) - x - a) with (a - x) by lia. exact Hm.
Qed.

Lemma py_range_zero_step : forall a b, py_range a b 0 = None.
Proof. reflexivity. Qed.

Lemma py_range_total : forall a b s, s <> 0 -> exists l, py_range a b s = Some l.
Proof.
  intros a b s Hs. unfold py_range. rewrite (proj2 (Z.eqb_neq s 0) Hs).
  destruct (0 <? s); eexists; reflexivity.
Qed.

Lemma py_range_plain : forall a b s,
  (s = 0 -> py_range a b s = None) /\
  (s <> 0 -> exists l, py_range a b s = Some l /\
     forall x, In x l <-> (if 0 <? s then a <= x < b /\ (x - a) mod s = 0
                           else b < x <= a /\ (a - x) mod (- s) = 0)).
Proof.
  intros a b s. split; [intros ->; reflexivity|]. intro Hs.
  destruct (py_range_total a b s Hs) as [l Hl]. exists l. split; [exact Hl|]. intro x.
  destruct (0 <? s) eqn:E.
  - apply Z.ltb_lt in E. exact (py_range_up_In a b s l x E Hl).
  - apply Z.ltb_ge in E. apply (py_range_down_In a b s l x); [lia|exact Hl].
Qed.
