(* Lemmas about Model/CatToNum.v (C17). *)
From Coq Require Import String Ascii DecimalString DecimalNat DecimalFacts.
From Coq Require Import List ZArith QArith Bool Arith Lia FinFun.
From PF Require Import Lib.ListX Model.CatToNum.
Import ListNotations.
Open Scope Q_scope.

(* ------------------------------------------------------------------ generic list facts *)
Lemma mapM_ext_some {A B} (f : A -> option B) (g : A -> B) l :
  (forall a, In a l -> f a = Some (g a)) -> mapM f l = Some (map g l).
Proof.
  induction l as [|a l IH]; simpl; intros H; [reflexivity|].
  rewrite (H a) by (left; reflexivity). rewrite IH by (intros; apply H; right; assumption). reflexivity.
Qed.

Lemma mapM_app {A B} (f : A -> option B) l1 l2 :
  mapM f (l1 ++ l2) = match mapM f l1, mapM f l2 with Some a, Some b => Some (a ++ b) | _, _ => None end.
Proof.
  induction l1 as [|a l1 IH]; simpl.
  - destruct (mapM f l2); reflexivity.
  - destruct (f a); [|reflexivity]. rewrite IH.
    destruct (mapM f l1); [|reflexivity]. destruct (mapM f l2); reflexivity.
Qed.

Lemma mapM_length {A B} (f : A -> option B) l r : mapM f l = Some r -> length r = length l.
Proof.
  revert r; induction l as [|a l IH]; simpl; intros r H.
  - inversion H; reflexivity.
  - destruct (f a); [|discriminate]. destruct (mapM f l); [|discriminate].
    inversion H; subst; simpl. f_equal. apply IH. reflexivity.
Qed.

Lemma mapM_forall2 {A B} (f : A -> option B) l r :
  mapM f l = Some r -> Forall2 (fun a b => f a = Some b) l r.
Proof.
  revert r; induction l as [|a l IH]; simpl; intros r H.
  - inversion H; constructor.
  - destruct (f a) eqn:E; [|discriminate]. destruct (mapM f l); [|discriminate].
    inversion H; subst. constructor; auto.
Qed.

Lemma tgather_map {A B} (f : A -> B) (l : list A) idx :
  tgather (map f l) idx = option_map (map f) (tgather l idx).
Proof.
  unfold tgather, tget. induction idx as [|i idx IH]; simpl; [reflexivity|].
  rewrite nth_error_map. destruct (nth_error l i); simpl; [|reflexivity].
  rewrite IH. destruct (mapM (fun i0 => nth_error l i0) idx); reflexivity.
Qed.

Lemma tgather_length {A} (l : list A) idx r : tgather l idx = Some r -> length r = length idx.
Proof. unfold tgather. apply mapM_length. Qed.

(* ------------------------------------------------------------------ generated names *)
Open Scope string_scope.

Fixpoint has_us (s : string) : bool :=
  match s with
  | EmptyString => false
  | String c r => Ascii.eqb c "_" || has_us r
  end.

Lemma has_us_app a b : has_us (a ++ b) = has_us a || has_us b.
Proof. induction a as [|c a IH]; simpl; [reflexivity|]. rewrite IH. apply orb_assoc. Qed.

Lemma digits_no_us d : has_us (NilEmpty.string_of_uint d) = false.
Proof. induction d; simpl; auto. Qed.

Lemma split_unique c1 c2 s1 s2 :
  has_us s1 = false -> has_us s2 = false ->
  c1 ++ "_" ++ s1 = c2 ++ "_" ++ s2 -> c1 = c2 /\ s1 = s2.
Proof.
  intros H1 H2. revert c2; induction c1 as [|a c1 IH]; intros [|b c2]; simpl; intros E.
  - inversion E. auto.
  - inversion E; subst. exfalso. rewrite has_us_app in H1. simpl in H1.
    rewrite orb_true_r in H1. discriminate.
  - inversion E; subst. exfalso. rewrite has_us_app in H2. simpl in H2.
    rewrite orb_true_r in H2. discriminate.
  - inversion E; subst. destruct (IH c2 H3) as [-> ->]. auto.
Qed.

Lemma string_of_uint_inj d1 d2 : NilEmpty.string_of_uint d1 = NilEmpty.string_of_uint d2 -> d1 = d2.
Proof.
  intros E. pose proof (NilEmpty.usu d1) as U1. pose proof (NilEmpty.usu d2) as U2.
  rewrite E in U1. congruence.
Qed.

Lemma gen_name_inj c1 k1 c2 k2 : gen_name c1 k1 = gen_name c2 k2 -> c1 = c2 /\ k1 = k2.
Proof.
  unfold gen_name. intros E. apply split_unique in E; try apply digits_no_us.
  destruct E as [-> E]. split; [reflexivity|]. apply string_of_uint_inj in E.
  apply Unsigned.to_uint_inj. exact E.
Qed.
Close Scope string_scope.

Lemma NoDup_flat_map {A B} (g : A -> list B) l :
  NoDup l -> (forall a, In a l -> NoDup (g a)) ->
  (forall a b x, In a l -> In b l -> In x (g a) -> In x (g b) -> a = b) ->
  NoDup (flat_map g l).
Proof.
  induction l as [|a l IH]; simpl; intros Hl Hg Hd; [constructor|].
  inversion Hl; subst.
  assert (Hrest : NoDup (flat_map g l)).
  { apply IH; auto. intros; eapply Hd; eauto. }
  assert (Ha : NoDup (g a)) by (apply Hg; left; reflexivity).
  clear IH. revert Ha. generalize (fun x (Hx : In x (g a)) => Hx). generalize (g a) at 1 3 4.
  intros ga. induction ga as [|x ga IHg]; intros Hsub Hnd; simpl; [exact Hrest|].
  inversion Hnd; subst. constructor.
  - intros Hin. apply in_app_or in Hin. destruct Hin as [Hin|Hin]; [contradiction|].
    apply in_flat_map in Hin. destruct Hin as [b [Hb Hxb]].
    assert (a = b) by (eapply Hd; [left; reflexivity|right; exact Hb|apply Hsub; left; reflexivity|exact Hxb]).
    subst. contradiction.
  - apply IHg; auto. intros; apply Hsub; right; assumption.
Qed.

Lemma gen_names_NoDup cols w : NoDup cols -> NoDup (gen_names cols w).
Proof.
  intros H. unfold gen_names. apply NoDup_flat_map; auto.
  - intros c _. apply FinFun.Injective_map_NoDup; [|apply seq_NoDup].
    intros k1 k2 E. apply gen_name_inj in E. tauto.
  - intros a b x _ _ Ha Hb. apply in_map_iff in Ha. apply in_map_iff in Hb.
    destruct Ha as [k1 [<- _]]. destruct Hb as [k2 [E _]]. apply gen_name_inj in E. destruct E; congruence.
Qed.

Lemma gen_names_length cols w : length (gen_names cols w) = (length cols * w)%nat.
Proof.
  unfold gen_names. induction cols as [|c cols IH]; simpl; [reflexivity|].
  rewrite app_length, map_length, seq_length, IH. reflexivity.
Qed.

(* a dict filled with pairwise distinct keys lists them in insertion order *)
Lemma filter_all {A} (p : A -> bool) l : (forall x, In x l -> p x = true) -> filter p l = l.
Proof.
  induction l as [|a l IH]; simpl; intros H; [reflexivity|].
  rewrite (H a) by (left; reflexivity). f_equal. apply IH. intros; apply H; right; assumption.
Qed.

Lemma dict_keys_NoDup l : NoDup l -> dict_keys l = l.
Proof.
  induction l as [|x l IH]; simpl; intros H; [reflexivity|].
  inversion H; subst. rewrite IH by assumption. f_equal. apply filter_all.
  intros y Hy. destruct (String.eqb x y) eqn:E; [|reflexivity].
  apply String.eqb_eq in E. subst. contradiction.
Qed.

Lemma nodupb_NoDup l : nodupb l = true <-> NoDup l.
Proof.
  induction l as [|x l IH]; simpl.
  - split; [constructor|reflexivity].
  - rewrite andb_true_iff, negb_true_iff, IH. split.
    + intros [H1 H2]. constructor; [|assumption]. intros Hin.
      assert (existsb (String.eqb x) l = true); [|congruence].
      apply existsb_exists. exists x. split; [assumption|apply String.eqb_refl].
    + intros H. inversion H; subst. split; [|assumption].
      apply not_true_is_false. intros E. apply existsb_exists in E. destruct E as [y [Hy Exy]].
      apply String.eqb_eq in Exy. subst. contradiction.
Qed.

(* ------------------------------------------------------------------ _replace_nans, per-column encoding *)
Definition clip (c : Z) : Z := if (c <? 0)%Z then 0%Z else c.

Lemma replace_nans_col_some col :
  has_nonmissing col -> replace_nans_col col = Some (map clip col).
Proof.
  intros (c & Hin & Hc). unfold replace_nans_col.
  assert (forallb (fun c0 => (c0 <? 0)%Z) col = false) as ->; [|reflexivity].
  apply not_true_is_false. intros H. rewrite forallb_forall in H. apply H in Hin.
  apply Z.ltb_lt in Hin. lia.
Qed.

Lemma replace_nans_some cols :
  Forall has_nonmissing cols -> replace_nans cols = Some (map (map clip) cols).
Proof.
  intros H. unfold replace_nans. apply mapM_ext_some. intros col Hin.
  apply replace_nans_col_some. rewrite Forall_forall in H. auto.
Qed.

Lemma imputed_clip c : Z.to_nat (clip c) = imputed c.
Proof. unfold clip, imputed. destruct (c <? 0)%Z; reflexivity. Qed.

Lemma cell_value_clip count size pk c : cell_value count size pk (clip c) = estimate count size pk c.
Proof. unfold cell_value, estimate. rewrite imputed_clip. reflexivity. Qed.

Lemma encode_col_spec cs size prior name col count :
  assoc name cs = Some count -> all_seen count col ->
  encode_col cs size prior name (map clip col) = Some (estimate_cols count size prior col).
Proof.
  intros Ha Hs. unfold encode_col, obind. rewrite Ha.
  assert (existsb (fun c => (Z.of_nat (length count) <=? c)%Z) (map clip col) = false) as ->.
  { apply not_true_is_false. intros H. apply existsb_exists in H. destruct H as [c' [Hin Hc]].
    apply in_map_iff in Hin. destruct Hin as [c [<- Hin]]. unfold all_seen in Hs. rewrite Forall_forall in Hs.
    apply Hs in Hin. rewrite <- imputed_clip in Hin. apply Z.leb_le in Hc.
    assert (0 <= clip c)%Z by (unfold clip; destruct (c <? 0)%Z eqn:E; [lia|apply Z.ltb_ge in E; lia]). lia. }
  unfold estimate_cols. f_equal. apply map_ext. intros pk. rewrite map_map. apply map_ext. intros c.
  rewrite cell_value_clip. reflexivity.
Qed.

Lemma encode_cols_spec cs size prior names counts cols :
  Forall2 (fun name count => assoc name cs = Some count) names counts ->
  Forall2 all_seen counts cols ->
  encode_cols cs size prior names (map (map clip) cols) = Some (spec_cols counts size prior cols).
Proof.
  intros H. revert cols. induction H as [|name count names counts Ha H IH]; intros cols Hs.
  - inversion Hs; subst. reflexivity.
  - inversion Hs as [|? col ? cols' Hs1 Hs2]; subst. simpl. unfold obind.
    rewrite (encode_col_spec _ _ _ _ _ _ Ha Hs1). rewrite (IH _ Hs2). reflexivity.
Qed.

(* an unseen category index in any column makes the per-column loop raise *)
Lemma encode_cols_unseen cs size prior names cols i name col c count :
  nth_error names i = Some name -> nth_error cols i = Some col -> In c col ->
  assoc name cs = Some count -> (Z.of_nat (length count) <= c)%Z ->
  encode_cols cs size prior names cols = None.
Proof.
  revert cols i. induction names as [|n names IH]; intros cols i Hn Hc Hin Ha Hbad.
  - destruct i; discriminate.
  - destruct cols as [|c0 cols]; [reflexivity|]. destruct i as [|i]; simpl in *.
    + inversion Hn; inversion Hc; subst. unfold obind, encode_col, obind. rewrite Ha.
      assert (existsb (fun c1 => (Z.of_nat (length count) <=? c1)%Z) col = true) as ->; [|reflexivity].
      apply existsb_exists. exists c. split; [assumption|]. apply Z.leb_le. assumption.
    + unfold obind. destruct (encode_col cs size prior n c0); [|reflexivity].
      rewrite (IH cols i Hn Hc Hin Ha Hbad). reflexivity.
Qed.

(* ------------------------------------------------------------------ the prior *)
Lemma target_prior_length y k prior : target_prior y = Some (k, prior) -> length prior = (k - 1)%nat /\ (2 <= k)%nat.
Proof.
  destruct y as [ys|ys]; simpl.
  - destruct (flat_map _ ys); [discriminate|]. intros H; inversion H; subst. simpl. lia.
  - unfold obind. destruct (zmax ys) as [m|]; [|discriminate].
    destruct (1 <? m)%Z eqn:E.
    + destruct (existsb _ ys); [discriminate|]. intros H; inversion H; subst.
      rewrite map_length, seq_length. apply Z.ltb_lt in E. lia.
    + intros H; inversion H; subst. simpl. lia.
Qed.

(* ------------------------------------------------------------------ fit *)
Lemma fit_inv t train cs t' cb :
  fit t train cs = Some t' -> tf_cat train = Some cb ->
  exists y k prior,
    tf_y train = Some y /\ target_prior y = Some (k, prior) /\
    NoDup (num_names train ++ gen_names (b_names cb) (k - 1)) /\
    t' = mktransform true
           (Some (mkfitted cs (block_rows cb) k prior (gen_names (b_names cb) (k - 1))))
           (Some (dict_keys (num_names train ++ gen_names (b_names cb) (k - 1)))).
Proof.
  unfold fit. intros H Hc. rewrite Hc in H. destruct (tf_y train) as [y|]; [|discriminate].
  unfold obind in H. destruct (replace_nans (b_cols cb)); [|discriminate].
  destruct (target_prior y) as [[k prior]|] eqn:Hp; [|discriminate].
  destruct (encode_cols _ _ _ _ _); [|discriminate].
  fold (num_names train) in H.
  destruct (nodupb (num_names train ++ gen_names (b_names cb) (k - 1))) eqn:Hnd; [|discriminate]. simpl in H.
  destruct (mapM _ _); [|discriminate]. inversion H; subst.
  exists y, k, prior. split; [reflexivity|]. split; [exact Hp|]. split; [apply nodupb_NoDup; exact Hnd|reflexivity].
Qed.

(* a clash among the output column names makes fit raise *)
Lemma fit_name_clash t train cs cb y k prior :
  tf_cat train = Some cb -> tf_y train = Some y -> target_prior y = Some (k, prior) ->
  ~ NoDup (num_names train ++ gen_names (b_names cb) (k - 1)) ->
  fit t train cs = None.
Proof.
  intros Hc Hy Hp Hnd. unfold fit. rewrite Hy, Hc. unfold obind.
  destruct (replace_nans (b_cols cb)); [|reflexivity]. rewrite Hp.
  destruct (encode_cols _ _ _ _ _); [|reflexivity].
  fold (num_names train).
  destruct (nodupb (num_names train ++ gen_names (b_names cb) (k - 1))) eqn:E; [|reflexivity].
  apply nodupb_NoDup in E. contradiction.
Qed.

(* ------------------------------------------------------------------ validate *)
Lemma block_ok_inv {A} n (b : block A) :
  block_ok n (Some b) = true ->
  length (b_names b) = length (b_cols b) /\ length (b_names b) <> 0%nat /\ Forall (fun c => length c = n) (b_cols b).
Proof.
  simpl. intros H. apply andb_true_iff in H. destruct H as [H H3]. apply andb_true_iff in H. destruct H as [H1 H2].
  apply Nat.eqb_eq in H1. apply negb_true_iff in H2. apply Nat.eqb_neq in H2.
  repeat split; auto. apply Forall_forall. intros c Hc. rewrite forallb_forall in H3. apply Nat.eqb_eq. auto.
Qed.

Lemma block_ok_intro {A} n (b : block A) :
  length (b_names b) = length (b_cols b) -> length (b_names b) <> 0%nat -> Forall (fun c => length c = n) (b_cols b) ->
  block_ok n (Some b) = true.
Proof.
  intros H1 H2 H3. simpl. apply andb_true_iff. split; [apply andb_true_iff; split|].
  - apply Nat.eqb_eq. exact H1.
  - apply negb_true_iff. apply Nat.eqb_neq. exact H2.
  - apply forallb_forall. intros c Hc. apply Nat.eqb_eq. rewrite Forall_forall in H3. auto.
Qed.

Lemma validate_inv tf tf' :
  validate tf = Some tf' ->
  tf' = tf /\ block_ok (num_rows tf) (tf_num tf) = true /\ block_ok (num_rows tf) (tf_cat tf) = true /\
  y_ok (num_rows tf) (tf_y tf) = true.
Proof.
  unfold validate. destruct (block_ok _ (tf_num tf) && block_ok _ (tf_cat tf) && y_ok _ _) eqn:E; [|discriminate].
  intros H; inversion H; subst. apply andb_true_iff in E. destruct E as [E E3]. apply andb_true_iff in E.
  destruct E as [E1 E2]. split; [reflexivity|]. split; [exact E1|]. split; [exact E2|exact E3].
Qed.

Lemma spec_cols_length counts nt prior cols :
  length counts = length cols -> length (spec_cols counts nt prior cols) = (length cols * length prior)%nat.
Proof.
  unfold spec_cols. revert cols; induction counts as [|c counts IH]; intros [|col cols]; simpl; try discriminate; auto.
  intros H. rewrite app_length, IH by lia. unfold estimate_cols. rewrite map_length. reflexivity.
Qed.

Lemma spec_cols_rows counts nt prior cols n :
  Forall (fun c => length c = n) cols -> Forall (fun g => length g = n) (spec_cols counts nt prior cols).
Proof.
  unfold spec_cols. intros H. revert counts; induction H as [|col cols Hc H IH]; intros [|c counts]; simpl;
    try constructor.
  apply Forall_app. split; [|apply IH]. unfold estimate_cols. apply Forall_forall. intros g Hg.
  apply in_map_iff in Hg. destruct Hg as [pk [<- _]]. rewrite map_length. exact Hc.
Qed.

Lemma validate_transform_spec counts nt k prior tf cb :
  validate tf = Some tf -> tf_cat tf = Some cb -> length counts = length (b_cols cb) ->
  length prior = (k - 1)%nat -> (2 <= k)%nat ->
  validate (transform_spec counts nt k prior tf) = Some (transform_spec counts nt k prior tf).
Proof.
  intros Hv Hc Hl Hp Hk. apply validate_inv in Hv. destruct Hv as (_ & Hn & Hcat & Hy).
  rewrite Hc in Hcat. apply block_ok_inv in Hcat. destruct Hcat as (C1 & C2 & C3).
  set (n := num_rows tf) in *.
  unfold transform_spec. rewrite Hc.
  assert (Hspec : exists g rest, spec_cols counts nt prior (b_cols cb) = g :: rest /\ length g = n).
  { destruct (b_cols cb) as [|col cols] eqn:Ecols; [simpl in C1; lia|].
    destruct counts as [|count counts]; [discriminate|]. destruct prior as [|p0 prior]; [simpl in Hp; lia|].
    unfold spec_cols. simpl. eexists. eexists. split; [reflexivity|]. rewrite map_length.
    inversion C3; subst. assumption. }
  assert (Hrows : num_rows (mkframe (Some (mkblock (num_names tf ++ gen_names (b_names cb) (k - 1))
                                                   (num_cols tf ++ spec_cols counts nt prior (b_cols cb))))
                                    None (tf_y tf)) = n).
  { unfold num_rows at 1. simpl. unfold block_rows. simpl. unfold num_cols.
    destruct (tf_num tf) as [nb|] eqn:En.
    - apply block_ok_inv in Hn. destruct Hn as (N1 & N2 & N3).
      destruct (b_cols nb) as [|c0 cols0] eqn:Ec0; [simpl in N1; lia|].
      simpl. subst n. unfold num_rows. rewrite En. unfold block_rows. rewrite Ec0. reflexivity.
    - destruct Hspec as (g & rest & -> & Hg). simpl. exact Hg. }
  unfold validate. rewrite Hrows. simpl tf_num. simpl tf_cat. simpl tf_y.
  assert (block_ok n (Some (mkblock (num_names tf ++ gen_names (b_names cb) (k - 1))
                                    (num_cols tf ++ spec_cols counts nt prior (b_cols cb)))) = true) as ->.
  { apply block_ok_intro; simpl.
    - rewrite !app_length, gen_names_length, spec_cols_length by assumption. rewrite Hp, C1.
      unfold num_names, num_cols. destruct (tf_num tf) as [nb|]; [|reflexivity].
      apply block_ok_inv in Hn. destruct Hn as (N1 & _). lia.
    - rewrite app_length, gen_names_length. nia.
    - apply Forall_app. split; [|apply spec_cols_rows; exact C3].
      unfold num_cols. destruct (tf_num tf) as [nb|]; [|constructor].
      apply block_ok_inv in Hn. tauto. }
  simpl. fold n in Hy. rewrite Hy. reflexivity.
Qed.

(* ------------------------------------------------------------------ the transform in closed form *)
Lemma Forall2_length' {A B} (R : A -> B -> Prop) l1 l2 : Forall2 R l1 l2 -> length l1 = length l2.
Proof. induction 1; simpl; auto. Qed.

Lemma call_spec train cs t tf cbt y k prior cb counts :
  fit fresh train cs = Some t -> tf_cat train = Some cbt -> tf_y train = Some y ->
  target_prior y = Some (k, prior) ->
  validate tf = Some tf -> tf_cat tf = Some cb -> b_names cb = b_names cbt ->
  Forall2 (fun name count => assoc name cs = Some count) (b_names cb) counts ->
  Forall has_nonmissing (b_cols cb) -> Forall2 all_seen counts (b_cols cb) ->
  call t tf = Some (transform_spec counts (block_rows cbt) k prior tf).
Proof.
  intros Hfit Hct Hy Hp Hv Hc Hnames Hcounts Hnm Hseen.
  destruct (fit_inv _ _ _ _ _ Hfit Hct) as (y' & k' & prior' & Hy' & Hp' & Hnd' & ->).
  rewrite Hy in Hy'. inversion Hy'; subst y'. rewrite Hp in Hp'. inversion Hp'; subst k' prior'.
  destruct (target_prior_length _ _ _ Hp) as [Hlen Hk].
  unfold call, forward. simpl. unfold _forward. rewrite Hc. simpl. unfold obind.
  rewrite (replace_nans_some _ Hnm).
  rewrite (encode_cols_spec _ _ _ _ _ _ Hcounts Hseen).
  pose proof (validate_transform_spec counts (block_rows cbt) k prior tf cb Hv Hc
                (Forall2_length' _ _ _ Hseen) Hlen Hk) as V.
  unfold transform_spec in V |- *. rewrite Hc in V |- *. rewrite Hnames in *.
  unfold num_names, num_cols in V |- *. destruct (tf_num tf); simpl in *; exact V.
Qed.

(* ------------------------------------------------------------------ label independence *)
Lemma num_rows_set_y tf y : num_rows (set_y tf y) = num_rows tf.
Proof. reflexivity. Qed.

Lemma validate_set_y f y' :
  validate (set_y f y') =
  match validate (set_y f None) with
  | Some o => if y_ok (num_rows o) y' then Some (set_y o y') else None
  | None => None
  end.
Proof.
  destruct f as [n c y]. unfold validate, set_y, num_rows. cbn [tf_num tf_cat tf_y].
  match goal with |- context [block_ok ?r n] => set (rows := r) end.
  destruct (block_ok rows n); cbn [andb]; [|reflexivity].
  destruct (block_ok rows c); cbn [andb y_ok]; [|reflexivity].
  cbn [tf_num tf_cat tf_y]. fold rows. destruct (y_ok rows y'); reflexivity.
Qed.

Lemma call_label_independent t tf y' :
  call t (set_y tf y') =
  match call t (set_y tf None) with
  | Some o => if y_ok (num_rows o) y' then Some (set_y o y') else None
  | None => None
  end.
Proof.
  unfold call, forward. destruct (t_is_fitted t); cbn [negb]; [|reflexivity].
  unfold _forward, set_y. cbn [tf_num tf_cat tf_y]. destruct (tf_cat tf) as [cb|] eqn:Hc.
  - unfold obind. destruct (t_state t) as [st|]; [|reflexivity].
    destruct (replace_nans (b_cols cb)) as [tensor|]; [|reflexivity].
    destruct (encode_cols _ _ _ _ tensor) as [gen|]; [|reflexivity].
    match goal with |- validate (mkframe (Some ?nb) None y') = _ =>
      change (validate (set_y (mkframe (Some nb) None None) y') =
              match validate (set_y (mkframe (Some nb) None None) None) with
              | Some o => if y_ok (num_rows o) y' then Some (set_y o y') else None
              | None => None
              end)
    end.
    apply validate_set_y.
  - unfold obind.
    match goal with |- validate (mkframe ?a ?b y') = _ =>
      change (validate (set_y (mkframe a b None) y') =
              match validate (set_y (mkframe a b None) None) with
              | Some o => if y_ok (num_rows o) y' then Some (set_y o y') else None
              | None => None
              end)
    end.
    apply validate_set_y.
Qed.

(* ------------------------------------------------------------------ row locality *)
Lemma mapM_map {A B C} (g : B -> option C) (h : A -> B) l : mapM g (map h l) = mapM (fun a => g (h a)) l.
Proof. induction l as [|a l IH]; simpl; [reflexivity|]. rewrite IH. reflexivity. Qed.

Lemma estimate_cols_gather count nt prior col idx col' :
  tgather col idx = Some col' ->
  mapM (fun c => tgather c idx) (estimate_cols count nt prior col) = Some (estimate_cols count nt prior col').
Proof.
  intros H. unfold estimate_cols. rewrite mapM_map. apply mapM_ext_some. intros pk _.
  rewrite tgather_map, H. reflexivity.
Qed.

Lemma spec_cols_gather counts nt prior idx cols cols' :
  mapM (fun c => tgather c idx) cols = Some cols' ->
  mapM (fun c => tgather c idx) (spec_cols counts nt prior cols) = Some (spec_cols counts nt prior cols').
Proof.
  unfold spec_cols. revert cols cols'. induction counts as [|count counts IH]; intros cols cols' H.
  - reflexivity.
  - destruct cols as [|col cols]; simpl in H.
    + inversion H; subst. reflexivity.
    + destruct (tgather col idx) as [col1|] eqn:E1; [|discriminate].
      destruct (mapM (fun c => tgather c idx) cols) as [cols1|] eqn:E2; [|discriminate].
      inversion H; subst. simpl. rewrite mapM_app.
      rewrite (estimate_cols_gather _ _ _ _ _ _ E1). rewrite (IH _ _ E2). reflexivity.
Qed.

Lemma select_oblock_names {A} idx (ob ob' : option (block A)) :
  select_oblock idx ob = Some ob' ->
  match ob, ob' with
  | None, None => True
  | Some b, Some b' => b_names b' = b_names b /\ mapM (fun c => tgather c idx) (b_cols b) = Some (b_cols b')
  | _, _ => False
  end.
Proof.
  destruct ob as [b|]; simpl.
  - unfold select_block, obind. destruct (mapM _ (b_cols b)) as [cols|]; [|discriminate].
    intros H; inversion H; subst. simpl. auto.
  - intros H; inversion H; subst. exact I.
Qed.

Lemma transform_spec_select counts nt k prior idx tf tf' :
  select_rows idx tf = Some tf' ->
  select_rows idx (transform_spec counts nt k prior tf) = Some (transform_spec counts nt k prior tf').
Proof.
  intros H. pose proof H as H0. unfold select_rows, obind in H.
  destruct (select_oblock idx (tf_num tf)) as [n'|] eqn:En; [|discriminate].
  destruct (select_oblock idx (tf_cat tf)) as [c'|] eqn:Ec; [|discriminate].
  destruct (select_target idx (tf_y tf)) as [y'|] eqn:Ey; [|discriminate].
  inversion H; subst tf'. clear H.
  apply select_oblock_names in En. apply select_oblock_names in Ec.
  unfold transform_spec. simpl.
  destruct (tf_cat tf) as [cb|] eqn:Hcb; destruct c' as [cb'|]; try contradiction.
  - destruct Ec as [Ecn Ecc].
    unfold select_rows, obind. simpl. unfold select_block, obind. simpl.
    rewrite mapM_app. rewrite (spec_cols_gather _ _ _ _ _ _ Ecc).
    unfold num_names, num_cols. simpl.
    destruct (tf_num tf) as [nb|]; destruct n' as [nb'|]; try contradiction.
    + destruct En as [Enn Enc]. rewrite Enc. rewrite Ey. rewrite Enn, Ecn. reflexivity.
    + simpl. rewrite Ey. rewrite Ecn. reflexivity.
  - exact H0.
Qed.

Lemma tgather_subset {A} (l : list A) idx r : tgather l idx = Some r -> forall x, In x r -> In x l.
Proof.
  unfold tgather, tget. intros H x Hx. apply mapM_forall2 in H.
  induction H as [|i y idx r Hi H IH]; [contradiction|].
  destruct Hx as [<-|Hx]; [eapply nth_error_In; eauto|auto].
Qed.

Lemma all_seen_gather count col idx col' : tgather col idx = Some col' -> all_seen count col -> all_seen count col'.
Proof.
  unfold all_seen. intros H Hs. rewrite Forall_forall in *. intros c Hc. apply Hs. eapply tgather_subset; eauto.
Qed.

Lemma all_seen_gather_cols counts cols idx cols' :
  mapM (fun c => tgather c idx) cols = Some cols' -> Forall2 all_seen counts cols -> Forall2 all_seen counts cols'.
Proof.
  intros H Hs. revert cols' H. induction Hs as [|count col counts cols Hc Hs IH]; intros cols' H; simpl in H.
  - inversion H; constructor.
  - destruct (tgather col idx) as [col1|] eqn:E1; [|discriminate].
    destruct (mapM _ cols) as [cols1|] eqn:E2; [|discriminate]. inversion H; subst.
    constructor; [eapply all_seen_gather; eauto|apply IH; reflexivity].
Qed.

Lemma call_row_local train cs t tf cbt y k prior cb counts idx tf' cb' :
  fit fresh train cs = Some t -> tf_cat train = Some cbt -> tf_y train = Some y ->
  target_prior y = Some (k, prior) ->
  validate tf = Some tf -> tf_cat tf = Some cb -> b_names cb = b_names cbt ->
  Forall2 (fun name count => assoc name cs = Some count) (b_names cb) counts ->
  Forall has_nonmissing (b_cols cb) -> Forall2 all_seen counts (b_cols cb) ->
  select_rows idx tf = Some tf' -> validate tf' = Some tf' ->
  tf_cat tf' = Some cb' -> Forall has_nonmissing (b_cols cb') ->
  exists out, call t tf = Some out /\ call t tf' = select_rows idx out.
Proof.
  intros Hfit Hct Hy Hp Hv Hc Hnames Hcounts Hnm Hseen Hsel Hv' Hc' Hnm'.
  eexists. split; [eapply call_spec; eauto|].
  rewrite (transform_spec_select _ _ _ _ _ _ _ Hsel).
  assert (Hb : b_names cb' = b_names cb /\ mapM (fun c => tgather c idx) (b_cols cb) = Some (b_cols cb')).
  { unfold select_rows, obind in Hsel.
    destruct (select_oblock idx (tf_num tf)); [|discriminate].
    destruct (select_oblock idx (tf_cat tf)) as [c'|] eqn:Ec; [|discriminate].
    destruct (select_target idx (tf_y tf)); [|discriminate]. inversion Hsel; subst tf'. simpl in Hc'. subst c'.
    apply select_oblock_names in Ec. rewrite Hc in Ec. exact Ec. }
  destruct Hb as [Hbn Hbc].
  eapply call_spec; eauto.
  - congruence.
  - rewrite Hbn. exact Hcounts.
  - eapply all_seen_gather_cols; eauto.
Qed.

(* ------------------------------------------------------------------ names <-> transformed statistics *)
Lemma keys_spec train cs t cbt y k prior :
  fit fresh train cs = Some t -> tf_cat train = Some cbt -> tf_y train = Some y ->
  target_prior y = Some (k, prior) ->
  transformed_stats_keys t = Some (num_names train ++ gen_names (b_names cbt) (k - 1)) /\
  NoDup (num_names train ++ gen_names (b_names cbt) (k - 1)).
Proof.
  intros Hfit Hct Hy Hp.
  destruct (fit_inv _ _ _ _ _ Hfit Hct) as (y' & k' & prior' & Hy' & Hp' & Hnd' & ->).
  rewrite Hy in Hy'. inversion Hy'; subst y'. rewrite Hp in Hp'. inversion Hp'; subst k' prior'.
  unfold transformed_stats_keys. simpl. rewrite dict_keys_NoDup by assumption. split; [reflexivity|assumption].
Qed.

Lemma names_are_keys train cs t tf cbt y k prior cb counts :
  fit fresh train cs = Some t -> tf_cat train = Some cbt -> tf_y train = Some y ->
  target_prior y = Some (k, prior) ->
  validate tf = Some tf -> tf_cat tf = Some cb -> b_names cb = b_names cbt -> num_names tf = num_names train ->
  Forall2 (fun name count => assoc name cs = Some count) (b_names cb) counts ->
  Forall has_nonmissing (b_cols cb) -> Forall2 all_seen counts (b_cols cb) ->
  exists out nb, call t tf = Some out /\ tf_num out = Some nb /\
                 transformed_stats_keys t = Some (b_names nb) /\ NoDup (b_names nb).
Proof.
  intros Hfit Hct Hy Hp Hv Hc Hn Hnn Hcounts Hnm Hseen.
  eexists. eexists. split; [eapply call_spec; eauto|].
  unfold transform_spec. rewrite Hc. simpl. split; [reflexivity|].
  rewrite Hnn, Hn. eapply keys_spec; eauto.
Qed.

Lemma names_NoDup num cats w :
  NoDup num -> NoDup cats -> (forall n, In n num -> ~ In n (gen_names cats w)) -> NoDup (num ++ gen_names cats w).
Proof.
  intros H1 H2 H3. induction num as [|a num IH]; simpl; [apply gen_names_NoDup; assumption|].
  inversion H1; subst. constructor.
  - intros Hin. apply in_app_or in Hin. destruct Hin as [Hin|Hin]; [contradiction|].
    apply (H3 a); [left; reflexivity|assumption].
  - apply IH; auto. intros n Hn. apply H3. right. assumption.
Qed.

(* ------------------------------------------------------------------ raises *)
Lemma call_unfitted t tf : t_is_fitted t = false -> call t tf = None.
Proof. intros H. unfold call, forward. rewrite H. reflexivity. Qed.

Lemma mapM_nth_some {A B} (f : A -> option B) l r :
  mapM f l = Some r ->
  forall i a, nth_error l i = Some a -> exists b, f a = Some b /\ nth_error r i = Some b.
Proof.
  revert r; induction l as [|x l IH]; simpl; intros r H i a Hi.
  - destruct i; discriminate.
  - destruct (f x) eqn:Hx; [|discriminate]. destruct (mapM f l) eqn:Hm; [|discriminate].
    inversion H; subst. destruct i; simpl in *.
    + inversion Hi; subst. eauto.
    + eapply IH; eauto.
Qed.

Lemma call_unseen t st tf cb i name col c count :
  t_state t = Some st -> tf_cat tf = Some cb ->
  nth_error (b_names cb) i = Some name -> nth_error (b_cols cb) i = Some col -> In c col ->
  assoc name (f_stats st) = Some count -> (Z.of_nat (length count) <= c)%Z ->
  call t tf = None.
Proof.
  intros Hst Hc Hn Hcol Hin Ha Hbad. unfold call, forward. destruct (t_is_fitted t); [|reflexivity]. simpl.
  unfold _forward. rewrite Hc, Hst. unfold obind.
  destruct (replace_nans (b_cols cb)) as [tensor|] eqn:Hr; [|reflexivity].
  assert (Ht : exists col2, nth_error tensor i = Some col2 /\ In c col2).
  { unfold replace_nans in Hr. destruct (mapM_nth_some _ _ _ Hr i col Hcol) as (col2 & E & Hnth).
    unfold replace_nans_col in E. destruct (forallb _ col); [discriminate|]. inversion E; subst col2.
    eexists. split; [exact Hnth|]. apply in_map_iff. exists c. split; [|assumption].
    destruct (c <? 0)%Z eqn:Ec; [|reflexivity]. apply Z.ltb_lt in Ec. lia. }
  destruct Ht as (col2 & Hc2 & Hin2).
  rewrite (encode_cols_unseen _ _ _ _ _ _ _ _ _ _ Hn Hc2 Hin2 Ha Hbad). reflexivity.
Qed.

(* ------------------------------------------------------------------ small facts *)
Lemma state_dict_round_trip t tf : call (load_state_dict fresh (state_dict t)) tf = call t tf.
Proof. reflexivity. Qed.

Lemma estimate_missing count n prior c : (c < 0)%Z -> estimate count n prior c = estimate count n prior 0.
Proof. intros H. unfold estimate, imputed. apply Z.ltb_lt in H. rewrite H. reflexivity. Qed.

(* ------------------------------------------------------------------ growth 2: the object store *)
Lemma dset_same k v d : dget k d = Some v -> dset k v d = d.
Proof.
  induction d as [|[k' v'] d IH]; simpl; [discriminate|].
  destruct (String.eqb k' k) eqn:E; intros H.
  - inversion H; subst. reflexivity.
  - rewrite IH by assumption. reflexivity.
Qed.

Lemma dget_in_nodup k v d : NoDup (map fst d) -> In (k, v) d -> dget k d = Some v.
Proof.
  induction d as [|[k' v'] d IH]; simpl; intros Hn Hin; [contradiction|].
  inversion Hn; subst. destruct Hin as [E|Hin].
  - inversion E; subst. rewrite String.eqb_refl. reflexivity.
  - destruct (String.eqb k' k) eqn:E; [|auto].
    apply String.eqb_eq in E. subst. exfalso. apply H1. apply in_map_iff. exists (k, v). auto.
Qed.

(* d.update(d) is the identity for a dict (unique keys) -- the self round trip at the level of one dict *)
Lemma dupdate_self d : NoDup (map fst d) -> dupdate d d = d.
Proof.
  intros Hn. unfold dupdate.
  assert (G : forall l, (forall kv, In kv l -> In kv d) -> fold_left (fun acc kv => dset (fst kv) (snd kv) acc) l d = d).
  { induction l as [|[k v] l IH]; simpl; intros Hl; [reflexivity|].
    rewrite dset_same by (apply dget_in_nodup; [exact Hn|apply Hl; left; reflexivity]).
    apply IH. intros kv Hkv. apply Hl. right. exact Hkv. }
  apply G. auto.
Qed.

Lemma dget_dset k k' v d : dget k (dset k' v d) = if String.eqb k' k then Some v else dget k d.
Proof.
  induction d as [|[k0 v0] d IH]; simpl.
  - reflexivity.
  - destruct (String.eqb k0 k') eqn:E0; simpl.
    + apply String.eqb_eq in E0. subst k0. destruct (String.eqb k' k); reflexivity.
    + destruct (String.eqb k0 k) eqn:E1; [|exact IH].
      apply String.eqb_eq in E1. subst k0. rewrite String.eqb_sym, E0. reflexivity.
Qed.

Lemma dget_notin k d : ~ In k (map fst d) -> dget k d = None.
Proof.
  induction d as [|[k' v'] d IH]; simpl; intros H; [reflexivity|].
  destruct (String.eqb k' k) eqn:E; [apply String.eqb_eq in E; subst; exfalso; apply H; left; reflexivity|].
  apply IH. intros Hin. apply H. right. exact Hin.
Qed.

(* after dst.update(src): every attribute of the source is there with the source's value, every other attribute of the
   destination is untouched *)
Lemma dget_dupdate s : NoDup (map fst s) ->
  forall d k, dget k (dupdate d s) = match dget k s with Some v => Some v | None => dget k d end.
Proof.
  unfold dupdate. induction s as [|[k0 v0] s IH]; intros Hn d k; simpl; [reflexivity|].
  inversion Hn; subst. rewrite IH by assumption. rewrite dget_dset.
  destruct (String.eqb k0 k) eqn:E.
  - apply String.eqb_eq in E. subst k0. rewrite (dget_notin k s H1). reflexivity.
  - reflexivity.
Qed.

Lemma to_dict_keys_nodup t : NoDup (map fst (to_dict t)).
Proof.
  unfold to_dict. destruct (t_state t); simpl; repeat constructor; simpl; intuition discriminate.
Qed.

Lemma of_to_dict t : of_dict (to_dict t) = Some t.
Proof. destruct t as [b [s|] [k|]]; reflexivity. Qed.

Lemma hget_hset o d h o' : hget o' (hset o d h) = if (o =? o')%nat then Some d else hget o' h.
Proof.
  induction h as [|[o0 d0] h IH]; simpl.
  - reflexivity.
  - destruct (o0 =? o)%nat eqn:E0; simpl.
    + apply Nat.eqb_eq in E0. subst o0. destruct (o =? o')%nat; reflexivity.
    + destruct (o0 =? o')%nat eqn:E1; [|exact IH].
      apply Nat.eqb_eq in E1. subst o0. rewrite Nat.eqb_sym, E0. reflexivity.
Qed.

(* SELF round trip  t.load_state_dict(t.state_dict()) : source and destination are the same live dict.  Every object of
   the heap, t included, has exactly the attributes it had. *)
Lemma self_round_trip_identity h o d :
  hget o h = Some d -> NoDup (map fst d) ->
  exists h', st_state_dict h o false = Some (RLive o) /\ st_load h o (RLive o) = Some h' /\
             forall o', hget o' h' = hget o' h.
Proof.
  intros Hd Hn. unfold st_state_dict, st_load, deref, obind. rewrite Hd.
  eexists. split; [reflexivity|]. split; [reflexivity|].
  intros o'. rewrite hget_hset, dupdate_self by assumption.
  destruct (o =? o')%nat eqn:E; [apply Nat.eqb_eq in E; subst; auto|reflexivity].
Qed.

(* round trip into ANOTHER object (a fresh instance or any existing one), through the live dict or a detached copy:
   the destination reads back as the very transform value of the source; the source and all other objects are
   untouched *)
Lemma round_trip_into_other h src dst t dd (copy : bool) :
  hget src h = Some (to_dict t) -> hget dst h = Some dd -> src <> dst ->
  dget "_is_fitted" dd <> None -> dget "_transformed_stats" dd <> None ->
  (t_state t = None -> dget "fit_attrs" dd = None) ->
  exists sd h', st_state_dict h src copy = Some sd /\ st_load h dst sd = Some h' /\
                (exists d', hget dst h' = Some d' /\ of_dict d' = Some t) /\
                forall o', o' <> dst -> hget o' h' = hget o' h.
Proof.
  intros Hs Hd Hne H1 H2 H3. unfold st_state_dict, obind. rewrite Hs.
  exists (if copy then RCopy (to_dict t) else RLive src).
  assert (Hder : deref h (if copy then RCopy (to_dict t) else RLive src) = Some (to_dict t)) by (destruct copy; simpl; auto).
  unfold st_load, obind. rewrite Hd, Hder. eexists. split; [reflexivity|]. split; [reflexivity|]. split.
  - eexists. split; [rewrite hget_hset, Nat.eqb_refl; reflexivity|].
    unfold of_dict. rewrite !(dget_dupdate _ (to_dict_keys_nodup t)).
    destruct t as [b [s|] [k|]]; simpl in *;
      destruct (dget "_is_fitted" dd); try congruence; destruct (dget "_transformed_stats" dd); try congruence;
      try rewrite (H3 eq_refl); reflexivity.
  - intros o' Ho. rewrite hget_hset. destruct (dst =? o')%nat eqn:E; [apply Nat.eqb_eq in E; congruence|reflexivity].
Qed.

(* the seeded variant C17_10 (clear() before update) is refuted for source = destination: the fitted transform of the
   witness can no longer be used (its attributes are gone), while the library's load keeps it *)
Definition w_fit : fitted := mkfitted [("c"%string, [2; 1]%Z)] 3 2 [1 # 2] ["c_0"%string].
Definition w_obj : transform := mktransform true (Some w_fit) (Some ["c_0"%string]).
Definition w_heap0 : heap := [(0%nat, to_dict w_obj)].

Lemma clear_before_update_refuted :
  (exists h', st_load w_heap0 0 (RLive 0%nat) = Some h' /\ (d <- hget 0 h' ;; of_dict d) = Some w_obj) /\
  (exists h', st_load_clear w_heap0 0 (RLive 0%nat) = Some h' /\ (d <- hget 0 h' ;; of_dict d) = None).
Proof. split; eexists; split; vm_compute; reflexivity. Qed.

(* ------------------------------------------------------------------ growth 2: the prior and the task rule *)
(* regression / binary: the prior is the mean over the LABELLED rows only (NaN rows do not count in the denominator) *)
Definition labelled (ys : list (option Q)) : list Q :=
  flat_map (fun v => match v with Some q => [q] | None => [] end) ys.

Lemma prior_float_is_mean_of_labelled ys :
  labelled ys <> [] -> target_prior (YFloat ys) = Some (2%nat, [qmean (labelled ys)]).
Proof.
  intros H. unfold target_prior. fold (labelled ys). destruct (labelled ys); [congruence|reflexivity].
Qed.

(* the seeded variant C17_11 (nansum / number of ALL rows) is refuted *)
Lemma prior_over_all_rows_refuted :
  exists ys, labelled ys <> [] /\
    ~ (qsum (labelled ys) / qnat (length ys) == qmean (labelled ys)).
Proof.
  exists [Some 1; None]. split; [discriminate|]. intros H. vm_compute in H. discriminate.
Qed.

(* the task rule depends on the DTYPE: floating-point labels are never a multiclass problem, whatever their values
   (the seeded variant C17_12 treated whole-valued floats as class labels) *)
Lemma float_labels_are_never_multiclass ys k prior :
  target_prior (YFloat ys) = Some (k, prior) -> k = 2%nat /\ length prior = 1%nat.
Proof.
  unfold target_prior. destruct (flat_map _ ys); [discriminate|]. intros H; inversion H; subst. auto.
Qed.

Lemma int_labels_multiclass_iff ys m k prior :
  zmax ys = Some m -> target_prior (YInt ys) = Some (k, prior) ->
  ((1 < m)%Z -> k = (Z.to_nat m + 1)%nat) /\ ((m <= 1)%Z -> k = 2%nat).
Proof.
  intros Hm. unfold target_prior, obind. rewrite Hm. destruct (1 <? m)%Z eqn:E.
  - destruct (existsb _ ys); [discriminate|]. intros H; inversion H; subst.
    apply Z.ltb_lt in E. split; [reflexivity|lia].
  - intros H; inversion H; subst. apply Z.ltb_ge in E. split; [lia|reflexivity].
Qed.
