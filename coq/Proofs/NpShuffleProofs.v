(* Lemmas about Model/NpShuffle.v (C09): numpy's Fisher-Yates shuffle permutes,
   whatever the random words are, and its arrangement does not depend on the
   values being shuffled. *)
From Coq Require Import ZArith List Bool Arith Lia Permutation.
From PF Require Import Lib.ListX Model.DatasetRun Model.Split Model.NpShuffle.
From PF Require Import Proofs.ListXFacts Proofs.DatasetProofs Proofs.DatasetHeapProofs.
Import ListNotations.

(* ------------------------------------------------------------------ *)
(* set_nth / swap *)

Lemma set_nth_split : forall {A} (l : list A) k x a,
  nth_error l k = Some a -> exists l1 l2, l = l1 ++ a :: l2 /\ length l1 = k /\ set_nth l k x = l1 ++ x :: l2.
Proof.
  induction l as [|y l IH]; intros k x a H; destruct k; simpl in *; try discriminate.
  - injection H as ->. exists [], l. auto.
  - destruct (IH _ x _ H) as [l1 [l2 [E [L S]]]]. exists (y :: l1), l2. simpl. rewrite <- E, L, S. auto.
Qed.

Lemma nth_error_set_nth_same : forall {A} (l : list A) k x, k < length l -> nth_error (set_nth l k x) k = Some x.
Proof.
  induction l as [|y l IH]; intros k x H; destruct k; simpl in *; try lia; auto. apply IH. lia.
Qed.

(* x[i], x[j] = x[j], x[i] is a permutation, for any two positions *)
Lemma swap_perm : forall {A} (l : list A) i j, Permutation (swap l i j) l.
Proof.
  intros A l i j. unfold swap.
  destruct (nth_error l i) as [a|] eqn:Ei; [|apply Permutation_refl].
  destruct (nth_error l j) as [b|] eqn:Ej; [|apply Permutation_refl].
  destruct (Nat.eq_dec i j) as [->|Hne].
  - rewrite Ei in Ej. injection Ej as <-.
    assert (Hl : j < length l) by (apply nth_error_Some; congruence).
    rewrite (set_nth_same (set_nth l j a) j a) by (apply nth_error_set_nth_same; auto).
    rewrite set_nth_same by auto. apply Permutation_refl.
  - destruct (set_nth_split l i b a Ei) as [l1 [l2 [E [L S]]]].
    assert (Ej' : nth_error (set_nth l i b) j = Some b) by (rewrite nth_error_set_nth_other; auto).
    destruct (set_nth_split _ j a b Ej') as [m1 [m2 [E2 [L2 S2]]]].
    rewrite S2. rewrite S in E2.
    assert (P : Permutation (l1 ++ l2) (m1 ++ m2)).
    { apply Permutation_cons_inv with b. apply Permutation_trans with (l1 ++ b :: l2); [apply Permutation_middle|].
      rewrite E2. apply Permutation_sym, Permutation_middle. }
    rewrite E. apply Permutation_trans with (a :: m1 ++ m2); [apply Permutation_sym, Permutation_middle|].
    apply Permutation_trans with (a :: l1 ++ l2); [constructor; apply Permutation_sym; exact P|apply Permutation_middle].
Qed.

Lemma swap_length : forall {A} (l : list A) i j, length (swap l i j) = length l.
Proof. intros. apply Permutation_length, swap_perm. Qed.

Lemma swap_map : forall {A B} (f : A -> B) (l : list A) i j, swap (map f l) i j = map f (swap l i j).
Proof.
  intros A B f l i j. unfold swap. rewrite !nth_error_map.
  destruct (nth_error l i); simpl; auto. destruct (nth_error l j); simpl; auto.
  rewrite !set_nth_map. reflexivity.
Qed.

(* ------------------------------------------------------------------ *)
(* the loop *)

Lemma shuffle_loop_perm : forall {A} k stream (l r : list A),
  shuffle_loop k stream l = Some r -> Permutation r l.
Proof.
  intros A k. induction k as [|k IH]; intros stream l r H; cbn [shuffle_loop] in H.
  - injection H as <-. apply Permutation_refl.
  - destruct (random_interval (Z.of_nat (S k)) stream) as [[j rest]|]; try discriminate.
    eapply Permutation_trans; [eapply IH; exact H|apply swap_perm].
Qed.

Lemma shuffle_loop_map : forall {A B} (f : A -> B) k stream (l : list A),
  shuffle_loop k stream (map f l) = option_map (map f) (shuffle_loop k stream l).
Proof.
  intros A B f k. induction k as [|k IH]; intros stream l; cbn [shuffle_loop]; auto.
  destruct (random_interval (Z.of_nat (S k)) stream) as [[j rest]|]; auto.
  rewrite swap_map. apply IH.
Qed.

(* np.random.shuffle(x) returns a permutation of x, for EVERY word stream *)
Lemma np_shuffle_perm : forall {A} stream (l r : list A), np_shuffle stream l = Some r -> Permutation r l.
Proof. intros A stream l r H. eapply shuffle_loop_perm; exact H. Qed.

(* the arrangement depends on the word stream and the LENGTH only: shuffling x
   is gathering x by the shuffle of arange(len(x)) *)
Lemma np_shuffle_by_positions : forall {A} stream (l : list A),
  np_shuffle stream l = (p <- np_shuffle stream (seq 0 (length l)) ;; tgather l p).
Proof.
  intros A stream l. destruct l as [|d l'] eqn:El; [reflexivity|]. rewrite <- El.
  unfold np_shuffle. rewrite seq_length.
  rewrite (map_nth_seq l d) at 2. rewrite shuffle_loop_map.
  destruct (shuffle_loop (length l - 1) stream (seq 0 (length l))) as [p|] eqn:E; simpl; auto.
  symmetry. apply tgather_nth. apply Forall_forall. intros x Hx.
  eapply Permutation_in in Hx; [|eapply shuffle_loop_perm; exact E]. apply in_seq in Hx. lia.
Qed.

(* random_interval(max) returns a value in [0, max] *)
Lemma reject_loop_range : forall mask mx stream v r, reject_loop mask mx stream = Some (v, r) -> (v <= mx)%Z.
Proof.
  intros mask mx stream. induction stream as [|w s IH]; intros v r H; simpl in H; try discriminate.
  destruct (Z.land w mask <=? mx)%Z eqn:E.
  - injection H as <- _. apply Z.leb_le. exact E.
  - eapply IH; eauto.
Qed.

Lemma random_interval_range : forall mx stream v r, (0 <= mx)%Z ->
  random_interval mx stream = Some (v, r) -> (v <= mx)%Z.
Proof.
  intros mx stream v r Hm H. unfold random_interval in H. destruct (mx =? 0)%Z eqn:E.
  - injection H as <- _. exact Hm.
  - eapply reject_loop_range; eauto.
Qed.

(* H_shuffle_perm, proved: the arrangement the split generator applies is a
   permutation of 0..n-1 for every word stream, seed and length *)
Lemma np_perm_fy_perm : forall (mt : Z -> list Z) (seed : Z) (n : nat), Permutation (np_perm_fy mt seed n) (seq 0 n).
Proof.
  intros mt seed n. unfold np_perm_fy. destruct (np_shuffle (mt seed) (seq 0 n)) as [p|] eqn:E.
  - eapply np_shuffle_perm; exact E.
  - apply Permutation_refl.
Qed.

(* generate_random_split's last two lines, as written (shuffle the block array
   in place), are the gather by np_perm_fy the Split model applies *)
Lemma apply_perm_is_np_shuffle : forall (mt : Z -> list Z) seed (arr : list Z),
  np_shuffle (mt seed) (seq 0 (length arr)) <> None ->
  apply_perm (np_perm_fy mt seed (length arr)) arr = np_shuffle (mt seed) arr.
Proof.
  intros mt seed arr H. rewrite np_shuffle_by_positions. unfold np_perm_fy, apply_perm.
  destruct (np_shuffle (mt seed) (seq 0 (length arr))); [reflexivity|congruence].
Qed.
