(* Lemmas about Model/DatasetHeap.v (C09): the heap of Dataset objects with the
   shared statistics dict refines the functional store, and who can see what
   after each operation. *)
From Coq Require Import ZArith List Bool String Arith Lia.
From PF Require Import Lib.ListX Lib.PySlice Model.Dataset Model.DatasetSpec Model.DatasetRun Model.DatasetHeap.
From PF Require Import Proofs.ListXFacts Proofs.DatasetProofs.
Import ListNotations.
Local Notation length := List.length (only parsing).

(* ------------------------------------------------------------------ *)
(* small facts *)

Lemma set_nth_same : forall {A} (l : list A) k x, nth_error l k = Some x -> set_nth l k x = l.
Proof.
  induction l as [|y l IH]; intros k x H; destruct k; simpl in *; try discriminate.
  - injection H as ->. reflexivity.
  - f_equal. apply IH. exact H.
Qed.

Lemma set_nth_map : forall {A B} (f : A -> B) (l : list A) k x, map f (set_nth l k x) = set_nth (map f l) k (f x).
Proof. induction l; intros k x; destruct k; simpl; auto. f_equal. apply IHl. Qed.

Lemma nth_error_set_nth_other : forall {A} (l : list A) k q x, q <> k -> nth_error (set_nth l k x) q = nth_error l q.
Proof.
  induction l as [|y l IH]; intros k q x H; destruct k, q; simpl; auto; try congruence.
Qed.

Lemma nth_set_nth_other : forall {A} (l : list A) k q x d, q <> k -> nth q (set_nth l k x) d = nth q l d.
Proof.
  induction l as [|y l IH]; intros k q x d H; destruct k, q; simpl; auto; try congruence.
Qed.

Lemma nth_set_nth_same : forall {A} (l : list A) k x d, k < length l -> nth k (set_nth l k x) d = x.
Proof.
  induction l as [|y l IH]; intros k x d H; destruct k; simpl in *; try lia; auto. apply IH. lia.
Qed.

Lemma dict_set_extends : forall keys k, exists extra, dict_set keys k = keys ++ extra.
Proof.
  intros keys k. unfold dict_set. destruct (mem_str k keys).
  - exists []. rewrite app_nil_r. reflexivity.
  - eexists. reflexivity.
Qed.

(* writing statistics never removes or reorders the keys that were there *)
Lemma dict_update_extends : forall ks keys, exists extra, dict_update keys ks = keys ++ extra.
Proof.
  induction ks as [|k ks IH]; intros keys; simpl.
  - exists []. rewrite app_nil_r. reflexivity.
  - unfold dict_update. simpl. destruct (dict_set_extends keys k) as [e1 E1]. rewrite E1.
    destruct (IH (keys ++ e1)) as [e2 H]. unfold dict_update in H. rewrite H.
    exists (e1 ++ e2). rewrite app_assoc. reflexivity.
Qed.

Lemma hlookup_project : forall h p,
  lookup (project h) p = option_map body (hlookup h p).
Proof.
  intros h p. unfold lookup, hlookup, project. rewrite nth_error_map.
  destruct (nth_error (objs h) p) as [[o|]|]; reflexivity.
Qed.

Lemma hlookup_some : forall h p o, hlookup h p = Some o -> nth_error (objs h) p = Some (Some o).
Proof.
  intros h p o H. unfold hlookup in H. destruct (nth_error (objs h) p) as [[x|]|]; try discriminate.
  injection H as ->. reflexivity.
Qed.

(* ------------------------------------------------------------------ *)
(* the heap refines the functional store *)

Lemma heap_step_refines : forall h s,
  project (heap_step h s) = fst (tree_step (project h) (erase s)).
Proof.
  intros h s. destruct s as [p o m|p|p]; [|reflexivity|reflexivity].
  assert (Hop : forall o', o' <> OMaterialize ->
            project (match hlookup h p with
                     | Some ob => mkHeap (objs h ++ [option_map (fun d' => mkHObj d' (stats_at ob)) (step (body ob) o')]) (dicts h)
                     | None => mkHeap (objs h ++ [None]) (dicts h) end)
            = fst (tree_step (project h) (TOp p o'))).
  { intros o' Hne. rewrite (tree_step_op (project h) p o' Hne), hlookup_project.
    destruct (hlookup h p) as [ob|]; unfold project; simpl; rewrite map_app; simpl; auto.
    destruct (step (body ob) o'); reflexivity. }
  destruct o; try (apply Hop; discriminate).
  simpl. rewrite hlookup_project. destruct (hlookup h p) as [ob|] eqn:E; simpl; [|reflexivity].
  destruct (materialized (body ob)) eqn:Em.
  - rewrite materialize_materialized by auto. simpl. symmetry. apply set_nth_same.
    unfold project. rewrite nth_error_map, (hlookup_some _ _ _ E). reflexivity.
  - destruct m; destruct (materialize (body ob)) as [d'|]; simpl; unfold project; simpl;
      rewrite ?set_nth_map; reflexivity.
Qed.

Lemma heap_run_refines : forall prog h,
  project (fst (heap_run h prog)) = fst (tree_run (project h) (map erase prog)) /\
  map fst (snd (heap_run h prog)) = snd (tree_run (project h) (map erase prog)).
Proof.
  induction prog as [|s prog IH]; intros h; simpl; [auto|].
  pose proof (heap_step_refines h s) as Hs.
  destruct (tree_step (project h) (erase s)) as [st1 o1] eqn:E1. simpl in Hs.
  specialize (IH (heap_step h s)). rewrite Hs in IH.
  destruct (heap_run (heap_step h s) prog) as [h2 os] eqn:E2.
  destruct (tree_run st1 (map erase prog)) as [st2 os2] eqn:E3. simpl in *.
  destruct IH as [I1 I2]. split; auto. f_equal. exact I2.
Qed.

(* ------------------------------------------------------------------ *)
(* well-formedness: every object's dict address is allocated *)

Lemma wf_heap0 : forall d0, wf_heap (heap0 d0).
Proof.
  intros d0 p ob H. destruct p as [|[|p]]; simpl in H; try discriminate.
  injection H as <-. simpl. lia.
Qed.

Lemma nth_error_set_nth_cases : forall {A} (l : list A) k q x y,
  nth_error (set_nth l k x) q = Some y -> (q = k /\ y = x) \/ nth_error l q = Some y.
Proof.
  induction l as [|z l IH]; intros k q x y H; destruct k, q; simpl in *; try discriminate; auto.
  - injection H as <-. auto.
  - destruct (IH _ _ _ _ H) as [[-> ->]|H']; auto.
Qed.

Lemma wf_heap_step : forall h s, wf_heap h -> wf_heap (heap_step h s).
Proof.
  intros h s Hw. destruct s as [p o m|p|p]; [|exact Hw|exact Hw].
  assert (Hop : forall o', wf_heap
            (match hlookup h p with
             | Some ob => mkHeap (objs h ++ [option_map (fun d' => mkHObj d' (stats_at ob)) (step (body ob) o')]) (dicts h)
             | None => mkHeap (objs h ++ [None]) (dicts h) end)).
  { intros o'. destruct (hlookup h p) as [ob|] eqn:E; intros q x H; simpl in *.
    - destruct (Nat.lt_ge_cases q (length (objs h))) as [Hq|Hq].
      + rewrite nth_error_app1 in H by auto. eapply Hw; eauto.
      + rewrite nth_error_app2 in H by auto. destruct (q - length (objs h)) as [|[|r]]; simpl in H; try discriminate.
        destruct (step (body ob) o'); simpl in H; try discriminate. inversion H; subst; simpl.
        eapply Hw. apply hlookup_some. exact E.
    - destruct (Nat.lt_ge_cases q (length (objs h))) as [Hq|Hq].
      + rewrite nth_error_app1 in H by auto. eapply Hw; eauto.
      + rewrite nth_error_app2 in H by auto. destruct (q - length (objs h)) as [|[|r]]; simpl in H; discriminate. }
  destruct o; try apply Hop.
  simpl. destruct (hlookup h p) as [ob|] eqn:E; [|exact Hw].
  destruct (materialized (body ob)); [exact Hw|].
  pose proof (Hw _ _ (hlookup_some _ _ _ E)) as Hob.
  destruct m; destruct (materialize (body ob)) as [d'|]; intros q x H; simpl in *;
    rewrite ?set_nth_length, ?app_length; simpl.
  - destruct (nth_error_set_nth_cases _ _ _ _ _ H) as [[_ Hx]|H']; [injection Hx as ->; simpl; auto|eapply Hw; eauto].
  - eapply Hw; eauto.
  - destruct (nth_error_set_nth_cases _ _ _ _ _ H) as [[_ Hx]|H']; [injection Hx as ->; simpl; lia|].
    specialize (Hw _ _ H'). lia.
  - eapply Hw; eauto.
Qed.

Lemma wf_heap_run : forall prog h, wf_heap h -> wf_heap (fst (heap_run h prog)).
Proof.
  induction prog as [|s prog IH]; intros h Hw; simpl; auto.
  specialize (IH _ (wf_heap_step h s Hw)). destruct (heap_run (heap_step h s) prog). exact IH.
Qed.

(* ------------------------------------------------------------------ *)
(* who can see what *)

Definition is_materialize (s : hstep) : bool :=
  match s with HOp _ OMaterialize _ => true | _ => false end.

(* every operation other than materialize() leaves the whole heap as it was
   and only adds the new object: no existing Dataset - its rows, TensorFrame,
   columns, flags - and no statistics dict changes *)
Lemma non_materialize_step_preserves : forall h s, is_materialize s = false ->
  exists new, objs (heap_step h s) = objs h ++ new /\ dicts (heap_step h s) = dicts h.
Proof.
  intros h s H. destruct s as [p o m|p|p]; try (exists []; rewrite app_nil_r; auto; fail).
  destruct o; try discriminate; simpl; destruct (hlookup h p); eexists; split; reflexivity.
Qed.

Lemma heap_views_app : forall objs1 new dcts,
  heap_views (mkHeap (objs1 ++ new) dcts) = heap_views (mkHeap objs1 dcts) ++ map (stats_view (mkHeap (objs1 ++ new) dcts)) new.
Proof. intros. unfold heap_views. simpl. rewrite map_app. reflexivity. Qed.

Lemma non_materialize_step_views : forall h s, is_materialize s = false ->
  firstn (length (objs h)) (objs (heap_step h s)) = objs h /\
  firstn (length (objs h)) (heap_views (heap_step h s)) = heap_views h.
Proof.
  intros h s H. destruct (non_materialize_step_preserves h s H) as [new [Ho Hd]].
  split.
  - rewrite Ho, firstn_app, Nat.sub_diag, firstn_all. simpl. apply app_nil_r.
  - unfold heap_views. rewrite Ho, map_app, firstn_app, map_length, Nat.sub_diag. simpl.
    rewrite app_nil_r. rewrite <- (map_length (stats_view (heap_step h s)) (objs h)) at 1. rewrite firstn_all.
    apply map_ext. intros e. unfold stats_view. rewrite Hd. reflexivity.
Qed.

(* materialize(): the footprint.  Only the receiver's entry changes among the
   objects; with re-bound statistics no dict changes at all; with statistics
   computed in place exactly one dict changes - the one the receiver points to -
   and it only GAINS keys, so precisely the objects that share that dict (the
   receiver's copy.copy relatives) see new keys, and nobody loses one. *)
Lemma materialize_step_footprint : forall h p m,
  wf_heap h ->
  let h' := heap_step h (HOp p OMaterialize m) in
  length (objs h') = length (objs h) /\
  (forall q, q <> p -> nth_error (objs h') q = nth_error (objs h) q) /\
  (forall a, a < length (dicts h) ->
     (forall ob, hlookup h p = Some ob -> a <> stats_at ob) -> nth a (dicts h') [] = nth a (dicts h) []) /\
  (forall a, a < length (dicts h) -> exists extra, nth a (dicts h') [] = nth a (dicts h) [] ++ extra) /\
  (m = Rebind -> forall a, a < length (dicts h) -> nth a (dicts h') [] = nth a (dicts h) []).
Proof.
  intros h p m Hw. simpl.
  assert (Hid : forall a : nat, exists extra : list string, nth a (dicts h) [] = nth a (dicts h) [] ++ extra)
    by (intros; exists []; rewrite app_nil_r; reflexivity).
  destruct (hlookup h p) as [ob|] eqn:E; [|repeat split; auto].
  destruct (materialized (body ob)); [repeat split; auto|].
  pose proof (Hw _ _ (hlookup_some _ _ _ E)) as Hob.
  assert (HinP : forall a, a < length (dicts h) ->
     exists extra, nth a (set_nth (dicts h) (stats_at ob)
        (dict_update (nth (stats_at ob) (dicts h) []) (written (df_cols (body ob)) (stype_cols (body ob))))) []
      = nth a (dicts h) [] ++ extra).
  { intros a Ha. destruct (Nat.eq_dec a (stats_at ob)) as [->|Hne].
    - rewrite nth_set_nth_same by auto. apply dict_update_extends.
    - rewrite nth_set_nth_other by auto. apply Hid. }
  destruct m; destruct (materialize (body ob)) as [d'|]; simpl; rewrite ?set_nth_length;
    (split; [reflexivity|]); (split; [intros q Hq; rewrite ?nth_error_set_nth_other by auto; reflexivity|]).
  - split; [intros a Ha Hne; apply nth_set_nth_other; apply (Hne ob eq_refl)|]. split; [exact HinP|discriminate].
  - split; [intros a Ha Hne; apply nth_set_nth_other; apply (Hne ob eq_refl)|]. split; [exact HinP|discriminate].
  - assert (Happ : forall a, a < length (dicts h) -> nth a (dicts h ++ [stype_cols (body ob)]) [] = nth a (dicts h) [])
      by (intros; apply app_nth1; auto).
    split; [intros; apply Happ; auto|]. split; [intros a Ha; rewrite Happ by auto; apply Hid|intros; apply Happ; auto].
  - repeat split; auto.
Qed.

(* whole histories without materialize(): nothing that existed is touched *)
Lemma non_materialize_run_preserves : forall prog h,
  forallb (fun s => negb (is_materialize s)) prog = true ->
  exists new, objs (fst (heap_run h prog)) = objs h ++ new /\ dicts (fst (heap_run h prog)) = dicts h.
Proof.
  induction prog as [|s prog IH]; intros h H; simpl.
  - exists []. rewrite app_nil_r. auto.
  - simpl in H. apply andb_true_iff in H. destruct H as [Hs Hr]. apply negb_true_iff in Hs.
    destruct (non_materialize_step_preserves h s Hs) as [n1 [O1 D1]].
    destruct (IH (heap_step h s) Hr) as [n2 [O2 D2]].
    destruct (heap_run (heap_step h s) prog) as [h2 os]. simpl in *.
    exists (n1 ++ n2). rewrite O2, O1, D2, D1, app_assoc. auto.
Qed.

Lemma wf_heap_run0 : forall d0 prog, wf_heap (fst (heap_run (heap0 d0) prog)).
Proof. intros. apply wf_heap_run. apply wf_heap0. Qed.
