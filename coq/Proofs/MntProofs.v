(* MultiNestedTensor: every kernel and the whole select dispatch refine the
   nested-list selection (C05). *)
From Coq Require Import List ZArith Arith Bool Lia.
From PF Require Import Lib.ListX Lib.PySlice Model.Ragged Model.RaggedSpec.
From PF Require Export Proofs.ListXFacts.   (* re-exported: Props/C05.v uses batched_arange_spec *)
Import ListNotations.

Lemma mul_lt_cell : forall i j n c, i < n -> j < c -> i * c + j < n * c.
Proof. intros. nia. Qed.

Lemma mul_le_row : forall i n c, i < n -> i * c + c <= n * c.
Proof. intros. nia. Qed.

Lemma tgather_offs : forall (L : list nat) (idx : list nat),
  Forall (fun i => i <= length L) idx -> tgather (0 :: cumsum L) idx = Some (map (pre L) idx).
Proof.
  intros L idx H. rewrite offs_closed. apply tgather_map_seq.
  eapply Forall_impl; [|exact H]. simpl. intros; lia.
Qed.

Lemma tget_offs : forall (L : list nat) k, k <= length L -> tget (0 :: cumsum L) k = Some (pre L k).
Proof.
  intros L k H. assert (E := tgather_offs L [k] ltac:(constructor; auto)).
  unfold tgather in E. simpl in E. destruct (tget (0 :: cumsum L) k); [|discriminate].
  injection E as ->. reflexivity.
Qed.

Lemma concat_flat_map : forall {B C} (f : B -> list (list C)) (l : list B),
  concat (flat_map f l) = flat_map (fun x => concat (f x)) l.
Proof. intros. induction l; simpl; auto. rewrite concat_app. congruence. Qed.

Lemma hd_error_map_seq : forall {B} (f : nat -> B) a n, hd_error (map f (seq a (S n))) = Some (f a).
Proof. reflexivity. Qed.

Lemma tslice_seq_gen : forall a n s e, e <= n -> tslice (seq a n) s e = seq (a + s) (e - s).
Proof. intros. unfold tslice. rewrite skipn_seq'. apply firstn_seq'. lia. Qed.

Lemma repeat_map_seq : forall {B} (x : B) n a, repeat x n = map (fun _ => x) (seq a n).
Proof. intros B x n; induction n; intros a; simpl; auto. f_equal. apply IHn. Qed.

Lemma seg_arith : forall (P : nat -> nat) o d c s,
  add2 (sub2 (map P (seq s c)) (repeat o c)) (repeat d c) = map (fun k => P k - o + d) (seq s c).
Proof.
  intros P o d c; induction c as [|c IH]; intros s; [reflexivity|].
  specialize (IH (S s)). unfold add2, sub2 in *. simpl. f_equal. exact IH.
Qed.

Lemma In_firstn : forall {B} (l : list B) n x, In x (firstn n l) -> In x l.
Proof.
  intros B l; induction l as [|y l IH]; intros n x H.
  - rewrite firstn_nil in H. exact H.
  - destruct n; simpl in H; [contradiction|]. destruct H; [left; auto|right; eauto].
Qed.

Lemma In_skipn : forall {B} (l : list B) n x, In x (skipn n l) -> In x l.
Proof.
  intros B l; induction l as [|y l IH]; intros n x H.
  - rewrite skipn_nil in H. exact H.
  - destruct n; simpl in H; [exact H|]. right; eauto.
Qed.

Lemma In_tslice : forall {B} (l : list B) a b x, In x (tslice l a b) -> In x l.
Proof. intros B l a b x H. unfold tslice in H. eapply In_skipn, In_firstn, H. Qed.

(* ------------------------------------------------------------------ *)
(* Python index facts *)

Lemma norm_index_lt : forall n i k, norm_index n i = Some k -> k < n.
Proof.
  intros n i k. unfold norm_index.
  destruct (i <? 0)%Z eqn:E1;
  match goal with |- context [if ?b then None else _] => destruct b eqn:E2 end; try discriminate;
  intros H; injection H as <-; apply orb_false_iff in E2; destruct E2 as [E2 E3];
  apply Z.ltb_ge in E2; apply Z.leb_gt in E3; lia.
Qed.

Lemma clamp_bound_le : forall n dflt o, dflt <= n -> clamp_bound n dflt o <= n.
Proof. intros n dflt o H. unfold clamp_bound. destruct o as [v|]; [|exact H]. destruct (v <? 0)%Z; lia. Qed.

Lemma range_up_bound : forall lo hi s, 0 < s -> Forall (fun i => i < hi) (range_up lo hi s).
Proof.
  intros lo hi s Hs. unfold range_up, count_up. apply Forall_forall. intros x Hx.
  apply in_map_iff in Hx. destruct Hx as [k [<- Hk]]. apply in_seq in Hk.
  destruct (lo <? hi) eqn:E; [|lia]. apply Nat.ltb_lt in E.
  pose proof (Nat.mul_div_le (hi - lo + s - 1) s ltac:(lia)) as Hq.
  set (q := (hi - lo + s - 1) / s) in *. nia.
Qed.

Lemma range_up_1 : forall lo hi, range_up lo hi 1 = seq lo (hi - lo).
Proof.
  intros lo hi. unfold range_up, count_up.
  replace (if lo <? hi then (hi - lo + 1 - 1) / 1 else 0) with (hi - lo).
  - rewrite <- (Nat.add_0_r lo) at 2. rewrite seq_shift_add. apply map_ext. intros; lia.
  - destruct (lo <? hi) eqn:E.
    + rewrite Nat.div_1_r. lia.
    + apply Nat.ltb_ge in E. lia.
Qed.

Lemma nonzero_bound_n : forall mk n, length mk = n -> Forall (fun i => i < n) (nonzero mk).
Proof. intros mk n <-. apply nonzero_bound. Qed.

Section Mnt.
  Variable A : Type.

  Definition canon (r c : nat) (F : list (list A)) : mnt A :=
    MkMnt r c (concat F) (0 :: cumsum (map (@length A) F)).

  Lemma mnt_of_cells_canon : forall c (m : cellmat A), mnt_of_cells c m = canon (length m) c (concat m).
  Proof. reflexivity. Qed.

  Lemma mk_mnt_canon : forall r c (F : list (list A)), length F = r * c ->
    mk_mnt A r c (concat F) (0 :: cumsum (map (@length A) F)) = Some (canon r c F).
  Proof.
    intros r c F H. unfold mk_mnt. rewrite offs_last, offs_length, map_length.
    rewrite <- sum_map_length_concat, H. simpl. rewrite Nat.eqb_refl.
    replace (r * c + 1) with (S (r * c)) by lia. rewrite Nat.eqb_refl. reflexivity.
  Qed.

  (* ---------------------------------------------------------------- *)
  Section FlatView.
    Variable F : list (list A).
    Variables R C : nat.
    Hypothesis HF : length F = R * C.
    Let L := map (@length A) F.
    Let T := canon R C F.

    Lemma L_length : length L = R * C.
    Proof. unfold L. rewrite map_length. exact HF. Qed.

    Lemma flat_get_value : forall i j, i < R -> j < C ->
      mnt_get_value A T i j = Some (nth (i * C + j) F []).
    Proof.
      intros i j Hi Hj. unfold mnt_get_value, T, canon. cbn [nc offs vals].
      pose proof (mul_lt_cell i j R C Hi Hj) as Hlt.
      fold L. rewrite !tget_offs by (rewrite L_length; lia). cbn [obind].
      unfold L. rewrite tslice_concat by lia. replace (i * C + j + 1) with (S (i * C + j)) by lia.
      rewrite (tslice_one F _ []) by lia. simpl. rewrite app_nil_r. reflexivity.
    Qed.

    (* a contiguous window of cells [a, a+n) reinterpreted as r rows *)
    Lemma flat_window : forall a n r, a + n <= R * C -> n = r * C ->
      (let off := tslice (offs T) a (a + n + 1) in
       o0 <- hd_error off ;; ol <- last_error off ;;
       mk_mnt A r C (tslice (vals T) o0 ol) (map (fun o => o - o0) off)) =
      Some (canon r C (tslice F a (a + n))).
    Proof.
      intros a n r Ha Hn. unfold T, canon. cbn [offs vals]. fold L.
      rewrite offs_closed, tslice_map, tslice_seq by (rewrite L_length; lia).
      replace (a + n + 1 - a) with (S n) by lia.
      cbv zeta. rewrite hd_error_map_seq, last_error_map_seq. cbn [obind].
      unfold L. rewrite tslice_concat by lia.
      rewrite map_map.
      replace (map (fun x => pre (map (@length A) F) x - pre (map (@length A) F) a) (seq a (S n)))
        with (0 :: cumsum (map (@length A) (tslice F a (a + n)))).
      - apply mk_mnt_canon. rewrite tslice_length by lia. lia.
      - rewrite seg_offs by lia. replace (seq a (S n)) with (map (fun k => a + k) (seq 0 (S n)))
          by (rewrite <- seq_shift_add; f_equal; lia).
        rewrite map_map. reflexivity.
    Qed.

    (* gather of individual cells, as col_index_select / single column select do *)
    Lemma flat_cells_select : forall (X : list nat) r' c',
      Forall (fun k => k < R * C) X -> length X = r' * c' ->
      (offset_start <- tgather (offs T) X ;;
       offset_end <- tgather (offs T) (map S X) ;;
       let count := sub2 offset_end offset_start in
       vidx <- batch_index offset_start (batched_arange count) ;;
       values <- tgather (vals T) vidx ;;
       mk_mnt A r' c' values (0 :: cumsum count)) =
      Some (canon r' c' (map (fun k => nth k F []) X)).
    Proof.
      intros X r' c' HX Hlen. unfold T, canon. cbn [offs vals]. fold L.
      rewrite !tgather_offs.
      2:{ apply Forall_map. eapply Forall_impl; [|exact HX]. simpl. rewrite L_length. intros; lia. }
      2:{ eapply Forall_impl; [|exact HX]. simpl. rewrite L_length. intros; lia. }
      cbn [obind]. cbv zeta. rewrite map_map, sub2_map_same.
      destruct (gather_windows F X (fun k => k) S) as [vidx [Hv1 Hv2]].
      { eapply Forall_impl; [|exact HX]. simpl. intros; lia. }
      fold L in Hv1. change (fun x : nat => pre L x) with (pre L) in Hv1. rewrite Hv1. cbn [obind]. rewrite Hv2. cbn [obind].
      assert (Ecells : map (fun x => concat (tslice F x (S x))) X = map (fun k => nth k F []) X).
      { apply map_ext_in. intros k Hk. rewrite Forall_forall in HX. specialize (HX k Hk).
        rewrite (tslice_one F k []) by lia. simpl. apply app_nil_r. }
      rewrite Ecells.
      assert (Ecnt : map (fun x => pre L (S x) - pre L x) X = map (@length A) (map (fun k => nth k F []) X)).
      { rewrite map_map. apply map_ext_in. intros k Hk. rewrite Forall_forall in HX. specialize (HX k Hk).
        rewrite pre_S by (rewrite L_length; lia). unfold L.
        rewrite (nth_indep _ 0 (length (@nil A))) by (rewrite map_length; lia).
        rewrite map_nth. lia. }
      rewrite Ecnt. apply mk_mnt_canon. rewrite map_length. exact Hlen.
    Qed.
    Lemma flat_row_index_select : forall (iota : nat -> nat) n, 0 < n ->
      (forall r, r < n -> iota r < R) ->
      mnt_row_index_select A T (map iota (seq 0 n)) =
      Some (canon n C (seg_sel F (fun r => iota r * C) C n)).
    Proof.
      intros iota n Hn Hi. destruct n as [|n']; [lia|clear Hn].
      unfold mnt_row_index_select.
      remember (map iota (seq 0 (S n'))) as index eqn:E.
      destruct index as [|i0 rest]; [discriminate E|]. cbv beta iota. rewrite E. clear E i0 rest.
      unfold T, canon. cbn [nc offs vals]. fold L.
      rewrite !map_map, map_length, seq_length.
      rewrite (map_ext (fun x => (iota x + 1) * C) (fun x => iota x * C + C)) by (intros; lia).
      assert (Hb : forall r, r < S n' -> iota r * C + C <= R * C).
      { intros r Hr. apply mul_le_row. auto. }
      rewrite !tgather_offs.
      2:{ apply Forall_map, Forall_forall. intros r Hr. apply in_seq in Hr. rewrite L_length.
          specialize (Hb r ltac:(lia)). lia. }
      2:{ apply Forall_map, Forall_forall. intros r Hr. apply in_seq in Hr. rewrite L_length.
          specialize (Hb r ltac:(lia)). lia. }
      cbn [obind]. rewrite !map_map, sub2_map_same.
      destruct (gather_windows F (seq 0 (S n')) (fun r => iota r * C) (fun r => iota r * C + C)) as [vidx [Hv1 Hv2]].
      { apply Forall_forall. intros r Hr. apply in_seq in Hr. specialize (Hb r ltac:(lia)). rewrite HF. lia. }
      fold L in Hv1. rewrite Hv1. cbn [obind]. rewrite Hv2. cbn [obind]. clear Hv1 Hv2 vidx.
      set (cntf := fun r => if r <? n' then C else C + 1).
      assert (Ecnt : repeat C (S n' - 1) ++ [C + 1] = map cntf (seq 0 (S n'))).
      { replace (S n' - 1) with n' by lia. rewrite (seq_S n' 0), map_app. f_equal.
        - rewrite (repeat_map_seq C n' 0). apply map_ext_in. intros r Hr. apply in_seq in Hr. unfold cntf.
          replace (r <? n') with true by (symmetry; apply Nat.ltb_lt; lia). reflexivity.
        - simpl. unfold cntf. rewrite Nat.ltb_irrefl. reflexivity. }
      rewrite Ecnt. clear Ecnt.
      rewrite batch_index_map. cbn [obind].
      rewrite tgather_offs.
      2:{ apply Forall_forall. intros x Hx. apply in_flat_map in Hx. destruct Hx as [r [Hr Hx]].
          apply in_seq in Hr. apply in_seq in Hx. specialize (Hb r ltac:(lia)). rewrite L_length.
          assert (cntf r <= C + 1) by (unfold cntf; destruct (r <? n'); lia). lia. }
      cbn [obind]. rewrite tgather_batch_map. cbn [obind].
      rewrite starts_removelast by (simpl; discriminate).
      unfold starts. rewrite map_length, seq_length.
      rewrite tgather_batch_map. cbn [obind].
      rewrite map_flat_map, sub2_flat_map, add2_flat_map.
      2:{ intros x _. unfold sub2. rewrite !map_length, combine_length, map_length, seq_length, !repeat_length. lia. }
      2:{ intros x _. rewrite map_length, seq_length, repeat_length. reflexivity. }
      erewrite flat_map_ext; [|intros; apply seg_arith].
      assert (Ev : concat (map (fun x => concat (tslice F (iota x * C) (iota x * C + C))) (seq 0 (S n')))
                   = concat (seg_sel F (fun r => iota r * C) C (S n'))).
      { unfold seg_sel. rewrite concat_flat_map, flat_map_concat_map. reflexivity. }
      rewrite Ev. clear Ev.
      match goal with |- mk_mnt _ _ _ _ ?X = _ =>
        replace X with (0 :: cumsum (map (@length A) (seg_sel F (fun r => iota r * C) C (S n')))) end.
      - apply mk_mnt_canon. apply seg_sel_length. intros; rewrite HF; auto.
      - symmetry. apply (seg_offs_last_special F (fun r => iota r * C) C n'). intros; rewrite HF; auto.
    Qed.
    Lemma flat_col_narrow : forall start len, 0 < len -> start + len <= C -> (start = 0 -> len < C) ->
      mnt_col_narrow A T start len =
      Some (canon R len (seg_sel F (fun r => r * C + start) len R)).
    Proof.
      intros start len Hlen Hse H0. unfold mnt_col_narrow, T, canon. cbn [nr nc offs vals]. fold L.
      assert (Emat :
        (if start =? 0
         then (if start + len <? C
               then option_map (map (fun r => tslice r start (start + len + 1)))
                               (reshape R C (removelast (0 :: cumsum L)))
               else None)
         else option_map (map (fun r => tslice r (start - 1) (start + len)))
                         (reshape R C (tl (0 :: cumsum L)))) =
        Some (map (fun r => map (pre L) (seq (r * C + start) (S len))) (seq 0 R))).
      { rewrite offs_closed, L_length. destruct (start =? 0) eqn:Es.
        - apply Nat.eqb_eq in Es. subst start. specialize (H0 eq_refl).
          replace (0 + len <? C) with true by (symmetry; apply Nat.ltb_lt; lia).
          rewrite removelast_map_seq. unfold reshape. rewrite map_length, seq_length, Nat.eqb_refl.
          cbn [option_map]. f_equal. rewrite chunk_rows_map_seq, map_map. apply map_ext. intros r.
          rewrite tslice_map, tslice_seq_gen by lia. f_equal. f_equal; lia.
        - apply Nat.eqb_neq in Es.
          change (tl (map (pre L) (seq 0 (S (R * C))))) with (map (pre L) (seq 1 (R * C))).
          unfold reshape. rewrite map_length, seq_length, Nat.eqb_refl.
          cbn [option_map]. f_equal. rewrite chunk_rows_map_seq, map_map. apply map_ext. intros r.
          rewrite tslice_map, tslice_seq_gen by lia. f_equal. f_equal; lia. }
      rewrite Emat. clear Emat. cbn [obind].
      rewrite !mapM_map.
      rewrite (mapM_Some_map _ (fun r => pre L (r * C + start))) by (intros; reflexivity).
      cbn [obind].
      rewrite (mapM_Some_map _ (fun r => pre L (r * C + start + len))) by (intros; apply last_error_map_seq).
      cbn [obind]. cbv zeta. rewrite sub2_map_same.
      assert (Hb : forall r, r < R -> r * C + start + len <= R * C).
      { intros r Hr. pose proof (mul_le_row r R C Hr). lia. }
      destruct (gather_windows F (seq 0 R) (fun r => r * C + start) (fun r => r * C + start + len)) as [vidx [Hv1 Hv2]].
      { apply Forall_forall. intros r Hr. apply in_seq in Hr. specialize (Hb r ltac:(lia)). rewrite HF. lia. }
      fold L in Hv1. rewrite Hv1. cbn [obind]. rewrite Hv2. cbn [obind]. clear Hv1 Hv2 vidx.
      rewrite combine_map_same, map_map. cbn [fst snd].
      rewrite mapM_map.
      rewrite (mapM_Some_map _ (fun r => pre L (r * C + start + len) - pre L (r * C + start)))
        by (intros; rewrite map_map; rewrite last_error_map_seq; reflexivity).
      cbn [obind].
      rewrite combine_starts by (rewrite !map_length; reflexivity).
      unfold starts. rewrite map_length, seq_length.
      rewrite combine_map_same, !map_map. cbn [fst snd].
      assert (Ebody : forall D : nat -> nat,
        map (fun x => removelast (map (fun o => o + D x) (map (fun o => o - pre L (x * C + start))
                                   (map (pre L) (seq (x * C + start) (S len)))))) (seq 0 R) =
        map (fun x => map (fun k => pre L k - pre L (x * C + start) + D x) (seq (x * C + start) len)) (seq 0 R)).
      { intros D. apply map_ext. intros x. rewrite !map_map. apply removelast_map_seq. }
      rewrite Ebody. clear Ebody.
      rewrite <- flat_map_concat_map.
      rewrite (length_flat_map_const _ _ len), seq_length
        by (intros; rewrite map_length, seq_length; reflexivity).
      replace (start + len - start) with len by lia. rewrite Nat.eqb_refl.
      assert (Ev : concat (map (fun x => concat (tslice F (x * C + start) (x * C + start + len))) (seq 0 R))
                   = concat (seg_sel F (fun r => r * C + start) len R)).
      { unfold seg_sel. rewrite concat_flat_map, flat_map_concat_map. reflexivity. }
      rewrite Ev. clear Ev.
      match goal with |- mk_mnt _ _ _ _ ?X = _ =>
        replace X with (0 :: cumsum (map (@length A) (seg_sel F (fun r => r * C + start) len R))) end.
      - apply mk_mnt_canon. apply seg_sel_length. intros r Hr; rewrite HF. specialize (Hb r Hr). lia.
      - symmetry. apply (seg_offs_body F (fun r => r * C + start) len R).
        intros r Hr; rewrite HF. specialize (Hb r Hr). lia.
    Qed.
  End FlatView.
  Lemma flat_map_nth_seq : forall {X Y} (f : X -> list Y) (l : list X) d,
    flat_map f l = flat_map (fun r => f (nth r l d)) (seq 0 (length l)).
  Proof. intros. rewrite <- (flat_map_map (fun r => nth r l d) f). rewrite <- map_nth_seq. reflexivity. Qed.

  Lemma map_nth_seq' : forall {X Y} (f : X -> Y) (l : list X) d,
    map f l = map (fun r => f (nth r l d)) (seq 0 (length l)).
  Proof. intros. rewrite <- (map_map (fun r => nth r l d) f). rewrite <- map_nth_seq. reflexivity. Qed.

  (* ---------------------------------------------------------------- *)
  Section Cells.
    Variable c : nat.
    Variable m : cellmat A.
    Hypothesis Hrect : rect c m.

    Let HF : length (concat m) = length m * c := rect_concat_length c m Hrect.

    Lemma rect_tslice_rows : forall a b, rect c (tslice m a b).
    Proof.
      intros a b. pose proof Hrect as H. unfold rect in *. apply Forall_forall. intros x Hx.
      rewrite Forall_forall in H. apply H. eapply In_tslice, Hx.
    Qed.
    Lemma cells_get_value : forall i j, i < length m -> j < c ->
      mnt_get_value A (mnt_of_cells c m) i j = Some (nth j (nth i m []) []).
    Proof.
      intros i j Hi Hj. rewrite mnt_of_cells_canon.
      rewrite (flat_get_value (concat m) (length m) c HF) by auto.
      rewrite (rect_cell c m i j []) by auto. reflexivity.
    Qed.

    Lemma cells_row_narrow : forall start len, start + len <= length m ->
      mnt_row_narrow A (mnt_of_cells c m) start len =
      Some (mnt_of_cells c (pick_rows (seq start len) m)).
    Proof.
      intros start len H. rewrite mnt_of_cells_canon. unfold mnt_row_narrow, canon. cbn [nc offs vals].
      replace ((start + len) * c + 1) with (start * c + len * c + 1) by lia.
      replace (start + len - start) with len by lia.
      assert (Hle : start * c + len * c <= length m * c) by nia.
      etransitivity;
        [exact (flat_window (concat m) (length m) c HF (start * c) (len * c) len Hle eq_refl)|].
      unfold pick_rows. rewrite (map_nth_seq_tslice m []) by lia.
      rewrite mnt_of_cells_canon. rewrite tslice_length by lia.
      replace (start + len - start) with len by lia.
      replace (start * c + len * c) with ((start + len) * c) by lia.
      rewrite (rect_tslice c m) by (auto; lia). reflexivity.
    Qed.
    Lemma cells_row_index_select : forall idx, idx <> [] -> Forall (fun i => i < length m) idx ->
      mnt_row_index_select A (mnt_of_cells c m) idx = Some (mnt_of_cells c (pick_rows idx m)).
    Proof.
      intros idx Hne Hidx.
      set (iota := fun r => nth r idx 0).
      assert (E : idx = map iota (seq 0 (length idx))) by apply map_nth_seq.
      assert (Hn : 0 < length idx) by (destruct idx; [congruence|simpl; lia]).
      assert (Hi : forall r, r < length idx -> iota r < length m).
      { intros r Hr. rewrite Forall_forall in Hidx. apply Hidx. apply nth_In. exact Hr. }
      transitivity (mnt_row_index_select A (canon (length m) c (concat m)) (map iota (seq 0 (length idx)))).
      { rewrite <- E. reflexivity. }
      rewrite (flat_row_index_select (concat m) (length m) c HF iota (length idx) Hn Hi).
      f_equal. rewrite mnt_of_cells_canon. unfold pick_rows. rewrite map_length. f_equal.
      unfold seg_sel. rewrite (map_nth_seq' (fun i => nth i m []) idx 0), <- flat_map_concat_map.
      apply flat_map_ext_in. intros r Hr. apply in_seq in Hr. fold (iota r).
      rewrite (rect_row c m) by (auto; apply Hi; lia). reflexivity.
    Qed.

    Lemma cells_gather : forall (X : list nat) r' c', Forall (fun k => k < length m * c) X ->
      length X = r' * c' ->
      (offset_start <- tgather (offs (mnt_of_cells c m)) X ;;
       offset_end <- tgather (offs (mnt_of_cells c m)) (map S X) ;;
       let count := sub2 offset_end offset_start in
       vidx <- batch_index offset_start (batched_arange count) ;;
       values <- tgather (vals (mnt_of_cells c m)) vidx ;;
       mk_mnt A r' c' values (0 :: cumsum count)) =
      Some (canon r' c' (map (fun k => nth k (concat m) []) X)).
    Proof.
      intros X r' c' HX Hlen. exact (flat_cells_select (concat m) (length m) c HF X r' c' HX Hlen).
    Qed.

    Lemma cells_col_index_select : forall idx, idx <> [] -> Forall (fun j => j < c) idx ->
      mnt_col_index_select A (mnt_of_cells c m) idx =
      Some (mnt_of_cells (length idx) (pick_cols idx m)).
    Proof.
      intros idx Hne Hidx. unfold mnt_col_index_select.
      destruct idx as [|i0 rest]; [congruence|]. remember (i0 :: rest) as idx eqn:E. clear E i0 rest Hne.
      change (nr (mnt_of_cells c m)) with (length m). change (nc (mnt_of_cells c m)) with c.
      etransitivity; [apply cells_gather|].
      - apply Forall_forall. intros k Hk. apply in_flat_map in Hk. destruct Hk as [r [Hr Hk]].
        apply in_seq in Hr. apply in_map_iff in Hk. destruct Hk as [j [<- Hj]].
        rewrite Forall_forall in Hidx. specialize (Hidx j Hj).
        pose proof (mul_lt_cell r j (length m) c ltac:(lia) Hidx). lia.
      - rewrite (length_flat_map_const _ _ (length idx)), seq_length; [reflexivity|].
        intros; apply map_length.
      - f_equal. rewrite mnt_of_cells_canon. unfold pick_cols. rewrite map_length. f_equal.
        rewrite map_flat_map, <- flat_map_concat_map, (flat_map_nth_seq _ m []).
        apply flat_map_ext_in. intros r Hr. apply in_seq in Hr. rewrite map_map.
        apply map_ext_in. intros j Hj. rewrite Forall_forall in Hidx. specialize (Hidx j Hj).
        rewrite (rect_cell c m r j []) by (auto; lia). f_equal. lia.
    Qed.

    Lemma cells_single_row : forall i, i < length m ->
      mnt_single_index_select A (mnt_of_cells c m) i 0 = Some (mnt_of_cells c (pick_rows [i] m)).
    Proof.
      intros i Hi. rewrite mnt_of_cells_canon. unfold mnt_single_index_select, canon.
      cbn [Nat.eqb nc offs vals].
      replace ((i + 1) * c + 1) with (i * c + c + 1) by lia.
      pose proof (mul_le_row i (length m) c Hi) as Hle.
      etransitivity;
        [exact (flat_window (concat m) (length m) c HF (i * c) c 1 Hle (eq_sym (Nat.mul_1_l c)))|].
      f_equal. rewrite mnt_of_cells_canon. unfold pick_rows. cbn [map length concat].
      rewrite app_nil_r, (rect_row c m i) by auto. reflexivity.
    Qed.

    Lemma cells_single_col : forall j, j < c ->
      mnt_single_index_select A (mnt_of_cells c m) j 1 = Some (mnt_of_cells 1 (pick_cols [j] m)).
    Proof.
      intros j Hj. unfold mnt_single_index_select. cbn [Nat.eqb].
      change (nr (mnt_of_cells c m)) with (length m). change (nc (mnt_of_cells c m)) with c.
      etransitivity; [apply cells_gather|].
      - apply Forall_forall. intros k Hk. apply in_map_iff in Hk. destruct Hk as [r [<- Hr]].
        apply in_seq in Hr. apply mul_lt_cell; auto; lia.
      - rewrite map_length, seq_length. lia.
      - f_equal. rewrite mnt_of_cells_canon. unfold pick_cols. rewrite map_length. f_equal.
        rewrite map_map, <- flat_map_concat_map. cbn [map]. rewrite flat_map_singleton.
        rewrite (map_nth_seq' (fun r => nth j r []) m []).
        apply map_ext_in. intros r Hr. apply in_seq in Hr.
        rewrite (rect_cell c m r j []) by (auto; lia). reflexivity.
    Qed.

    Lemma cells_col_narrow : forall start len, 0 < len -> start + len <= c -> (start = 0 -> len < c) ->
      mnt_col_narrow A (mnt_of_cells c m) start len =
      Some (mnt_of_cells len (pick_cols (seq start len) m)).
    Proof.
      intros start len Hlen Hse H0. rewrite mnt_of_cells_canon.
      rewrite (flat_col_narrow (concat m) (length m) c HF start len Hlen Hse H0).
      f_equal. rewrite mnt_of_cells_canon. unfold pick_cols. rewrite map_length. f_equal.
      unfold seg_sel. rewrite <- flat_map_concat_map, (flat_map_nth_seq _ m []).
      apply flat_map_ext_in. intros r Hr. apply in_seq in Hr.
      pose proof (rect_row_length c m r Hrect ltac:(lia)) as Hrl.
      rewrite (map_nth_seq_tslice (nth r m []) []) by lia.
      rewrite (rect_row c m r) by (auto; lia).
      rewrite tslice_tslice by lia. f_equal. lia.
    Qed.

    Lemma cells_empty_rows : mnt_empty A (mnt_of_cells c m) 0 = Some (mnt_of_cells c (pick_rows [] m)).
    Proof. reflexivity. Qed.

    Lemma cells_empty_cols : mnt_empty A (mnt_of_cells c m) 1 = Some (mnt_of_cells 0 (pick_cols [] m)).
    Proof.
      unfold mnt_empty, mk_mnt. cbn [Nat.eqb nr nc mnt_of_cells last length andb].
      rewrite Nat.mul_0_r. cbn [Nat.add Nat.eqb].
      unfold mnt_of_cells, pick_cols. rewrite map_length. cbn [map].
      replace (concat (map (fun _ => []) m)) with (@nil (list A)); [reflexivity|].
      clear. induction m; simpl; auto.
    Qed.

    Lemma pick_rows_all : pick_rows (seq 0 (length m)) m = m.
    Proof. unfold pick_rows. symmetry. apply map_nth_seq. Qed.

    Lemma pick_cols_all : pick_cols (seq 0 c) m = m.
    Proof.
      unfold pick_cols. pose proof Hrect as H. unfold rect in H.
      induction H as [|x l Hx Hl IH]; simpl; auto. f_equal; auto.
      rewrite <- Hx. symmetry. apply map_nth_seq.
    Qed.
    Lemma cells_index_select : forall idx dim, dim < 2 ->
      Forall (fun i => i < (if dim =? 0 then length m else c)) idx ->
      index_select A _ (mnt_kernels A) (mnt_of_cells c m) idx dim =
      Some (mnt_of_cells (if dim =? 0 then c else length idx) (pick dim idx m)).
    Proof.
      intros idx dim Hd H. unfold index_select, pick.
      destruct dim as [|[|dim]]; [| |lia];
        cbn [Nat.eqb mnt_kernels k_row_index_select k_col_index_select] in *.
      - destruct idx as [|i0 rest]; [apply cells_empty_rows|].
        apply cells_row_index_select; [discriminate|exact H].
      - destruct idx as [|i0 rest]; [apply cells_empty_cols|].
        apply cells_col_index_select; [discriminate|exact H].
    Qed.

    Lemma cells_narrow : forall dim lo hi, dim < 2 ->
      hi <= (if dim =? 0 then length m else c) ->
      narrow A _ (mnt_kernels A) (mnt_of_cells c m) dim lo (Z.of_nat hi - Z.of_nat lo) =
      Some (mnt_of_cells (if dim =? 0 then c else length (seq lo (hi - lo)))
                         (pick dim (seq lo (hi - lo)) m)).
    Proof.
      intros dim lo hi Hd Hhi. unfold narrow, size, pick.
      destruct dim as [|[|dim]]; [| |lia];
        cbn [Nat.eqb mnt_kernels k_rows k_cols k_empty k_row_narrow k_col_narrow] in *;
        change (nr (mnt_of_cells c m)) with (length m); change (nc (mnt_of_cells c m)) with c.
      - destruct ((lo =? 0) && (Z.of_nat (length m) <=? Z.of_nat lo + (Z.of_nat hi - Z.of_nat lo))%Z) eqn:E1.
        + apply andb_true_iff in E1. destruct E1 as [E1 E2]. apply Nat.eqb_eq in E1. apply Z.leb_le in E2.
          subst lo. replace (hi - 0) with (length m) by lia. rewrite pick_rows_all. reflexivity.
        + destruct (Z.of_nat hi - Z.of_nat lo <=? 0)%Z eqn:E2.
          * apply Z.leb_le in E2. replace (hi - lo) with 0 by lia. apply cells_empty_rows.
          * apply Z.leb_gt in E2. replace (Z.to_nat (Z.of_nat hi - Z.of_nat lo)) with (hi - lo) by lia.
            apply cells_row_narrow. lia.
      - rewrite seq_length.
        destruct ((lo =? 0) && (Z.of_nat c <=? Z.of_nat lo + (Z.of_nat hi - Z.of_nat lo))%Z) eqn:E1.
        + apply andb_true_iff in E1. destruct E1 as [E1 E2]. apply Nat.eqb_eq in E1. apply Z.leb_le in E2.
          subst lo. replace (hi - 0) with c by lia. rewrite pick_cols_all. reflexivity.
        + destruct (Z.of_nat hi - Z.of_nat lo <=? 0)%Z eqn:E2.
          * apply Z.leb_le in E2. replace (hi - lo) with 0 by lia. apply cells_empty_cols.
          * apply Z.leb_gt in E2. replace (Z.to_nat (Z.of_nat hi - Z.of_nat lo)) with (hi - lo) by lia.
            apply cells_col_narrow; try lia.
            intros ->. apply andb_false_iff in E1. destruct E1 as [E1|E1]; [discriminate|].
            apply Z.leb_gt in E1. lia.
    Qed.

    Lemma cells_select : forall ix dim, dim < 2 ->
      select A _ (mnt_kernels A) (mnt_of_cells c m) ix dim =
      match py_positions (if dim =? 0 then length m else c) ix with
      | Some pos => Some (mnt_of_cells (if dim =? 0 then c else length pos) (pick dim pos m))
      | None => None
      end.
    Proof.
      intros ix dim Hd. unfold select, slice_, normalize_tensor.
      assert (Hn : size A _ (mnt_kernels A) (mnt_of_cells c m) dim = (if dim =? 0 then length m else c)).
      { unfold size. destruct (dim =? 0); reflexivity. }
      rewrite Hn. clear Hn. set (n := if dim =? 0 then length m else c).
      destruct ix as [i|a b s|l|a b s|l|mk]; cbn [py_positions].
      - destruct (norm_index n i) as [k|] eqn:E; cbn [obind option_map]; [|reflexivity].
        apply norm_index_lt in E. subst n. unfold pick.
        destruct dim as [|[|dim]]; [| |lia]; cbn [Nat.eqb mnt_kernels k_single_index_select length] in *.
        + apply cells_single_row. exact E.
        + apply cells_single_col. exact E.
      - set (st := match s with Some v => v | None => 1%Z end).
        destruct (st <=? 0)%Z eqn:Est; [reflexivity|]. apply Z.leb_gt in Est.
        destruct (slice_indices n a b) as [lo hi] eqn:Esl.
        assert (Hhi : hi <= n).
        { unfold slice_indices in Esl. injection Esl as _ <-. apply clamp_bound_le. lia. }
        destruct (1 <? st)%Z eqn:E1.
        + apply cells_index_select; auto. eapply Forall_impl; [|apply range_up_bound; lia].
          simpl. fold n. intros; lia.
        + apply Z.ltb_ge in E1. replace st with 1%Z by lia. change (Z.to_nat 1) with 1.
          rewrite range_up_1. apply cells_narrow; auto.
      - destruct (mapM (norm_index n) l) as [idx|] eqn:E; cbn [obind]; [|reflexivity].
        apply cells_index_select; auto. eapply mapM_Forall; [|exact E]. intros x y; apply norm_index_lt.
      - destruct (py_range a b s) as [l|]; cbn [obind]; [|reflexivity].
        destruct (mapM (norm_index n) l) as [idx|] eqn:E; cbn [obind]; [|reflexivity].
        apply cells_index_select; auto. eapply mapM_Forall; [|exact E]. intros x y; apply norm_index_lt.
      - destruct (mapM (norm_index n) l) as [idx|] eqn:E; cbn [obind]; [|reflexivity].
        apply cells_index_select; auto. eapply mapM_Forall; [|exact E]. intros x y; apply norm_index_lt.
      - destruct (length mk =? n) eqn:E; [|reflexivity]. apply Nat.eqb_eq in E.
        apply cells_index_select; auto. apply nonzero_bound_n. exact E.
    Qed.
  End Cells.
  (* ---------------------------------------------------------------- *)
  (* the statements of Props/C05.v *)

  Lemma py_positions_bound : forall n ix pos, py_positions n ix = Some pos -> Forall (fun i => i < n) pos.
  Proof.
    intros n ix pos. destruct ix as [i|a b s|l|a b s|l|mk]; cbn [py_positions].
    - destruct (norm_index n i) as [k|] eqn:E; cbn [option_map]; [|discriminate].
      intros H; injection H as <-. constructor; [|constructor]. eapply norm_index_lt, E.
    - set (st := match s with Some v => v | None => 1%Z end).
      destruct (st <=? 0)%Z eqn:Est; [discriminate|]. apply Z.leb_gt in Est.
      destruct (slice_indices n a b) as [lo hi] eqn:Esl.
      assert (Hhi : hi <= n).
      { unfold slice_indices in Esl. injection Esl as _ <-. apply clamp_bound_le. lia. }
      intros H; injection H as <-. eapply Forall_impl; [|apply range_up_bound; lia].
      simpl. intros; lia.
    - intros E. eapply mapM_Forall; [|exact E]. intros x y; apply norm_index_lt.
    - destruct (py_range a b s) as [l|]; cbn [obind]; [|discriminate].
      intros E. eapply mapM_Forall; [|exact E]. intros x y; apply norm_index_lt.
    - intros E. eapply mapM_Forall; [|exact E]. intros x y; apply norm_index_lt.
    - destruct (length mk =? n) eqn:E; [|discriminate]. apply Nat.eqb_eq in E.
      intros H; injection H as <-. apply nonzero_bound_n. exact E.
  Qed.

  Lemma mnt_select_refines_proof : forall (c : nat) (m : cellmat A) (ix : index) (dim : nat),
    rect c m -> dim < 2 ->
    select A _ (mnt_kernels A) (mnt_of_cells c m) ix dim =
    match py_positions (if dim =? 0 then length m else c) ix with
    | Some pos => Some (mnt_of_cells (if dim =? 0 then c else length pos) (pick dim pos m))
    | None => None
    end.
  Proof. intros c m ix dim H Hd. apply cells_select; assumption. Qed.

  Lemma pick_rect_proof : forall (c : nat) (m : cellmat A) (ix : index) (dim : nat) (pos : list nat),
    rect c m -> dim < 2 ->
    py_positions (if dim =? 0 then length m else c) ix = Some pos ->
    rect (if dim =? 0 then c else length pos) (pick dim pos m).
  Proof.
    intros c m ix dim pos H Hd Hp. apply py_positions_bound in Hp. unfold pick, rect.
    destruct dim as [|[|dim]]; [| |lia]; cbn [Nat.eqb] in *.
    - unfold pick_rows. apply Forall_map. eapply Forall_impl; [|exact Hp].
      simpl. intros i Hi. apply (rect_row_length c m i H Hi).
    - unfold pick_cols. apply Forall_map. apply Forall_forall. intros r _. apply map_length.
  Qed.

  Lemma mnt_get_value_proof : forall (c : nat) (m : cellmat A) (i j : nat),
    rect c m -> i < length m -> j < c ->
    mnt_get_value A (mnt_of_cells c m) i j = Some (nth j (nth i m []) []).
  Proof. intros c m i j H Hi Hj. apply cells_get_value; assumption. Qed.

  Lemma mnt_getitem_ints_proof : forall (c : nat) (m : cellmat A) (i j : Z),
    rect c m ->
    getitem_pair A _ (mnt_kernels A) (mnt_of_cells c m) (IInt i) (IInt j) =
    match norm_index (length m) i, norm_index c j with
    | Some i', Some j' => Some (ItemValue A _ (nth j' (nth i' m []) []))
    | _, _ => None
    end.
  Proof.
    intros c m i j H. unfold getitem_pair. cbn [mnt_kernels k_rows k_cols k_get_value].
    change (nr (mnt_of_cells c m)) with (length m). change (nc (mnt_of_cells c m)) with c.
    destruct (norm_index (length m) i) as [i'|] eqn:Ei; cbn [obind]; [|reflexivity].
    destruct (norm_index c j) as [j'|] eqn:Ej; cbn [obind]; [|reflexivity].
    apply norm_index_lt in Ei. apply norm_index_lt in Ej.
    rewrite cells_get_value by assumption. reflexivity.
  Qed.
  (* ---------------------------------------------------------------- *)
  (* well-formedness is intrinsic *)

  Lemma sorted_cumsum : forall L a, sorted (a :: cumsum_from a L).
  Proof.
    induction L as [|x L IH]; intros a; simpl; auto.
    split; [lia|]. apply IH.
  Qed.

  Lemma sorted_le_last : forall l b, sorted (b :: l) -> b <= last (b :: l) 0.
  Proof.
    induction l as [|x l IH]; intros b H; [simpl; lia|].
    destruct H as [Hbx H]. specialize (IH x H).
    change (last (b :: x :: l) 0) with (last (x :: l) 0). lia.
  Qed.

  Lemma firstn_add : forall {X} (l : list X) n k, firstn (n + k) l = firstn n l ++ firstn k (skipn n l).
  Proof.
    intros X l n; revert l. induction n as [|n IH]; intros l k; [reflexivity|].
    destruct l as [|x l]; simpl.
    - rewrite firstn_nil. reflexivity.
    - f_equal. apply IH.
  Qed.

  Lemma tslice_app : forall {X} (l : list X) a b c, a <= b -> b <= c ->
    tslice l a b ++ tslice l b c = tslice l a c.
  Proof.
    intros X l a b c Hab Hbc. unfold tslice.
    replace (c - a) with ((b - a) + (c - b)) by lia. rewrite firstn_add. f_equal.
    rewrite skipn_skipn'. f_equal. f_equal. lia.
  Qed.

  Fixpoint cut (V : list A) (O : list nat) : list (list A) :=
    match O with
    | [] => []
    | a :: O' => match O' with [] => [] | b :: _ => tslice V a b :: cut V O' end
    end.

  Lemma cut_length : forall V O' a, length (cut V (a :: O')) = length O'.
  Proof. intros V O'; induction O' as [|b O' IH]; intros a; [reflexivity|]. simpl in *. f_equal. apply IH. Qed.

  Lemma cut_offs : forall V O' a, sorted (a :: O') -> last (a :: O') 0 <= length V ->
    cumsum_from a (map (@length A) (cut V (a :: O'))) = O'.
  Proof.
    intros V O'; induction O' as [|b O' IH]; intros a Hs Hl; [reflexivity|].
    destruct Hs as [Hab Hs]. change (last (a :: b :: O') 0) with (last (b :: O') 0) in Hl.
    pose proof (sorted_le_last O' b Hs) as Hb.
    change (cut V (a :: b :: O')) with (tslice V a b :: cut V (b :: O')).
    cbn [map cumsum_from]. rewrite tslice_length by lia.
    replace (a + (b - a)) with b by lia. f_equal. apply IH; assumption.
  Qed.

  Lemma cut_concat : forall V O' a, sorted (a :: O') -> last (a :: O') 0 <= length V ->
    concat (cut V (a :: O')) = tslice V a (last (a :: O') 0).
  Proof.
    intros V O'; induction O' as [|b O' IH]; intros a Hs Hl.
    - simpl. unfold tslice. rewrite Nat.sub_diag. reflexivity.
    - destruct Hs as [Hab Hs]. change (last (a :: b :: O') 0) with (last (b :: O') 0) in *.
      pose proof (sorted_le_last O' b Hs) as Hb.
      change (cut V (a :: b :: O')) with (tslice V a b :: cut V (b :: O')).
      cbn [concat]. rewrite IH by assumption. apply tslice_app; assumption.
  Qed.

  Lemma chunk_rows_length : forall {X} r c (l : list X), length (chunk_rows r c l) = r.
  Proof. intros X r c; induction r as [|r IH]; intros l; simpl; auto. Qed.

  Lemma chunk_rows_rect : forall {X} r c (l : list X), length l = r * c ->
    Forall (fun x => length x = c) (chunk_rows r c l).
  Proof.
    intros X r c; induction r as [|r IH]; intros l H; simpl; constructor.
    - rewrite firstn_length. simpl in H. lia.
    - apply IH. rewrite skipn_length. simpl in H. lia.
  Qed.

  Lemma concat_chunk_rows : forall {X} r c (l : list X), length l = r * c ->
    concat (chunk_rows r c l) = l.
  Proof.
    intros X r c; induction r as [|r IH]; intros l H; simpl.
    - destruct l; [reflexivity|discriminate].
    - rewrite IH by (rewrite skipn_length; simpl in H; lia). apply firstn_skipn.
  Qed.

  Lemma mnt_wf_intrinsic_proof : forall t : mnt A, mnt_wf t <-> mnt_valid t.
  Proof.
    intros t. split.
    - intros [m [Hr Ht]]. destruct t as [R C V O]. cbn [nc] in *.
      unfold mnt_of_cells in Ht. injection Ht as -> -> ->.
      unfold mnt_valid. cbn [nr nc vals offs].
      split; [|split; [|split]].
      + rewrite offs_length, map_length, (rect_concat_length C m Hr). lia.
      + reflexivity.
      + rewrite offs_last, sum_map_length_concat. reflexivity.
      + apply sorted_cumsum.
    - destruct t as [R C V O]. unfold mnt_valid, mnt_wf. cbn [nr nc vals offs].
      intros [Hlen [Hhd [Hlast Hs]]].
      destruct O as [|o0 O']; [simpl in Hlen; lia|]. simpl in Hhd. subst o0.
      assert (HlO : length O' = R * C) by (simpl in Hlen; lia).
      set (F := cut V (0 :: O')).
      assert (HlF : length F = R * C) by (unfold F; rewrite cut_length; exact HlO).
      exists (chunk_rows R C F). split.
      + apply chunk_rows_rect. exact HlF.
      + unfold mnt_of_cells. rewrite chunk_rows_length, concat_chunk_rows by exact HlF.
        unfold F. rewrite cut_concat by (auto; lia). rewrite Hlast, tslice_all.
        unfold cumsum. rewrite cut_offs by (auto; lia). reflexivity.
  Qed.
End Mnt.
