(* C10 — lemmas about Model/Loader.v. *)
From Coq Require Import List Arith Bool Lia Permutation.
From PF Require Import Lib.ListX Lib.Chunks Proofs.ChunksFacts Proofs.ListXFacts Model.Loader.
Import ListNotations.

(* ------------------------------------------------------------------ *)
(* extra chunk facts *)

Lemma concat_length_const : forall {A} (cs : list (list A)) k,
  Forall (fun c => length c = k) cs -> length (concat cs) = k * length cs.
Proof.
  intros A cs k H. induction H as [|c cs Hc Hcs IH]; simpl; [lia|].
  rewrite app_length, IH, Hc. lia.
Qed.

Lemma drop_short_count : forall {A} k (l : list A), 0 < k ->
  length (drop_short k (chunks k l)) = length l / k.
Proof.
  intros A k l Hk.
  destruct (drop_short_prefix k l Hk) as [tail [E Ht]].
  pose proof (concat_length_const _ k (drop_short_all_full k (chunks k l))) as Hc.
  assert (Hl : length l = k * length (drop_short k (chunks k l)) + length tail).
  { rewrite E at 1. rewrite app_length, Hc. reflexivity. }
  apply Nat.div_unique with (r := length tail); auto.
Qed.

Lemma drop_short_lost : forall {A} k (l : list A), 0 < k ->
  length (concat (drop_short k (chunks k l))) = length l - length l mod k.
Proof.
  intros A k l Hk.
  rewrite (concat_length_const _ k (drop_short_all_full k (chunks k l))).
  rewrite drop_short_count by auto.
  pose proof (Nat.div_mod (length l) k ltac:(lia)). lia.
Qed.

Lemma chunks_nil : forall {A} k, chunks k (@nil A) = [].
Proof. reflexivity. Qed.

(* chunk sizes depend only on the length of the list *)
Lemma chunks_fuel_lengths : forall {A B} fuel k (l : list A) (m : list B),
  length l = length m ->
  map (@length A) (chunks_fuel fuel k l) = map (@length B) (chunks_fuel fuel k m).
Proof.
  intros A B fuel k. induction fuel as [|f IH]; intros l m H; [reflexivity|].
  destruct l as [|x l]; destruct m as [|y m]; try discriminate; [reflexivity|].
  cbn [chunks_fuel map]. f_equal.
  - rewrite !firstn_length, H. reflexivity.
  - apply IH. rewrite !skipn_length, H. reflexivity.
Qed.

Lemma chunks_lengths : forall {A B} k (l : list A) (m : list B),
  length l = length m -> map (@length A) (chunks k l) = map (@length B) (chunks k m).
Proof. intros A B k l m H. unfold chunks. rewrite H. apply chunks_fuel_lengths. exact H. Qed.

(* a list of lists is determined by its concatenation and its block lengths *)
Lemma concat_lengths_inj : forall {A} (a b : list (list A)),
  concat a = concat b -> map (@length A) a = map (@length A) b -> a = b.
Proof.
  intros A. induction a as [|x a IH]; intros b Hc Hl; destruct b as [|y b]; try discriminate; auto.
  simpl in *. injection Hl as Hxy Hl.
  assert (x = y /\ concat a = concat b) as [-> Hc'].
  { clear IH Hl. revert y Hxy Hc. induction x as [|e x IHx]; intros y Hxy Hc; destruct y as [|e' y]; try discriminate.
    - auto.
    - simpl in *. injection Hc as -> Hc. injection Hxy as Hxy. destruct (IHx y Hxy Hc) as [-> ?]. auto. }
  f_equal. apply IH; auto.
Qed.

(* ------------------------------------------------------------------ *)
(* loader_batches: the BatchSampler clauses *)

Lemma batches_concat_keep : forall n bs order, 0 < bs ->
  concat (loader_batches n bs order false) = order.
Proof. intros. unfold loader_batches. apply chunks_concat; auto. Qed.

Lemma batches_concat_drop : forall n bs order, 0 < bs ->
  exists tail, order = concat (loader_batches n bs order true) ++ tail /\ length tail < bs.
Proof. intros. unfold loader_batches. apply drop_short_prefix; auto. Qed.

Lemma batches_sizes_keep : forall n bs order, 0 < bs ->
  Forall (fun b => 0 < length b <= bs) (loader_batches n bs order false).
Proof. intros. unfold loader_batches. apply chunks_sizes; auto. Qed.

Lemma batches_all_but_last_full : forall n bs order bats b, 0 < bs ->
  loader_batches n bs order false = bats ++ [b] ->
  Forall (fun b' => length b' = bs) bats /\ 0 < length b <= bs.
Proof.
  intros n bs order bats b Hbs E. unfold loader_batches in E. split.
  - eapply chunks_all_but_last_full; eauto.
  - pose proof (chunks_sizes bs order Hbs) as H. rewrite E in H.
    apply Forall_app in H. destruct H as [_ H]. inversion H; auto.
Qed.

Lemma batches_sizes_drop : forall n bs order,
  Forall (fun b => length b = bs) (loader_batches n bs order true).
Proof. intros. unfold loader_batches. apply drop_short_all_full. Qed.

Lemma batches_count_keep : forall n bs order, 0 < bs ->
  length (loader_batches n bs order false) = (length order + bs - 1) / bs.
Proof. intros. unfold loader_batches. apply chunks_count; auto. Qed.

Lemma batches_count_drop : forall n bs order, 0 < bs ->
  length (loader_batches n bs order true) = length order / bs.
Proof. intros. unfold loader_batches. apply drop_short_count; auto. Qed.

Lemma batches_lost_drop : forall n bs order, 0 < bs ->
  length (concat (loader_batches n bs order true)) = length order - length order mod bs.
Proof. intros. unfold loader_batches. apply drop_short_lost; auto. Qed.

(* exact partition of the rows *)
Lemma batches_partition : forall n bs order, 0 < bs ->
  Permutation order (seq 0 n) ->
  Permutation (concat (loader_batches n bs order false)) (seq 0 n).
Proof. intros. rewrite batches_concat_keep; auto. Qed.

Lemma perm_seq_nodup : forall n l, Permutation l (seq 0 n) -> NoDup l.
Proof.
  intros n l H. apply Permutation_sym in H.
  eapply Permutation_NoDup; [exact H | apply seq_NoDup].
Qed.

Lemma perm_seq_in : forall n l i, Permutation l (seq 0 n) -> (In i l <-> i < n).
Proof.
  intros n l i H. split; intro Hi.
  - eapply Permutation_in in Hi; [|exact H]. apply in_seq in Hi. lia.
  - eapply Permutation_in; [apply Permutation_sym; exact H|]. apply in_seq. lia.
Qed.

Lemma nodup_app_l : forall {A} (a b : list A), NoDup (a ++ b) -> NoDup a.
Proof.
  intros A a b. induction a as [|x a IH]; simpl; intro H; [constructor|].
  inversion H as [|? ? Hn Hr]; subst. constructor.
  - intro Hi. apply Hn. apply in_or_app. left; exact Hi.
  - apply IH; exact Hr.
Qed.

Lemma batches_exactly_once : forall n bs order, 0 < bs ->
  Permutation order (seq 0 n) ->
  NoDup (concat (loader_batches n bs order false)) /\
  (forall i, In i (concat (loader_batches n bs order false)) <-> i < n).
Proof.
  intros n bs order Hbs Hp. rewrite batches_concat_keep by auto. split.
  - eapply perm_seq_nodup; eauto.
  - intro i. apply perm_seq_in; auto.
Qed.

Lemma batches_drop_at_most_once : forall n bs order, 0 < bs ->
  Permutation order (seq 0 n) ->
  NoDup (concat (loader_batches n bs order true)) /\
  (forall i, In i (concat (loader_batches n bs order true)) -> i < n) /\
  length (concat (loader_batches n bs order true)) = n - n mod bs.
Proof.
  intros n bs order Hbs Hp.
  destruct (batches_concat_drop n bs order Hbs) as [tail [E Ht]].
  pose proof (perm_seq_nodup _ _ Hp) as Hnd.
  assert (Hlen : length order = n).
  { apply Permutation_length in Hp. rewrite seq_length in Hp. exact Hp. }
  split; [|split].
  - rewrite E in Hnd. apply nodup_app_l in Hnd. exact Hnd.
  - intros i Hi. apply (perm_seq_in n order i Hp). rewrite E. apply in_or_app. left; exact Hi.
  - rewrite batches_lost_drop by auto. rewrite Hlen. reflexivity.
Qed.

(* ------------------------------------------------------------------ *)
(* mapM / tgather over a list of index batches *)

Lemma mapM_tgather_concat : forall {R} (rows : list R) (idxs : list (list nat)) bats,
  mapM (tgather rows) idxs = Some bats ->
  tgather rows (concat idxs) = Some (concat bats).
Proof.
  intros R rows idxs. induction idxs as [|ix idxs IH]; simpl; intros bats H.
  - injection H as <-. reflexivity.
  - destruct (tgather rows ix) eqn:E1; try discriminate.
    destruct (mapM (tgather rows) idxs) eqn:E2; try discriminate.
    injection H as <-. rewrite tgather_app, E1. rewrite (IH l0 eq_refl). reflexivity.
Qed.

Lemma mapM_Forall2 : forall {B C} (f : B -> option C) (l : list B) l',
  mapM f l = Some l' -> Forall2 (fun x y => f x = Some y) l l'.
Proof.
  intros B C f l. induction l as [|x l IH]; simpl; intros l' H.
  - injection H as <-. constructor.
  - destruct (f x) eqn:Ex; try discriminate. destruct (mapM f l) eqn:E; try discriminate.
    injection H as <-. constructor; auto.
Qed.

Lemma mapM_total : forall {B C} (f : B -> option C) (l : list B),
  Forall (fun x => exists y, f x = Some y) l -> exists l', mapM f l = Some l'.
Proof.
  intros B C f l H. induction H as [|x l [y Hy] Hl [l' IH]]; simpl.
  - eexists; reflexivity.
  - rewrite Hy, IH. eexists; reflexivity.
Qed.

Lemma tgather_total : forall {R} (rows : list R) idx,
  Forall (fun i => i < length rows) idx -> exists b, tgather rows idx = Some b.
Proof.
  intros R rows idx H. unfold tgather. apply mapM_total.
  eapply Forall_impl; [|exact H]. intros i Hi. unfold tget.
  destruct (nth_error rows i) eqn:E; [eexists; reflexivity|].
  apply nth_error_None in E. cbv beta in Hi. lia.
Qed.

Lemma Forall_concat : forall {A} (P : A -> Prop) (ls : list (list A)),
  Forall P (concat ls) <-> Forall (Forall P) ls.
Proof.
  intros A P ls. induction ls as [|l ls IH]; simpl.
  - split; constructor.
  - rewrite Forall_app, IH. split.
    + intros [H1 H2]. constructor; auto.
    + intro H. inversion H; auto.
Qed.

Lemma tgather_all : forall {R} (rows : list R), tgather rows (seq 0 (length rows)) = Some rows.
Proof.
  intros R rows. rewrite tgather_seq by lia. simpl. rewrite tslice_all. reflexivity.
Qed.

(* ------------------------------------------------------------------ *)
(* the loader *)

Section LoaderFacts.
  Context {R DF : Type}.
  Variable convert : DF -> list R.
  Variable df_len : DF -> nat.

  Notation loader_init := (@loader_init R DF convert df_len).

  (* each batch of the epoch is the row selection of its index list *)
  Lemma epoch_batches_are_selections : forall (ld : loader R) bats,
    loader_epoch ld = Some bats ->
    Forall2 (fun idx b => tgather (ld_tensor_frame ld) idx = Some b) (loader_index_batches ld) bats.
  Proof. intros ld bats H. unfold loader_epoch, loader_collate in H. apply mapM_Forall2 in H. exact H. Qed.

  (* all rows of the epoch, in order, are the rows selected by the index batches in order *)
  Lemma epoch_rows : forall (ld : loader R) bats,
    loader_epoch ld = Some bats ->
    tgather (ld_tensor_frame ld) (concat (loader_index_batches ld)) = Some (concat bats) /\
    map (@length R) bats = map (@length nat) (loader_index_batches ld).
  Proof.
    intros ld bats H. split.
    - apply mapM_tgather_concat. exact H.
    - apply epoch_batches_are_selections in H. induction H as [|ix b ixs bs Hb _ IH]; simpl; auto.
      f_equal; auto. unfold tgather in Hb. apply mapM_length in Hb. exact Hb.
  Qed.

  (* in-range indices never raise *)
  Lemma epoch_total : forall (ld : loader R),
    Forall (fun i => i < length (ld_tensor_frame ld)) (concat (loader_index_batches ld)) ->
    exists bats, loader_epoch ld = Some bats.
  Proof.
    intros ld H. unfold loader_epoch. apply mapM_total.
    apply Forall_concat in H. eapply Forall_impl; [|exact H].
    intros ix Hix. unfold loader_collate. apply tgather_total. exact Hix.
  Qed.

  (* what __init__ produces *)
  Lemma init_frame : forall tf kw ld,
    loader_init (SrcFrame tf) kw = Some ld ->
    ld_tensor_frame ld = tf /\ ld_n ld = length tf /\ ld_batch_size ld = kw_batch_size kw /\
    0 < ld_batch_size ld /\ ld_drop_last ld = kw_drop_last kw /\
    ld_sampling ld = match kw_sampling kw, length tf with Shuffled _, 0 => Sequential | s, _ => s end.
  Proof.
    intros tf kw ld H. unfold loader_init in H. simpl in H.
    destruct (kw_batch_size kw =? 0) eqn:E; try discriminate.
    destruct (match kw_sampling kw with BatchSampler _ => kw_drop_last kw | _ => false end); try discriminate.
    apply Nat.eqb_neq in E. injection H as <-. simpl. repeat split; auto. lia.
  Qed.

  (* no shuffle, no sampler, no drop_last: the epoch is the frame, cut into
     consecutive batches *)
  Lemma sequential_epoch : forall tf kw,
    kw_sampling kw = Sequential -> kw_drop_last kw = false -> 0 < kw_batch_size kw ->
    exists bats, run_loader convert df_len (SrcFrame tf) kw = Some bats /\
                 concat bats = tf /\ bats = chunks (kw_batch_size kw) tf.
  Proof.
    intros tf kw Hs Hd Hb. unfold run_loader.
    destruct (loader_init (SrcFrame tf) kw) as [ld|] eqn:E.
    2:{ unfold Loader.loader_init in E. simpl in E. rewrite Hs in E.
        destruct (kw_batch_size kw =? 0) eqn:E0; try discriminate. apply Nat.eqb_eq in E0. lia. }
    destruct (init_frame _ _ _ E) as [Htf [Hn [Hbs [Hpos [Hdl Hsm]]]]].
    rewrite Hs in Hsm. simpl.
    assert (Hidx : loader_index_batches ld = chunks (kw_batch_size kw) (seq 0 (length tf))).
    { unfold loader_index_batches. rewrite Hsm. unfold loader_batches. rewrite Hdl, Hd, Hbs, Hn. reflexivity. }
    assert (Htot : exists bats, loader_epoch ld = Some bats).
    { apply epoch_total. rewrite Hidx, chunks_concat by lia. rewrite Htf.
      apply Forall_forall. intros i Hi. apply in_seq in Hi. lia. }
    destruct Htot as [bats Hbats]. exists bats. split; [exact Hbats|].
    destruct (epoch_rows ld bats Hbats) as [Hrows Hlens].
    rewrite Hidx, chunks_concat in Hrows by lia. rewrite Htf, tgather_all in Hrows.
    injection Hrows as Hrows. split; [symmetry; exact Hrows|].
    (* bats and chunks bs tf have the same concatenation and the same chunk lengths *)
    rewrite Hidx in Hlens.
    assert (Hlen2 : map (@length R) (chunks (kw_batch_size kw) tf) =
                    map (@length nat) (chunks (kw_batch_size kw) (seq 0 (length tf)))).
    { apply chunks_lengths. rewrite seq_length. reflexivity. }
    pose proof (@concat_lengths_inj R) as Hsame.
    apply Hsame.
    - rewrite chunks_concat by lia. symmetry. exact Hrows.
    - rewrite Hlens, Hlen2. reflexivity.
  Qed.

  (* an epoch whose index batches concatenate to a permutation of the row
     positions delivers a permutation of the rows *)
  Lemma permuted_epoch : forall (ld : loader R),
    Permutation (concat (loader_index_batches ld)) (seq 0 (length (ld_tensor_frame ld))) ->
    exists bats, loader_epoch ld = Some bats /\ Permutation (concat bats) (ld_tensor_frame ld) /\
                 map (@length R) bats = map (@length nat) (loader_index_batches ld).
  Proof.
    intros ld Hp.
    assert (Hin : Forall (fun i => i < length (ld_tensor_frame ld)) (concat (loader_index_batches ld))).
    { apply Forall_forall. intros i Hi. apply (perm_seq_in _ _ i Hp). exact Hi. }
    destruct (epoch_total ld Hin) as [bats Hb]. exists bats. split; [exact Hb|].
    destruct (epoch_rows ld bats Hb) as [Hrows Hlens]. split; [|exact Hlens].
    destruct (ld_tensor_frame ld) as [|d tf'] eqn:Etf.
    - simpl in Hp. apply Permutation_sym, Permutation_nil in Hp. rewrite Hp in Hrows. simpl in Hrows.
      injection Hrows as <-. constructor.
    - rewrite <- Etf in *. rewrite (tgather_nth _ _ d Hin) in Hrows. injection Hrows as <-.
      eapply Permutation_trans; [apply Permutation_map; exact Hp|].
      rewrite <- map_nth_seq. apply Permutation_refl.
  Qed.

  Lemma shuffled_epoch : forall tf kw order,
    kw_sampling kw = Shuffled order -> Permutation order (seq 0 (length tf)) ->
    kw_drop_last kw = false -> 0 < kw_batch_size kw ->
    exists bats, run_loader convert df_len (SrcFrame tf) kw = Some bats /\
                 Permutation (concat bats) tf /\
                 map (@length R) bats = map (@length R) (chunks (kw_batch_size kw) tf).
  Proof.
    intros tf kw order Hs Hp Hd Hb. unfold run_loader.
    destruct (loader_init (SrcFrame tf) kw) as [ld|] eqn:E.
    2:{ unfold Loader.loader_init in E. simpl in E. rewrite Hs in E.
        destruct (kw_batch_size kw =? 0) eqn:E0; try discriminate. apply Nat.eqb_eq in E0. lia. }
    destruct (init_frame _ _ _ E) as [Htf [Hn [Hbs [Hpos [Hdl Hsm]]]]].
    rewrite Hs in Hsm. simpl.
    assert (Hidx : exists order', loader_index_batches ld = chunks (kw_batch_size kw) order' /\
                                  Permutation order' (seq 0 (length tf))).
    { unfold loader_index_batches, loader_batches. rewrite Hdl, Hd, Hbs, Hn.
      destruct (length tf) eqn:El; rewrite Hsm; simpl.
      - exists []. split; [reflexivity | constructor].
      - exists order. split; [reflexivity | exact Hp]. }
    destruct Hidx as [order' [Hidx Hp']].
    assert (Hpc : Permutation (concat (loader_index_batches ld)) (seq 0 (length (ld_tensor_frame ld)))).
    { rewrite Hidx, chunks_concat, Htf by lia. exact Hp'. }
    destruct (permuted_epoch ld Hpc) as [bats [Hbats [Hperm Hlens]]].
    exists bats. split; [exact Hbats|]. rewrite Htf in Hperm. split; [exact Hperm|].
    rewrite Hlens, Hidx. symmetry. apply chunks_lengths.
    apply Permutation_length in Hp'. rewrite seq_length in Hp'. symmetry. exact Hp'.
  Qed.

  (* a Dataset source behaves like the TensorFrame it materializes to, whether or
     not it was materialized beforehand *)
  Lemma init_dataset_materialized : forall (ds : dataset R DF) kw,
    loader_init (SrcDataset (ds_materialize convert ds)) kw = loader_init (SrcDataset ds) kw.
  Proof.
    intros ds kw. unfold Loader.loader_init, ds_materialize, ds_tensor_frame, ds_len.
    destruct (ds_tf ds) eqn:E; simpl; rewrite ?E; reflexivity.
  Qed.

  Lemma init_dataset_as_frame : forall df kw,
    df_len df = length (convert df) ->
    loader_init (SrcDataset {| ds_df := df; ds_tf := None |}) kw = loader_init (SrcFrame (convert df)) kw.
  Proof.
    intros df kw H. unfold Loader.loader_init, ds_materialize, ds_tensor_frame, ds_len. simpl. rewrite H. reflexivity.
  Qed.

  (* the user's collate_fn is never consulted *)
  Lemma init_ignores_collate : forall src bs s d c1 c2,
    loader_init src {| kw_batch_size := bs; kw_sampling := s; kw_drop_last := d; kw_collate_fn := c1 |} =
    loader_init src {| kw_batch_size := bs; kw_sampling := s; kw_drop_last := d; kw_collate_fn := c2 |}.
  Proof. reflexivity. Qed.

  (* len(loader) is the number of batches of the epoch *)
  Lemma len_is_batch_count : forall (ld : loader R), 0 < ld_batch_size ld ->
    loader_len ld = length (loader_index_batches ld).
  Proof.
    intros ld Hb. unfold loader_len, loader_index_batches.
    destruct (ld_sampling ld) eqn:Es; try reflexivity;
      destruct (ld_drop_last ld);
      rewrite ?batches_count_drop, ?batches_count_keep by auto; reflexivity.
  Qed.
End LoaderFacts.
