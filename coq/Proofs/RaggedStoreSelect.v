(* Store-level soundness of selections on MultiNestedTensor objects (C05):
   which selections are VIEWS of their source's storage, which return the SAME
   object and which allocate is part of Model/RaggedStore.v (n_place, compared
   with the library's data pointers on every run by the C06 store programs); here
   it is proved that, whatever the placement, the returned object READS BACK as
   exactly the pure selection result, and that a selection never writes: every
   object that existed before reads the same afterwards ("no selection modifies
   its source"), and at most one storage is allocated. *)
From Coq Require Import ZArith List Bool Arith Lia.
From PF Require Import Lib.ListX Lib.PySlice Model.Ragged Model.RaggedSpec Model.RaggedRun Model.RaggedCat
                       Model.RaggedStore.
From PF Require Import Proofs.ListXFacts Proofs.MntProofs Proofs.RaggedStoreProofs.
Import ListNotations.

Section SelectStore.
  Variable A : Type.
  Notation nstore := (list (list A)).
  Notation n_read := (n_read A).

  (* ---- list facts ---- *)
  Lemma hd_error_skipn : forall {B} (l : list B) a, hd_error (skipn a l) = nth_error l a.
  Proof. intros B l. induction l as [|x l IH]; intros [|a]; simpl; auto. Qed.

  Lemma hd_error_tslice : forall {B} (l : list B) a b x,
    hd_error (tslice l a b) = Some x -> nth_error l a = Some x /\ a < b.
  Proof.
    intros B l a b x H. unfold tslice in H.
    destruct (b - a) as [|k] eqn:E; [simpl in H; discriminate|].
    split; [|lia].
    destruct (skipn a l) as [|y r] eqn:Es; [simpl in H; discriminate|].
    simpl in H. injection H as <-.
    rewrite <- hd_error_skipn. rewrite Es. reflexivity.
  Qed.

  Lemma last_indep : forall {B} (l : list B) d d', l <> [] -> last l d = last l d'.
  Proof.
    intros B l d d'. induction l as [|x [|y r] IH]; intros H; [congruence | reflexivity |].
    change (last (y :: r) d = last (y :: r) d'). apply IH. discriminate.
  Qed.

  Lemma last_error_Some_last : forall {B} (l : list B) x d, last_error l = Some x -> l <> [] /\ last l d = x.
  Proof.
    intros B l x d. unfold last_error. destruct l as [|y r]; [discriminate|].
    intros H. injection H as <-. split; [discriminate|].
    destruct r as [|z r]; [reflexivity|].
    change (last (z :: r) d = last (z :: r) y). apply last_indep. discriminate.
  Qed.

  Lemma last_nth : forall {B} (l : list B) d, last l d = nth (length l - 1) l d.
  Proof.
    intros B l d. induction l as [|x [|y r] IH]; [reflexivity | reflexivity |].
    change (last (y :: r) d = nth (length (y :: r)) (x :: y :: r) d).
    rewrite IH. simpl. rewrite Nat.sub_0_r. reflexivity.
  Qed.

  Lemma last_tslice : forall {B} (l : list B) a b d, a <= b -> b < length l ->
    last (tslice l a (S b)) d = nth b l d.
  Proof.
    intros B l a b d Hab Hb. rewrite last_nth.
    rewrite tslice_length by lia. rewrite tslice_nth by lia. f_equal. lia.
  Qed.

  Lemma sorted_nth_mono : forall (l : list nat) i j, sorted l -> i <= j -> j < length l -> nth i l 0 <= nth j l 0.
  Proof.
    induction l as [|x l IH]; intros i j Hs Hij Hj; [simpl in Hj; lia|].
    destruct j as [|j]; [replace i with 0 by lia; lia|].
    destruct i as [|i].
    - simpl (nth 0 _ _). simpl (nth (S j) _ _).
      destruct Hs as [Hx Hs]. destruct l as [|y r]; [simpl in Hj; lia|].
      specialize (IH 0 j Hs ltac:(lia) ltac:(simpl in *; lia)). simpl in IH. simpl. lia.
    - simpl. destruct Hs as [_ Hs]. apply IH; [exact Hs | lia | simpl in Hj; lia].
  Qed.

  Lemma sorted_nth_le_last : forall (l : list nat) j, sorted l -> j < length l -> nth j l 0 <= last l 0.
  Proof.
    intros l j Hs Hj.
    rewrite last_nth. apply sorted_nth_mono; [exact Hs | lia | lia].
  Qed.

  (* ---- the row window shared by _row_narrow and the single-row select ---- *)
  Lemma row_window_view : forall (st : nstore) (h : hmnt) (t r : mnt A) (s e o0 ol : nat),
    n_read st h = Some t -> mnt_valid t -> s <= e -> e <= nr t ->
    hd_error (tslice (offs t) (s * nc t) (e * nc t + 1)) = Some o0 ->
    last_error (tslice (offs t) (s * nc t) (e * nc t + 1)) = Some ol ->
    mk_mnt A (e - s) (nc t) (tslice (vals t) o0 ol)
           (map (fun o => o - o0) (tslice (offs t) (s * nc t) (e * nc t + 1))) = Some r ->
    n_read st (MkHmnt (nr r) (nc r) (offs r) (n_buf h)
                      (n_start h + nth (s * nc t) (offs t) 0)
                      (nth (e * nc t) (offs t) 0 - nth (s * nc t) (offs t) 0)) = Some r.
  Proof.
    intros st h t r s e o0 ol Hr [Hlen [_ [Hlast Hsorted]]] Hse He Hhd Hla Hmk.
    assert (Hsc : s * nc t <= e * nc t) by nia.
    assert (Hec : e * nc t < length (offs t)) by (rewrite Hlen; nia).
    (* o0 and ol are the two offsets *)
    apply hd_error_tslice in Hhd. destruct Hhd as [Hhd _].
    assert (Ho0 : nth (s * nc t) (offs t) 0 = o0) by (apply nth_error_nth; exact Hhd).
    apply (last_error_Some_last _ _ 0) in Hla. destruct Hla as [_ Hla].
    replace (e * nc t + 1) with (S (e * nc t)) in Hla by lia.
    rewrite last_tslice in Hla by lia.
    rewrite Ho0, Hla.
    assert (Hle : o0 <= ol).
    { rewrite <- Ho0, <- Hla. apply sorted_nth_mono; [exact Hsorted | exact Hsc | exact Hec]. }
    assert (Hol : ol <= length (vals t)).
    { rewrite <- Hla, <- Hlast. apply sorted_nth_le_last; assumption. }
    (* what mk_mnt returned *)
    unfold mk_mnt in Hmk.
    destruct (map (fun o => o - o0) (tslice (offs t) (s * nc t) (e * nc t + 1))) as [|q qs] eqn:Em; [discriminate|].
    destruct ((q =? 0) && (last (q :: qs) 0 =? length (tslice (vals t) o0 ol))
              && (length (q :: qs) =? (e - s) * nc t + 1)); [|discriminate].
    injection Hmk as <-. cbn [nr nc offs vals].
    (* the source reads t through its own window *)
    unfold RaggedStore.n_read, g_read in *.
    destruct (nth_error st (n_buf h)) as [buf|] eqn:Eb; cbn [obind] in *; [|discriminate].
    unfold n_view in *. cbn [n_nr n_nc n_offs n_start n_len n_buf].
    destruct (n_start h + n_len h <=? length buf) eqn:Ew; [|discriminate].
    apply Nat.leb_le in Ew. injection Hr as <-. cbn [vals nr nc offs] in *.
    assert (Hvl : length (tslice buf (n_start h) (n_start h + n_len h)) = n_len h)
      by (rewrite tslice_length; lia).
    rewrite Hvl in Hol.
    rewrite Eb. cbn [obind].
    replace (n_start h + o0 + (ol - o0) <=? length buf) with true by (symmetry; apply Nat.leb_le; lia).
    f_equal. f_equal.
    rewrite tslice_tslice by lia. f_equal. lia.
  Qed.

  (* ---- main theorem ---- *)
  Theorem mnt_select_store_sound_proof : forall (st st' : nstore) (h r : hmnt) (t : mnt A) (ix : index) (dim : nat),
    dim < 2 -> n_read st h = Some t -> mnt_valid t ->
    n_select A st h ix dim = Some (st', r) ->
    n_read st' r = select A _ (mnt_kernels A) t ix dim
    /\ (forall h0, n_buf h0 < length st -> n_read st' h0 = n_read st h0)
    /\ (st' = st \/ exists b, st' = st ++ [b]).
  Proof.
    intros st st' h r t ix dim Hd Hr Hv Hs.
    unfold n_select in Hs. rewrite Hr in Hs. cbn [obind] in Hs.
    destruct (select A _ (mnt_kernels A) t ix dim) as [res|] eqn:Esel; cbn [obind] in Hs; [|discriminate].
    assert (Hfresh : forall st2 r2, n_new A st res = (st2, r2) ->
              n_read st2 r2 = Some res /\ (forall h0, n_buf h0 < length st -> n_read st2 h0 = n_read st h0)
              /\ (st2 = st \/ exists b, st2 = st ++ [b])).
    { intros st2 r2 E. pose proof (n_new_spec A st res) as Hn. rewrite E in Hn. destruct Hn as [H1 [H2 H3]].
      split; [exact H3|]. split.
      - intros h0 Hh0. rewrite H1. apply n_read_alloc. exact Hh0.
      - right. eexists. exact H1. }
    destruct (n_place A t ix dim) as [|a b|] eqn:Epl.
    - (* the same object: narrow over the whole axis returned self *)
      injection Hs as <- <-.
      split; [|split; [reflexivity | left; reflexivity]].
      rewrite Hr. f_equal.
      destruct ix as [i|sa sb ss|l|ra rb rs|l|mk]; cbn [n_place] in Epl;
        try discriminate.
      + destruct (dim =? 0); [destruct (norm_index _ i)|]; discriminate.
      + unfold select, slice_ in Esel. fold (size A _ (mnt_kernels A) t dim) in *.
        assert (Hn : size A _ (mnt_kernels A) t dim = (if dim =? 0 then nr t else nc t))
          by (unfold size; destruct (dim =? 0); reflexivity).
        rewrite Hn in Esel.
        set (n := if dim =? 0 then nr t else nc t) in *.
        set (stp := match ss with Some v => v | None => 1%Z end) in *.
        destruct (1 <? stp)%Z eqn:E1; [discriminate|].
        destruct (stp <=? 0)%Z eqn:E0; [discriminate|].
        destruct (slice_indices n sa sb) as [lo hi] eqn:Esl.
        destruct ((lo =? 0) && (Z.of_nat n <=? Z.of_nat lo + (Z.of_nat hi - Z.of_nat lo))%Z) eqn:Ec; [|
          destruct (Z.of_nat hi - Z.of_nat lo <=? 0)%Z; [discriminate | destruct (dim =? 0); discriminate]].
        unfold narrow in Esel. rewrite Hn in Esel. fold n in Esel. rewrite Ec in Esel.
        injection Esel as <-. reflexivity.
    - (* a view of the source's storage *)
      injection Hs as <- <-.
      split; [|split; [reflexivity | left; reflexivity]].
      destruct ix as [i|sa sb ss|l|ra rb rs|l|mk]; cbn [n_place] in Epl; try discriminate.
      + (* integer row *)
        destruct (dim =? 0) eqn:Ed; [|discriminate]. apply Nat.eqb_eq in Ed. subst dim.
        destruct (norm_index (nr t) i) as [k|] eqn:Ek; [|discriminate].
        injection Epl as <- <-.
        pose proof (norm_index_lt _ _ _ Ek) as Hk.
        unfold select in Esel. cbn [Nat.eqb size mnt_kernels k_rows k_single_index_select] in Esel.
        unfold size in Esel. cbn [Nat.eqb mnt_kernels k_rows] in Esel. rewrite Ek in Esel. cbn [obind] in Esel.
        unfold mnt_single_index_select in Esel. cbn [Nat.eqb] in Esel.
        destruct (hd_error (tslice (offs t) (k * nc t) ((k + 1) * nc t + 1))) as [o0|] eqn:Eh; cbn [obind] in Esel; [|discriminate].
        destruct (last_error (tslice (offs t) (k * nc t) ((k + 1) * nc t + 1))) as [ol|] eqn:El; cbn [obind] in Esel; [|discriminate].
        apply (row_window_view st h t res k (k + 1) o0 ol Hr Hv); try lia; try assumption.
        replace (k + 1 - k) with 1 by lia. exact Esel.
      + (* contiguous row slice *)
        set (stp := match ss with Some v => v | None => 1%Z end) in *.
        set (n := if dim =? 0 then nr t else nc t) in *.
        destruct (1 <? stp)%Z eqn:E1; [discriminate|].
        destruct (slice_indices n sa sb) as [lo hi] eqn:Esl.
        destruct ((lo =? 0) && (Z.of_nat n <=? Z.of_nat lo + (Z.of_nat hi - Z.of_nat lo))%Z) eqn:Ec; [discriminate|].
        destruct (Z.of_nat hi - Z.of_nat lo <=? 0)%Z eqn:Ee; [discriminate|].
        destruct (dim =? 0) eqn:Ed; [|discriminate]. apply Nat.eqb_eq in Ed. subst dim.
        injection Epl as <- <-. apply Z.leb_gt in Ee.
        assert (Hhi : hi <= nr t).
        { unfold slice_indices in Esl. injection Esl as _ <-. apply clamp_bound_le. unfold n. cbn [Nat.eqb]. lia. }
        unfold select, slice_ in Esel. unfold size in Esel. cbn [Nat.eqb mnt_kernels k_rows] in Esel.
        fold stp in Esel.
        destruct (stp <=? 0)%Z eqn:E0; [discriminate|].
        unfold n in Esl. cbn [Nat.eqb] in Esl. rewrite Esl in Esel. rewrite E1 in Esel.
        unfold narrow, size in Esel. cbn [Nat.eqb mnt_kernels k_rows k_row_narrow] in Esel.
        unfold n in Ec. cbn [Nat.eqb] in Ec. rewrite Ec in Esel.
        replace (Z.of_nat hi - Z.of_nat lo <=? 0)%Z with false in Esel by (symmetry; apply Z.leb_gt; lia).
        unfold mnt_row_narrow in Esel.
        replace (lo + Z.to_nat (Z.of_nat hi - Z.of_nat lo)) with hi in Esel by lia.
        destruct (hd_error (tslice (offs t) (lo * nc t) (hi * nc t + 1))) as [o0|] eqn:Eh; cbn [obind] in Esel; [|discriminate].
        destruct (last_error (tslice (offs t) (lo * nc t) (hi * nc t + 1))) as [ol|] eqn:El; cbn [obind] in Esel; [|discriminate].
        apply (row_window_view st h t res lo hi o0 ol Hr Hv); try lia; assumption.
    - (* a fresh storage *)
      destruct (n_new A st res) as [st2 r2] eqn:En. injection Hs as <- <-.
      destruct (Hfresh st2 r2 eq_refl) as [H1 [H2 H3]].
      split; [exact H1 | split; [exact H2 | exact H3]].
  Qed.
End SelectStore.
