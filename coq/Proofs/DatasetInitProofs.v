(* Lemmas about Model/DatasetInit.v: the acceptance conditions of Dataset.__init__ and what the canonical
   configuration dictionaries hold. *)
From Coq Require Import ZArith List Bool Arith Lia.
From PF Require Import Gen.Tables Lib.ListX Model.Mapper Model.Converter Model.DatasetInit Proofs.MapperProofs.
Import ListNotations.
Local Open Scope nat_scope.

Lemma filter_nil_iff : forall {A} (f : A -> bool) l, filter f l = [] <-> forall x, In x l -> f x = false.
Proof.
  intros A f. induction l as [|y l IH]; simpl.
  - split; [intros _ x [] | reflexivity].
  - destruct (f y) eqn:E.
    + split; [discriminate|]. intro H. specialize (H y (or_introl eq_refl)). congruence.
    + rewrite IH. split.
      * intros H x [<-|Hx]; [exact E | apply H; exact Hx].
      * intros H x Hx. apply H. right. exact Hx.
Qed.

Lemma forallb_map_const : forall {A B} (g : B -> bool) (p : B) (l : list A),
  forallb (fun e : A * B => g (snd e)) (map (fun c => (c, p)) l) = true <-> l = [] \/ g p = true.
Proof.
  intros A B g p l. destruct l as [|x l]; simpl.
  - split; [left; reflexivity | reflexivity].
  - split.
    + intro H. apply andb_prop in H. right. tauto.
    + intros [H|H]; [discriminate|]. rewrite H. simpl. induction l as [|y l IH]; simpl; [reflexivity|]. rewrite H. exact IH.
Qed.

Lemma pattern_decision : forall {V} pn (arg : pattern_arg V) cts,
  (exists d, canonicalize_and_validate pn arg cts = Some d) <-> pattern_accepted pn arg cts.
Proof.
  intros V pn arg cts. unfold canonicalize_and_validate, pattern_accepted, canonicalize_col_to_pattern.
  set (cols := columns_of (pattern_stype pn) cts). set (allow := pattern_allow_none pn).
  destruct arg as [p|d0]; cbn [obind].
  - rewrite <- (forallb_map_const (pat_ok allow) p cols).
    destruct (forallb _ (map (fun c => (c, p)) cols)); split; intro H; try reflexivity; try discriminate; eauto.
    destruct H; discriminate.
  - destruct (filter (fun c => negb (name_mem c (map fst d0))) cols) as [|m ms] eqn:F; cbn [obind].
    + split.
      * intros [d H]. destruct (forallb _ d0) eqn:E; [|discriminate]. split.
        -- right. intros c Hc. apply (proj1 (filter_nil_iff _ _) F) in Hc. destruct (name_mem c (map fst d0)); [reflexivity|discriminate].
        -- intros e He. rewrite forallb_forall in E. apply E. exact He.
      * intros [_ H]. exists d0. rewrite (proj2 (forallb_forall _ d0)); [reflexivity|]. exact H.
    + destruct allow eqn:A; cbn [negb obind].
      * split.
        -- intros [d H]. destruct (forallb _ (d0 ++ _)) eqn:E; [|discriminate]. split; [left; reflexivity|].
           intros e He. rewrite forallb_app in E. apply andb_prop in E. destruct E as [E _].
           rewrite forallb_forall in E. apply E. exact He.
        -- intros [_ H]. eexists. rewrite forallb_app, (proj2 (forallb_forall _ d0)) by exact H. cbn [andb].
           rewrite (proj2 (forallb_forall _ _)); [reflexivity|]. intros e He. apply in_map_iff in He.
           destruct He as [c [<- _]]. reflexivity.
      * split; [intros [d H]; discriminate|]. intros [[H|H] _]; [discriminate|]. exfalso.
        assert (Hm : In m cols).
        { assert (In m (m :: ms)) by (left; reflexivity). rewrite <- F in H0. apply filter_In in H0. tauto. }
        assert (Hf : negb (name_mem m (map fst d0)) = true).
        { assert (In m (m :: ms)) by (left; reflexivity). rewrite <- F in H0. apply filter_In in H0. tauto. }
        rewrite (H m Hm) in Hf. discriminate.
Qed.

Lemma obind_Some : forall {A B} (e : option A) (f : A -> option B) c,
  (x <- e ;; f x) = Some c -> exists x, e = Some x /\ f x = Some c.
Proof. intros A B e f c H. destruct e as [x|]; [exists x; auto | discriminate]. Qed.

(* the decision table of Dataset.__init__ *)
Lemma dataset_init_decision : forall a, (exists c, dataset_init a = Some c) <-> init_accepted a.
Proof.
  intro a. unfold dataset_init, init_accepted.
  pose proof (pattern_decision pn_col_to_sep (d_sep a) (d_stypes a)) as P1.
  pose proof (pattern_decision pn_col_to_time_format (d_fmt a) (d_stypes a)) as P2.
  pose proof (pattern_decision pn_col_to_text_embedder_cfg (d_text a) (d_stypes a)) as P3.
  pose proof (pattern_decision pn_col_to_image_embedder_cfg (d_image a) (d_stypes a)) as P4.
  pose proof (pattern_decision pn_col_to_text_tokenizer_cfg (d_tok a) (d_stypes a)) as P5.
  set (keys := map fst (d_stypes a)) in *.
  split.
  - intros [c H].
    apply obind_Some in H. destruct H as [[] [Hsplit H]].
    apply obind_Some in H. destruct H as [[] [Htgt H]].
    apply obind_Some in H. destruct H as [[] [Hcols H]].
    apply obind_Some in H. destruct H as [[] [Hmulti H]].
    apply obind_Some in H. destruct H as [c1 [C1 H]].
    apply obind_Some in H. destruct H as [c2 [C2 H]].
    apply obind_Some in H. destruct H as [c3 [C3 H]].
    apply obind_Some in H. destruct H as [c4 [C4 H]].
    apply obind_Some in H. destruct H as [c5 [C5 H]].
    split; [|split; [|split; [|repeat split; [apply P1 | apply P2 | apply P3 | apply P4 | apply P5]; eauto]]].
    + intros s Es. rewrite Es in Hsplit.
      destruct (name_mem s (d_columns a)) eqn:S1; [|discriminate]. cbn [negb] in Hsplit.
      destruct (name_mem s keys) eqn:S2; [discriminate|].
      destruct (forallb _ (d_split_vals a)) eqn:S3; [|discriminate].
      repeat split; try reflexivity.
      intros v Hv. rewrite forallb_forall in S3. specialize (S3 v Hv). apply existsb_exists in S3.
      destruct S3 as [w [Hw E]]. apply Z.eqb_eq in E. subst. exact Hw.
    + intros t Et. rewrite Et in Htgt, Hmulti. destruct (name_mem t keys); [|discriminate]. split; [reflexivity|].
      intro E. rewrite E in Hmulti. discriminate.
    + intros x Hx. destruct (forallb _ keys) eqn:K; [|discriminate]. rewrite forallb_forall in K. apply K. exact Hx.
  - intros (Hs & Ht & Hk & A1 & A2 & A3 & A4 & A5).
    apply P1 in A1. apply P2 in A2. apply P3 in A3. apply P4 in A4. apply P5 in A5.
    destruct A1 as [c1 A1], A2 as [c2 A2], A3 as [c3 A3], A4 as [c4 A4], A5 as [c5 A5].
    exists (MkCfg c1 c2 c3 c4 c5).
    assert (S : match d_split a with
                | None => Some tt
                | Some s => if negb (name_mem s (d_columns a)) then None
                            else if name_mem s keys then None
                            else if forallb (fun v => existsb (Z.eqb v) (map snd split_to_num)) (d_split_vals a)
                                 then Some tt else None
                end = Some tt).
    { destruct (d_split a) as [s|]; [|reflexivity]. destruct (Hs s eq_refl) as (S1 & S2 & S3).
      rewrite S1, S2. cbn [negb]. rewrite (proj2 (forallb_forall _ _)); [reflexivity|].
      intros v Hv. apply existsb_exists. exists v. split; [apply S3; exact Hv | apply Z.eqb_refl]. }
    rewrite S. cbn [obind].
    assert (K : forallb (fun c => name_mem c (d_columns a)) keys = true) by (apply forallb_forall; exact Hk).
    destruct (d_target a) as [t|].
    + destruct (Ht t eq_refl) as [T1 T2]. rewrite T1. cbn [obind]. rewrite K. cbn [obind].
      destruct (stype_lookup t (d_stypes a)) as [st|]; [destruct st; try congruence|];
        cbn [obind]; rewrite A1, A2, A3, A4, A5; reflexivity.
    + cbn [obind]. rewrite K. cbn [obind]. rewrite A1, A2, A3, A4, A5. reflexivity.
Qed.

(* what the canonical dictionary holds for a column of the configured stype *)
Lemma canonical_single : forall {V} pn (p : pat V) cts d c,
  canonicalize_and_validate pn (ASingle p) cts = Some d -> In c (columns_of (pattern_stype pn) cts) ->
  pat_lookup c d = Some p.
Proof.
  intros V pn p cts d c H Hc. unfold canonicalize_and_validate, canonicalize_col_to_pattern in H. cbn [obind] in H.
  destruct (forallb _ _); [|discriminate]. injection H as <-.
  induction (columns_of (pattern_stype pn) cts) as [|x l IH]; [destruct Hc|]. simpl.
  destruct (str_eqb c x) eqn:E; [reflexivity|]. destruct Hc as [->|Hc]; [|apply IH; exact Hc].
  rewrite (proj2 (str_eqb_eq c c) eq_refl) in E. discriminate.
Qed.

Lemma pat_lookup_app_Some : forall {V} c (d1 d2 : list (name * pat V)) v,
  pat_lookup c d1 = Some v -> pat_lookup c (d1 ++ d2) = Some v.
Proof.
  intros V c d1 d2 v. induction d1 as [|[k w] d1 IH]; simpl; [discriminate|]. destruct (str_eqb c k); [tauto | exact IH].
Qed.

Lemma canonical_dict_given : forall {V} pn (d0 : list (name * pat V)) cts d c v,
  canonicalize_and_validate pn (ADict d0) cts = Some d -> pat_lookup c d0 = Some v -> pat_lookup c d = Some v.
Proof.
  intros V pn d0 cts d c v H Hl. unfold canonicalize_and_validate, canonicalize_col_to_pattern in H.
  destruct (filter _ _) as [|m ms]; cbn [obind] in H.
  - destruct (forallb _ d0); [|discriminate]. injection H as <-. exact Hl.
  - destruct (negb (pattern_allow_none pn)); [discriminate|]. cbn [obind] in H.
    destruct (forallb _ _); [|discriminate]. injection H as <-. apply pat_lookup_app_Some. exact Hl.
Qed.
