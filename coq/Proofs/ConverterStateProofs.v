(* Lemmas about Model/ConverterState.v (property C04). *)
From Coq Require Import List Arith ZArith Bool String Lia Permutation Sorting.Sorted.
From PF Require Import Lib.ListX Gen.Tables Model.Ragged Model.Mapper Model.MapperSpec Model.Converter Model.ConverterSpec
  Proofs.MapperProofs Proofs.ConverterProofs Model.ConverterState.
Import ListNotations.
Local Open Scope nat_scope.
Local Notation length := List.length (only parsing).

(* ------------------------------------------------ facts about the generated tables
   (finite case analysis over the nine stypes; re-checked whenever Gen/Tables.v changes) *)
Lemma stype_eqb_eq a b : stype_eqb a b = true <-> a = b.
Proof. destruct a, b; simpl; split; intros H; try reflexivity; try discriminate. Qed.

Lemma stype_eqb_refl a : stype_eqb a a = true.
Proof. now apply stype_eqb_eq. Qed.

Lemma stype_eqb_neq a b : stype_eqb a b = false <-> a <> b.
Proof.
  split.
  - intros H E. apply stype_eqb_eq in E. congruence.
  - intros H. destruct (stype_eqb a b) eqn:E; [|reflexivity]. apply stype_eqb_eq in E. contradiction.
Qed.

Lemma all_stype_complete s : In s all_stype.
Proof. destruct s; simpl; tauto. Qed.

(* the parent of a stype is never itself a child: merging is one level deep *)
Lemma parent_not_child s : is_child (stype_parent s) = false.
Proof. destruct s; reflexivity. Qed.

(* ------------------------------------------------------------- option / mapM *)
Lemma mapM_map {A B C} (f : B -> option C) (g : A -> B) l : mapM f (map g l) = mapM (fun x => f (g x)) l.
Proof. induction l as [|x r IH]; simpl; [reflexivity|]. now rewrite IH. Qed.

Lemma mapM_ext {A B} (f g : A -> option B) l : (forall x, In x l -> f x = g x) -> mapM f l = mapM g l.
Proof.
  induction l as [|x r IH]; intros H; simpl; [reflexivity|].
  rewrite (H x (or_introl eq_refl)), IH; [reflexivity|]. intros; apply H; now right.
Qed.

(* Kleisli composition: all-or-nothing computations commute with sequencing *)
Lemma mapM_bind {A B C} (g : A -> option B) (h : B -> option C) l :
  mapM (fun x => y <- g x ;; h y) l = (ys <- mapM g l ;; mapM h ys).
Proof.
  induction l as [|x r IH]; simpl; [reflexivity|]. rewrite IH.
  destruct (g x) as [y|]; simpl.
  - destruct (mapM g r) as [ys|]; simpl.
    + reflexivity.
    + destruct (h y); reflexivity.
  - destruct (mapM g r) as [ys|]; reflexivity.
Qed.

Lemma mapM_some_map {A B} (f : A -> B) l : mapM (fun x => Some (f x)) l = Some (map f l).
Proof. induction l as [|x r IH]; simpl; [reflexivity|]. now rewrite IH. Qed.

Lemma tgather_map {A B} (f : A -> B) (l : list A) idx :
  tgather (map f l) idx = option_map (map f) (tgather l idx).
Proof.
  unfold tgather, tget. induction idx as [|i r IH]; simpl; [reflexivity|].
  rewrite nth_error_map, IH. destruct (nth_error l i); simpl; [|reflexivity].
  destruct (mapM (nth_error l) r); reflexivity.
Qed.

(* --------------------------------------------------------------------- dicts *)
Lemma dget_dmap {X Y} (f : X -> Y) d k : dget (dmap f d) k = option_map f (dget d k).
Proof.
  induction d as [|[k' v] r IH]; simpl; [reflexivity|]. destruct (stype_eqb k' k); [reflexivity|exact IH].
Qed.

Lemma dmem_dmap {X Y} (f : X -> Y) d k : dmem (dmap f d) k = dmem d k.
Proof. unfold dmem. rewrite dget_dmap. destruct (dget d k); reflexivity. Qed.

Lemma dset_dmap {X Y} (f : X -> Y) d k v : dmap f (dset d k v) = dset (dmap f d) k (f v).
Proof.
  induction d as [|[k' v'] r IH]; simpl; [reflexivity|].
  destruct (stype_eqb k' k); simpl; [reflexivity|]. now rewrite IH.
Qed.

Lemma dpop_dmap {X Y} (f : X -> Y) d k : dmap f (dpop d k) = dpop (dmap f d) k.
Proof.
  unfold dpop, dmap. induction d as [|[k' v'] r IH]; simpl; [reflexivity|].
  destruct (stype_eqb k' k); simpl; now rewrite IH.
Qed.

Lemma tf_stypes_dmap {X Y} (f : X -> Y) d : tf_stypes (dmap f d) = tf_stypes d.
Proof. unfold tf_stypes. apply filter_ext. intros s. apply dmem_dmap. Qed.

Lemma dmem_keys {X} (d : dict X) k : dmem d k = true <-> In k (keys d).
Proof.
  unfold dmem, keys. induction d as [|[k' v] r IH]; simpl; [split; [discriminate|tauto]|].
  destruct (stype_eqb k' k) eqn:E.
  - apply stype_eqb_eq in E. split; [now left|reflexivity].
  - apply stype_eqb_neq in E. rewrite IH. split; [now right|]. intros [H|H]; [contradiction|exact H].
Qed.

Lemma keys_dset {X} (d : dict X) k v x : In x (keys (dset d k v)) <-> x = k \/ In x (keys d).
Proof.
  unfold keys. induction d as [|[k' v'] r IH]; simpl; [intuition|].
  destruct (stype_eqb k' k) eqn:E; simpl.
  - apply stype_eqb_eq in E. subst. intuition.
  - rewrite IH. intuition.
Qed.

Lemma keys_dpop {X} (d : dict X) k x : In x (keys (dpop d k)) <-> x <> k /\ In x (keys d).
Proof.
  unfold keys, dpop. rewrite !in_map_iff. split.
  - intros [[k' v] [E H]]. simpl in E. subst. apply filter_In in H. destruct H as [H1 H2].
    simpl in H2. apply negb_true_iff, stype_eqb_neq in H2. split; [exact H2|]. now exists (x, v).
  - intros [Hn [[k' v] [E H]]]. simpl in E. subst. exists (x, v). split; [reflexivity|].
    apply filter_In. split; [exact H|]. simpl. apply negb_true_iff, stype_eqb_neq. exact Hn.
Qed.

(* ---------------------------------------------- _merge_feat: naturality *)
(* the same loop runs on the feature dict and on the name dict: it commutes with any
   column-wise map (this is why names and data stay paired) *)
Lemma merge_step_dmap {X Y} (f : X -> Y) d s :
  merge_step (dmap (map f) d) s = option_map (dmap (map f)) (merge_step d s).
Proof.
  unfold merge_step. destruct (is_child s); [|reflexivity].
  rewrite !dget_dmap. destruct (dget d s) as [child|]; simpl; [|reflexivity].
  destruct (dget d (stype_parent s)) as [pv|]; simpl; rewrite dpop_dmap, dset_dmap, ?map_app; reflexivity.
Qed.

Lemma merge_loop_dmap {X Y} (f : X -> Y) l d :
  merge_loop l (dmap (map f) d) = option_map (dmap (map f)) (merge_loop l d).
Proof.
  revert d. induction l as [|s r IH]; intros d; simpl; [reflexivity|].
  rewrite merge_step_dmap. destruct (merge_step d s) as [d1|]; simpl; [apply IH|reflexivity].
Qed.

Theorem merge_feat_natural {X Y} (f : X -> Y) d :
  merge_feat (dmap (map f) d) = option_map (dmap (map f)) (merge_feat d).
Proof. unfold merge_feat. rewrite tf_stypes_dmap. apply merge_loop_dmap. Qed.

(* --------------------------------------------- _merge_feat: total, idempotent *)
Definition no_child {X} (d : dict X) : Prop := forall k, In k (keys d) -> is_child k = false.

Lemma merge_loop_no_child {X} l (d : dict (list X)) :
  no_child d -> (forall s, In s l -> In s (keys d)) -> merge_loop l d = Some d.
Proof.
  intros H. induction l as [|s r IH]; intros Hl; simpl; [reflexivity|].
  unfold merge_step. rewrite (H s (Hl s (or_introl eq_refl))). simpl.
  apply IH. intros; apply Hl; now right.
Qed.

Lemma tf_stypes_in_keys {X} (d : dict X) s : In s (tf_stypes d) <-> In s (keys d).
Proof.
  unfold tf_stypes. rewrite filter_In, dmem_keys. split; [tauto|]. intros H. split; [apply all_stype_complete|exact H].
Qed.

Lemma merge_feat_no_child {X} (d : dict (list X)) : no_child d -> merge_feat d = Some d.
Proof. intros H. apply merge_loop_no_child; [exact H|]. intros s. apply tf_stypes_in_keys. Qed.

(* children present after the loop were present before it and were not visited *)
Lemma merge_loop_children {X} l (d d' : dict (list X)) :
  merge_loop l d = Some d' ->
  forall k, In k (keys d') -> is_child k = true -> In k (keys d) /\ ~ In k l.
Proof.
  revert d. induction l as [|s r IH]; intros d H k Hk Hc; simpl in H.
  - inversion H; subst. tauto.
  - destruct (merge_step d s) as [d1|] eqn:S; simpl in H; [|discriminate].
    destruct (IH d1 H k Hk Hc) as [H1 H2].
    unfold merge_step in S. destruct (is_child s) eqn:Cs.
    + destruct (dget d s) as [child|]; [|discriminate]. inversion S; subst d1; clear S.
      apply keys_dpop in H1. destruct H1 as [Hks H1]. apply keys_dset in H1.
      destruct H1 as [->|H1].
      * rewrite parent_not_child in Hc. discriminate.
      * split; [exact H1|]. intros [E|E]; [congruence|contradiction].
    + inversion S; subst d1. split; [exact H1|]. intros [E|E]; [subst; congruence|contradiction].
Qed.

Lemma merge_feat_result_no_child {X} (d d' : dict (list X)) : merge_feat d = Some d' -> no_child d'.
Proof.
  intros H k Hk. destruct (is_child k) eqn:E; [|reflexivity]. exfalso.
  destruct (merge_loop_children _ _ _ H k Hk E) as [H1 H2]. apply H2. now apply tf_stypes_in_keys.
Qed.

(* the first call's rewrite of the name table is a fixed point of every later call *)
Theorem merge_feat_idempotent {X} (d d' : dict (list X)) : merge_feat d = Some d' -> merge_feat d' = Some d'.
Proof. intros H. apply merge_feat_no_child. eapply merge_feat_result_no_child; eauto. Qed.

(* the loop never raises: every stype it visits is still in the dict when visited *)
Lemma merge_loop_total {X} l (d : dict (list X)) :
  NoDup l -> (forall s, In s l -> In s (keys d)) -> exists d', merge_loop l d = Some d'.
Proof.
  revert d. induction l as [|s r IH]; intros d Hnd Hl; simpl; [now exists d|].
  inversion Hnd as [|? ? Hns Hnd']; subst.
  unfold merge_step. destruct (is_child s) eqn:Cs.
  - assert (Hs : In s (keys d)) by (apply Hl; now left).
    apply dmem_keys in Hs. unfold dmem in Hs. destruct (dget d s) as [child|]; [|discriminate]. simpl.
    apply IH; [exact Hnd'|]. intros x Hx. apply keys_dpop. split; [intros ->; contradiction|].
    apply keys_dset. right. apply Hl. now right.
  - simpl. apply IH; [exact Hnd'|]. intros; apply Hl; now right.
Qed.

Lemma all_stype_nodup : NoDup all_stype.
Proof. unfold all_stype. repeat (constructor; [simpl; intuition discriminate|]). constructor. Qed.

Theorem merge_feat_total {X} (d : dict (list X)) : exists d', merge_feat d = Some d'.
Proof.
  apply merge_loop_total.
  - unfold tf_stypes. apply NoDup_filter, all_stype_nodup.
  - intros s. apply tf_stypes_in_keys.
Qed.

(* ------------------------------------------------------------ gather lemmas *)
Lemma tgather_length {A} (l : list A) idx r : tgather l idx = Some r -> length r = length idx.
Proof.
  unfold tgather. revert r. induction idx as [|i t IH]; intros r H; simpl in H.
  - inversion H. reflexivity.
  - destruct (tget l i); [|discriminate]. destruct (mapM (tget l) t) as [r'|]; [|discriminate].
    inversion H; subst. simpl. f_equal. now apply IH.
Qed.

Lemma tgather_In {A} (l : list A) idx r x : tgather l idx = Some r -> In x r -> In x l.
Proof.
  unfold tgather, tget. revert r. induction idx as [|i t IH]; intros r H Hx; simpl in H.
  - inversion H; subst. destruct Hx.
  - destruct (nth_error l i) as [y|] eqn:E; [|discriminate].
    destruct (mapM (nth_error l) t) as [r'|]; [|discriminate]. inversion H; subst.
    destruct Hx as [<-|Hx]; [eapply nth_error_In; eauto|eapply IH; eauto].
Qed.

Lemma tgather_Forall {A} (P : A -> Prop) (l : list A) idx r : tgather l idx = Some r -> Forall P l -> Forall P r.
Proof.
  intros H F. rewrite Forall_forall in *. intros x Hx. apply F. eapply tgather_In; eauto.
Qed.

Lemma mapM_nth {A B} (f : A -> option B) l r i x :
  mapM f l = Some r -> nth_error l i = Some x -> exists y, nth_error r i = Some y /\ f x = Some y.
Proof.
  revert r i. induction l as [|a t IH]; intros r i H Hx; [destruct i; discriminate|].
  simpl in H. destruct (f a) as [b|] eqn:E; [|discriminate]. destruct (mapM f t) as [r'|]; [|discriminate].
  inversion H; subst. destruct i as [|i]; simpl in *.
  - inversion Hx; subst. now exists b.
  - eapply IH; eauto.
Qed.

(* a cell-wise partial function commutes with selection *)
Lemma mapM_gather {A B} (f : A -> option B) l r idx l' :
  mapM f l = Some r -> tgather l idx = Some l' ->
  exists r', tgather r idx = Some r' /\ mapM f l' = Some r'.
Proof.
  unfold tgather, tget. intros H. revert l'. induction idx as [|i t IH]; intros l' G; simpl in G.
  - inversion G; subst. now exists [].
  - destruct (nth_error l i) as [x|] eqn:E; [|discriminate].
    destruct (mapM (nth_error l) t) as [t'|] eqn:T; [|discriminate]. inversion G; subst.
    destruct (mapM_nth f l r i x H E) as [y [Hy Fy]]. destruct (IH t' eq_refl) as [r' [Hr Fr]].
    exists (y :: r'). simpl. now rewrite Hy, Hr, Fy, Fr.
Qed.

(* ======================================================================== *)
Section MachineProofs.
  Context {L Col Enc : Type}.
  Variable enc_col : string -> list L -> Col -> option (list Enc).
  Variable col_select : list nat -> Col -> option Col.

  Notation dataframe := (dataframe L Col).
  Notation tframe := (tframe Enc).
  Notation map_col := (map_col enc_col).
  Notation call_y := (call_y enc_col).
  Notation call := (call enc_col).
  Notation run := (run enc_col).
  Notation df_select := (@df_select L Col col_select).

  Definition call_result (target : option string) (d' : dict (list string)) (df : dataframe)
    : option (dict (list string) * tframe) :=
    yv <- call_y target df ;;
    fd' <- seq_dict (dmap (map (map_col df)) d') ;;
    Some (d', {| feats := fd'; y := yv |}).

  (* a call = rewrite the state with _merge_feat, then map every listed column with its mapper *)
  Lemma call_char target d df : call target d df = (d' <- merge_feat d ;; call_result target d' df).
  Proof.
    unfold ConverterState.call, call_result. rewrite merge_feat_natural.
    destruct (call_y target df) as [yv|]; simpl.
    - destruct (merge_feat d) as [d'|]; reflexivity.
    - destruct (merge_feat d); reflexivity.
  Qed.

  Lemma call_state target d df d1 tf : call target d df = Some (d1, tf) -> merge_feat d = Some d1.
  Proof.
    rewrite call_char. destruct (merge_feat d) as [d'|]; simpl; [|discriminate].
    unfold call_result. destruct (call_y target df); simpl; [|discriminate].
    destruct (seq_dict _); simpl; [|discriminate]. intros H. inversion H; subst. reflexivity.
  Qed.

  (* once the state has been rewritten, calling from it is the same as calling from the initial state *)
  Lemma call_from_merged target d d1 df : merge_feat d = Some d1 -> call target d1 df = call target d df.
  Proof. intros H. rewrite !call_char, H, (merge_feat_idempotent _ _ H). reflexivity. Qed.

  Theorem run_idempotent target dfs : forall d,
    option_map snd (run target d dfs) = mapM (fun df => option_map snd (call target d df)) dfs.
  Proof.
    induction dfs as [|df r IH]; intros d; simpl; [reflexivity|].
    destruct (call target d df) as [[d1 tf]|] eqn:E; simpl.
    - pose proof (call_state _ _ _ _ _ E) as M.
      specialize (IH d1).
      rewrite (mapM_ext _ (fun df0 => option_map snd (call target d df0))) in IH
        by (intros; now rewrite (call_from_merged target d d1 _ M)).
      rewrite <- IH. destruct (run target d1 r) as [[d2 tfs]|]; reflexivity.
    - destruct (mapM (fun df0 : dataframe => option_map snd (call target d df0)) r); reflexivity.
  Qed.

  Theorem run_state target dfs : forall d d' tfs,
    run target d dfs = Some (d', tfs) -> dfs <> [] -> merge_feat d = Some d'.
  Proof.
    induction dfs as [|df r IH]; intros d d' tfs H Hne; [congruence|].
    simpl in H. destruct (call target d df) as [[d1 tf]|] eqn:E; simpl in H; [|discriminate].
    destruct (run target d1 r) as [[d2 tfs2]|] eqn:R; simpl in H; [|discriminate].
    inversion H; subst. pose proof (call_state _ _ _ _ _ E) as M.
    destruct r as [|df2 r'].
    - simpl in R. inversion R; subst. exact M.
    - pose proof (IH d1 d' tfs2 R ltac:(discriminate)) as M2.
      rewrite (merge_feat_idempotent _ _ M) in M2. inversion M2; subst. exact M.
  Qed.

  (* ------------------------------------------------------------------- target *)
  Theorem no_target_no_y target d df d1 tf :
    call target d df = Some (d1, tf) ->
    (target = None \/ exists t, target = Some t /\ df_col df t = None) ->
    y tf = None.
  Proof.
    intros C H. rewrite call_char in C. destruct (merge_feat d) as [d'|]; simpl in C; [|discriminate].
    unfold call_result in C.
    assert (Y : call_y target df = Some None).
    { unfold ConverterState.call_y. destruct H as [->|[t [-> ->]]]; reflexivity. }
    rewrite Y in C. simpl in C. destruct (seq_dict _); simpl in C; [|discriminate]. inversion C; reflexivity.
  Qed.

  Theorem target_present_y target d df d1 tf t col :
    call target d df = Some (d1, tf) -> target = Some t -> df_col df t = Some col ->
    exists enc, enc_col t (df_index df) col = Some enc /\ y tf = Some enc.
  Proof.
    intros C Ht Hc. rewrite call_char in C. destruct (merge_feat d) as [d'|]; simpl in C; [|discriminate].
    unfold call_result in C. unfold ConverterState.call_y in C. rewrite Ht, Hc in C.
    unfold ConverterState.map_col in C at 1. rewrite Hc in C. simpl in C.
    destruct (enc_col t (df_index df) col) as [enc|]; simpl in C; [|discriminate].
    destruct (seq_dict _); simpl in C; [|discriminate]. inversion C; subst. exists enc. split; reflexivity.
  Qed.

  (* -------------------------------------------------------------- row locality *)
  Lemma lookup_df_select idx (df df' : dataframe) c :
    df_select idx df = Some df' ->
    tgather (df_index df) idx = Some (df_index df') /\
    match df_col df c with
    | Some col => exists col', col_select idx col = Some col' /\ df_col df' c = Some col'
    | None => df_col df' c = None
    end.
  Proof.
    unfold ConverterState.df_select, df_col. destruct df as [ix cols]. simpl.
    destruct (tgather ix idx) as [ix'|]; simpl; [|discriminate].
    destruct (mapM _ cols) as [cols'|] eqn:Mc; simpl; [|discriminate].
    intros H. inversion H; subst df'; clear H. simpl. split; [reflexivity|].
    revert cols' Mc. induction cols as [|[c0 col0] r IH]; intros cols' Mc; simpl in Mc.
    - inversion Mc; subst. reflexivity.
    - destruct (col_select idx col0) as [col0'|] eqn:G; simpl in Mc; [|discriminate].
      destruct (mapM _ r) as [r'|] eqn:R; [|discriminate]. inversion Mc; subst. simpl.
      destruct (String.eqb c0 c).
      + exists col0'. split; [exact G|reflexivity].
      + apply IH. reflexivity.
  Qed.

  (* what row locality needs of the per-column mappers.  `ok` collects the conditions on a
     column under which its mapper is row-wise (index as long as the column, statistics
     well-formed, ...); the empty selection is excluded (several mappers raise on it) *)
  Definition rowwise (ok : string -> list L -> Col -> Prop) : Prop :=
    forall c ix col enc idx ix' col',
      ok c ix col -> enc_col c ix col = Some enc -> idx <> [] ->
      tgather ix idx = Some ix' -> col_select idx col = Some col' ->
      exists enc', tgather enc idx = Some enc' /\ enc_col c ix' col' = Some enc'.

  Lemma seq_cols_pointwise (G G' : string -> option (list Enc)) idx cols cs :
    (forall c enc, G c = Some enc -> exists enc', tgather enc idx = Some enc' /\ G' c = Some enc') ->
    seq_cols (map G cols) = Some cs ->
    exists cs', cols_select idx cs = Some cs' /\ seq_cols (map G' cols) = Some cs'.
  Proof.
    intros K. unfold seq_cols, cols_select. revert cs. induction cols as [|c r IH]; intros cs H; simpl in H.
    - inversion H; subst. now exists [].
    - destruct (G c) as [enc|] eqn:E; [|discriminate].
      destruct (mapM (fun c0 => c0) (map G r)) as [r'|] eqn:R; [|discriminate]. inversion H; subst.
      destruct (K c enc E) as [enc' [Ge Ge']]. destruct (IH r' eq_refl) as [cs' [H1 H2]].
      exists (enc' :: cs'). simpl. now rewrite Ge, H1, Ge', H2.
  Qed.

  Lemma seq_dict_pointwise (G G' : string -> option (list Enc)) idx (d : dict (list string)) fd :
    (forall c enc, G c = Some enc -> exists enc', tgather enc idx = Some enc' /\ G' c = Some enc') ->
    seq_dict (dmap (map G) d) = Some fd ->
    exists fd', feats_select idx fd = Some fd' /\ seq_dict (dmap (map G') d) = Some fd'.
  Proof.
    intros K. unfold seq_dict, feats_select, dmap. revert fd. induction d as [|[s cols] r IH]; intros fd H; simpl in H.
    - inversion H; subst. now exists [].
    - destruct (seq_cols (map G cols)) as [cs|] eqn:E; simpl in H; [|discriminate].
      destruct (mapM _ (map _ r)) as [r'|] eqn:R; [|discriminate]. inversion H; subst.
      destruct (seq_cols_pointwise G G' idx cols cs K E) as [cs' [H1 H2]].
      destruct (IH r' eq_refl) as [fd' [H3 H4]].
      exists ((s, cs') :: fd'). simpl. rewrite H1, H2. simpl. now rewrite H3, H4.
  Qed.

  (* converting a non-empty selection of rows succeeds whenever converting the frame does, and
     gives exactly the selected rows of that conversion -- for mappers that are row-wise *)
  Theorem call_select_rowwise ok target d idx df df' d1 tf :
    rowwise ok -> idx <> [] ->
    (forall c col, df_col df c = Some col -> ok c (df_index df) col) ->
    df_select idx df = Some df' -> call target d df = Some (d1, tf) ->
    exists tf', tf_select idx tf = Some tf' /\ call target d df' = Some (d1, tf').
  Proof.
    intros RW Hne Hok S C. pose proof (call_state _ _ _ _ _ C) as M.
    rewrite call_char, M in C. rewrite call_char, M. simpl in *. unfold call_result in *.
    assert (K : forall c enc, map_col df c = Some enc ->
                              exists enc', tgather enc idx = Some enc' /\ map_col df' c = Some enc').
    { intros c enc Hc. unfold ConverterState.map_col in *.
      destruct (lookup_df_select idx df df' c S) as [Hix Hl].
      destruct (df_col df c) as [col|] eqn:D; simpl in Hc; [|discriminate].
      destruct Hl as [col' [G E]]. rewrite E. simpl.
      exact (RW c (df_index df) col enc idx (df_index df') col' (Hok c col D) Hc Hne Hix G). }
    destruct (call_y target df) as [yv|] eqn:Y; simpl in C; [|discriminate].
    destruct (seq_dict (dmap (map (map_col df)) d1)) as [fd|] eqn:Sd; simpl in C; [|discriminate].
    inversion C; subst tf; clear C.
    destruct (seq_dict_pointwise (map_col df) (map_col df') idx d1 fd K Sd) as [fd' [F1 F2]].
    assert (Y' : exists yv', y_select idx yv = Some yv' /\ call_y target df' = Some yv').
    { unfold ConverterState.call_y in *. destruct target as [t|]; [|inversion Y; subst; now exists None].
      destruct (lookup_df_select idx df df' t S) as [_ Hl].
      destruct (df_col df t) as [col|] eqn:D.
      - destruct Hl as [col' [G E]]. rewrite E.
        destruct (map_col df t) as [enc|] eqn:Mt; simpl in Y; [|discriminate]. inversion Y; subst yv.
        destruct (K t enc Mt) as [enc' [Ge Ge']]. exists (Some enc'). simpl. now rewrite Ge, Ge'.
      - rewrite Hl. inversion Y; subst. now exists None. }
    destruct Y' as [yv' [Y1 Y2]].
    exists {| feats := fd'; y := yv' |}. unfold ConverterState.tf_select. simpl.
    rewrite F1, Y1, Y2, F2. split; reflexivity.
  Qed.
End MachineProofs.

(* ======================================================================== *)
(* The pipeline mappers of Model/Mapper.v ARE row-wise: derived from the C01 theorems
   (each pipeline = map canonical_cell), not from their definition *)
Lemma attach_len f col rc : attach f col = Some rc -> rawcol_len rc = fcol_len col.
Proof.
  destruct f, col; simpl; intros H; inversion H; subst; simpl; try reflexivity. apply map_length.
Qed.

Definition pipeline_ok {L} (fits : list (string * col_fit)) (c : string) (ix : list L) (col : fcol) : Prop :=
  length ix = fcol_len col /\
  forall f rc, lookup fits c = Some f -> attach f col = Some rc -> rawcol_ok rc.

Lemma combine_ne {A B} (a : list A) (b : list B) : length a = length b -> b <> [] -> combine a b <> [].
Proof. destruct a, b; simpl; intros; congruence. Qed.

Theorem pipeline_rowwise {L} (leqb : L -> L -> bool) fits :
  leqb_refl leqb -> rowwise (pipeline_col leqb fits) fcol_select (pipeline_ok fits).
Proof.
  intros Hr c ix col enc idx ix' col' [Hlen Hok] He Hne Gix Gc. unfold pipeline_col in *.
  destruct (lookup fits c) as [f|] eqn:Lf; simpl in *; [|discriminate].
  destruct (attach f col) as [rc|] eqn:A; simpl in He; [|discriminate].
  destruct (encode_col leqb ix rc) as [e|] eqn:E; simpl in He; [|discriminate].
  destruct e as [cells|]; simpl in He; [|discriminate]. inversion He; subst enc; clear He.
  pose proof (Hok f rc eq_refl A) as Ok.
  assert (Hl : length ix = rawcol_len rc) by (rewrite (attach_len _ _ _ A); exact Hlen).
  pose proof (encode_col_canonical leqb ix rc cells Hr Hl Ok E) as Can.
  pose proof (tgather_length _ _ _ Gix) as Lix.
  destruct f, col; simpl in A; inversion A; subst rc; clear A; simpl in Gc;
    match type of Gc with option_map _ (tgather ?l idx) = _ =>
      destruct (tgather l idx) as [sel|] eqn:G; simpl in Gc; [|discriminate] end;
    inversion Gc; subst col'; clear Gc; simpl attach; cbn [obind];
    pose proof (tgather_length _ _ _ G) as Ls;
    assert (Lc : length ix' = length sel) by congruence.
  - (* numerical *)
    simpl in Can. subst cells. simpl. rewrite numerical_faithful, ser_values_combine_eq by exact Lc.
    exists (map canon_num sel). rewrite tgather_map, G. split; reflexivity.
  - (* categorical *)
    simpl in Can, Ok. subst cells. simpl.
    rewrite categorical_faithful, ser_values_combine_eq by assumption.
    exists (map (canon_cat cats) sel). rewrite tgather_map, G. split; reflexivity.
  - (* multicategorical *)
    simpl in Can. destruct Ok as (-> & ND & Hm & Ht).
    destruct (mapM_gather _ _ _ _ _ Can G) as [sp' [Gs Ms]].
    assert (Ht' : Forall (tokens_ok sep) (ser_values (combine ix' sel)))
      by (rewrite ser_values_combine_eq by exact Lc; eapply tgather_Forall; eauto).
    assert (Ms' : mapM (canon_multi cats sep) (ser_values (combine ix' sel)) = Some sp')
      by (rewrite ser_values_combine_eq by exact Lc; exact Ms).
    destruct (multicategorical_faithful_sorted cats sep (combine ix' sel) sp' ND Hm Ht' Ms') as [enc2 [E2 S2]].
    simpl. rewrite E2. simpl. exists sp'. split; [exact Gs|now rewrite S2].
  - (* sequence *)
    simpl in Can. destruct (mapM_gather _ _ _ _ _ Can G) as [sp' [Gs Ms]].
    simpl. rewrite (sequence_faithful leqb (combine ix' sel) sp' Hr)
      by (rewrite ser_values_combine_eq by exact Lc; exact Ms).
    simpl. exists sp'. split; [exact Gs|reflexivity].
  - (* timestamp *)
    simpl in Can. subst cells. simpl. rewrite timestamp_faithful, ser_values_combine_eq by exact Lc.
    exists (map canon_time sel). rewrite tgather_map, G. split; reflexivity.
  - (* embedding *)
    simpl in Can, Ok. subst cells. destruct Ok as [w Hw].
    assert (Hsel : sel <> []) by (intros ->; simpl in Ls; destruct idx; [congruence|discriminate]).
    simpl. rewrite (embedding_faithful (combine ix' sel) w)
      by (try apply combine_ne; try assumption; rewrite ser_values_combine_eq by exact Lc; eapply tgather_Forall; eauto).
    rewrite ser_values_combine_eq by exact Lc. simpl.
    exists (map canon_vec sel). rewrite tgather_map, G. split; reflexivity.
  - (* opaque (user callable): ids carried as one-entry vectors *)
    simpl in Can. subst cells.
    assert (Hsel : sel <> []) by (intros ->; simpl in Ls; destruct idx; [congruence|discriminate]).
    set (v := fun i : Z => [NFin i]) in *.
    assert (Lc' : length ix' = length (map v sel)) by (rewrite map_length; exact Lc).
    simpl. rewrite (embedded_faithful (combine ix' (map v sel)) 1).
    + rewrite ser_values_combine_eq by exact Lc'. simpl.
      exists (map canon_vec (map v sel)). rewrite !tgather_map, G. split; reflexivity.
    + apply combine_ne; [exact Lc'|]. destruct sel; [congruence|discriminate].
    + rewrite ser_values_combine_eq by exact Lc'. apply Forall_forall. intros x Hx.
      apply in_map_iff in Hx. destruct Hx as [i [<- _]]. reflexivity.
Qed.

(* the conditions are inherited by every selection, so selections can be iterated *)
Lemma pipeline_ok_select {L} fits c (ix ix' : list L) col col' idx :
  pipeline_ok fits c ix col -> tgather ix idx = Some ix' -> fcol_select idx col = Some col' ->
  pipeline_ok fits c ix' col'.
Proof.
  intros [Hlen Hok] Gix Gc. pose proof (tgather_length _ _ _ Gix) as Lix.
  destruct col; simpl in Gc;
    match type of Gc with option_map _ (tgather ?l idx) = _ =>
      destruct (tgather l idx) as [sel|] eqn:G; simpl in Gc; [|discriminate] end;
    inversion Gc; subst col'; clear Gc; pose proof (tgather_length _ _ _ G) as Ls;
    (split; [simpl; congruence|]); intros f rc Lf A;
    destruct f; simpl in A; inversion A; subst rc; clear A; simpl; try exact I;
    match goal with
    | |- _ => specialize (Hok _ _ Lf eq_refl); simpl in Hok
    end.
  - exact Hok.
  - destruct Hok as (H1 & H2 & H3 & H4). repeat split; auto. eapply tgather_Forall; eauto.
  - destruct Hok as [w Hw]. exists w. eapply tgather_Forall; eauto.
  - exists 1. apply Forall_forall. intros x Hx. apply in_map_iff in Hx. destruct Hx as [i [<- _]]. reflexivity.
Qed.

(* the concrete statement for the converter built from the pipelines *)
Theorem pcall_select fits target d idx (df df' : pdataframe) d1 tf :
  idx <> [] ->
  (forall c col, df_col df c = Some col -> pipeline_ok fits c (df_index df) col) ->
  pdf_select idx df = Some df' -> pcall fits target d df = Some (d1, tf) ->
  exists tf', tf_select idx tf = Some tf' /\ pcall fits target d df' = Some (d1, tf').
Proof.
  intros Hne Hok S C.
  eapply (call_select_rowwise (pipeline_col Nat.eqb fits) fcol_select (pipeline_ok fits)); eauto.
  apply pipeline_rowwise. intros a. apply Nat.eqb_refl.
Qed.

(* ------------------------------------------------- unseen values, aliasing *)
(* through the modelled categorical pipeline a cell becomes its position in the fitted category
   list; an unseen value or a missing cell becomes -1 (Props/C01.v, theorems category_index_seen etc.) *)
Theorem pipeline_categorical {L} (leqb : L -> L -> bool) fits c cats (ix : list L) cells :
  lookup fits c = Some (FitCat cats) -> NoDup cats -> length ix = length cells ->
  pipeline_col leqb fits c ix (FCat cells) = Some (map (canon_cat cats) cells).
Proof.
  intros Lf ND Hl. unfold pipeline_col. rewrite Lf. simpl.
  now rewrite categorical_faithful, ser_values_combine_eq by assumption.
Qed.

Lemma canon_cat_unseen cats v : ~ In v cats -> canon_cat cats (Some v) = [SInt (-1)].
Proof. intros H. unfold canon_cat. now rewrite index_of_unseen. Qed.

Lemma canon_cat_no_alias cats v k :
  canon_cat cats (Some v) = [SInt (Z.of_nat k)] -> nth_error cats k = Some v.
Proof.
  unfold canon_cat. intros H. inversion H as [H']. destruct (in_dec pval_eq_dec v cats) as [Hi|Hn].
  - destruct (index_of_seen cats v Hi) as [_ Hn]. rewrite H', Nat2Z.id in Hn. exact Hn.
  - rewrite (index_of_unseen cats v Hn) in H'. lia.
Qed.

(* through the modelled multicategorical pipeline (observed sorted) a cell becomes the ascending
   set of the positions of those of its tokens that are fitted categories: unseen tokens are left out *)
Theorem pipeline_multicategorical {L} (leqb : L -> L -> bool) fits c cats sep (ix : list L) cells canon :
  lookup fits c = Some (FitMulti cats sep) -> NoDup cats -> ~ In (VInt (-1)) cats ->
  Forall (tokens_ok sep) cells -> length ix = length cells ->
  mapM (canon_multi cats sep) cells = Some canon ->
  pipeline_col leqb fits c ix (FMulti true cells) = Some canon.
Proof.
  intros Lf ND Hm Ht Hl Hc. unfold pipeline_col. rewrite Lf. simpl.
  destruct (multicategorical_faithful_sorted cats sep (combine ix cells) canon ND Hm) as [enc [E S]];
    try (rewrite ser_values_combine_eq by exact Hl; assumption).
  rewrite E. simpl. now rewrite S.
Qed.

(* ------------------------------------------ supplied statistics = recomputed *)
Lemma stat_type_eqb_eq a b : stat_type_eqb a b = true <-> a = b.
Proof. destruct a, b; simpl; split; intros H; try reflexivity; try discriminate. Qed.

Definition emb_updated (cs : col_stat) (w : nat) : col_stat :=
  {| cs_keys := if has_key stat_EMB_DIM cs then cs_keys cs else cs_keys cs ++ [stat_EMB_DIM];
     cs_cats := cs_cats cs; cs_emb := Some w |}.

Lemma has_key_emb_updated k cs w : has_key k cs = true -> has_key k (emb_updated cs w) = true.
Proof.
  unfold has_key, emb_updated. simpl. destruct (has_key stat_EMB_DIM cs); simpl; [tauto|].
  intros H. rewrite existsb_app, H. reflexivity.
Qed.

Lemma has_emb_key_updated cs w : has_key stat_EMB_DIM (emb_updated cs w) = true.
Proof.
  unfold has_key, emb_updated. simpl.
  destruct (has_key stat_EMB_DIM cs) eqn:E; simpl; [exact E|].
  rewrite existsb_app. simpl. now rewrite orb_true_r.
Qed.

Lemma has_key_emb_updated_other k cs w :
  k <> stat_EMB_DIM -> has_key k (emb_updated cs w) = has_key k cs.
Proof.
  intros H. unfold has_key, emb_updated. simpl.
  destruct (has_key stat_EMB_DIM cs); simpl; [reflexivity|].
  rewrite existsb_app. simpl. rewrite orb_false_r.
  destruct (stat_type_eqb k stat_EMB_DIM) eqn:E; [apply stat_type_eqb_eq in E; contradiction|].
  now rewrite orb_false_r.
Qed.

Lemma fit_of_stat_emb_updated s sep cs w : fit_of_stat s sep (emb_updated cs w) = fit_of_stat s sep cs.
Proof.
  destruct s; simpl; try reflexivity; rewrite has_key_emb_updated_other by discriminate; reflexivity.
Qed.

Lemma emb_updated_fix cs w :
  cs_emb cs = Some w -> has_key stat_EMB_DIM cs = true -> emb_updated cs w = cs.
Proof. destruct cs as [k c e]. unfold emb_updated. simpl. intros -> ->. reflexivity. Qed.

Lemma set_emb_lookup st c w st' :
  set_emb st c w = Some st' ->
  exists cs, lookup st c = Some cs /\ lookup st' c = Some (emb_updated cs w) /\
             forall c', c' <> c -> lookup st' c' = lookup st c'.
Proof.
  revert st'. induction st as [|[c0 cs0] r IH]; intros st' H; simpl in H; [discriminate|].
  destruct (String.eqb c0 c) eqn:E.
  - inversion H; subst st'; clear H. apply String.eqb_eq in E. subst c0. exists cs0. simpl.
    rewrite String.eqb_refl. repeat split; auto. intros c' Hn.
    destruct (String.eqb c c') eqn:E'; [apply String.eqb_eq in E'; congruence|reflexivity].
  - destruct (set_emb r c w) as [r'|] eqn:R; simpl in H; [|discriminate]. inversion H; subst st'; clear H.
    destruct (IH r' eq_refl) as [cs [L1 [L2 L3]]]. exists cs. simpl. rewrite E. repeat split; auto.
    intros c' Hn. destruct (String.eqb c0 c'); [reflexivity|now apply L3].
Qed.

Lemma set_emb_fix st c w cs :
  lookup st c = Some cs -> cs_emb cs = Some w -> has_key stat_EMB_DIM cs = true -> set_emb st c w = Some st.
Proof.
  induction st as [|[c0 cs0] r IH]; simpl; intros L E K; [discriminate|].
  destruct (String.eqb c0 c).
  - inversion L; subst cs0. fold (emb_updated cs w). now rewrite (emb_updated_fix cs w E K).
  - now rewrite (IH L E K).
Qed.

(* what _update_col_stats leaves behind, relative to the statistics it started from *)
Definition upd_rel (width : string -> nat) (st st' : stats) (done : list string) : Prop :=
  forall c,
    match lookup st c with
    | None => lookup st' c = None
    | Some cs =>
        (In c done -> lookup st' c = Some (emb_updated cs (width c))) /\
        (~ In c done -> lookup st' c = Some cs)
    end.

Lemma emb_updated_twice cs w : emb_updated (emb_updated cs w) w = emb_updated cs w.
Proof. apply emb_updated_fix; [reflexivity|apply has_emb_key_updated]. Qed.

Lemma update_emb_rel width cols : forall st st',
  update_emb width st cols = Some st' -> upd_rel width st st' cols.
Proof.
  induction cols as [|c r IH]; intros st st' H; simpl in H.
  - inversion H; subst. intros c. destruct (lookup st' c); [split; [intros []|reflexivity]|reflexivity].
  - destruct (set_emb st c (width c)) as [st1|] eqn:S; simpl in H; [|discriminate].
    destruct (set_emb_lookup _ _ _ _ S) as [cs [L1 [L2 L3]]].
    pose proof (IH st1 st' H) as R. intros c'. specialize (R c').
    destruct (string_dec c' c) as [->|Hn].
    + rewrite L1. rewrite L2 in R. destruct R as [R1 R2]. split; [|intros Hc; exfalso; apply Hc; now left].
      intros _. destruct (in_dec string_dec c r) as [Hi|Hi].
      * rewrite (R1 Hi). now rewrite emb_updated_twice.
      * exact (R2 Hi).
    + rewrite (L3 c' Hn) in R. destruct (lookup st c') as [cs'|]; [|exact R].
      destruct R as [R1 R2]. split.
      * intros [E|Hi]; [congruence|exact (R1 Hi)].
      * intros Hc. apply R2. intros Hi. apply Hc. now right.
Qed.

Lemma update_emb_again width cols : forall st st',
  update_emb width st cols = Some st' -> forall cols', incl cols' cols -> update_emb width st' cols' = Some st'.
Proof.
  intros st st' H cols'. pose proof (update_emb_rel width cols st st' H) as R.
  assert (Hex : forall c, In c cols -> exists cs, lookup st c = Some cs).
  { clear R. revert st st' H. induction cols as [|c r IH]; intros st st' H c0 Hc; [destruct Hc|].
    simpl in H. destruct (set_emb st c (width c)) as [st1|] eqn:S; simpl in H; [|discriminate].
    destruct (set_emb_lookup _ _ _ _ S) as [cs [L1 [L2 L3]]].
    destruct Hc as [<-|Hc]; [now exists cs|].
    destruct (IH st1 st' H c0 Hc) as [cs1 E]. destruct (string_dec c0 c) as [->|Hn]; [now exists cs|].
    rewrite (L3 c0 Hn) in E. now exists cs1. }
  induction cols' as [|c r IH]; intros Hi; simpl; [reflexivity|].
  assert (Hc : In c cols) by (apply Hi; now left).
  destruct (Hex c Hc) as [cs L]. specialize (R c). rewrite L in R. destruct R as [R1 _].
  rewrite (set_emb_fix st' c (width c) (emb_updated cs (width c)) (R1 Hc) eq_refl (has_emb_key_updated _ _)).
  simpl. apply IH. intros x Hx. apply Hi. now right.
Qed.

Lemma update_col_stats_idem width st d st' :
  update_col_stats width st d = Some st' -> update_col_stats width st' d = Some st'.
Proof.
  unfold update_col_stats. destruct (dget d st_embedding) as [cols|]; [|intros H; now inversion H].
  intros H. apply (update_emb_again width cols st st' H cols). apply incl_refl.
Qed.

Lemma update_col_stats_rel width st d st' :
  update_col_stats width st d = Some st' ->
  forall c, match lookup st c with
            | None => lookup st' c = None
            | Some cs => lookup st' c = Some cs \/ exists w, lookup st' c = Some (emb_updated cs w)
            end.
Proof.
  unfold update_col_stats. destruct (dget d st_embedding) as [cols|].
  - intros H c. pose proof (update_emb_rel width cols st st' H c) as R.
    destruct (lookup st c) as [cs|]; [|exact R]. destruct R as [R1 R2].
    destruct (in_dec string_dec c cols) as [Hi|Hi]; [right; eexists; exact (R1 Hi)|left; exact (R2 Hi)].
  - intros H c. inversion H; subst. destruct (lookup st' c); [now left|reflexivity].
Qed.

Lemma fits_of_updated width cts seps st d st' :
  update_col_stats width st d = Some st' -> fits_of cts seps st' = fits_of cts seps st.
Proof.
  intros H. unfold fits_of. apply mapM_ext. intros [c s] _. simpl.
  pose proof (update_col_stats_rel width st d st' H c) as R.
  destruct (lookup st c) as [cs|]; [|now rewrite R].
  destruct R as [->|[w ->]]; simpl; [reflexivity|]. now rewrite fit_of_stat_emb_updated.
Qed.

Lemma validate_updated width cts st d st' :
  update_col_stats width st d = Some st' -> validate_stats cts st = true -> validate_stats cts st' = true.
Proof.
  intros H V. unfold validate_stats in *. rewrite forallb_forall in *. intros [c s] Hp. specialize (V _ Hp).
  simpl in *. pose proof (update_col_stats_rel width st d st' H c) as R.
  destruct (lookup st c) as [cs|]; [|discriminate].
  destruct R as [->|[w ->]]; [exact V|].
  rewrite forallb_forall in *. intros k Hk. apply has_key_emb_updated. now apply V.
Qed.

(* materialize(col_stats = the statistics a previous materialize produced) gives the same
   statistics, the same converter state and the same TensorFrame as recomputing them *)
Theorem materialize_supplied_equiv cts seps target compute width df st d tf :
  validate_stats cts (compute df) = true ->          (* compute_col_stats returns every required statistic (C03) *)
  materialize cts seps target compute width None df = Some (st, d, tf) ->
  materialize cts seps target compute width (Some st) df = Some (st, d, tf).
Proof.
  intros V H. unfold materialize in *. simpl in H.
  destruct (fits_of cts seps (compute df)) as [fits|] eqn:F; simpl in H; [|discriminate].
  destruct (pcall fits target (init_names cts target) df) as [[d1 tf1]|] eqn:C; simpl in H; [|discriminate].
  destruct (update_col_stats width (compute df) d1) as [st1|] eqn:U; simpl in H; [|discriminate].
  inversion H; subst st1 d1 tf1; clear H.
  rewrite (validate_updated width cts _ _ _ U V). simpl.
  rewrite (fits_of_updated width cts seps _ _ _ U), F. simpl. rewrite C. simpl.
  rewrite (update_col_stats_idem width _ _ _ U). reflexivity.
Qed.

(* ------------------------- converting the dataset's own frame reproduces its TensorFrame *)
(* after materialize (statistics recomputed or supplied), the mappers built from the FINAL
   statistics (the ones dataset.col_stats shows, EMB_DIM included) and the converter state left
   behind by the materialization convert the dataset's own frame into the dataset's TensorFrame *)
Theorem own_frame_reproduced cts seps target compute width supplied df st d tf :
  materialize cts seps target compute width supplied df = Some (st, d, tf) ->
  exists fits, fits_of cts seps st = Some fits /\ pcall fits target d df = Some (d, tf).
Proof.
  unfold materialize. intros H.
  destruct (match supplied with
            | Some s => if validate_stats cts s then Some s else None
            | None => Some (compute df)
            end) as [st0|]; simpl in H; [|discriminate].
  destruct (fits_of cts seps st0) as [fits|] eqn:F; simpl in H; [|discriminate].
  destruct (pcall fits target (init_names cts target) df) as [[d1 tf1]|] eqn:C; simpl in H; [|discriminate].
  destruct (update_col_stats width st0 d1) as [st1|] eqn:U; simpl in H; [|discriminate].
  inversion H; subst st1 d1 tf1; clear H.
  exists fits. split.
  - rewrite (fits_of_updated width cts seps _ _ _ U). exact F.
  - unfold pcall in *. pose proof (call_state _ _ _ _ _ _ C) as M.
    rewrite (call_from_merged _ target _ _ df M). exact C.
Qed.

(* ... and every non-empty selection of its rows into the corresponding rows of that TensorFrame *)
Theorem own_frame_selection cts seps target compute width supplied df st d tf idx df' :
  materialize cts seps target compute width supplied df = Some (st, d, tf) ->
  idx <> [] -> pdf_select idx df = Some df' ->
  (forall fits c col, fits_of cts seps st = Some fits -> df_col df c = Some col -> pipeline_ok fits c (df_index df) col) ->
  exists fits tf', fits_of cts seps st = Some fits /\ tf_select idx tf = Some tf' /\
                   pcall fits target d df' = Some (d, tf').
Proof.
  intros H Hne S Hok. destruct (own_frame_reproduced _ _ _ _ _ _ _ _ _ _ H) as [fits [F C]].
  destruct (pcall_select fits target d idx df df' d tf Hne (fun c col => Hok fits c col F) S C) as [tf' [T C']].
  exists fits, tf'. auto.
Qed.

(* ------------------------------------------- typed category values: canon_cat DERIVED *)
From Coq Require Import QArith.
Local Open Scope nat_scope.

Lemma norm_q_inj p q : norm_q p = norm_q q <-> (p == q)%Q.
Proof.
  unfold norm_q. split.
  - intros H.
    assert (E : Qred p = Qred q).
    { destruct (Qred p) as [a b] eqn:Ep, (Qred q) as [c d] eqn:Eq. cbn [Qnum Qden] in H.
      destruct (Z.pos b =? 1)%Z eqn:B, (Z.pos d =? 1)%Z eqn:D; inversion H; subst.
      - apply Z.eqb_eq in B, D. inversion B; inversion D; subst. inversion H; subst. reflexivity.
      - reflexivity. }
    rewrite <- (Qred_correct p), <- (Qred_correct q), E. reflexivity.
  - intros H. now rewrite (Qred_complete p q H).
Qed.

Lemma norm_q_not_str q s : Forall (fun c => (0 <= c)%Z) s -> norm_q q <> VStr s.
Proof.
  unfold norm_q. intros W. destruct (Z.pos (Qden (Qred q)) =? 1)%Z; [discriminate|].
  intros E. inversion E; subst. inversion W; subst. lia.
Qed.

(* the presentation to the untyped pipeline preserves exactly the merge-key equality *)
Theorem norm_reflects_key_equality a b :
  wf_tval a -> wf_tval b -> pval_eqb (norm a) (norm b) = key_eqb a b.
Proof.
  intros Wa Wb.
  assert (R : forall x y : pval, (x = y <-> key_eqb a b = true) -> pval_eqb x y = key_eqb a b).
  { intros x y H. destruct (key_eqb a b); [apply pval_eqb_eq; now apply H|].
    apply pval_eqb_neq. intros E. apply H in E. discriminate. }
  assert (NI : forall x p, norm_q x <> VStr [(-2)%Z; p]).
  { intros x p E. unfold norm_q in E. destruct (Z.pos (Qden (Qred x)) =? 1)%Z; inversion E. }
  apply R. destruct a as [z|p|pa|s], b as [z'|p'|pb|s']; unfold key_eqb; simpl tnum; cbn [norm].
  - rewrite norm_q_inj. symmetry. apply Qeq_bool_iff.
  - rewrite norm_q_inj. symmetry. apply Qeq_bool_iff.
  - split; [intros E; exfalso; exact (NI _ _ E)|discriminate].
  - split; [intros E; exfalso; exact (norm_q_not_str _ s' Wb E)|discriminate].
  - rewrite norm_q_inj. symmetry. apply Qeq_bool_iff.
  - rewrite norm_q_inj. symmetry. apply Qeq_bool_iff.
  - split; [intros E; exfalso; exact (NI _ _ E)|discriminate].
  - split; [intros E; exfalso; exact (norm_q_not_str _ s' Wb E)|discriminate].
  - split; [intros E; exfalso; symmetry in E; exact (NI _ _ E)|discriminate].
  - split; [intros E; exfalso; symmetry in E; exact (NI _ _ E)|discriminate].
  - split.
    + intros E. inversion E as [E']. destruct pa, pb; try reflexivity; discriminate.
    + intros E. destruct pa, pb; try reflexivity; discriminate.
  - split; [|discriminate]. intros E. inversion E; subst. simpl in Wb. inversion Wb; subst. lia.
  - split; [intros E; exfalso; symmetry in E; exact (norm_q_not_str _ s Wa E)|discriminate].
  - split; [intros E; exfalso; symmetry in E; exact (norm_q_not_str _ s Wa E)|discriminate].
  - split; [|discriminate]. intros E. inversion E; subst. simpl in Wa. inversion Wa; subst. lia.
  - rewrite str_eqb_eq. split; [intros E; now inversion E|intros ->; reflexivity].
Qed.

(* the categorical mapper on typed keys IS the canonical cell of C01 on the normalised values:
   `canon_cat` is derived for every mixture of value types, not assumed *)
Lemma typed_find_is_find_index cats v :
  Forall wf_tval cats -> wf_tval v -> typed_find cats v = find_index (map norm cats) (norm v).
Proof.
  intros Wc Wv. induction Wc as [|c0 r W0 Wr IH]; simpl; [reflexivity|].
  rewrite (norm_reflects_key_equality c0 v W0 Wv), IH. reflexivity.
Qed.

Theorem typed_merge_is_canon_cat cats c :
  Forall wf_tval cats -> (forall v, c = Some v -> wf_tval v) ->
  [SInt (typed_cat_cell cats c)] = canon_cat (map norm cats) (option_map norm c).
Proof.
  intros Wc Wv. destruct c as [v|]; [|reflexivity]. simpl. unfold canon_cat, index_of.
  rewrite (typed_find_is_find_index cats v Wc (Wv v eq_refl)). reflexivity.
Qed.

(* neighbours of the fitted categories *)
Definition is_tint (v : tval) : Prop := match v with TInt _ => True | _ => False end.
Definition is_tstr (v : tval) : Prop := match v with TStr _ => True | _ => False end.
Definition is_tnumber (v : tval) : Prop := match v with TInt _ | TFloat _ => True | _ => False end.

Lemma typed_find_none cats v : (forall c, In c cats -> key_eqb c v = false) -> typed_cat_cell cats (Some v) = (-1)%Z.
Proof.
  intros H. simpl. assert (E : typed_find cats v = None).
  { induction cats as [|c r IH]; [reflexivity|]. simpl. rewrite (H c (or_introl eq_refl)).
    rewrite IH; [reflexivity|]. intros; apply H; now right. }
  now rewrite E.
Qed.

(* a non-integral float (2.5, 1.9, ...) is never an integer category, whatever it truncates or rounds to *)
Theorem nonintegral_float_unseen cats q :
  Forall is_tint cats -> (forall z, ~ (q == inject_Z z)%Q) -> typed_cat_cell cats (Some (TFloat q)) = (-1)%Z.
Proof.
  intros Hc Hq. apply typed_find_none. intros c Hin. rewrite Forall_forall in Hc. specialize (Hc c Hin).
  destruct c as [z| | |]; try destruct Hc. unfold key_eqb. simpl.
  destruct (Qeq_bool (inject_Z z) q) eqn:E; [|reflexivity].
  apply Qeq_bool_iff in E. exfalso. apply (Hq z). now symmetry.
Qed.

(* ... while an integral float IS the integer category (pandas holds an integer column with missing cells as float) *)
Theorem integral_float_is_the_integer cats z :
  typed_cat_cell cats (Some (TFloat (inject_Z z))) = typed_cat_cell cats (Some (TInt z)).
Proof.
  simpl. assert (E : typed_find cats (TFloat (inject_Z z)) = typed_find cats (TInt z)).
  { induction cats as [|c r IH]; [reflexivity|]. simpl. rewrite IH.
    assert (K : key_eqb c (TFloat (inject_Z z)) = key_eqb c (TInt z)) by (destruct c; reflexivity).
    now rewrite K. }
  now rewrite E.
Qed.

(* a value of another type never matches: a string (or an infinity) among numbers, a number among strings *)
Theorem other_type_unseen cats v :
  (Forall is_tnumber cats /\ (is_tstr v \/ exists p, v = TInf p)) \/ (Forall is_tstr cats /\ ~ is_tstr v) ->
  typed_cat_cell cats (Some v) = (-1)%Z.
Proof.
  intros H. apply typed_find_none. intros c Hin.
  destruct H as [[Hc Hv]|[Hc Hv]]; rewrite Forall_forall in Hc; specialize (Hc c Hin).
  - destruct c as [z|q| |]; try destruct Hc; destruct Hv as [Hv|[p ->]]; try (destruct v; try destruct Hv); reflexivity.
  - destruct c as [| | |s]; try destruct Hc. destruct v; try reflexivity. exfalso. apply Hv. exact I.
Qed.
