(* Lemmas about Model/ConverterState.v (property C04). *)
From Coq Require Import List Arith ZArith Bool String Lia.
From PF Require Import Lib.ListX Gen.Tables Model.Stats Model.ConverterState Proofs.StatsProofs.
Import ListNotations.

(* ------------------------------------------------ facts about the generated tables
   (finite case analysis over the nine stypes; re-checked whenever Gen/Tables.v changes) *)
Lemma stype_eqb_eq a b : stype_eqb a b = true <-> a = b.
Proof. destruct a, b; simpl; split; intros H; try reflexivity; try discriminate. Qed.

Lemma stype_eqb_refl a : stype_eqb a a = true.
Proof. now apply stype_eqb_eq. Qed.

Lemma stype_eqb_neq a b : stype_eqb a b = false <-> a <> b.
Proof.
  split.
  - intros H E. apply stype_eqb_eq in E. congruence.
  - intros H. destruct (stype_eqb a b) eqn:E; [|reflexivity]. apply stype_eqb_eq in E. contradiction.
Qed.

Lemma all_stype_complete s : In s all_stype.
Proof. destruct s; simpl; tauto. Qed.

(* the parent of a stype is never itself a child: merging is one level deep *)
Lemma parent_not_child s : is_child (stype_parent s) = false.
Proof. destruct s; reflexivity. Qed.

(* ------------------------------------------------------------- option / mapM *)
Lemma mapM_map {A B C} (f : B -> option C) (g : A -> B) l : mapM f (map g l) = mapM (fun x => f (g x)) l.
Proof. induction l as [|x r IH]; simpl; [reflexivity|]. now rewrite IH. Qed.

Lemma mapM_ext {A B} (f g : A -> option B) l : (forall x, In x l -> f x = g x) -> mapM f l = mapM g l.
Proof.
  induction l as [|x r IH]; intros H; simpl; [reflexivity|].
  rewrite (H x (or_introl eq_refl)), IH; [reflexivity|]. intros; apply H; now right.
Qed.

(* Kleisli composition: all-or-nothing computations commute with sequencing *)
Lemma mapM_bind {A B C} (g : A -> option B) (h : B -> option C) l :
  mapM (fun x => y <- g x ;; h y) l = (ys <- mapM g l ;; mapM h ys).
Proof.
  induction l as [|x r IH]; simpl; [reflexivity|]. rewrite IH.
  destruct (g x) as [y|]; simpl.
  - destruct (mapM g r) as [ys|]; simpl.
    + reflexivity.
    + destruct (h y); reflexivity.
  - destruct (mapM g r) as [ys|]; reflexivity.
Qed.

Lemma mapM_some_map {A B} (f : A -> B) l : mapM (fun x => Some (f x)) l = Some (map f l).
Proof. induction l as [|x r IH]; simpl; [reflexivity|]. now rewrite IH. Qed.

Lemma tgather_map {A B} (f : A -> B) (l : list A) idx :
  tgather (map f l) idx = option_map (map f) (tgather l idx).
Proof.
  unfold tgather, tget. induction idx as [|i r IH]; simpl; [reflexivity|].
  rewrite nth_error_map, IH. destruct (nth_error l i); simpl; [|reflexivity].
  destruct (mapM (nth_error l) r); reflexivity.
Qed.

(* --------------------------------------------------------------------- dicts *)
Lemma dget_dmap {X Y} (f : X -> Y) d k : dget (dmap f d) k = option_map f (dget d k).
Proof.
  induction d as [|[k' v] r IH]; simpl; [reflexivity|]. destruct (stype_eqb k' k); [reflexivity|exact IH].
Qed.

Lemma dmem_dmap {X Y} (f : X -> Y) d k : dmem (dmap f d) k = dmem d k.
Proof. unfold dmem. rewrite dget_dmap. destruct (dget d k); reflexivity. Qed.

Lemma dset_dmap {X Y} (f : X -> Y) d k v : dmap f (dset d k v) = dset (dmap f d) k (f v).
Proof.
  induction d as [|[k' v'] r IH]; simpl; [reflexivity|].
  destruct (stype_eqb k' k); simpl; [reflexivity|]. now rewrite IH.
Qed.

Lemma dpop_dmap {X Y} (f : X -> Y) d k : dmap f (dpop d k) = dpop (dmap f d) k.
Proof.
  unfold dpop, dmap. induction d as [|[k' v'] r IH]; simpl; [reflexivity|].
  destruct (stype_eqb k' k); simpl; now rewrite IH.
Qed.

Lemma tf_stypes_dmap {X Y} (f : X -> Y) d : tf_stypes (dmap f d) = tf_stypes d.
Proof. unfold tf_stypes. apply filter_ext. intros s. apply dmem_dmap. Qed.

Lemma dmem_keys {X} (d : dict X) k : dmem d k = true <-> In k (keys d).
Proof.
  unfold dmem, keys. induction d as [|[k' v] r IH]; simpl; [split; [discriminate|tauto]|].
  destruct (stype_eqb k' k) eqn:E.
  - apply stype_eqb_eq in E. split; [now left|reflexivity].
  - apply stype_eqb_neq in E. rewrite IH. split; [now right|]. intros [H|H]; [contradiction|exact H].
Qed.

Lemma keys_dset {X} (d : dict X) k v x : In x (keys (dset d k v)) <-> x = k \/ In x (keys d).
Proof.
  unfold keys. induction d as [|[k' v'] r IH]; simpl; [intuition|].
  destruct (stype_eqb k' k) eqn:E; simpl.
  - apply stype_eqb_eq in E. subst. intuition.
  - rewrite IH. intuition.
Qed.

Lemma keys_dpop {X} (d : dict X) k x : In x (keys (dpop d k)) <-> x <> k /\ In x (keys d).
Proof.
  unfold keys, dpop. rewrite !in_map_iff. split.
  - intros [[k' v] [E H]]. simpl in E. subst. apply filter_In in H. destruct H as [H1 H2].
    simpl in H2. apply negb_true_iff, stype_eqb_neq in H2. split; [exact H2|]. now exists (x, v).
  - intros [Hn [[k' v] [E H]]]. simpl in E. subst. exists (x, v). split; [reflexivity|].
    apply filter_In. split; [exact H|]. simpl. apply negb_true_iff, stype_eqb_neq. exact Hn.
Qed.

(* ---------------------------------------------- _merge_feat: naturality *)
(* the same loop runs on the feature dict and on the name dict: it commutes with any
   column-wise map (this is why names and data stay paired) *)
Lemma merge_step_dmap {X Y} (f : X -> Y) d s :
  merge_step (dmap (map f) d) s = option_map (dmap (map f)) (merge_step d s).
Proof.
  unfold merge_step. destruct (is_child s); [|reflexivity].
  rewrite !dget_dmap. destruct (dget d s) as [child|]; simpl; [|reflexivity].
  destruct (dget d (stype_parent s)) as [pv|]; simpl; rewrite dpop_dmap, dset_dmap, ?map_app; reflexivity.
Qed.

Lemma merge_loop_dmap {X Y} (f : X -> Y) l d :
  merge_loop l (dmap (map f) d) = option_map (dmap (map f)) (merge_loop l d).
Proof.
  revert d. induction l as [|s r IH]; intros d; simpl; [reflexivity|].
  rewrite merge_step_dmap. destruct (merge_step d s) as [d1|]; simpl; [apply IH|reflexivity].
Qed.

Theorem merge_feat_natural {X Y} (f : X -> Y) d :
  merge_feat (dmap (map f) d) = option_map (dmap (map f)) (merge_feat d).
Proof. unfold merge_feat. rewrite tf_stypes_dmap. apply merge_loop_dmap. Qed.

(* --------------------------------------------- _merge_feat: total, idempotent *)
Definition no_child {X} (d : dict X) : Prop := forall k, In k (keys d) -> is_child k = false.

Lemma merge_loop_no_child {X} l (d : dict (list X)) :
  no_child d -> (forall s, In s l -> In s (keys d)) -> merge_loop l d = Some d.
Proof.
  intros H. induction l as [|s r IH]; intros Hl; simpl; [reflexivity|].
  unfold merge_step. rewrite (H s (Hl s (or_introl eq_refl))). simpl.
  apply IH. intros; apply Hl; now right.
Qed.

Lemma tf_stypes_in_keys {X} (d : dict X) s : In s (tf_stypes d) <-> In s (keys d).
Proof.
  unfold tf_stypes. rewrite filter_In, dmem_keys. split; [tauto|]. intros H. split; [apply all_stype_complete|exact H].
Qed.

Lemma merge_feat_no_child {X} (d : dict (list X)) : no_child d -> merge_feat d = Some d.
Proof. intros H. apply merge_loop_no_child; [exact H|]. intros s. apply tf_stypes_in_keys. Qed.

(* children present after the loop were present before it and were not visited *)
Lemma merge_loop_children {X} l (d d' : dict (list X)) :
  merge_loop l d = Some d' ->
  forall k, In k (keys d') -> is_child k = true -> In k (keys d) /\ ~ In k l.
Proof.
  revert d. induction l as [|s r IH]; intros d H k Hk Hc; simpl in H.
  - inversion H; subst. tauto.
  - destruct (merge_step d s) as [d1|] eqn:S; simpl in H; [|discriminate].
    destruct (IH d1 H k Hk Hc) as [H1 H2].
    unfold merge_step in S. destruct (is_child s) eqn:Cs.
    + destruct (dget d s) as [child|]; [|discriminate]. inversion S; subst d1; clear S.
      apply keys_dpop in H1. destruct H1 as [Hks H1]. apply keys_dset in H1.
      destruct H1 as [->|H1].
      * rewrite parent_not_child in Hc. discriminate.
      * split; [exact H1|]. intros [E|E]; [congruence|contradiction].
    + inversion S; subst d1. split; [exact H1|]. intros [E|E]; [subst; congruence|contradiction].
Qed.

Lemma merge_feat_result_no_child {X} (d d' : dict (list X)) : merge_feat d = Some d' -> no_child d'.
Proof.
  intros H k Hk. destruct (is_child k) eqn:E; [|reflexivity]. exfalso.
  destruct (merge_loop_children _ _ _ H k Hk E) as [H1 H2]. apply H2. now apply tf_stypes_in_keys.
Qed.

(* the first call's rewrite of the name table is a fixed point of every later call *)
Theorem merge_feat_idempotent {X} (d d' : dict (list X)) : merge_feat d = Some d' -> merge_feat d' = Some d'.
Proof. intros H. apply merge_feat_no_child. eapply merge_feat_result_no_child; eauto. Qed.

(* the loop never raises: every stype it visits is still in the dict when visited *)
Lemma merge_loop_total {X} l (d : dict (list X)) :
  NoDup l -> (forall s, In s l -> In s (keys d)) -> exists d', merge_loop l d = Some d'.
Proof.
  revert d. induction l as [|s r IH]; intros d Hnd Hl; simpl; [now exists d|].
  inversion Hnd as [|? ? Hns Hnd']; subst.
  unfold merge_step. destruct (is_child s) eqn:Cs.
  - assert (Hs : In s (keys d)) by (apply Hl; now left).
    apply dmem_keys in Hs. unfold dmem in Hs. destruct (dget d s) as [child|]; [|discriminate]. simpl.
    apply IH; [exact Hnd'|]. intros x Hx. apply keys_dpop. split; [intros ->; contradiction|].
    apply keys_dset. right. apply Hl. now right.
  - simpl. apply IH; [exact Hnd'|]. intros; apply Hl; now right.
Qed.

Lemma all_stype_nodup : NoDup all_stype.
Proof. unfold all_stype. repeat (constructor; [simpl; intuition discriminate|]). constructor. Qed.

Theorem merge_feat_total {X} (d : dict (list X)) : exists d', merge_feat d = Some d'.
Proof.
  apply merge_loop_total.
  - unfold tf_stypes. apply NoDup_filter, all_stype_nodup.
  - intros s. apply tf_stypes_in_keys.
Qed.

(* ------------------------------------------------------------- one call *)
Definition call_result (cfg : config) (d' : dict (list string)) (df : dataframe) : option (dict (list string) * tframe) :=
  yv <- call_y cfg df ;;
  fd' <- seq_dict (dmap (map (map_col cfg df)) d') ;;
  Some (d', {| feats := fd'; y := yv |}).

(* a call = rewrite the state with _merge_feat, then map every listed column with its mapper *)
Lemma call_char cfg d df : call cfg d df = (d' <- merge_feat d ;; call_result cfg d' df).
Proof.
  unfold call, call_result. rewrite merge_feat_natural.
  destruct (call_y cfg df) as [yv|]; simpl.
  - destruct (merge_feat d) as [d'|]; reflexivity.
  - destruct (merge_feat d); reflexivity.
Qed.

Lemma call_state cfg d df d1 tf : call cfg d df = Some (d1, tf) -> merge_feat d = Some d1.
Proof.
  rewrite call_char. destruct (merge_feat d) as [d'|]; simpl; [|discriminate].
  unfold call_result. destruct (call_y cfg df); simpl; [|discriminate].
  destruct (seq_dict _); simpl; [|discriminate]. intros H. inversion H; subst. reflexivity.
Qed.

(* once the state has been rewritten, calling from it is the same as calling from the initial state *)
Lemma call_from_merged cfg d d1 df : merge_feat d = Some d1 -> call cfg d1 df = call cfg d df.
Proof.
  intros H. rewrite !call_char, H, (merge_feat_idempotent _ _ H). reflexivity.
Qed.

(* ------------------------------------------------- any sequence of calls *)
Theorem run_idempotent cfg dfs : forall d,
  option_map snd (run cfg d dfs) = mapM (fun df => option_map snd (call cfg d df)) dfs.
Proof.
  induction dfs as [|df r IH]; intros d; simpl; [reflexivity|].
  destruct (call cfg d df) as [[d1 tf]|] eqn:E; simpl.
  - pose proof (call_state _ _ _ _ _ E) as M.
    specialize (IH d1).
    rewrite (mapM_ext _ (fun df0 => option_map snd (call cfg d df0))) in IH
      by (intros; now rewrite (call_from_merged cfg d d1 _ M)).
    rewrite <- IH. destruct (run cfg d1 r) as [[d2 tfs]|]; reflexivity.
  - destruct (mapM (fun df0 : dataframe => option_map snd (call cfg d df0)) r); reflexivity.
Qed.

Theorem run_state cfg dfs : forall d d' tfs,
  run cfg d dfs = Some (d', tfs) -> dfs <> [] -> merge_feat d = Some d'.
Proof.
  induction dfs as [|df r IH]; intros d d' tfs H Hne; [congruence|].
  simpl in H. destruct (call cfg d df) as [[d1 tf]|] eqn:E; simpl in H; [|discriminate].
  destruct (run cfg d1 r) as [[d2 tfs2]|] eqn:R; simpl in H; [|discriminate].
  inversion H; subst. pose proof (call_state _ _ _ _ _ E) as M.
  destruct r as [|df2 r'].
  - simpl in R. inversion R; subst. exact M.
  - pose proof (IH d1 d' tfs2 R ltac:(discriminate)) as M2.
    rewrite (merge_feat_idempotent _ _ M) in M2. inversion M2; subst. exact M.
Qed.

(* --------------------------------------------------------- row locality *)
Lemma lookup_df_select idx (df df' : dataframe) c :
  df_select idx df = Some df' ->
  match df_col df c with
  | Some col => exists col', tgather col idx = Some col' /\ df_col df' c = Some col'
  | None => df_col df' c = None
  end.
Proof.
  unfold df_select, df_col. revert df'. induction df as [|[c' col] r IH]; intros df' H; simpl in H.
  - inversion H; subst. reflexivity.
  - destruct (tgather col idx) as [col'|] eqn:G; simpl in H; [|discriminate].
    destruct (mapM _ r) as [r'|] eqn:R; [|discriminate]. inversion H; subst. simpl.
    destruct (String.eqb c' c).
    + exists col'. split; [exact G|reflexivity].
    + apply IH. reflexivity.
Qed.

Lemma df_col_select idx df df' c :
  df_select idx df = Some df' -> df_col df' c = (col <- df_col df c ;; tgather col idx).
Proof.
  intros H. pose proof (lookup_df_select idx df df' c H) as L.
  destruct (df_col df c) as [col|]; simpl.
  - destruct L as [col' [G E]]. now rewrite G, E.
  - exact L.
Qed.

Lemma map_col_select cfg idx df df' c :
  df_select idx df = Some df' -> map_col cfg df' c = (col <- map_col cfg df c ;; tgather col idx).
Proof.
  intros H. unfold map_col. rewrite (df_col_select idx df df' c H).
  destruct (lookup (cfg_fits cfg) c) as [f|]; simpl; [|reflexivity].
  destruct (df_col df c) as [col|]; simpl; [|reflexivity].
  rewrite tgather_map. destruct (tgather col idx); reflexivity.
Qed.

Lemma seq_cols_select (G : string -> option (list enc)) idx cols :
  seq_cols (map (fun c => col <- G c ;; tgather col idx) cols) = (cs <- seq_cols (map G cols) ;; cols_select idx cs).
Proof.
  unfold seq_cols, cols_select. rewrite !mapM_map. apply (mapM_bind G (fun col => tgather col idx)).
Qed.

Lemma seq_dict_select (G : string -> option (list enc)) idx (d : dict (list string)) :
  seq_dict (dmap (map (fun c => col <- G c ;; tgather col idx)) d)
  = (fd <- seq_dict (dmap (map G) d) ;; feats_select idx fd).
Proof.
  unfold seq_dict, feats_select, dmap. rewrite !mapM_map. simpl.
  rewrite (mapM_ext _ (fun p : stype * list string =>
                         q <- (cols <- seq_cols (map G (snd p)) ;; Some (fst p, cols)) ;;
                         (cols' <- cols_select idx (snd q) ;; Some (fst q, cols')))).
  - apply (mapM_bind (fun p : stype * list string => cols <- seq_cols (map G (snd p)) ;; Some (fst p, cols))
                     (fun q => cols' <- cols_select idx (snd q) ;; Some (fst q, cols'))).
  - intros [s cols] _. simpl. rewrite seq_cols_select.
    destruct (seq_cols (map G cols)); reflexivity.
Qed.

Lemma call_y_select cfg idx df df' :
  df_select idx df = Some df' -> call_y cfg df' = (yv <- call_y cfg df ;; y_select idx yv).
Proof.
  intros H. unfold call_y. destruct (cfg_target cfg) as [t|]; [|reflexivity].
  rewrite (map_col_select cfg idx df df' t H).
  pose proof (lookup_df_select idx df df' t H) as L.
  destruct (df_col df t) as [col|] eqn:D.
  - destruct L as [col' [G E]]. rewrite E. unfold map_col. rewrite D.
    destruct (lookup (cfg_fits cfg) t) as [f|]; simpl; [|reflexivity].
    rewrite tgather_map, G. reflexivity.
  - rewrite L. reflexivity.
Qed.

(* converting a selection of rows = selecting the same rows of the conversion (as options:
   either both raise or both succeed with equal results) *)
Theorem call_row_local cfg d idx df df' :
  df_select idx df = Some df' ->
  call cfg d df' = (p <- call cfg d df ;; tf' <- tf_select idx (snd p) ;; Some (fst p, tf')).
Proof.
  intros H. rewrite !call_char. destruct (merge_feat d) as [d'|]; simpl; [|reflexivity].
  unfold call_result. rewrite (call_y_select cfg idx df df' H).
  assert (E : dmap (map (map_col cfg df')) d' =
              dmap (map (fun c => col <- map_col cfg df c ;; tgather col idx)) d').
  { unfold dmap. apply map_ext. intros [s cols]. simpl. f_equal. apply map_ext. intros c.
    apply (map_col_select cfg idx df df' c H). }
  rewrite E, seq_dict_select. unfold tf_select.
  destruct (call_y cfg df) as [yv|]; simpl.
  - destruct (seq_dict (dmap (map (map_col cfg df)) d')) as [fd|]; simpl.
    + destruct (y_select idx yv) as [yv'|]; simpl.
      * destruct (feats_select idx fd); reflexivity.
      * destruct (feats_select idx fd); reflexivity.
    + destruct (y_select idx yv); reflexivity.
  - reflexivity.
Qed.

(* ------------------------------------- the selected conversion also succeeds *)
Lemma mapM_some_iff {A B} (f : A -> option B) l :
  (exists l', mapM f l = Some l') <-> (forall x, In x l -> exists y, f x = Some y).
Proof.
  induction l as [|x r IH]; simpl.
  - split; [intros _ x []|intros _; now exists []].
  - split.
    + intros [l' H]. destruct (f x) as [y|] eqn:E; [|discriminate].
      destruct (mapM f r) as [ys|] eqn:R; [|discriminate].
      intros z [<-|Hz]; [now exists y|]. apply IH; [now exists ys|exact Hz].
    + intros H. destruct (H x (or_introl eq_refl)) as [y E]. rewrite E.
      destruct (proj2 IH (fun z Hz => H z (or_intror Hz))) as [ys R]. rewrite R. now exists (y :: ys).
Qed.

Lemma seq_dict_some_iff (D : dict (list (option (list enc)))) :
  (exists fd, seq_dict D = Some fd) <->
  (forall s cols oc, In (s, cols) D -> In oc cols -> exists col, oc = Some col).
Proof.
  unfold seq_dict. split.
  - intros H0. pose proof (proj1 (mapM_some_iff _ _) H0) as H. clear H0.
    intros s cols oc Hp Hoc. destruct (H (s, cols) Hp) as [q E]. simpl in E.
    destruct (seq_cols cols) as [cs|] eqn:S; [|discriminate].
    assert (Hs : exists l', mapM (fun c : option (list enc) => c) cols = Some l') by (now exists cs).
    destruct (proj1 (mapM_some_iff _ _) Hs oc Hoc) as [col Ec]. now exists col.
  - intros H. apply (proj2 (mapM_some_iff _ _)). intros [s cols] Hp. simpl.
    assert (Hs : exists l', seq_cols cols = Some l').
    { apply (proj2 (mapM_some_iff _ _)). intros oc Hoc. destruct (H s cols oc Hp Hoc) as [col ->]. now exists col. }
    destruct Hs as [cs ->]. now exists (s, cs).
Qed.

Theorem call_select_succeeds cfg d idx df df' d1 tf :
  df_select idx df = Some df' -> call cfg d df = Some (d1, tf) ->
  exists tf', tf_select idx tf = Some tf' /\ call cfg d df' = Some (d1, tf').
Proof.
  intros H C. pose proof (call_row_local cfg d idx df df' H) as R. rewrite C in R. simpl in R.
  assert (S : exists r, call cfg d df' = Some r).
  { pose proof (call_state _ _ _ _ _ C) as M. rewrite call_char, M in C. rewrite call_char, M. simpl in *.
    unfold call_result in *.
    destruct (call_y cfg df) as [yv|] eqn:Y; simpl in C; [|discriminate].
    destruct (seq_dict (dmap (map (map_col cfg df)) d1)) as [fd|] eqn:S; simpl in C; [|discriminate].
    (* y *)
    assert (Y' : exists yv', call_y cfg df' = Some yv').
    { unfold call_y in *. destruct (cfg_target cfg) as [t|]; [|now exists None].
      pose proof (lookup_df_select idx df df' t H) as L.
      destruct (df_col df t) as [col|] eqn:D.
      - destruct L as [col' [G E]]. rewrite E. unfold map_col in *. rewrite D in Y. rewrite E.
        destruct (lookup (cfg_fits cfg) t) as [f|]; simpl in *; [|discriminate]. eexists; reflexivity.
      - rewrite L. now exists None. }
    destruct Y' as [yv' ->]. simpl.
    assert (S' : exists fd', seq_dict (dmap (map (map_col cfg df')) d1) = Some fd').
    { apply seq_dict_some_iff. intros s cols oc Hp Hoc.
      unfold dmap in Hp. apply in_map_iff in Hp. destruct Hp as [[s0 names] [Ep Hn]]. simpl in Ep.
      inversion Ep; subst s cols; clear Ep. apply in_map_iff in Hoc. destruct Hoc as [c [<- Hc]].
      assert (Sd : exists fd0, seq_dict (dmap (map (map_col cfg df)) d1) = Some fd0) by (now exists fd).
      destruct (proj1 (seq_dict_some_iff _) Sd s0 (map (map_col cfg df) names) (map_col cfg df c)) as [col Ec].
      - unfold dmap. apply in_map_iff. now exists (s0, names).
      - apply in_map_iff. now exists c.
      - unfold map_col in *. destruct (lookup (cfg_fits cfg) c) as [f|]; simpl in *; [|discriminate].
        pose proof (lookup_df_select idx df df' c H) as L.
        destruct (df_col df c) as [rawc|]; simpl in Ec; [|discriminate].
        destruct L as [col' [G E]]. rewrite E. simpl. eexists; reflexivity. }
    destruct S' as [fd' ->]. simpl. eexists; reflexivity. }
  destruct S as [[d2 tf2] S]. rewrite S in R.
  destruct (tf_select idx tf) as [tf'|]; simpl in R; [|discriminate].
  inversion R; subst. exists tf'. split; [reflexivity|exact S].
Qed.

(* ------------------------------------------------- unseen values, aliasing *)
Lemma unseen_category cats v : ~ In v cats -> apply_fit (FitCat cats) (RCat (Some v)) = ECat (-1).
Proof.
  intros H. simpl. unfold encode_cat. apply index_of_none in H. now rewrite H.
Qed.

Lemma missing_category cats : apply_fit (FitCat cats) (RCat None) = ECat (-1).
Proof. reflexivity. Qed.

(* whatever non-negative index comes out IS that listed category: no aliasing *)
Lemma category_no_alias cats v i :
  apply_fit (FitCat cats) (RCat (Some v)) = ECat (Z.of_nat i) -> nth_error cats i = Some v.
Proof.
  simpl. unfold encode_cat. destruct (index_of cats v) as [k|] eqn:E.
  - intros H. inversion H as [H']. apply Nat2Z.inj in H'. subst. now apply index_of_nth.
  - intros H. inversion H as [H']. lia.
Qed.

Lemma insertZ_In x l z : In z (insertZ x l) <-> z = x \/ In z l.
Proof.
  induction l as [|y r IH]; simpl; [intuition|].
  destruct (x <=? y)%Z; simpl; [intuition|]. rewrite IH. intuition.
Qed.

Lemma sortZ_In l z : In z (sortZ l) <-> In z l.
Proof.
  unfold sortZ. induction l as [|x r IH]; simpl; [tauto|]. rewrite insertZ_In, IH. intuition.
Qed.

(* a multicategorical cell is encoded as exactly the indices of those of its tokens that are
   listed; unseen tokens are left out, and every index present stands for a token of the cell *)
Theorem multicat_tokens cats toks z :
  In z (encode_multi cats (Some toks)) <->
  exists t i, In t toks /\ nth_error cats i = Some t /\ index_of cats t = Some i /\ z = Z.of_nat i.
Proof.
  unfold encode_multi. rewrite sortZ_In, in_flat_map. split.
  - intros [t [Ht Hz]]. rewrite dedup_In in Ht. destruct (index_of cats t) as [i|] eqn:E; [|destruct Hz].
    destruct Hz as [<-|[]]. exists t, i. split; [exact Ht|]. split; [now apply index_of_nth|]. split; reflexivity || exact E.
  - intros [t [i [Ht [_ [E ->]]]]]. exists t. split; [rewrite dedup_In; exact Ht|]. rewrite E. now left.
Qed.

Corollary multicat_unseen_dropped cats toks :
  (forall t, In t toks -> ~ In t cats) -> apply_fit (FitMulti cats) (RMulti (Some toks)) = EMulti [].
Proof.
  intros H. unfold apply_fit. f_equal. destruct (encode_multi cats (Some toks)) as [|z r] eqn:E; [reflexivity|].
  exfalso. assert (Hz : In z (encode_multi cats (Some toks))) by (rewrite E; now left).
  apply multicat_tokens in Hz. destruct Hz as [t [i [Ht [Hn _]]]].
  apply (H t Ht). eapply nth_error_In; eauto.
Qed.

(* ------------------------------------------------------------------- target *)
Theorem no_target_no_y cfg d df d1 tf :
  call cfg d df = Some (d1, tf) ->
  (cfg_target cfg = None \/ exists t, cfg_target cfg = Some t /\ df_col df t = None) ->
  y tf = None.
Proof.
  intros C H. rewrite call_char in C. destruct (merge_feat d) as [d'|]; simpl in C; [|discriminate].
  unfold call_result in C.
  assert (Y : call_y cfg df = Some None).
  { unfold call_y. destruct H as [->|[t [-> ->]]]; reflexivity. }
  rewrite Y in C. simpl in C. destruct (seq_dict _); simpl in C; [|discriminate]. inversion C; reflexivity.
Qed.

Theorem target_present_y cfg d df d1 tf t col f :
  call cfg d df = Some (d1, tf) -> cfg_target cfg = Some t -> df_col df t = Some col ->
  lookup (cfg_fits cfg) t = Some f -> y tf = Some (map (apply_fit f) col).
Proof.
  intros C Ht Hc Hf. rewrite call_char in C. destruct (merge_feat d) as [d'|]; simpl in C; [|discriminate].
  unfold call_result in C.
  assert (Y : call_y cfg df = Some (Some (map (apply_fit f) col))).
  { unfold call_y. rewrite Ht, Hc. unfold map_col. rewrite Hf, Hc. reflexivity. }
  rewrite Y in C. simpl in C. destruct (seq_dict _); simpl in C; [|discriminate]. inversion C; reflexivity.
Qed.

(* ------------------------------------------ supplied statistics = recomputed *)
Lemma stat_type_eqb_eq a b : stat_type_eqb a b = true <-> a = b.
Proof. destruct a, b; simpl; split; intros H; try reflexivity; try discriminate. Qed.

Definition emb_updated (cs : col_stat) (w : nat) : col_stat :=
  {| cs_keys := if has_key stat_EMB_DIM cs then cs_keys cs else cs_keys cs ++ [stat_EMB_DIM];
     cs_cats := cs_cats cs; cs_emb := Some w |}.

Lemma has_key_emb_updated k cs w : has_key k cs = true -> has_key k (emb_updated cs w) = true.
Proof.
  unfold has_key, emb_updated. simpl. destruct (has_key stat_EMB_DIM cs); simpl; [tauto|].
  intros H. rewrite existsb_app, H. reflexivity.
Qed.

Lemma has_emb_key_updated cs w : has_key stat_EMB_DIM (emb_updated cs w) = true.
Proof.
  unfold has_key, emb_updated. simpl.
  destruct (has_key stat_EMB_DIM cs) eqn:E; simpl; [exact E|].
  rewrite existsb_app. simpl. now rewrite orb_true_r.
Qed.

Lemma has_key_emb_updated_other k cs w :
  k <> stat_EMB_DIM -> has_key k (emb_updated cs w) = has_key k cs.
Proof.
  intros H. unfold has_key, emb_updated. simpl.
  destruct (has_key stat_EMB_DIM cs); simpl; [reflexivity|].
  rewrite existsb_app. simpl. rewrite orb_false_r.
  destruct (stat_type_eqb k stat_EMB_DIM) eqn:E; [apply stat_type_eqb_eq in E; contradiction|].
  now rewrite orb_false_r.
Qed.

Lemma fit_of_stat_emb_updated s cs w : fit_of_stat s (emb_updated cs w) = fit_of_stat s cs.
Proof.
  destruct s; simpl; try reflexivity; rewrite has_key_emb_updated_other by discriminate; reflexivity.
Qed.

Lemma emb_updated_fix cs w :
  cs_emb cs = Some w -> has_key stat_EMB_DIM cs = true -> emb_updated cs w = cs.
Proof. destruct cs as [k c e]. unfold emb_updated. simpl. intros -> ->. reflexivity. Qed.

Lemma set_emb_lookup st c w st' :
  set_emb st c w = Some st' ->
  exists cs, lookup st c = Some cs /\ lookup st' c = Some (emb_updated cs w) /\
             forall c', c' <> c -> lookup st' c' = lookup st c'.
Proof.
  revert st'. induction st as [|[c0 cs0] r IH]; intros st' H; simpl in H; [discriminate|].
  destruct (String.eqb c0 c) eqn:E.
  - inversion H; subst st'; clear H. apply String.eqb_eq in E. subst c0. exists cs0. simpl.
    rewrite String.eqb_refl. repeat split; auto. intros c' Hn.
    destruct (String.eqb c c') eqn:E'; [apply String.eqb_eq in E'; congruence|reflexivity].
  - destruct (set_emb r c w) as [r'|] eqn:R; simpl in H; [|discriminate]. inversion H; subst st'; clear H.
    destruct (IH r' eq_refl) as [cs [L1 [L2 L3]]]. exists cs. simpl. rewrite E. repeat split; auto.
    intros c' Hn. destruct (String.eqb c0 c'); [reflexivity|now apply L3].
Qed.

Lemma set_emb_fix st c w cs :
  lookup st c = Some cs -> cs_emb cs = Some w -> has_key stat_EMB_DIM cs = true -> set_emb st c w = Some st.
Proof.
  induction st as [|[c0 cs0] r IH]; simpl; intros L E K; [discriminate|].
  destruct (String.eqb c0 c).
  - inversion L; subst cs0. fold (emb_updated cs w). now rewrite (emb_updated_fix cs w E K).
  - now rewrite (IH L E K).
Qed.

(* what _update_col_stats leaves behind, relative to the statistics it started from *)
Definition upd_rel (width : string -> nat) (st st' : stats) (done : list string) : Prop :=
  forall c,
    match lookup st c with
    | None => lookup st' c = None
    | Some cs =>
        (In c done -> lookup st' c = Some (emb_updated cs (width c))) /\
        (~ In c done -> lookup st' c = Some cs)
    end.

Lemma emb_updated_twice cs w : emb_updated (emb_updated cs w) w = emb_updated cs w.
Proof. apply emb_updated_fix; [reflexivity|apply has_emb_key_updated]. Qed.

Lemma update_emb_rel width cols : forall st st',
  update_emb width st cols = Some st' -> upd_rel width st st' cols.
Proof.
  induction cols as [|c r IH]; intros st st' H; simpl in H.
  - inversion H; subst. intros c. destruct (lookup st' c); [split; [intros []|reflexivity]|reflexivity].
  - destruct (set_emb st c (width c)) as [st1|] eqn:S; simpl in H; [|discriminate].
    destruct (set_emb_lookup _ _ _ _ S) as [cs [L1 [L2 L3]]].
    pose proof (IH st1 st' H) as R. intros c'. specialize (R c').
    destruct (string_dec c' c) as [->|Hn].
    + rewrite L1. rewrite L2 in R. destruct R as [R1 R2]. split; [|intros Hc; exfalso; apply Hc; now left].
      intros _. destruct (in_dec string_dec c r) as [Hi|Hi].
      * rewrite (R1 Hi). now rewrite emb_updated_twice.
      * exact (R2 Hi).
    + rewrite (L3 c' Hn) in R. destruct (lookup st c') as [cs'|]; [|exact R].
      destruct R as [R1 R2]. split.
      * intros [E|Hi]; [congruence|exact (R1 Hi)].
      * intros Hc. apply R2. intros Hi. apply Hc. now right.
Qed.

Lemma update_emb_again width cols : forall st st',
  update_emb width st cols = Some st' -> forall cols', incl cols' cols -> update_emb width st' cols' = Some st'.
Proof.
  intros st st' H cols'. pose proof (update_emb_rel width cols st st' H) as R.
  assert (Hex : forall c, In c cols -> exists cs, lookup st c = Some cs).
  { clear R. revert st st' H. induction cols as [|c r IH]; intros st st' H c0 Hc; [destruct Hc|].
    simpl in H. destruct (set_emb st c (width c)) as [st1|] eqn:S; simpl in H; [|discriminate].
    destruct (set_emb_lookup _ _ _ _ S) as [cs [L1 [L2 L3]]].
    destruct Hc as [<-|Hc]; [now exists cs|].
    destruct (IH st1 st' H c0 Hc) as [cs1 E]. destruct (string_dec c0 c) as [->|Hn]; [now exists cs|].
    rewrite (L3 c0 Hn) in E. now exists cs1. }
  induction cols' as [|c r IH]; intros Hi; simpl; [reflexivity|].
  assert (Hc : In c cols) by (apply Hi; now left).
  destruct (Hex c Hc) as [cs L]. specialize (R c). rewrite L in R. destruct R as [R1 _].
  rewrite (set_emb_fix st' c (width c) (emb_updated cs (width c)) (R1 Hc) eq_refl (has_emb_key_updated _ _)).
  simpl. apply IH. intros x Hx. apply Hi. now right.
Qed.

Lemma update_col_stats_idem width st d st' :
  update_col_stats width st d = Some st' -> update_col_stats width st' d = Some st'.
Proof.
  unfold update_col_stats. destruct (dget d st_embedding) as [cols|]; [|intros H; now inversion H].
  intros H. apply (update_emb_again width cols st st' H cols). apply incl_refl.
Qed.

Lemma update_col_stats_rel width st d st' :
  update_col_stats width st d = Some st' ->
  forall c, match lookup st c with
            | None => lookup st' c = None
            | Some cs => lookup st' c = Some cs \/ exists w, lookup st' c = Some (emb_updated cs w)
            end.
Proof.
  unfold update_col_stats. destruct (dget d st_embedding) as [cols|].
  - intros H c. pose proof (update_emb_rel width cols st st' H c) as R.
    destruct (lookup st c) as [cs|]; [|exact R]. destruct R as [R1 R2].
    destruct (in_dec string_dec c cols) as [Hi|Hi]; [right; eexists; exact (R1 Hi)|left; exact (R2 Hi)].
  - intros H c. inversion H; subst. destruct (lookup st' c); [now left|reflexivity].
Qed.

Lemma fits_of_updated width cts st d st' :
  update_col_stats width st d = Some st' -> fits_of cts st' = fits_of cts st.
Proof.
  intros H. unfold fits_of. apply mapM_ext. intros [c s] _. simpl.
  pose proof (update_col_stats_rel width st d st' H c) as R.
  destruct (lookup st c) as [cs|]; [|now rewrite R].
  destruct R as [->|[w ->]]; simpl; [reflexivity|]. now rewrite fit_of_stat_emb_updated.
Qed.

Lemma validate_updated width cts st d st' :
  update_col_stats width st d = Some st' -> validate_stats cts st = true -> validate_stats cts st' = true.
Proof.
  intros H V. unfold validate_stats in *. rewrite forallb_forall in *. intros [c s] Hp. specialize (V _ Hp).
  simpl in *. pose proof (update_col_stats_rel width st d st' H c) as R.
  destruct (lookup st c) as [cs|]; [|discriminate].
  destruct R as [->|[w ->]]; [exact V|].
  rewrite forallb_forall in *. intros k Hk. apply has_key_emb_updated. now apply V.
Qed.

(* materialize(col_stats = the statistics a previous materialize produced) gives the same
   statistics, the same converter state and the same TensorFrame as recomputing them *)
Theorem materialize_supplied_equiv cts target compute width df st d tf :
  validate_stats cts (compute df) = true ->          (* compute_col_stats returns every required statistic (C03) *)
  materialize cts target compute width None df = Some (st, d, tf) ->
  materialize cts target compute width (Some st) df = Some (st, d, tf).
Proof.
  intros V H. unfold materialize in *. simpl in H.
  destruct (fits_of cts (compute df)) as [fits|] eqn:F; simpl in H; [|discriminate].
  destruct (call _ (init_names cts target) df) as [[d1 tf1]|] eqn:C; simpl in H; [|discriminate].
  destruct (update_col_stats width (compute df) d1) as [st1|] eqn:U; simpl in H; [|discriminate].
  inversion H; subst st1 d1 tf1; clear H.
  rewrite (validate_updated width cts _ _ _ U V). simpl.
  rewrite (fits_of_updated width cts _ _ _ U), F. simpl. rewrite C. simpl.
  rewrite (update_col_stats_idem width _ _ _ U). reflexivity.
Qed.
