(* MultiEmbeddingTensor: every kernel and the whole select dispatch refine the
   nested-list selection (C05). *)
From Coq Require Import List ZArith Arith Bool Lia.
From PF Require Import Lib.ListX Lib.PySlice Model.Ragged Model.RaggedSpec Proofs.ListXFacts Proofs.MntProofs.
Import ListNotations.

Lemma seg_offs_nat : forall (L : list nat) a w, a + w <= length L ->
  0 :: cumsum (tslice L a (a + w)) = map (fun k => pre L (a + k) - pre L a) (seq 0 (S w)).
Proof.
  intros L a w H. rewrite offs_closed, tslice_length by lia.
  replace (a + w - a) with w by lia. apply map_ext_in. intros k Hk. apply in_seq in Hk.
  apply pre_tslice. lia.
Qed.

Lemma sum_tslice : forall (L : list nat) a b, a <= b -> b <= length L ->
  sum (tslice L a b) = pre L b - pre L a.
Proof.
  intros L a b Hab Hb. rewrite <- (pre_all (tslice L a b) (b - a)) by (rewrite tslice_length; lia).
  rewrite pre_tslice by lia. f_equal. f_equal. lia.
Qed.

Lemma length_flat_map_seq : forall {B} (f g : B -> nat) (X : list B),
  length (flat_map (fun x => seq (f x) (g x)) X) = sum (map g X).
Proof. intros. induction X; simpl; auto. rewrite app_length, seq_length. congruence. Qed.

Lemma diffs_of_offs : forall ws : list nat, sub2 (tl (0 :: cumsum ws)) (removelast (0 :: cumsum ws)) = ws.
Proof.
  intros ws. rewrite offs_starts at 2. rewrite removelast_last.
  cbn [tl]. unfold cumsum. rewrite cumsum_from_spec. unfold starts. rewrite sub2_map_same.
  transitivity (map (fun r => nth r ws 0) (seq 0 (length ws))); [|symmetry; apply map_nth_seq].
  apply map_ext_in. intros k Hk. apply in_seq in Hk.
  rewrite pre_S by lia. lia.
Qed.

Section Met.
  Variable A : Type.

  Lemma mk_met_offs : forall r c v (L : list nat), length L = c ->
    mk_met A r c v (0 :: cumsum L) = Some (MkMet r c v (0 :: cumsum L)).
  Proof.
    intros r c v L H. unfold mk_met. rewrite offs_length, H. cbn [Nat.eqb andb].
    replace (c + 1) with (S c) by lia. rewrite Nat.eqb_refl. reflexivity.
  Qed.

  Lemma cols_window : forall (r : list (list A)) ws a b, map (@length A) r = ws -> a <= b ->
    tslice (concat r) (pre ws a) (pre ws b) = concat (tslice r a b).
  Proof. intros r ws a b <- H. apply tslice_concat. exact H. Qed.

  Section Cells.
    Variable ws : list nat.
    Variable m : cellmat A.
    Hypothesis Hrect : rect_w ws m.

    Lemma row_ws : forall r, In r m -> map (@length A) r = ws.
    Proof. intros r Hr. pose proof Hrect as H. unfold rect_w in H. rewrite Forall_forall in H. auto. Qed.

    Lemma row_len : forall r, In r m -> length r = length ws.
    Proof. intros r Hr. rewrite <- (row_ws r Hr). rewrite map_length. reflexivity. Qed.

    Lemma nth_concat_rows : forall i, nth i (map (@concat A) m) [] = concat (nth i m []).
    Proof. intros i. change (@nil A) with (concat (@nil (list A))). apply map_nth. Qed.

    Lemma met_cells_get_value : forall i j, i < length m -> j < length ws ->
      met_get_value A (met_of_cells ws m) i j = Some (nth j (nth i m []) []).
    Proof.
      intros i j Hi Hj. unfold met_get_value, met_of_cells. cbn [evals t2rows eoffs].
      unfold tget at 1. rewrite (nth_error_nth' _ []) by (rewrite map_length; exact Hi).
      cbn [obind]. rewrite !tget_offs by lia. cbn [obind].
      rewrite nth_concat_rows. pose proof (nth_In m [] Hi) as Hin.
      rewrite (cols_window _ ws) by (try apply row_ws; auto; lia).
      replace (j + 1) with (S j) by lia.
      rewrite (tslice_one _ j []) by (rewrite (row_len _ Hin); exact Hj).
      simpl. rewrite app_nil_r. reflexivity.
    Qed.

    Lemma met_cells_row_narrow : forall start len, start + len <= length m ->
      met_row_narrow A (met_of_cells ws m) start len =
      Some (met_of_cells ws (pick_rows (seq start len) m)).
    Proof.
      intros start len H. unfold met_row_narrow, met_of_cells, t2_row_slice.
      cbn [evals t2rows t2w eoffs ec]. rewrite mk_met_offs by reflexivity.
      unfold pick_rows. rewrite map_length, seq_length.
      rewrite (map_nth_seq_tslice m []) by lia. rewrite tslice_map. reflexivity.
    Qed.

    Lemma met_cells_row_index_select : forall idx, Forall (fun i => i < length m) idx ->
      met_row_index_select A (met_of_cells ws m) idx = Some (met_of_cells ws (pick_rows idx m)).
    Proof.
      intros idx H. unfold met_row_index_select, met_of_cells, t2_row_gather.
      cbn [evals t2rows t2w eoffs ec].
      rewrite (tgather_nth _ idx []) by (rewrite map_length; exact H).
      cbn [option_map obind]. rewrite mk_met_offs by reflexivity.
      unfold pick_rows. rewrite map_length, map_map.
      do 3 f_equal. apply map_ext. intros i. apply nth_concat_rows.
    Qed.

    Lemma met_cells_single_row : forall i, i < length m ->
      met_single_index_select A (met_of_cells ws m) i 0 = Some (met_of_cells ws (pick_rows [i] m)).
    Proof.
      intros i Hi. unfold met_single_index_select, met_of_cells. cbn [Nat.eqb evals t2rows t2w eoffs ec].
      unfold tget. rewrite (nth_error_nth' _ []) by (rewrite map_length; exact Hi).
      cbn [obind]. rewrite mk_met_offs by reflexivity.
      unfold pick_rows. cbn [map length]. rewrite nth_concat_rows.
      do 3 f_equal. rewrite sum_map_length_concat. rewrite (row_ws _ (nth_In m [] Hi)). reflexivity.
    Qed.

    Lemma met_cells_col_narrow : forall start len, start + len <= length ws ->
      met_col_narrow A (met_of_cells ws m) start len =
      Some (met_of_cells (map (fun j => nth j ws 0) (seq start len)) (pick_cols (seq start len) m)).
    Proof.
      intros start len H. unfold met_col_narrow, met_of_cells, t2_col_slice.
      cbn [evals t2rows t2w eoffs er].
      rewrite !tget_offs by lia. cbn [obind].
      rewrite (map_nth_seq_tslice ws 0) by lia.
      assert (Eo : map (fun o => o - pre ws start) (tslice (0 :: cumsum ws) start (start + len + 1))
                   = 0 :: cumsum (tslice ws start (start + len))).
      { rewrite offs_closed, tslice_map, tslice_seq by lia.
        replace (start + len + 1 - start) with (S len) by lia. rewrite map_map.
        rewrite seg_offs_nat by lia.
        replace (seq start (S len)) with (map (fun k => start + k) (seq 0 (S len)))
          by (rewrite <- seq_shift_add; f_equal; lia).
        rewrite map_map. reflexivity. }
      rewrite Eo. rewrite mk_met_offs by (rewrite tslice_length; lia).
      unfold pick_cols. rewrite !map_length, !map_map. rewrite tslice_length by lia.
      replace (start + len - start) with len by lia.
      f_equal. f_equal. f_equal.
      - apply map_ext_in. intros r Hr.
        rewrite (cols_window r ws) by (try apply row_ws; auto; lia).
        rewrite (map_nth_seq_tslice r []) by (rewrite (row_len r Hr); lia). reflexivity.
      - rewrite sum_tslice by lia. pose proof (pre_le_sum ws (start + len)). lia.
    Qed.

    Lemma met_cells_single_col : forall j, j < length ws ->
      met_single_index_select A (met_of_cells ws m) j 1 =
      Some (met_of_cells [nth j ws 0] (pick_cols [j] m)).
    Proof.
      intros j Hj. unfold met_single_index_select, met_of_cells, t2_col_slice.
      cbn [Nat.eqb evals t2rows t2w eoffs er].
      rewrite !tget_offs by lia. cbn [obind].
      replace (j + 1) with (S j) by lia. rewrite pre_S by lia.
      unfold mk_met. cbn [Nat.eqb Nat.sub length andb Nat.add].
      unfold pick_cols. rewrite !map_length, !map_map. cbn [map length sum fold_right cumsum cumsum_from].
      pose proof (pre_le_sum ws (S j)) as Hle. rewrite pre_S in Hle by lia.
      rewrite pre_0. cbn [Nat.sub Nat.eqb andb].
      replace (Nat.min (pre ws j + nth j ws 0) (sum ws) - pre ws j) with (nth j ws 0 + 0) by lia.
      replace (pre ws j + nth j ws 0 - pre ws j) with (0 + nth j ws 0) by lia.
      f_equal. f_equal. f_equal.
      apply map_ext_in. intros r Hr.
      replace (pre ws j + nth j ws 0) with (pre ws (S j)) by (rewrite pre_S by lia; reflexivity).
      rewrite (cols_window r ws) by (try apply row_ws; auto; lia).
      rewrite (tslice_one r j []) by (rewrite (row_len r Hr); lia). reflexivity.
    Qed.

    Lemma met_cells_col_index_select : forall idx, idx <> [] -> Forall (fun j => j < length ws) idx ->
      met_col_index_select A (met_of_cells ws m) idx =
      Some (met_of_cells (map (fun j => nth j ws 0) idx) (pick_cols idx m)).
    Proof.
      intros idx Hne Hidx. unfold met_col_index_select.
      destruct idx as [|i0 rest]; [congruence|]. remember (i0 :: rest) as idx eqn:E. clear E i0 rest Hne.
      unfold met_of_cells. cbn [evals t2rows t2w eoffs er].
      rewrite diffs_of_offs.
      rewrite (tgather_nth ws idx 0) by exact Hidx. cbn [obind].
      rewrite tgather_offs by (eapply Forall_impl; [|exact Hidx]; simpl; intros; lia).
      cbn [obind]. rewrite batch_index_map. cbn [obind].
      set (vi := flat_map (fun x => seq (pre ws x) (nth x ws 0)) idx).
      assert (Hrow : forall r, In r m -> tgather (concat r) vi = Some (concat (map (fun j => nth j r []) idx))).
      { intros r Hr.
        destruct (gather_windows r idx (fun k => k) S) as [vidx [Hv1 Hv2]].
        { rewrite (row_len r Hr). eapply Forall_impl; [|exact Hidx]. simpl. intros; lia. }
        rewrite (row_ws r Hr) in Hv1.
        rewrite (map_ext_in (fun x => pre ws (S x) - pre ws x) (fun x => nth x ws 0)) in Hv1.
        2:{ intros k Hk. rewrite Forall_forall in Hidx. rewrite pre_S by auto. lia. }
        rewrite batch_index_map in Hv1. injection Hv1 as <-. fold vi in Hv2. rewrite Hv2.
        f_equal. f_equal. apply map_ext_in. intros k Hk. rewrite Forall_forall in Hidx.
        rewrite (tslice_one r k []) by (rewrite (row_len r Hr); auto). simpl. apply app_nil_r. }
      unfold t2_col_gather. cbn [t2rows t2w].
      assert (Hfb : forallb (fun i => i <? sum ws) vi = true).
      { apply forallb_forall. intros x Hx. unfold vi in Hx. apply in_flat_map in Hx.
        destruct Hx as [j [Hj Hx]]. apply in_seq in Hx. rewrite Forall_forall in Hidx.
        pose proof (pre_le_sum ws (S j)) as Hle. rewrite pre_S in Hle by auto.
        apply Nat.ltb_lt. lia. }
      rewrite Hfb. rewrite mapM_map.
      rewrite (mapM_Some_map _ (fun r => concat (map (fun j => nth j r []) idx))) by exact Hrow.
      cbn [option_map obind]. rewrite mk_met_offs by (rewrite map_length; reflexivity).
      unfold pick_cols. rewrite !map_length, map_map.
      f_equal. f_equal. f_equal. unfold vi. apply length_flat_map_seq.
    Qed.

    Lemma met_cells_empty_rows : met_empty A (met_of_cells ws m) 0 = Some (met_of_cells ws (pick_rows [] m)).
    Proof.
      unfold met_empty, met_of_cells. cbn [Nat.eqb er ec eoffs repeat].
      rewrite offs_last. rewrite mk_met_offs by reflexivity. reflexivity.
    Qed.

    Lemma met_cells_empty_cols : met_empty A (met_of_cells ws m) 1 = Some (met_of_cells [] (pick_cols [] m)).
    Proof.
      unfold met_empty, met_of_cells. cbn [Nat.eqb er ec eoffs].
      unfold mk_met. cbn [Nat.eqb length Nat.add andb]. unfold pick_cols. rewrite map_length, map_map.
      cbn [map concat length sum fold_right cumsum cumsum_from].
      do 3 f_equal. clear. induction m; simpl; congruence.
    Qed.

    Lemma met_pick_rows_all : pick_rows (seq 0 (length m)) m = m.
    Proof. unfold pick_rows. symmetry. apply map_nth_seq. Qed.

    Lemma met_pick_cols_all : pick_cols (seq 0 (length ws)) m = m.
    Proof.
      unfold pick_cols. rewrite <- (map_id m) at 2. apply map_ext_in. intros r Hr.
      rewrite <- (row_len r Hr). symmetry. apply map_nth_seq.
    Qed.
    Lemma met_cells_index_select : forall idx dim, dim < 2 ->
      Forall (fun i => i < (if dim =? 0 then length m else length ws)) idx ->
      index_select A _ (met_kernels A) (met_of_cells ws m) idx dim =
      Some (met_of_cells (pick_ws dim idx ws) (pick dim idx m)).
    Proof.
      intros idx dim Hd H. unfold index_select, pick, pick_ws.
      destruct dim as [|[|dim]]; [| |lia];
        cbn [Nat.eqb met_kernels k_row_index_select k_col_index_select] in *.
      - apply met_cells_row_index_select. exact H.
      - destruct idx as [|i0 rest]; [apply met_cells_empty_cols|].
        apply met_cells_col_index_select; [discriminate|exact H].
    Qed.

    Lemma met_cells_narrow : forall dim lo hi, dim < 2 ->
      hi <= (if dim =? 0 then length m else length ws) ->
      narrow A _ (met_kernels A) (met_of_cells ws m) dim lo (Z.of_nat hi - Z.of_nat lo) =
      Some (met_of_cells (pick_ws dim (seq lo (hi - lo)) ws) (pick dim (seq lo (hi - lo)) m)).
    Proof.
      intros dim lo hi Hd Hhi. unfold narrow, size, pick, pick_ws.
      destruct dim as [|[|dim]]; [| |lia];
        cbn [Nat.eqb met_kernels k_rows k_cols k_empty k_row_narrow k_col_narrow] in *;
        change (er (met_of_cells ws m)) with (length m); change (ec (met_of_cells ws m)) with (length ws).
      - destruct ((lo =? 0) && (Z.of_nat (length m) <=? Z.of_nat lo + (Z.of_nat hi - Z.of_nat lo))%Z) eqn:E1.
        + apply andb_true_iff in E1. destruct E1 as [E1 E2]. apply Nat.eqb_eq in E1. apply Z.leb_le in E2.
          subst lo. replace (hi - 0) with (length m) by lia. rewrite met_pick_rows_all. reflexivity.
        + destruct (Z.of_nat hi - Z.of_nat lo <=? 0)%Z eqn:E2.
          * apply Z.leb_le in E2. replace (hi - lo) with 0 by lia. apply met_cells_empty_rows.
          * apply Z.leb_gt in E2. replace (Z.to_nat (Z.of_nat hi - Z.of_nat lo)) with (hi - lo) by lia.
            apply met_cells_row_narrow. lia.
      - destruct ((lo =? 0) && (Z.of_nat (length ws) <=? Z.of_nat lo + (Z.of_nat hi - Z.of_nat lo))%Z) eqn:E1.
        + apply andb_true_iff in E1. destruct E1 as [E1 E2]. apply Nat.eqb_eq in E1. apply Z.leb_le in E2.
          subst lo. replace (hi - 0) with (length ws) by lia. rewrite met_pick_cols_all.
          rewrite <- map_nth_seq. reflexivity.
        + destruct (Z.of_nat hi - Z.of_nat lo <=? 0)%Z eqn:E2.
          * apply Z.leb_le in E2. replace (hi - lo) with 0 by lia. apply met_cells_empty_cols.
          * apply Z.leb_gt in E2. replace (Z.to_nat (Z.of_nat hi - Z.of_nat lo)) with (hi - lo) by lia.
            apply met_cells_col_narrow. lia.
    Qed.

    Lemma met_cells_select : forall ix dim, dim < 2 ->
      select A _ (met_kernels A) (met_of_cells ws m) ix dim =
      match py_positions (if dim =? 0 then length m else length ws) ix with
      | Some pos => Some (met_of_cells (pick_ws dim pos ws) (pick dim pos m))
      | None => None
      end.
    Proof.
      intros ix dim Hd. unfold select, slice_, normalize_tensor.
      assert (Hn : size A _ (met_kernels A) (met_of_cells ws m) dim = (if dim =? 0 then length m else length ws)).
      { unfold size. destruct (dim =? 0); reflexivity. }
      rewrite Hn. clear Hn. set (n := if dim =? 0 then length m else length ws).
      destruct ix as [i|a b s|l|a b s|l|mk]; cbn [py_positions].
      - destruct (norm_index n i) as [k|] eqn:E; cbn [obind option_map]; [|reflexivity].
        apply norm_index_lt in E. subst n. unfold pick, pick_ws.
        destruct dim as [|[|dim]]; [| |lia]; cbn [Nat.eqb met_kernels k_single_index_select map] in *.
        + apply met_cells_single_row. exact E.
        + apply met_cells_single_col. exact E.
      - set (st := match s with Some v => v | None => 1%Z end).
        destruct (st <=? 0)%Z eqn:Est; [reflexivity|]. apply Z.leb_gt in Est.
        destruct (slice_indices n a b) as [lo hi] eqn:Esl.
        assert (Hhi : hi <= n).
        { unfold slice_indices in Esl. injection Esl as _ <-. apply clamp_bound_le. lia. }
        destruct (1 <? st)%Z eqn:E1.
        + apply met_cells_index_select; auto. eapply Forall_impl; [|apply range_up_bound; lia].
          simpl. fold n. intros; lia.
        + apply Z.ltb_ge in E1. replace st with 1%Z by lia. change (Z.to_nat 1) with 1.
          rewrite range_up_1. apply met_cells_narrow; auto.
      - destruct (mapM (norm_index n) l) as [idx|] eqn:E; cbn [obind]; [|reflexivity].
        apply met_cells_index_select; auto. eapply mapM_Forall; [|exact E]. intros x y; apply norm_index_lt.
      - destruct (py_range a b s) as [l|]; cbn [obind]; [|reflexivity].
        destruct (mapM (norm_index n) l) as [idx|] eqn:E; cbn [obind]; [|reflexivity].
        apply met_cells_index_select; auto. eapply mapM_Forall; [|exact E]. intros x y; apply norm_index_lt.
      - destruct (mapM (norm_index n) l) as [idx|] eqn:E; cbn [obind]; [|reflexivity].
        apply met_cells_index_select; auto. eapply mapM_Forall; [|exact E]. intros x y; apply norm_index_lt.
      - destruct (length mk =? n) eqn:E; [|reflexivity]. apply Nat.eqb_eq in E.
        apply met_cells_index_select; auto. apply nonzero_bound_n. exact E.
    Qed.
  End Cells.

  Lemma met_select_refines_proof : forall (ws : list nat) (m : cellmat A) (ix : index) (dim : nat),
    rect_w ws m -> dim < 2 ->
    select A _ (met_kernels A) (met_of_cells ws m) ix dim =
    match py_positions (if dim =? 0 then length m else length ws) ix with
    | Some pos => Some (met_of_cells (pick_ws dim pos ws) (pick dim pos m))
    | None => None
    end.
  Proof. intros ws m ix dim H Hd. apply met_cells_select; assumption. Qed.

  Lemma pick_rect_w_proof : forall (ws : list nat) (m : cellmat A) (ix : index) (dim : nat) (pos : list nat),
    rect_w ws m -> dim < 2 ->
    py_positions (if dim =? 0 then length m else length ws) ix = Some pos ->
    rect_w (pick_ws dim pos ws) (pick dim pos m).
  Proof.
    intros ws m ix dim pos H Hd Hp. apply py_positions_bound in Hp. unfold pick, pick_ws, rect_w.
    destruct dim as [|[|dim]]; [| |lia]; cbn [Nat.eqb] in *.
    - unfold pick_rows. apply Forall_map. eapply Forall_impl; [|exact Hp].
      simpl. intros i Hi. apply (row_ws ws m H). apply nth_In. exact Hi.
    - unfold pick_cols. apply Forall_map. apply Forall_forall. intros r Hr.
      rewrite map_map. apply map_ext_in. intros j Hj.
      rewrite Forall_forall in Hp. specialize (Hp j Hj).
      rewrite <- (row_ws ws m H r Hr).
      rewrite (nth_indep _ 0 (length (@nil A))) by (rewrite map_length, (row_len ws m H r Hr); exact Hp).
      rewrite map_nth. reflexivity.
  Qed.

  Lemma met_get_value_proof : forall (ws : list nat) (m : cellmat A) (i j : nat),
    rect_w ws m -> i < length m -> j < length ws ->
    met_get_value A (met_of_cells ws m) i j = Some (nth j (nth i m []) []).
  Proof. intros ws m i j H Hi Hj. apply met_cells_get_value; assumption. Qed.
End Met.
