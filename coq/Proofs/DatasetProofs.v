(* Lemmas about Model/Dataset.v and Model/DatasetRun.v (C09). *)
From Coq Require Import ZArith List Bool String Arith Lia Permutation PrimFloat.
From PF Require Import Lib.ListX Lib.PySlice Lib.FloatInt Gen.Tables Model.Dataset Model.DatasetRun.
From PF Require Export Model.DatasetSpec.
From PF Require Import Proofs.ListXFacts.
Import ListNotations.
Local Notation length := List.length (only parsing).

(* ------------------------------------------------------------------ *)
(* the invariant *)


(* ------------------------------------------------------------------ *)
(* generic list facts *)

Lemma tgather_map : forall {B C} (g : B -> C) (l : list B) idx,
  tgather (map g l) idx = option_map (map g) (tgather l idx).
Proof.
  intros B C g l idx. unfold tgather, tget. induction idx as [|i idx IH]; simpl; auto.
  rewrite nth_error_map. destruct (nth_error l i); simpl; auto.
  rewrite IH. destruct (mapM (nth_error l) idx); reflexivity.
Qed.

Lemma mapM_perm : forall {B C} (f : B -> option C) p1 p2,
  Permutation p1 p2 -> forall r1, mapM f p1 = Some r1 ->
  exists r2, mapM f p2 = Some r2 /\ Permutation r1 r2.
Proof.
  intros B C f p1 p2 HP. induction HP; intros r1 H.
  - exists r1. split; auto.
  - simpl in *. destruct (f x); try discriminate. destruct (mapM f l) eqn:E; try discriminate.
    injection H as <-. destruct (IHHP _ eq_refl) as [r2 [-> Hp]]. eexists; split; eauto.
  - simpl in *. destruct (f y); try discriminate. destruct (f x); try discriminate.
    destruct (mapM f l); try discriminate. injection H as <-. eexists; split; eauto. apply perm_swap.
  - destruct (IHHP1 _ H) as [r2 [H2 P2]]. destruct (IHHP2 _ H2) as [r3 [H3 P3]].
    exists r3; split; auto. eapply perm_trans; eauto.
Qed.

Lemma tgather_all : forall {B} (l : list B), tgather l (seq 0 (length l)) = Some l.
Proof.
  intros. rewrite tgather_seq by lia. simpl. rewrite tslice_all. reflexivity.
Qed.

Lemma tgather_perm : forall {B} (l r : list B) perm,
  Permutation perm (seq 0 (length l)) -> tgather l perm = Some r -> Permutation r l.
Proof.
  intros B l r perm HP H. destruct (mapM_perm (tget l) _ _ HP _ H) as [r2 [H2 P2]].
  unfold tgather in *. pose proof (tgather_all l) as Ha. unfold tgather in Ha. rewrite Ha in H2.
  injection H2 as <-. exact P2.
Qed.

Lemma tgather_in_range : forall {B} (l : list B) idx,
  Forall (fun i => i < length l) idx -> exists r, tgather l idx = Some r.
Proof.
  intros B l idx H. destruct l as [|d l'] eqn:E.
  - destruct idx; [exists []; reflexivity|]. inversion H; subst. simpl in *. lia.
  - rewrite <- E in *. eexists. apply (tgather_nth l idx d H).
Qed.

(* boolean mask -> nonzero -> gather is `filter` *)
Lemma gather_nonzero_gen : forall {B} (p : B -> bool) (l pre : list B),
  mapM (tget (pre ++ l)) (nonzero_from (length pre) (map p l)) = Some (filter p l).
Proof.
  intros B p l. induction l as [|x l IH]; intros pre; simpl; auto.
  specialize (IH (pre ++ [x])). rewrite <- app_assoc, app_length in IH. simpl in IH.
  rewrite Nat.add_1_r in IH.
  destruct (p x); simpl.
  - unfold tget at 1. rewrite nth_error_app2 by lia. rewrite Nat.sub_diag. simpl. rewrite IH. reflexivity.
  - exact IH.
Qed.

Lemma gather_nonzero : forall {B} (p : B -> bool) (l : list B),
  tgather l (nonzero (map p l)) = Some (filter p l).
Proof. intros. apply (gather_nonzero_gen p l []). Qed.

Lemma norm_index_of_nat : forall n k, k < n -> norm_index n (Z.of_nat k) = Some k.
Proof.
  intros n k H. unfold norm_index.
  destruct (Z.of_nat k <? 0)%Z eqn:E; [apply Z.ltb_lt in E; lia|].
  rewrite E. simpl. destruct (Z.of_nat n <=? Z.of_nat k)%Z eqn:E2; [apply Z.leb_le in E2; lia|].
  rewrite Nat2Z.id. reflexivity.
Qed.

Lemma positions_of_nats : forall n pos,
  Forall (fun k => k < n) pos -> mapM (norm_index n) (map Z.of_nat pos) = Some pos.
Proof.
  intros n pos H. induction H as [|k pos Hk _ IH]; simpl; auto.
  rewrite norm_index_of_nat by auto. rewrite IH. reflexivity.
Qed.

Lemma positions_of_nats_inv : forall n pos r,
  mapM (norm_index n) (map Z.of_nat pos) = Some r -> r = pos /\ Forall (fun k => k < n) pos.
Proof.
  intros n pos. induction pos as [|k pos IH]; simpl; intros r H.
  - injection H as <-. auto.
  - destruct (norm_index n (Z.of_nat k)) eqn:E; try discriminate.
    destruct (mapM (norm_index n) (map Z.of_nat pos)) eqn:E2; try discriminate.
    injection H as <-. destruct (IH _ eq_refl) as [-> HF].
    unfold norm_index in E.
    destruct (Z.of_nat k <? 0)%Z eqn:E3; [apply Z.ltb_lt in E3; lia|]. rewrite E3 in E. simpl in E.
    destruct (Z.of_nat n <=? Z.of_nat k)%Z eqn:E4; try discriminate. apply Z.leb_gt in E4.
    injection E as <-. rewrite Nat2Z.id. split; auto. constructor; auto. lia.
Qed.

Lemma mem_str_In : forall c l, mem_str c l = true <-> In c l.
Proof.
  intros c l. unfold mem_str. rewrite existsb_exists. split.
  - intros [x [Hx E]]. apply String.eqb_eq in E. subst. exact Hx.
  - intros H. exists c. split; auto. apply String.eqb_refl.
Qed.

(* ------------------------------------------------------------------ *)
(* index_select *)

(* On a materialized, aligned dataset index_select IS the selection of the same
   positions, Python-list style, from the rows; the TensorFrame follows. *)
Lemma index_select_spec : forall d i,
  materialized d = true -> aligned d ->
  index_select d i =
    (ix <- resolve_index (len d) i ;;
     rows <- py_select ix (df d) ;;
     Some (with_rows d rows (map rid rows))).
Proof.
  intros d i Hm Ha. unfold index_select, requires_post_materialization, py_select. rewrite Hm.
  unfold aligned in Ha. rewrite Ha.
  destruct (resolve_index (len d) i) as [ix|]; simpl; auto.
  rewrite map_length.
  destruct (py_positions (List.length (df d)) ix) as [pd|]; simpl; auto.
  rewrite tgather_map. destruct (tgather (df d) pd); reflexivity.
Qed.

Lemma index_select_post : forall d i d',
  index_select d i = Some d' -> materialized d = true.
Proof.
  intros d i d' H. unfold index_select, requires_post_materialization in H.
  destruct (materialized d); [reflexivity|discriminate].
Qed.

Lemma index_select_frame : forall d i d',
  inv d -> index_select d i = Some d' ->
  materialized d' = true /\ aligned d' /\
  df_cols d' = df_cols d /\ stype_cols d' = stype_cols d /\
  target_col d' = target_col d /\ split_col d' = split_col d.
Proof.
  intros d i d' Hi H. pose proof (index_select_post _ _ _ H) as Hm.
  rewrite (index_select_spec d i Hm (Hi Hm)) in H.
  destruct (resolve_index (len d) i); simpl in H; try discriminate.
  destruct (py_select i0 (df d)); simpl in H; try discriminate.
  injection H as <-. unfold aligned. simpl. repeat split; auto.
Qed.

Lemma py_select_nats : forall {B} (l : list B) pos,
  Forall (fun k => k < length l) pos ->
  py_select (IList (map Z.of_nat pos)) l = tgather l pos.
Proof.
  intros B l pos H. unfold py_select. simpl. rewrite positions_of_nats by auto. reflexivity.
Qed.

(* ------------------------------------------------------------------ *)
(* every operation preserves the invariant *)

Lemma col_select_pre : forall d cols d', col_select d cols = Some d' ->
  materialized d = false /\ materialized d' = false /\ df d' = df d /\ tf d' = tf d.
Proof.
  intros d cols d' H. unfold col_select, requires_pre_materialization in H.
  destruct (materialized d) eqn:Hm; try discriminate.
  match type of H with (if ?a then _ else _) = _ => destruct a; try discriminate end.
  match type of H with (if ?a then _ else _) = _ => destruct a; try discriminate end.
  injection H as <-. simpl. auto.
Qed.

Lemma materialize_some : forall d d', materialize d = Some d' ->
  (materialized d = true /\ d' = d) \/
  (materialized d = false /\
   d' = mkDs (df d) (df_cols d) (stype_cols d) (target_col d) (split_col d) true (Some (map rid (df d)))).
Proof.
  intros d d' H. unfold materialize in H. destruct (materialized d); [left|right].
  - injection H as <-. auto.
  - match type of H with (if ?a then _ else _) = _ => destruct a; try discriminate end.
    injection H as <-. auto.
Qed.

Lemma materialize_inv : forall d d', materialize d = Some d' -> inv d -> inv d' /\ materialized d' = true.
Proof.
  intros d d' H Hi. destruct (materialize_some _ _ H) as [[Hm ->]|[Hm ->]]; auto.
  split; [|reflexivity]. intros _. unfold aligned. reflexivity.
Qed.

Lemma materialize_materialized : forall d, materialized d = true -> materialize d = Some d.
Proof. intros d H. unfold materialize. rewrite H. reflexivity. Qed.

Lemma get_split_is_select : forall d name d',
  get_split d name = Some d' -> exists i, index_select d i = Some d'.
Proof.
  intros d name d' H. unfold get_split in H.
  destruct (split_col d); try discriminate.
  destruct (mem_str name _); try discriminate.
  destruct (mem_str s _); try discriminate.
  destruct (assoc_str name split_to_num); simpl in H; try discriminate.
  eexists; exact H.
Qed.

Lemma step_cases : forall d o d', step d o = Some d' ->
  (exists i, index_select d i = Some d') \/ (exists cols, col_select d cols = Some d') \/ materialize d = Some d'.
Proof.
  intros d o d' H. destruct o; simpl in H.
  - destruct k as [c|cs|i]; simpl in H.
    + right; left; eauto.
    + destruct cs; [left; eauto|right; left; eauto].
    + left; eauto.
  - left; eauto.
  - unfold shuffle in H. destruct (index_select d _) eqn:E; simpl in H; try discriminate.
    injection H as <-. left; eauto.
  - left. eapply get_split_is_select; eauto.
  - right; left; eauto.
  - right; right. exact H.
Qed.

Lemma step_inv : forall d o d', inv d -> step d o = Some d' -> inv d'.
Proof.
  intros d o d' Hi H. destruct (step_cases _ _ _ H) as [[i Hs]|[[cols Hc]|Hmat]].
  - intros _. apply (index_select_frame _ _ _ Hi Hs).
  - destruct (col_select_pre _ _ _ Hc) as [_ [Hm' _]]. intros Hm. congruence.
  - eapply materialize_inv; eauto.
Qed.

Lemma step_materialized : forall d o d', inv d -> materialized d = true -> step d o = Some d' ->
  materialized d' = true /\ df_cols d' = df_cols d /\ stype_cols d' = stype_cols d /\
  target_col d' = target_col d /\ split_col d' = split_col d.
Proof.
  intros d o d' Hi Hm H. destruct (step_cases _ _ _ H) as [[i Hs]|[[cols Hc]|Hmat]].
  - destruct (index_select_frame _ _ _ Hi Hs) as [? [? ?]]; auto.
  - destruct (col_select_pre _ _ _ Hc) as [Hm' _]. congruence.
  - rewrite materialize_materialized in Hmat by auto. injection Hmat as <-. auto.
Qed.

Lemma run_fold_none : forall ops, fold_left (fun acc o => d' <- acc ;; step d' o) ops None = None.
Proof. induction ops; simpl; auto. Qed.

Lemma run_cons : forall d o ops, run d (o :: ops) = (d' <- step d o ;; run d' ops).
Proof.
  intros. unfold run. simpl. destruct (step d o); simpl; auto. apply run_fold_none.
Qed.

Lemma run_inv : forall ops d d', inv d -> run d ops = Some d' -> inv d'.
Proof.
  induction ops as [|o ops IH]; intros d d' Hi H.
  - unfold run in H. simpl in H. injection H as <-. exact Hi.
  - rewrite run_cons in H. destruct (step d o) eqn:E; simpl in H; try discriminate.
    eapply IH; [|exact H]. eapply step_inv; eauto.
Qed.

Lemma run_materialized : forall ops d d', inv d -> materialized d = true -> run d ops = Some d' ->
  materialized d' = true /\ aligned d' /\ df_cols d' = df_cols d /\ stype_cols d' = stype_cols d /\
  target_col d' = target_col d /\ split_col d' = split_col d.
Proof.
  induction ops as [|o ops IH]; intros d d' Hi Hm H.
  - unfold run in H. simpl in H. injection H as <-. auto 10.
  - rewrite run_cons in H. destruct (step d o) as [d1|] eqn:E; simpl in H; try discriminate.
    destruct (step_materialized _ _ _ Hi Hm E) as [Hm1 [A [B [C D]]]].
    destruct (IH d1 d' (step_inv _ _ _ Hi E) Hm1 H) as [? [? [? [? [? ?]]]]].
    repeat split; auto; congruence.
Qed.

(* ------------------------------------------------------------------ *)
(* exactness of the individual operations *)

Lemma get_split_spec : forall d name k sc,
  materialized d = true -> aligned d ->
  split_col d = Some sc -> In sc (df_cols d) ->
  In name ["train"; "val"; "test"]%string -> assoc_str name split_to_num = Some k ->
  get_split d name =
    Some (with_rows d (filter (fun r => Z.eqb (split r) k) (df d))
                      (map rid (filter (fun r => Z.eqb (split r) k) (df d)))).
Proof.
  intros d name k sc Hm Ha Hsc Hin Hname Hk. unfold get_split. rewrite Hsc.
  apply mem_str_In in Hname. rewrite Hname. apply mem_str_In in Hin. rewrite Hin. rewrite Hk. simpl.
  rewrite index_select_spec by auto. simpl.
  rewrite py_select_nats.
  - rewrite gather_nonzero. reflexivity.
  - pose proof (nonzero_bound (map (fun r => Z.eqb (split r) k) (df d))) as HB.
    rewrite map_length in HB. exact HB.
Qed.

Lemma shuffle_spec : forall d perm,
  materialized d = true -> aligned d -> Permutation perm (seq 0 (len d)) ->
  exists rows, tgather (df d) perm = Some rows /\ Permutation rows (df d) /\
    shuffle d perm = Some (with_rows d rows (map rid rows), perm).
Proof.
  intros d perm Hm Ha HP.
  assert (HF : Forall (fun k => k < List.length (df d)) perm).
  { apply Forall_forall. intros x Hx. eapply Permutation_in in Hx; [|exact HP]. apply in_seq in Hx.
    unfold len in Hx. lia. }
  destruct (tgather_in_range (df d) perm HF) as [rows Hr].
  exists rows. split; auto. split; [eapply tgather_perm; eauto|].
  unfold shuffle. rewrite index_select_spec by auto. simpl.
  unfold py_select. simpl. rewrite positions_of_nats by auto. simpl. rewrite Hr. reflexivity.
Qed.

(* a step-1 slice is firstn/skipn *)
Lemma range_up_one : forall lo hi, range_up lo hi 1 = seq lo (hi - lo).
Proof.
  intros lo hi. unfold range_up, count_up.
  replace (if lo <? hi then (hi - lo + 1 - 1) / 1 else 0) with (hi - lo).
  - rewrite <- (Nat.add_0_r lo) at 2. rewrite seq_shift_add. apply map_ext. intros; lia.
  - destruct (lo <? hi) eqn:E.
    + rewrite Nat.div_1_r. lia.
    + apply Nat.ltb_ge in E. lia.
Qed.

Lemma clamp_le : forall n dflt o, dflt <= n -> clamp_bound n dflt o <= n.
Proof. intros n dflt o H. unfold clamp_bound. destruct o as [v|]; [|exact H]. destruct (v <? 0)%Z; lia. Qed.

Lemma py_select_slice1 : forall {B} (l : list B) a b,
  py_select (ISlice a b None) l =
    Some (tslice l (clamp_bound (length l) 0 a) (clamp_bound (length l) (length l) b)).
Proof.
  intros B l a b. unfold py_select. simpl. rewrite range_up_one.
  set (lo := clamp_bound (length l) 0 a). set (hi := clamp_bound (length l) (length l) b).
  assert (hi <= length l) by (apply clamp_le; lia).
  destruct (le_lt_dec lo hi).
  - rewrite tgather_seq by lia. replace (lo + (hi - lo)) with hi by lia. reflexivity.
  - replace (hi - lo) with 0 by lia. simpl. unfold tslice. replace (hi - lo) with 0 by lia. reflexivity.
Qed.

Lemma float_slice_resolve : forall d a b s,
  index_select d (DSlice a b s) =
    (a' <- float_cut (len d) a ;; b' <- float_cut (len d) b ;; index_select d (DIdx (ISlice a' b' s))).
Proof.
  intros. unfold index_select, requires_post_materialization. destruct (materialized d); simpl.
  - destruct (float_cut (len d) a); simpl; auto. destruct (float_cut (len d) b); simpl; auto.
  - destruct (float_cut (len d) a); simpl; auto. destruct (float_cut (len d) b); simpl; auto.
Qed.

(* ------------------------------------------------------------------ *)
(* index labels are never consulted *)


Lemma index_select_relabel : forall f d i,
  index_select (relabel f d) i = option_map (relabel f) (index_select d i).
Proof.
  intros f d i. unfold index_select, requires_post_materialization, len. simpl.
  destruct (materialized d); simpl; auto. rewrite map_length.
  destruct (resolve_index (List.length (df d)) i) as [ix|]; simpl; auto.
  destruct (py_positions (List.length (df d)) ix) as [pd|]; simpl; auto.
  rewrite tgather_map. destruct (tgather (df d) pd) as [rows|]; simpl; auto.
  destruct (tf d) as [t|]; simpl; auto.
  destruct (py_positions (List.length t) ix) as [pt|]; simpl; auto.
  destruct (tgather t pt); simpl; auto.
Qed.

Lemma col_select_relabel : forall f d cols,
  col_select (relabel f d) cols = option_map (relabel f) (col_select d cols).
Proof.
  intros f d cols. unfold col_select, requires_pre_materialization. simpl.
  destruct (materialized d); simpl; auto.
  match goal with |- (if ?a then _ else _) = _ => destruct a; simpl; auto end.
  match goal with |- (if ?a then _ else _) = _ => destruct a; simpl; auto end.
Qed.

Lemma step_relabel : forall f d o, step (relabel f d) o = option_map (relabel f) (step d o).
Proof.
  intros f d o. destruct o; simpl.
  - destruct k as [c|cs|i]; simpl.
    + apply col_select_relabel.
    + destruct cs; [apply index_select_relabel|apply col_select_relabel].
    + apply index_select_relabel.
  - apply index_select_relabel.
  - unfold shuffle. rewrite index_select_relabel. destruct (index_select d _); reflexivity.
  - unfold get_split.
    change (split_col (relabel f d)) with (split_col d). change (df_cols (relabel f d)) with (df_cols d).
    change (df (relabel f d)) with (map (relabel_row f) (df d)).
    destruct (split_col d); auto.
    destruct (mem_str name ["train"; "val"; "test"]%string); auto. destruct (mem_str s (df_cols d)); auto.
    destruct (assoc_str name split_to_num); [|reflexivity]. cbn [obind].
    rewrite map_map. cbn [relabel_row split]. apply index_select_relabel.
  - apply col_select_relabel.
  - unfold materialize. simpl. destruct (materialized d); simpl; auto.
    match goal with |- (if ?a then _ else _) = _ => destruct a; simpl; auto end.
    unfold relabel. simpl. rewrite map_map. reflexivity.
Qed.

Lemma run_relabel : forall f ops d, run (relabel f d) ops = option_map (relabel f) (run d ops).
Proof.
  intros f ops. induction ops as [|o ops IH]; intros d.
  - reflexivity.
  - rewrite !run_cons, step_relabel. destruct (step d o); simpl; auto.
Qed.

(* ------------------------------------------------------------------ *)
(* gating *)

Lemma index_select_gate : forall d i, materialized d = false -> index_select d i = None.
Proof. intros d i H. unfold index_select, requires_post_materialization. rewrite H. reflexivity. Qed.

Lemma row_ops_gate : forall d o, materialized d = false ->
  match o with
  | OGetItem (KRows _) | OGetItem (KStrs []) | OIndexSelect _ | OShuffle _ | OGetSplit _ => step d o = None
  | _ => True
  end.
Proof.
  intros d o H. destruct o; auto; simpl.
  - destruct k as [c|cs|i]; auto; [destruct cs; auto|]; apply index_select_gate; auto.
  - apply index_select_gate; auto.
  - unfold shuffle. rewrite index_select_gate; auto.
  - unfold get_split. destruct (split_col d); auto. destruct (mem_str name ["train"; "val"; "test"]%string); auto.
    destruct (mem_str s (df_cols d)); auto. destruct (assoc_str name split_to_num); simpl; auto.
    apply index_select_gate; auto.
Qed.

Lemma split3_gate : forall d, materialized d = false -> split3 d = None.
Proof.
  intros d H. unfold split3. pose proof (row_ops_gate d (OGetSplit "train") H) as E. simpl in E.
  rewrite E. reflexivity.
Qed.

Lemma col_select_gate : forall d cols, materialized d = true -> col_select d cols = None.
Proof. intros d cols H. unfold col_select, requires_pre_materialization. rewrite H. reflexivity. Qed.

Lemma col_select_keeps : forall d cols d',
  col_select d cols = Some d' ->
  df d' = df d /\ target_col d' = target_col d /\
  (forall c, In c cols -> In c (df_cols d')) /\
  (forall c, In c (df_cols d') -> In c (df_cols d) /\ In c (stype_cols d)) /\
  (forall t, target_col d = Some t -> In t (df_cols d')) /\
  (forall c, In c (df_cols d') -> In c cols \/ target_col d = Some c).
Proof.
  intros d cols d' H. unfold col_select, requires_pre_materialization in H.
  destruct (materialized d); try discriminate.
  set (cols' := match target_col d with
                | Some t => if mem_str t cols then cols else cols ++ [t]
                | None => cols end) in *.
  destruct (forallb (fun c => mem_str c (df_cols d)) cols') eqn:E1; try discriminate.
  destruct (forallb (fun c => mem_str c (stype_cols d)) cols') eqn:E2; try discriminate.
  injection H as <-. simpl.
  rewrite forallb_forall in E1, E2.
  assert (Hsub : forall c, In c cols -> In c cols').
  { intros c Hc. unfold cols'. destruct (target_col d); auto. destruct (mem_str s cols); auto.
    apply in_or_app; auto. }
  repeat split; auto.
  - apply mem_str_In. apply E1. assumption.
  - apply mem_str_In. apply E2. assumption.
  - intros t Ht. unfold cols'. rewrite Ht. destruct (mem_str t cols) eqn:E.
    + apply mem_str_In; auto.
    + apply in_or_app. right. left. reflexivity.
  - intros c Hc. unfold cols' in Hc. destruct (target_col d) as [t|]; auto.
    destruct (mem_str t cols); auto. apply in_app_or in Hc. destruct Hc as [Hc|[<-|[]]]; auto.
Qed.

(* ------------------------------------------------------------------ *)
(* the tree of datasets *)


Lemma set_nth_length : forall {A} (l : list A) k x, length (set_nth l k x) = length l.
Proof. induction l; destruct k; simpl; auto. Qed.

Lemma Forall2_refl' : forall {A} (R : A -> A -> Prop) l, (forall x, R x x) -> Forall2 R l l.
Proof. induction l; constructor; auto. Qed.

Lemma set_nth_Forall2 : forall (store : list (option ds)) p d d',
  nth_error store p = Some (Some d) -> materialize d = Some d' ->
  Forall2 same_or_materialized store (set_nth store p (Some d')).
Proof.
  induction store as [|e store IH]; intros p d d' H Hmat; destruct p; simpl in *; try discriminate.
  - injection H as ->. constructor.
    + right. eauto.
    + apply Forall2_refl'. intros; left; reflexivity.
  - constructor; [left; reflexivity|]. eapply IH; eauto.
Qed.

Lemma set_nth_Forall : forall {A} (P : A -> Prop) l k x, Forall P l -> P x -> Forall P (set_nth l k x).
Proof.
  induction l; intros k x H Hx; destruct k; simpl; auto; inversion H; subst; constructor; auto.
Qed.

Lemma lookup_some : forall store p d, lookup store p = Some d -> nth_error store p = Some (Some d).
Proof.
  intros store p d H. unfold lookup in H. destruct (nth_error store p) as [[x|]|]; try discriminate.
  injection H as ->. reflexivity.
Qed.

Lemma lookup_inv : forall store p d, Forall oinv store -> lookup store p = Some d -> inv d.
Proof.
  intros store p d HF H. apply lookup_some in H. apply nth_error_In in H.
  rewrite Forall_forall in HF. apply (HF _ H).
Qed.

Lemma tree_step_op : forall store p o, o <> OMaterialize ->
  fst (tree_step store (TOp p o)) =
  store ++ [match lookup store p with Some d => step d o | None => None end].
Proof. intros store p o H. destruct o; try congruence; simpl; destruct (lookup store p); reflexivity. Qed.

Lemma tree_step_facts : forall store s,
  Forall oinv store ->
  let store' := fst (tree_step store s) in
  Forall oinv store' /\ length store <= length store' /\
  Forall2 same_or_materialized store (firstn (length store) store').
Proof.
  intros store s HF.
  assert (Hrefl : Forall2 same_or_materialized store (firstn (length store) store)).
  { rewrite firstn_all. apply Forall2_refl'. intros; left; reflexivity. }
  assert (Happ : forall e, oinv e ->
     Forall oinv (store ++ [e]) /\ length store <= length (store ++ [e]) /\
     Forall2 same_or_materialized store (firstn (length store) (store ++ [e]))).
  { intros e He. split; [apply Forall_app; split; auto|]. split; [rewrite app_length; lia|].
    rewrite firstn_app, Nat.sub_diag, firstn_all. simpl. rewrite app_nil_r.
    apply Forall2_refl'. intros; left; reflexivity. }
  assert (Hstep : forall p o, o <> OMaterialize ->
     let r := match lookup store p with Some d => step d o | None => None end in
     Forall oinv (store ++ [r]) /\ length store <= length (store ++ [r]) /\
     Forall2 same_or_materialized store (firstn (length store) (store ++ [r]))).
  { intros p o _. apply Happ. destruct (lookup store p) as [d|] eqn:E; simpl; auto.
    destruct (step d o) eqn:E2; simpl; auto. eapply step_inv; eauto. eapply lookup_inv; eauto. }
  destruct s as [p o|p|p].
  - assert (Ho : o = OMaterialize \/ o <> OMaterialize)
      by (destruct o; ((left; reflexivity) || (right; discriminate))).
    destruct Ho as [->|Ho].
    + simpl. destruct (lookup store p) as [d|] eqn:E; simpl; auto.
      destruct (materialize d) as [d'|] eqn:Em; simpl; auto.
      split; [|split].
      * apply set_nth_Forall; auto. simpl. eapply materialize_inv; eauto. eapply lookup_inv; eauto.
      * rewrite set_nth_length. lia.
      * rewrite <- (set_nth_length store p (Some d')) at 1. rewrite firstn_all.
        eapply set_nth_Forall2; eauto. apply lookup_some; auto.
    + rewrite (tree_step_op store p o Ho). apply Hstep; auto.
  - simpl. split; auto.
  - simpl. split; auto.
Qed.

Lemma same_or_materialized_trans : forall a b c,
  same_or_materialized a b -> same_or_materialized b c -> same_or_materialized a c.
Proof.
  intros a b c [->|[d [d1 [-> [M1 ->]]]]] [->|[d' [d2 [E [M2 ->]]]]].
  - left; reflexivity.
  - right; eauto.
  - right; eauto.
  - injection E as <-. right. exists d, d2. split; auto. split; auto.
    assert (Hm : materialized d1 = true).
    { destruct (materialize_some _ _ M1) as [[Hm ->]|[_ ->]]; auto. }
    rewrite materialize_materialized in M2 by auto. injection M2 as <-. exact M1.
Qed.

Lemma Forall2_trans' : forall {A} (R : A -> A -> Prop) l1 l2 l3,
  (forall a b c, R a b -> R b c -> R a c) -> Forall2 R l1 l2 -> Forall2 R l2 l3 -> Forall2 R l1 l3.
Proof.
  intros A R l1 l2 l3 HT H12. revert l3. induction H12; intros l3 H23; inversion H23; subst; constructor; eauto.
Qed.

Lemma Forall2_firstn : forall {A} (R : A -> A -> Prop) l1 l2 n,
  Forall2 R l1 l2 -> Forall2 R (firstn n l1) (firstn n l2).
Proof.
  intros A R l1 l2 n H. revert n. induction H; intros n; destruct n; simpl; constructor; auto.
Qed.

Lemma tree_run_facts : forall prog store,
  Forall oinv store ->
  let store' := fst (tree_run store prog) in
  Forall oinv store' /\ length store <= length store' /\
  Forall2 same_or_materialized store (firstn (length store) store').
Proof.
  induction prog as [|s prog IH]; intros store HF; simpl.
  - split; auto. split; auto. rewrite firstn_all. apply Forall2_refl'. intros; left; reflexivity.
  - destruct (tree_step_facts store s HF) as [H1 [H2 H3]].
    destruct (tree_step store s) as [st1 o1] eqn:E1. simpl in H1, H2, H3.
    specialize (IH st1 H1). destruct (tree_run st1 prog) as [st2 os] eqn:E2. simpl in *.
    destruct IH as [I1 [I2 I3]]. split; auto. split; [lia|].
    eapply Forall2_trans'; [apply same_or_materialized_trans|exact H3|].
    apply (Forall2_firstn _ _ _ (length store)) in I3.
    rewrite firstn_firstn in I3. replace (Nat.min (length store) (length st1)) with (length store) in I3 by lia.
    exact I3.
Qed.

(* ------------------------------------------------------------------ *)
(* statements in the form Props/C09.v quotes *)


Lemma py_select_int_as_list : forall {B} (l : list B) k, py_select (IList [k]) l = py_select (IInt k) l.
Proof.
  intros B l k. unfold py_select. simpl. destruct (norm_index (length l) k); reflexivity.
Qed.

Lemma select_exact_proof : forall d i,
  materialized d = true -> aligned d ->
  index_select d i =
    (ix <- spec_index (len d) i ;;
     rows <- py_select ix (df d) ;;
     Some (with_rows d rows (map rid rows))).
Proof.
  intros d i Hm Ha. rewrite index_select_spec by auto.
  destruct i as [ix|a b s]; [|reflexivity]. destruct ix; try reflexivity.
  all: simpl; rewrite py_select_int_as_list; reflexivity.
Qed.

Lemma run_aligned_proof : forall d0 ops d,
  materialized d0 = true -> aligned d0 -> run d0 ops = Some d -> materialized d = true /\ aligned d.
Proof.
  intros d0 ops d Hm Ha H.
  destruct (run_materialized ops d0 d (fun _ => Ha) Hm H) as [? [? _]]. auto.
Qed.

Lemma materialize_aligned_proof : forall d d', materialized d = false -> materialize d = Some d' ->
  materialized d' = true /\ aligned d' /\ df d' = df d /\
  df_cols d' = df_cols d /\ stype_cols d' = stype_cols d.
Proof.
  intros d d' H Hm. destruct (materialize_some _ _ Hm) as [[Hm' _]|[_ ->]]; [congruence|].
  unfold aligned. simpl. auto.
Qed.

(* every column of col_to_stype names exactly one column of the frame *)
Definition columns_unique (d : ds) : Prop :=
  forall c, In c (stype_cols d) -> count_str c (df_cols d) = 1.

Lemma materialize_defined_proof : forall d, columns_unique d -> exists d', materialize d = Some d'.
Proof.
  intros d H. unfold materialize. destruct (materialized d); eauto.
  replace (forallb (fun c => Nat.eqb (count_str c (df_cols d)) 1) (stype_cols d)) with true; eauto.
  symmetry. apply forallb_forall. intros c Hc. apply Nat.eqb_eq. apply H. exact Hc.
Qed.

Lemma dedup_In : forall c l, In c (dedup_str l) <-> In c l.
Proof.
  intros c l. induction l as [|x l IH]; simpl; [tauto|].
  rewrite filter_In, IH. destruct (String.eqb c x) eqn:E.
  - apply String.eqb_eq in E. subst. tauto.
  - split; [tauto|]. intros [->|H]; [rewrite String.eqb_refl in E; discriminate|]. right. split; auto.
Qed.

Lemma split_names_table : forall name k, In (name, k) split_names ->
  In name ["train"; "val"; "test"]%string /\ assoc_str name split_to_num = Some k.
Proof.
  intros name k H. unfold split_names in H. simpl in H.
  destruct H as [H|[H|[H|[]]]]; injection H as <- <-; (split; [simpl; auto|reflexivity]).
Qed.

Lemma has_split_col_spec : forall d, has_split_col d = true ->
  exists sc, split_col d = Some sc /\ In sc (df_cols d).
Proof.
  intros d H. unfold has_split_col in H. destruct (split_col d) as [sc|]; try discriminate.
  exists sc. split; auto. apply mem_str_In. exact H.
Qed.

Lemma get_split_exact_proof : forall d name k,
  materialized d = true -> aligned d -> has_split_col d = true -> In (name, k) split_names ->
  exists d', get_split d name = Some d' /\
    df d' = filter (fun r => Z.eqb (split r) k) (df d) /\
    materialized d' = true /\ aligned d'.
Proof.
  intros d name k Hm Ha Hs Hn. destruct (has_split_col_spec _ Hs) as [sc [Hsc Hin]].
  destruct (split_names_table _ _ Hn) as [Hname Hk].
  eexists. split; [eapply get_split_spec; eauto|]. simpl. repeat split; auto.
Qed.

Lemma get_split_after_history_proof : forall d0 ops d name k,
  materialized d0 = true -> aligned d0 -> has_split_col d0 = true ->
  run d0 ops = Some d -> In (name, k) split_names ->
  exists d', get_split d name = Some d' /\
    df d' = filter (fun r => Z.eqb (split r) k) (df d) /\
    materialized d' = true /\ aligned d'.
Proof.
  intros d0 ops d name k Hm Ha Hs H Hn.
  destruct (run_materialized ops d0 d (fun _ => Ha) Hm H) as [Hm' [Ha' [Hc [_ [_ Hsc]]]]].
  apply get_split_exact_proof; auto. unfold has_split_col in *. rewrite Hsc, Hc. exact Hs.
Qed.

Lemma split3_exact_proof : forall d,
  materialized d = true -> aligned d -> has_split_col d = true ->
  exists a b c, split3 d = Some (a, b, c) /\
    df a = filter (fun r => Z.eqb (split r) 0) (df d) /\
    df b = filter (fun r => Z.eqb (split r) 1) (df d) /\
    df c = filter (fun r => Z.eqb (split r) 2) (df d) /\
    aligned a /\ aligned b /\ aligned c.
Proof.
  intros d Hm Ha Hs.
  destruct (get_split_exact_proof d "train" 0 Hm Ha Hs) as [a [Ea [Da [_ Aa]]]]; [simpl; auto|].
  destruct (get_split_exact_proof d "val" 1 Hm Ha Hs) as [b [Eb [Db [_ Ab]]]]; [simpl; auto|].
  destruct (get_split_exact_proof d "test" 2 Hm Ha Hs) as [c [Ec [Dc [_ Ac]]]]; [simpl; auto 6|].
  exists a, b, c. unfold split3. rewrite Ea, Eb, Ec. simpl. repeat split; auto.
Qed.

Lemma float_slice_rows_proof : forall d a b a' b' d',
  materialized d = true -> aligned d ->
  float_cut (len d) a = Some a' -> float_cut (len d) b = Some b' ->
  index_select d (DSlice a b None) = Some d' ->
  df d' = tslice (df d) (clamp_bound (len d) 0 a') (clamp_bound (len d) (len d) b') /\ aligned d'.
Proof.
  intros d a b a' b' d' Hm Ha Ea Eb H. rewrite select_exact_proof in H by auto. simpl in H.
  rewrite Ea, Eb in H. simpl in H. rewrite py_select_slice1 in H. simpl in H. injection H as <-.
  unfold aligned, len. simpl. auto.
Qed.

Lemma float_slice_defined_proof : forall d a b a' b',
  materialized d = true -> aligned d ->
  float_cut (len d) a = Some a' -> float_cut (len d) b = Some b' ->
  exists d', index_select d (DSlice a b None) = Some d'.
Proof.
  intros d a b a' b' Hm Ha Ea Eb. rewrite select_exact_proof by auto. simpl.
  rewrite Ea, Eb. simpl. rewrite py_select_slice1. simpl. eauto.
Qed.

Lemma tensor_frame_after_proof : forall d, materialized d = true -> aligned d ->
  tensor_frame d = Some (map rid (df d)) /\ col_stats d = Some tt.
Proof.
  intros d Hm Ha. unfold tensor_frame, col_stats, requires_post_materialization. rewrite Hm. auto.
Qed.

Lemma reads_gate_proof : forall d, materialized d = false -> tensor_frame d = None /\ col_stats d = None.
Proof. intros d H. unfold tensor_frame, col_stats, requires_post_materialization. rewrite H. auto. Qed.

Lemma col_select_getitem_gate_proof : forall d, materialized d = true ->
  (forall cols, col_select d cols = None) /\
  (forall c, getitem d (KStr c) = None) /\
  (forall c cs, getitem d (KStrs (c :: cs)) = None).
Proof.
  intros d H. repeat split; intros; simpl; apply col_select_gate; auto.
Qed.

Lemma tree_unchanged_proof : forall prog store,
  Forall oinv store ->
  Forall oinv (fst (tree_run store prog)) /\
  Forall2 same_or_materialized store (firstn (length store) (fst (tree_run store prog))).
Proof. intros prog store H. destruct (tree_run_facts prog store H) as [? [_ ?]]. auto. Qed.

Lemma fresh_inv_proof : forall rows dfc sc t s, inv (fresh rows dfc sc t s).
Proof. intros. unfold inv, fresh. simpl. discriminate. Qed.

(* col_to_stype of the result has the same names as its frame (each once) *)
Lemma col_select_stype_keys_proof : forall d cols d', col_select d cols = Some d' ->
  forall c, In c (stype_cols d') <-> In c (df_cols d').
Proof.
  intros d cols d' H c. unfold col_select, requires_pre_materialization in H.
  destruct (materialized d); try discriminate.
  match type of H with (if ?a then _ else _) = _ => destruct a; try discriminate end.
  match type of H with (if ?a then _ else _) = _ => destruct a; try discriminate end.
  injection H as <-. simpl. apply dedup_In.
Qed.
