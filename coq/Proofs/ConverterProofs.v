(* Lemmas about Model/Converter.v (C02, and the target clause of C01). *)
From Coq Require Import ZArith List Bool Arith Lia Permutation Sorting.Sorted.
From PF Require Import Gen.Tables Lib.ListX Model.Ragged Model.Mapper Model.MapperSpec Model.Converter Model.ConverterSpec Proofs.MapperProofs.
Import ListNotations.
Local Open Scope nat_scope.

(* ------------------------------------------------------------------------- *)
(* stype keys (finite domain: case analysis over the generated enum) *)
Lemma stype_eqb_eq : forall a b, stype_eqb a b = true <-> a = b.
Proof. destruct a, b; simpl; split; intro H; try reflexivity; try discriminate. Qed.

Lemma stype_eqb_refl : forall a, stype_eqb a a = true.
Proof. intro a. apply stype_eqb_eq. reflexivity. Qed.

Lemma stype_eqb_neq : forall a b, a <> b -> stype_eqb a b = false.
Proof. intros a b H. destruct (stype_eqb a b) eqn:E; [|reflexivity]. apply stype_eqb_eq in E. contradiction. Qed.

Lemma stype_eq_dec : forall a b : stype, {a = b} + {a <> b}.
Proof. decide equality. Qed.

(* ------------------------------------------------------------------------- *)
(* dict operations *)
Section Dict.
  Context {V : Type}.

  Lemma sd_get_set_same : forall (d : sdict V) k v, sd_get (sd_set d k v) k = Some v.
  Proof.
    induction d as [|[k' v'] d IH]; intros k v; simpl.
    - rewrite stype_eqb_refl. reflexivity.
    - destruct (stype_eqb k k') eqn:E; simpl; rewrite E; [reflexivity | apply IH].
  Qed.

  Lemma sd_get_set_other : forall (d : sdict V) k v k', k' <> k -> sd_get (sd_set d k v) k' = sd_get d k'.
  Proof.
    induction d as [|[k0 v0] d IH]; intros k v k' H; simpl.
    - rewrite stype_eqb_neq by assumption. reflexivity.
    - destruct (stype_eqb k k0) eqn:E; simpl.
      + apply stype_eqb_eq in E. subst k0. rewrite stype_eqb_neq by assumption. reflexivity.
      + destruct (stype_eqb k' k0); [reflexivity | apply IH; assumption].
  Qed.

  Lemma sd_get_pop_same : forall (d : sdict V) k, sd_get (sd_pop d k) k = None.
  Proof.
    induction d as [|[k0 v0] d IH]; intro k; simpl; [reflexivity|].
    destruct (stype_eqb k k0) eqn:E; simpl; [apply IH | rewrite E; apply IH].
  Qed.

  Lemma sd_get_pop_other : forall (d : sdict V) k k', k' <> k -> sd_get (sd_pop d k) k' = sd_get d k'.
  Proof.
    induction d as [|[k0 v0] d IH]; intros k k' H; simpl; [reflexivity|].
    destruct (stype_eqb k k0) eqn:E; simpl.
    - apply stype_eqb_eq in E. subst k0. rewrite stype_eqb_neq by assumption. apply IH. assumption.
    - destruct (stype_eqb k' k0); [reflexivity | apply IH; assumption].
  Qed.

  Lemma sd_get_map : forall {W} (f : V -> W) (d : sdict V) k,
    sd_get (map (fun e => (fst e, f (snd e))) d) k = option_map f (sd_get d k).
  Proof.
    induction d as [|[k0 v0] d IH]; intro k; simpl; [reflexivity|]. destruct (stype_eqb k k0); [reflexivity | apply IH].
  Qed.

  Lemma sd_get_In : forall (d : sdict V) k v, sd_get d k = Some v -> In (k, v) d.
  Proof.
    induction d as [|[k0 v0] d IH]; intros k v H; simpl in *; [discriminate|].
    destruct (stype_eqb k k0) eqn:E.
    - apply stype_eqb_eq in E. inversion H. subst. left. reflexivity.
    - right. apply IH. exact H.
  Qed.
End Dict.

(* ------------------------------------------------------------------------- *)
(* list.sort() on names: a permutation, sorted, and the only sorted permutation *)
Lemma str_leb_refl : forall a, str_leb a a = true.
Proof. induction a as [|x a IH]; simpl; [reflexivity|]. rewrite Z.ltb_irrefl. exact IH. Qed.

Lemma str_leb_total : forall a b, str_leb a b = true \/ str_leb b a = true.
Proof.
  induction a as [|x a IH]; destruct b as [|y b]; simpl; auto.
  destruct (x <? y)%Z eqn:E1; [auto|]. destruct (y <? x)%Z eqn:E2; [auto|]. apply IH.
Qed.

Lemma str_leb_antisym : forall a b, str_leb a b = true -> str_leb b a = true -> a = b.
Proof.
  induction a as [|x a IH]; destruct b as [|y b]; simpl; intros H1 H2; try reflexivity; try discriminate.
  destruct (x <? y)%Z eqn:E1; destruct (y <? x)%Z eqn:E2; try discriminate.
  - apply Z.ltb_lt in E1. apply Z.ltb_lt in E2. lia.
  - apply Z.ltb_ge in E1. apply Z.ltb_ge in E2. assert (x = y) by lia. subst. f_equal. apply IH; assumption.
Qed.

Lemma str_leb_trans : forall a b c, str_leb a b = true -> str_leb b c = true -> str_leb a c = true.
Proof.
  induction a as [|x a IH]; destruct b as [|y b]; destruct c as [|z c]; simpl; intros H1 H2; try reflexivity; try discriminate.
  destruct (x <? y)%Z eqn:E1; destruct (y <? z)%Z eqn:E2;
    destruct (y <? x)%Z eqn:E3; destruct (z <? y)%Z eqn:E4; try discriminate;
    repeat match goal with
           | h : (_ <? _)%Z = true |- _ => apply Z.ltb_lt in h
           | h : (_ <? _)%Z = false |- _ => apply Z.ltb_ge in h
           end.
  all: try (replace (x <? z)%Z with true by (symmetry; apply Z.ltb_lt; lia); reflexivity).
  assert (x = y) by lia. assert (y = z) by lia. subst. rewrite Z.ltb_irrefl. eapply IH; eassumption.
Qed.

Lemma insert_name_perm : forall x l, Permutation (x :: l) (insert_name x l).
Proof.
  induction l as [|y l IH]; simpl; [apply Permutation_refl|].
  destruct (str_leb x y); [apply Permutation_refl|].
  eapply Permutation_trans; [apply perm_swap|]. apply perm_skip. exact IH.
Qed.

Lemma sort_names_perm : forall l, Permutation l (sort_names l).
Proof.
  induction l as [|x l IH]; simpl; [constructor|].
  eapply Permutation_trans; [apply perm_skip; exact IH | apply insert_name_perm].
Qed.

Lemma insert_name_sorted : forall x l, StronglySorted name_le l -> StronglySorted name_le (insert_name x l).
Proof.
  induction l as [|y l IH]; intro H; simpl; [repeat constructor|].
  inversion H as [|? ? Hs Hf]; subst. destruct (str_leb x y) eqn:E.
  - constructor; [exact H|]. constructor; [exact E|].
    eapply Forall_impl; [|exact Hf]. intros z Hz. eapply str_leb_trans; eassumption.
  - constructor; [apply IH; exact Hs|].
    apply (Permutation_Forall (insert_name_perm x l)). constructor; [|exact Hf].
    destruct (str_leb_total x y) as [T|T]; [congruence | exact T].
Qed.

Lemma sort_names_sorted : forall l, StronglySorted name_le (sort_names l).
Proof. induction l as [|x l IH]; simpl; [constructor | apply insert_name_sorted; exact IH]. Qed.

Lemma sorted_names_unique : forall l1 l2,
  StronglySorted name_le l1 -> StronglySorted name_le l2 -> Permutation l1 l2 -> l1 = l2.
Proof.
  induction l1 as [|a l1 IH]; intros l2 S1 S2 P.
  - apply Permutation_nil in P. subst. reflexivity.
  - destruct l2 as [|b l2]; [apply Permutation_sym, Permutation_nil in P; discriminate|].
    inversion S1 as [|? ? S1' F1]; inversion S2 as [|? ? S2' F2]; subst.
    assert (a = b).
    { assert (Ha : In a (b :: l2)) by (eapply Permutation_in; [exact P | left; reflexivity]).
      assert (Hb : In b (a :: l1)) by (eapply Permutation_in; [apply Permutation_sym; exact P | left; reflexivity]).
      rewrite Forall_forall in F1, F2. destruct Ha as [Ha|Ha]; [congruence|]. destruct Hb as [Hb|Hb]; [congruence|].
      apply str_leb_antisym; [apply F1; exact Hb | apply F2; exact Ha]. }
    subst b. f_equal. apply IH; try assumption. eapply Permutation_cons_inv. exact P.
Qed.

(* sorted + Permutation => equal *)
Lemma sort_names_permutation : forall l1 l2, Permutation l1 l2 -> sort_names l1 = sort_names l2.
Proof.
  intros l1 l2 P. apply sorted_names_unique; try apply sort_names_sorted.
  eapply Permutation_trans; [apply Permutation_sym, sort_names_perm|].
  eapply Permutation_trans; [exact P | apply sort_names_perm].
Qed.

Lemma sort_names_nil : forall l, sort_names l = [] -> l = [].
Proof.
  intros l H. pose proof (sort_names_perm l) as P. rewrite H in P. apply Permutation_sym, Permutation_nil in P. exact P.
Qed.

(* ------------------------------------------------------------------------- *)
(* __init__: the canonical col_names_dict *)

Lemma names_step_get : forall target d c st,
  sd_get (names_step target d c) st =
  if negb (is_target target (fst c)) && stype_eqb (snd c) st
  then Some (match sd_get d st with Some l => l | None => [] end ++ [fst c])
  else sd_get d st.
Proof.
  intros target d [nm s] st. unfold names_step. cbn [fst snd].
  destruct (is_target target nm); [reflexivity|]. cbn [negb andb].
  destruct (stype_eqb s st) eqn:E.
  - apply stype_eqb_eq in E. subst s. destruct (sd_get d st); rewrite sd_get_set_same; reflexivity.
  - assert (st <> s) by (intro; subst; rewrite stype_eqb_refl in E; discriminate).
    destruct (sd_get d s); rewrite sd_get_set_other by assumption; reflexivity.
Qed.

Lemma fold_names_get : forall target cts d st,
  sd_get (fold_left (names_step target) cts d) st =
  match group_of cts target st with
  | [] => sd_get d st
  | g => Some (match sd_get d st with Some l => l | None => [] end ++ g)
  end.
Proof.
  intros target. induction cts as [|c cts IH]; intros d st; [reflexivity|].
  cbn [fold_left]. rewrite IH, names_step_get. unfold group_of. cbn [filter].
  destruct (negb (is_target target (fst c)) && stype_eqb (snd c) st); cbn [map].
  - destruct (map fst (filter _ cts)) as [|g gs].
    + reflexivity.
    + rewrite <- app_assoc. reflexivity.
  - reflexivity.
Qed.

Lemma init_get : forall cts target st,
  sd_get (col_names_dict_init cts target) st =
  match group_of cts target st with [] => None | g => Some (sort_names g) end.
Proof.
  intros. unfold col_names_dict_init. rewrite sd_get_map, fold_names_get. cbn [sd_get].
  destruct (group_of cts target st); reflexivity.
Qed.

Lemma group_of_perm : forall cts cts' target st,
  Permutation cts cts' -> Permutation (group_of cts target st) (group_of cts' target st).
Proof.
  intros cts cts' target st P. unfold group_of. apply Permutation_map.
  induction P; simpl.
  - constructor.
  - destruct (negb _ && _); [apply perm_skip|]; assumption.
  - destruct (negb (is_target target (fst y)) && _); destruct (negb (is_target target (fst x)) && _);
      try apply perm_swap; try apply perm_skip; apply Permutation_refl.
  - eapply Permutation_trans; eassumption.
Qed.

(* the canonical schema does not depend on the order of col_to_stype *)
Lemma init_get_perm : forall cts cts' target st,
  Permutation cts cts' ->
  sd_get (col_names_dict_init cts target) st = sd_get (col_names_dict_init cts' target) st.
Proof.
  intros cts cts' target st P. rewrite !init_get.
  pose proof (group_of_perm cts cts' target st P) as G.
  destruct (group_of cts target st) as [|a g] eqn:E1; destruct (group_of cts' target st) as [|b g'] eqn:E2.
  - reflexivity.
  - apply Permutation_nil in G. discriminate.
  - apply Permutation_sym, Permutation_nil in G. discriminate.
  - f_equal. apply sort_names_permutation. exact G.
Qed.

Lemma init_names_sorted : forall cts target st l,
  sd_get (col_names_dict_init cts target) st = Some l -> StronglySorted name_le l.
Proof.
  intros cts target st l H. rewrite init_get in H. destruct (group_of cts target st) as [|a g]; [discriminate|].
  injection H as <-. apply (sort_names_sorted (a :: g)).
Qed.

Lemma init_names_members : forall cts target st l nm,
  sd_get (col_names_dict_init cts target) st = Some l ->
  (In nm l <-> In (nm, st) cts /\ is_target target nm = false).
Proof.
  intros cts target st l nm H. rewrite init_get in H.
  assert (G : In nm (group_of cts target st) <-> In (nm, st) cts /\ is_target target nm = false).
  { unfold group_of. rewrite in_map_iff. split.
    - intros [[n s] [E Hin]]. simpl in E. subst n. apply filter_In in Hin. destruct Hin as [Hin Hc].
      simpl in Hc. apply andb_prop in Hc. destruct Hc as [Hc1 Hc2]. apply stype_eqb_eq in Hc2. subst s.
      split; [exact Hin|]. destruct (is_target target nm); [discriminate | reflexivity].
    - intros [Hin Ht]. exists (nm, st). split; [reflexivity|]. apply filter_In. split; [exact Hin|].
      simpl. rewrite Ht, stype_eqb_refl. reflexivity. }
  destruct (group_of cts target st) as [|a g] eqn:E; [discriminate|]. injection H as <-.
  rewrite <- G. split; intro Hin.
  - eapply Permutation_in; [apply Permutation_sym, (sort_names_perm (a :: g)) | exact Hin].
  - eapply Permutation_in; [apply (sort_names_perm (a :: g)) | exact Hin].
Qed.

(* ------------------------------------------------------------------------- *)
(* relabelling: encode_col reads the index only through its length *)
Lemma ser_values_combine : forall {L C} (idx : list L) (cells : list C),
  ser_values (combine idx cells) = firstn (length idx) cells.
Proof. intros. unfold ser_values. apply map_snd_combine. Qed.

Lemma tokenized_values_only : forall {L L'} (s : @series L (list (str * list Z))) (s' : @series L' (list (str * list Z))),
  ser_values s = ser_values s' -> tokenized_forward s = tokenized_forward s'.
Proof. intros. unfold tokenized_forward. rewrite H. reflexivity. Qed.

Lemma encode_col_relabel : forall {L L'} (leqb : L -> L -> bool) (leqb' : L' -> L' -> bool)
  (idx : list L) (idx' : list L') c,
  leqb_refl leqb -> leqb_refl leqb' ->
  length idx = length idx' -> encode_col leqb idx c = encode_col leqb' idx' c.
Proof.
  intros L L' leqb leqb' idx idx' c Hr Hr' H.
  assert (V : forall C (cells : list C), ser_values (combine idx cells) = ser_values (combine idx' cells))
    by (intros; rewrite !ser_values_combine, H; reflexivity).
  destruct c; simpl.
  - rewrite (numerical_values_only _ _ (V _ cells)). reflexivity.
  - rewrite (categorical_values_only cats _ _ (V _ cells)). reflexivity.
  - rewrite (multicategorical_values_only dtype_ok cats sep _ _ (V _ cells)). reflexivity.
  - rewrite (sequence_values_only leqb leqb' _ _ Hr Hr' (V _ cells)). reflexivity.
  - rewrite (timestamp_values_only _ _ (V _ cells)). reflexivity.
  - rewrite (embedding_values_only _ _ (V _ cells)). reflexivity.
  - rewrite (embedded_values_only _ _ (V _ rows)). reflexivity.
  - rewrite (embedded_values_only _ _ (V _ rows)). reflexivity.
  - rewrite (tokenized_values_only _ _ (V _ outs)). reflexivity.
Qed.

Lemma convert_from_ext : forall enc enc' target cols names,
  (forall c, enc c = enc' c) -> convert_from enc target cols names = convert_from enc' target cols names.
Proof.
  intros enc enc' target cols names0 H. unfold convert_from.
  assert (X : forall names : sdict (list name),
    mapM (fun e => xs <- mapM (fun col => c <- get_col cols col ;; enc c) (snd e) ;; Some (fst e, xs)) names =
    mapM (fun e => xs <- mapM (fun col => c <- get_col cols col ;; enc' c) (snd e) ;; Some (fst e, xs)) names).
  { intro names. apply mapM_ext_in. intros e _. f_equal.
    apply mapM_ext_in. intros col _. destruct (get_col cols col); simpl; [apply H | reflexivity]. }
  rewrite X.
  destruct target as [t|]; [|reflexivity]. destruct (get_col cols t); [rewrite H|]; reflexivity.
Qed.

Lemma convert_with_ext : forall enc enc' target cols,
  (forall c, enc c = enc' c) -> convert_with enc target cols = convert_with enc' target cols.
Proof. intros. unfold convert_with. apply convert_from_ext. assumption. Qed.

Lemma convert_relabel : forall {L L'} (leqb : L -> L -> bool) (leqb' : L' -> L' -> bool) target
  (df : frame L) (df' : frame L'),
  leqb_refl leqb -> leqb_refl leqb' ->
  f_cols df = f_cols df' -> length (f_index df) = length (f_index df') ->
  convert leqb target df = convert leqb' target df'.
Proof.
  intros L L' leqb leqb' target df df' Hr Hr' Hc Hl. unfold convert. rewrite Hc. apply convert_with_ext.
  intro c. apply encode_col_relabel; assumption.
Qed.

(* ------------------------------------------------------------------------- *)
(* _merge_feat over the generated stype table *)
Lemma fold_left_filter : forall {A B} (f : A -> B -> A) (p : B -> bool) l acc,
  fold_left f (filter p l) acc = fold_left (fun a x => if p x then f a x else a) l acc.
Proof.
  intros A B f p. induction l as [|x l IH]; intro acc; simpl; [reflexivity|].
  destruct (p x); simpl; apply IH.
Qed.

Lemma merge_step_noop : forall st t, stype_parent st = st -> merge_step st t = Some t.
Proof. intros st t H. unfold merge_step. rewrite H, stype_eqb_refl. reflexivity. Qed.

Lemma noop_step : forall st (b : bool) (X : option tensor_frame), stype_parent st = st ->
  (if b then (t' <- X ;; merge_step st t') else X) = X.
Proof.
  intros st b X H. destruct b; [|reflexivity]. destruct X as [t|]; [|reflexivity]. simpl. apply merge_step_noop. exact H.
Qed.

Definition merge_child (present : bool) (st : stype) (acc : option tensor_frame) : option tensor_frame :=
  if present then (t' <- acc ;; merge_step st t') else acc.

(* Finite-domain fact about Gen/Tables.v (all_stype order and stype_parent),
   by computation: the only stypes _merge_feat moves are text_embedded and then
   image_embedded; membership is decided on the frame before merging. *)
Lemma merge_feat_two_steps : forall t,
  merge_feat t =
  merge_child (sd_mem (tf_feats t) st_image_embedded) st_image_embedded
    (merge_child (sd_mem (tf_feats t) st_text_embedded) st_text_embedded (Some t)).
Proof.
  intro t. unfold merge_feat, tf_stypes. rewrite fold_left_filter. cbn [all_stype fold_left].
  rewrite (noop_step st_numerical) by reflexivity.
  rewrite (noop_step st_categorical) by reflexivity.
  rewrite (noop_step st_embedding) by reflexivity.
  rewrite (noop_step st_timestamp) by reflexivity.
  rewrite (noop_step st_sequence_numerical) by reflexivity.
  rewrite (noop_step st_multicategorical) by reflexivity.
  rewrite (noop_step st_text_tokenized) by reflexivity.
  reflexivity.
Qed.

(* what one merge step does to the two dictionaries, as lookups *)
Lemma merge_step_child : forall st t t',
  stype_parent st <> st -> merge_step st t = Some t' ->
  exists cf cn merged,
    sd_get (tf_feats t) st = Some cf /\ sd_get (tf_names t) st = Some cn /\
    match sd_get (tf_feats t) (stype_parent st) with
    | Some pf => feat_cat pf cf
    | None => Some cf
    end = Some merged /\
    tf_y t' = tf_y t /\
    (forall k, sd_get (tf_names t') k =
               if stype_eq_dec k st then None
               else if stype_eq_dec k (stype_parent st) then Some (dflt (sd_get (tf_names t) (stype_parent st)) ++ cn)
               else sd_get (tf_names t) k) /\
    (forall k, sd_get (tf_feats t') k =
               if stype_eq_dec k st then None
               else if stype_eq_dec k (stype_parent st) then Some merged
               else sd_get (tf_feats t) k).
Proof.
  intros st t t' Hp H. unfold merge_step in H. rewrite stype_eqb_neq in H by assumption.
  destruct (sd_get (tf_feats t) st) as [cf|] eqn:Ef; [|discriminate].
  destruct (sd_get (tf_names t) st) as [cn|] eqn:En; [|discriminate]. cbn [obind] in H.
  destruct (match sd_get (tf_feats t) (stype_parent st) with
            | Some pf => feat_cat pf cf | None => Some cf end) as [merged|] eqn:Em; [|discriminate].
  cbn [obind] in H. injection H as <-. exists cf, cn, merged. repeat split; try reflexivity; try exact Em.
  - intro k. cbn [tf_names]. destruct (stype_eq_dec k st) as [->|Hk].
    + apply sd_get_pop_same.
    + rewrite sd_get_pop_other by assumption. destruct (stype_eq_dec k (stype_parent st)) as [->|Hk'].
      * rewrite sd_get_set_same. unfold dflt. reflexivity.
      * apply sd_get_set_other. assumption.
  - intro k. cbn [tf_feats]. destruct (stype_eq_dec k st) as [->|Hk].
    + apply sd_get_pop_same.
    + rewrite sd_get_pop_other by assumption. destruct (stype_eq_dec k (stype_parent st)) as [->|Hk'].
      * apply sd_get_set_same.
      * apply sd_get_set_other. assumption.
Qed.

(* ------------------------------------------------------------------------- *)
(* unpacking a successful conversion *)
Lemma mapM_dict_get : forall {V W} (f : stype -> V -> option W) (d : sdict V) d',
  mapM (fun e => v <- f (fst e) (snd e) ;; Some (fst e, v)) d = Some d' ->
  forall k, match sd_get d k with
            | Some v => exists w, f k v = Some w /\ sd_get d' k = Some w
            | None => sd_get d' k = None
            end.
Proof.
  intros V W f. induction d as [|[k0 v0] d IH]; intros d' H k.
  - simpl in H. injection H as <-. reflexivity.
  - cbn [mapM fst snd] in H. destruct (f k0 v0) as [w0|] eqn:E0; [|discriminate]. cbn [obind] in H.
    destruct (mapM _ d) as [r|] eqn:Er; [|discriminate]. injection H as <-.
    cbn [sd_get]. destruct (stype_eqb k k0) eqn:Ek.
    + apply stype_eqb_eq in Ek. subst k0. exists w0. split; [exact E0 | reflexivity].
    + apply (IH r eq_refl k).
Qed.

Definition forward_group (enc : rawcol -> option encoded) (cols : list (name * rawcol)) (names : list name)
  : option (list encoded) := mapM (fun col => c <- get_col cols col ;; enc c) names.

Lemma convert_from_inv : forall enc target cols N t,
  convert_from enc target cols N = Some t ->
  exists feat_dict y,
    target_y enc cols target = Some y /\
    merge_feat (MkTF feat_dict N y) = Some t /\
    tf_validate (MkTF feat_dict N y) = Some (MkTF feat_dict N y) /\
    forall k, match sd_get N k with
              | Some names => exists xs f, forward_group enc cols names = Some xs /\ assemble k xs = Some f /\
                                           sd_get feat_dict k = Some f
              | None => sd_get feat_dict k = None
              end.
Proof.
  intros enc target cols N t H. unfold convert_from in H.
  destruct (mapM _ N) as [xs_dict|] eqn:E1; [|discriminate]. cbn [obind] in H.
  destruct (mapM _ xs_dict) as [feat_dict|] eqn:E2; [|discriminate]. cbn [obind] in H.
  fold (target_y enc cols target) in H.
  destruct (target_y enc cols target) as [y|] eqn:Ey; [|discriminate]. cbn [obind] in H.
  destruct (tf_validate _) as [t0|] eqn:Ev; [|discriminate]. cbn [obind] in H.
  assert (t0 = MkTF feat_dict N y).
  { unfold tf_validate in Ev. destruct (_ && _) in Ev; [|discriminate]. injection Ev as <-. reflexivity. }
  subst t0. exists feat_dict, y. repeat split; try assumption.
  intro k.
  pose proof (mapM_dict_get (fun _ names => forward_group enc cols names) _ _ E1 k) as G1.
  pose proof (mapM_dict_get (fun st xs => assemble st xs) _ _ E2 k) as G2.
  destruct (sd_get N k) as [names|].
  - destruct G1 as [xs [F1 S1]]. rewrite S1 in G2. destruct G2 as [f [F2 S2]]. exists xs, f. auto.
  - rewrite G1 in G2. exact G2.
Qed.

Lemma convert_with_inv : forall enc target cols t,
  convert_with enc target cols = Some t ->
  exists feat_dict y,
    target_y enc cols target = Some y /\
    merge_feat (MkTF feat_dict (init_names cols target) y) = Some t /\
    tf_validate (MkTF feat_dict (init_names cols target) y) = Some (MkTF feat_dict (init_names cols target) y) /\
    forall k, match sd_get (init_names cols target) k with
              | Some names => exists xs f, forward_group enc cols names = Some xs /\ assemble k xs = Some f /\
                                           sd_get feat_dict k = Some f
              | None => sd_get feat_dict k = None
              end.
Proof. intros enc target cols t H. exact (convert_from_inv _ _ _ _ _ H). Qed.

(* ------------------------------------------------------------------------- *)
(* the final schema *)
Ltac dec_simpl :=
  repeat match goal with
         | |- context [stype_eq_dec ?a ?b] => destruct (stype_eq_dec a b); try congruence; try discriminate
         | H : context [stype_eq_dec ?a ?b] |- _ => destruct (stype_eq_dec a b); try congruence; try discriminate
         end.

Lemma sd_mem_get : forall {V} (d : sdict V) k, sd_mem d k = true <-> exists v, sd_get d k = Some v.
Proof.
  intros V d k. unfold sd_mem. destruct (sd_get d k); split; intro H; try reflexivity; try discriminate; eauto.
  destruct H; discriminate.
Qed.

Lemma merge_feat_names : forall F N y t,
  (forall k, sd_get N k = None <-> sd_get F k = None) ->
  merge_feat (MkTF F N y) = Some t ->
  tf_y t = y /\
  sd_get (tf_names t) st_text_embedded = None /\
  sd_get (tf_names t) st_image_embedded = None /\
  sd_get (tf_names t) st_embedding = merged_embedding_names N /\
  (forall k, k <> st_embedding -> k <> st_text_embedded -> k <> st_image_embedded ->
             sd_get (tf_names t) k = sd_get N k).
Proof.
  intros F N y t Hk H. rewrite merge_feat_two_steps in H. cbn [tf_feats] in H. unfold merge_child in H.
  assert (Pt : stype_parent st_text_embedded <> st_text_embedded) by discriminate.
  assert (Pi : stype_parent st_image_embedded <> st_image_embedded) by discriminate.
  unfold merged_embedding_names.
  destruct (sd_mem F st_text_embedded) eqn:Bt; destruct (sd_mem F st_image_embedded) eqn:Bi.
  - (* both children present *)
    cbn [obind] in H. destruct (merge_step st_text_embedded _) as [t1|] eqn:S1; [|discriminate]. cbn [obind] in H.
    destruct (merge_step_child _ _ _ Pt S1) as (cf1 & cn1 & m1 & Ef1 & En1 & _ & Hy1 & Hn1 & _).
    destruct (merge_step_child _ _ _ Pi H) as (cf2 & cn2 & m2 & Ef2 & En2 & _ & Hy2 & Hn2 & _).
    cbn [tf_names tf_feats tf_y stype_parent] in *.
    rewrite Hn1 in En2; dec_simpl.
    repeat split.
    + congruence.
    + rewrite Hn2; dec_simpl; try (rewrite Hn1; dec_simpl); try reflexivity.
    + rewrite Hn2; dec_simpl; try reflexivity.
    + rewrite Hn2; dec_simpl; try (rewrite Hn1; dec_simpl); rewrite En1, En2; cbn [dflt];
      destruct (sd_get N st_embedding); cbn [dflt]; rewrite <- ?app_assoc; reflexivity.
    + intros k K1 K2 K3. rewrite Hn2; dec_simpl; try (rewrite Hn1; dec_simpl); try reflexivity.
  - (* text only *)
    cbn [obind] in H.
    destruct (merge_step_child _ _ _ Pt H) as (cf1 & cn1 & m1 & Ef1 & En1 & _ & Hy1 & Hn1 & _).
    cbn [tf_names tf_feats tf_y stype_parent] in *.
    assert (Ni : sd_get N st_image_embedded = None).
    { apply Hk. unfold sd_mem in Bi. destruct (sd_get F st_image_embedded); [discriminate | reflexivity]. }
    repeat split.
    + congruence.
    + rewrite Hn1; dec_simpl; try reflexivity.
    + rewrite Hn1; dec_simpl; try exact Ni.
    + rewrite Hn1; dec_simpl; rewrite En1, Ni; cbn [dflt]; rewrite app_nil_r;
      destruct (sd_get N st_embedding); reflexivity.
    + intros k K1 K2 K3. rewrite Hn1; dec_simpl; try reflexivity.
  - (* image only *)
    cbn [obind] in H.
    destruct (merge_step_child _ _ _ Pi H) as (cf2 & cn2 & m2 & Ef2 & En2 & _ & Hy2 & Hn2 & _).
    cbn [tf_names tf_feats tf_y stype_parent] in *.
    assert (Nt : sd_get N st_text_embedded = None).
    { apply Hk. unfold sd_mem in Bt. destruct (sd_get F st_text_embedded); [discriminate | reflexivity]. }
    repeat split.
    + congruence.
    + rewrite Hn2; dec_simpl; try exact Nt.
    + rewrite Hn2; dec_simpl; try reflexivity.
    + rewrite Hn2; dec_simpl; rewrite En2, Nt; cbn [dflt app];
      destruct (sd_get N st_embedding); reflexivity.
    + intros k K1 K2 K3. rewrite Hn2; dec_simpl; try reflexivity.
  - (* no children *)
    injection H as <-. cbn [tf_names tf_y].
    assert (Nt : sd_get N st_text_embedded = None).
    { apply Hk. unfold sd_mem in Bt. destruct (sd_get F st_text_embedded); [discriminate | reflexivity]. }
    assert (Ni : sd_get N st_image_embedded = None).
    { apply Hk. unfold sd_mem in Bi. destruct (sd_get F st_image_embedded); [discriminate | reflexivity]. }
    repeat split; try assumption.
    rewrite Nt, Ni. destruct (sd_get N st_embedding); cbn [dflt]; rewrite ?app_nil_r; reflexivity.
Qed.

(* ------------------------------------------------------------------------- *)
(* names and feature columns stay aligned: column j of a group holds the
   encoding of the DataFrame column called names[j] *)
Lemma assemble_cols : forall st xs fc, assemble st xs = Some (FCols fc) -> mapM as_col xs = Some fc.
Proof.
  intros st xs fc H. unfold assemble in H.
  destruct (use_multi_nested st).
  - destruct (mapM as_col xs); [injection H as <-; reflexivity | discriminate].
  - destruct (use_dict_nested st).
    + destruct xs as [|x0 xs]; [discriminate|]. destruct (as_dict x0); [|discriminate]. cbn [obind] in H.
      destruct (mapM _ _); discriminate.
    + destruct (use_multi_embedding st); (destruct (mapM as_col xs); [injection H as <-; reflexivity | discriminate]).
Qed.

Lemma forward_group_cols : forall enc cols names xs fc,
  forward_group enc cols names = Some xs -> mapM as_col xs = Some fc -> Forall2 (col_of enc cols) names fc.
Proof.
  intros enc cols names xs fc H1 H2. apply mapM_Forall2 in H1. apply mapM_Forall2 in H2.
  revert fc H2. induction H1 as [|nm x names xs Hx H1 IH]; intros fc H2.
  - inversion H2. constructor.
  - inversion H2 as [|? col ? fc' Hc H2']; subst. constructor; [|apply IH; exact H2'].
    destruct x as [cells|d]; [|discriminate]. injection Hc as <-.
    destruct (get_col cols nm) as [c|] eqn:G; [|discriminate]. exists c. split; [exact G | exact Hx].
Qed.

Lemma merge_step_aligned : forall enc cols st t t',
  stype_parent st <> st -> aligned enc cols t -> merge_step st t = Some t' -> aligned enc cols t'.
Proof.
  intros enc cols st t t' Hp A H.
  destruct (merge_step_child _ _ _ Hp H) as (cf & cn & merged & Ef & En & Em & _ & Hn & Hf).
  intro k. rewrite Hn, Hf. destruct (stype_eq_dec k st) as [->|Hk]; [exact I|].
  destruct (stype_eq_dec k (stype_parent st)) as [->|Hk']; [|apply A].
  pose proof (A st) as As. rewrite En, Ef in As.
  pose proof (A (stype_parent st)) as Ap.
  destruct (sd_get (tf_feats t) (stype_parent st)) as [pf|]; destruct (sd_get (tf_names t) (stype_parent st)) as [pn|];
    try contradiction; cbn [dflt].
  - destruct pf as [a|a]; destruct cf as [b|b]; simpl in Em; try discriminate.
    + injection Em as <-. apply Forall2_app; assumption.
    + destruct (mapM _ a); [injection Em as <-; exact I | discriminate].
  - injection Em as <-. simpl. destruct cf; [exact As | exact I].
Qed.

Lemma merge_feat_aligned : forall enc cols t t',
  aligned enc cols t -> merge_feat t = Some t' -> aligned enc cols t'.
Proof.
  intros enc cols t t' A H. rewrite merge_feat_two_steps in H. unfold merge_child in H.
  assert (Pt : stype_parent st_text_embedded <> st_text_embedded) by discriminate.
  assert (Pi : stype_parent st_image_embedded <> st_image_embedded) by discriminate.
  destruct (sd_mem (tf_feats t) st_text_embedded); destruct (sd_mem (tf_feats t) st_image_embedded); cbn [obind] in H.
  - destruct (merge_step st_text_embedded t) as [t1|] eqn:S1; [|discriminate]. cbn [obind] in H.
    eapply merge_step_aligned; [exact Pi | | exact H]. eapply merge_step_aligned; [exact Pt | exact A | exact S1].
  - eapply merge_step_aligned; [exact Pt | exact A | exact H].
  - eapply merge_step_aligned; [exact Pi | exact A | exact H].
  - injection H as <-. exact A.
Qed.

Lemma convert_initial_aligned : forall enc target cols feat_dict y,
  (forall k, match sd_get (init_names cols target) k with
             | Some names => exists xs f, forward_group enc cols names = Some xs /\ assemble k xs = Some f /\
                                          sd_get feat_dict k = Some f
             | None => sd_get feat_dict k = None
             end) ->
  aligned enc cols (MkTF feat_dict (init_names cols target) y).
Proof.
  intros enc target cols feat_dict y H k. specialize (H k). cbn [tf_names tf_feats].
  destruct (sd_get (init_names cols target) k) as [names|].
  - destruct H as (xs & f & H1 & H2 & H3). rewrite H3. destruct f as [fc|d]; [|exact I].
    eapply forward_group_cols; [exact H1 | eapply assemble_cols; exact H2].
  - rewrite H. exact I.
Qed.

Lemma convert_aligned : forall enc target cols t,
  convert_with enc target cols = Some t -> aligned enc cols t.
Proof.
  intros enc target cols t H. destruct (convert_with_inv _ _ _ _ H) as (F & y & _ & Hm & _ & Hk).
  eapply merge_feat_aligned; [|exact Hm]. apply convert_initial_aligned. exact Hk.
Qed.

Lemma keys_agree : forall enc target cols feat_dict,
  (forall k, match sd_get (init_names cols target) k with
             | Some names => exists xs f, forward_group enc cols names = Some xs /\ assemble k xs = Some f /\
                                          sd_get feat_dict k = Some f
             | None => sd_get feat_dict k = None
             end) ->
  forall k, sd_get (init_names cols target) k = None <-> sd_get feat_dict k = None.
Proof.
  intros enc target cols F H k. specialize (H k). destruct (sd_get (init_names cols target) k).
  - destruct H as (xs & f & _ & _ & H3). rewrite H3. split; discriminate.
  - rewrite H. tauto.
Qed.

(* the schema of a converted frame *)
Lemma convert_schema : forall enc target cols t,
  convert_with enc target cols = Some t ->
  let N := init_names cols target in
  sd_get (tf_names t) st_text_embedded = None /\
  sd_get (tf_names t) st_image_embedded = None /\
  sd_get (tf_names t) st_embedding = merged_embedding_names N /\
  (forall k, k <> st_embedding -> k <> st_text_embedded -> k <> st_image_embedded ->
             sd_get (tf_names t) k = sd_get N k) /\
  target_y enc cols target = Some (tf_y t).
Proof.
  intros enc target cols t H N. destruct (convert_with_inv _ _ _ _ H) as (F & y & Hy & Hm & _ & Hk).
  destruct (merge_feat_names F _ y t (keys_agree _ _ _ _ Hk) Hm) as (Y & A & B & C & D).
  repeat split; try assumption. rewrite Y. exact Hy.
Qed.

(* ------------------------------------------------------------------------- *)
(* C01 inside the converter: an encoded column is canonical cell by cell *)
Lemma ser_values_combine_eq : forall {L C} (idx : list L) (cells : list C),
  length idx = length cells -> ser_values (combine idx cells) = cells.
Proof. intros. rewrite ser_values_combine, H. apply firstn_all. Qed.

Lemma combine_nil_iff : forall {L C} (idx : list L) (cells : list C),
  length idx = length cells -> cells <> [] -> combine idx cells <> [].
Proof. intros L C idx cells H Hne. destruct idx, cells; simpl in *; congruence. Qed.

Lemma encode_col_canonical : forall {L} (leqb : L -> L -> bool) (idx : list L) c col,
  leqb_refl leqb ->
  length idx = rawcol_len c -> rawcol_ok c -> encode_col leqb idx c = Some (ECol col) -> canonical_col c col.
Proof.
  intros L leqb idx c col Hr Hl Hok H. destruct c; simpl in *.
  - injection H as <-. rewrite numerical_faithful, ser_values_combine_eq by assumption. reflexivity.
  - injection H as <-. rewrite categorical_faithful, ser_values_combine_eq by assumption. reflexivity.
  - destruct Hok as (-> & ND & Hm & Ht).
    destruct (multicategorical_encode true cats sep (combine idx cells)) as [enc|] eqn:E; [|discriminate].
    injection H as <-.
    destruct (mapM (canon_multi cats sep) cells) as [canon|] eqn:M.
    + assert (M' : mapM (canon_multi cats sep) (ser_values (combine idx cells)) = Some canon)
        by (rewrite ser_values_combine_eq by assumption; exact M).
      assert (Ht' : Forall (tokens_ok sep) (ser_values (combine idx cells)))
        by (rewrite ser_values_combine_eq by assumption; exact Ht).
      destruct (multicategorical_faithful_sorted cats sep _ canon ND Hm Ht' M') as [enc' [E' S]].
      rewrite E in E'. injection E' as <-. rewrite S. reflexivity.
    + rewrite multicategorical_raises in E; [discriminate|]. rewrite ser_values_combine_eq by assumption. exact M.
  - destruct (sequence_encode leqb (combine idx cells)) as [enc|] eqn:E; [|discriminate]. injection H as <-.
    destruct (mapM canon_seq cells) as [canon|] eqn:M.
    + rewrite (sequence_faithful leqb (combine idx cells) canon Hr) in E
        by (rewrite ser_values_combine_eq by assumption; exact M). congruence.
    + rewrite sequence_raises in E; [discriminate|]. rewrite ser_values_combine_eq by assumption. exact M.
  - injection H as <-. rewrite timestamp_faithful, ser_values_combine_eq by assumption. reflexivity.
  - destruct Hok as [w Hw]. destruct (embedding_encode (combine idx cells)) as [enc|] eqn:E; [|discriminate].
    injection H as <-. destruct cells as [|v0 cells'].
    + destruct idx; discriminate.
    + rewrite (embedding_faithful (combine idx (v0 :: cells')) w) in E.
      * rewrite ser_values_combine_eq in E by assumption. congruence.
      * apply combine_nil_iff; [assumption | discriminate].
      * rewrite ser_values_combine_eq by assumption. exact Hw.
  - destruct Hok as [w Hw]. destruct (embedded_encode (combine idx rows)) as [enc|] eqn:E; [|discriminate].
    injection H as <-. destruct rows as [|v0 rows'].
    + destruct idx; discriminate.
    + rewrite (embedded_faithful (combine idx (v0 :: rows')) w) in E.
      * rewrite ser_values_combine_eq in E by assumption. congruence.
      * apply combine_nil_iff; [assumption | discriminate].
      * rewrite ser_values_combine_eq by assumption. exact Hw.
  - destruct Hok as [w Hw]. destruct (embedded_encode (combine idx rows)) as [enc|] eqn:E; [|discriminate].
    injection H as <-. destruct rows as [|v0 rows'].
    + destruct idx; discriminate.
    + rewrite (embedded_faithful (combine idx (v0 :: rows')) w) in E.
      * rewrite ser_values_combine_eq in E by assumption. congruence.
      * apply combine_nil_iff; [assumption | discriminate].
      * rewrite ser_values_combine_eq by assumption. exact Hw.
  - destruct (tokenized_forward (combine idx outs)); discriminate.
Qed.

Lemma canonical_col_length : forall c col, rawcol_stype c <> st_text_tokenized -> canonical_col c col -> length col = rawcol_len c.
Proof.
  intros c col Hs H. destruct c; simpl in *; try (subst; apply map_length).
  - apply mapM_length' in H. rewrite map_length in H. exact H.
  - apply mapM_length' in H. exact H.
  - congruence.
Qed.

(* ------------------------------------------------------------------------- *)
(* column order *)
Lemma get_col_In : forall cols nm c, NoDup (map fst cols) -> (get_col cols nm = Some c <-> In (nm, c) cols).
Proof.
  induction cols as [|[n0 c0] cols IH]; intros nm c ND; simpl.
  - split; [discriminate | intros []].
  - inversion ND as [|? ? Hnot ND']; subst. destruct (str_eqb nm n0) eqn:E.
    + apply str_eqb_eq in E. subst n0. split.
      * intro H. injection H as <-. left. reflexivity.
      * intros [H|H]; [injection H as <-; reflexivity|]. exfalso. apply Hnot. apply in_map_iff. exists (nm, c). auto.
    + rewrite IH by assumption. split; [auto|]. intros [H|H]; [|exact H].
      injection H as H1 H2. subst. rewrite (proj2 (str_eqb_eq _ _) eq_refl) in E. discriminate.
Qed.

Lemma get_col_perm : forall cols cols' nm,
  NoDup (map fst cols) -> Permutation cols cols' -> get_col cols nm = get_col cols' nm.
Proof.
  intros cols cols' nm ND P.
  assert (ND' : NoDup (map fst cols')) by (eapply Permutation_NoDup; [apply Permutation_map; exact P | exact ND]).
  destruct (get_col cols nm) as [c|] eqn:E.
  - symmetry. apply get_col_In; [exact ND'|]. eapply Permutation_in; [exact P|]. apply get_col_In; assumption.
  - destruct (get_col cols' nm) as [c'|] eqn:E'; [|reflexivity].
    apply get_col_In in E'; [|exact ND']. apply (Permutation_in _ (Permutation_sym P)) in E'.
    apply get_col_In in E'; [|exact ND]. congruence.
Qed.

Lemma init_names_perm : forall cols cols' target k,
  Permutation cols cols' -> sd_get (init_names cols target) k = sd_get (init_names cols' target) k.
Proof. intros. unfold init_names, col_to_stype_of. apply init_get_perm. apply Permutation_map. assumption. Qed.

Lemma forward_group_perm : forall enc cols cols' names,
  NoDup (map fst cols) -> Permutation cols cols' -> forward_group enc cols names = forward_group enc cols' names.
Proof.
  intros. unfold forward_group. apply mapM_ext_in. intros col _. rewrite (get_col_perm cols cols') by assumption. reflexivity.
Qed.

Lemma merge_step_lookup_ext : forall st t1 t2 t1' t2',
  stype_parent st <> st ->
  (forall k, sd_get (tf_names t1) k = sd_get (tf_names t2) k) ->
  (forall k, sd_get (tf_feats t1) k = sd_get (tf_feats t2) k) ->
  merge_step st t1 = Some t1' -> merge_step st t2 = Some t2' ->
  (forall k, sd_get (tf_names t1') k = sd_get (tf_names t2') k) /\
  (forall k, sd_get (tf_feats t1') k = sd_get (tf_feats t2') k).
Proof.
  intros st t1 t2 t1' t2' Hp Hn Hf S1 S2.
  destruct (merge_step_child _ _ _ Hp S1) as (cf1 & cn1 & m1 & Ef1 & En1 & Em1 & _ & Hn1 & Hf1).
  destruct (merge_step_child _ _ _ Hp S2) as (cf2 & cn2 & m2 & Ef2 & En2 & Em2 & _ & Hn2 & Hf2).
  rewrite Hf in Ef1. rewrite Hn in En1. rewrite Hf in Em1.
  assert (cf1 = cf2) by congruence. assert (cn1 = cn2) by congruence. subst.
  assert (m1 = m2) by congruence. subst.
  split; intro k.
  - rewrite Hn1, Hn2, !Hn. reflexivity.
  - rewrite Hf1, Hf2, !Hf. reflexivity.
Qed.

Lemma sd_mem_ext : forall {V} (d d' : sdict V) k, sd_get d k = sd_get d' k -> sd_mem d k = sd_mem d' k.
Proof. intros. unfold sd_mem. rewrite H. reflexivity. Qed.

Lemma merge_feat_lookup_ext : forall t1 t2 t1' t2',
  (forall k, sd_get (tf_names t1) k = sd_get (tf_names t2) k) ->
  (forall k, sd_get (tf_feats t1) k = sd_get (tf_feats t2) k) ->
  merge_feat t1 = Some t1' -> merge_feat t2 = Some t2' ->
  (forall k, sd_get (tf_names t1') k = sd_get (tf_names t2') k) /\
  (forall k, sd_get (tf_feats t1') k = sd_get (tf_feats t2') k).
Proof.
  intros t1 t2 t1' t2' Hn Hf M1 M2. rewrite merge_feat_two_steps in M1, M2. unfold merge_child in *.
  rewrite <- (sd_mem_ext _ _ _ (Hf st_text_embedded)), <- (sd_mem_ext _ _ _ (Hf st_image_embedded)) in M2.
  assert (Pt : stype_parent st_text_embedded <> st_text_embedded) by discriminate.
  assert (Pi : stype_parent st_image_embedded <> st_image_embedded) by discriminate.
  destruct (sd_mem (tf_feats t1) st_text_embedded); destruct (sd_mem (tf_feats t1) st_image_embedded);
    cbn [obind] in M1, M2.
  - destruct (merge_step st_text_embedded t1) as [u1|] eqn:U1; [|discriminate].
    destruct (merge_step st_text_embedded t2) as [u2|] eqn:U2; [|discriminate]. cbn [obind] in M1, M2.
    destruct (merge_step_lookup_ext _ _ _ _ _ Pt Hn Hf U1 U2) as [Hn' Hf'].
    exact (merge_step_lookup_ext _ _ _ _ _ Pi Hn' Hf' M1 M2).
  - exact (merge_step_lookup_ext _ _ _ _ _ Pt Hn Hf M1 M2).
  - exact (merge_step_lookup_ext _ _ _ _ _ Pi Hn Hf M1 M2).
  - injection M1 as <-. injection M2 as <-. split; assumption.
Qed.

Lemma convert_column_perm : forall enc target cols cols' t t',
  NoDup (map fst cols) -> Permutation cols cols' ->
  convert_with enc target cols = Some t -> convert_with enc target cols' = Some t' -> tf_equiv t t'.
Proof.
  intros enc target cols cols' t t' ND P H H'.
  destruct (convert_with_inv _ _ _ _ H) as (F & y & Hy & Hm & _ & Hk).
  destruct (convert_with_inv _ _ _ _ H') as (F' & y' & Hy' & Hm' & _ & Hk').
  assert (Y : y = y').
  { unfold target_y in Hy, Hy'. destruct target as [tg|]; [|congruence].
    rewrite <- (get_col_perm cols cols' tg ND P) in Hy'. congruence. }
  assert (HF : forall k, sd_get F k = sd_get F' k).
  { intro k. specialize (Hk k). specialize (Hk' k). rewrite <- (init_names_perm cols cols' target k P) in Hk'.
    destruct (sd_get (init_names cols target) k) as [names|].
    - destruct Hk as (xs & f & A1 & A2 & A3). destruct Hk' as (xs' & f' & B1 & B2 & B3).
      rewrite <- (forward_group_perm enc cols cols' names ND P) in B1. congruence.
    - congruence. }
  destruct (merge_feat_lookup_ext (MkTF F (init_names cols target) y) (MkTF F' (init_names cols' target) y') t t'
              (fun k => init_names_perm cols cols' target k P) HF Hm Hm') as [A B].
  destruct (merge_feat_names F _ y t (keys_agree _ _ _ _ Hk) Hm) as (Yt & _).
  destruct (merge_feat_names F' _ y' t' (keys_agree _ _ _ _ Hk') Hm') as (Yt' & _).
  repeat split; [congruence | exact A | exact B].
Qed.

(* ------------------------------------------------------------------------- *)
(* task type and class count *)
Lemma NoDup_same_members_length : forall (l1 l2 : list pval),
  NoDup l1 -> NoDup l2 -> (forall v, In v l1 <-> In v l2) -> length l1 = length l2.
Proof. intros l1 l2 N1 N2 H. apply Permutation_length. apply NoDup_Permutation; assumption. Qed.

Lemma task_type_table : forall target,
  task_type_of target =
  match target with
  | RNum _ => Some task_REGRESSION
  | RCat cats _ =>
      if length cats <? 2 then None
      else if length cats =? 2 then Some task_BINARY_CLASSIFICATION else Some task_MULTICLASS_CLASSIFICATION
  | _ => None
  end.
Proof.
  intros [cells|cats cells|? ? ?|?|?|?|?|?|?]; try reflexivity.
  unfold task_type_of, num_classes. cbn [rawcol_stype].
  destruct (length cats) as [|[|[|n]]]; reflexivity.
Qed.

Lemma num_classes_distinct : forall cats cells distinct,
  lists_distinct_values cats cells -> lists_distinct_values distinct cells ->
  2 <= length distinct -> num_classes (RCat cats cells) = Some (length distinct).
Proof.
  intros cats cells distinct [N1 M1] [N2 M2] H.
  assert (E : length cats = length distinct).
  { apply NoDup_same_members_length; try assumption. intro v. rewrite M1, M2. tauto. }
  unfold num_classes. rewrite E. destruct (1 <? length distinct) eqn:B; [reflexivity|].
  apply Nat.ltb_ge in B. lia.
Qed.

(* ------------------------------------------------------------------------- *)
(* grouping, target exclusion, completeness, row count *)
Lemma dflt_In_init : forall cts target st nm,
  In nm (dflt (sd_get (col_names_dict_init cts target) st)) <-> In (nm, st) cts /\ is_target target nm = false.
Proof.
  intros cts target st nm. destruct (sd_get (col_names_dict_init cts target) st) as [l|] eqn:E; cbn [dflt].
  - apply init_names_members. exact E.
  - split; [intros []|]. intros [Hin Ht]. rewrite init_get in E.
    assert (G : In nm (group_of cts target st)).
    { unfold group_of. apply in_map_iff. exists (nm, st). split; [reflexivity|]. apply filter_In. split; [exact Hin|].
      simpl. rewrite Ht, stype_eqb_refl. reflexivity. }
    destruct (group_of cts target st); [destruct G | discriminate].
Qed.

Lemma merged_embedding_In : forall N nm l, merged_embedding_names N = Some l ->
  (In nm l <-> In nm (dflt (sd_get N st_embedding)) \/ In nm (dflt (sd_get N st_text_embedded)) \/
               In nm (dflt (sd_get N st_image_embedded))).
Proof.
  intros N nm l H. unfold merged_embedding_names in H.
  destruct (sd_get N st_embedding), (sd_get N st_text_embedded), (sd_get N st_image_embedded);
    try discriminate; injection H as <-; cbn [dflt]; rewrite ?in_app_iff; cbn [In]; tauto.
Qed.

Lemma merged_embedding_None : forall N, merged_embedding_names N = None ->
  sd_get N st_embedding = None /\ sd_get N st_text_embedded = None /\ sd_get N st_image_embedded = None.
Proof.
  intros N H. unfold merged_embedding_names in H.
  destruct (sd_get N st_embedding), (sd_get N st_text_embedded), (sd_get N st_image_embedded); try discriminate; auto.
Qed.

(* a name is listed under group k iff it is a non-target column whose stype has parent k *)
Lemma convert_names_grouped : forall enc target cols t k nm,
  convert_with enc target cols = Some t ->
  (In nm (dflt (sd_get (tf_names t) k)) <->
   exists st, In (nm, st) (col_to_stype_of cols) /\ is_target target nm = false /\ stype_parent st = k).
Proof.
  intros enc target cols t k nm H.
  destruct (convert_schema _ _ _ _ H) as (Ht & Hi & He & Ho & _). unfold init_names in *.
  destruct (stype_eq_dec k st_text_embedded) as [->|K1].
  { rewrite Ht. cbn [dflt]. split; [intros []|]. intros [st (_ & _ & P)]. destruct st; discriminate. }
  destruct (stype_eq_dec k st_image_embedded) as [->|K2].
  { rewrite Hi. cbn [dflt]. split; [intros []|]. intros [st (_ & _ & P)]. destruct st; discriminate. }
  destruct (stype_eq_dec k st_embedding) as [->|K3].
  { rewrite He. destruct (merged_embedding_names _) as [l|] eqn:M; cbn [dflt].
    + rewrite (merged_embedding_In _ nm l M), !dflt_In_init. split.
      * intros [[A B]|[[A B]|[A B]]]; eexists; (split; [exact A | split; [exact B | reflexivity]]).
      * intros [st (A & B & P)]. destruct st; try discriminate; tauto.
    + apply merged_embedding_None in M. destruct M as (M1 & M2 & M3). split; [intros []|].
      intros [st (A & B & P)].
      assert (X : In nm (dflt (sd_get (col_names_dict_init (col_to_stype_of cols) target) st)))
        by (apply dflt_In_init; auto).
      destruct st; try discriminate; rewrite ?M1, ?M2, ?M3 in X; exact X. }
  rewrite Ho by assumption. rewrite dflt_In_init. split.
  + intros [A B]. exists k. repeat split; try assumption. destruct k; try reflexivity; congruence.
  + intros [st (A & B & P)]. assert (E : st = k) by (destruct st; simpl in P; congruence). rewrite <- E. auto.
Qed.

(* within a group the names are sorted; the embedding group is three sorted runs *)
Lemma convert_names_sorted : forall enc target cols t k l,
  convert_with enc target cols = Some t -> k <> st_embedding -> sd_get (tf_names t) k = Some l ->
  StronglySorted name_le l.
Proof.
  intros enc target cols t k l H K E. destruct (convert_schema _ _ _ _ H) as (Ht & Hi & _ & Ho & _).
  destruct (stype_eq_dec k st_text_embedded) as [->|K1]; [congruence|].
  destruct (stype_eq_dec k st_image_embedded) as [->|K2]; [congruence|].
  rewrite Ho in E by assumption. eapply init_names_sorted. exact E.
Qed.

Lemma convert_embedding_runs : forall enc target cols t l,
  convert_with enc target cols = Some t -> sd_get (tf_names t) st_embedding = Some l ->
  exists e te ie, l = e ++ te ++ ie /\ StronglySorted name_le e /\ StronglySorted name_le te /\ StronglySorted name_le ie /\
    e = dflt (sd_get (init_names cols target) st_embedding) /\
    te = dflt (sd_get (init_names cols target) st_text_embedded) /\
    ie = dflt (sd_get (init_names cols target) st_image_embedded).
Proof.
  intros enc target cols t l H E. destruct (convert_schema _ _ _ _ H) as (_ & _ & He & _ & _).
  rewrite He in E. unfold merged_embedding_names in E.
  assert (S : forall st, StronglySorted name_le (dflt (sd_get (init_names cols target) st))).
  { intro st. destruct (sd_get (init_names cols target) st) eqn:G; cbn [dflt]; [|constructor].
    eapply init_names_sorted. exact G. }
  exists (dflt (sd_get (init_names cols target) st_embedding)),
         (dflt (sd_get (init_names cols target) st_text_embedded)),
         (dflt (sd_get (init_names cols target) st_image_embedded)).
  repeat split; try apply S.
  destruct (sd_get (init_names cols target) st_embedding), (sd_get (init_names cols target) st_text_embedded),
    (sd_get (init_names cols target) st_image_embedded); try discriminate; injection E as <-; reflexivity.
Qed.

Lemma Forall2_impl' : forall {A B} (P Q : A -> B -> Prop) l1 l2,
  (forall a b, P a b -> Q a b) -> Forall2 P l1 l2 -> Forall2 Q l1 l2.
Proof. intros A B P Q l1 l2 H F. induction F; constructor; auto. Qed.

Lemma get_col_member : forall cols nm c, get_col cols nm = Some c -> In (nm, c) cols.
Proof.
  induction cols as [|[n0 c0] cols IH]; intros nm c H; simpl in *; [discriminate|].
  destruct (str_eqb nm n0) eqn:E.
  - apply str_eqb_eq in E. injection H as <-. subst. left. reflexivity.
  - right. apply IH. exact H.
Qed.

(* every cell of the frame is the canonical encoding of the cell in the same
   row of the column with that name; in particular every column has len(df) rows *)
Lemma convert_positional : forall {L} (leqb : L -> L -> bool) target (df : frame L) t k names fc,
  leqb_refl leqb -> frame_wf df -> convert leqb target df = Some t ->
  sd_get (tf_names t) k = Some names -> sd_get (tf_feats t) k = Some (FCols fc) ->
  Forall2 (fun nm col => exists c, get_col (f_cols df) nm = Some c /\ canonical_col c col /\
                                   length col = length (f_index df)) names fc.
Proof.
  intros L leqb target df t k names fc Hr W H En Ef. unfold convert in H.
  pose proof (convert_aligned _ _ _ _ H k) as A. rewrite En, Ef in A.
  eapply Forall2_impl'; [|exact A]. intros nm col [c [G E]]. exists c. split; [exact G|].
  unfold frame_wf in W. rewrite Forall_forall in W. destruct (W (nm, c) (get_col_member _ _ _ G)) as [Wl Wo].
  cbn [snd] in *.
  assert (C : canonical_col c col) by (eapply encode_col_canonical; [exact Hr | symmetry; exact Wl | exact Wo | exact E]).
  split; [exact C|]. rewrite <- Wl. apply canonical_col_length; [|exact C].
  intro S. destruct c; try discriminate. simpl in E. destruct (tokenized_forward _); discriminate.
Qed.

Lemma convert_target : forall {L} (leqb : L -> L -> bool) target (df : frame L) t tg c,
  convert leqb target df = Some t -> target = Some tg -> get_col (f_cols df) tg = Some c ->
  exists y, tf_y t = Some y /\ encode_col leqb (f_index df) c = Some y.
Proof.
  intros L leqb target df t tg c H -> G. unfold convert in H.
  destruct (convert_schema _ _ _ _ H) as (_ & _ & _ & _ & Y). unfold target_y in Y. rewrite G in Y.
  destruct (encode_col leqb (f_index df) c) as [y|]; [|discriminate]. injection Y as Y. exists y. auto.
Qed.

Lemma convert_no_target : forall {L} (leqb : L -> L -> bool) (df : frame L) t,
  convert leqb None df = Some t -> tf_y t = None.
Proof.
  intros L leqb df t H. unfold convert in H. destruct (convert_schema _ _ _ _ H) as (_ & _ & _ & _ & Y).
  simpl in Y. congruence.
Qed.

(* ------------------------------------------------------------------------- *)
(* the converter as an object with state: later calls *)
Lemma initial_aligned_gen : forall enc cols N feat_dict y,
  (forall k, match sd_get N k with
             | Some names => exists xs f, forward_group enc cols names = Some xs /\ assemble k xs = Some f /\
                                          sd_get feat_dict k = Some f
             | None => sd_get feat_dict k = None
             end) ->
  aligned enc cols (MkTF feat_dict N y).
Proof.
  intros enc cols N feat_dict y H k. specialize (H k). cbn [tf_names tf_feats].
  destruct (sd_get N k) as [names|].
  - destruct H as (xs & f & H1 & H2 & H3). rewrite H3. destruct f as [fc|d]; [|exact I].
    eapply forward_group_cols; [exact H1 | eapply assemble_cols; exact H2].
  - rewrite H. exact I.
Qed.

Lemma keys_agree_gen : forall enc cols N feat_dict,
  (forall k, match sd_get N k with
             | Some names => exists xs f, forward_group enc cols names = Some xs /\ assemble k xs = Some f /\
                                          sd_get feat_dict k = Some f
             | None => sd_get feat_dict k = None
             end) ->
  forall k, sd_get N k = None <-> sd_get feat_dict k = None.
Proof.
  intros enc cols N F H k. specialize (H k). destruct (sd_get N k).
  - destruct H as (xs & f & _ & _ & H3). rewrite H3. split; discriminate.
  - rewrite H. tauto.
Qed.

Lemma convert_from_aligned : forall enc target cols N t,
  convert_from enc target cols N = Some t -> aligned enc cols t.
Proof.
  intros enc target cols N t H. destruct (convert_from_inv _ _ _ _ _ H) as (F & y & _ & Hm & _ & Hk).
  eapply merge_feat_aligned; [|exact Hm]. apply initial_aligned_gen. exact Hk.
Qed.

(* a call from a state without child groups returns that state unchanged as its names *)
Lemma convert_from_merged_state : forall enc target cols N t,
  sd_get N st_text_embedded = None -> sd_get N st_image_embedded = None ->
  convert_from enc target cols N = Some t ->
  tf_names t = N /\ target_y enc cols target = Some (tf_y t).
Proof.
  intros enc target cols N t Ht Hi H. destruct (convert_from_inv _ _ _ _ _ H) as (F & y & Hy & Hm & _ & Hk).
  pose proof (keys_agree_gen _ _ _ _ Hk) as KA.
  rewrite merge_feat_two_steps in Hm. cbn [tf_feats] in Hm. unfold merge_child, sd_mem in Hm.
  rewrite (proj1 (KA st_text_embedded) Ht), (proj1 (KA st_image_embedded) Hi) in Hm.
  injection Hm as <-. split; [reflexivity | exact Hy].
Qed.

Lemma col_of_functional : forall enc cols nm c1 c2, col_of enc cols nm c1 -> col_of enc cols nm c2 -> c1 = c2.
Proof. intros enc cols nm c1 c2 [a [G1 E1]] [b [G2 E2]]. congruence. Qed.

Lemma Forall2_functional : forall {A B} (R : A -> B -> Prop) l r1 r2,
  (forall a b1 b2, R a b1 -> R a b2 -> b1 = b2) -> Forall2 R l r1 -> Forall2 R l r2 -> r1 = r2.
Proof.
  intros A B R l r1 r2 F H1. revert r2. induction H1 as [|a b l r1 Hab H1 IH]; intros r2 H2; inversion H2; subst.
  - reflexivity.
  - f_equal; [eapply F; eassumption | apply IH; assumption].
Qed.

(* the second call: same names (exactly, in the same order), same y, and the same data in every group of columns *)
Lemma second_call_equal : forall enc target cols t t',
  convert_with enc target cols = Some t ->
  convert_from enc target cols (tf_names t) = Some t' ->
  tf_names t' = tf_names t /\ tf_y t' = tf_y t /\
  forall k fc fc', sd_get (tf_feats t) k = Some (FCols fc) -> sd_get (tf_feats t') k = Some (FCols fc') -> fc = fc'.
Proof.
  intros enc target cols t t' H H'.
  destruct (convert_schema _ _ _ _ H) as (Ht & Hi & _ & _ & Hy).
  destruct (convert_from_merged_state _ _ _ _ _ Ht Hi H') as [Hn Hy'].
  split; [exact Hn|]. split; [congruence|].
  intros k fc fc' E E'.
  pose proof (convert_aligned _ _ _ _ H k) as A. pose proof (convert_from_aligned _ _ _ _ _ H' k) as A'.
  rewrite Hn in A'. rewrite E in A. rewrite E' in A'.
  destruct (sd_get (tf_names t) k) as [names|]; [|contradiction].
  eapply Forall2_functional; [apply col_of_functional | exact A | exact A'].
Qed.

(* after the first call the converter's state is a fixed point: every later call starts from, and leaves, the same
   dict, so all later calls return literally the same frame *)
Lemma later_calls_identical : forall enc target cols t k frames,
  convert_with enc target cols = Some t ->
  converter_calls enc target cols k (tf_names t) = Some frames ->
  forall t', In t' frames -> convert_from enc target cols (tf_names t) = Some t' /\ tf_names t' = tf_names t.
Proof.
  intros enc target cols t k. induction k as [|k IH]; intros frames H Hc t' Hin.
  - simpl in Hc. injection Hc as <-. destruct Hin.
  - cbn [converter_calls] in Hc. unfold converter_call in Hc.
    destruct (convert_from enc target cols (tf_names t)) as [t1|] eqn:E1; [|discriminate]. cbn [obind fst snd] in Hc.
    destruct (second_call_equal _ _ _ _ _ H E1) as [Hn _]. rewrite Hn in Hc.
    destruct (converter_calls enc target cols k (tf_names t)) as [rest|] eqn:Er; [|discriminate].
    injection Hc as <-. destruct Hin as [<-|Hin]; [split; [reflexivity | exact Hn]|].
    exact (IH rest H eq_refl t' Hin).
Qed.
