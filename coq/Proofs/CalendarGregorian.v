(* Lib/Calendar.v IS the proleptic Gregorian calendar, for every day number
   z : Z: day 0 is 1970-01-01, a Thursday; every day is a valid date; day z+1
   is the date after day z and the weekday after its weekday.  These four facts
   determine civil_of_days and weekday_of_days on all of Z.
   Method: exhaustive vm_compute sweep over the 146 097 days of one era (finite
   domain) + era periodicity (linear arithmetic). *)
From Coq Require Import ZArith Lia Bool.
From PF Require Import Lib.Calendar Lib.CalendarSpec Proofs.CalendarFacts.
Open Scope Z_scope.

(* the date of day-of-era doe, with the year counted inside the era *)
Definition civil_in_era (doe : Z) : Z * Z * Z :=
  let m := month_of_doe doe in
  (yoe_of_doe doe + (if m <=? 2 then 1 else 0), m, day_of_doe doe).

Definition shift_years (k : Z) (ymd : Z * Z * Z) : Z * Z * Z := let '(y, m, d) := ymd in (y + k, m, d).

Lemma civil_of_days_in_era : forall z,
  civil_of_days z =
  shift_years (((z + epoch_shift) / days_per_era) * 400) (civil_in_era ((z + epoch_shift) mod days_per_era)).
Proof.
  intro z. unfold civil_of_days, civil_in_era, shift_years. cbv zeta.
  destruct (month_of_doe ((z + epoch_shift) mod days_per_era) <=? 2); f_equal; f_equal; lia.
Qed.

Definition triple_eqb (a b : Z * Z * Z) : bool :=
  let '(a1, a2, a3) := a in let '(b1, b2, b3) := b in (a1 =? b1) && (a2 =? b2) && (a3 =? b3).

Lemma triple_eqb_eq : forall a b, triple_eqb a b = true -> a = b.
Proof.
  intros [[a1 a2] a3] [[b1 b2] b3] H. simpl in H.
  apply andb_prop in H. destruct H as [H H3]. apply andb_prop in H. destruct H as [H1 H2].
  apply Z.eqb_eq in H1, H2, H3. subst. reflexivity.
Qed.

Definition valid_dateb (ymd : Z * Z * Z) : bool :=
  let '(y, m, d) := ymd in (1 <=? m) && (m <=? 12) && (1 <=? d) && (d <=? days_in_month y m).

Definition greg_check (doe : Z) : bool :=
  let a := civil_in_era doe in
  let b := if doe + 1 <? days_per_era then civil_in_era (doe + 1) else shift_years 400 (civil_in_era 0) in
  valid_dateb a && triple_eqb b (next_date a).

Fixpoint gsweep (fuel : nat) (z : Z) : bool :=
  match fuel with
  | O => true
  | S f => greg_check z && gsweep f (z + 1)
  end.

Lemma gsweep_sound : forall fuel z, gsweep fuel z = true ->
  forall k, z <= k < z + Z.of_nat fuel -> greg_check k = true.
Proof.
  induction fuel as [|f IH]; intros z H k Hk.
  - simpl in Hk. lia.
  - simpl in H. apply andb_prop in H. destruct H as [H0 H1].
    destruct (Z.eq_dec k z) as [->|Hne]; [exact H0|]. apply (IH (z + 1) H1). lia.
Qed.

(* the finite-domain fact: every day of one era *)
Lemma greg_sweep : gsweep (Z.to_nat days_per_era) 0 = true.
Proof. vm_cast_no_check (eq_refl true). Qed.

Lemma greg_check_all : forall doe, 0 <= doe < days_per_era -> greg_check doe = true.
Proof.
  intros doe H. apply (gsweep_sound _ _ greg_sweep). rewrite Z2Nat.id by (unfold days_per_era; lia). lia.
Qed.

(* leap years and hence "the day after" do not see a shift by whole eras *)
Lemma is_leap_shift : forall y k, is_leap (y + k * 400) = is_leap y.
Proof.
  intros y k. unfold is_leap.
  replace (y + k * 400) with (y + (k * 100) * 4) at 1 by lia. rewrite Z.mod_add by lia.
  replace (y + k * 400) with (y + (k * 4) * 100) at 1 by lia. rewrite Z.mod_add by lia.
  rewrite Z.mod_add by lia. reflexivity.
Qed.

Lemma days_in_month_shift : forall y m k, days_in_month (y + k * 400) m = days_in_month y m.
Proof. intros. unfold days_in_month. rewrite is_leap_shift. reflexivity. Qed.

Lemma next_date_shift : forall k a, next_date (shift_years (k * 400) a) = shift_years (k * 400) (next_date a).
Proof.
  intros k [[y m] d]. unfold next_date, shift_years. rewrite days_in_month_shift.
  destruct (d <? days_in_month y m); [reflexivity|]. destruct (m <? 12); [reflexivity|]. f_equal. f_equal. lia.
Qed.

Lemma valid_date_shift : forall k a, valid_dateb a = true -> valid_date (shift_years (k * 400) a).
Proof.
  intros k [[y m] d] H. unfold valid_dateb in H. unfold valid_date, shift_years. rewrite days_in_month_shift.
  repeat (apply andb_prop in H; destruct H as [H ?]).
  repeat match goal with h : (_ <=? _) = true |- _ => apply Z.leb_le in h end. lia.
Qed.

Lemma shift_years_compose : forall a b x, shift_years a (shift_years b x) = shift_years (b + a) x.
Proof. intros a b [[y m] d]. unfold shift_years. f_equal. f_equal. lia. Qed.

Theorem civil_of_days_valid : forall z, valid_date (civil_of_days z).
Proof.
  intro z. rewrite civil_of_days_in_era. apply valid_date_shift.
  pose proof (greg_check_all _ (doe_range z)) as C. unfold greg_check in C. apply andb_prop in C. tauto.
Qed.

Theorem civil_of_days_succ : forall z, civil_of_days (z + 1) = next_date (civil_of_days z).
Proof.
  intro z. rewrite !civil_of_days_in_era.
  set (z' := z + epoch_shift). replace (z + 1 + epoch_shift) with (z' + 1) by (unfold z'; lia).
  pose proof (doe_range z) as R. fold z' in R.
  pose proof (Z.div_mod z' days_per_era ltac:(unfold days_per_era; lia)) as DM.
  set (era := z' / days_per_era) in *. set (doe := z' mod days_per_era) in *.
  pose proof (greg_check_all doe R) as C. unfold greg_check in C. apply andb_prop in C. destruct C as [_ C].
  apply triple_eqb_eq in C. rewrite next_date_shift. rewrite <- C. clear C.
  destruct (doe + 1 <? days_per_era) eqn:B.
  - apply Z.ltb_lt in B.
    assert (E1 : (z' + 1) / days_per_era = era).
    { symmetry. apply (Z.div_unique _ _ era (doe + 1)); [left; lia | lia]. }
    assert (E2 : (z' + 1) mod days_per_era = doe + 1).
    { symmetry. apply (Z.mod_unique _ _ era (doe + 1)); [left; lia | lia]. }
    rewrite E1, E2. reflexivity.
  - apply Z.ltb_ge in B.
    assert (E1 : (z' + 1) / days_per_era = era + 1).
    { symmetry. apply (Z.div_unique _ _ (era + 1) 0); [left; unfold days_per_era; lia | lia]. }
    assert (E2 : (z' + 1) mod days_per_era = 0).
    { symmetry. apply (Z.mod_unique _ _ (era + 1) 0); [left; unfold days_per_era; lia | lia]. }
    rewrite E1, E2, shift_years_compose. f_equal. lia.
Qed.

Theorem civil_of_days_pred : forall z, civil_of_days z = next_date (civil_of_days (z - 1)).
Proof. intro z. rewrite <- civil_of_days_succ. f_equal. lia. Qed.
