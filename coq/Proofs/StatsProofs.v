(* Lemmas about Model/Stats.v (property C03). *)
From Coq Require Import List Arith ZArith QArith Qabs Bool Lia Permutation Sorting.Sorted RelationClasses.
From PF Require Import Lib.ListX Lib.QStats Gen.Tables Model.Stats.
Import ListNotations.

(* ------------------------------------------------ normalised sums == plain sums *)
Lemma qsum_r_correct l : (qsum_r l == qsum l)%Q.
Proof.
  induction l as [|x r IH]; [reflexivity|].
  change (Qred (x + qsum_r r) == x + qsum r)%Q. now rewrite Qred_correct, IH.
Qed.

Lemma mean_r_correct v : (mean_r v == qmean v)%Q.
Proof. unfold mean_r, qmean. now rewrite Qred_correct, qsum_r_correct. Qed.

Lemma qsum_map_ext (f g : Q -> Q) l :
  (forall x, f x == g x)%Q -> (qsum (map f l) == qsum (map g l))%Q.
Proof.
  intros H. induction l as [|x r IH]; [reflexivity|].
  change (f x + qsum (map f r) == g x + qsum (map g r))%Q. now rewrite H, IH.
Qed.

Lemma var_r_correct v : (var_r v == qvar v)%Q.
Proof.
  unfold var_r, qvar, qsqdev. rewrite Qred_correct, qsum_r_correct.
  rewrite (qsum_map_ext _ (fun x => (x - qmean v) * (x - qmean v))%Q); [reflexivity|].
  intros x. rewrite Qred_correct, mean_r_correct. reflexivity.
Qed.

(* ------------------------------------------- numerical / sequence statistics *)
Lemma finite_values_mask_dropna cells :
  finite_values (num_dropna (mask_inf cells)) = finite_values cells.
Proof.
  induction cells as [|x r IH]; simpl; [reflexivity|].
  destruct x; simpl; rewrite ?IH; reflexivity.
Qed.

Lemma all_null_iff_no_finite cells :
  forallb num_isnull (mask_inf cells) = true <-> finite_values cells = [].
Proof.
  induction cells as [|x r IH]; simpl; [tauto|].
  destruct x; simpl; try exact IH. split; [discriminate|discriminate].
Qed.

Lemma num_stats_of_no_finite fl : finite_values fl = [] -> num_stats_of fl = default_num_stats.
Proof.
  intros E. unfold num_stats_of, stat_mean, stat_var, stat_quantiles. rewrite E. reflexivity.
Qed.

(* the statistics of a numerical column are those of its non-missing finite values *)
Lemma compute_num_usable cells :
  compute_num cells = num_stats_of (map NFin (finite_values cells)).
Proof.
  assert (Hid : forall v, finite_values (map NFin v) = v).
  { induction v as [|q v IH]; simpl; [reflexivity|]. now rewrite IH. }
  unfold compute_num. destruct (forallb num_isnull (mask_inf cells)) eqn:E.
  - apply all_null_iff_no_finite in E. rewrite E. reflexivity.
  - unfold num_stats_of, stat_mean, stat_var, stat_quantiles.
    rewrite finite_values_mask_dropna, Hid. reflexivity.
Qed.

Lemma compute_num_default cells : finite_values cells = [] -> compute_num cells = default_num_stats.
Proof. intros E. rewrite compute_num_usable, E. reflexivity. Qed.

Lemma compute_seq_usable cells :
  compute_seq cells = num_stats_of (flatten (present cells)).
Proof.
  unfold compute_seq. destruct (all_missing cells) eqn:E; [|reflexivity].
  assert (P : present cells = []).
  { induction cells as [|c r IH]; [reflexivity|]. simpl in E. destruct c; [discriminate|]. simpl. now apply IH. }
  rewrite P. reflexivity.
Qed.

Lemma compute_seq_default cells :
  finite_values (flatten (present cells)) = [] -> compute_seq cells = default_num_stats.
Proof. intros E. rewrite compute_seq_usable. now apply num_stats_of_no_finite. Qed.

(* mean / variance / quantiles of num_stats_of are the QStats definitions over the finite values *)
Lemma num_stats_of_spec fl v :
  finite_values fl = v -> v <> [] ->
  exists m s2,
    s_mean (num_stats_of fl) = Some m /\ (m == qmean v)%Q /\
    s_var (num_stats_of fl) = Some s2 /\ (s2 == qvar v)%Q /\
    s_quant (num_stats_of fl) = map (fun q => Some (Qred q)) (five_quantiles v).
Proof.
  intros E Hne. unfold num_stats_of, stat_mean, stat_var, stat_quantiles; simpl. rewrite E.
  destruct v as [|x r]; [congruence|].
  exists (mean_r (x :: r)), (var_r (x :: r)).
  repeat split; try reflexivity; [apply mean_r_correct|apply var_r_correct].
Qed.

(* ------------------------------------------------------------------- counts *)
Lemma memZ_In v l : memZ v l = true <-> In v l.
Proof.
  unfold memZ. rewrite existsb_exists. split.
  - intros [x [Hx E]]. apply Z.eqb_eq in E. now subst.
  - intros H. exists v. split; [exact H|apply Z.eqb_refl].
Qed.

Lemma nodupb_NoDup l : nodupb l = true <-> NoDup l.
Proof.
  induction l as [|x r IH]; simpl.
  - split; [constructor|reflexivity].
  - rewrite andb_true_iff, negb_true_iff, IH. split.
    + intros [H1 H2]. constructor; [|exact H2]. rewrite <- memZ_In. congruence.
    + intros H. inversion H; subst. split; [|assumption].
      destruct (memZ x r) eqn:E; [|reflexivity]. apply memZ_In in E. contradiction.
Qed.

Lemma count_occZ_spec l v : count_occZ l v = count_occ Z.eq_dec l v.
Proof.
  unfold count_occZ. induction l as [|x r IH]; simpl; [reflexivity|].
  destruct (Z.eq_dec x v) as [E|NE].
  - subst. rewrite Z.eqb_refl. simpl. now rewrite IH.
  - destruct (Z.eqb v x) eqn:E; [apply Z.eqb_eq in E; congruence|]. exact IH.
Qed.

Lemma non_increasing_Sorted l : non_increasing l = true <-> Sorted ge l.
Proof.
  induction l as [|x r IH]; [split; [constructor|reflexivity]|].
  destruct r as [|y r'].
  - split; [repeat constructor|reflexivity].
  - change (non_increasing (x :: y :: r')) with ((y <=? x)%nat && non_increasing (y :: r')).
    rewrite andb_true_iff, Nat.leb_le, IH. split.
    + intros [H1 H2]. constructor; [exact H2|]. constructor. exact H1.
    + intros H. inversion H as [|? ? Hs Hh]; subst. inversion Hh; subst. split; [lia|exact Hs].
Qed.

Lemma non_increasing_StronglySorted l : non_increasing l = true <-> StronglySorted ge l.
Proof.
  rewrite non_increasing_Sorted. split.
  - apply Sorted_StronglySorted. intros a b c H1 H2. unfold ge in *. lia.
  - apply StronglySorted_Sorted.
Qed.

Definition counts_exact (o : list (Z * nat)) (col : list Z) : Prop :=
  NoDup (map fst o) /\
  (forall v, In v (map fst o) <-> In v col) /\
  (forall v c, In (v, c) o -> c = count_occ Z.eq_dec col v).

Lemma valid_counts_sound o col : valid_counts o col = true <-> counts_exact o col.
Proof.
  unfold valid_counts, counts_exact. rewrite !andb_true_iff, nodupb_NoDup, !forallb_forall. split.
  - intros [[Hnd Hc] Hall]. split; [exact Hnd|]. split.
    + intros v. split.
      * intros Hv. apply in_map_iff in Hv. destruct Hv as [[v' c] [E Hp]]. simpl in E. subst v'.
        specialize (Hc _ Hp). simpl in Hc. apply andb_true_iff in Hc. destruct Hc as [H1 H2].
        apply Nat.eqb_eq in H1. apply Nat.ltb_lt in H2. rewrite count_occZ_spec in H1.
        apply (count_occ_In Z.eq_dec). lia.
      * intros Hv. apply memZ_In. now apply Hall.
    + intros v c Hp. specialize (Hc _ Hp). simpl in Hc. apply andb_true_iff in Hc. destruct Hc as [H1 _].
      apply Nat.eqb_eq in H1. rewrite count_occZ_spec in H1. now symmetry.
  - intros [Hnd [Hin Hc]]. split; [split; [exact Hnd|]|].
    + intros [v c] Hp. simpl. rewrite (Hc v c Hp), count_occZ_spec, Nat.eqb_refl. simpl.
      apply Nat.ltb_lt. apply (count_occ_In Z.eq_dec). apply Hin. apply in_map_iff. now exists (v, c).
    + intros v Hv. apply memZ_In. now apply Hin.
Qed.

Theorem valid_count_order_sound o col :
  valid_count_order o col = true <->
  counts_exact o col /\ StronglySorted ge (map snd o).
Proof.
  unfold valid_count_order. now rewrite andb_true_iff, valid_counts_sound, non_increasing_StronglySorted.
Qed.

(* a column without any value admits exactly the empty statistics ([], []) *)
Lemma valid_count_order_nil o : valid_count_order o [] = true <-> o = [].
Proof.
  rewrite valid_count_order_sound. split.
  - intros [[_ [Hin _]] _]. destruct o as [|[v c] r]; [reflexivity|].
    exfalso. apply (Hin v). now left.
  - intros ->. split; [|constructor]. split; [constructor|]. split; [tauto|intros ? ? []].
Qed.

Lemma present_nil_iff {A} (cells : list (option A)) : present cells = [] <-> all_missing cells = true.
Proof.
  induction cells as [|c r IH]; simpl; [tauto|]. destruct c; simpl; [split; discriminate|exact IH].
Qed.

Lemma dedup_In l v : In v (dedup l) <-> In v l.
Proof.
  induction l as [|x r IH]; simpl; [tauto|].
  destruct (memZ x r) eqn:E.
  - rewrite IH. apply memZ_In in E. split; [tauto|]. intros [->|H]; assumption.
  - simpl. now rewrite IH.
Qed.

Lemma dedup_NoDup l : NoDup (dedup l).
Proof.
  induction l as [|x r IH]; simpl; [constructor|].
  destruct (memZ x r) eqn:E; [exact IH|]. constructor; [|exact IH].
  rewrite dedup_In, <- memZ_In. congruence.
Qed.

(* every cell counts each of its tokens once, however often the cell repeats it *)
Lemma multi_tokens_count cells v :
  count_occ Z.eq_dec (multi_tokens cells) v =
  length (filter (fun c => memZ v c) (present cells)).
Proof.
  unfold multi_tokens. induction (present cells) as [|c r IH]; simpl; [reflexivity|].
  rewrite count_occ_app, IH.
  assert (E : count_occ Z.eq_dec (dedup c) v = if memZ v c then 1%nat else 0%nat).
  { destruct (memZ v c) eqn:M.
    - apply memZ_In in M. apply NoDup_count_occ'; [apply dedup_NoDup|now apply dedup_In].
    - apply count_occ_not_In. rewrite dedup_In, <- memZ_In. congruence. }
  rewrite E. destruct (memZ v c); reflexivity.
Qed.

Lemma multi_tokens_empty cells :
  (forall c, In (Some c) cells -> c = []) -> multi_tokens cells = [].
Proof.
  unfold multi_tokens. induction cells as [|c r IH]; intros H; simpl; [reflexivity|].
  destruct c as [c|]; simpl.
  - rewrite (H c (or_introl eq_refl)). simpl. apply IH. intros; apply H; now right.
  - apply IH. intros; apply H; now right.
Qed.

(* ------------------------------------------------------------- index space *)
Lemma index_of_nth cats v i : index_of cats v = Some i -> nth_error cats i = Some v.
Proof.
  revert i. induction cats as [|c r IH]; simpl; intros i H; [discriminate|].
  destruct (Z.eqb c v) eqn:E.
  - inversion H; subst. apply Z.eqb_eq in E. now subst.
  - destruct (index_of r v) as [k|]; [|discriminate]. inversion H; subst. simpl. now apply IH.
Qed.

Lemma index_of_none cats v : index_of cats v = None <-> ~ In v cats.
Proof.
  induction cats as [|c r IH]; simpl; [tauto|].
  destruct (Z.eqb c v) eqn:E.
  - apply Z.eqb_eq in E. split; [discriminate|]. intros H. exfalso. apply H. now left.
  - apply Z.eqb_neq in E. destruct (index_of r v) as [k|] eqn:K; simpl.
    + split; [discriminate|]. intros H. exfalso. apply H. right.
      apply index_of_nth in K. eapply nth_error_In; eauto.
    + split; [|reflexivity]. intros _ [H|H]; [congruence|]. now apply IH.
Qed.

Lemma index_of_NoDup cats v i : NoDup cats -> nth_error cats i = Some v -> index_of cats v = Some i.
Proof.
  revert i. induction cats as [|c r IH]; intros i Hnd H; [destruct i; discriminate|].
  inversion Hnd as [|? ? Hni Hnd']; subst. destruct i as [|i]; simpl in *.
  - inversion H; subst. now rewrite Z.eqb_refl.
  - destruct (Z.eqb c v) eqn:E.
    + apply Z.eqb_eq in E. subst. exfalso. apply Hni. eapply nth_error_In; eauto.
    + rewrite (IH i Hnd' H). reflexivity.
Qed.

Lemma index_of_lt cats v i : index_of cats v = Some i -> (i < length cats)%nat.
Proof. intros H. apply index_of_nth in H. apply nth_error_Some. congruence. Qed.

(* the i-th listed category is the one encoded as index i; unlisted / missing is -1 *)
Theorem index_space o col :
  valid_counts o col = true ->
  (forall i v c, nth_error o i = Some (v, c) -> encode_cat (map fst o) (Some v) = Z.of_nat i) /\
  (forall v, In v col -> exists i, (i < length o)%nat /\ encode_cat (map fst o) (Some v) = Z.of_nat i
                                   /\ nth_error (map fst o) i = Some v) /\
  (forall v, ~ In v col -> encode_cat (map fst o) (Some v) = (-1)%Z) /\
  encode_cat (map fst o) None = (-1)%Z.
Proof.
  intros H. apply valid_counts_sound in H. destruct H as [Hnd [Hin _]].
  split; [|split; [|split; [|reflexivity]]].
  - intros i v c Hi. unfold encode_cat.
    rewrite (index_of_NoDup (map fst o) v i Hnd); [reflexivity|].
    rewrite nth_error_map, Hi. reflexivity.
  - intros v Hv. apply Hin in Hv. destruct (index_of (map fst o) v) as [i|] eqn:E.
    + exists i. split; [|split].
      * apply index_of_lt in E. now rewrite map_length in E.
      * unfold encode_cat. now rewrite E.
      * now apply index_of_nth.
    + apply index_of_none in E. contradiction.
  - intros v Hv. unfold encode_cat.
    assert (E : index_of (map fst o) v = None) by (apply index_of_none; rewrite Hin; exact Hv).
    now rewrite E.
Qed.

(* --------------------------------------------------------- binary target *)
Lemma forallb_ext' {A} (f g : A -> bool) l : (forall x, f x = g x) -> forallb f l = forallb g l.
Proof. intros H. induction l as [|x r IH]; simpl; [reflexivity|]. now rewrite H, IH. Qed.

Lemma memZ_swap v a b : memZ v [a; b] = memZ v [b; a].
Proof. unfold memZ; simpl. rewrite !orb_false_r. apply orb_comm. Qed.

Theorem target_resort_valid o col :
  valid_count_order o col = true -> valid_target_order (target_resort o) col = true.
Proof.
  unfold valid_count_order, valid_target_order, target_resort. intros H.
  apply andb_true_iff in H. destruct H as [Hv Ho].
  destruct (length o =? 2)%nat eqn:L.
  - apply Nat.eqb_eq in L.
    destruct o as [|[a x] [|[b y] [|? ?]]]; simpl in L; try discriminate. clear L.
    assert (Hab : a <> b).
    { apply valid_counts_sound in Hv. destruct Hv as [Hnd _]. simpl in Hnd.
      inversion Hnd; subst. intros ->. apply H1. now left. }
    unfold sort_by_fst. simpl. destruct (a <=? b)%Z eqn:E; simpl.
    + rewrite Hv. simpl. apply Z.leb_le in E. rewrite andb_true_r. apply Z.ltb_lt. lia.
    + apply Z.leb_gt in E. rewrite andb_true_r.
      replace (b <? a)%Z with true by (symmetry; apply Z.ltb_lt; lia). rewrite andb_true_r.
      unfold valid_counts in *. simpl in *.
      rewrite !andb_true_r in *. rewrite !orb_false_r in *.
      apply andb_true_iff in Hv. destruct Hv as [Hv H3]. apply andb_true_iff in Hv. destruct Hv as [H1 H2].
      apply andb_true_iff in H2. destruct H2 as [H2 H2'].
      rewrite H2, H2'. simpl.
      replace (negb (b =? a)%Z) with true
        by (symmetry; apply negb_true_iff; apply Z.eqb_neq; congruence).
      simpl. rewrite <- H3. apply forallb_ext'. intros v. apply (memZ_swap v b a).
  - rewrite L, Hv, Ho. reflexivity.
Qed.

Lemma increasingZ_sorted a b : increasingZ [a; b] = true <-> (a < b)%Z.
Proof. simpl. rewrite andb_true_r. apply Z.ltb_lt. Qed.

(* spelled out for the two-class case *)
Corollary binary_target_sorted o col :
  valid_count_order o col = true -> length o = 2%nat ->
  exists a x b y, target_resort o = [(a, x); (b, y)] /\ (a < b)%Z /\
                  x = count_occ Z.eq_dec col a /\ y = count_occ Z.eq_dec col b /\
                  (forall v, In v col <-> v = a \/ v = b).
Proof.
  intros H L. pose proof (target_resort_valid o col H) as T.
  assert (L' : length (target_resort o) = 2%nat).
  { unfold target_resort. rewrite L. simpl.
    destruct o as [|p [|q [|? ?]]]; simpl in L; try discriminate.
    unfold sort_by_fst. simpl. destruct (fst p <=? fst q)%Z; reflexivity. }
  destruct (target_resort o) as [|[a x] [|[b y] [|? ?]]]; simpl in L'; try discriminate.
  unfold valid_target_order in T. simpl (length _ =? 2)%nat in T.
  apply andb_true_iff in T. destruct T as [Tv Ti].
  apply valid_counts_sound in Tv. destruct Tv as [_ [Hin Hc]].
  exists a, x, b, y. split; [reflexivity|]. split; [now apply increasingZ_sorted|].
  split; [apply Hc; now left|]. split; [apply Hc; right; now left|].
  intros v. rewrite <- Hin. simpl. intuition congruence.
Qed.

(* --------------------------------------------------------------- timestamps *)
Lemma insert_by_fst_perm {B} (p : Z * B) l : Permutation (insert_by_fst p l) (p :: l).
Proof.
  induction l as [|q r IH]; simpl; [reflexivity|].
  destruct (fst p <=? fst q)%Z; [reflexivity|]. rewrite IH. apply perm_swap.
Qed.

Lemma sort_by_fst_perm {B} (l : list (Z * B)) : Permutation (sort_by_fst l) l.
Proof.
  induction l as [|p r IH]; simpl; [reflexivity|]. rewrite insert_by_fst_perm. now constructor.
Qed.

Definition key_le {B} (a b : Z * B) : Prop := (fst a <= fst b)%Z.

Lemma insert_by_fst_sorted {B} (p : Z * B) l :
  StronglySorted key_le l -> StronglySorted key_le (insert_by_fst p l).
Proof.
  induction 1 as [|q r Hs IH Hall]; simpl.
  - constructor; constructor.
  - destruct (fst p <=? fst q)%Z eqn:E.
    + apply Z.leb_le in E. constructor; [now constructor|].
      constructor; [exact E|]. eapply Forall_impl; [|exact Hall]. unfold key_le. intros; lia.
    + apply Z.leb_gt in E. constructor; [exact IH|].
      eapply Permutation_Forall; [symmetry; apply insert_by_fst_perm|].
      constructor; [unfold key_le; lia|exact Hall].
Qed.

Lemma sort_by_fst_sorted {B} (l : list (Z * B)) : StronglySorted key_le (sort_by_fst l).
Proof. induction l as [|p r IH]; simpl; [constructor|]. now apply insert_by_fst_sorted. Qed.

Lemma sorted_hd_min {B} (ser : list (Z * B)) c0 c :
  StronglySorted key_le ser -> hd_error ser = Some c0 -> In c ser -> (fst c0 <= fst c)%Z.
Proof.
  intros Hs H0 Hin. destruct ser as [|x r]; [discriminate|]. inversion H0; subst.
  inversion Hs as [|? ? _ Hall]; subst. destruct Hin as [->|Hin]; [lia|].
  rewrite Forall_forall in Hall. now apply Hall.
Qed.

Lemma last_cons_eq {A} (r : list A) : forall y x, last (y :: r) x = last r y.
Proof.
  induction r as [|z r IH]; intros y x; [reflexivity|].
  change (last (y :: z :: r) x) with (last (z :: r) x). now rewrite (IH z x), (IH z y).
Qed.

Lemma last_In {A} (r : list A) : forall y, In (last r y) (y :: r).
Proof.
  induction r as [|z r IH]; intros y; [now left|].
  rewrite last_cons_eq. right. apply IH.
Qed.

Lemma sorted_last_max {B} (ser : list (Z * B)) c1 c :
  StronglySorted key_le ser -> last_error ser = Some c1 -> In c ser -> (fst c <= fst c1)%Z.
Proof.
  induction 1 as [|x r Hs IH Hall]; intros H1 Hin; [destruct Hin|].
  unfold last_error in H1. inversion H1; subst c1; clear H1.
  destruct r as [|y r'].
  - destruct Hin as [->|[]]. simpl. lia.
  - rewrite last_cons_eq in *. destruct Hin as [->|Hin].
    + rewrite Forall_forall in Hall. apply (Hall (last r' y)). apply last_In.
    + apply IH; [reflexivity|exact Hin].
Qed.

(* the median time is the UPPER median: sorted[n / 2] *)
Lemma stat_median_even {B} (ser : list (Z * list B)) k :
  length ser = (2 * k)%nat -> nth_error ser (length ser / 2) = nth_error ser k.
Proof. intros ->. now rewrite Nat.mul_comm, Nat.div_mul by lia. Qed.

Lemma stat_median_odd {B} (ser : list (Z * list B)) k :
  length ser = (2 * k + 1)%nat -> nth_error ser (length ser / 2) = nth_error ser k.
Proof.
  intros ->. f_equal. rewrite Nat.mul_comm, Nat.add_comm.
  rewrite Nat.div_add by lia. reflexivity.
Qed.

Lemma zmin_list_spec x l : (forall y, In y (x :: l) -> (zmin_list x l <= y)%Z) /\ In (zmin_list x l) (x :: l).
Proof.
  unfold zmin_list. revert x. induction l as [|z r IH]; intros x; simpl.
  - split; [intros y [->|[]]; lia|now left].
  - destruct (IH (Z.min x z)) as [H1 H2]. split.
    + intros y [->|[->|Hy]].
      * specialize (H1 (Z.min y z) (or_introl eq_refl)). lia.
      * specialize (H1 (Z.min x y) (or_introl eq_refl)). lia.
      * apply H1. now right.
    + destruct H2 as [H2|H2]; [|now right; right].
      rewrite <- H2. destruct (Z.min_spec x z) as [[_ ->]|[_ ->]]; [now left|right; now left].
Qed.

Lemma zmax_list_spec x l : (forall y, In y (x :: l) -> (y <= zmax_list x l)%Z) /\ In (zmax_list x l) (x :: l).
Proof.
  unfold zmax_list. revert x. induction l as [|z r IH]; intros x; simpl.
  - split; [intros y [->|[]]; lia|now left].
  - destruct (IH (Z.max x z)) as [H1 H2]. split.
    + intros y [->|[->|Hy]].
      * specialize (H1 (Z.max y z) (or_introl eq_refl)). lia.
      * specialize (H1 (Z.max x y) (or_introl eq_refl)). lia.
      * apply H1. now right.
    + destruct H2 as [H2|H2]; [|now right; right].
      rewrite <- H2. destruct (Z.max_spec x z) as [[_ ->]|[_ ->]]; [right; now left|now left].
Qed.

Lemma compute_time_default cells : present cells = [] -> compute_time cells = Some default_time_stats.
Proof. intros H. unfold compute_time. apply present_nil_iff in H. now rewrite H. Qed.

(* what compute_time returns for a column with at least one parsed timestamp *)
Theorem compute_time_spec cells t :
  present cells <> [] -> compute_time cells = Some t ->
  exists ser,
    Permutation ser (present cells) /\ StronglySorted key_le ser /\
    (exists c0, hd_error ser = Some c0 /\ t_oldest t = snd c0 /\ forall c, In c (present cells) -> (fst c0 <= fst c)%Z) /\
    (exists c1, last_error ser = Some c1 /\ t_newest t = snd c1 /\ forall c, In c (present cells) -> (fst c <= fst c1)%Z) /\
    (exists cm, nth_error ser (length (present cells) / 2) = Some cm /\ t_median t = snd cm) /\
    (exists lo hi, t_year_range t = [lo; hi] /\
       (forall c y, In c (present cells) -> year_of c = Some y -> (lo <= y <= hi)%Z) /\
       (exists ca cb, In ca (present cells) /\ In cb (present cells) /\ year_of ca = Some lo /\ year_of cb = Some hi)).
Proof.
  intros Hne H. unfold compute_time in H.
  destruct (all_missing cells) eqn:A; [apply present_nil_iff in A; contradiction|].
  pose proof (sort_by_fst_perm (present cells)) as P.
  pose proof (sort_by_fst_sorted (present cells)) as S.
  remember (sort_by_fst (present cells)) as ser eqn:Eser. clear Eser.
  unfold obind in H.
  destruct (stat_year_range ser) as [yr|] eqn:Y; [|discriminate].
  destruct (stat_newest ser) as [nw|] eqn:N; [|discriminate].
  destruct (stat_oldest ser) as [ol|] eqn:O; [|discriminate].
  destruct (stat_median ser) as [md|] eqn:M; [|discriminate].
  inversion H; subst t; clear H. simpl.
  exists ser. split; [exact P|]. split; [exact S|].
  assert (Hin : forall c, In c (present cells) -> In c ser)
    by (intros c Hc; eapply Permutation_in; [symmetry; exact P|exact Hc]).
  assert (Hin' : forall c, In c ser -> In c (present cells))
    by (intros c Hc; eapply Permutation_in; [exact P|exact Hc]).
  split; [|split; [|split]].
  - unfold stat_oldest in O. destruct (hd_error ser) as [c0|] eqn:E; simpl in O; [|discriminate].
    inversion O; subst. exists c0. split; [reflexivity|]. split; [reflexivity|].
    intros c Hc. eapply sorted_hd_min; eauto.
  - unfold stat_newest in N. destruct (last_error ser) as [c1|] eqn:E; simpl in N; [|discriminate].
    inversion N; subst. exists c1. split; [reflexivity|]. split; [reflexivity|].
    intros c Hc. eapply sorted_last_max; eauto.
  - unfold stat_median in M. rewrite (Permutation_length P) in M.
    destruct (nth_error ser (length (present cells) / 2)) as [cm|] eqn:E; simpl in M; [|discriminate].
    inversion M; subst. exists cm. split; [exact E|reflexivity].
  - unfold stat_year_range, obind in Y.
    destruct (mapM year_of ser) as [ys|] eqn:YS; [|discriminate].
    destruct ys as [|y0 yr']; [discriminate|]. inversion Y; subst yr; clear Y.
    exists (zmin_list y0 yr'), (zmax_list y0 yr'). split; [reflexivity|].
    assert (Hys : forall c y, In c ser -> year_of c = Some y -> In y (y0 :: yr')).
    { clear -YS. revert YS. generalize (y0 :: yr') as ys. induction ser as [|c r IH]; intros ys YS c' y Hc Hy; [destruct Hc|].
      simpl in YS. destruct (year_of c) as [yc|] eqn:Ec; [|discriminate].
      destruct (mapM year_of r) as [yr|] eqn:Er; [|discriminate]. inversion YS; subst.
      destruct Hc as [->|Hc]; [left; congruence|right; eapply IH; eauto]. }
    assert (Hys' : forall y, In y (y0 :: yr') -> exists c, In c ser /\ year_of c = Some y).
    { clear -YS. revert YS. generalize (y0 :: yr') as ys. induction ser as [|c r IH]; intros ys YS y Hy.
      - simpl in YS. inversion YS; subst. destruct Hy.
      - simpl in YS. destruct (year_of c) as [yc|] eqn:Ec; [|discriminate].
        destruct (mapM year_of r) as [yr|] eqn:Er; [|discriminate]. inversion YS; subst.
        destruct Hy as [<-|Hy]; [exists c; split; [now left|exact Ec]|].
        destruct (IH yr eq_refl y Hy) as [c' [H1 H2]]. exists c'. split; [now right|exact H2]. }
    destruct (zmin_list_spec y0 yr') as [L1 L2]. destruct (zmax_list_spec y0 yr') as [U1 U2].
    split.
    + intros c y Hc Hy. pose proof (Hys c y (Hin c Hc) Hy) as Hm. split; [now apply L1|now apply U1].
    + destruct (Hys' _ L2) as [ca [Ha1 Ha2]]. destruct (Hys' _ U2) as [cb [Hb1 Hb2]].
      exists ca, cb. repeat split; auto.
Qed.

(* --------------------------------------------------------------- embeddings *)
Lemma stat_emb_dim_width {A} (ser : list (list A)) w :
  ser <> [] -> (forall r, In r ser -> length r = w) -> stat_emb_dim ser = Some w.
Proof.
  intros Hne H. destruct ser as [|r rest]; [congruence|]. unfold stat_emb_dim. simpl.
  now rewrite (H r (or_introl eq_refl)).
Qed.

Lemma diffs_cumsum_from a w : sub2 (cumsum_from a w) (removelast (a :: cumsum_from a w)) = w.
Proof.
  revert a. induction w as [|x r IH]; intros a; [reflexivity|].
  simpl cumsum_from. change (removelast (a :: (a + x)%nat :: cumsum_from (a + x) r))
    with (a :: removelast ((a + x)%nat :: cumsum_from (a + x) r)).
  unfold sub2 in *. simpl. rewrite IH. f_equal. lia.
Qed.

(* _update_col_stats: the EMB_DIM it writes for the i-th column is that column's width *)
Theorem update_emb_dims_spec widths : update_emb_dims (emb_offsets widths) = widths.
Proof. unfold update_emb_dims, diffs, emb_offsets, cumsum. simpl tl. apply diffs_cumsum_from. Qed.

(* ------------------------------------------------------------------ tables *)
(* finite-domain fact about the generated table (case analysis over the nine stypes) *)
Theorem stats_table_matches_model : forall s, stats_for_stype s = model_stats_for_stype s.
Proof. intros s; destruct s; reflexivity. Qed.

(* ----------------------------------------------- no stale statistics after a history *)
Section StoreProofs.
  Context {Frame Stat : Type}.
  Variable compute : String.string -> Frame -> option Stat.

  Lemma slookup_sset_same (s : @store Stat) c v : slookup (sset s c v) c = Some v.
  Proof.
    induction s as [|[c' v'] r IH]; simpl.
    - now rewrite String.eqb_refl.
    - destruct (String.eqb c' c) eqn:E; simpl; [now rewrite String.eqb_refl|now rewrite E].
  Qed.

  Lemma slookup_sset_other (s : @store Stat) c v c0 : c0 <> c -> slookup (sset s c v) c0 = slookup s c0.
  Proof.
    intros Hn. induction s as [|[c' v'] r IH]; simpl.
    - destruct (String.eqb c c0) eqn:E; [apply String.eqb_eq in E; congruence|reflexivity].
    - destruct (String.eqb c' c) eqn:E; simpl.
      + apply String.eqb_eq in E. subst c'.
        destruct (String.eqb c c0) eqn:E0; [apply String.eqb_eq in E0; congruence|reflexivity].
      + destruct (String.eqb c' c0); [reflexivity|exact IH].
  Qed.

  (* an entry that is up to date for df stays up to date through the rest of the loop *)
  Lemma fill_preserves cols df : forall s s' c,
    fill compute cols df s = (s', true) -> slookup s c = compute c df -> compute c df <> None ->
    slookup s' c = compute c df.
  Proof.
    induction cols as [|c0 r IH]; intros s s' c H Hc Hn; simpl in H.
    - inversion H; subst. exact Hc.
    - destruct (compute c0 df) as [v|] eqn:E; [|discriminate].
      apply (IH (sset s c0 v) s' c H); [|exact Hn].
      destruct (String.string_dec c c0) as [->|Hne].
      + rewrite slookup_sset_same. now symmetry.
      + now rewrite slookup_sset_other.
  Qed.

  (* a materialize whose statistics loop completes leaves, for EVERY declared column, the statistics
     of the frame it ran on -- whatever the store held before (stale entries of earlier attempts,
     of other frames, of column-selected copies) *)
  Theorem fill_no_stale cols df : forall s s' c,
    fill compute cols df s = (s', true) -> In c cols ->
    slookup s' c = compute c df /\ compute c df <> None.
  Proof.
    induction cols as [|c0 r IH]; intros s s' c H Hin; [destruct Hin|].
    simpl in H. destruct (compute c0 df) as [v|] eqn:E; [|discriminate].
    destruct (String.string_dec c c0) as [->|Hne].
    - split; [|congruence]. rewrite E. rewrite <- E.
      apply (fill_preserves r df (sset s c0 v) s' c0 H); [|congruence].
      rewrite slookup_sset_same. now symmetry.
    - destruct Hin as [->|Hin]; [congruence|]. exact (IH _ _ _ H Hin).
  Qed.

  (* ... hence after ANY history of attempts on the shared store, if the last attempt completed, the
     statistics of its columns are those of the frame it materialized *)
  Theorem history_no_stale ops cols df s0 s oks :
    run_history compute (ops ++ [(cols, df)]) s0 = (s, oks) -> last oks false = true ->
    forall c, In c cols -> slookup s c = compute c df /\ compute c df <> None.
  Proof.
    revert s0 s oks. induction ops as [|[cols0 df0] r IH]; intros s0 s oks H Hl c Hin; simpl in H.
    - destruct (fill compute cols df s0) as [s1 ok] eqn:F. inversion H; subst. simpl in Hl. subst ok.
      exact (fill_no_stale cols df s0 s c F Hin).
    - destruct (fill compute cols0 df0 s0) as [s1 ok] eqn:F.
      destruct (run_history compute (r ++ [(cols, df)]) s1) as [s2 oks2] eqn:R. inversion H; subst.
      apply (IH s1 s oks2 R); [|exact Hin].
      destruct oks2 as [|b t]; [|exact Hl].
      exfalso. clear -R. destruct r as [|[a b] r']; simpl in R.
      + destruct (fill compute cols df s1); inversion R.
      + destruct (fill compute a b s1) as [sa oka]. destruct (run_history compute (r' ++ [(cols, df)]) sa). inversion R.
  Qed.

End StoreProofs.

(* ------------------------------------------ mean of integer data: no int64 wrap-around *)
Lemma pow63 : (2 ^ 63 = 9223372036854775808)%Z. Proof. reflexivity. Qed.
Lemma pow64' : (2 ^ 64 = 18446744073709551616)%Z. Proof. reflexivity. Qed.
Lemma pow62 : (2 ^ 62 = 4611686018427387904)%Z. Proof. reflexivity. Qed.
Ltac pow64 := rewrite ?pow63, ?pow64', ?pow62 in *.

Lemma wrap64_id z : in_int64 z -> wrap64 z = z.
Proof.
  unfold in_int64, wrap64. intros H. pow64. rewrite Z.mod_small by lia. lia.
Qed.

Lemma wrap64_range z : in_int64 (wrap64 z).
Proof.
  unfold in_int64, wrap64. pow64. pose proof (Z.mod_pos_bound (z + 9223372036854775808) 18446744073709551616 ltac:(lia)). lia.
Qed.

Lemma wrap64_fix_iff z : wrap64 z = z <-> in_int64 z.
Proof.
  split; [|apply wrap64_id]. intros H. rewrite <- H. apply wrap64_range.
Qed.

Lemma int_mean_is_qmean l : (int_mean l == qmean (map inject_Z l))%Q.
Proof.
  unfold int_mean, qmean, qlen. rewrite map_length.
  assert (E : (inject_Z (zsum l) == qsum (map inject_Z l))%Q).
  { induction l as [|x r IH]; [reflexivity|].
    change (inject_Z (x + zsum r) == inject_Z x + qsum (map inject_Z r))%Q.
    now rewrite inject_Z_plus, IH. }
  now rewrite E.
Qed.

(* accumulating the mean in the column's own int64 type agrees with the definition EXACTLY when the
   total stays inside the int64 range *)
Theorem wrapped_mean_correct_iff l :
  l <> [] -> ((wrapped_mean l == int_mean l)%Q <-> in_int64 (zsum l)).
Proof.
  intros Hne. unfold wrapped_mean, int_mean.
  assert (Hn : (0 < inject_Z (Z.of_nat (length l)))%Q).
  { change 0%Q with (inject_Z 0). rewrite <- Zlt_Qlt. destruct l; [congruence|simpl; lia]. }
  assert (Hn' : ~ (inject_Z (Z.of_nat (length l)) == 0)%Q) by (intros E; rewrite E in Hn; apply (Qlt_irrefl 0 Hn)).
  rewrite <- wrap64_fix_iff. split.
  - intros H. apply inject_Z_injective.
    apply (Qmult_inj_r _ _ (/ inject_Z (Z.of_nat (length l)))); [|exact H].
    intros E. apply Hn'. rewrite <- (Qinv_involutive (inject_Z (Z.of_nat (length l)))), E. reflexivity.
  - intros ->. reflexivity.
Qed.

(* the overflow variant is refuted by a column of eight values near 2^60..2^62: every cell is an int64,
   the true mean lies between min and max, the wrapped mean is negative *)
Theorem wrapped_mean_refuted :
  exists l, Forall in_int64 l /\ ~ (wrapped_mean l == int_mean l)%Q /\
            (forall x, In x l -> (inject_Z x <= int_mean l)%Q \/ (int_mean l <= inject_Z x)%Q) /\
            (wrapped_mean l < 0)%Q /\ (forall x, In x l -> (0 < x)%Z).
Proof.
  exists (repeat (2 ^ 62)%Z 3). split; [|split; [|split; [|split]]].
  - repeat constructor; unfold in_int64; pow64; lia.
  - rewrite wrapped_mean_correct_iff by discriminate. unfold in_int64. vm_compute. intros [_ H]. discriminate.
  - intros x Hx. left. simpl in Hx. destruct Hx as [<-|[<-|[<-|[]]]]; vm_compute; discriminate.
  - vm_compute. reflexivity.
  - intros x Hx. simpl in Hx. destruct Hx as [<-|[<-|[<-|[]]]]; reflexivity.
Qed.
