From Coq Require Import ZArith QArith Qabs Bool Lia.
From PF Require Import Model.Allclose.
Open Scope Q_scope.

Lemma allclose_q_spec : forall a b,
  allclose_q a b = true <-> Qabs (a - b) <= allclose_atol + allclose_rtol * Qabs b.
Proof. intros a b. unfold allclose_q. apply Qle_bool_iff. Qed.

Lemma allclose_q_refl : forall a, allclose_q a a = true.
Proof.
  intros a. apply allclose_q_spec.
  assert (E : a - a == 0) by ring. rewrite E. simpl Qabs.
  assert (H : 0 <= Qabs a) by apply Qabs_nonneg.
  unfold allclose_atol, allclose_rtol.
  apply Qle_trans with (0 + 0); [discriminate|]. apply Qplus_le_compat; [discriminate|].
  apply Qmult_le_0_compat; [discriminate|exact H].
Qed.

(* exactly at the tolerance the pair is close, any amount beyond it is not *)
Lemma allclose_q_boundary : forall b d, 0 <= d ->
  (allclose_q (b + d) b = true <-> d <= allclose_atol + allclose_rtol * Qabs b).
Proof.
  intros b d Hd. rewrite allclose_q_spec.
  assert (E : b + d - b == d) by ring. rewrite E. rewrite (Qabs_pos d Hd). reflexivity.
Qed.

Lemma allclose_q_boundary_neg : forall b d, 0 <= d ->
  (allclose_q (b - d) b = true <-> d <= allclose_atol + allclose_rtol * Qabs b).
Proof.
  intros b d Hd. rewrite allclose_q_spec.
  assert (E : b - d - b == - d) by ring. rewrite E. rewrite Qabs_opp, (Qabs_pos d Hd). reflexivity.
Qed.

(* on the grid the decision is an integer inequality *)
Lemma close_grid_spec : forall z1 z2,
  close_grid z1 z2 = true <-> (100000000 * Z.abs (z1 - z2) <= 8 + 1000 * Z.abs z2)%Z.
Proof.
  intros z1 z2. unfold close_grid, allclose_q, allclose_atol, allclose_rtol, Qle_bool.
  rewrite Z.leb_le. unfold Qabs, Qminus, Qplus, Qmult, Qopp, Qnum, Qden. lia.
Qed.

(* On the harness grid (multiples of 1/8 below 1000, i.e. |z| < 8000) torch's tolerance separates exactly the equal
   values: any difference of at least 1/8 is beyond atol + rtol*|other|. *)
Lemma close_grid_eqb : forall z1 z2, (Z.abs z2 < 8000)%Z -> close_grid z1 z2 = Z.eqb z1 z2.
Proof.
  intros z1 z2 H. destruct (Z.eqb z1 z2) eqn:E.
  - apply Z.eqb_eq in E. subst. apply close_grid_spec. lia.
  - apply Z.eqb_neq in E. apply not_true_is_false. intros Hc. apply close_grid_spec in Hc. lia.
Qed.

Lemma close_grid_refl : forall z, close_grid z z = true.
Proof. intros z. apply close_grid_spec. lia. Qed.

(* a grid difference of k/8 is detected as long as the other operand is below 10^5*k/8 (rtol*|other| < the difference) *)
Lemma close_grid_detects : forall z1 z2, z1 <> z2 -> (1000 * Z.abs z2 < 100000000 * Z.abs (z1 - z2) - 8)%Z ->
  close_grid z1 z2 = false.
Proof.
  intros z1 z2 _ H. apply not_true_is_false. intros Hc. apply close_grid_spec in Hc. lia.
Qed.
