(* Frame-level corollaries of Proofs/MaskFacts.v: TensorFrame.__getitem__ with a boolean mask. *)
From Coq Require Import String ZArith List Bool Arith Lia.
From PF Require Import Lib.ListX Lib.PySlice Model.Ragged Model.RaggedSpec Model.RaggedRun Model.Frame Model.FrameSpec
     Gen.Tables.
From PF Require Import Proofs.ListXFacts Proofs.MntProofs Proofs.MetProofs Proofs.FrameProofs Proofs.MaskFacts.
Import ListNotations.

Lemma mask_positions : forall n m, length m = n -> py_positions n (as_list_index (IMask m)) = Some (nonzero m).
Proof. intros n m H. cbn [as_list_index py_positions]. rewrite (proj2 (Nat.eqb_eq _ _) H). reflexivity. Qed.

Lemma mask_positions_wrong : forall n m, length m <> n -> py_positions n (as_list_index (IMask m)) = None.
Proof. intros n m H. cbn [as_list_index py_positions]. rewrite (proj2 (Nat.eqb_neq _ _) H). reflexivity. Qed.

Lemma getitem_mask_row_count_proof : forall n vs nm yy ov m,
  frame_wf n vs yy ov -> length m = n ->
  tf_getitem (frame_of vs nm yy ov) (IMask m) = Some (sel_frame (nonzero m) vs nm yy ov)
  /\ exists f', tf_getitem (frame_of vs nm yy ov) (IMask m) = Some f'
                /\ tf_num_rows f' = Some (count_true m) /\ names f' = nm.
Proof.
  intros n vs nm yy ov m Hwf Hlen. split.
  - exact (getitem_coherent_proof (mnt_select_refines_proof payload) (met_select_refines_proof payload)
             n vs nm yy ov (IMask m) (nonzero m) Hwf (mask_positions n m Hlen)).
  - destruct (getitem_len_proof (mnt_select_refines_proof payload) (met_select_refines_proof payload)
                n vs nm yy ov (IMask m) (nonzero m) Hwf (mask_positions n m Hlen)) as [f' [H1 [H2 H3]]].
    exists f'. rewrite <- nonzero_length. auto.
Qed.

Lemma getitem_mask_wrong_length_proof : forall n vs nm yy ov m,
  frame_wf n vs yy ov -> vs <> [] \/ yy <> None \/ ov <> None -> length m <> n ->
  tf_getitem (frame_of vs nm yy ov) (IMask m) = None.
Proof.
  intros n vs nm yy ov m Hwf Hne Hlen.
  exact (getitem_raises_proof (mnt_select_refines_proof payload) (met_select_refines_proof payload)
           n vs nm yy ov (IMask m) Hwf Hne (mask_positions_wrong n m Hlen)).
Qed.
