(* A boolean-mask selection in plain terms.

   The models of C05/C07/C09/C10 give `index[mask]` the meaning the code gives
   it: `mask.nonzero().flatten()` followed by an index_select (Lib/PySlice.v,
   `IMask m => Some (nonzero m)`).  This file proves that this is the selection
   a reader expects: exactly the rows whose mask entry is True, each once, in
   their original order -- `keep_true m l` below, written with `filter` only. *)
From Coq Require Import List Arith Bool Lia ZArith Sorted.
From PF Require Import Lib.ListX Lib.PySlice Proofs.ListXFacts.
Import ListNotations.

Definition keep_true {X} (m : list bool) (l : list X) : list X :=
  map fst (filter snd (combine l m)).

Definition count_true (m : list bool) : nat := length (filter (fun b => b) m).

Lemma tget_app_here : forall {X} (pre l : list X) x, tget (pre ++ x :: l) (length pre) = Some x.
Proof.
  intros X pre l x. unfold tget. rewrite nth_error_app2 by lia.
  rewrite Nat.sub_diag. reflexivity.
Qed.

Lemma tgather_nonzero_from : forall {X} (m : list bool) (l pre : list X),
  length m = length l ->
  tgather (pre ++ l) (nonzero_from (length pre) m) = Some (keep_true m l).
Proof.
  intros X m. induction m as [|b r IH]; intros l pre Hlen.
  - destruct l as [|x l']; [reflexivity | discriminate Hlen].
  - destruct l as [|x l']; [discriminate Hlen|].
    injection Hlen as Hlen.
    assert (Hshift : pre ++ x :: l' = (pre ++ [x]) ++ l') by (rewrite <- app_assoc; reflexivity).
    assert (Hk : S (length pre) = length (pre ++ [x])) by (rewrite app_length; simpl; lia).
    specialize (IH l' (pre ++ [x]) Hlen).
    cbn [nonzero_from]. unfold keep_true. cbn [combine filter snd].
    destruct b.
    + unfold tgather. cbn [mapM]. rewrite tget_app_here.
      rewrite Hk, Hshift. unfold tgather in IH. rewrite IH. reflexivity.
    + rewrite Hk, Hshift. exact IH.
Qed.

Lemma tgather_nonzero : forall {X} (m : list bool) (l : list X),
  length m = length l -> tgather l (nonzero m) = Some (keep_true m l).
Proof. intros X m l H. exact (tgather_nonzero_from m l [] H). Qed.

Lemma nonzero_from_length : forall m k, length (nonzero_from k m) = count_true m.
Proof.
  induction m as [|b r IH]; intro k; [reflexivity|].
  cbn [nonzero_from]. unfold count_true. cbn [filter].
  destruct b; cbn [length]; rewrite IH; reflexivity.
Qed.

Lemma nonzero_length : forall m, length (nonzero m) = count_true m.
Proof. intro m. apply nonzero_from_length. Qed.

Lemma nonzero_from_lower : forall m k, Forall (fun i => k <= i) (nonzero_from k m).
Proof.
  induction m as [|b r IH]; intro k; [constructor|].
  cbn [nonzero_from].
  assert (H : Forall (fun i => k <= i) (nonzero_from (S k) r)).
  { eapply Forall_impl; [|apply IH]. cbn. intros; lia. }
  destruct b; [constructor; [lia|exact H] | exact H].
Qed.

(* positions come out strictly increasing: original order, no row twice *)
Lemma nonzero_from_sorted : forall m k, StronglySorted lt (nonzero_from k m).
Proof.
  induction m as [|b r IH]; intro k; [constructor|].
  cbn [nonzero_from]. destruct b; [|apply IH].
  constructor; [apply IH|].
  eapply Forall_impl; [|apply (nonzero_from_lower r (S k))]. cbn. intros; lia.
Qed.

Lemma nonzero_sorted : forall m, StronglySorted lt (nonzero m).
Proof. intro m. apply nonzero_from_sorted. Qed.

(* a position is selected iff its mask entry is True *)
Lemma nonzero_from_In : forall m k i, In i (nonzero_from k m) <-> (k <= i /\ nth_error m (i - k) = Some true).
Proof.
  induction m as [|b r IH]; intros k i.
  - cbn. split; [tauto|]. intros [_ H]. destruct (i - k); discriminate H.
  - cbn [nonzero_from].
    assert (Hrec : In i (nonzero_from (S k) r) <-> (S k <= i /\ nth_error r (i - S k) = Some true)) by apply IH.
    destruct b.
    + cbn [In]. rewrite Hrec. split.
      * intros [<- | [Hle Hn]].
        -- split; [lia|]. rewrite Nat.sub_diag. reflexivity.
        -- split; [lia|]. replace (i - k) with (S (i - S k)) by lia. exact Hn.
      * intros [Hle Hn]. destruct (Nat.eq_dec k i) as [->|Hne]; [left; reflexivity|].
        right. split; [lia|]. replace (i - k) with (S (i - S k)) in Hn by lia. exact Hn.
    + rewrite Hrec. split.
      * intros [Hle Hn]. split; [lia|]. replace (i - k) with (S (i - S k)) by lia. exact Hn.
      * intros [Hle Hn]. destruct (Nat.eq_dec k i) as [->|Hne].
        -- rewrite Nat.sub_diag in Hn. discriminate Hn.
        -- split; [lia|]. replace (i - k) with (S (i - S k)) in Hn by lia. exact Hn.
Qed.

Lemma nonzero_In : forall m i, In i (nonzero m) <-> nth_error m i = Some true.
Proof.
  intros m i. unfold nonzero. rewrite nonzero_from_In, Nat.sub_0_r. split; [tauto|]. intro H; split; [lia|exact H].
Qed.

(* the list-level selection by a mask, as the C05/C07/C09/C10 models compute it *)
Lemma py_select_mask : forall {X} (m : list bool) (l : list X),
  py_select (IMask m) l = if (length m =? length l)%nat then Some (keep_true m l) else None.
Proof.
  intros X m l. unfold py_select. cbn [py_positions].
  destruct (length m =? length l)%nat eqn:E; [|reflexivity].
  apply Nat.eqb_eq in E. cbn [obind]. apply tgather_nonzero. exact E.
Qed.

Lemma keep_true_length : forall {X} (m : list bool) (l : list X),
  length m = length l -> length (keep_true m l) = count_true m.
Proof.
  intros X m. induction m as [|b r IH]; intros l H.
  - destruct l; [reflexivity|discriminate H].
  - destruct l as [|x l']; [discriminate H|]. injection H as H.
    unfold keep_true, count_true. cbn [combine filter snd].
    destruct b; cbn [map length filter]; [f_equal|]; apply IH; exact H.
Qed.

Lemma keep_true_all : forall {X} (l : list X), keep_true (repeat true (length l)) l = l.
Proof.
  intros X l. induction l as [|x l IH]; [reflexivity|].
  unfold keep_true in *. cbn. f_equal. exact IH.
Qed.

Lemma keep_true_none : forall {X} (l : list X), keep_true (repeat false (length l)) l = [].
Proof.
  intros X l. induction l as [|x l IH]; [reflexivity|].
  unfold keep_true in *. cbn. exact IH.
Qed.

(* the defaulted positional pick used by the nested-list specifications (Model/RaggedSpec.v `pick_rows`/`pick_cols`) *)
Lemma map_nth_nonzero : forall {X} (m : list bool) (l : list X) (d : X),
  length m = length l -> map (fun i => nth i l d) (nonzero m) = keep_true m l.
Proof.
  intros X m l d H.
  assert (Hb : Forall (fun i => i < length l) (nonzero m)) by (rewrite <- H; apply nonzero_bound).
  pose proof (tgather_nth l (nonzero m) d Hb) as H1.
  rewrite (tgather_nonzero m l H) in H1. injection H1 as H1. symmetry. exact H1.
Qed.

(* the two extreme masks *)
Lemma py_select_mask_extremes : forall {X} (l : list X),
  py_select (IMask (repeat true (length l))) l = Some l
  /\ py_select (IMask (repeat false (length l))) l = Some [].
Proof.
  intros X l. rewrite !py_select_mask, !repeat_length, Nat.eqb_refl, keep_true_all, keep_true_none. split; reflexivity.
Qed.
