(* Lemmas about Model/Frame.v (C07, C08). *)
From Coq Require Import String ZArith List Bool Arith Lia.
From PF Require Import Lib.ListX Lib.PySlice Model.Ragged Model.RaggedSpec Model.RaggedRun Model.Frame Model.FrameSpec
     Gen.Tables.
From PF Require Import Proofs.ListXFacts Proofs.MntProofs Proofs.MetProofs.
Import ListNotations.

(* ------------------------------------------------------------------ *)
(* generic helpers *)
Lemma mapM_ext_in : forall {B C} (f g : B -> option C) (l : list B),
  (forall x, In x l -> f x = g x) -> mapM f l = mapM g l.
Proof.
  induction l as [|x r IH]; intros H; simpl; [reflexivity|].
  rewrite (H x (or_introl eq_refl)), IH; [reflexivity|]. intros z Hz; apply H; right; exact Hz.
Qed.

Lemma mapM_all_some : forall {B C} (f : B -> option C) (g : B -> C) (l : list B),
  (forall x, In x l -> f x = Some (g x)) -> mapM f l = Some (map g l).
Proof.
  induction l as [|x r IH]; intros H; simpl; [reflexivity|].
  rewrite (H x (or_introl eq_refl)), IH; [reflexivity|]. intros z Hz; apply H; right; exact Hz.
Qed.

Lemma mapM_has_none : forall {B C} (f : B -> option C) (l : list B),
  l <> [] -> (forall x, In x l -> f x = None) -> mapM f l = None.
Proof.
  intros B C f [|x r] Hne H; [congruence|]. simpl. rewrite (H x (or_introl eq_refl)). reflexivity.
Qed.

Lemma tgather_pick : forall {B} (l : list B) (pos : list nat) (d : B),
  Forall (fun i => i < length l) pos -> tgather l pos = Some (map (fun i => nth i l d) pos).
Proof.
  intros B l pos d H. unfold tgather. apply mapM_all_some. intros i Hi.
  rewrite Forall_forall in H. unfold tget. apply nth_error_nth'. apply H; exact Hi.
Qed.

Lemma pick_rows_length : forall {A} (pos : list nat) (m : cellmat A), length (pick_rows pos m) = length pos.
Proof. intros. unfold pick_rows. apply map_length. Qed.

Lemma pick_rows_rect : forall {A} c (m : cellmat A) pos,
  rect c m -> Forall (fun i => i < length m) pos -> rect c (pick_rows pos m).
Proof.
  intros A c m pos H Hp. unfold rect, pick_rows in *. apply Forall_map.
  eapply Forall_impl; [|exact Hp]. simpl. intros i Hi.
  rewrite Forall_forall in H. apply H. apply nth_In. exact Hi.
Qed.

Lemma pick_rows_rect_w : forall {A} ws (m : cellmat A) pos,
  rect_w ws m -> Forall (fun i => i < length m) pos -> rect_w ws (pick_rows pos m).
Proof.
  intros A ws m pos H Hp. unfold rect_w, pick_rows in *. apply Forall_map.
  eapply Forall_impl; [|exact Hp]. simpl. intros i Hi.
  rewrite Forall_forall in H. apply H. apply nth_In. exact Hi.
Qed.

Lemma pick_rows_Forall : forall {A} (P : list (list A) -> Prop) (m : cellmat A) pos,
  Forall P m -> Forall (fun i => i < length m) pos -> Forall P (pick_rows pos m).
Proof.
  intros A P m pos H Hp. unfold pick_rows. apply Forall_map.
  eapply Forall_impl; [|exact Hp]. simpl. intros i Hi.
  rewrite Forall_forall in H. apply H. apply nth_In. exact Hi.
Qed.

(* an int index is the one-element list index *)
Lemma py_positions_as_list : forall n i, py_positions n (IList [i]) = py_positions n (IInt i).
Proof. intros n i. simpl. destruct (norm_index n i); reflexivity. Qed.

Lemma as_list_not_int : forall ix, match as_list_index ix with IInt _ => False | _ => True end.
Proof. destruct ix; exact I. Qed.

(* ------------------------------------------------------------------ *)
(* C07 *)
Section C07.
  (* The refinement theorems of C05 (Props/C05.v: mnt_select_refines, met_select_refines) at A := payload *)
  Hypothesis H_mnt_select_refines : forall (c : nat) (m : cellmat payload) (ix : index) (dim : nat),
    rect c m -> dim < 2 ->
    select payload _ (mnt_kernels payload) (mnt_of_cells c m) ix dim =
    match py_positions (if dim =? 0 then length m else c) ix with
    | Some pos => Some (mnt_of_cells (if dim =? 0 then c else length pos) (pick dim pos m))
    | None => None
    end.
  Hypothesis H_met_select_refines : forall (ws : list nat) (m : cellmat payload) (ix : index) (dim : nat),
    rect_w ws m -> dim < 2 ->
    select payload _ (met_kernels payload) (met_of_cells ws m) ix dim =
    match py_positions (if dim =? 0 then length m else length ws) ix with
    | Some pos => Some (met_of_cells (pick_ws dim pos ws) (pick dim pos m))
    | None => None
    end.

  Lemma dense_index_spec : forall {X} (rows : list X) (ix : index) (d : X),
    match ix with IInt _ => False | _ => True end ->
    dense_index rows ix =
    match py_positions (length rows) ix with
    | Some pos => Some (map (fun i => nth i rows d) pos)
    | None => None
    end.
  Proof.
    intros X rows ix d Hni. unfold dense_index, torch_positions.
    destruct ix; try contradiction;
      (destruct (py_positions (length rows) _) as [pos|] eqn:E; cbn [obind]; [|reflexivity];
       apply tgather_pick; eapply py_positions_bound; exact E).
  Qed.

  (* one feature: x[index] of the stored feature is the stored form of the selected rows *)
  Lemma feat_index_view : forall n v ix,
    view_wf n v -> match ix with IInt _ => False | _ => True end ->
    feat_index (feat_of_view v) ix =
    match py_positions n ix with
    | Some pos => Some (feat_of_view (vsel pos v))
    | None => None
    end.
  Proof.
    intros n v ix Hwf Hni. destruct v as [c k m|c m|ws m|d]; cbn [feat_of_view feat_index view_wf] in *.
    - destruct Hwf as [Hn _]. rewrite (dense_index_spec _ ix (concat (@nil (list payload))) Hni).
      rewrite map_length, Hn. destruct (py_positions n ix) as [pos|]; cbn [obind]; [|reflexivity].
      f_equal. cbn [vsel vmap feat_of_view]. f_equal. unfold pick_rows. rewrite map_map.
      apply map_ext. intros i. apply map_nth.
    - destruct Hwf as [Hn Hr]. rewrite (H_mnt_select_refines c m ix 0 Hr) by lia. cbn [Nat.eqb]. rewrite Hn.
      destruct (py_positions n ix); reflexivity.
    - destruct Hwf as [Hn Hr]. rewrite (H_met_select_refines ws m ix 0 Hr) by lia. cbn [Nat.eqb]. rewrite Hn.
      destruct (py_positions n ix); reflexivity.
    - destruct Hwf as [Hne Hall0].
      assert (Hall : forall kcm : string * (nat * cmat), In kcm d ->
                length (snd (snd kcm)) = n /\ rect (fst (snd kcm)) (snd (snd kcm)))
        by (apply Forall_forall; exact Hall0).
      destruct (py_positions n ix) as [pos|] eqn:E.
      + cbn [vsel vmap feat_of_view]. rewrite mapM_map.
        erewrite (mapM_all_some _ (fun kcm => (fst kcm, mnt_of_cells (fst (snd kcm)) (pick_rows pos (snd (snd kcm)))))).
        * cbn [option_map]. rewrite map_map. reflexivity.
        * intros kcm Hin. cbn [fst snd].
          destruct (Hall kcm Hin) as [Hn Hr]. rewrite (H_mnt_select_refines (fst (snd kcm)) (snd (snd kcm)) ix 0 Hr) by lia.
          cbn [Nat.eqb]. rewrite Hn, E. reflexivity.
      + rewrite mapM_map. rewrite mapM_has_none; [reflexivity|exact Hne|].
        intros kcm Hin. cbn [fst snd].
        destruct (Hall kcm Hin) as [Hn Hr]. rewrite (H_mnt_select_refines (fst (snd kcm)) (snd (snd kcm)) ix 0 Hr) by lia.
        cbn [Nat.eqb]. rewrite Hn, E. reflexivity.
  Qed.

  Lemma feats_index_some : forall n vs ix pos,
    Forall (fun sv => view_wf n (snd sv)) vs -> match ix with IInt _ => False | _ => True end ->
    py_positions n ix = Some pos ->
    mapM (fun sx : stype * feat => option_map (pair (fst sx)) (feat_index (snd sx) ix))
         (map (fun sv : stype * fview => (fst sv, feat_of_view (snd sv))) vs)
    = Some (map (fun sv : stype * fview => (fst sv, feat_of_view (snd sv)))
                (map (fun sv => (fst sv, vsel pos (snd sv))) vs)).
  Proof.
    intros n vs ix pos Hwf Hni E. rewrite mapM_map. rewrite map_map.
    apply mapM_all_some. intros sv Hin. cbn [fst snd].
    rewrite Forall_forall in Hwf. rewrite (feat_index_view n _ ix (Hwf sv Hin) Hni), E. reflexivity.
  Qed.

  Lemma feats_index_none : forall n vs ix,
    Forall (fun sv => view_wf n (snd sv)) vs -> match ix with IInt _ => False | _ => True end ->
    vs <> [] -> py_positions n ix = None ->
    mapM (fun sx : stype * feat => option_map (pair (fst sx)) (feat_index (snd sx) ix))
         (map (fun sv : stype * fview => (fst sv, feat_of_view (snd sv))) vs) = None.
  Proof.
    intros n vs ix Hwf Hni Hne E. rewrite mapM_map. apply mapM_has_none; [exact Hne|].
    intros sv Hin. cbn [fst snd].
    rewrite Forall_forall in Hwf. rewrite (feat_index_view n _ ix (Hwf sv Hin) Hni), E. reflexivity.
  Qed.

  (* C07 main statement, valid index *)
  Lemma getitem_coherent_proof : forall n vs nm yy ov ix pos,
    frame_wf n vs yy ov ->
    py_positions n (as_list_index ix) = Some pos ->
    tf_getitem (frame_of vs nm yy ov) ix = Some (sel_frame pos vs nm yy ov).
  Proof.
    intros n vs nm yy ov ix pos [Hv [Hy Ho]] E.
    unfold tf_getitem. fold (as_list_index ix). pose proof (as_list_not_int ix) as Hni.
    set (ix' := as_list_index ix) in *. cbn [frame_of feats y num_rows_override names].
    rewrite (feats_index_some n vs ix' pos Hv Hni E). cbn [obind].
    assert (Ey : match yy with
                 | Some v => option_map Some (dense_index v ix')
                 | None => Some None end = Some (option_map (ysel pos) yy)).
    { destruct yy as [v|]; [|reflexivity]. rewrite (dense_index_spec v ix' None Hni), Hy, E. reflexivity. }
    rewrite Ey. cbn [obind].
    assert (Eo : match ov with
                 | Some k => option_map (fun p : list nat => Some (length p)) (dense_index (seq 0 k) ix')
                 | None => Some None end = Some (option_map (fun _ => length pos) ov)).
    { destruct ov as [k|]; [|reflexivity]. subst k.
      rewrite (dense_index_spec (seq 0 n) ix' 0 Hni), seq_length, E. cbn [option_map]. rewrite map_length. reflexivity. }
    rewrite Eo. cbn [obind]. reflexivity.
  Qed.

  (* C07 main statement, invalid index: everything raises as soon as there is anything to index *)
  Lemma getitem_raises_proof : forall n vs nm yy ov ix,
    frame_wf n vs yy ov ->
    vs <> [] \/ yy <> None \/ ov <> None ->
    py_positions n (as_list_index ix) = None ->
    tf_getitem (frame_of vs nm yy ov) ix = None.
  Proof.
    intros n vs nm yy ov ix [Hv [Hy Ho]] Hdata E.
    unfold tf_getitem. fold (as_list_index ix). pose proof (as_list_not_int ix) as Hni.
    set (ix' := as_list_index ix) in *. cbn [frame_of feats y num_rows_override names].
    destruct vs as [|sv vs'].
    - cbn [map mapM obind].
      destruct yy as [v|].
      + rewrite (dense_index_spec v ix' None Hni), Hy, E. reflexivity.
      + cbn [obind]. destruct ov as [k|].
        * subst k. rewrite (dense_index_spec (seq 0 n) ix' 0 Hni), seq_length, E. reflexivity.
        * destruct Hdata as [H|[H|H]]; congruence.
    - rewrite (feats_index_none n (sv :: vs') ix' Hv Hni) by (congruence || exact E). reflexivity.
  Qed.

  (* well-formedness is preserved, with the new row count *)
  Lemma view_wf_vsel : forall n v pos,
    view_wf n v -> Forall (fun i => i < n) pos -> view_wf (length pos) (vsel pos v).
  Proof.
    intros n v pos Hwf Hp. destruct v as [c k m|c m|ws m|d]; cbn [vsel vmap view_wf] in *.
    - destruct Hwf as [Hn Hr]. split; [apply pick_rows_length|]. apply pick_rows_Forall; [exact Hr|]. rewrite Hn; exact Hp.
    - destruct Hwf as [Hn Hr]. split; [apply pick_rows_length|]. apply pick_rows_rect; [exact Hr|]. rewrite Hn; exact Hp.
    - destruct Hwf as [Hn Hr]. split; [apply pick_rows_length|]. apply pick_rows_rect_w; [exact Hr|]. rewrite Hn; exact Hp.
    - destruct Hwf as [Hne Hall]. split; [destruct d; [congruence|discriminate]|].
      apply Forall_map. eapply Forall_impl; [|exact Hall]. intros kcm [Hn Hr]. cbn [fst snd].
      split; [apply pick_rows_length|]. apply pick_rows_rect; [exact Hr|]. unfold cellmat in *. rewrite Hn; exact Hp.
  Qed.

  Lemma frame_wf_sel : forall n vs yy ov pos,
    frame_wf n vs yy ov -> Forall (fun i => i < n) pos ->
    frame_wf (length pos) (map (fun sv => (fst sv, vsel pos (snd sv))) vs) (option_map (ysel pos) yy)
             (option_map (fun _ => length pos) ov).
  Proof.
    intros n vs yy ov pos [Hv [Hy Ho]] Hp. split; [|split].
    - apply Forall_map. eapply Forall_impl; [|exact Hv]. cbn [fst snd]. intros sv H. apply (view_wf_vsel n); assumption.
    - destruct yy; cbn [option_map]; [unfold ysel; apply map_length|exact I].
    - destruct ov; cbn [option_map]; [reflexivity|].
      destruct Ho as [Hne|Hz]; [left; destruct vs; [congruence|discriminate]|].
      right. subst n. destruct pos as [|i pos']; [reflexivity|]. inversion Hp; lia.
  Qed.

  (* len(frame_of ...) *)
  Lemma feat_len_view : forall n v, view_wf n v -> feat_len (feat_of_view v) = Some n.
  Proof.
    intros n v H. destruct v as [c k m|c m|ws m|d]; cbn [feat_of_view feat_len view_wf] in *.
    - destruct H as [Hn _]. rewrite map_length, Hn. reflexivity.
    - destruct H as [Hn _]. unfold mnt_of_cells. cbn [nr]. rewrite Hn. reflexivity.
    - destruct H as [Hn _]. unfold met_of_cells. cbn [er]. rewrite Hn. reflexivity.
    - destruct H as [Hne Hall]. destruct d as [|kcm d']; [congruence|]. cbn [map snd].
      inversion Hall as [|? ? [Hn _] _]; subst. unfold mnt_of_cells. cbn [nr]. reflexivity.
  Qed.

  Lemma num_rows_frame_of : forall n vs nm yy ov, frame_wf n vs yy ov -> tf_num_rows (frame_of vs nm yy ov) = Some n.
  Proof.
    intros n vs nm yy ov [Hv [Hy Ho]]. unfold tf_num_rows. cbn [frame_of num_rows_override feats].
    destruct ov as [k|]; [subst; reflexivity|].
    destruct vs as [|sv vs']; cbn [map].
    - destruct Ho as [H|H]; [congruence|subst; reflexivity].
    - cbn [snd]. inversion Hv; subst. apply feat_len_view. assumption.
  Qed.

  (* the reported length is the number of selected rows, zero included *)
  Lemma getitem_len_proof : forall n vs nm yy ov ix pos,
    frame_wf n vs yy ov ->
    py_positions n (as_list_index ix) = Some pos ->
    exists f', tf_getitem (frame_of vs nm yy ov) ix = Some f' /\ tf_num_rows f' = Some (length pos) /\ names f' = nm.
  Proof.
    intros n vs nm yy ov ix pos Hwf E. eexists. split; [apply (getitem_coherent_proof n); eassumption|].
    split; [|reflexivity]. unfold sel_frame. apply num_rows_frame_of. apply (frame_wf_sel n); [exact Hwf|].
    eapply py_positions_bound; exact E.
  Qed.

  (* chains of selections *)
  Lemma getitem_chain_proof : forall p n vs nm yy ov,
    frame_wf n vs yy ov ->
    vs <> [] \/ yy <> None \/ ov <> None ->
    tf_getitem_chain (frame_of vs nm yy ov) p = spec_chain n vs nm yy ov p.
  Proof.
    induction p as [|ix rest IH]; intros n vs nm yy ov Hwf Hdata; cbn [tf_getitem_chain spec_chain]; [reflexivity|].
    destruct (py_positions n (as_list_index ix)) as [pos|] eqn:E.
    - rewrite (getitem_coherent_proof n vs nm yy ov ix pos Hwf E). cbn [obind]. unfold sel_frame.
      apply IH.
      + apply (frame_wf_sel n); [exact Hwf|]. eapply py_positions_bound; exact E.
      + destruct Hdata as [H|[H|H]].
        * left. destruct vs; [congruence|discriminate].
        * right; left. destruct yy; [discriminate|congruence].
        * right; right. destruct ov; [discriminate|congruence].
    - rewrite (getitem_raises_proof n vs nm yy ov ix Hwf Hdata E). reflexivity.
  Qed.
End C07.

(* a slice that overshoots the end is the slice of the Python list: rows a .. n-1 *)
Lemma overshoot_positions : forall n a b,
  a <= n -> n <= b ->
  py_positions n (ISlice (Some (Z.of_nat a)) (Some (Z.of_nat b)) None) = Some (seq a (n - a)).
Proof.
  intros n a b Ha Hb. cbn [py_positions]. cbn [Z.leb Z.compare]. unfold slice_indices, clamp_bound.
  assert (E1 : (Z.of_nat a <? 0)%Z = false) by (apply Z.ltb_ge; lia). rewrite E1.
  assert (E2 : (Z.of_nat b <? 0)%Z = false) by (apply Z.ltb_ge; lia). rewrite E2.
  replace (Z.to_nat (Z.max 0 (Z.min (Z.of_nat a) (Z.of_nat n)))) with a by lia.
  replace (Z.to_nat (Z.max 0 (Z.min (Z.of_nat b) (Z.of_nat n)))) with n by lia.
  change (Z.to_nat 1) with 1. rewrite range_up_1. reflexivity.
Qed.

Lemma overshoot_rows : forall {B} (m : cellmat B) n a,
  length m = n -> a <= n -> pick_rows (seq a (n - a)) m = skipn a m.
Proof.
  intros B m n a Hn Ha. unfold pick_rows. rewrite map_nth_seq_tslice by lia. unfold tslice.
  replace (a + (n - a) - a) with (n - a) by lia. apply firstn_all2. rewrite skipn_length. lia.
Qed.

(* ================================================================== *)
(* C08 *)

Lemma stype_eqb_spec : forall a b, stype_eqb a b = true <-> a = b.
Proof. intros a b; destruct a, b; simpl; split; intros H; try reflexivity; try discriminate. Qed.

Lemma stype_eqb_refl : forall a, stype_eqb a a = true.
Proof. intros a. apply stype_eqb_spec. reflexivity. Qed.

Lemma str_eqb_spec : forall a b, String.eqb a b = true <-> a = b.
Proof. intros. apply String.eqb_eq. Qed.

(* ------------------------------------------------------------------ *)
(* association lists *)
Section AssocFacts.
  Context {K V : Type}.
  Variable keqb : K -> K -> bool.
  Hypothesis keqb_spec : forall a b, keqb a b = true <-> a = b.

  Lemma keqb_refl : forall a, keqb a a = true.
  Proof. intros a. apply keqb_spec. reflexivity. Qed.

  Lemma keqb_neq : forall a b, a <> b -> keqb a b = false.
  Proof. intros a b H. destruct (keqb a b) eqn:E; [|reflexivity]. apply keqb_spec in E. contradiction. Qed.

  Lemma alookup_In : forall k (v : V) d, alookup keqb k d = Some v -> In (k, v) d.
  Proof.
    induction d as [|[k' v'] r IH]; simpl; [discriminate|].
    destruct (keqb k k') eqn:E.
    - intros H; injection H as <-. apply keqb_spec in E; subst. left; reflexivity.
    - intros H. right. apply IH. exact H.
  Qed.

  Lemma alookup_None : forall k (d : list (K * V)), alookup keqb k d = None <-> ~ In k (map fst d).
  Proof.
    induction d as [|[k' v'] r IH]; simpl; [tauto|].
    destruct (keqb k k') eqn:E.
    - apply keqb_spec in E; subst. split; [discriminate|]. intros H; exfalso; apply H; left; reflexivity.
    - rewrite IH. split; [|tauto]. intros H [H1|H1]; [|tauto]. subst. rewrite keqb_refl in E. discriminate.
  Qed.

  Lemma In_alookup : forall k (v : V) d, NoDup (map fst d) -> In (k, v) d -> alookup keqb k d = Some v.
  Proof.
    induction d as [|[k' v'] r IH]; simpl; [tauto|]. intros Hnd [H|H].
    - injection H as -> ->. rewrite keqb_refl. reflexivity.
    - inversion Hnd as [|? ? Hni Hnd']; subst. destruct (keqb k k') eqn:E.
      + apply keqb_spec in E; subst. exfalso. apply Hni. apply in_map_iff. exists (k', v). split; [reflexivity|exact H].
      + apply IH; assumption.
  Qed.

  Lemma alookup_app : forall k (a b : list (K * V)),
    alookup keqb k (a ++ b) = match alookup keqb k a with Some v => Some v | None => alookup keqb k b end.
  Proof.
    induction a as [|[k' v'] r IH]; intros b; simpl; [reflexivity|].
    destruct (keqb k k'); [reflexivity|apply IH].
  Qed.

  Lemma alookup_aset_same : forall k (v : V) d, alookup keqb k (aset keqb k v d) = Some v.
  Proof.
    induction d as [|[k' v'] r IH]; simpl; [rewrite keqb_refl; reflexivity|].
    destruct (keqb k k') eqn:E; simpl; rewrite E; [reflexivity|exact IH].
  Qed.

  Lemma alookup_aset_other : forall k k2 (v : V) d, k2 <> k -> alookup keqb k2 (aset keqb k v d) = alookup keqb k2 d.
  Proof.
    induction d as [|[k' v'] r IH]; intros Hne; simpl.
    - rewrite (keqb_neq _ _ Hne). reflexivity.
    - destruct (keqb k k') eqn:E; simpl.
      + apply keqb_spec in E; subst. rewrite (keqb_neq _ _ Hne). reflexivity.
      + destruct (keqb k2 k'); [reflexivity|apply IH; exact Hne].
  Qed.

  Lemma aset_keys_present : forall k (v v0 : V) d, alookup keqb k d = Some v0 -> map fst (aset keqb k v d) = map fst d.
  Proof.
    induction d as [|[k' v'] r IH]; simpl; [discriminate|].
    destruct (keqb k k') eqn:E; simpl; [reflexivity|]. intros H. rewrite IH; [reflexivity|exact H].
  Qed.

  Lemma amem_In : forall k ks, amem keqb k ks = true <-> In k ks.
  Proof.
    intros k ks. unfold amem. rewrite existsb_exists. split.
    - intros [x [Hx E]]. apply keqb_spec in E; subst; exact Hx.
    - intros H. exists k. split; [exact H|apply keqb_refl].
  Qed.

  Lemma keys_eqb_true : forall a b : list K,
    length a = length b -> (forall k, In k a -> In k b) -> (forall k, In k b -> In k a) -> keys_eqb keqb a b = true.
  Proof.
    intros a b Hl H1 H2. unfold keys_eqb. rewrite Hl, Nat.eqb_refl. simpl.
    apply andb_true_intro; split; apply forallb_forall; intros k Hk; apply amem_In; auto.
  Qed.

  Lemma dict_eqb_refl : forall (veqb : V -> V -> bool) (d : list (K * V)),
    (forall v, veqb v v = true) -> NoDup (map fst d) -> dict_eqb keqb veqb d d = true.
  Proof.
    intros veqb d Hr Hnd. unfold dict_eqb. rewrite Nat.eqb_refl. simpl.
    apply forallb_forall. intros [k v] Hin. simpl. rewrite (In_alookup k v d Hnd Hin). apply Hr.
  Qed.
End AssocFacts.

Lemma NoDup_app_intro_single : forall {X} (l : list X) x, NoDup l -> ~ In x l -> NoDup (l ++ [x]).
Proof.
  induction l as [|a r IH]; intros x Hnd Hni; simpl.
  - constructor; [intros []|constructor].
  - inversion Hnd as [|? ? Ha Hr]; subst. constructor.
    + rewrite in_app_iff. intros [H|[H|[]]]; [contradiction|]. subst. apply Hni. left; reflexivity.
    + apply IH; [exact Hr|]. intros H. apply Hni. right; exact H.
Qed.

(* defaultdict(list) grouping: processing a flat list of (key, values) pairs *)
Section GroupFacts.
  Context {K W : Type}.
  Variable keqb : K -> K -> bool.
  Hypothesis keqb_spec : forall a b, keqb a b = true <-> a = b.

  Definition gstep (acc : list (K * list W)) (kv : K * list W) := dict_extend keqb acc (fst kv) (snd kv).
  Definition vals_of (k : K) (L : list (K * list W)) : list W :=
    concat (map snd (filter (fun kv => keqb k (fst kv)) L)).
  Definition has_key (k : K) (L : list (K * list W)) : bool := existsb (fun kv => keqb k (fst kv)) L.

  Lemma fold_flat : forall {T U} (f : list (K * list W) -> U -> list (K * list W)) (g : T -> list U) (ts : list T) acc,
    fold_left (fun a t => fold_left f (g t) a) ts acc = fold_left f (flat_map g ts) acc.
  Proof.
    intros T U f g ts. induction ts as [|t r IH]; intros acc; simpl; [reflexivity|].
    rewrite fold_left_app. apply IH.
  Qed.

  Lemma gstep_lookup : forall acc kv k,
    alookup keqb k (gstep acc kv) =
    if keqb k (fst kv)
    then Some (match alookup keqb k acc with Some l => l ++ snd kv | None => snd kv end)
    else alookup keqb k acc.
  Proof.
    intros acc [k0 ws] k. unfold gstep, dict_extend. cbn [fst snd].
    destruct (keqb k k0) eqn:E.
    - apply keqb_spec in E; subst k0. destruct (alookup keqb k acc) as [l|] eqn:El.
      + apply (alookup_aset_same keqb keqb_spec).
      + rewrite alookup_app, El. simpl. rewrite (keqb_refl keqb keqb_spec). reflexivity.
    - assert (Hne : k <> k0) by (intros ->; rewrite (keqb_refl keqb keqb_spec) in E; discriminate).
      destruct (alookup keqb k0 acc) as [l|] eqn:El.
      + apply (alookup_aset_other keqb keqb_spec). exact Hne.
      + rewrite alookup_app. destruct (alookup keqb k acc); [reflexivity|]. simpl. rewrite E. reflexivity.
  Qed.

  Lemma group_lookup : forall L acc k,
    alookup keqb k (fold_left gstep L acc) =
    match alookup keqb k acc with
    | Some l => Some (l ++ vals_of k L)
    | None => if has_key k L then Some (vals_of k L) else None
    end.
  Proof.
    induction L as [|kv r IH]; intros acc k; simpl.
    - unfold vals_of. simpl. destruct (alookup keqb k acc); [rewrite app_nil_r|]; reflexivity.
    - rewrite IH, gstep_lookup. unfold vals_of. simpl. destruct (keqb k (fst kv)) eqn:E; simpl.
      + destruct (alookup keqb k acc); [rewrite app_assoc|]; reflexivity.
      + reflexivity.
  Qed.

  Lemma gstep_nodup : forall acc kv, NoDup (map fst acc) -> NoDup (map fst (gstep acc kv)).
  Proof.
    intros acc [k0 ws] H. unfold gstep, dict_extend. cbn [fst snd].
    destruct (alookup keqb k0 acc) as [l|] eqn:El.
    - rewrite (aset_keys_present keqb k0 _ l acc El). exact H.
    - rewrite map_app. simpl. apply NoDup_app_intro_single; [exact H|].
      apply (alookup_None keqb keqb_spec). exact El.
  Qed.
End GroupFacts.

Lemma fold_left_map : forall {X Y Z} (f : Z -> Y -> Z) (g : X -> Y) (l : list X) (a : Z),
  fold_left f (map g l) a = fold_left (fun a x => f a (g x)) l a.
Proof. intros X Y Z f g l. induction l as [|x r IH]; intros a; simpl; [reflexivity|apply IH]. Qed.

(* the flat list of (stype, [feature]) pairs that _cat_helper walks through *)
Definition flat_feats (tfs : list tframe) : list (stype * list feat) :=
  flat_map (fun tf => map (fun sx => (fst sx, [snd sx])) (feats tf)) tfs.
Definition flat_names (tfs : list tframe) : list (stype * list string) := flat_map names tfs.

Lemma fold_left_ext : forall {X Z} (f g : Z -> X -> Z) (l : list X) (a : Z),
  (forall a x, f a x = g a x) -> fold_left f l a = fold_left g l a.
Proof. intros X Z f g l. induction l as [|x r IH]; intros a H; simpl; [reflexivity|]. rewrite H. apply IH. exact H. Qed.

Lemma group_feats_flat : forall tfs, group_feats tfs = fold_left (gstep stype_eqb) (flat_feats tfs) [].
Proof.
  intros tfs. unfold group_feats, flat_feats.
  rewrite <- (fold_flat (gstep stype_eqb) (fun tf => map (fun sx => (fst sx, [snd sx])) (feats tf))).
  apply fold_left_ext. intros a tf. rewrite fold_left_map. reflexivity.
Qed.

Lemma group_names_flat : forall tfs, group_names tfs = fold_left (gstep stype_eqb) (flat_names tfs) [].
Proof.
  intros tfs. unfold group_names, flat_names.
  rewrite <- (fold_flat (gstep stype_eqb) names).
  apply fold_left_ext. intros a tf. apply fold_left_ext. intros a' [s c]. reflexivity.
Qed.

Lemma fold_gstep_nodup : forall {W} (L : list (stype * list W)) acc,
  NoDup (map fst acc) -> NoDup (map fst (fold_left (gstep stype_eqb) L acc)).
Proof.
  intros W L. induction L as [|kv r IH]; intros acc H; simpl; [exact H|].
  apply IH. apply (gstep_nodup stype_eqb stype_eqb_spec). exact H.
Qed.

Lemma group_In : forall {W} (L : list (stype * list W)) s l,
  In (s, l) (fold_left (gstep stype_eqb) L []) -> l = vals_of stype_eqb s L /\ has_key stype_eqb s L = true.
Proof.
  intros W L s l Hin.
  assert (Hnd : NoDup (map fst (fold_left (gstep stype_eqb) L []))) by (apply fold_gstep_nodup; constructor).
  pose proof (In_alookup stype_eqb stype_eqb_spec s l _ Hnd Hin) as E.
  rewrite (group_lookup stype_eqb stype_eqb_spec) in E. simpl in E.
  destruct (has_key stype_eqb s L); [|discriminate]. injection E as <-. split; reflexivity.
Qed.

Lemma group_has : forall {W} (L : list (stype * list W)) s,
  has_key stype_eqb s L = true -> In (s, vals_of stype_eqb s L) (fold_left (gstep stype_eqb) L []).
Proof.
  intros W L s H. apply (alookup_In stype_eqb stype_eqb_spec).
  rewrite (group_lookup stype_eqb stype_eqb_spec). simpl. rewrite H. reflexivity.
Qed.

(* ------------------------------------------------------------------ *)
(* validate() *)
Lemma validate_ok : forall n fs nm yy ov,
  length fs = length nm ->
  (forall s, In s (map fst fs) -> In s (map fst nm)) ->
  (forall s, In s (map fst nm) -> In s (map fst fs)) ->
  tf_num_rows (MkTF fs nm yy ov) = Some n ->
  (forall s x, In (s, x) fs ->
     exists cn, alookup stype_eqb s nm = Some cn /\ cn <> [] /\
                Forall (fun rc => snd rc = length cn /\ fst rc = n) (feat_shapes x)) ->
  match yy with Some v => length v = n | None => True end ->
  tf_validate (MkTF fs nm yy ov) = true.
Proof.
  intros n fs nm yy ov Hl H1 H2 Hn Hf Hy. unfold tf_validate. cbn [feats names y].
  rewrite (keys_eqb_true stype_eqb stype_eqb_spec) by (rewrite ?map_length; assumption).
  rewrite Hn. cbn [andb].
  apply andb_true_intro; split; [apply andb_true_intro; split|].
  - apply forallb_forall. intros [s x] Hin. cbn [fst snd].
    destruct (Hf s x Hin) as [cn [E [_ Hs]]]. rewrite E.
    apply forallb_forall. intros [r c] Hrc. rewrite Forall_forall in Hs. destruct (Hs _ Hrc) as [Hc Hr].
    cbn [fst snd] in *. subst. rewrite !Nat.eqb_refl. reflexivity.
  - apply forallb_forall. intros [s x] Hin. cbn [fst snd].
    destruct (Hf s x Hin) as [cn [E [Hne _]]]. rewrite E. destruct cn; [congruence|reflexivity].
  - destruct yy as [v|]; [|reflexivity]. apply Nat.eqb_eq. exact Hy.
Qed.

Lemma feat_shapes_view : forall n v,
  view_wf n v -> vdict_ok v ->
  Forall (fun rc => snd rc = vncols v /\ fst rc = n) (feat_shapes (feat_of_view v)).
Proof.
  intros n v Hwf Hd. destruct v as [c k m|c m|ws m|d]; cbn [feat_of_view feat_shapes view_wf vncols vdict_ok] in *.
  - destruct Hwf as [Hn _]. constructor; [|constructor]. cbn [fst snd]. rewrite map_length. auto.
  - destruct Hwf as [Hn _]. constructor; [|constructor]. unfold mnt_of_cells. cbn [fst snd nr nc]. auto.
  - destruct Hwf as [Hn _]. constructor; [|constructor]. unfold met_of_cells. cbn [fst snd er ec]. auto.
  - destruct Hwf as [Hne Hall]. destruct Hd as [_ Hc]. rewrite map_map. apply Forall_map.
    rewrite Forall_forall in *. intros kcm Hin. cbn [fst snd]. unfold mnt_of_cells. cbn [nr nc].
    destruct (Hall kcm Hin) as [Hn _]. split; [apply Hc; exact Hin|exact Hn].
Qed.

(* a frame given by views with consistent names passes validate() *)
Lemma frame_of_validates : forall n vs nm yy ov,
  frame_wf n vs yy ov -> names_ok vs nm -> tf_validate (frame_of vs nm yy ov) = true.
Proof.
  intros n vs nm yy ov Hwf [Hndv [Hndn [Hl [Hsub Hcols]]]].
  pose proof (num_rows_frame_of n vs nm yy ov Hwf) as Hn. destruct Hwf as [Hv [Hy Ho]].
  unfold frame_of in *. apply (validate_ok n).
  - rewrite map_length. symmetry; exact Hl.
  - intros s Hin. rewrite map_map in Hin. cbn [fst] in Hin. apply in_map_iff in Hin. destruct Hin as [[s' v] [<- Hin]].
    destruct (Hcols s' v Hin) as [_ [cn [E _]]]. apply (alookup_In stype_eqb stype_eqb_spec) in E.
    apply in_map_iff. exists (s', cn). split; [reflexivity|exact E].
  - intros s Hin. rewrite map_map. cbn [fst]. apply Hsub. exact Hin.
  - exact Hn.
  - intros s x Hin. apply in_map_iff in Hin. destruct Hin as [[s' v] [E Hin]]. injection E as <- <-.
    destruct (Hcols s' v Hin) as [Hd [cn [E [Hlen Hne]]]]. exists cn. split; [exact E|]. split; [exact Hne|].
    rewrite Hlen. apply feat_shapes_view; [|exact Hd]. rewrite Forall_forall in Hv. apply (Hv (s', v) Hin).
  - exact Hy.
Qed.

(* validate() rejects: a feature whose number of rows or of columns disagrees, a target of the wrong length *)
Lemma validate_rejects_rows : forall f n s x r c,
  tf_num_rows f = Some n -> In (s, x) (feats f) -> In (r, c) (feat_shapes x) -> r <> n -> tf_validate f = false.
Proof.
  intros f n s x r c Hn Hin Hrc Hne. unfold tf_validate. rewrite Hn.
  destruct (keys_eqb stype_eqb (map fst (feats f)) (map fst (names f))); [|reflexivity]. cbn [andb].
  match goal with |- ?A && ?B && ?C = false => assert (HA : A = false) end.
  { apply not_true_is_false. intros HA. rewrite forallb_forall in HA. specialize (HA (s, x) Hin). cbn [fst snd] in HA.
    destruct (alookup stype_eqb s (names f)); [|discriminate]. rewrite forallb_forall in HA.
    specialize (HA (r, c) Hrc). cbn [fst snd] in HA. apply andb_prop in HA. destruct HA as [_ HA].
    apply Nat.eqb_eq in HA. contradiction. }
  rewrite HA. reflexivity.
Qed.

Lemma validate_rejects_cols : forall f s x r c cn,
  In (s, x) (feats f) -> In (r, c) (feat_shapes x) -> alookup stype_eqb s (names f) = Some cn -> c <> length cn ->
  tf_validate f = false.
Proof.
  intros f s x r c cn Hin Hrc Hcn Hne. unfold tf_validate.
  destruct (keys_eqb stype_eqb (map fst (feats f)) (map fst (names f))); [|reflexivity]. cbn [andb].
  destruct (tf_num_rows f) as [n|]; [|reflexivity].
  match goal with |- ?A && ?B && ?C = false => assert (HA : A = false) end.
  { apply not_true_is_false. intros HA. rewrite forallb_forall in HA. specialize (HA (s, x) Hin). cbn [fst snd] in HA.
    rewrite Hcn in HA. rewrite forallb_forall in HA.
    specialize (HA (r, c) Hrc). cbn [fst snd] in HA. apply andb_prop in HA. destruct HA as [HA _].
    apply Nat.eqb_eq in HA. congruence. }
  rewrite HA. reflexivity.
Qed.

Lemma validate_rejects_y : forall f n v,
  tf_num_rows f = Some n -> y f = Some v -> length v <> n -> tf_validate f = false.
Proof.
  intros f n v Hn Hy Hne. unfold tf_validate. rewrite Hn, Hy.
  destruct (keys_eqb stype_eqb (map fst (feats f)) (map fst (names f))); [|reflexivity]. cbn [andb].
  rewrite andb_comm. assert (E : (length v =? n) = false) by (apply Nat.eqb_neq; exact Hne). rewrite E. reflexivity.
Qed.

Lemma validate_rejects_keys : forall f s,
  In s (map fst (feats f)) -> ~ In s (map fst (names f)) -> tf_validate f = false.
Proof.
  intros f s Hin Hni. unfold tf_validate.
  assert (E : keys_eqb stype_eqb (map fst (feats f)) (map fst (names f)) = false).
  { apply not_true_is_false. intros H. unfold keys_eqb in H. apply andb_prop in H. destruct H as [H _].
    apply andb_prop in H. destruct H as [_ H]. rewrite forallb_forall in H. specialize (H s Hin).
    apply (amem_In stype_eqb stype_eqb_spec) in H. contradiction. }
  rewrite E. reflexivity.
Qed.

(* ------------------------------------------------------------------ *)
(* __eq__ *)
Lemma list_eqb_Forall2 : forall {X} (e : X -> X -> bool) (a b : list X),
  list_eqb e a b = true <-> Forall2 (fun x z => e x z = true) a b.
Proof.
  intros X e a. induction a as [|x r IH]; intros [|z b]; simpl; split; intros H; try discriminate; try constructor;
    try (inversion H; fail).
  - apply andb_prop in H. tauto.
  - apply andb_prop in H. apply IH. tauto.
  - inversion H; subst. apply andb_true_intro. split; [assumption|apply IH; assumption].
Qed.

Lemma list_eqb_refl : forall {X} (e : X -> X -> bool) (a : list X), (forall x, In x a -> e x x = true) -> list_eqb e a a = true.
Proof.
  intros X e a. induction a as [|x r IH]; intros H; simpl; [reflexivity|].
  rewrite (H x (or_introl eq_refl)). apply IH. intros z Hz. apply H. right; exact Hz.
Qed.

Lemma list_eqb_eq : forall {X} (e : X -> X -> bool) (a b : list X),
  (forall x z, e x z = true <-> x = z) -> (list_eqb e a b = true <-> a = b).
Proof.
  intros X e a b He. rewrite list_eqb_Forall2. split.
  - intros H. induction H; [reflexivity|]. f_equal; [apply He; assumption|assumption].
  - intros ->. induction b; constructor; [apply He; reflexivity|assumption].
Qed.

Lemma names_eqb_iff : forall na nb, names_eqb na nb = true <-> names_equiv na nb.
Proof.
  intros na nb. unfold names_eqb, dict_eqb, names_equiv. rewrite andb_true_iff, Nat.eqb_eq, forallb_forall.
  split; intros [Hl H]; (split; [exact Hl|]).
  - intros s cn Hin. specialize (H (s, cn) Hin). cbn [fst snd] in H.
    destruct (alookup stype_eqb s nb) as [v|]; [|discriminate].
    apply (list_eqb_eq String.eqb) in H; [subst; reflexivity|apply str_eqb_spec].
  - intros [s cn] Hin. cbn [fst snd]. rewrite (H s cn Hin). apply (list_eqb_eq String.eqb); [apply str_eqb_spec|reflexivity].
Qed.

Section EqFacts.
  Variable close : Z -> Z -> bool.

  Definition eq_step (b : tframe) (acc : option bool) (sx : stype * feat) : option bool :=
    r <- acc ;;
    if negb r then Some false
    else xb <- alookup stype_eqb (fst sx) (feats b) ;; Some (feat_eq close (snd sx) xb).

  Lemma eq_fold_none : forall b l, fold_left (eq_step b) l None = None.
  Proof. intros b l. induction l; simpl; auto. Qed.

  Lemma eq_fold_false : forall b l, fold_left (eq_step b) l (Some false) = Some false.
  Proof. intros b l. induction l; simpl; auto. Qed.

  Lemma eq_fold_true : forall b l,
    fold_left (eq_step b) l (Some true) = Some true <->
    Forall (fun sx => exists xb, alookup stype_eqb (fst sx) (feats b) = Some xb /\ feat_eq close (snd sx) xb = true) l.
  Proof.
    intros b l. induction l as [|sx r IH]; cbn [fold_left].
    - split; [constructor|reflexivity].
    - remember (eq_step b (Some true) sx) as st eqn:Est. unfold eq_step in Est. cbn [obind negb] in Est.
      destruct (alookup stype_eqb (fst sx) (feats b)) as [xb|] eqn:E; cbn [obind] in Est; subst st.
      + destruct (feat_eq close (snd sx) xb) eqn:Ef.
        * rewrite IH. split; intros H.
          -- constructor; [exists xb; split; [exact E|exact Ef]|exact H].
          -- inversion H; assumption.
        * rewrite eq_fold_false. split; [discriminate|].
          intros H. inversion H as [|? ? [xb' [E' Ef']] _]; subst. rewrite E in E'. injection E' as <-. congruence.
      + rewrite eq_fold_none. split; [discriminate|].
        intros H. inversion H as [|? ? [xb' [E' _]] _]; subst. rewrite E in E'. discriminate.
  Qed.

  (* the boolean answer of __eq__ is Some true exactly on tf_equiv *)
  Lemma tf_eq_iff_proof : forall a b, tf_eq close a b = Some true <-> tf_equiv close a b.
  Proof.
    intros a b. unfold tf_eq, tf_equiv.
    destruct (tf_num_rows a) as [la|]; cbn [obind];
      [|split; [discriminate|intros [[n [H _]] _]; discriminate]].
    destruct (tf_num_rows b) as [lb|]; cbn [obind];
      [|split; [discriminate|intros [[n [_ H]] _]; discriminate]].
    destruct (la =? lb) eqn:El; cbn [negb].
    2:{ apply Nat.eqb_neq in El. split; [discriminate|]. intros [[n [H1 H2]] _]. congruence. }
    apply Nat.eqb_eq in El. subst lb.
    assert (Hn : (exists n, Some la = Some n /\ Some la = Some n) <-> True) by (split; [auto|intros _; exists la; auto]).
    rewrite Hn. clear Hn.
    change (fold_left _ (feats a) (Some true)) with (fold_left (eq_step b) (feats a) (Some true)).
    unfold y_equiv.
    destruct (y a) as [ya|], (y b) as [yb|]; cbn [obind].
    - destruct (length ya =? length yb) eqn:Ely; cbn [obind].
      + apply Nat.eqb_eq in Ely. destruct (list_eqb (pclose close false) yb ya) eqn:Ey; cbn [negb].
        * destruct (names_eqb (names a) (names b)) eqn:En; cbn [negb].
          -- rewrite eq_fold_true. apply names_eqb_iff in En. apply list_eqb_Forall2 in Ey. tauto.
          -- split; [discriminate|]. intros [_ [_ [H _]]]. apply names_eqb_iff in H. congruence.
        * split; [discriminate|]. intros [_ [[_ H] _]]. apply list_eqb_Forall2 in H. congruence.
      + apply Nat.eqb_neq in Ely. split; [discriminate|]. intros [_ [[H _] _]]. contradiction.
    - split; [discriminate|]. intros [_ [[] _]].
    - split; [discriminate|]. intros [_ [[] _]].
    - cbn [negb]. destruct (names_eqb (names a) (names b)) eqn:En; cbn [negb].
      + rewrite eq_fold_true. apply names_eqb_iff in En. tauto.
      + split; [discriminate|]. intros [_ [_ [H _]]]. apply names_eqb_iff in H. congruence.
  Qed.
End EqFacts.

(* ------------------------------------------------------------------ *)
(* flattened storage vs cells *)
Lemma Forall2_length' : forall {X Y} (R : X -> Y -> Prop) a b, Forall2 R a b -> length a = length b.
Proof. intros X Y R a b H. induction H; simpl; congruence. Qed.

Lemma Forall2_app_split_len : forall {X} (R : X -> X -> Prop) (a a' b b' : list X),
  length a = length a' -> Forall2 R (a ++ b) (a' ++ b') -> Forall2 R a a' /\ Forall2 R b b'.
Proof.
  intros X R a. induction a as [|x r IH]; intros [|x' r'] b b' Hl H; simpl in *; try discriminate.
  - split; [constructor|exact H].
  - inversion H; subst. destruct (IH r' b b') as [H1 H2]; [congruence|assumption|]. split; [constructor|]; assumption.
Qed.

Lemma Forall2_concat_split : forall {X} (R : X -> X -> Prop) (F F' : list (list X)),
  map (@length X) F = map (@length X) F' -> Forall2 R (concat F) (concat F') -> Forall2 (Forall2 R) F F'.
Proof.
  intros X R F. induction F as [|a r IH]; intros [|a' r'] Hm H; simpl in *; try discriminate.
  - constructor.
  - injection Hm as Hl Hm. destruct (Forall2_app_split_len R a a' _ _ Hl H) as [H1 H2].
    constructor; [exact H1|apply IH; assumption].
Qed.

Lemma Forall2_concat_join : forall {X} (R : X -> X -> Prop) (F F' : list (list X)),
  Forall2 (Forall2 R) F F' -> Forall2 R (concat F) (concat F').
Proof. intros X R F F' H. induction H; simpl; [constructor|]. apply Forall2_app; assumption. Qed.

Lemma Forall2_map_length : forall {X} (R : X -> X -> Prop) (F F' : list (list X)),
  Forall2 (Forall2 R) F F' -> map (@length X) F = map (@length X) F'.
Proof. intros X R F F' H. induction H; simpl; [reflexivity|]. f_equal; [eapply Forall2_length'; eassumption|assumption]. Qed.

Lemma cumsum_from_inj : forall l l' a, length l = length l' -> cumsum_from a l = cumsum_from a l' -> l = l'.
Proof.
  induction l as [|x r IH]; intros [|x' r'] a Hl H; simpl in *; try discriminate; [reflexivity|].
  injection H as H1 H2. assert (x = x') by lia. subst x'. f_equal. apply (IH r' (a + x)); congruence.
Qed.

Lemma offs_inj : forall l l', 0 :: cumsum l = 0 :: cumsum l' -> l = l'.
Proof.
  intros l l' H. injection H as H. unfold cumsum in H. apply (cumsum_from_inj l l' 0); [|exact H].
  rewrite <- (cumsum_from_length l 0), <- (cumsum_from_length l' 0), H. reflexivity.
Qed.

Lemma list_eqb_nat : forall a b : list nat, list_eqb Nat.eqb a b = true <-> a = b.
Proof. intros. apply list_eqb_eq. intros; apply Nat.eqb_eq. Qed.

Lemma Forall2_impl : forall {X Y} (R R' : X -> Y -> Prop) a b,
  (forall x z, R x z -> R' x z) -> Forall2 R a b -> Forall2 R' a b.
Proof. intros X Y R R' a b H H2. induction H2; constructor; auto. Qed.

Section ViewEq.
  Variable close : Z -> Z -> bool.
  Notation pc := (fun a b : payload => pclose close true a b = true).

  Lemma rect_lengths_eq : forall {X} c (m m' : list (list X)),
    Forall (fun r => length r = c) m -> Forall (fun r => length r = c) m' -> length m = length m' ->
    map (@length X) m = map (@length X) m'.
  Proof. intros X c m m' H H' Hl. rewrite (rect_map_length c m H), (rect_map_length c m' H'), Hl. reflexivity. Qed.

  (* MultiNestedTensor.allclose on canonical containers = same column count and close cells *)
  Lemma mnt_allclose_cells : forall c c' (m m' : cmat),
    rect c m -> rect c' m' ->
    (mnt_allclose close true (mnt_of_cells c m) (mnt_of_cells c' m') = true <->
     length m = length m' /\ c = c' /\ cells_close close m m').
  Proof.
    intros c c' m m' Hr Hr'. unfold mnt_allclose, mnt_of_cells, cells_close. cbn [nr nc vals offs].
    rewrite !andb_true_iff, !Nat.eqb_eq, list_eqb_Forall2, list_eqb_nat. split.
    - intros [[[[[Hn Hc] _] Hv] _] Ho]. subst c'. split; [exact Hn|split; [reflexivity|]].
      apply offs_inj in Ho.
      apply (Forall2_concat_split _ _ _ Ho) in Hv.
      apply Forall2_concat_split; [|exact Hv]. apply (rect_lengths_eq c); assumption.
    - intros [Hn [Hc H]]. subst c'.
      pose proof (Forall2_concat_join _ _ _ H) as H1. pose proof (Forall2_concat_join _ _ _ H1) as H2.
      pose proof (Forall2_map_length _ _ _ H1) as Hm.
      repeat split; try assumption; try reflexivity.
      + eapply Forall2_length'; exact H2.
      + rewrite Hm. reflexivity.
      + rewrite Hm. reflexivity.
  Qed.

  Definition same_shape (m m' : cmat) : Prop := Forall2 (fun r r' => map (@length payload) r = map (@length payload) r') m m'.

  Lemma rows_close_split : forall m m' : cmat,
    same_shape m m' -> Forall2 (fun r r' => Forall2 pc (concat r) (concat r')) m m' -> cells_close close m m'.
  Proof.
    intros m m' Hs. induction Hs as [|r r' m m' Hr Hs IH]; intros H; [constructor|].
    inversion H; subst. constructor; [|apply IH; assumption]. apply Forall2_concat_split; assumption.
  Qed.

  Lemma rows_close_join : forall m m' : cmat,
    cells_close close m m' -> Forall2 (Forall2 pc) (map (@concat payload) m) (map (@concat payload) m').
  Proof.
    intros m m' H. induction H; simpl; constructor; [|assumption]. apply Forall2_concat_join. assumption.
  Qed.

  Lemma Forall2_map_same : forall {X Y} (R : Y -> Y -> Prop) (f : X -> Y) a b,
    Forall2 R (map f a) (map f b) -> Forall2 (fun x z => R (f x) (f z)) a b.
  Proof.
    intros X Y R f a. induction a as [|x r IH]; intros [|z b] H; simpl in *; inversion H; subst; constructor; auto.
  Qed.

  Lemma rect_w_same_shape : forall ws (m m' : cmat), rect_w ws m -> rect_w ws m' -> length m = length m' -> same_shape m m'.
  Proof.
    intros ws m. induction m as [|r m IH]; intros [|r' m'] H H' Hl; simpl in *; try discriminate; [constructor|].
    inversion H; inversion H'; subst. constructor; [congruence|]. apply IH; [assumption|assumption|congruence].
  Qed.

  Lemma cells_close_length : forall m m' : cmat, cells_close close m m' -> length m = length m'.
  Proof. intros m m' H. eapply Forall2_length'; exact H. Qed.

  Lemma met_allclose_cells : forall ws ws' (m m' : cmat),
    rect_w ws m -> rect_w ws' m' ->
    (met_allclose close true (met_of_cells ws m) (met_of_cells ws' m') = true <->
     length m = length m' /\ ws = ws' /\ cells_close close m m').
  Proof.
    intros ws ws' m m' Hr Hr'. unfold met_allclose, met_of_cells. cbn [er ec evals eoffs t2rows t2w].
    rewrite !andb_true_iff, !Nat.eqb_eq, list_eqb_nat, list_eqb_Forall2. split.
    - intros [[[[[[Hn _] _] _] Hv] _] Ho]. apply offs_inj in Ho. subst ws'.
      split; [exact Hn|split; [reflexivity|]].
      apply rows_close_split; [apply (rect_w_same_shape ws); assumption|].
      apply Forall2_map_same in Hv. eapply Forall2_impl; [|exact Hv]. simpl. intros a b Hab.
      apply list_eqb_Forall2 in Hab. exact Hab.
    - intros [Hn [Hw H]]. subst ws'. rewrite !map_length.
      repeat split; try assumption; try reflexivity.
      pose proof (rows_close_join m m' H) as H1. eapply Forall2_impl; [|exact H1]. simpl. intros a b Hab.
      apply list_eqb_Forall2. exact Hab.
  Qed.

  Definition dense_wf (c k : nat) (m : cmat) : Prop :=
    Forall (fun r => length r = c /\ Forall (fun cl : list payload => length cl = k) r) m.

  Lemma dense_same_shape : forall c k (m m' : cmat), dense_wf c k m -> dense_wf c k m' -> length m = length m' -> same_shape m m'.
  Proof.
    intros c k m. induction m as [|r m IH]; intros [|r' m'] H H' Hl; simpl in *; try discriminate; [constructor|].
    inversion H as [|? ? [Hc Hk] Hm]; inversion H' as [|? ? [Hc' Hk'] Hm']; subst.
    constructor; [|apply IH; [assumption|assumption|congruence]].
    rewrite (rect_map_length k r Hk), (rect_map_length k r' Hk'). congruence.
  Qed.

  Lemma dense_eq_cells : forall c c' k k' (m m' : cmat),
    dense_wf c k m -> dense_wf c' k' m' ->
    (feat_eq close (FDense (map (@concat payload) m) c k) (FDense (map (@concat payload) m') c' k') = true <->
     length m = length m' /\ c = c' /\ k = k' /\ cells_close close m m').
  Proof.
    intros c c' k k' m m' Hw Hw'. cbn [feat_eq]. rewrite !andb_true_iff, !Nat.eqb_eq, list_eqb_Forall2, !map_length. split.
    - intros [[[Hn Hc] Hk] Hv]. subst c' k'. repeat split; try assumption.
      apply rows_close_split; [apply (dense_same_shape c k); assumption|].
      apply Forall2_map_same in Hv. eapply Forall2_impl; [|exact Hv]. simpl. intros a b Hab.
      apply list_eqb_Forall2 in Hab. exact Hab.
    - intros [Hn [Hc [Hk H]]]. subst c' k'. repeat split; try assumption.
      pose proof (rows_close_join m m' H) as H1. eapply Forall2_impl; [|exact H1]. simpl. intros a b Hab.
      apply list_eqb_Forall2. exact Hab.
  Qed.
End ViewEq.

Lemma alookup_map_snd : forall {V W} (g : V -> W) k (d : list (string * V)),
  alookup String.eqb k (map (fun kv => (fst kv, g (snd kv))) d) = option_map g (alookup String.eqb k d).
Proof.
  intros V W g k d. induction d as [|[k' v] r IH]; simpl; [reflexivity|].
  destruct (String.eqb k k'); [reflexivity|exact IH].
Qed.

Lemma alookup_map_snd_st : forall {V W} (g : V -> W) k (d : list (stype * V)),
  alookup stype_eqb k (map (fun kv => (fst kv, g (snd kv))) d) = option_map g (alookup stype_eqb k d).
Proof.
  intros V W g k d. induction d as [|[k' v] r IH]; simpl; [reflexivity|].
  destruct (stype_eqb k k'); [reflexivity|exact IH].
Qed.

Section ViewEq2.
  Variable close : Z -> Z -> bool.

  Lemma keys_eqb_iff : forall a b : list string,
    keys_eqb String.eqb a b = true <->
    length a = length b /\ (forall k, In k a -> In k b) /\ (forall k, In k b -> In k a).
  Proof.
    intros a b. unfold keys_eqb. rewrite !andb_true_iff, Nat.eqb_eq, !forallb_forall. split.
    - intros [[Hl H1] H2]. repeat split; try assumption; intros k Hk;
        apply (amem_In String.eqb str_eqb_spec); [apply H1|apply H2]; exact Hk.
    - intros [Hl [H1 H2]]. repeat split; try assumption; intros k Hk;
        apply (amem_In String.eqb str_eqb_spec); [apply H1|apply H2]; exact Hk.
  Qed.

  (* feature equality of __eq__ on stored views = closeness of the views *)
  Lemma feat_eq_views_proof : forall n n' v v',
    view_wf n v -> view_wf n' v' ->
    (feat_eq close (feat_of_view v) (feat_of_view v') = true <-> view_close close v v').
  Proof.
    intros n n' v v' Hw Hw'.
    destruct v as [c k m|c m|ws m|d], v' as [c' k' m'|c' m'|ws' m'|d'];
      try (cbn [feat_of_view feat_eq view_close]; split; [discriminate|tauto]).
    - cbn [feat_of_view view_close view_wf] in *. destruct Hw as [_ Hw], Hw' as [_ Hw'].
      rewrite (dense_eq_cells close c c' k k' m m' Hw Hw'). split; [tauto|].
      intros [Hc [Hk H]]. repeat split; try assumption. apply (cells_close_length close). exact H.
    - cbn [feat_of_view feat_eq view_close view_wf] in *. destruct Hw as [_ Hw], Hw' as [_ Hw'].
      rewrite (mnt_allclose_cells close c c' m m' Hw Hw'). split; [tauto|].
      intros [Hc H]. repeat split; try assumption. apply (cells_close_length close). exact H.
    - cbn [feat_of_view feat_eq view_close view_wf] in *. destruct Hw as [_ Hw], Hw' as [_ Hw'].
      rewrite (met_allclose_cells close ws ws' m m' Hw Hw'). split; [tauto|].
      intros [Hc H]. repeat split; try assumption. apply (cells_close_length close). exact H.
    - cbn [feat_of_view feat_eq view_close view_wf] in *. destruct Hw as [_ Hw], Hw' as [_ Hw'].
      rewrite Forall_forall in Hw, Hw'.
      rewrite andb_true_iff, keys_eqb_iff, forallb_forall, !map_map, !map_length. cbn [fst]. split.
      + intros [[Hl [H1 H2]] Hf]. split; [exact Hl|]. split; [exact H2|].
        intros kk c m Hin. specialize (Hf (kk, mnt_of_cells c m)). cbn [fst snd] in Hf.
        pose proof (alookup_map_snd (fun cm : nat * cellmat payload => mnt_of_cells (fst cm) (snd cm)) kk d') as Hm.
        cbn beta in Hm. rewrite Hm in Hf. clear Hm.
        assert (Hin' : In (kk, mnt_of_cells c m) (map (fun kcm : string * (nat * cellmat payload) =>
                   (fst kcm, mnt_of_cells (fst (snd kcm)) (snd (snd kcm)))) d)).
        { apply in_map_iff. exists (kk, (c, m)). split; [reflexivity|exact Hin]. }
        specialize (Hf Hin').
        destruct (alookup String.eqb kk d') as [[c' m']|] eqn:E; cbn [option_map] in Hf; [|discriminate].
        pose proof (alookup_In String.eqb str_eqb_spec _ _ _ E) as Hin2.
        destruct (Hw _ Hin) as [_ Hr]. destruct (Hw' _ Hin2) as [_ Hr']. cbn [fst snd] in *.
        apply (mnt_allclose_cells close c c' m m' Hr Hr') in Hf. destruct Hf as [_ [<- Hc]].
        exists m'. split; [reflexivity|exact Hc].
      + intros [Hl [H2 H3]]. split.
        * split; [exact Hl|]. split; [|exact H2].
          intros kk Hk. apply in_map_iff in Hk. destruct Hk as [[k0 [c m]] [<- Hin]]. cbn [fst].
          destruct (H3 k0 c m Hin) as [m' [E _]]. apply (alookup_In String.eqb str_eqb_spec) in E.
          apply in_map_iff. exists (k0, (c, m')). split; [reflexivity|exact E].
        * intros [kk t] Hin. apply in_map_iff in Hin. destruct Hin as [[k0 [c m]] [E Hin]]. injection E as <- <-.
          cbn [fst snd].
          pose proof (alookup_map_snd (fun cm : nat * cellmat payload => mnt_of_cells (fst cm) (snd cm)) k0 d') as Hm.
          cbn beta in Hm. rewrite Hm. clear Hm.
          destruct (H3 k0 c m Hin) as [m' [E Hc]]. rewrite E. cbn [option_map fst snd].
          pose proof (alookup_In String.eqb str_eqb_spec _ _ _ E) as Hin2.
          destruct (Hw _ Hin) as [_ Hr]. destruct (Hw' _ Hin2) as [_ Hr']. cbn [fst snd] in *.
          apply (mnt_allclose_cells close c c m m' Hr Hr'). repeat split; try assumption.
          apply (cells_close_length close). exact Hc.
  Qed.

  Hypothesis close_refl : forall z, close z z = true.

  Lemma pclose_refl : forall p, pclose close true p p = true.
  Proof. intros [z|]; simpl; [apply close_refl|reflexivity]. Qed.

  Lemma cells_close_refl : forall m : cmat, cells_close close m m.
  Proof.
    intros m. unfold cells_close. induction m as [|r m IH]; constructor; [|exact IH].
    induction r as [|cl r IHr]; constructor; [|exact IHr].
    induction cl as [|p cl IHc]; constructor; [apply pclose_refl|exact IHc].
  Qed.

  Lemma view_close_refl : forall v, vdict_ok v -> view_close close v v.
  Proof.
    intros v Hd. destruct v as [c k m|c m|ws m|d]; cbn [view_close vdict_ok] in *;
      try (repeat split; try reflexivity; apply cells_close_refl).
    destruct Hd as [Hnd _]. split; [reflexivity|]. split; [tauto|].
    intros kk c m Hin. exists m. split; [|apply cells_close_refl].
    apply (In_alookup String.eqb str_eqb_spec); assumption.
  Qed.
End ViewEq2.

Lemma Forall2_nth : forall {X} (R : X -> X -> Prop) (a b : list X) (d d' : X) i,
  Forall2 R a b -> i < length a -> R (nth i a d) (nth i b d').
Proof.
  intros X R a b d d' i H. revert i. induction H; intros i Hi; simpl in *; [lia|].
  destruct i; [assumption|]. apply IHForall2. lia.
Qed.

Section Perturb.
  Variable close : Z -> Z -> bool.

  Lemma cells_close_scalar : forall (m m' : cmat) i j k,
    cells_close close m m' ->
    i < length m -> j < length (nth i m []) -> k < length (nth j (nth i m []) []) ->
    pclose close true (scalar_at m i j k) (scalar_at m' i j k) = true.
  Proof.
    intros m m' i j k H Hi Hj Hk. unfold scalar_at.
    pose proof (Forall2_nth _ m m' [] [] i H Hi) as H1.
    pose proof (Forall2_nth _ _ _ [] [] j H1 Hj) as H2.
    exact (Forall2_nth _ _ _ None None k H2 Hk).
  Qed.

  Lemma view_close_comp : forall key v v' m,
    view_close close v v' -> view_comp key v = Some m ->
    exists m', view_comp key v' = Some m' /\ cells_close close m m'.
  Proof.
    intros key v v' m H E.
    destruct v as [c k0 m0|c m0|ws m0|d], v' as [c' k' m'|c' m'|ws' m'|d']; cbn [view_close] in H; try contradiction;
      destruct key as [kk|]; cbn [view_comp] in *; try discriminate.
    - injection E as <-. exists m'. split; [reflexivity|tauto].
    - injection E as <-. exists m'. split; [reflexivity|tauto].
    - injection E as <-. exists m'. split; [reflexivity|tauto].
    - destruct (alookup String.eqb kk d) as [[c m1]|] eqn:El; cbn [option_map snd] in E; [|discriminate].
      injection E as <-. destruct H as [_ [_ H]].
      apply (alookup_In String.eqb str_eqb_spec) in El. destruct (H kk c m1 El) as [m' [E' Hc]].
      exists m'. rewrite E'. split; [reflexivity|exact Hc].
  Qed.

  Lemma eq_fold_some : forall b l r0,
    (forall sx, In sx l -> exists xb, alookup stype_eqb (fst sx) (feats b) = Some xb) ->
    exists r, fold_left (eq_step close b) l (Some r0) = Some r.
  Proof.
    intros b l. induction l as [|sx r IH]; intros r0 H; cbn [fold_left]; [exists r0; reflexivity|].
    unfold eq_step at 2. cbn [obind]. destruct r0; cbn [negb].
    - destruct (H sx (or_introl eq_refl)) as [xb E]. rewrite E. cbn [obind]. apply IH. intros z Hz. apply H. right; exact Hz.
    - apply IH. intros z Hz. apply H. right; exact Hz.
  Qed.

  (* __eq__ does not raise on frames over the same stypes whose targets have the lengths of the frames *)
  Lemma tf_eq_total : forall a b la lb,
    tf_num_rows a = Some la -> tf_num_rows b = Some lb ->
    (forall u v, y a = Some u -> y b = Some v -> length u = la /\ length v = lb) ->
    (forall sx, In sx (feats a) -> exists xb, alookup stype_eqb (fst sx) (feats b) = Some xb) ->
    exists r, tf_eq close a b = Some r.
  Proof.
    intros a b la lb Ha Hb Hy Hk. unfold tf_eq. rewrite Ha, Hb. cbn [obind].
    destruct (la =? lb) eqn:El; cbn [negb]; [|exists false; reflexivity]. apply Nat.eqb_eq in El. subst lb.
    change (fold_left _ (feats a) (Some true)) with (fold_left (eq_step close b) (feats a) (Some true)).
    destruct (y a) as [u|], (y b) as [v|]; cbn [obind]; try (exists false; reflexivity).
    - destruct (Hy u v eq_refl eq_refl) as [H1 H2]. rewrite H1, H2, Nat.eqb_refl. cbn [obind].
      destruct (list_eqb (pclose close false) v u); cbn [negb]; [|exists false; reflexivity].
      destruct (names_eqb (names a) (names b)); cbn [negb]; [|exists false; reflexivity].
      apply eq_fold_some. exact Hk.
    - cbn [negb]. destruct (names_eqb (names a) (names b)); cbn [negb]; [|exists false; reflexivity].
      apply eq_fold_some. exact Hk.
  Qed.

  Lemma tf_eq_false_intro : forall a b, (exists r, tf_eq close a b = Some r) -> ~ tf_equiv close a b -> tf_eq close a b = Some false.
  Proof.
    intros a b [r E] H. destruct r; [|exact E]. exfalso. apply H. apply tf_eq_iff_proof. exact E.
  Qed.

  Lemma frames_eq_total : forall n n' vs vs' nm nm' yy yy' ov ov',
    frame_wf n vs yy ov -> frame_wf n' vs' yy' ov' ->
    (forall s, In s (map fst vs) -> In s (map fst vs')) ->
    exists r, tf_eq close (frame_of vs nm yy ov) (frame_of vs' nm' yy' ov') = Some r.
  Proof.
    intros n n' vs vs' nm nm' yy yy' ov ov' Hw Hw' Hk.
    apply (tf_eq_total _ _ n n'); try (apply num_rows_frame_of; assumption).
    - cbn [frame_of y]. intros u v -> ->. destruct Hw as [_ [Hy _]], Hw' as [_ [Hy' _]]. auto.
    - cbn [frame_of feats]. intros [s x] Hin. cbn [fst]. apply in_map_iff in Hin. destruct Hin as [[s' v] [E Hin]].
      injection E as <- <-. assert (Hs : In s' (map fst vs')) by (apply Hk; apply in_map_iff; exists (s', v); auto).
      destruct (alookup stype_eqb s' (map (fun sv : stype * fview => (fst sv, feat_of_view (snd sv))) vs')) as [xb|] eqn:E;
        [exists xb; reflexivity|].
      apply (alookup_None stype_eqb stype_eqb_spec) in E. rewrite map_map in E. cbn [fst] in E. contradiction.
  Qed.

  (* a difference beyond tolerance in any single scalar of any feature of any storage kind makes frames unequal *)
  Lemma cell_perturbation_detected_proof : forall n n' vs vs' nm nm' yy yy' ov ov' s v v' key m m' i j k,
    frame_wf n vs yy ov -> frame_wf n' vs' yy' ov' ->
    NoDup (map fst vs') -> (forall s, In s (map fst vs) -> In s (map fst vs')) ->
    In (s, v) vs -> In (s, v') vs' ->
    view_comp key v = Some m -> view_comp key v' = Some m' ->
    i < length m -> j < length (nth i m []) -> k < length (nth j (nth i m []) []) ->
    pclose close true (scalar_at m i j k) (scalar_at m' i j k) = false ->
    tf_eq close (frame_of vs nm yy ov) (frame_of vs' nm' yy' ov') = Some false.
  Proof.
    intros n n' vs vs' nm nm' yy yy' ov ov' s v v' key m m' i j k Hw Hw' Hnd Hk Hin Hin' Ec Ec' Hi Hj Hkk Hp.
    apply tf_eq_false_intro; [apply (frames_eq_total n n'); assumption|].
    intros [_ [_ [_ Hf]]]. cbn [frame_of feats] in Hf. rewrite Forall_forall in Hf.
    specialize (Hf (s, feat_of_view v)). cbn [fst snd] in Hf.
    destruct Hf as [xb [E Hfe]]; [apply in_map_iff; exists (s, v); auto|].
    pose proof (alookup_map_snd_st feat_of_view s vs') as Hm. cbn beta in Hm. rewrite Hm in E. clear Hm.
    rewrite (In_alookup stype_eqb stype_eqb_spec s v' vs' Hnd Hin') in E. cbn [option_map] in E. injection E as <-.
    destruct Hw as [Hv _], Hw' as [Hv' _]. rewrite Forall_forall in Hv, Hv'.
    apply (feat_eq_views_proof close n n' v v' (Hv _ Hin) (Hv' _ Hin')) in Hfe.
    destruct (view_close_comp key v v' m Hfe Ec) as [m2 [E2 Hc]]. rewrite Ec' in E2. injection E2 as <-.
    pose proof (cells_close_scalar m m' i j k Hc Hi Hj Hkk) as Ht. congruence.
  Qed.

  (* ... in a target value ... *)
  Lemma target_perturbation_detected_proof : forall a b u v i,
    (exists r, tf_eq close a b = Some r) ->
    y a = Some u -> y b = Some v -> i < length v ->
    pclose close false (nth i v None) (nth i u None) = false ->
    tf_eq close a b = Some false.
  Proof.
    intros a b u v i Ht Ha Hb Hi Hp. apply tf_eq_false_intro; [exact Ht|].
    intros [_ [Hy _]]. unfold y_equiv in Hy. rewrite Ha, Hb in Hy. destruct Hy as [_ Hy].
    pose proof (Forall2_nth _ v u None None i Hy Hi) as H. simpl in H. congruence.
  Qed.

  Lemma target_presence_detected_proof : forall a b,
    (exists r, tf_eq close a b = Some r) ->
    (y a = None <-> y b <> None) -> tf_eq close a b = Some false.
  Proof.
    intros a b Ht H. apply tf_eq_false_intro; [exact Ht|].
    intros [_ [Hy _]]. unfold y_equiv in Hy. destruct (y a), (y b); try contradiction.
    - destruct H as [_ H]. assert (Some l = None) by (apply H; discriminate). discriminate.
    - destruct H as [H _]. apply (H eq_refl). reflexivity.
  Qed.

  (* ... or in any column name *)
  Lemma name_perturbation_detected_proof : forall a b s cn,
    (exists r, tf_eq close a b = Some r) ->
    In (s, cn) (names a) -> alookup stype_eqb s (names b) <> Some cn ->
    tf_eq close a b = Some false.
  Proof.
    intros a b s cn Ht Hin Hne. apply tf_eq_false_intro; [exact Ht|].
    intros [_ [_ [[_ Hn] _]]]. apply Hne. apply Hn. exact Hin.
  Qed.
End Perturb.

(* ------------------------------------------------------------------ *)
(* torch_frame.cat along rows *)
Lemma pick_rows_concat : forall {A} (poss : list (list nat)) (m : cellmat A),
  concat (map (fun pos => pick_rows pos m) poss) = pick_rows (concat poss) m.
Proof. intros A poss m. unfold pick_rows. rewrite concat_map. reflexivity. Qed.

Lemma ysel_concat : forall (poss : list (list nat)) (yv : list payload),
  concat (map (fun pos => ysel pos yv) poss) = ysel (concat poss) yv.
Proof. intros poss yv. unfold ysel. rewrite concat_map. reflexivity. Qed.

Lemma sum_map_length_concat' : forall {X} (l : list (list X)), sum (map (@length X) l) = length (concat l).
Proof. intros X l. induction l as [|a r IH]; simpl; [reflexivity|]. rewrite app_length, IH. reflexivity. Qed.

Lemma keys_eqb_same : forall l : list string, keys_eqb String.eqb l l = true.
Proof. intros l. apply (keys_eqb_true String.eqb str_eqb_spec); auto. Qed.

Ltac discharge_keys_check :=
  match goal with
  | |- (if negb ?c then None else _) = _ =>
      let Ek := fresh "Ek" in
      assert (Ek : c = true);
      [ apply forallb_forall; let d1 := fresh "d1" in let Hd1 := fresh "Hd1" in
        intros d1 Hd1; apply in_map_iff in Hd1; destruct Hd1 as [? [<- _]];
        rewrite !map_map; cbn [fst]; apply keys_eqb_same
      | rewrite Ek; cbn [negb] ]
  end.

Section CatRows.
  Variable mnt_cat : list (mnt payload) -> nat -> option (mnt payload).
  Variable met_cat : list (met payload) -> nat -> option (met payload).
  (* The ragged containers' own cat along rows: cells of the result = the parts' rows in order
     (C06: cells (cat0 ts) = concat (map cells ts)) *)
  Hypothesis H_mnt_cat_rows : forall c (ms : list (cellmat payload)),
    ms <> [] -> Forall (rect c) ms -> mnt_cat (map (mnt_of_cells c) ms) 0 = Some (mnt_of_cells c (concat ms)).
  Hypothesis H_met_cat_rows : forall ws (ms : list (cellmat payload)),
    ms <> [] -> Forall (rect_w ws) ms -> met_cat (map (met_of_cells ws) ms) 0 = Some (met_of_cells ws (concat ms)).

  Lemma cat_data_rows : forall n v poss,
    view_wf n v -> vdict_ok v -> poss <> [] -> Forall (Forall (fun i => i < n)) poss ->
    cat_tensor_data mnt_cat met_cat (map (fun pos => feat_of_view (vsel pos v)) poss) 0
    = Some (feat_of_view (vsel (concat poss) v)).
  Proof.
    intros n v poss Hw Hd Hne Hp.
    destruct poss as [|p [|p2 rest]]; [congruence| |].
    { cbn [map cat_tensor_data concat]. rewrite app_nil_r. reflexivity. }
    set (poss := p :: p2 :: rest) in *.
    assert (Hgen : forall (l : list feat) x x2 r, l = x :: x2 :: r ->
              cat_tensor_data mnt_cat met_cat l 0 =
              match x with
              | FDense _ _ _ => ds <- mapM as_dense l ;; r <- dense_cat ds 0 ;;
                                Some (FDense (fst (fst r)) (snd (fst r)) (snd r))
              | FEmb _ => ts <- mapM as_emb l ;; option_map FEmb (met_cat ts 0)
              | FNested _ => ts <- mapM as_nested l ;; option_map FNested (mnt_cat ts 0)
              | FDict d0 => ds <- mapM as_dict l ;;
                  if negb (forallb (fun d => keys_eqb String.eqb (map fst d) (map fst d0)) ds) then None else
                  option_map FDict
                    (mapM (fun kv => ts <- mapM (alookup String.eqb (fst kv)) ds ;;
                                     option_map (pair (fst kv)) (mnt_cat ts 0)) d0)
              end) by (intros l x x2 r ->; reflexivity).
    destruct v as [c k m|c m|ws m|d]; cbn [vsel vmap feat_of_view view_wf vdict_ok] in *.
    - destruct Hw as [Hn Hw].
      erewrite Hgen by (unfold poss; cbn [map]; reflexivity). cbv beta iota.
      rewrite mapM_map. erewrite (mapM_all_some _ (fun pos => (map (@concat payload) (pick_rows pos m), c, k)))
        by (intros; reflexivity). cbn [obind].
      unfold poss at 1. cbn [map dense_cat Nat.eqb]. fold poss.
      assert (Hf : forallb (fun d0 : list (list payload) * nat * nat => (snd (fst d0) =? c) && (snd d0 =? k))
                     (map (fun pos => (map (@concat payload) (pick_rows pos m), c, k)) poss) = true).
      { apply forallb_forall. intros x Hx. apply in_map_iff in Hx. destruct Hx as [pos [<- _]]. cbn [fst snd].
        rewrite !Nat.eqb_refl. reflexivity. }
      unfold poss in Hf at 1. cbn [map] in Hf. fold poss in Hf. 
      change ((map (@concat payload) (pick_rows p m), c, k) :: (map (@concat payload) (pick_rows p2 m), c, k)
              :: map (fun pos => (map (@concat payload) (pick_rows pos m), c, k)) rest)
        with (map (fun pos => (map (@concat payload) (pick_rows pos m), c, k)) poss) in *.
      rewrite Hf. cbn [obind fst snd]. rewrite map_map. cbn [fst].
      f_equal. f_equal. rewrite <- pick_rows_concat, concat_map, map_map. reflexivity.
    - destruct Hw as [Hn Hw].
      erewrite Hgen by (unfold poss; cbn [map]; reflexivity). cbv beta iota.
      rewrite mapM_map. erewrite (mapM_all_some _ (fun pos => mnt_of_cells c (pick_rows pos m))) by (intros; reflexivity).
      cbn [obind]. rewrite <- (map_map (fun pos => pick_rows pos m) (mnt_of_cells c)).
      rewrite H_mnt_cat_rows.
      + cbn [option_map]. rewrite pick_rows_concat. reflexivity.
      + unfold poss. discriminate.
      + apply Forall_map. eapply Forall_impl; [|exact Hp]. cbn beta. intros pos Hpos.
        apply pick_rows_rect; [exact Hw|rewrite Hn; exact Hpos].
    - destruct Hw as [Hn Hw].
      erewrite Hgen by (unfold poss; cbn [map]; reflexivity). cbv beta iota.
      rewrite mapM_map. erewrite (mapM_all_some _ (fun pos => met_of_cells ws (pick_rows pos m))) by (intros; reflexivity).
      cbn [obind]. rewrite <- (map_map (fun pos => pick_rows pos m) (met_of_cells ws)).
      rewrite H_met_cat_rows.
      + cbn [option_map]. rewrite pick_rows_concat. reflexivity.
      + unfold poss. discriminate.
      + apply Forall_map. eapply Forall_impl; [|exact Hp]. cbn beta. intros pos Hpos.
        apply pick_rows_rect_w; [exact Hw|rewrite Hn; exact Hpos].
    - destruct Hw as [Hne' Hw]. destruct Hd as [Hnd _].
      erewrite Hgen by (unfold poss; cbn [map]; reflexivity). cbv beta iota.
      rewrite mapM_map.
      erewrite (mapM_all_some _ (fun pos => map (fun kcm : string * (nat * cellmat payload) =>
                  (fst kcm, mnt_of_cells (fst (snd kcm)) (snd (snd kcm))))
                  (map (fun kcm => (fst kcm, (fst (snd kcm), pick_rows pos (snd (snd kcm))))) d)))
        by (intros; reflexivity).
      cbn [obind]. discharge_keys_check. rewrite !map_map. cbn [fst snd].
      rewrite mapM_map. cbn [fst snd].
      erewrite (mapM_all_some _ (fun kcm : string * (nat * cellmat payload) =>
                  (fst kcm, mnt_of_cells (fst (snd kcm)) (pick_rows (concat poss) (snd (snd kcm)))))).
      + cbn [option_map]. reflexivity.
      + intros [kk [c m]] Hin. cbn [fst snd].
        rewrite mapM_map.
        erewrite (mapM_all_some _ (fun pos => mnt_of_cells c (pick_rows pos m))).
        * cbn [obind]. rewrite <- (map_map (fun pos => pick_rows pos m) (mnt_of_cells c)).
          rewrite H_mnt_cat_rows.
          -- cbn [option_map]. rewrite pick_rows_concat. reflexivity.
          -- unfold poss. discriminate.
          -- rewrite Forall_forall in Hw. destruct (Hw _ Hin) as [Hn Hr]. cbn [fst snd] in *.
             apply Forall_map. eapply Forall_impl; [|exact Hp]. cbn beta. intros pos Hpos.
             apply pick_rows_rect; [exact Hr|rewrite Hn; exact Hpos].
        * intros pos _.
          apply (In_alookup String.eqb str_eqb_spec).
          -- rewrite !map_map. cbn [fst]. rewrite (map_ext _ fst (fun _ => eq_refl)). exact Hnd.
          -- rewrite map_map. apply in_map_iff. exists (kk, (c, m)). split; [reflexivity|exact Hin].
  Qed.

  Lemma filter_none : forall {X} (f : X -> bool) (l : list X), (forall x, In x l -> f x = false) -> filter f l = [].
  Proof.
    intros X f l. induction l as [|a r IH]; intros H; simpl; [reflexivity|].
    rewrite (H a (or_introl eq_refl)). apply IH. intros x Hx. apply H. right; exact Hx.
  Qed.

  Lemma filter_key_unique : forall {X Y} (h : X -> Y) (vs : list (stype * X)) s v,
    NoDup (map fst vs) -> In (s, v) vs ->
    filter (fun kv : stype * Y => stype_eqb s (fst kv)) (map (fun sv => (fst sv, h (snd sv))) vs) = [(s, h v)].
  Proof.
    intros X Y h vs s v. induction vs as [|[s' v'] r IH]; intros Hnd Hin; [contradiction|].
    inversion Hnd as [|? ? Hni Hnd']; subst. cbn [map filter fst snd]. destruct Hin as [E|Hin].
    - injection E as -> ->. rewrite stype_eqb_refl. f_equal.
      apply filter_none. intros [s2 y2] Hin2. cbn [fst]. apply in_map_iff in Hin2.
      destruct Hin2 as [[s3 v3] [E3 Hin3]]. injection E3 as <- <-. cbn [fst].
      apply (keqb_neq stype_eqb stype_eqb_spec). intros ->. apply Hni. apply in_map_iff. exists (s3, v3). auto.
    - assert (Hne : s <> s').
      { intros ->. apply Hni. apply in_map_iff. exists (s', v). auto. }
      rewrite (keqb_neq stype_eqb stype_eqb_spec _ _ Hne). apply IH; assumption.
  Qed.

  Lemma filter_key_absent : forall {X Y} (h : X -> Y) (vs : list (stype * X)) s,
    ~ In s (map fst vs) ->
    filter (fun kv : stype * Y => stype_eqb s (fst kv)) (map (fun sv => (fst sv, h (snd sv))) vs) = [].
  Proof.
    intros X Y h vs s Hni. apply filter_none. intros [s2 y2] Hin2. cbn [fst]. apply in_map_iff in Hin2.
    destruct Hin2 as [[s3 v3] [E3 Hin3]]. injection E3 as <- <-. cbn [fst].
    apply (keqb_neq stype_eqb stype_eqb_spec). intros ->. apply Hni. apply in_map_iff. exists (s3, v3). auto.
  Qed.

  (* the flat (stype, [feature]) list of parts that are all built from the same views *)
  Definition parts_flat (vs : list (stype * fview)) (G : list nat -> fview -> fview) (poss : list (list nat))
    : list (stype * list feat) :=
    flat_map (fun pos => map (fun sv : stype * fview => (fst sv, [feat_of_view (G pos (snd sv))])) vs) poss.

  Lemma parts_flat_vals : forall vs G poss s v,
    NoDup (map fst vs) -> In (s, v) vs ->
    vals_of stype_eqb s (parts_flat vs G poss) = map (fun pos => feat_of_view (G pos v)) poss.
  Proof.
    intros vs G poss s v Hnd Hin. unfold vals_of, parts_flat. induction poss as [|p r IH]; [reflexivity|].
    cbn [flat_map]. rewrite filter_app, map_app, concat_app, IH.
    rewrite (filter_key_unique (fun v0 => [feat_of_view (G p v0)]) vs s v Hnd Hin). reflexivity.
  Qed.

  Lemma parts_flat_has : forall vs G poss s,
    has_key stype_eqb s (parts_flat vs G poss) = true <-> (poss <> [] /\ In s (map fst vs)).
  Proof.
    intros vs G poss s. unfold has_key, parts_flat. rewrite existsb_exists. split.
    - intros [[s' l] [Hin E]]. cbn [fst] in E. apply stype_eqb_spec in E. subst s'.
      apply in_flat_map in Hin. destruct Hin as [pos [Hpos Hin]]. split; [destruct poss; [contradiction|discriminate]|].
      apply in_map_iff in Hin. destruct Hin as [[s2 v2] [E Hin]]. injection E as <- _. apply in_map_iff. exists (s2, v2). auto.
    - intros [Hne Hin]. destruct poss as [|p r]; [congruence|]. apply in_map_iff in Hin. destruct Hin as [[s2 v2] [<- Hin]].
      exists (s2, [feat_of_view (G p v2)]). split; [|cbn [fst]; apply stype_eqb_refl].
      apply in_flat_map. exists p. split; [left; reflexivity|]. apply in_map_iff. exists (s2, v2). auto.
  Qed.

  Lemma flat_feats_sel : forall vs nm yy ov poss,
    flat_feats (map (fun pos => sel_frame pos vs nm yy ov) poss) = parts_flat vs vsel poss.
  Proof.
    intros. unfold flat_feats, parts_flat. rewrite flat_map_concat_map, map_map, <- flat_map_concat_map.
    apply flat_map_ext. intros pos. unfold sel_frame, frame_of. cbn [feats]. rewrite !map_map. reflexivity.
  Qed.

  Lemma vsel_id : forall n v, view_wf n v -> vsel (seq 0 n) v = v.
  Proof.
    intros n v Hw.
    assert (Hp : forall m : cellmat payload, length m = n -> pick_rows (seq 0 n) m = m).
    { intros m <-. unfold pick_rows. symmetry. apply map_nth_seq. }
    destruct v as [c k m|c m|ws m|d]; cbn [vsel vmap view_wf] in *.
    - destruct Hw as [Hn _]. rewrite (Hp m Hn). reflexivity.
    - destruct Hw as [Hn _]. rewrite (Hp m Hn). reflexivity.
    - destruct Hw as [Hn _]. rewrite (Hp m Hn). reflexivity.
    - destruct Hw as [_ Hw]. f_equal. rewrite <- (map_id d) at 2. apply map_ext_in. intros [kk [c m]] Hin.
      rewrite Forall_forall in Hw. destruct (Hw _ Hin) as [Hn _]. cbn [fst snd] in *. rewrite (Hp m Hn). reflexivity.
  Qed.

  Lemma ysel_id : forall n (yv : list payload), length yv = n -> ysel (seq 0 n) yv = yv.
  Proof. intros n yv <-. unfold ysel. symmetry. apply map_nth_seq. Qed.

  (* torch_frame.cat(parts, dim=0) of selections of one frame holds the selected rows of the parts in order:
     it is the frame of the concatenated positions (up to the insertion order of the dicts) *)
  Lemma cat_rows_selections_proof : forall n vs nm yy ov poss,
    frame_wf n vs yy ov -> names_ok vs nm -> poss <> [] -> Forall (Forall (fun i => i < n)) poss ->
    exists fs',
      tf_cat mnt_cat met_cat (map (fun pos => sel_frame pos vs nm yy ov) poss) 0
      = Some (MkTF fs' nm (option_map (ysel (concat poss)) yy)
                   (match vs with [] => Some (length (concat poss)) | _ => None end))
      /\ NoDup (map fst fs')
      /\ (forall s x, In (s, x) fs' <-> exists v, In (s, v) vs /\ x = feat_of_view (vsel (concat poss) v)).
  Proof.
    intros n vs nm yy ov poss Hwf Hnames Hne Hp.
    pose proof Hnames as [Hndv [Hndn [Hlen [Hsub Hcols]]]]. pose proof Hwf as [Hv [Hy Ho]].
    rewrite Forall_forall in Hv.
    set (parts := map (fun pos => sel_frame pos vs nm yy ov) poss).
    set (h := fun s => match alookup stype_eqb s vs with
                       | Some v => feat_of_view (vsel (concat poss) v) | None => FDense [] 0 0 end).
    set (fs' := map (fun sl : stype * list feat => (fst sl, h (fst sl))) (group_feats parts)).
    assert (Hgroup : forall s l, In (s, l) (group_feats parts) ->
              exists v, In (s, v) vs /\ l = map (fun pos => feat_of_view (vsel pos v)) poss).
    { intros s l Hin. unfold parts in Hin. rewrite group_feats_flat, flat_feats_sel in Hin.
      apply group_In in Hin. destruct Hin as [-> Hk]. apply parts_flat_has in Hk. destruct Hk as [_ Hk].
      apply in_map_iff in Hk. destruct Hk as [[s2 v] [<- Hin]]. exists v. split; [exact Hin|].
      apply parts_flat_vals; assumption. }
    assert (Hhelper : cat_helper mnt_cat met_cat parts 0 = Some fs').
    { unfold cat_helper, fs'. apply mapM_all_some. intros [s l] Hin. cbn [fst snd].
      destruct (Hgroup s l Hin) as [v [Hinv ->]].
      rewrite (cat_data_rows n v poss); try assumption.
      - cbn [option_map]. unfold h. rewrite (In_alookup stype_eqb stype_eqb_spec s v vs Hndv Hinv). reflexivity.
      - apply (Hv (s, v)). exact Hinv.
      - apply (Hcols s v Hinv). }
    assert (Hnd' : NoDup (map fst fs')).
    { unfold fs'. rewrite map_map. cbn [fst]. rewrite (map_ext _ fst (fun _ => eq_refl)).
      unfold parts. rewrite group_feats_flat. apply fold_gstep_nodup. constructor. }
    assert (Hchar : forall s x, In (s, x) fs' <-> exists v, In (s, v) vs /\ x = feat_of_view (vsel (concat poss) v)).
    { intros s x. unfold fs'. split.
      - intros Hin. apply in_map_iff in Hin. destruct Hin as [[s2 l] [E Hin]]. cbn [fst] in E. injection E as <- <-.
        destruct (Hgroup s2 l Hin) as [v [Hinv _]]. exists v. split; [exact Hinv|]. unfold h.
        rewrite (In_alookup stype_eqb stype_eqb_spec s2 v vs Hndv Hinv). reflexivity.
      - intros [v [Hinv ->]]. apply in_map_iff.
        exists (s, vals_of stype_eqb s (parts_flat vs vsel poss)). cbn [fst]. split.
        + unfold h. rewrite (In_alookup stype_eqb stype_eqb_spec s v vs Hndv Hinv). reflexivity.
        + unfold parts. rewrite group_feats_flat, flat_feats_sel. apply group_has. apply parts_flat_has.
          split; [exact Hne|]. apply in_map_iff. exists (s, v). auto. }
    exists fs'. split; [|split; assumption].
    (* unfold torch_frame.cat *)
    assert (Hex : exists p0 prest, poss = p0 :: prest) by (destruct poss; [congruence|eauto]).
    destruct Hex as [p0 [prest Eposs]].
    assert (Eparts : parts = sel_frame p0 vs nm yy ov :: map (fun pos => sel_frame pos vs nm yy ov) prest)
      by (unfold parts; rewrite Eposs; reflexivity).
    fold parts. rewrite Eparts. change (tf_cat mnt_cat met_cat (?t :: ?r) 0) with (cat_row mnt_cat met_cat (t :: r)).
    unfold cat_row. rewrite <- Eparts.
    assert (Enames : forallb (fun t => names_eqb (names t) (names (sel_frame p0 vs nm yy ov)))
                             (map (fun pos => sel_frame pos vs nm yy ov) prest) = true).
    { apply forallb_forall. intros t Ht. apply in_map_iff in Ht. destruct Ht as [pos [<- _]].
      cbn [sel_frame frame_of names]. apply (dict_eqb_refl stype_eqb stype_eqb_spec); [|exact Hndn].
      intros l. apply list_eqb_refl. intros x _. apply String.eqb_refl. }
    rewrite Enames. cbn [negb].
    assert (Ey : match y (sel_frame p0 vs nm yy ov) with
                 | Some _ => option_map (fun ys => Some (concat ys)) (mapM y parts)
                 | None => if forallb (fun t => match y t with None => true | Some _ => false end) parts
                           then Some None else None
                 end = Some (option_map (ysel (concat poss)) yy)).
    { cbn [sel_frame frame_of y]. destruct yy as [yv|]; cbn [option_map].
      - unfold parts. rewrite mapM_map. erewrite (mapM_all_some _ (fun pos => ysel pos yv)) by (intros; reflexivity).
        cbn [option_map]. rewrite ysel_concat. reflexivity.
      - assert (E : forallb (fun t => match y t with None => true | Some _ => false end) parts = true).
        { apply forallb_forall. intros t Ht. unfold parts in Ht. apply in_map_iff in Ht. destruct Ht as [pos [<- _]]. reflexivity. }
        rewrite E. reflexivity. }
    rewrite Ey. cbn [obind]. rewrite Hhelper. cbn [obind].
    (* explicit row count when there is no feature *)
    assert (Eov : match fs' with
                  | [] => option_map (fun ls => Some (sum ls)) (mapM tf_num_rows parts)
                  | _ :: _ => Some None
                  end = Some (match vs with [] => Some (length (concat poss)) | _ :: _ => None end)).
    { destruct vs as [|sv vs'] eqn:Evs.
      - assert (Efs : fs' = []).
        { destruct fs' as [|[s x] r]; [reflexivity|]. destruct (proj1 (Hchar s x) (or_introl eq_refl)) as [v [[] _]]. }
        rewrite Efs. unfold parts. rewrite mapM_map.
        erewrite (mapM_all_some _ (fun pos => length pos)).
        + cbn [option_map]. rewrite sum_map_length_concat'. reflexivity.
        + intros pos Hpos. unfold sel_frame. apply num_rows_frame_of. apply (frame_wf_sel n); [exact Hwf|].
          rewrite Forall_forall in Hp. apply Hp. exact Hpos.
      - destruct fs' as [|sx r] eqn:Efs; [|reflexivity]. exfalso.
        destruct sv as [s v]. apply (proj2 (Hchar s (feat_of_view (vsel (concat poss) v)))).
        exists v. split; [left; reflexivity|reflexivity]. }
    rewrite Eov. cbn [obind sel_frame frame_of names].
    (* the constructor validates *)
    unfold tf_mk.
    assert (Hpc : Forall (fun i => i < n) (concat poss)).
    { apply Forall_concat. exact Hp. }
    set (ov' := match vs with [] => Some (length (concat poss)) | _ :: _ => None end).
    assert (Hn' : tf_num_rows (MkTF fs' nm (option_map (ysel (concat poss)) yy) ov') = Some (length (concat poss))).
    { unfold tf_num_rows. cbn [num_rows_override feats]. unfold ov'. destruct vs as [|sv vs'] eqn:Evs; [reflexivity|].
      destruct fs' as [|[s x] r] eqn:Efs.
      - exfalso. destruct sv as [s v]. apply (proj2 (Hchar s (feat_of_view (vsel (concat poss) v)))).
        exists v. split; [left; reflexivity|reflexivity].
      - cbn [snd]. destruct (proj1 (Hchar s x) (or_introl eq_refl)) as [v [Hinv ->]].
        apply feat_len_view. apply (view_wf_vsel n); [apply (Hv (s, v)); exact Hinv|exact Hpc]. }
    rewrite (validate_ok (length (concat poss))); [reflexivity| | | |exact Hn'| |].
    - (* lengths *)
      apply Nat.le_antisymm.
      + rewrite Hlen, <- (map_length fst fs'), <- (map_length fst vs). apply NoDup_incl_length; [exact Hnd'|].
        intros s Hs. apply in_map_iff in Hs. destruct Hs as [[s2 x] [<- Hin]]. destruct (proj1 (Hchar s2 x) Hin) as [v [Hinv _]].
        apply in_map_iff. exists (s2, v). auto.
      + rewrite Hlen, <- (map_length fst fs'), <- (map_length fst vs). apply NoDup_incl_length; [exact Hndv|].
        intros s Hs. apply in_map_iff in Hs. destruct Hs as [[s2 v] [<- Hin]].
        apply in_map_iff. exists (s2, feat_of_view (vsel (concat poss) v)). split; [reflexivity|].
        apply Hchar. exists v. auto.
    - intros s Hs. apply in_map_iff in Hs. destruct Hs as [[s2 x] [<- Hin]]. destruct (proj1 (Hchar s2 x) Hin) as [v [Hinv _]].
      destruct (Hcols s2 v Hinv) as [_ [cn [E _]]]. apply (alookup_In stype_eqb stype_eqb_spec) in E.
      apply in_map_iff. exists (s2, cn). auto.
    - intros s Hs. apply Hsub in Hs. apply in_map_iff in Hs. destruct Hs as [[s2 v] [<- Hin]].
      apply in_map_iff. exists (s2, feat_of_view (vsel (concat poss) v)). split; [reflexivity|].
      apply Hchar. exists v. auto.
    - intros s x Hin. destruct (proj1 (Hchar s x) Hin) as [v [Hinv ->]].
      destruct (Hcols s v Hinv) as [Hd [cn [E [Hl Hne']]]]. exists cn. split; [exact E|]. split; [exact Hne'|].
      assert (Hnc : vncols (vsel (concat poss) v) = vncols v).
      { destruct v as [c k m|c m|ws m|d]; cbn [vsel vmap vncols]; try reflexivity. destruct d; reflexivity. }
      rewrite Hl, <- Hnc. apply feat_shapes_view.
      + apply (view_wf_vsel n); [apply (Hv (s, v)); exact Hinv|exact Hpc].
      + destruct v as [c k m|c m|ws m|d]; cbn [vsel vmap vdict_ok vncols] in *; try exact I.
        destruct Hd as [Hd1 Hd2]. split.
        * rewrite map_map. cbn [fst]. rewrite (map_ext _ fst (fun _ => eq_refl)). exact Hd1.
        * apply Forall_map. cbn [fst snd]. destruct d as [|kcm0 d']; [constructor|]. cbn [map fst snd]. exact Hd2.
    - destruct yy as [yv|]; cbn [option_map]; [|exact I]. unfold ysel. apply map_length.
  Qed.
End CatRows.

Section Roundtrip.
  Variable close : Z -> Z -> bool.
  Hypothesis close_refl : forall z, close z z = true.

  Lemma y_close_refl : forall v : list payload,
    Forall (fun p => p <> None) v -> Forall2 (fun q p => pclose close false q p = true) v v.
  Proof.
    intros v H. induction H as [|p v Hp Hv IH]; constructor; [|exact IH].
    destruct p as [z|]; [simpl; apply close_refl|congruence].
  Qed.

  Lemma names_equiv_refl : forall nm, NoDup (map fst nm) -> names_equiv nm nm.
  Proof.
    intros nm H. split; [reflexivity|]. intros s cn Hin. apply (In_alookup stype_eqb stype_eqb_spec); assumption.
  Qed.

  Lemma tf_equiv_same : forall a b n,
    tf_num_rows a = Some n -> tf_num_rows b = Some n ->
    y a = y b -> match y a with Some v => Forall (fun p => p <> None) v | None => True end ->
    names_equiv (names a) (names b) -> NoDup (map fst (feats b)) ->
    (forall s x, In (s, x) (feats a) -> In (s, x) (feats b) /\ feat_eq close x x = true) ->
    tf_equiv close a b.
  Proof.
    intros a b n Ha Hb Hy Hnan Hn Hndb Hf. split; [exists n; auto|]. split; [|split].
    - unfold y_equiv. rewrite <- Hy. destruct (y a) as [v|]; [|exact I]. split; [reflexivity|].
      apply y_close_refl. exact Hnan.
    - exact Hn.
    - apply Forall_forall. intros [s x] Hin. cbn [fst snd]. destruct (Hf s x Hin) as [Hin' He].
      exists x. split; [|exact He]. apply (In_alookup stype_eqb stype_eqb_spec); assumption.
  Qed.

  Lemma feat_eq_view_refl : forall n v, view_wf n v -> vdict_ok v -> feat_eq close (feat_of_view v) (feat_of_view v) = true.
  Proof.
    intros n v Hw Hd. apply (feat_eq_views_proof close n n v v Hw Hw). apply view_close_refl; assumption.
  Qed.

  Variable mnt_cat : list (mnt payload) -> nat -> option (mnt payload).
  Variable met_cat : list (met payload) -> nat -> option (met payload).
  Hypothesis H_mnt_cat_rows : forall c (ms : list (cellmat payload)),
    ms <> [] -> Forall (rect c) ms -> mnt_cat (map (mnt_of_cells c) ms) 0 = Some (mnt_of_cells c (concat ms)).
  Hypothesis H_met_cat_rows : forall ws (ms : list (cellmat payload)),
    ms <> [] -> Forall (rect_w ws) ms -> met_cat (map (met_of_cells ws) ms) 0 = Some (met_of_cells ws (concat ms)).

  (* any row partition -- more generally any list of selections whose positions concatenate to 0..n-1 --
     concatenates back to a frame equal to the original *)
  Lemma row_partition_roundtrip_proof : forall n vs nm yy ov poss,
    frame_wf n vs yy ov -> names_ok vs nm -> poss <> [] -> concat poss = seq 0 n ->
    match yy with Some v => Forall (fun p => p <> None) v | None => True end ->
    exists F', tf_cat mnt_cat met_cat (map (fun pos => sel_frame pos vs nm yy ov) poss) 0 = Some F'
               /\ tf_eq close F' (frame_of vs nm yy ov) = Some true
               /\ tf_eq close (frame_of vs nm yy ov) F' = Some true.
  Proof.
    intros n vs nm yy ov poss Hwf Hnames Hne Hcat Hnan.
    assert (Hp : Forall (Forall (fun i => i < n)) poss).
    { apply Forall_forall. intros pos Hpos. apply Forall_forall. intros i Hi.
      assert (Hin : In i (concat poss)) by (apply in_concat; exists pos; auto).
      rewrite Hcat in Hin. apply in_seq in Hin. lia. }
    destruct (cat_rows_selections_proof mnt_cat met_cat H_mnt_cat_rows H_met_cat_rows n vs nm yy ov poss Hwf Hnames Hne Hp)
      as [fs' [Ecat [Hnd' Hchar]]].
    rewrite Hcat in Ecat, Hchar. rewrite seq_length in Ecat.
    pose proof Hnames as [Hndv [Hndn [Hlen [Hsub Hcols]]]]. pose proof Hwf as [Hv [Hy Ho]].
    rewrite Forall_forall in Hv.
    assert (Ey : option_map (ysel (seq 0 n)) yy = yy).
    { destruct yy as [yv|]; [|reflexivity]. cbn [option_map]. rewrite (ysel_id n yv Hy). reflexivity. }
    rewrite Ey in Ecat.
    set (ov' := match vs with [] => Some n | _ :: _ => None end) in *.
    set (F' := MkTF fs' nm yy ov') in *.
    assert (Hchar' : forall s x, In (s, x) fs' <-> exists v, In (s, v) vs /\ x = feat_of_view v).
    { intros s x. rewrite Hchar. split; intros [v [Hin ->]]; exists v; (split; [exact Hin|]);
        rewrite (vsel_id n v (Hv (s, v) Hin)); reflexivity. }
    assert (HnF : tf_num_rows F' = Some n).
    { unfold tf_num_rows, F', ov'. cbn [num_rows_override feats]. destruct vs as [|sv vs'] eqn:Evs; [reflexivity|].
      destruct fs' as [|[s x] r] eqn:Efs.
      - exfalso. destruct sv as [s v]. apply (proj2 (Hchar' s (feat_of_view v))). exists v. split; [left; reflexivity|reflexivity].
      - cbn [snd]. destruct (proj1 (Hchar' s x) (or_introl eq_refl)) as [v [Hinv ->]].
        apply feat_len_view. apply (Hv (s, v)). exact Hinv. }
    exists F'. split; [exact Ecat|]. split; apply tf_eq_iff_proof; apply (tf_equiv_same _ _ n);
      try exact HnF; try (apply num_rows_frame_of; exact Hwf); try reflexivity; try exact Hnan;
      try (apply names_equiv_refl; exact Hndn).
    - cbn [frame_of feats]. rewrite map_map. cbn [fst]. rewrite (map_ext _ fst (fun _ => eq_refl)). exact Hndv.
    - intros s x Hin. cbn [F' feats] in Hin. destruct (proj1 (Hchar' s x) Hin) as [v [Hinv ->]]. split.
      + cbn [frame_of feats]. apply in_map_iff. exists (s, v). auto.
      + apply (feat_eq_view_refl n); [apply (Hv (s, v)); exact Hinv|apply (Hcols s v Hinv)].
    - exact Hnd'.
    - intros s x Hin. cbn [frame_of feats] in Hin. apply in_map_iff in Hin. destruct Hin as [[s2 v] [E Hinv]].
      injection E as <- <-. split.
      + cbn [F' feats]. apply Hchar'. exists v. auto.
      + apply (feat_eq_view_refl n); [apply (Hv (s2, v)); exact Hinv|apply (Hcols s2 v Hinv)].
  Qed.
End Roundtrip.

Section C07Chain.
  Hypothesis H_mnt_select_refines : forall (c : nat) (m : cellmat payload) (ix : index) (dim : nat),
    rect c m -> dim < 2 ->
    select payload _ (mnt_kernels payload) (mnt_of_cells c m) ix dim =
    match py_positions (if dim =? 0 then length m else c) ix with
    | Some pos => Some (mnt_of_cells (if dim =? 0 then c else length pos) (pick dim pos m))
    | None => None
    end.
  Hypothesis H_met_select_refines : forall (ws : list nat) (m : cellmat payload) (ix : index) (dim : nat),
    rect_w ws m -> dim < 2 ->
    select payload _ (met_kernels payload) (met_of_cells ws m) ix dim =
    match py_positions (if dim =? 0 then length m else length ws) ix with
    | Some pos => Some (met_of_cells (pick_ws dim pos ws) (pick dim pos m))
    | None => None
    end.

  (* ---- a chain of selections is ONE selection of the composed positions of the original rows ---- *)
  Lemma pick_rows_compose : forall {A} (m : cellmat A) pos pos',
    Forall (fun i => i < length pos) pos' ->
    pick_rows pos' (pick_rows pos m) = pick_rows (map (fun i => nth i pos 0) pos') m.
  Proof.
    intros A m pos pos' H. unfold pick_rows. rewrite map_map. apply map_ext_in. intros i Hi.
    rewrite Forall_forall in H. specialize (H i Hi).
    rewrite (nth_indep _ [] (nth 0 m [])) by (rewrite map_length; exact H).
    exact (map_nth (fun j => nth j m []) pos 0 i).
  Qed.

  Lemma ysel_compose : forall (yv : list payload) pos pos',
    Forall (fun i => i < length pos) pos' ->
    ysel pos' (ysel pos yv) = ysel (map (fun i => nth i pos 0) pos') yv.
  Proof.
    intros yv pos pos' H. unfold ysel. rewrite map_map. apply map_ext_in. intros i Hi.
    rewrite Forall_forall in H. specialize (H i Hi).
    rewrite (nth_indep _ None (nth 0 yv None)) by (rewrite map_length; exact H).
    exact (map_nth (fun j => nth j yv None) pos 0 i).
  Qed.

  Lemma vsel_compose : forall v pos pos',
    Forall (fun i => i < length pos) pos' ->
    vsel pos' (vsel pos v) = vsel (map (fun i => nth i pos 0) pos') v.
  Proof.
    intros v pos pos' H. destruct v as [c k m|c m|ws m|d]; cbn [vsel vmap]; try (rewrite pick_rows_compose by exact H; reflexivity).
    f_equal. rewrite map_map. apply map_ext. intros [kk [c m]]. cbn [fst snd]. rewrite pick_rows_compose by exact H. reflexivity.
  Qed.

  Lemma chain_positions_bound : forall p n pos, chain_positions n p = Some pos -> Forall (fun i => i < n) pos.
  Proof.
    induction p as [|ix rest IH]; intros n pos H; cbn [chain_positions] in H.
    - injection H as <-. apply Forall_forall. intros i Hi. apply in_seq in Hi. lia.
    - destruct (py_positions n (as_list_index ix)) as [pos1|] eqn:E; [|discriminate].
      destruct (chain_positions (length pos1) rest) as [pos'|] eqn:E2; [|discriminate]. injection H as <-.
      pose proof (py_positions_bound _ _ _ E) as Hb. specialize (IH _ _ E2).
      apply Forall_map. eapply Forall_impl; [|exact IH]. cbn beta. intros i Hi.
      rewrite Forall_forall in Hb. apply Hb. apply nth_In. exact Hi.
  Qed.

  Lemma sel_frame_id : forall n vs nm yy ov, frame_wf n vs yy ov -> sel_frame (seq 0 n) vs nm yy ov = frame_of vs nm yy ov.
  Proof.
    intros n vs nm yy ov [Hv [Hy Ho]]. unfold sel_frame. f_equal.
    - rewrite <- (map_id vs) at 2. apply map_ext_in. intros [s v] Hin. cbn [fst snd].
      rewrite Forall_forall in Hv. rewrite (vsel_id n v (Hv _ Hin)). reflexivity.
    - destruct yy as [yv|]; [|reflexivity]. cbn [option_map]. rewrite (ysel_id n yv Hy). reflexivity.
    - destruct ov as [k|]; [|reflexivity]. cbn [option_map]. rewrite seq_length. congruence.
  Qed.

  Lemma spec_chain_composes : forall p n vs nm yy ov,
    frame_wf n vs yy ov ->
    spec_chain n vs nm yy ov p = option_map (fun pos => sel_frame pos vs nm yy ov) (chain_positions n p).
  Proof.
    induction p as [|ix rest IH]; intros n vs nm yy ov Hwf; cbn [spec_chain chain_positions option_map].
    - rewrite (sel_frame_id n vs nm yy ov Hwf). reflexivity.
    - destruct (py_positions n (as_list_index ix)) as [pos1|] eqn:E; [|reflexivity].
      pose proof (py_positions_bound _ _ _ E) as Hb.
      rewrite (IH (length pos1) _ nm _ _ (frame_wf_sel n vs yy ov pos1 Hwf Hb)).
      destruct (chain_positions (length pos1) rest) as [pos'|] eqn:E2; [|reflexivity]. cbn [option_map].
      pose proof (chain_positions_bound _ _ _ E2) as Hb'. f_equal. unfold sel_frame. f_equal.
      + rewrite map_map. apply map_ext. intros [s v]. cbn [fst snd]. rewrite (vsel_compose v pos1 pos' Hb'). reflexivity.
      + destruct yy as [yv|]; [|reflexivity]. cbn [option_map]. rewrite (ysel_compose yv pos1 pos' Hb'). reflexivity.
      + destruct ov; cbn [option_map]; [rewrite map_length|]; reflexivity.
  Qed.

  Lemma getitem_chain_composes_proof : forall p n vs nm yy ov,
    frame_wf n vs yy ov -> vs <> [] \/ yy <> None \/ ov <> None ->
    tf_getitem_chain (frame_of vs nm yy ov) p
    = option_map (fun pos => sel_frame pos vs nm yy ov) (chain_positions n p).
  Proof.
    intros p n vs nm yy ov Hwf Hd. rewrite (getitem_chain_proof H_mnt_select_refines H_met_select_refines p n vs nm yy ov Hwf Hd). apply spec_chain_composes. exact Hwf.
  Qed.
End C07Chain.

(* ------------------------------------------------------------------ *)
(* rejections of torch_frame.cat *)
From Coq Require Import Permutation.

Lemma has_dup_false : forall l, has_dup l = false <-> NoDup l.
Proof.
  induction l as [|x r IH]; simpl; [split; [constructor|reflexivity]|].
  rewrite orb_false_iff, IH. split.
  - intros [H1 H2]. constructor; [|exact H2]. intros Hin. apply (amem_In String.eqb str_eqb_spec) in Hin. congruence.
  - intros H. inversion H as [|? ? Hni Hnd]; subst. split; [|exact Hnd].
    apply not_true_is_false. intros Hm. apply (amem_In String.eqb str_eqb_spec) in Hm. contradiction.
Qed.

Lemma aset_flat_perm : forall {W} k (l ws : list W) (d : list (stype * list W)),
  alookup stype_eqb k d = Some l ->
  Permutation (flat_map snd (aset stype_eqb k (l ++ ws) d)) (flat_map snd d ++ ws).
Proof.
  intros W k l ws d. induction d as [|[k' v'] r IH]; simpl; [discriminate|].
  destruct (stype_eqb k k') eqn:E; intros H.
  - injection H as ->. simpl. rewrite <- !app_assoc. apply Permutation_app_head. apply Permutation_app_comm.
  - simpl. rewrite <- app_assoc. apply Permutation_app_head. apply IH. exact H.
Qed.

Lemma group_flat_perm : forall {W} (L : list (stype * list W)) acc,
  Permutation (flat_map snd (fold_left (gstep stype_eqb) L acc)) (flat_map snd acc ++ flat_map snd L).
Proof.
  intros W L. induction L as [|[k ws] r IH]; intros acc; simpl.
  - rewrite app_nil_r. apply Permutation_refl.
  - rewrite IH. unfold gstep, dict_extend. cbn [fst snd].
    destruct (alookup stype_eqb k acc) as [l|] eqn:E.
    + rewrite (aset_flat_perm k l ws acc E). rewrite <- app_assoc. apply Permutation_refl.
    + rewrite flat_map_app. simpl. rewrite app_nil_r, <- app_assoc. apply Permutation_refl.
Qed.

Section Rejections.
  Variable mnt_cat : list (mnt payload) -> nat -> option (mnt payload).
  Variable met_cat : list (met payload) -> nat -> option (met payload).
  Notation tfcat := (tf_cat mnt_cat met_cat).

  Lemma cat_empty_rejected_proof : forall dim, tfcat [] dim = None.
  Proof. reflexivity. Qed.

  Lemma cat_bad_dim_rejected_proof : forall tfs dim, dim <> 0%Z -> dim <> 1%Z -> tfcat tfs dim = None.
  Proof.
    intros tfs dim H0 H1. unfold tf_cat. destruct tfs; [reflexivity|].
    destruct (dim =? 0)%Z eqn:E0; [apply Z.eqb_eq in E0; contradiction|].
    destruct (dim =? 1)%Z eqn:E1; [apply Z.eqb_eq in E1; contradiction|]. reflexivity.
  Qed.

  (* mismatched column sets *)
  Lemma cat_rows_names_mismatch_proof : forall t0 rest t,
    In t rest -> names_eqb (names t) (names t0) = false -> tfcat (t0 :: rest) 0 = None.
  Proof.
    intros t0 rest t Hin Hne. unfold tf_cat. cbn [Z.eqb]. unfold cat_row.
    assert (E : forallb (fun t1 => names_eqb (names t1) (names t0)) rest = false).
    { apply not_true_is_false. intros H. rewrite forallb_forall in H. rewrite (H t Hin) in Hne. discriminate. }
    rewrite E. reflexivity.
  Qed.

  (* conflicting targets along rows: some parts with, some without *)
  Lemma cat_rows_mixed_targets_proof : forall tfs t1 t2,
    In t1 tfs -> In t2 tfs -> y t1 = None -> y t2 <> None -> tfcat tfs 0 = None.
  Proof.
    intros tfs t1 t2 H1 H2 Hy1 Hy2. unfold tf_cat. destruct tfs as [|t0 rest]; [reflexivity|]. cbn [Z.eqb]. unfold cat_row.
    destruct (negb (forallb (fun t => names_eqb (names t) (names t0)) rest)); [reflexivity|].
    destruct (y t0) as [v0|] eqn:E0.
    - assert (E : mapM y (t0 :: rest) = None).
      { clear -H1 Hy1. induction (t0 :: rest) as [|a r IH]; [contradiction|]. simpl. destruct H1 as [->|H1].
        - rewrite Hy1. reflexivity.
        - rewrite (IH H1). destruct (y a); reflexivity. }
      rewrite E. reflexivity.
    - assert (E : forallb (fun t => match y t with None => true | Some _ => false end) (t0 :: rest) = false).
      { apply not_true_is_false. intros H. rewrite forallb_forall in H. specialize (H t2 H2). destruct (y t2); [discriminate|congruence]. }
      rewrite E. reflexivity.
  Qed.

  (* conflicting targets along columns: more than one part with a target *)
  Lemma cat_cols_two_targets_proof : forall tfs,
    2 <= length (flat_map (fun t => match y t with Some v => [v] | None => [] end) tfs) -> tfcat tfs 1 = None.
  Proof.
    intros tfs H. unfold tf_cat. destruct tfs as [|t0 rest]; [reflexivity|]. cbn [Z.eqb]. unfold cat_col.
    destruct (flat_map (fun t => match y t with Some v => [v] | None => [] end) (t0 :: rest)) as [|a [|b r]];
      simpl in H; try lia. reflexivity.
  Qed.

  (* duplicated column names, within one stype or across stypes *)
  Lemma cat_cols_duplicate_names_proof : forall tfs,
    ~ NoDup (flat_map snd (flat_map names tfs)) -> tfcat tfs 1 = None.
  Proof.
    intros tfs H. unfold tf_cat. destruct tfs as [|t0 rest]; [reflexivity|]. cbn [Z.eqb]. unfold cat_col.
    destruct (match flat_map (fun t => match y t with Some v => [v] | None => [] end) (t0 :: rest) with
              | [] => Some None | [v] => Some (Some v) | _ :: _ :: _ => None end); cbn [obind]; [|reflexivity].
    destruct (existsb (fun sc => has_dup (snd sc)) (group_names (t0 :: rest))); [reflexivity|].
    assert (E : has_dup (flat_map snd (group_names (t0 :: rest))) = true).
    { apply not_false_is_true. intros Hf. apply has_dup_false in Hf. apply H.
      rewrite group_names_flat in Hf. eapply Permutation_NoDup; [|exact Hf].
      rewrite group_flat_perm. simpl. apply Permutation_refl. }
    rewrite E. reflexivity.
  Qed.

  (* parts with different numbers of rows *)
  Lemma cat_cols_row_counts_proof : forall tfs t1 t2 a b,
    In t1 tfs -> In t2 tfs -> tf_num_rows t1 = Some a -> tf_num_rows t2 = Some b -> a <> b -> tfcat tfs 1 = None.
  Proof.
    intros tfs t1 t2 a b H1 H2 Ha Hb Hab. unfold tf_cat. destruct tfs as [|t0 rest]; [reflexivity|]. cbn [Z.eqb]. unfold cat_col.
    destruct (match flat_map (fun t => match y t with Some v => [v] | None => [] end) (t0 :: rest) with
              | [] => Some None | [v] => Some (Some v) | _ :: _ :: _ => None end); cbn [obind]; [|reflexivity].
    destruct (existsb (fun sc => has_dup (snd sc)) (group_names (t0 :: rest))); [reflexivity|].
    destruct (has_dup (flat_map snd (group_names (t0 :: rest)))); [reflexivity|].
    destruct (mapM tf_num_rows (t0 :: rest)) as [ls|] eqn:E; cbn [obind]; [|reflexivity].
    destruct ls as [|n0 ls']; [reflexivity|].
    assert (Hall : forall t k, In t (t0 :: rest) -> tf_num_rows t = Some k -> In k (n0 :: ls')).
    { clear -E. revert E. generalize (n0 :: ls') as ls. induction (t0 :: rest) as [|x r IH]; intros ls E t k Hin Hk; [contradiction|].
      simpl in E. destruct (tf_num_rows x) as [kx|] eqn:Ex; [|discriminate].
      destruct (mapM tf_num_rows r) as [lr|] eqn:Er; [|discriminate]. injection E as <-.
      destruct Hin as [->|Hin]; [left; congruence|right; apply (IH lr eq_refl t k Hin Hk)]. }
    assert (Ef : forallb (Nat.eqb n0) (n0 :: ls') = false).
    { apply not_true_is_false. intros H. rewrite forallb_forall in H.
      pose proof (H a (Hall t1 a H1 Ha)) as Ea. pose proof (H b (Hall t2 b H2 Hb)) as Eb.
      apply Nat.eqb_eq in Ea, Eb. congruence. }
    rewrite Ef. reflexivity.
  Qed.
End Rejections.

(* ------------------------------------------------------------------ *)
(* get_col_feat *)
Lemma fold_flat_gen : forall {Acc T U} (f : Acc -> U -> Acc) (g : T -> list U) (ts : list T) (acc : Acc),
  fold_left (fun a t => fold_left f (g t) a) ts acc = fold_left f (flat_map g ts) acc.
Proof.
  intros Acc T U f g ts. induction ts as [|t r IH]; intros acc; simpl; [reflexivity|].
  rewrite fold_left_app. apply IH.
Qed.

Section LastWins.
  Context {V : Type}.
  Definition aset_step (acc : list (string * V)) (p : string * V) := aset String.eqb (fst p) (snd p) acc.

  Lemma aset_fold_absent : forall (L : list (string * V)) acc k,
    ~ In k (map fst L) -> alookup String.eqb k (fold_left aset_step L acc) = alookup String.eqb k acc.
  Proof.
    induction L as [|[k' v'] r IH]; intros acc k H; simpl; [reflexivity|].
    rewrite IH by (intros Hin; apply H; right; exact Hin).
    unfold aset_step. cbn [fst snd]. apply (alookup_aset_other String.eqb str_eqb_spec).
    intros ->. apply H. left; reflexivity.
  Qed.

  Lemma aset_fold_lookup : forall (L : list (string * V)) acc k v,
    NoDup (map fst L) -> In (k, v) L -> alookup String.eqb k (fold_left aset_step L acc) = Some v.
  Proof.
    induction L as [|[k' v'] r IH]; intros acc k v Hnd Hin; [contradiction|]. simpl.
    inversion Hnd as [|? ? Hni Hnd']; subst. destruct Hin as [E|Hin].
    - injection E as -> ->. rewrite aset_fold_absent by exact Hni. unfold aset_step. cbn [fst snd].
      apply (alookup_aset_same String.eqb str_eqb_spec).
    - apply IH; assumption.
  Qed.
End LastWins.

Definition flat_cols (nm : list (stype * list string)) : list (string * (stype * nat)) :=
  flat_map (fun sc => map (fun ic : nat * string => (snd ic, (fst sc, fst ic))) (combine (seq 0 (length (snd sc))) (snd sc))) nm.

Lemma col_to_stype_idx_flat : forall nm, col_to_stype_idx nm = fold_left aset_step (flat_cols nm) [].
Proof.
  intros nm. unfold col_to_stype_idx, flat_cols.
  rewrite <- (fold_flat_gen aset_step
                (fun sc : stype * list string =>
                   map (fun ic : nat * string => (snd ic, (fst sc, fst ic))) (combine (seq 0 (length (snd sc))) (snd sc)))).
  apply fold_left_ext. intros a sc. rewrite fold_left_map. reflexivity.
Qed.

Lemma map_snd_combine_seq : forall {X} (l : list X) a, map snd (combine (seq a (length l)) l) = l.
Proof. intros X l. induction l as [|x r IH]; intros a; simpl; [reflexivity|]. rewrite IH. reflexivity. Qed.

Lemma flat_cols_keys : forall nm, map fst (flat_cols nm) = flat_map snd nm.
Proof.
  intros nm. unfold flat_cols. induction nm as [|[s cn] r IH]; simpl; [reflexivity|].
  rewrite map_app, IH, map_map. cbn [fst snd]. f_equal.
  rewrite <- (map_snd_combine_seq cn 0) at 3. reflexivity.
Qed.

Lemma nth_error_combine_seq : forall {X} (l : list X) a j x,
  nth_error l j = Some x -> In (a + j, x) (combine (seq a (length l)) l).
Proof.
  intros X l. induction l as [|y r IH]; intros a j x H; [destruct j; discriminate|].
  destruct j as [|j]; simpl in *.
  - injection H as ->. left. f_equal. lia.
  - right. replace (a + S j) with (S a + j) by lia. apply IH. exact H.
Qed.

Lemma flat_cols_In : forall nm s cn j name,
  In (s, cn) nm -> nth_error cn j = Some name -> In (name, (s, j)) (flat_cols nm).
Proof.
  intros nm s cn j name Hin Hn. unfold flat_cols. apply in_flat_map. exists (s, cn). split; [exact Hin|].
  cbn [fst snd]. apply in_map_iff. exists (j, name). split; [reflexivity|].
  apply (nth_error_combine_seq cn 0 j name Hn).
Qed.

Lemma py_positions_all : forall n, py_positions n (ISlice None None None) = Some (seq 0 n).
Proof.
  intros n. cbn [py_positions]. cbn [Z.leb Z.compare]. unfold slice_indices, clamp_bound.
  change (Z.to_nat 1) with 1. rewrite range_up_1. rewrite Nat.sub_0_r. reflexivity.
Qed.

Lemma py_positions_int : forall n j, j < n -> py_positions n (IInt (Z.of_nat j)) = Some [j].
Proof.
  intros n j H. cbn [py_positions]. unfold norm_index.
  assert (E1 : (Z.of_nat j <? 0)%Z = false) by (apply Z.ltb_ge; lia). rewrite E1.
  assert (E2 : (Z.of_nat n <=? Z.of_nat j)%Z = false) by (apply Z.leb_gt; lia). cbv iota. rewrite E1, E2. cbn [orb option_map].
  rewrite Nat2Z.id. reflexivity.
Qed.

Lemma pick_rows_all : forall {A} (m : cellmat A), pick_rows (seq 0 (length m)) m = m.
Proof. intros A m. unfold pick_rows. symmetry. apply map_nth_seq. Qed.

Lemma mnt_col_spec : forall c (m : cellmat payload) j,
  rect c m -> j < c -> mnt_col (mnt_of_cells c m) j = Some (mnt_of_cells 1 (col_chunk j (j + 1) m)).
Proof.
  intros c m j Hr Hj. unfold mnt_col, getitem_pair.
  rewrite (mnt_select_refines_proof payload c m (ISlice None None None) 0 Hr) by lia. cbn [Nat.eqb].
  rewrite py_positions_all. cbn [obind pick Nat.eqb]. rewrite pick_rows_all.
  rewrite (mnt_select_refines_proof payload c m (IInt (Z.of_nat j)) 1 Hr) by lia. cbn [Nat.eqb].
  rewrite (py_positions_int c j Hj). cbn [obind pick Nat.eqb length]. f_equal. f_equal.
  unfold pick_cols, col_chunk. apply map_ext_in. intros r Hin. cbn [map].
  rewrite Nat.add_1_r. symmetry. apply tslice_one. unfold rect in Hr. rewrite Forall_forall in Hr. rewrite (Hr r Hin). exact Hj.
Qed.

Lemma met_col_spec : forall ws (m : cellmat payload) j,
  rect_w ws m -> j < length ws ->
  met_col (met_of_cells ws m) j = Some (met_of_cells (tslice ws j (j + 1)) (col_chunk j (j + 1) m)).
Proof.
  intros ws m j Hr Hj. unfold met_col, getitem_pair.
  rewrite (met_select_refines_proof payload ws m (ISlice None None None) 0 Hr) by lia. cbn [Nat.eqb].
  rewrite py_positions_all. cbn [obind pick pick_ws Nat.eqb]. rewrite pick_rows_all.
  rewrite (met_select_refines_proof payload ws m (IInt (Z.of_nat j)) 1 Hr) by lia. cbn [Nat.eqb].
  rewrite (py_positions_int (length ws) j Hj). cbn [obind pick pick_ws Nat.eqb map]. f_equal. f_equal.
  - rewrite Nat.add_1_r. symmetry. apply tslice_one. exact Hj.
  - unfold pick_cols, col_chunk. apply map_ext_in. intros r Hin. cbn [map].
    rewrite Nat.add_1_r. symmetry. apply tslice_one. unfold rect_w in Hr. rewrite Forall_forall in Hr.
    rewrite <- (map_length (@length payload) r), (Hr r Hin). exact Hj.
Qed.

Lemma dense_col_spec : forall c k (m : cellmat payload) j,
  dense_wf c k m -> j < c ->
  map (fun r => tslice r (j * k) ((j + 1) * k)) (map (@concat payload) m) = map (@concat payload) (col_chunk j (j + 1) m).
Proof.
  intros c k m j Hw Hj. unfold col_chunk. rewrite !map_map. apply map_ext_in. intros r Hin.
  unfold dense_wf in Hw. rewrite Forall_forall in Hw. destruct (Hw r Hin) as [Hc Hk].
  apply (rect_tslice k r j (j + 1) Hk); lia.
Qed.

(* the column extraction of get_col_feat, per storage kind *)
Lemma col_of_view : forall n v j,
  view_wf n v -> vdict_ok v -> j < vncols v ->
  match feat_of_view v with
  | FDict d => option_map FDict (mapM (fun kv => option_map (pair (fst kv)) (mnt_col (snd kv) j)) d)
  | FNested t => option_map FNested (mnt_col t j)
  | FEmb t => option_map FEmb (met_col t j)
  | FDense rows c k =>
      if j <? c then Some (FDense (map (fun r => tslice r (j * k) ((j + 1) * k)) rows) 1 k) else None
  end = Some (feat_of_view (vcol j v)).
Proof.
  intros n v j Hw Hd Hj. destruct v as [c k m|c m|ws m|d]; cbn [feat_of_view vcol vcols vncols view_wf vdict_ok] in *.
  - destruct Hw as [_ Hw]. assert (E : (j <? c) = true) by (apply Nat.ltb_lt; exact Hj). rewrite E.
    rewrite (dense_col_spec c k m j Hw Hj). replace (Nat.min (j + 1) c - j) with 1 by lia. reflexivity.
  - destruct Hw as [_ Hw]. rewrite (mnt_col_spec c m j Hw Hj). cbn [option_map].
    replace (Nat.min (j + 1) c - j) with 1 by lia. reflexivity.
  - destruct Hw as [_ Hw]. rewrite (met_col_spec ws m j Hw Hj). reflexivity.
  - destruct Hw as [Hne Hw]. destruct Hd as [_ Hc]. rewrite mapM_map.
    erewrite (mapM_all_some _ (fun kcm : string * (nat * cellmat payload) =>
                (fst kcm, mnt_of_cells 1 (col_chunk j (j + 1) (snd (snd kcm)))))).
    + cbn [option_map]. rewrite !map_map. cbn [fst snd]. f_equal. f_equal. apply map_ext_in. intros [kk [c m]] Hin.
      cbn [fst snd]. rewrite Forall_forall in Hc. pose proof (Hc _ Hin) as E. cbn [fst snd] in E.
      replace (Nat.min (j + 1) c - j) with 1 by lia. reflexivity.
    + intros [kk [c m]] Hin. cbn [fst snd]. rewrite Forall_forall in Hw, Hc.
      destruct (Hw _ Hin) as [_ Hr]. pose proof (Hc _ Hin) as E. cbn [fst snd] in *.
      rewrite (mnt_col_spec c m j Hr) by lia. reflexivity.
Qed.

(* looking a column up by name returns that column's data, for every storage kind *)
Lemma get_col_feat_spec_proof : forall n vs nm yy ov s v cn j name,
  frame_wf n vs yy ov -> names_ok vs nm -> NoDup (flat_map snd nm) ->
  In (s, v) vs -> alookup stype_eqb s nm = Some cn -> nth_error cn j = Some name ->
  tf_get_col_feat (frame_of vs nm yy ov) name = Some (feat_of_view (vcol j v), s).
Proof.
  intros n vs nm yy ov s v cn j name Hwf Hnames Hnd Hin Hcn Hj.
  pose proof Hnames as [Hndv [Hndn [Hlen [Hsub Hcols]]]]. pose proof Hwf as [Hv _]. rewrite Forall_forall in Hv.
  unfold tf_get_col_feat. cbn [frame_of names feats].
  rewrite col_to_stype_idx_flat.
  rewrite (aset_fold_lookup (flat_cols nm) [] name (s, j)).
  - cbn [obind fst snd].
    pose proof (alookup_map_snd_st feat_of_view s vs) as Hm. cbn beta in Hm. rewrite Hm. clear Hm.
    rewrite (In_alookup stype_eqb stype_eqb_spec s v vs Hndv Hin). cbn [option_map obind].
    destruct (Hcols s v Hin) as [Hd [cn' [E [Hl _]]]]. rewrite Hcn in E. injection E as <-.
    assert (Hjc : j < vncols v).
    { rewrite <- Hl. apply nth_error_Some. congruence. }
    pose proof (col_of_view n v j (Hv (s, v) Hin) Hd Hjc) as Hcol.
    destruct (feat_of_view v); rewrite Hcol; reflexivity.
  - rewrite flat_cols_keys. exact Hnd.
  - apply (flat_cols_In nm s cn j name); [|exact Hj]. apply (alookup_In stype_eqb stype_eqb_spec). exact Hcn.
Qed.

Lemma get_col_feat_missing_proof : forall f name,
  ~ In name (flat_map snd (names f)) -> tf_get_col_feat f name = None.
Proof.
  intros f name H. unfold tf_get_col_feat. rewrite col_to_stype_idx_flat.
  rewrite aset_fold_absent by (rewrite flat_cols_keys; exact H). reflexivity.
Qed.

(* ------------------------------------------------------------------ *)
(* torch_frame.cat along columns *)
Inductive chain : nat -> list (nat * nat) -> nat -> Prop :=
| chain_nil : forall a, chain a [] a
| chain_cons : forall a b r e, a < b -> chain b r e -> chain a ((a, b) :: r) e.

Lemma chain_le : forall a ivs e, chain a ivs e -> a <= e.
Proof. intros a ivs e H. induction H; lia. Qed.

Lemma chain_tslices : forall {X} (l : list X) a ivs e,
  chain a ivs e -> concat (map (fun ab => tslice l (fst ab) (snd ab)) ivs) = tslice l a e.
Proof.
  intros X l a ivs e H. induction H as [a|a b r e Hab Hr IH]; simpl.
  - unfold tslice. rewrite Nat.sub_diag. reflexivity.
  - rewrite IH. apply tslice_app; [lia|apply (chain_le _ _ _ Hr)].
Qed.

Lemma chain_sum : forall a ivs e c,
  chain a ivs e -> e <= c -> sum (map (fun ab => Nat.min (snd ab) c - fst ab) ivs) = e - a.
Proof.
  intros a ivs e c H. induction H as [a|a b r e Hab Hr IH]; intros Hc; simpl; [lia|].
  rewrite IH by exact Hc. pose proof (chain_le _ _ _ Hr). lia.
Qed.

Lemma chain_bounds : forall a ivs e, chain a ivs e -> Forall (fun ab => a <= fst ab /\ fst ab < snd ab /\ snd ab <= e) ivs.
Proof.
  intros a ivs e H. induction H as [a|a b r e Hab Hr IH]; constructor.
  - cbn [fst snd]. pose proof (chain_le _ _ _ Hr). lia.
  - eapply Forall_impl; [|exact IH]. cbn beta. intros [x z]. cbn [fst snd]. lia.
Qed.

Definition cut_ivs (cut : nat -> nat) (j0 k : nat) : list (nat * nat) :=
  flat_map (fun j => if cut j <? cut (S j) then [(cut j, cut (S j))] else []) (seq j0 k).

Lemma chain_of_cuts : forall cut k j0, (forall j, cut j <= cut (S j)) -> chain (cut j0) (cut_ivs cut j0 k) (cut (j0 + k)).
Proof.
  intros cut k. induction k as [|k IH]; intros j0 Hm; unfold cut_ivs; cbn [seq flat_map].
  - rewrite Nat.add_0_r. constructor.
  - fold (cut_ivs cut (S j0) k). replace (j0 + S k) with (S j0 + k) by lia.
    destruct (cut j0 <? cut (S j0)) eqn:E.
    + apply Nat.ltb_lt in E. cbn [app]. constructor; [exact E|apply IH; exact Hm].
    + apply Nat.ltb_ge in E. pose proof (Hm j0). replace (cut j0) with (cut (S j0)) by lia. cbn [app]. apply IH. exact Hm.
Qed.

Lemma flat_map_if_map : forall {X} (g : nat * nat -> X) (cut : nat -> nat) l,
  flat_map (fun j => if cut j <? cut (S j) then [g (cut j, cut (S j))] else []) l
  = map g (flat_map (fun j => if cut j <? cut (S j) then [(cut j, cut (S j))] else []) l).
Proof.
  intros X g cut l. induction l as [|j r IH]; simpl; [reflexivity|]. rewrite map_app, IH.
  destruct (cut j <? cut (S j)); reflexivity.
Qed.

Lemma tslice_nil : forall {X} a b, tslice (@nil X) a b = [].
Proof. intros X a b. unfold tslice. rewrite skipn_nil. apply firstn_nil. Qed.

Lemma tslice_full : forall {X} (l : list X) c, length l = c -> tslice l 0 c = l.
Proof. intros X l c <-. apply tslice_all. Qed.

Lemma nth_col_chunk : forall (m : cellmat payload) a b i, nth i (col_chunk a b m) [] = tslice (nth i m []) a b.
Proof.
  intros m a b i. unfold col_chunk. rewrite <- (tslice_nil a b) at 1.
  apply (map_nth (fun r : list (list payload) => tslice r a b)).
Qed.

(* consecutive column chunks of a matrix whose rows all have c cells reassemble to the matrix *)
Lemma zip_chunks : forall c n (m : cellmat payload) ivs,
  rect c m -> length m = n -> chain 0 ivs c ->
  zip_rows n (map (fun ab => col_chunk (fst ab) (snd ab) m) ivs) = m.
Proof.
  intros c n m ivs Hr Hn Hc. unfold zip_rows.
  etransitivity; [|symmetry; apply (map_nth_seq m [])]. rewrite Hn.
  apply map_ext_in. intros i Hi. apply in_seq in Hi. rewrite map_map.
  erewrite map_ext by (intros ab; apply nth_col_chunk).
  rewrite (chain_tslices (nth i m []) 0 ivs c Hc). apply tslice_full.
  unfold rect in Hr. rewrite Forall_forall in Hr. apply Hr. apply nth_In. lia.
Qed.

Lemma col_chunk_full : forall c (m : cellmat payload), rect c m -> col_chunk 0 c m = m.
Proof.
  intros c m Hr. unfold col_chunk. rewrite <- (map_id m) at 2. apply map_ext_in. intros r Hin.
  apply tslice_full. unfold rect in Hr. rewrite Forall_forall in Hr. apply Hr. exact Hin.
Qed.

Lemma col_chunk_length : forall a b (m : cellmat payload), length (col_chunk a b m) = length m.
Proof. intros. unfold col_chunk. apply map_length. Qed.

Lemma col_chunk_rect : forall c a b (m : cellmat payload), rect c m -> b <= c -> rect (b - a) (col_chunk a b m).
Proof.
  intros c a b m Hr Hb. unfold rect, col_chunk in *. apply Forall_map. eapply Forall_impl; [|exact Hr]. cbn beta.
  intros r Hl. apply tslice_length. lia.
Qed.

Lemma rect_w_rect : forall ws (m : cellmat payload), rect_w ws m -> rect (length ws) m.
Proof.
  intros ws m H. unfold rect_w, rect in *. eapply Forall_impl; [|exact H]. cbn beta. intros r E.
  rewrite <- E. symmetry. apply map_length.
Qed.

Lemma col_chunk_rect_w : forall ws a b (m : cellmat payload), rect_w ws m -> rect_w (tslice ws a b) (col_chunk a b m).
Proof.
  intros ws a b m Hr. unfold rect_w, col_chunk in *. apply Forall_map. eapply Forall_impl; [|exact Hr]. cbn beta.
  intros r E. rewrite <- E. symmetry. apply tslice_map.
Qed.

Lemma dense_wf_rect : forall c k (m : cellmat payload), dense_wf c k m -> rect c m.
Proof. intros c k m H. unfold dense_wf, rect in *. eapply Forall_impl; [|exact H]. cbn beta. tauto. Qed.

Lemma vcols_full : forall n v, view_wf n v -> vdict_ok v -> feat_of_view (vcols 0 (vncols v) v) = feat_of_view v.
Proof.
  intros n v Hw Hd. destruct v as [c k m|c m|ws m|d]; cbn [vcols vncols feat_of_view view_wf vdict_ok] in *.
  - destruct Hw as [_ Hw]. rewrite Nat.min_id, Nat.sub_0_r, (col_chunk_full c m (dense_wf_rect c k m Hw)). reflexivity.
  - destruct Hw as [_ Hw]. rewrite Nat.min_id, Nat.sub_0_r, (col_chunk_full c m Hw). reflexivity.
  - destruct Hw as [_ Hw]. rewrite tslice_all, (col_chunk_full _ m (rect_w_rect ws m Hw)). reflexivity.
  - destruct Hw as [_ Hw]. destruct Hd as [_ Hc]. f_equal. rewrite map_map. apply map_ext_in. intros [kk [c m]] Hin.
    cbn [fst snd]. rewrite Forall_forall in Hw, Hc. destruct (Hw _ Hin) as [_ Hr]. pose proof (Hc _ Hin) as E.
    cbn [fst snd] in *. rewrite <- E, Nat.min_id, Nat.sub_0_r, (col_chunk_full c m Hr). reflexivity.
Qed.

Lemma concat_map_concat : forall {X Y} (g : X -> list (list Y)) (l : list X),
  concat (map (fun x => concat (g x)) l) = concat (concat (map g l)).
Proof. intros X Y g l. induction l as [|x r IH]; simpl; [reflexivity|]. rewrite concat_app, IH. reflexivity. Qed.

Lemma nth_map_concat : forall {X} (l : list (list (list X))) i,
  nth i (map (@concat X) l) [] = concat (nth i l []).
Proof. intros X l i. change (@nil X) with (concat (@nil (list X))) at 1. apply map_nth. Qed.

Section CatCols.
  Variable mnt_cat : list (mnt payload) -> nat -> option (mnt payload).
  Variable met_cat : list (met payload) -> nat -> option (met payload).
  (* The ragged containers' own cat along columns: row r of the result = rows r of the parts appended
     (C06: mnt_cat_cols / met_cat_cols) *)
  Hypothesis H_mnt_cat_cols : forall n (ps : list (nat * cellmat payload)), ps <> [] ->
    Forall (fun p => rect (fst p) (snd p) /\ length (snd p) = n) ps ->
    mnt_cat (map (fun p => mnt_of_cells (fst p) (snd p)) ps) 1
    = Some (mnt_of_cells (sum (map fst ps)) (zip_rows n (map snd ps))).
  Hypothesis H_met_cat_cols : forall n (ps : list (list nat * cellmat payload)), ps <> [] ->
    Forall (fun p => length (snd p) = n) ps ->
    met_cat (map (fun p => met_of_cells (fst p) (snd p)) ps) 1
    = Some (met_of_cells (concat (map fst ps)) (zip_rows n (map snd ps))).

  Lemma mnt_chunks_cat : forall n c (m : cellmat payload) ivs,
    rect c m -> length m = n -> chain 0 ivs c -> ivs <> [] ->
    mnt_cat (map (fun ab => mnt_of_cells (Nat.min (snd ab) c - fst ab) (col_chunk (fst ab) (snd ab) m)) ivs) 1
    = Some (mnt_of_cells c m).
  Proof.
    intros n c m ivs Hr Hn Hc Hne.
    rewrite <- (map_map (fun ab => (Nat.min (snd ab) c - fst ab, col_chunk (fst ab) (snd ab) m))
                        (fun p => mnt_of_cells (fst p) (snd p))).
    rewrite (H_mnt_cat_cols n).
    - rewrite !map_map. cbn [fst snd]. rewrite (chain_sum 0 ivs c c Hc (le_n c)), Nat.sub_0_r.
      rewrite (zip_chunks c n m ivs Hr Hn Hc). reflexivity.
    - destruct ivs; [congruence|discriminate].
    - apply Forall_map. pose proof (chain_bounds 0 ivs c Hc) as Hb. eapply Forall_impl; [|exact Hb]. cbn beta.
      intros [a b]. cbn [fst snd]. intros [_ [Hab Hbc]]. split; [|rewrite col_chunk_length; exact Hn].
      rewrite Nat.min_l by exact Hbc. apply (col_chunk_rect c); assumption.
  Qed.

  Lemma cat_data_cols : forall n v ivs,
    view_wf n v -> vdict_ok v -> chain 0 ivs (vncols v) -> ivs <> [] ->
    cat_tensor_data mnt_cat met_cat (map (fun ab => feat_of_view (vcols (fst ab) (snd ab) v)) ivs) 1
    = Some (feat_of_view v).
  Proof.
    intros n v ivs Hw Hd Hc Hne.
    destruct ivs as [|ab [|ab2 rest]]; [congruence| |].
    { inversion Hc as [|a b r e Hab Hr]; subst. inversion Hr; subst. cbn [map cat_tensor_data fst snd].
      rewrite (vcols_full n v Hw Hd). reflexivity. }
    set (ivs := ab :: ab2 :: rest) in *.
    assert (Hgen : forall (l : list feat) x x2 r, l = x :: x2 :: r ->
              cat_tensor_data mnt_cat met_cat l 1 =
              match x with
              | FDense _ _ _ => ds <- mapM as_dense l ;; r <- dense_cat ds 1 ;;
                                Some (FDense (fst (fst r)) (snd (fst r)) (snd r))
              | FEmb _ => ts <- mapM as_emb l ;; option_map FEmb (met_cat ts 1)
              | FNested _ => ts <- mapM as_nested l ;; option_map FNested (mnt_cat ts 1)
              | FDict d0 => ds <- mapM as_dict l ;;
                  if negb (forallb (fun d => keys_eqb String.eqb (map fst d) (map fst d0)) ds) then None else
                  option_map FDict
                    (mapM (fun kv => ts <- mapM (alookup String.eqb (fst kv)) ds ;;
                                     option_map (pair (fst kv)) (mnt_cat ts 1)) d0)
              end) by (intros l x x2 r ->; reflexivity).
    destruct v as [c k m|c m|ws m|d]; cbn [vcols vncols feat_of_view view_wf vdict_ok] in *.
    - destruct Hw as [Hn Hw]. pose proof (dense_wf_rect c k m Hw) as Hr.
      erewrite Hgen by (unfold ivs; cbn [map]; reflexivity). cbv beta iota.
      rewrite mapM_map.
      erewrite (mapM_all_some _ (fun ab => (map (@concat payload) (col_chunk (fst ab) (snd ab) m),
                                            Nat.min (snd ab) c - fst ab, k))) by (intros; reflexivity).
      cbn [obind].
      set (L := map (fun ab => (map (@concat payload) (col_chunk (fst ab) (snd ab) m), Nat.min (snd ab) c - fst ab, k)) ivs).
      assert (EL : exists d0 rest0, L = d0 :: rest0 /\ length (fst (fst d0)) = n).
      { unfold L, ivs. cbn [map]. eexists. eexists. split; [reflexivity|]. cbn [fst]. rewrite map_length, col_chunk_length. exact Hn. }
      destruct EL as [d0 [rest0 [EL Hd0]]].
      assert (Edc : dense_cat L 1 =
                    Some (map (fun i => concat (map (fun d1 : list (list payload) * nat * nat => nth i (fst (fst d1)) []) L)) (seq 0 n),
                          sum (map (fun d1 : list (list payload) * nat * nat => snd (fst d1)) L), k)).
      { unfold dense_cat. rewrite EL. destruct d0 as [[r0 c0] k0]. cbn [fst snd] in Hd0. cbn [Nat.eqb]. rewrite <- EL.
        assert (Ek0 : k0 = k).
        { assert (Hin : In (r0, c0, k0) L) by (rewrite EL; left; reflexivity). unfold L in Hin. apply in_map_iff in Hin.
          destruct Hin as [ab0 [E _]]. injection E as _ _ E. symmetry. exact E. }
        subst k0.
        assert (Ef : forallb (fun d1 : list (list payload) * nat * nat =>
                               (length (fst (fst d1)) =? length r0) && (snd d1 =? k)) L = true).
        { apply forallb_forall. intros d1 Hin. unfold L in Hin. apply in_map_iff in Hin. destruct Hin as [ab0 [<- _]].
          cbn [fst snd]. rewrite map_length, col_chunk_length, Hn, Hd0, !Nat.eqb_refl. reflexivity. }
        rewrite Ef, Hd0. reflexivity. }
      rewrite Edc. cbn [obind fst snd]. f_equal. f_equal.
      + (* rows *)
        etransitivity; [|symmetry; apply (map_nth_seq (map (@concat payload) m) (concat (@nil (list payload))))].
        rewrite map_length, Hn. apply map_ext_in. intros i Hi. apply in_seq in Hi. unfold L. rewrite map_map. cbn [fst].
        erewrite map_ext.
        2:{ intros ab0. rewrite nth_map_concat, nth_col_chunk. reflexivity. }
        rewrite (concat_map_concat (fun ab0 => tslice (nth i m []) (fst ab0) (snd ab0))).
        rewrite (chain_tslices (nth i m []) 0 ivs c Hc), (map_nth (@concat payload)). f_equal. apply tslice_full.
        unfold rect in Hr. rewrite Forall_forall in Hr. apply Hr. apply nth_In. lia.
      + unfold L. rewrite map_map. cbn [fst snd]. rewrite (chain_sum 0 ivs c c Hc (le_n c)). lia.
    - destruct Hw as [Hn Hw].
      erewrite Hgen by (unfold ivs; cbn [map]; reflexivity). cbv beta iota.
      rewrite mapM_map.
      erewrite (mapM_all_some _ (fun ab => mnt_of_cells (Nat.min (snd ab) c - fst ab) (col_chunk (fst ab) (snd ab) m)))
        by (intros; reflexivity).
      cbn [obind]. rewrite (mnt_chunks_cat n c m ivs Hw Hn Hc) by (unfold ivs; discriminate). reflexivity.
    - destruct Hw as [Hn Hw]. pose proof (rect_w_rect ws m Hw) as Hr.
      erewrite Hgen by (unfold ivs; cbn [map]; reflexivity). cbv beta iota.
      rewrite mapM_map.
      erewrite (mapM_all_some _ (fun ab => met_of_cells (tslice ws (fst ab) (snd ab)) (col_chunk (fst ab) (snd ab) m)))
        by (intros; reflexivity).
      cbn [obind].
      rewrite <- (map_map (fun ab => (tslice ws (fst ab) (snd ab), col_chunk (fst ab) (snd ab) m))
                          (fun p => met_of_cells (fst p) (snd p))).
      rewrite (H_met_cat_cols n).
      + cbn [option_map]. rewrite !map_map. cbn [fst snd].
        rewrite (chain_tslices ws 0 ivs (length ws) Hc), tslice_all, (zip_chunks (length ws) n m ivs Hr Hn Hc). reflexivity.
      + unfold ivs. discriminate.
      + apply Forall_map. apply Forall_forall. intros ab0 _. cbn [snd]. rewrite col_chunk_length. exact Hn.
    - destruct Hw as [Hne' Hw]. destruct Hd as [Hnd Hcu].
      erewrite Hgen by (unfold ivs; cbn [map]; reflexivity). cbv beta iota.
      rewrite mapM_map.
      erewrite (mapM_all_some _ (fun ab => map (fun kcm : string * (nat * cellmat payload) =>
                  (fst kcm, mnt_of_cells (fst (snd kcm)) (snd (snd kcm))))
                  (map (fun kcm : string * (nat * cellmat payload) =>
                          (fst kcm, (Nat.min (snd ab) (fst (snd kcm)) - fst ab, col_chunk (fst ab) (snd ab) (snd (snd kcm))))) d)))
        by (intros; reflexivity).
      cbn [obind]. discharge_keys_check. rewrite !map_map. cbn [fst snd]. rewrite mapM_map. cbn [fst snd].
      erewrite (mapM_all_some _ (fun kcm : string * (nat * cellmat payload) =>
                  (fst kcm, mnt_of_cells (fst (snd kcm)) (snd (snd kcm))))).
      + cbn [option_map]. reflexivity.
      + intros [kk [c m]] Hin. cbn [fst snd]. rewrite Forall_forall in Hw, Hcu.
        destruct (Hw _ Hin) as [Hn Hr]. pose proof (Hcu _ Hin) as Ec. cbn [fst snd] in *.
        rewrite mapM_map.
        erewrite (mapM_all_some _ (fun ab => mnt_of_cells (Nat.min (snd ab) c - fst ab) (col_chunk (fst ab) (snd ab) m))).
        * cbn [obind]. rewrite (mnt_chunks_cat n c m ivs Hr Hn) by (try (rewrite Ec; exact Hc); unfold ivs; discriminate).
          reflexivity.
        * intros ab0 _. apply (In_alookup String.eqb str_eqb_spec).
          -- rewrite !map_map. cbn [fst]. rewrite (map_ext _ fst (fun _ => eq_refl)). exact Hnd.
          -- rewrite map_map. apply in_map_iff. exists (kk, (c, m)). split; [reflexivity|exact Hin].
  Qed.
End CatCols.

(* ---- helpers for the frame-level column theorem ---- *)
Lemma NoDup_app_inv : forall {X} (a b : list X),
  NoDup (a ++ b) -> NoDup a /\ NoDup b /\ (forall x, In x a -> In x b -> False).
Proof.
  intros X a. induction a as [|x r IH]; intros b H; simpl in *.
  - repeat split; [constructor|exact H|intros x []].
  - inversion H as [|? ? Hni Hnd]; subst. destruct (IH b Hnd) as [Ha [Hb Hd]]. repeat split.
    + constructor; [|exact Ha]. intros Hin. apply Hni. apply in_or_app. left; exact Hin.
    + exact Hb.
    + intros z [->|Hz] Hzb; [apply Hni; apply in_or_app; right; exact Hzb|apply (Hd z Hz Hzb)].
Qed.

Lemma NoDup_app_intro : forall {X} (a b : list X),
  NoDup a -> NoDup b -> (forall x, In x a -> In x b -> False) -> NoDup (a ++ b).
Proof.
  intros X a. induction a as [|x r IH]; intros b Ha Hb Hd; simpl; [exact Hb|].
  inversion Ha as [|? ? Hni Hnd]; subst. constructor.
  - intros Hin. apply in_app_or in Hin. destruct Hin as [Hin|Hin]; [contradiction|]. apply (Hd x (or_introl eq_refl) Hin).
  - apply IH; [exact Hnd|exact Hb|]. intros z Hz Hzb. apply (Hd z (or_intror Hz) Hzb).
Qed.

Lemma flat_nodup_part : forall {K X} (nm : list (K * list X)) s l, NoDup (flat_map snd nm) -> In (s, l) nm -> NoDup l.
Proof.
  intros K X nm s l. induction nm as [|p r IH]; intros H Hin; [contradiction|]. simpl in H.
  destruct (NoDup_app_inv _ _ H) as [Ha [Hb _]]. destruct Hin as [->|Hin]; [exact Ha|apply IH; assumption].
Qed.

Lemma flat_nodup_disjoint : forall {X} (nm : list (stype * list X)) s l s' l' x,
  NoDup (flat_map snd nm) -> In (s, l) nm -> In (s', l') nm -> s <> s' -> In x l -> In x l' -> False.
Proof.
  intros X nm s l s' l' x. induction nm as [|p r IH]; intros H H1 H2 Hne Hx Hx'; [contradiction|]. simpl in H.
  destruct (NoDup_app_inv _ _ H) as [_ [Hb Hd]].
  destruct H1 as [->|H1], H2 as [E2|H2].
  - injection E2 as E _. congruence.
  - apply (Hd x Hx). apply in_flat_map. exists (s', l'). auto.
  - subst p. apply (Hd x Hx'). apply in_flat_map. exists (s, l). auto.
  - apply IH; assumption.
Qed.

Lemma NoDup_flat_sub : forall {X} (g nm : list (stype * list X)),
  NoDup (map fst g) -> (forall p, In p g -> In p nm) -> NoDup (flat_map snd nm) -> NoDup (flat_map snd g).
Proof.
  intros X g nm. induction g as [|[s l] g' IH]; intros Hnd Hsub Hnm; simpl; [constructor|].
  inversion Hnd as [|? ? Hni Hnd']; subst. apply NoDup_app_intro.
  - apply (flat_nodup_part nm s l Hnm). apply Hsub. left; reflexivity.
  - apply IH; [exact Hnd'| |exact Hnm]. intros p Hp. apply Hsub. right; exact Hp.
  - intros x Hx Hx'. apply in_flat_map in Hx'. destruct Hx' as [[s' l'] [Hin' Hx']]. cbn [snd] in Hx'.
    apply (flat_nodup_disjoint nm s l s' l' x Hnm); try assumption.
    + apply Hsub. left; reflexivity.
    + apply Hsub. right; exact Hin'.
    + intros ->. apply Hni. apply in_map_iff. exists (s', l'). auto.
Qed.

Lemma filter_flat_map : forall {X Y} (f : Y -> bool) (g : X -> list Y) (l : list X),
  filter f (flat_map g l) = flat_map (fun x => filter f (g x)) l.
Proof. intros X Y f g l. induction l as [|x r IH]; simpl; [reflexivity|]. rewrite filter_app, IH. reflexivity. Qed.

Lemma filter_all : forall {X} (f : X -> bool) (l : list X), (forall x, In x l -> f x = true) -> filter f l = l.
Proof.
  intros X f l. induction l as [|a r IH]; intros H; simpl; [reflexivity|].
  rewrite (H a (or_introl eq_refl)). f_equal. apply IH. intros x Hx. apply H. right; exact Hx.
Qed.

Lemma filter_none' : forall {X} (f : X -> bool) (l : list X), (forall x, In x l -> f x = false) -> filter f l = [].
Proof.
  intros X f l. induction l as [|a r IH]; intros H; simpl; [reflexivity|].
  rewrite (H a (or_introl eq_refl)). apply IH. intros x Hx. apply H. right; exact Hx.
Qed.

(* in a flat_map over a dict whose outputs keep the key of their input, the entries of key s come from the entry of s *)
Lemma filter_flat_key : forall {X Y} (g : stype * X -> list (stype * Y)) (l : list (stype * X)) s x,
  (forall sc p, In p (g sc) -> fst p = fst sc) -> NoDup (map fst l) -> In (s, x) l ->
  filter (fun p => stype_eqb s (fst p)) (flat_map g l) = g (s, x).
Proof.
  intros X Y g l s x Hg. induction l as [|[s' x'] r IH]; intros Hnd Hin; [contradiction|].
  inversion Hnd as [|? ? Hni Hnd']; subst. cbn [flat_map]. rewrite filter_app. destruct Hin as [E|Hin].
  - injection E as -> ->. rewrite filter_all.
    + rewrite filter_none'; [apply app_nil_r|]. intros p Hp. apply in_flat_map in Hp. destruct Hp as [[s2 x2] [Hin2 Hp]].
      rewrite (Hg _ _ Hp). cbn [fst]. apply (keqb_neq stype_eqb stype_eqb_spec). intros ->. apply Hni.
      apply in_map_iff. exists (s2, x2). auto.
    + intros p Hp. rewrite (Hg _ _ Hp). apply stype_eqb_refl.
  - rewrite filter_none'.
    + apply IH; assumption.
    + intros p Hp. rewrite (Hg _ _ Hp). cbn [fst]. apply (keqb_neq stype_eqb stype_eqb_spec). intros ->. apply Hni.
      apply in_map_iff. exists (s', x). auto.
Qed.

Lemma filter_flat_key_absent : forall {X Y} (g : stype * X -> list (stype * Y)) (l : list (stype * X)) s,
  (forall sc p, In p (g sc) -> fst p = fst sc) -> ~ In s (map fst l) ->
  filter (fun p => stype_eqb s (fst p)) (flat_map g l) = [].
Proof.
  intros X Y g l s Hg Hni. apply filter_none'. intros p Hp. apply in_flat_map in Hp. destruct Hp as [[s2 x2] [Hin2 Hp]].
  rewrite (Hg _ _ Hp). cbn [fst]. apply (keqb_neq stype_eqb stype_eqb_spec). intros ->. apply Hni.
  apply in_map_iff. exists (s2, x2). auto.
Qed.

Lemma has_key_filter : forall {W} (L : list (stype * list W)) s,
  has_key stype_eqb s L = true <-> filter (fun kv => stype_eqb s (fst kv)) L <> [].
Proof.
  intros W L s. unfold has_key. rewrite existsb_exists. split.
  - intros [p [Hin E]] Hf. assert (Hp : In p (filter (fun kv => stype_eqb s (fst kv)) L)) by (apply filter_In; auto).
    rewrite Hf in Hp. contradiction.
  - intros H. destruct (filter (fun kv => stype_eqb s (fst kv)) L) as [|p r] eqn:E; [congruence|].
    assert (Hp : In p (filter (fun kv => stype_eqb s (fst kv)) L)) by (rewrite E; left; reflexivity).
    apply filter_In in Hp. exists p. exact Hp.
Qed.

Lemma flat_map_nil' : forall {X Y} (f : X -> list Y) (l : list X), (forall x, In x l -> f x = []) -> flat_map f l = [].
Proof.
  intros X Y f l. induction l as [|a r IH]; intros H; simpl; [reflexivity|].
  rewrite (H a (or_introl eq_refl)). apply IH. intros x Hx. apply H. right; exact Hx.
Qed.

Lemma flat_map_single : forall {X} (x : X) jy k,
  jy < k -> flat_map (fun j => if j =? jy then [x] else []) (seq 0 k) = [x].
Proof.
  intros X x jy k H. replace k with (jy + S (k - S jy)) by lia. rewrite seq_app, flat_map_app. cbn [seq flat_map].
  rewrite Nat.eqb_refl.
  assert (E1 : flat_map (fun j => if j =? jy then [x] else []) (seq 0 jy) = []).
  { apply flat_map_nil'. intros j Hj. apply in_seq in Hj. assert (E : (j =? jy) = false) by (apply Nat.eqb_neq; lia). rewrite E. reflexivity. }
  assert (E2 : flat_map (fun j => if j =? jy then [x] else []) (seq (S (0 + jy)) (k - S jy)) = []).
  { apply flat_map_nil'. intros j Hj. apply in_seq in Hj. assert (E : (j =? jy) = false) by (apply Nat.eqb_neq; lia). rewrite E. reflexivity. }
  rewrite E1, E2. reflexivity.
Qed.

Lemma flat_map_map_compose : forall {X Y Z} (f : Y -> list Z) (g : X -> Y) (l : list X),
  flat_map f (map g l) = flat_map (fun x => f (g x)) l.
Proof. intros X Y Z f g l. induction l as [|x r IH]; simpl; [reflexivity|]. rewrite IH. reflexivity. Qed.

Lemma map_flat_map : forall {X Y Z} (f : Y -> Z) (g : X -> list Y) (l : list X),
  map f (flat_map g l) = flat_map (fun x => map f (g x)) l.
Proof. intros X Y Z f g l. induction l as [|x r IH]; simpl; [reflexivity|]. rewrite map_app, IH. reflexivity. Qed.

Lemma concat_map_singleton : forall {X Y} (f : X -> Y) (l : list X), concat (map (fun x => [f x]) l) = map f l.
Proof. intros X Y f l. induction l as [|x r IH]; simpl; [reflexivity|]. rewrite IH. reflexivity. Qed.

Lemma view_wf_vcols : forall n v a b, view_wf n v -> vdict_ok v -> a < b -> b <= vncols v -> view_wf n (vcols a b v).
Proof.
  intros n v a b Hw Hd Hab Hb. destruct v as [c k m|c m|ws m|d]; cbn [vcols vncols view_wf vdict_ok] in *.
  - destruct Hw as [Hn Hw]. split; [rewrite col_chunk_length; exact Hn|]. unfold col_chunk. apply Forall_map.
    eapply Forall_impl; [|exact Hw]. cbn beta. intros r [Hc Hk]. split.
    + rewrite Nat.min_l by exact Hb. apply tslice_length. lia.
    + apply Forall_forall. intros cl Hcl. rewrite Forall_forall in Hk. apply Hk. apply (In_tslice r a b). exact Hcl.
  - destruct Hw as [Hn Hw]. split; [rewrite col_chunk_length; exact Hn|]. rewrite Nat.min_l by exact Hb.
    apply (col_chunk_rect c); assumption.
  - destruct Hw as [Hn Hw]. split; [rewrite col_chunk_length; exact Hn|]. apply col_chunk_rect_w. exact Hw.
  - destruct Hw as [Hne Hw]. destruct Hd as [_ Hc]. split; [destruct d; [congruence|discriminate]|].
    apply Forall_map. rewrite Forall_forall in *. intros [kk [c m]] Hin. cbn [fst snd].
    destruct (Hw _ Hin) as [Hn Hr]. pose proof (Hc _ Hin) as E. cbn [fst snd] in *.
    split; [rewrite col_chunk_length; exact Hn|]. rewrite Nat.min_l by lia. apply (col_chunk_rect c); [exact Hr|lia].
Qed.

Lemma stype_in_dec : forall (s : stype) (l : list stype), In s l \/ ~ In s l.
Proof.
  intros s l. induction l as [|x r IH]; [right; intros []|].
  destruct (stype_eqb s x) eqn:E.
  - apply stype_eqb_spec in E. subst. left. left. reflexivity.
  - destruct IH as [IH|IH]; [left; right; exact IH|]. right. intros [->|H]; [|contradiction].
    rewrite stype_eqb_refl in E. discriminate.
Qed.

Section ColPartition.
  Variable close : Z -> Z -> bool.
  Hypothesis close_refl : forall z, close z z = true.
  Variable mnt_cat : list (mnt payload) -> nat -> option (mnt payload).
  Variable met_cat : list (met payload) -> nat -> option (met payload).
  Hypothesis H_mnt_cat_cols : forall n (ps : list (nat * cellmat payload)), ps <> [] ->
    Forall (fun p => rect (fst p) (snd p) /\ length (snd p) = n) ps ->
    mnt_cat (map (fun p => mnt_of_cells (fst p) (snd p)) ps) 1
    = Some (mnt_of_cells (sum (map fst ps)) (zip_rows n (map snd ps))).
  Hypothesis H_met_cat_cols : forall n (ps : list (list nat * cellmat payload)), ps <> [] ->
    Forall (fun p => length (snd p) = n) ps ->
    met_cat (map (fun p => met_of_cells (fst p) (snd p)) ps) 1
    = Some (met_of_cells (concat (map fst ps)) (zip_rows n (map snd ps))).

  Lemma col_partition_roundtrip_proof : forall n vs nm yy ov k cut jy pov,
    frame_wf n vs yy ov -> names_ok vs nm -> NoDup (flat_map snd nm) ->
    jy < k ->
    (forall s v, In (s, v) vs -> cut 0 s = 0 /\ cut k s = vncols v) ->
    (forall s j, cut j s <= cut (S j) s) ->
    (forall j, j < k -> match pov j with
                        | Some m => m = n
                        | None => col_part_views (cut j) (cut (S j)) vs <> [] \/ n = 0
                        end) ->
    match yy with Some v => Forall (fun p => p <> None) v | None => True end ->
    exists F',
      tf_cat mnt_cat met_cat (map (col_part cut vs nm (fun j => if j =? jy then yy else None) pov) (seq 0 k)) 1 = Some F'
      /\ tf_eq close F' (frame_of vs nm yy ov) = Some true
      /\ tf_eq close (frame_of vs nm yy ov) F' = Some true.
  Proof.
    intros n vs nm yy ov k cut jy pov Hwf Hnames Hndnames Hjy Hcut Hmono Hpov Hnan.
    pose proof Hnames as [Hndv [Hndn [Hlen [Hsub Hcols]]]]. pose proof Hwf as [Hv [Hy Ho]]. rewrite Forall_forall in Hv.
    set (py := fun j => if j =? jy then yy else None).
    set (parts := map (col_part cut vs nm py pov) (seq 0 k)).
    set (ivs := fun s => cut_ivs (fun j => cut j s) 0 k).
    assert (Hchain : forall s v, In (s, v) vs -> chain 0 (ivs s) (vncols v) /\ ivs s <> []).
    { intros s v Hin. destruct (Hcut s v Hin) as [H0 Hk].
      assert (Hc : chain 0 (ivs s) (vncols v)).
      { pose proof (chain_of_cuts (fun j => cut j s) k 0 (fun j => Hmono s j)) as Hc. cbn beta in Hc.
        rewrite H0 in Hc. change (0 + k) with k in Hc. rewrite Hk in Hc. exact Hc. }
      split; [exact Hc|]. intros E. rewrite E in Hc. inversion Hc as [a Ha|]; subst.
      destruct (Hcols s v Hin) as [_ [cn [_ [Hl Hne]]]]. destruct cn; [congruence|]. simpl in Hl. lia. }
    (* ---- names ---- *)
    assert (Hfn : flat_names parts = flat_map (fun j => col_part_names (cut j) (cut (S j)) nm) (seq 0 k)).
    { unfold flat_names, parts. rewrite flat_map_map_compose. reflexivity. }
    assert (Hgkey : forall j (sc : stype * list string) p,
               In p (if cut j (fst sc) <? cut (S j) (fst sc)
                     then [(fst sc, tslice (snd sc) (cut j (fst sc)) (cut (S j) (fst sc)))] else []) -> fst p = fst sc).
    { intros j sc p Hp. destruct (cut j (fst sc) <? cut (S j) (fst sc)); [|contradiction]. destruct Hp as [<-|[]]. reflexivity. }
    assert (Hfilt_n : forall s cn, In (s, cn) nm ->
               filter (fun p => stype_eqb s (fst p)) (flat_names parts)
               = map (fun ab => (s, tslice cn (fst ab) (snd ab))) (ivs s)).
    { intros s cn Hin. rewrite Hfn, filter_flat_map. unfold ivs, cut_ivs.
      rewrite <- (flat_map_if_map (fun ab => (s, tslice cn (fst ab) (snd ab))) (fun j => cut j s)).
      apply flat_map_ext. intros j. unfold col_part_names.
      rewrite (filter_flat_key _ nm s cn (Hgkey j) Hndn Hin). reflexivity. }
    assert (Hfilt_n_abs : forall s, ~ In s (map fst nm) -> filter (fun p => stype_eqb s (fst p)) (flat_names parts) = []).
    { intros s Hni. rewrite Hfn, filter_flat_map. apply flat_map_nil'. intros j _. unfold col_part_names.
      apply (filter_flat_key_absent _ nm s (Hgkey j) Hni). }
    assert (Hnm_v : forall s cn, In (s, cn) nm -> exists v, In (s, v) vs /\ length cn = vncols v).
    { intros s cn Hin. assert (Hs : In s (map fst vs)) by (apply Hsub; apply in_map_iff; exists (s, cn); auto).
      apply in_map_iff in Hs. destruct Hs as [[s2 v] [E Hinv]]. cbn [fst] in E. subst s2. exists v. split; [exact Hinv|].
      destruct (Hcols s v Hinv) as [_ [cn' [E [Hl _]]]]. rewrite (In_alookup stype_eqb stype_eqb_spec s cn nm Hndn Hin) in E.
      injection E as <-. exact Hl. }
    assert (Hvals_n : forall s cn, In (s, cn) nm -> vals_of stype_eqb s (flat_names parts) = cn).
    { intros s cn Hin. unfold vals_of. rewrite (Hfilt_n s cn Hin), map_map. cbn [snd].
      destruct (Hnm_v s cn Hin) as [v [Hinv Hl]]. destruct (Hchain s v Hinv) as [Hc _].
      rewrite (chain_tslices cn 0 (ivs s) (vncols v) Hc). apply tslice_full. exact Hl. }
    set (nm' := group_names parts).
    assert (Hnd_nm' : NoDup (map fst nm')).
    { unfold nm'. rewrite group_names_flat. apply fold_gstep_nodup. constructor. }
    assert (Gn1 : forall s l, In (s, l) nm' -> In (s, l) nm).
    { intros s l Hin. unfold nm' in Hin. rewrite group_names_flat in Hin. apply group_In in Hin. destruct Hin as [-> Hk].
      apply has_key_filter in Hk.
      destruct (stype_in_dec s (map fst nm)) as [Hs|Hs].
      - apply in_map_iff in Hs. destruct Hs as [[s2 cn] [E Hin]]. cbn [fst] in E. subst s2.
        rewrite (Hvals_n s cn Hin). exact Hin.
      - exfalso. apply Hk. apply Hfilt_n_abs. exact Hs. }
    assert (Gn2 : forall s cn, In (s, cn) nm -> In (s, cn) nm').
    { intros s cn Hin. unfold nm'. rewrite group_names_flat. rewrite <- (Hvals_n s cn Hin) at 1. apply group_has.
      apply has_key_filter. rewrite (Hfilt_n s cn Hin). destruct (Hnm_v s cn Hin) as [v [Hinv _]].
      destruct (Hchain s v Hinv) as [_ Hne]. destruct (ivs s); [congruence|discriminate]. }
    assert (Hlen_nm' : length nm' = length nm).
    { apply Nat.le_antisymm.
      - apply NoDup_incl_length; [|intros p Hp; destruct p; apply Gn1; exact Hp].
        apply (NoDup_map_inv fst). exact Hnd_nm'.
      - apply NoDup_incl_length; [|intros p Hp; destruct p; apply Gn2; exact Hp].
        apply (NoDup_map_inv fst). exact Hndn. }
    assert (Hdup2 : has_dup (flat_map snd nm') = false).
    { apply has_dup_false. apply (NoDup_flat_sub nm' nm Hnd_nm'); [|exact Hndnames]. intros [s l] Hp. apply Gn1. exact Hp. }
    assert (Hdup1 : existsb (fun sc : stype * list string => has_dup (snd sc)) nm' = false).
    { apply not_true_is_false. intros H. apply existsb_exists in H. destruct H as [[s l] [Hin Hd]]. cbn [snd] in Hd.
      assert (Hn : NoDup l) by (apply (flat_nodup_part nm s l Hndnames); apply Gn1; exact Hin).
      apply has_dup_false in Hn. congruence. }
    (* ---- features ---- *)
    assert (Hff : flat_feats parts =
                  flat_map (fun j => flat_map (fun sv : stype * fview =>
                     if cut j (fst sv) <? cut (S j) (fst sv)
                     then [(fst sv, [feat_of_view (vcols (cut j (fst sv)) (cut (S j) (fst sv)) (snd sv))])] else []) vs) (seq 0 k)).
    { unfold flat_feats, parts. rewrite flat_map_map_compose. apply flat_map_ext. intros j.
      unfold col_part, frame_of, col_part_views. cbn [feats]. rewrite !map_flat_map. apply flat_map_ext. intros sv.
      destruct (cut j (fst sv) <? cut (S j) (fst sv)); reflexivity. }
    assert (Hgkey_f : forall j (sv : stype * fview) (p : stype * list feat),
               In p (if cut j (fst sv) <? cut (S j) (fst sv)
                     then [(fst sv, [feat_of_view (vcols (cut j (fst sv)) (cut (S j) (fst sv)) (snd sv))])] else []) ->
               fst p = fst sv).
    { intros j sv p Hp. destruct (cut j (fst sv) <? cut (S j) (fst sv)); [|contradiction]. destruct Hp as [<-|[]]. reflexivity. }
    assert (Hfilt_f : forall s v, In (s, v) vs ->
               filter (fun p => stype_eqb s (fst p)) (flat_feats parts)
               = map (fun ab => (s, [feat_of_view (vcols (fst ab) (snd ab) v)])) (ivs s)).
    { intros s v Hin. rewrite Hff, filter_flat_map. unfold ivs, cut_ivs.
      rewrite <- (flat_map_if_map (fun ab => (s, [feat_of_view (vcols (fst ab) (snd ab) v)])) (fun j => cut j s)).
      apply flat_map_ext. intros j.
      rewrite (filter_flat_key _ vs s v (Hgkey_f j) Hndv Hin). reflexivity. }
    assert (Hfilt_f_abs : forall s, ~ In s (map fst vs) -> filter (fun p => stype_eqb s (fst p)) (flat_feats parts) = []).
    { intros s Hni. rewrite Hff, filter_flat_map. apply flat_map_nil'. intros j _.
      apply (filter_flat_key_absent _ vs s (Hgkey_f j) Hni). }
    assert (Hvals_f : forall s v, In (s, v) vs ->
               vals_of stype_eqb s (flat_feats parts) = map (fun ab => feat_of_view (vcols (fst ab) (snd ab) v)) (ivs s)).
    { intros s v Hin. unfold vals_of. rewrite (Hfilt_f s v Hin), map_map. cbn [snd]. apply concat_map_singleton. }
    assert (Gf1 : forall s l, In (s, l) (group_feats parts) ->
               exists v, In (s, v) vs /\ l = map (fun ab => feat_of_view (vcols (fst ab) (snd ab) v)) (ivs s)).
    { intros s l Hin. rewrite group_feats_flat in Hin. apply group_In in Hin. destruct Hin as [-> Hk].
      apply has_key_filter in Hk.
      assert (Hs : In s (map fst vs)).
      { destruct (alookup stype_eqb s vs) as [v|] eqn:E.
        - apply (alookup_In stype_eqb stype_eqb_spec) in E. apply in_map_iff. exists (s, v). auto.
        - apply (alookup_None stype_eqb stype_eqb_spec) in E. exfalso. apply Hk. apply Hfilt_f_abs. exact E. }
      apply in_map_iff in Hs. destruct Hs as [[s2 v] [E Hinv]]. cbn [fst] in E. subst s2. exists v. split; [exact Hinv|].
      apply Hvals_f. exact Hinv. }
    assert (Gf2 : forall s v, In (s, v) vs -> In s (map fst (group_feats parts))).
    { intros s v Hin. apply in_map_iff. exists (s, vals_of stype_eqb s (flat_feats parts)). split; [reflexivity|].
      rewrite group_feats_flat. apply group_has. apply has_key_filter. rewrite (Hfilt_f s v Hin).
      destruct (Hchain s v Hin) as [_ Hne]. destruct (ivs s); [congruence|discriminate]. }
    set (h := fun s => match alookup stype_eqb s vs with Some v => feat_of_view v | None => FDense [] 0 0 end).
    set (fs' := map (fun sl : stype * list feat => (fst sl, h (fst sl))) (group_feats parts)).
    assert (Hhelper : cat_helper mnt_cat met_cat parts 1 = Some fs').
    { unfold cat_helper, fs'. apply mapM_all_some. intros [s l] Hin. cbn [fst snd].
      destruct (Gf1 s l Hin) as [v [Hinv ->]]. destruct (Hchain s v Hinv) as [Hc Hne].
      rewrite (cat_data_cols mnt_cat met_cat H_mnt_cat_cols H_met_cat_cols n v (ivs s) (Hv (s, v) Hinv)
                 (proj1 (Hcols s v Hinv)) Hc Hne).
      cbn [option_map]. unfold h. rewrite (In_alookup stype_eqb stype_eqb_spec s v vs Hndv Hinv). reflexivity. }
    assert (Hnd' : NoDup (map fst fs')).
    { unfold fs'. rewrite map_map. cbn [fst]. rewrite (map_ext _ fst (fun _ => eq_refl)).
      rewrite group_feats_flat. apply fold_gstep_nodup. constructor. }
    assert (Hchar : forall s x, In (s, x) fs' <-> exists v, In (s, v) vs /\ x = feat_of_view v).
    { intros s x. unfold fs'. split.
      - intros Hin. apply in_map_iff in Hin. destruct Hin as [[s2 l] [E Hin]]. cbn [fst] in E. injection E as <- <-.
        destruct (Gf1 s2 l Hin) as [v [Hinv _]]. exists v. split; [exact Hinv|]. unfold h.
        rewrite (In_alookup stype_eqb stype_eqb_spec s2 v vs Hndv Hinv). reflexivity.
      - intros [v [Hinv ->]]. pose proof (Gf2 s v Hinv) as Hs. apply in_map_iff in Hs. destruct Hs as [[s2 l] [E Hin]].
        cbn [fst] in E. subst s2. apply in_map_iff. exists (s, l). cbn [fst]. split; [|exact Hin].
        unfold h. rewrite (In_alookup stype_eqb stype_eqb_spec s v vs Hndv Hinv). reflexivity. }
    (* ---- every part is a frame of n rows ---- *)
    assert (Hpart_wf : forall j, j < k -> frame_wf n (col_part_views (cut j) (cut (S j)) vs) (py j) (pov j)).
    { intros j Hj. split; [|split].
      - apply Forall_forall. intros [s v'] Hin. cbn [snd]. unfold col_part_views in Hin. apply in_flat_map in Hin.
        destruct Hin as [[s2 v] [Hinv Hin]]. cbn [fst snd] in Hin.
        destruct (cut j s2 <? cut (S j) s2) eqn:E; [|contradiction]. destruct Hin as [E2|[]]. injection E2 as <- <-.
        apply Nat.ltb_lt in E. apply view_wf_vcols; [apply (Hv (s2, v)); exact Hinv|apply (Hcols s2 v Hinv)|exact E|].
        destruct (Hcut s2 v Hinv) as [_ Hk]. rewrite <- Hk.
        clear -Hmono Hj. induction (k - S j) as [|d IH] eqn:Ed.
        + replace k with (S j) by lia. apply le_n.
        + assert (Hle : forall a b, a <= b -> cut a s2 <= cut b s2).
          { intros a b Hab. induction Hab; [apply le_n|]. eapply Nat.le_trans; [exact IHHab|apply Hmono]. }
          apply Hle. lia.
      - unfold py. destruct (j =? jy); [exact Hy|exact I].
      - exact (Hpov j Hj). }
    assert (Hrows : mapM tf_num_rows parts = Some (map (fun _ => n) (seq 0 k))).
    { unfold parts. rewrite mapM_map. apply mapM_all_some. intros j Hj. apply in_seq in Hj.
      unfold col_part. apply num_rows_frame_of. apply Hpart_wf. lia. }
    (* ---- unfold torch_frame.cat ---- *)
    assert (Hex : exists k', k = S k') by (destruct k; [lia|eauto]). destruct Hex as [k' Ek].
    assert (Eparts : parts = col_part cut vs nm py pov 0 :: map (col_part cut vs nm py pov) (seq 1 k')).
    { unfold parts. rewrite Ek. reflexivity. }
    fold py. fold parts. rewrite Eparts.
    change (tf_cat mnt_cat met_cat (?t :: ?r) 1) with (cat_col mnt_cat met_cat (t :: r)). rewrite <- Eparts.
    unfold cat_col. fold nm'.
    assert (Eys : match flat_map (fun t => match y t with Some v => [v] | None => [] end) parts with
                  | [] => Some None | [v] => Some (Some v) | _ :: _ :: _ => None end = Some yy).
    { unfold parts. rewrite flat_map_map_compose. unfold col_part, frame_of. cbn [y]. unfold py.
      destruct yy as [yv|].
      - erewrite flat_map_ext.
        2:{ intros j. instantiate (1 := fun j => if j =? jy then [yv] else []). cbn beta. destruct (j =? jy); reflexivity. }
        rewrite (flat_map_single yv jy k Hjy). reflexivity.
      - rewrite flat_map_nil'; [reflexivity|]. intros j _. destruct (j =? jy); reflexivity. }
    rewrite Eys. cbn [obind]. rewrite Hdup1, Hdup2, Hrows. cbn [obind].
    replace (map (fun _ : nat => n) (seq 0 k)) with (n :: map (fun _ : nat => n) (seq 1 k')) by (rewrite Ek; reflexivity).
    assert (Efb : forallb (Nat.eqb n) (n :: map (fun _ => n) (seq 1 k')) = true).
    { apply forallb_forall. intros x [<-|Hx]; [apply Nat.eqb_refl|]. apply in_map_iff in Hx. destruct Hx as [_ [<- _]].
      apply Nat.eqb_refl. }
    rewrite Efb. cbn [negb]. rewrite Hhelper. cbn [obind].
    set (ov' := match fs' with [] => Some n | _ :: _ => None end).
    set (F' := MkTF fs' nm' yy ov').
    assert (HnF : tf_num_rows F' = Some n).
    { unfold tf_num_rows, F', ov'. cbn [num_rows_override feats]. destruct fs' as [|[s x] r] eqn:Efs; [reflexivity|].
      cbn [snd]. destruct (proj1 (Hchar s x) (or_introl eq_refl)) as [v [Hinv ->]].
      apply feat_len_view. apply (Hv (s, v)). exact Hinv. }
    assert (Hval : tf_validate F' = true).
    { apply (validate_ok n).
      - rewrite Hlen_nm', Hlen. apply Nat.le_antisymm.
        + rewrite <- (map_length fst fs'), <- (map_length fst vs). apply NoDup_incl_length; [exact Hnd'|].
          intros s Hs. apply in_map_iff in Hs. destruct Hs as [[s2 x] [<- Hin]]. destruct (proj1 (Hchar s2 x) Hin) as [v [Hinv _]].
          apply in_map_iff. exists (s2, v). auto.
        + rewrite <- (map_length fst fs'), <- (map_length fst vs). apply NoDup_incl_length; [exact Hndv|].
          intros s Hs. apply in_map_iff in Hs. destruct Hs as [[s2 v] [<- Hin]].
          apply in_map_iff. exists (s2, feat_of_view v). split; [reflexivity|]. apply Hchar. exists v. auto.
      - intros s Hs. apply in_map_iff in Hs. destruct Hs as [[s2 x] [<- Hin]]. destruct (proj1 (Hchar s2 x) Hin) as [v [Hinv _]].
        destruct (Hcols s2 v Hinv) as [_ [cn [E _]]]. apply (alookup_In stype_eqb stype_eqb_spec) in E.
        apply in_map_iff. exists (s2, cn). split; [reflexivity|]. apply Gn2. exact E.
      - intros s Hs. apply in_map_iff in Hs. destruct Hs as [[s2 cn] [<- Hin]]. apply Gn1 in Hin.
        destruct (Hnm_v s2 cn Hin) as [v [Hinv _]].
        apply in_map_iff. exists (s2, feat_of_view v). split; [reflexivity|]. apply Hchar. exists v. auto.
      - exact HnF.
      - intros s x Hin. destruct (proj1 (Hchar s x) Hin) as [v [Hinv ->]].
        destruct (Hcols s v Hinv) as [Hd [cn [E [Hl Hne']]]]. exists cn. split; [|split; [exact Hne'|]].
        + apply (In_alookup stype_eqb stype_eqb_spec); [exact Hnd_nm'|]. apply Gn2.
          apply (alookup_In stype_eqb stype_eqb_spec). exact E.
        + rewrite Hl. apply feat_shapes_view; [apply (Hv (s, v)); exact Hinv|exact Hd].
      - exact Hy. }
    unfold tf_mk. fold ov'. fold F'. rewrite Hval.
    exists F'. split; [reflexivity|].
    split; apply tf_eq_iff_proof; apply (tf_equiv_same close close_refl _ _ n);
      try exact HnF; try (apply num_rows_frame_of; exact Hwf); try reflexivity; try exact Hnan.
    - cbn [F' names frame_of]. split; [exact Hlen_nm'|]. intros s cn Hin. apply (In_alookup stype_eqb stype_eqb_spec); [exact Hndn|].
      apply Gn1. exact Hin.
    - cbn [frame_of feats]. rewrite map_map. cbn [fst]. rewrite (map_ext _ fst (fun _ => eq_refl)). exact Hndv.
    - intros s x Hin. cbn [F' feats] in Hin. destruct (proj1 (Hchar s x) Hin) as [v [Hinv ->]]. split.
      + cbn [frame_of feats]. apply in_map_iff. exists (s, v). auto.
      + apply (feat_eq_view_refl close close_refl n); [apply (Hv (s, v)); exact Hinv|apply (Hcols s v Hinv)].
    - cbn [F' names frame_of]. split; [symmetry; exact Hlen_nm'|]. intros s cn Hin.
      apply (In_alookup stype_eqb stype_eqb_spec); [exact Hnd_nm'|]. apply Gn2. exact Hin.
    - exact Hnd'.
    - intros s x Hin. cbn [frame_of feats] in Hin. apply in_map_iff in Hin. destruct Hin as [[s2 v] [E Hinv]].
      injection E as <- <-. split.
      + cbn [F' feats]. apply Hchar. exists v. auto.
      + apply (feat_eq_view_refl close close_refl n); [apply (Hv (s2, v)); exact Hinv|apply (Hcols s2 v Hinv)].
  Qed.
End ColPartition.

(* ------------------------------------------------------------------ *)
(* __eq__ against the independent statement of equality on views *)
Lemma tf_eq_iff_views_proof : forall close n n' vs vs' nm nm' yy yy' ov ov',
  frame_wf n vs yy ov -> frame_wf n' vs' yy' ov' -> NoDup (map fst vs') ->
  (tf_eq close (frame_of vs nm yy ov) (frame_of vs' nm' yy' ov') = Some true
   <-> frames_equal close n vs nm yy n' vs' nm' yy').
Proof.
  intros close n n' vs vs' nm nm' yy yy' ov ov' Hw Hw' Hnd.
  pose proof (num_rows_frame_of n vs nm yy ov Hw) as Hn. pose proof (num_rows_frame_of n' vs' nm' yy' ov' Hw') as Hn'.
  destruct Hw as [Hv _], Hw' as [Hv' _]. rewrite Forall_forall in Hv, Hv'.
  rewrite tf_eq_iff_proof. unfold tf_equiv, frames_equal. rewrite Hn, Hn'. cbn [frame_of y names feats]. split.
  - intros [[k [E1 E2]] [Hy [Hnm Hf]]]. split; [congruence|]. split; [exact Hy|]. split; [exact Hnm|].
    intros s v Hin. rewrite Forall_forall in Hf. specialize (Hf (s, feat_of_view v)). cbn [fst snd] in Hf.
    destruct Hf as [xb [E Hfe]]; [apply in_map_iff; exists (s, v); auto|].
    apply (alookup_In stype_eqb stype_eqb_spec) in E. apply in_map_iff in E. destruct E as [[s2 v'] [E Hin']].
    injection E as <- <-. exists v'. split; [exact Hin'|].
    apply (feat_eq_views_proof close n n' v v' (Hv _ Hin) (Hv' _ Hin')). exact Hfe.
  - intros [En [Hy [Hnm Hf]]]. subst n'. split; [exists n; auto|]. split; [exact Hy|]. split; [exact Hnm|].
    apply Forall_forall. intros [s x] Hin. cbn [fst snd]. apply in_map_iff in Hin. destruct Hin as [[s2 v] [E Hin]].
    injection E as <- <-. destruct (Hf s2 v Hin) as [v' [Hin' Hc]]. exists (feat_of_view v'). split.
    + pose proof (alookup_map_snd_st feat_of_view s2 vs') as Hm. cbn beta in Hm. rewrite Hm.
      rewrite (In_alookup stype_eqb stype_eqb_spec s2 v' vs' Hnd Hin'). reflexivity.
    + apply (feat_eq_views_proof close n n v v' (Hv _ Hin) (Hv' _ Hin')). exact Hc.
Qed.

(* ------------------------------------------------------------------ *)
(* C07 + C08: the selected frame answers get_col_feat with the selected rows of that column *)
Lemma vncols_vsel : forall pos v, vncols (vsel pos v) = vncols v.
Proof. intros pos v. destruct v as [c k m|c m|ws m|d]; cbn [vsel vmap vncols]; try reflexivity. destruct d; reflexivity. Qed.

Lemma vdict_ok_vsel : forall pos v, vdict_ok v -> vdict_ok (vsel pos v).
Proof.
  intros pos v Hd. destruct v as [c k m|c m|ws m|d]; cbn [vsel vmap vdict_ok vncols] in *; try exact I.
  destruct Hd as [Hd1 Hd2]. split.
  - rewrite map_map. cbn [fst]. rewrite (map_ext _ fst (fun _ => eq_refl)). exact Hd1.
  - apply Forall_map. cbn [fst snd]. destruct d as [|kcm0 d']; [constructor|]. cbn [map fst snd]. exact Hd2.
Qed.

Lemma names_ok_sel : forall vs nm pos, names_ok vs nm -> names_ok (map (fun sv => (fst sv, vsel pos (snd sv))) vs) nm.
Proof.
  intros vs nm pos [H1 [H2 [H3 [H4 H5]]]].
  assert (Ek : map fst (map (fun sv : stype * fview => (fst sv, vsel pos (snd sv))) vs) = map fst vs).
  { rewrite map_map. cbn [fst]. apply map_ext. reflexivity. }
  split; [rewrite Ek; exact H1|]. split; [exact H2|]. split; [rewrite map_length; exact H3|].
  split; [rewrite Ek; exact H4|].
  intros s v' Hin. apply in_map_iff in Hin. destruct Hin as [[s2 v] [E Hin]]. injection E as <- <-.
  destruct (H5 s2 v Hin) as [Hd [cn [E [Hl Hne]]]]. split; [apply vdict_ok_vsel; exact Hd|].
  exists cn. rewrite vncols_vsel. auto.
Qed.
