(* Lemmas about Model/Frame.v (C07, C08). *)
From Coq Require Import String ZArith List Bool Arith Lia.
From PF Require Import Lib.ListX Lib.PySlice Model.Ragged Model.RaggedSpec Model.RaggedRun Model.Frame Model.FrameSpec
     Gen.Tables.
From PF Require Import Proofs.ListXFacts Proofs.MntProofs Proofs.MetProofs.
Import ListNotations.

(* ------------------------------------------------------------------ *)
(* generic helpers *)
Lemma mapM_ext_in : forall {B C} (f g : B -> option C) (l : list B),
  (forall x, In x l -> f x = g x) -> mapM f l = mapM g l.
Proof.
  induction l as [|x r IH]; intros H; simpl; [reflexivity|].
  rewrite (H x (or_introl eq_refl)), IH; [reflexivity|]. intros z Hz; apply H; right; exact Hz.
Qed.

Lemma mapM_all_some : forall {B C} (f : B -> option C) (g : B -> C) (l : list B),
  (forall x, In x l -> f x = Some (g x)) -> mapM f l = Some (map g l).
Proof.
  induction l as [|x r IH]; intros H; simpl; [reflexivity|].
  rewrite (H x (or_introl eq_refl)), IH; [reflexivity|]. intros z Hz; apply H; right; exact Hz.
Qed.

Lemma mapM_has_none : forall {B C} (f : B -> option C) (l : list B),
  l <> [] -> (forall x, In x l -> f x = None) -> mapM f l = None.
Proof.
  intros B C f [|x r] Hne H; [congruence|]. simpl. rewrite (H x (or_introl eq_refl)). reflexivity.
Qed.

Lemma tgather_pick : forall {B} (l : list B) (pos : list nat) (d : B),
  Forall (fun i => i < length l) pos -> tgather l pos = Some (map (fun i => nth i l d) pos).
Proof.
  intros B l pos d H. unfold tgather. apply mapM_all_some. intros i Hi.
  rewrite Forall_forall in H. unfold tget. apply nth_error_nth'. apply H; exact Hi.
Qed.

Lemma pick_rows_length : forall {A} (pos : list nat) (m : cellmat A), length (pick_rows pos m) = length pos.
Proof. intros. unfold pick_rows. apply map_length. Qed.

Lemma pick_rows_rect : forall {A} c (m : cellmat A) pos,
  rect c m -> Forall (fun i => i < length m) pos -> rect c (pick_rows pos m).
Proof.
  intros A c m pos H Hp. unfold rect, pick_rows in *. apply Forall_map.
  eapply Forall_impl; [|exact Hp]. simpl. intros i Hi.
  rewrite Forall_forall in H. apply H. apply nth_In. exact Hi.
Qed.

Lemma pick_rows_rect_w : forall {A} ws (m : cellmat A) pos,
  rect_w ws m -> Forall (fun i => i < length m) pos -> rect_w ws (pick_rows pos m).
Proof.
  intros A ws m pos H Hp. unfold rect_w, pick_rows in *. apply Forall_map.
  eapply Forall_impl; [|exact Hp]. simpl. intros i Hi.
  rewrite Forall_forall in H. apply H. apply nth_In. exact Hi.
Qed.

Lemma pick_rows_Forall : forall {A} (P : list (list A) -> Prop) (m : cellmat A) pos,
  Forall P m -> Forall (fun i => i < length m) pos -> Forall P (pick_rows pos m).
Proof.
  intros A P m pos H Hp. unfold pick_rows. apply Forall_map.
  eapply Forall_impl; [|exact Hp]. simpl. intros i Hi.
  rewrite Forall_forall in H. apply H. apply nth_In. exact Hi.
Qed.

(* an int index is the one-element list index *)
Lemma py_positions_as_list : forall n i, py_positions n (IList [i]) = py_positions n (IInt i).
Proof. intros n i. simpl. destruct (norm_index n i); reflexivity. Qed.

Lemma as_list_not_int : forall ix, match as_list_index ix with IInt _ => False | _ => True end.
Proof. destruct ix; exact I. Qed.

(* ------------------------------------------------------------------ *)
(* C07 *)
Section C07.
  (* The refinement theorems of C05 (Props/C05.v: mnt_select_refines, met_select_refines) at A := payload *)
  Hypothesis H_mnt_select_refines : forall (c : nat) (m : cellmat payload) (ix : index) (dim : nat),
    rect c m -> dim < 2 ->
    select payload _ (mnt_kernels payload) (mnt_of_cells c m) ix dim =
    match py_positions (if dim =? 0 then length m else c) ix with
    | Some pos => Some (mnt_of_cells (if dim =? 0 then c else length pos) (pick dim pos m))
    | None => None
    end.
  Hypothesis H_met_select_refines : forall (ws : list nat) (m : cellmat payload) (ix : index) (dim : nat),
    rect_w ws m -> dim < 2 ->
    select payload _ (met_kernels payload) (met_of_cells ws m) ix dim =
    match py_positions (if dim =? 0 then length m else length ws) ix with
    | Some pos => Some (met_of_cells (pick_ws dim pos ws) (pick dim pos m))
    | None => None
    end.

  Lemma dense_index_spec : forall {X} (rows : list X) (ix : index) (d : X),
    match ix with IInt _ => False | _ => True end ->
    dense_index rows ix =
    match py_positions (length rows) ix with
    | Some pos => Some (map (fun i => nth i rows d) pos)
    | None => None
    end.
  Proof.
    intros X rows ix d Hni. unfold dense_index, torch_positions.
    destruct ix; try contradiction;
      (destruct (py_positions (length rows) _) as [pos|] eqn:E; cbn [obind]; [|reflexivity];
       apply tgather_pick; eapply py_positions_bound; exact E).
  Qed.

  (* one feature: x[index] of the stored feature is the stored form of the selected rows *)
  Lemma feat_index_view : forall n v ix,
    view_wf n v -> match ix with IInt _ => False | _ => True end ->
    feat_index (feat_of_view v) ix =
    match py_positions n ix with
    | Some pos => Some (feat_of_view (vsel pos v))
    | None => None
    end.
  Proof.
    intros n v ix Hwf Hni. destruct v as [c k m|c m|ws m|d]; cbn [feat_of_view feat_index view_wf] in *.
    - destruct Hwf as [Hn _]. rewrite (dense_index_spec _ ix (concat (@nil (list payload))) Hni).
      rewrite map_length, Hn. destruct (py_positions n ix) as [pos|]; cbn [obind]; [|reflexivity].
      f_equal. cbn [vsel vmap feat_of_view]. f_equal. unfold pick_rows. rewrite map_map.
      apply map_ext. intros i. apply map_nth.
    - destruct Hwf as [Hn Hr]. rewrite (H_mnt_select_refines c m ix 0 Hr) by lia. cbn [Nat.eqb]. rewrite Hn.
      destruct (py_positions n ix); reflexivity.
    - destruct Hwf as [Hn Hr]. rewrite (H_met_select_refines ws m ix 0 Hr) by lia. cbn [Nat.eqb]. rewrite Hn.
      destruct (py_positions n ix); reflexivity.
    - destruct Hwf as [Hne Hall0].
      assert (Hall : forall kcm : string * (nat * cmat), In kcm d ->
                length (snd (snd kcm)) = n /\ rect (fst (snd kcm)) (snd (snd kcm)))
        by (apply Forall_forall; exact Hall0).
      destruct (py_positions n ix) as [pos|] eqn:E.
      + cbn [vsel vmap feat_of_view]. rewrite mapM_map.
        erewrite (mapM_all_some _ (fun kcm => (fst kcm, mnt_of_cells (fst (snd kcm)) (pick_rows pos (snd (snd kcm)))))).
        * cbn [option_map]. rewrite map_map. reflexivity.
        * intros kcm Hin. cbn [fst snd].
          destruct (Hall kcm Hin) as [Hn Hr]. rewrite (H_mnt_select_refines (fst (snd kcm)) (snd (snd kcm)) ix 0 Hr) by lia.
          cbn [Nat.eqb]. rewrite Hn, E. reflexivity.
      + rewrite mapM_map. rewrite mapM_has_none; [reflexivity|exact Hne|].
        intros kcm Hin. cbn [fst snd].
        destruct (Hall kcm Hin) as [Hn Hr]. rewrite (H_mnt_select_refines (fst (snd kcm)) (snd (snd kcm)) ix 0 Hr) by lia.
        cbn [Nat.eqb]. rewrite Hn, E. reflexivity.
  Qed.

  Lemma feats_index_some : forall n vs ix pos,
    Forall (fun sv => view_wf n (snd sv)) vs -> match ix with IInt _ => False | _ => True end ->
    py_positions n ix = Some pos ->
    mapM (fun sx : stype * feat => option_map (pair (fst sx)) (feat_index (snd sx) ix))
         (map (fun sv : stype * fview => (fst sv, feat_of_view (snd sv))) vs)
    = Some (map (fun sv : stype * fview => (fst sv, feat_of_view (snd sv)))
                (map (fun sv => (fst sv, vsel pos (snd sv))) vs)).
  Proof.
    intros n vs ix pos Hwf Hni E. rewrite mapM_map. rewrite map_map.
    apply mapM_all_some. intros sv Hin. cbn [fst snd].
    rewrite Forall_forall in Hwf. rewrite (feat_index_view n _ ix (Hwf sv Hin) Hni), E. reflexivity.
  Qed.

  Lemma feats_index_none : forall n vs ix,
    Forall (fun sv => view_wf n (snd sv)) vs -> match ix with IInt _ => False | _ => True end ->
    vs <> [] -> py_positions n ix = None ->
    mapM (fun sx : stype * feat => option_map (pair (fst sx)) (feat_index (snd sx) ix))
         (map (fun sv : stype * fview => (fst sv, feat_of_view (snd sv))) vs) = None.
  Proof.
    intros n vs ix Hwf Hni Hne E. rewrite mapM_map. apply mapM_has_none; [exact Hne|].
    intros sv Hin. cbn [fst snd].
    rewrite Forall_forall in Hwf. rewrite (feat_index_view n _ ix (Hwf sv Hin) Hni), E. reflexivity.
  Qed.

  (* C07 main statement, valid index *)
  Lemma getitem_coherent_proof : forall n vs nm yy ov ix pos,
    frame_wf n vs yy ov ->
    py_positions n (as_list_index ix) = Some pos ->
    tf_getitem (frame_of vs nm yy ov) ix = Some (sel_frame pos vs nm yy ov).
  Proof.
    intros n vs nm yy ov ix pos [Hv [Hy Ho]] E.
    unfold tf_getitem. fold (as_list_index ix). pose proof (as_list_not_int ix) as Hni.
    set (ix' := as_list_index ix) in *. cbn [frame_of feats y num_rows_override names].
    rewrite (feats_index_some n vs ix' pos Hv Hni E). cbn [obind].
    assert (Ey : match yy with
                 | Some v => option_map Some (dense_index v ix')
                 | None => Some None end = Some (option_map (ysel pos) yy)).
    { destruct yy as [v|]; [|reflexivity]. rewrite (dense_index_spec v ix' None Hni), Hy, E. reflexivity. }
    rewrite Ey. cbn [obind].
    assert (Eo : match ov with
                 | Some k => option_map (fun p : list nat => Some (length p)) (dense_index (seq 0 k) ix')
                 | None => Some None end = Some (option_map (fun _ => length pos) ov)).
    { destruct ov as [k|]; [|reflexivity]. subst k.
      rewrite (dense_index_spec (seq 0 n) ix' 0 Hni), seq_length, E. cbn [option_map]. rewrite map_length. reflexivity. }
    rewrite Eo. cbn [obind]. reflexivity.
  Qed.

  (* C07 main statement, invalid index: everything raises as soon as there is anything to index *)
  Lemma getitem_raises_proof : forall n vs nm yy ov ix,
    frame_wf n vs yy ov ->
    vs <> [] \/ yy <> None \/ ov <> None ->
    py_positions n (as_list_index ix) = None ->
    tf_getitem (frame_of vs nm yy ov) ix = None.
  Proof.
    intros n vs nm yy ov ix [Hv [Hy Ho]] Hdata E.
    unfold tf_getitem. fold (as_list_index ix). pose proof (as_list_not_int ix) as Hni.
    set (ix' := as_list_index ix) in *. cbn [frame_of feats y num_rows_override names].
    destruct vs as [|sv vs'].
    - cbn [map mapM obind].
      destruct yy as [v|].
      + rewrite (dense_index_spec v ix' None Hni), Hy, E. reflexivity.
      + cbn [obind]. destruct ov as [k|].
        * subst k. rewrite (dense_index_spec (seq 0 n) ix' 0 Hni), seq_length, E. reflexivity.
        * destruct Hdata as [H|[H|H]]; congruence.
    - rewrite (feats_index_none n (sv :: vs') ix' Hv Hni) by (congruence || exact E). reflexivity.
  Qed.

  (* well-formedness is preserved, with the new row count *)
  Lemma view_wf_vsel : forall n v pos,
    view_wf n v -> Forall (fun i => i < n) pos -> view_wf (length pos) (vsel pos v).
  Proof.
    intros n v pos Hwf Hp. destruct v as [c k m|c m|ws m|d]; cbn [vsel vmap view_wf] in *.
    - destruct Hwf as [Hn Hr]. split; [apply pick_rows_length|]. apply pick_rows_Forall; [exact Hr|]. rewrite Hn; exact Hp.
    - destruct Hwf as [Hn Hr]. split; [apply pick_rows_length|]. apply pick_rows_rect; [exact Hr|]. rewrite Hn; exact Hp.
    - destruct Hwf as [Hn Hr]. split; [apply pick_rows_length|]. apply pick_rows_rect_w; [exact Hr|]. rewrite Hn; exact Hp.
    - destruct Hwf as [Hne Hall]. split; [destruct d; [congruence|discriminate]|].
      apply Forall_map. eapply Forall_impl; [|exact Hall]. cbn [fst snd]. intros kcm [Hn Hr].
      split; [apply pick_rows_length|]. apply pick_rows_rect; [exact Hr|]. rewrite Hn; exact Hp.
  Qed.

  Lemma frame_wf_sel : forall n vs yy ov pos,
    frame_wf n vs yy ov -> Forall (fun i => i < n) pos ->
    frame_wf (length pos) (map (fun sv => (fst sv, vsel pos (snd sv))) vs) (option_map (ysel pos) yy)
             (option_map (fun _ => length pos) ov).
  Proof.
    intros n vs yy ov pos [Hv [Hy Ho]] Hp. split; [|split].
    - apply Forall_map. eapply Forall_impl; [|exact Hv]. cbn [fst snd]. intros sv H. apply view_wf_vsel; assumption.
    - destruct yy; cbn [option_map]; [unfold ysel; apply map_length|exact I].
    - destruct ov; cbn [option_map]; [reflexivity|].
      destruct Ho as [Hne|Hz]; [left; destruct vs; [congruence|discriminate]|].
      right. subst n. destruct pos as [|i pos']; [reflexivity|]. inversion Hp; lia.
  Qed.

  (* len(frame_of ...) *)
  Lemma feat_len_view : forall n v, view_wf n v -> feat_len (feat_of_view v) = Some n.
  Proof.
    intros n v H. destruct v as [c k m|c m|ws m|d]; cbn [feat_of_view feat_len view_wf] in *.
    - destruct H as [Hn _]. rewrite map_length, Hn. reflexivity.
    - destruct H as [Hn _]. unfold mnt_of_cells. cbn [nr]. rewrite Hn. reflexivity.
    - destruct H as [Hn _]. unfold met_of_cells. cbn [er]. rewrite Hn. reflexivity.
    - destruct H as [Hne Hall]. destruct d as [|kcm d']; [congruence|]. cbn [map snd].
      inversion Hall as [|? ? [Hn _] _]; subst. unfold mnt_of_cells. cbn [nr]. reflexivity.
  Qed.

  Lemma num_rows_frame_of : forall n vs nm yy ov, frame_wf n vs yy ov -> tf_num_rows (frame_of vs nm yy ov) = Some n.
  Proof.
    intros n vs nm yy ov [Hv [Hy Ho]]. unfold tf_num_rows. cbn [frame_of num_rows_override feats].
    destruct ov as [k|]; [subst; reflexivity|].
    destruct vs as [|sv vs']; cbn [map].
    - destruct Ho as [H|H]; [congruence|subst; reflexivity].
    - cbn [snd]. inversion Hv; subst. apply feat_len_view. assumption.
  Qed.

  (* the reported length is the number of selected rows, zero included *)
  Lemma getitem_len_proof : forall n vs nm yy ov ix pos,
    frame_wf n vs yy ov ->
    py_positions n (as_list_index ix) = Some pos ->
    exists f', tf_getitem (frame_of vs nm yy ov) ix = Some f' /\ tf_num_rows f' = Some (length pos) /\ names f' = nm.
  Proof.
    intros n vs nm yy ov ix pos Hwf E. eexists. split; [apply (getitem_coherent_proof n); eassumption|].
    split; [|reflexivity]. unfold sel_frame. apply num_rows_frame_of. apply (frame_wf_sel n); [exact Hwf|].
    eapply py_positions_bound; exact E.
  Qed.

  (* chains of selections *)
  Lemma vsel_vsel : forall pos pos' v,
    vsel pos' (vsel pos v) = vsel (map (fun i => nth i pos 0) pos') v \/ True.
  Proof. intros; right; exact I. Qed.

  Fixpoint spec_chain (n : nat) (vs : list (stype * fview)) (nm : list (stype * list string))
           (yy : option (list payload)) (ov : option nat) (p : list index) : option tframe :=
    match p with
    | [] => Some (frame_of vs nm yy ov)
    | ix :: rest =>
        match py_positions n (as_list_index ix) with
        | Some pos => spec_chain (length pos) (map (fun sv => (fst sv, vsel pos (snd sv))) vs) nm
                                 (option_map (ysel pos) yy) (option_map (fun _ => length pos) ov) rest
        | None => None
        end
    end.

  Lemma getitem_chain_proof : forall p n vs nm yy ov,
    frame_wf n vs yy ov ->
    vs <> [] \/ yy <> None \/ ov <> None ->
    tf_getitem_chain (frame_of vs nm yy ov) p = spec_chain n vs nm yy ov p.
  Proof.
    induction p as [|ix rest IH]; intros n vs nm yy ov Hwf Hdata; cbn [tf_getitem_chain spec_chain]; [reflexivity|].
    destruct (py_positions n (as_list_index ix)) as [pos|] eqn:E.
    - rewrite (getitem_coherent_proof n vs nm yy ov ix pos Hwf E). cbn [obind]. unfold sel_frame.
      apply IH.
      + apply (frame_wf_sel n); [exact Hwf|]. eapply py_positions_bound; exact E.
      + destruct Hdata as [H|[H|H]].
        * left. destruct vs; [congruence|discriminate].
        * right; left. destruct yy; [discriminate|congruence].
        * right; right. destruct ov; [discriminate|congruence].
    - rewrite (getitem_raises_proof n vs nm yy ov ix Hwf Hdata E). reflexivity.
  Qed.
End C07.

(* a slice that overshoots the end is the slice of the Python list: rows a .. n-1 *)
Lemma overshoot_positions : forall n a b,
  a <= n -> n <= b ->
  py_positions n (ISlice (Some (Z.of_nat a)) (Some (Z.of_nat b)) None) = Some (seq a (n - a)).
Proof.
  intros n a b Ha Hb. cbn [py_positions]. cbn [Z.leb Z.compare]. unfold slice_indices, clamp_bound.
  assert (E1 : (Z.of_nat a <? 0)%Z = false) by (apply Z.ltb_ge; lia). rewrite E1.
  assert (E2 : (Z.of_nat b <? 0)%Z = false) by (apply Z.ltb_ge; lia). rewrite E2.
  replace (Z.to_nat (Z.max 0 (Z.min (Z.of_nat a) (Z.of_nat n)))) with a by lia.
  replace (Z.to_nat (Z.max 0 (Z.min (Z.of_nat b) (Z.of_nat n)))) with n by lia.
  change (Z.to_nat 1) with 1. rewrite range_up_1. reflexivity.
Qed.
