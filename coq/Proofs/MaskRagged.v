(* Container-level corollaries of Proofs/MaskFacts.v: a boolean mask on either axis of a MultiNestedTensor /
   MultiEmbeddingTensor keeps exactly the rows (columns) whose entry is True, in their original order. *)
From Coq Require Import List ZArith Arith Bool Lia.
From PF Require Import Lib.ListX Lib.PySlice Model.Ragged Model.RaggedSpec Model.RaggedRun.
From PF Require Import Proofs.ListXFacts Proofs.MntProofs Proofs.MetProofs Proofs.MaskFacts.
Import ListNotations.

Section MaskRagged.
  Variable A : Type.

  Lemma pick_rows_mask : forall (mk : list bool) (m : cellmat A),
    length mk = length m -> pick_rows (nonzero mk) m = keep_true mk m.
  Proof. intros mk m H. unfold pick_rows. apply map_nth_nonzero. exact H. Qed.

  Lemma pick_cols_mask : forall (mk : list bool) (c : nat) (m : cellmat A),
    rect c m -> length mk = c -> pick_cols (nonzero mk) m = map (keep_true mk) m.
  Proof.
    intros mk c m Hr H. unfold pick_cols. apply map_ext_in. intros r Hin.
    apply map_nth_nonzero. unfold rect in Hr. rewrite Forall_forall in Hr. rewrite (Hr r Hin). exact H.
  Qed.

  Lemma pick_cols_mask_w : forall (mk : list bool) (ws : list nat) (m : cellmat A),
    rect_w ws m -> length mk = length ws -> pick_cols (nonzero mk) m = map (keep_true mk) m.
  Proof.
    intros mk ws m Hr H. unfold pick_cols. apply map_ext_in. intros r Hin.
    apply map_nth_nonzero. unfold rect_w in Hr. rewrite Forall_forall in Hr.
    rewrite H, <- (Hr r Hin), map_length. reflexivity.
  Qed.

  Lemma mnt_mask_rows_proof : forall (c : nat) (m : cellmat A) (mk : list bool),
    rect c m ->
    select A _ (mnt_kernels A) (mnt_of_cells c m) (IMask mk) 0 =
    if (length mk =? length m)%nat then Some (mnt_of_cells c (keep_true mk m)) else None.
  Proof.
    intros c m mk Hr. rewrite (mnt_select_refines_proof A c m (IMask mk) 0 Hr) by lia.
    cbn [Nat.eqb py_positions pick]. destruct (length mk =? length m)%nat eqn:E; [|reflexivity].
    apply Nat.eqb_eq in E. unfold pick. cbn [Nat.eqb]. rewrite (pick_rows_mask mk m E). reflexivity.
  Qed.

  Lemma mnt_mask_cols_proof : forall (c : nat) (m : cellmat A) (mk : list bool),
    rect c m ->
    select A _ (mnt_kernels A) (mnt_of_cells c m) (IMask mk) 1 =
    if (length mk =? c)%nat then Some (mnt_of_cells (count_true mk) (map (keep_true mk) m)) else None.
  Proof.
    intros c m mk Hr. rewrite (mnt_select_refines_proof A c m (IMask mk) 1 Hr) by lia.
    cbn [Nat.eqb py_positions]. destruct (length mk =? c)%nat eqn:E; [|reflexivity].
    apply Nat.eqb_eq in E. unfold pick. cbn [Nat.eqb].
    rewrite (pick_cols_mask mk c m Hr E), nonzero_length. reflexivity.
  Qed.

  Lemma met_mask_rows_proof : forall (ws : list nat) (m : cellmat A) (mk : list bool),
    rect_w ws m ->
    select A _ (met_kernels A) (met_of_cells ws m) (IMask mk) 0 =
    if (length mk =? length m)%nat then Some (met_of_cells ws (keep_true mk m)) else None.
  Proof.
    intros ws m mk Hr. rewrite (met_select_refines_proof A ws m (IMask mk) 0 Hr) by lia.
    cbn [Nat.eqb py_positions]. destruct (length mk =? length m)%nat eqn:E; [|reflexivity].
    apply Nat.eqb_eq in E. unfold pick, pick_ws. cbn [Nat.eqb]. rewrite (pick_rows_mask mk m E). reflexivity.
  Qed.

  Lemma met_mask_cols_proof : forall (ws : list nat) (m : cellmat A) (mk : list bool),
    rect_w ws m ->
    select A _ (met_kernels A) (met_of_cells ws m) (IMask mk) 1 =
    if (length mk =? length ws)%nat then Some (met_of_cells (keep_true mk ws) (map (keep_true mk) m)) else None.
  Proof.
    intros ws m mk Hr. rewrite (met_select_refines_proof A ws m (IMask mk) 1 Hr) by lia.
    cbn [Nat.eqb py_positions]. destruct (length mk =? length ws)%nat eqn:E; [|reflexivity].
    apply Nat.eqb_eq in E. unfold pick, pick_ws. cbn [Nat.eqb].
    rewrite (pick_cols_mask_w mk ws m Hr E), (map_nth_nonzero mk ws 0 E). reflexivity.
  Qed.
End MaskRagged.
