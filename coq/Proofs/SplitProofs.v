(* Lemmas about Model/Split.v : generate_random_split (C09). *)
From Coq Require Import ZArith List Bool String Arith Lia Permutation PrimFloat.
From PF Require Import Lib.ListX Lib.FloatInt Gen.Tables Model.Dataset Model.Split Model.DatasetSpec.
From PF Require Import Proofs.ListXFacts Proofs.DatasetProofs.
Import ListNotations.
Local Notation length := List.length (only parsing).

(* the labels the code reads from SPLIT_TO_NUM (finite table, by computation;
   re-proved whenever Gen/Tables.v is regenerated) *)
Lemma label_train : assoc_str "train" split_to_num = Some 0%Z. Proof. reflexivity. Qed.
Lemma label_val : assoc_str "val" split_to_num = Some 1%Z. Proof. reflexivity. Qed.
Lemma label_test : assoc_str "test" split_to_num = Some 2%Z. Proof. reflexivity. Qed.


Lemma blocks_length : forall a b c, length (blocks a b c) = a + b + c.
Proof. intros. unfold blocks. rewrite !app_length, !repeat_length. lia. Qed.

Lemma count_occ_repeat : forall (x y : Z) n,
  count_occ Z.eq_dec (repeat x n) y = if Z.eq_dec x y then n else 0.
Proof.
  intros x y n. induction n as [|n IH]; simpl.
  - destruct (Z.eq_dec x y); reflexivity.
  - destruct (Z.eq_dec x y); simpl; auto.
Qed.

Lemma blocks_counts : forall a b c,
  count_occ Z.eq_dec (blocks a b c) 0%Z = a /\
  count_occ Z.eq_dec (blocks a b c) 1%Z = b /\
  count_occ Z.eq_dec (blocks a b c) 2%Z = c.
Proof.
  intros. unfold blocks. rewrite !count_occ_app, !count_occ_repeat.
  repeat match goal with |- context [Z.eq_dec ?x ?y] => destruct (Z.eq_dec x y); try lia end.
  all: try lia.
Qed.

Lemma blocks_labels : forall a b c, Forall (fun x => x = 0 \/ x = 1 \/ x = 2)%Z (blocks a b c).
Proof.
  intros. unfold blocks. rewrite !Forall_app. repeat split; apply Forall_forall; intros x Hx;
    apply repeat_spec in Hx; auto.
Qed.

Lemma np_full_some : forall c v l, np_full c v = Some l -> (0 <= c)%Z /\ l = repeat v (Z.to_nat c).
Proof.
  intros c v l H. unfold np_full in H. destruct (c <? 0)%Z eqn:E; try discriminate.
  apply Z.ltb_ge in E. injection H as <-. auto.
Qed.

Section WithNumpyShuffle.
  (* np.random.seed(seed); np.random.shuffle(a) for len(a) = n *)
  Variable np_perm : Z -> nat -> list nat.

  (* rejection: each assert *)
  Lemma rejects_train_not_positive : forall n seed tr vr it,
    PrimFloat.ltb 0 tr = false -> generate_random_split np_perm n seed tr vr it = None.
  Proof. intros. unfold generate_random_split. rewrite H. reflexivity. Qed.

  Lemma rejects_val_not_positive : forall n seed tr vr it,
    PrimFloat.ltb 0 vr = false -> generate_random_split np_perm n seed tr vr it = None.
  Proof. intros. unfold generate_random_split. rewrite H. destruct (negb (PrimFloat.ltb 0 tr)); reflexivity. Qed.

  Lemma rejects_no_room : forall n seed tr vr,
    PrimFloat.ltb (PrimFloat.add tr vr) 1 = false -> generate_random_split np_perm n seed tr vr true = None.
  Proof.
    intros. unfold generate_random_split. rewrite H, label_train, label_val, label_test.
    destruct (negb (PrimFloat.ltb 0 tr)); auto. destruct (negb (PrimFloat.ltb 0 vr)); auto.
  Qed.

  Lemma rejects_not_filling : forall n seed tr vr,
    PrimFloat.eqb (PrimFloat.add tr vr) 1 = false -> generate_random_split np_perm n seed tr vr false = None.
  Proof.
    intros. unfold generate_random_split. rewrite H, label_train, label_val, label_test.
    destruct (negb (PrimFloat.ltb 0 tr)); auto. destruct (negb (PrimFloat.ltb 0 vr)); auto.
  Qed.

  (* success: the result is numpy's arrangement of the block array *)
  Lemma success_with_test : forall n seed tr vr arr,
    generate_random_split np_perm n seed tr vr true = Some arr ->
    PrimFloat.ltb 0 tr = true /\ PrimFloat.ltb 0 vr = true /\ PrimFloat.ltb (PrimFloat.add tr vr) 1 = true /\
    exists tn vn,
      py_int (PrimFloat.mul (float_of_nat n) tr) = Some (Z.of_nat tn) /\
      py_int (PrimFloat.mul (float_of_nat n) vr) = Some (Z.of_nat vn) /\
      tn + vn <= n /\
      apply_perm (np_perm seed n) (blocks tn vn (n - tn - vn)) = Some arr.
  Proof.
    intros n seed tr vr arr H. unfold generate_random_split in H.
    rewrite label_train, label_val, label_test in H.
    destruct (PrimFloat.ltb 0 tr); simpl in H; try discriminate.
    destruct (PrimFloat.ltb 0 vr); simpl in H; try discriminate.
    destruct (PrimFloat.ltb (PrimFloat.add tr vr) 1); simpl in H; try discriminate.
    destruct (py_int (PrimFloat.mul (float_of_nat n) tr)) as [tn|]; simpl in H; try discriminate.
    destruct (py_int (PrimFloat.mul (float_of_nat n) vr)) as [vn|]; simpl in H; try discriminate.
    destruct (np_full tn 0) as [a|] eqn:Ea; simpl in H; try discriminate.
    destruct (np_full vn 1) as [b|] eqn:Eb; simpl in H; try discriminate.
    destruct (np_full (Z.of_nat n - tn - vn) 2) as [c|] eqn:Ec; simpl in H; try discriminate.
    apply np_full_some in Ea, Eb, Ec. destruct Ea as [Ha ->], Eb as [Hb ->], Ec as [Hc ->].
    repeat split; auto. exists (Z.to_nat tn), (Z.to_nat vn).
    rewrite !Z2Nat.id by lia. repeat split; auto; try lia.
    replace (n - Z.to_nat tn - Z.to_nat vn) with (Z.to_nat (Z.of_nat n - tn - vn)) by lia.
    fold (blocks (Z.to_nat tn) (Z.to_nat vn) (Z.to_nat (Z.of_nat n - tn - vn))) in H.
    rewrite blocks_length in H.
    replace (Z.to_nat tn + Z.to_nat vn + Z.to_nat (Z.of_nat n - tn - vn)) with n in H by lia.
    exact H.
  Qed.

  Lemma success_without_test : forall n seed tr vr arr,
    generate_random_split np_perm n seed tr vr false = Some arr ->
    PrimFloat.ltb 0 tr = true /\ PrimFloat.ltb 0 vr = true /\ PrimFloat.eqb (PrimFloat.add tr vr) 1 = true /\
    exists tn,
      py_int (PrimFloat.mul (float_of_nat n) tr) = Some (Z.of_nat tn) /\
      tn <= n /\
      apply_perm (np_perm seed n) (blocks tn (n - tn) 0) = Some arr.
  Proof.
    intros n seed tr vr arr H. unfold generate_random_split in H.
    rewrite label_train, label_val, label_test in H.
    destruct (PrimFloat.ltb 0 tr); simpl in H; try discriminate.
    destruct (PrimFloat.ltb 0 vr); simpl in H; try discriminate.
    destruct (PrimFloat.eqb (PrimFloat.add tr vr) 1); simpl in H; try discriminate.
    destruct (py_int (PrimFloat.mul (float_of_nat n) tr)) as [tn|]; simpl in H; try discriminate.
    destruct (np_full tn 0) as [a|] eqn:Ea; simpl in H; try discriminate.
    destruct (np_full (Z.of_nat n - tn) 1) as [b|] eqn:Eb; simpl in H; try discriminate.
    apply np_full_some in Ea, Eb. destruct Ea as [Ha ->], Eb as [Hb ->].
    repeat split; auto. exists (Z.to_nat tn).
    rewrite !Z2Nat.id by lia. repeat split; auto; try lia.
    replace (n - Z.to_nat tn) with (Z.to_nat (Z.of_nat n - tn)) by lia.
    unfold blocks. simpl. rewrite app_nil_r.
    rewrite app_length, !repeat_length in H.
    replace (Z.to_nat tn + Z.to_nat (Z.of_nat n - tn)) with n in H by lia.
    exact H.
  Qed.

  (* conversely: valid ratios whose counts fit are accepted *)
  Lemma accepts_with_test : forall n seed tr vr tn vn,
    PrimFloat.ltb 0 tr = true -> PrimFloat.ltb 0 vr = true -> PrimFloat.ltb (PrimFloat.add tr vr) 1 = true ->
    py_int (PrimFloat.mul (float_of_nat n) tr) = Some (Z.of_nat tn) ->
    py_int (PrimFloat.mul (float_of_nat n) vr) = Some (Z.of_nat vn) ->
    tn + vn <= n ->
    generate_random_split np_perm n seed tr vr true =
      apply_perm (np_perm seed n) (blocks tn vn (n - tn - vn)).
  Proof.
    intros n seed tr vr tn vn H1 H2 H3 H4 H5 H6. unfold generate_random_split.
    rewrite label_train, label_val, label_test, H1, H2, H3, H4, H5. simpl.
    unfold np_full.
    destruct (Z.of_nat tn <? 0)%Z eqn:E1; [apply Z.ltb_lt in E1; lia|].
    destruct (Z.of_nat vn <? 0)%Z eqn:E2; [apply Z.ltb_lt in E2; lia|].
    destruct (Z.of_nat n - Z.of_nat tn - Z.of_nat vn <? 0)%Z eqn:E3; [apply Z.ltb_lt in E3; lia|].
    simpl. rewrite !Nat2Z.id.
    replace (Z.to_nat (Z.of_nat n - Z.of_nat tn - Z.of_nat vn)) with (n - tn - vn) by lia.
    fold (blocks tn vn (n - tn - vn)). rewrite blocks_length.
    replace (tn + vn + (n - tn - vn)) with n by lia. reflexivity.
  Qed.

  (* H_shuffle_perm: numpy's seeded shuffle permutes *)
  Hypothesis H_shuffle_perm : forall seed n, Permutation (np_perm seed n) (seq 0 n).

  Lemma arrangement_is_permutation : forall seed n (l arr : list Z),
    length l = n -> apply_perm (np_perm seed n) l = Some arr -> Permutation arr l.
  Proof.
    intros seed n l arr Hl H. unfold apply_perm in H. eapply tgather_perm; [|exact H].
    rewrite Hl. apply H_shuffle_perm.
  Qed.

  Lemma arrangement_defined : forall seed n (l : list Z),
    length l = n -> exists arr, apply_perm (np_perm seed n) l = Some arr.
  Proof.
    intros seed n l Hl. unfold apply_perm. apply tgather_in_range.
    apply Forall_forall. intros x Hx. eapply Permutation_in in Hx; [|apply H_shuffle_perm].
    apply in_seq in Hx. lia.
  Qed.

  Lemma result_facts : forall seed n a b c (arr : list Z),
    a + b + c = n -> apply_perm (np_perm seed n) (blocks a b c) = Some arr ->
    length arr = n /\
    Forall (fun x => x = 0 \/ x = 1 \/ x = 2)%Z arr /\
    count_occ Z.eq_dec arr 0%Z = a /\ count_occ Z.eq_dec arr 1%Z = b /\ count_occ Z.eq_dec arr 2%Z = c /\
    Permutation arr (blocks a b c).
  Proof.
    intros seed n a b c arr Hn H.
    assert (HP : Permutation arr (blocks a b c)).
    { eapply arrangement_is_permutation; [|exact H]. rewrite blocks_length. exact Hn. }
    split; [rewrite (Permutation_length HP), blocks_length; exact Hn|].
    split; [eapply Permutation_Forall; [apply Permutation_sym; exact HP|apply blocks_labels]|].
    pose proof (proj1 (Permutation_count_occ Z.eq_dec _ _) HP) as HC. rewrite !HC.
    destruct (blocks_counts a b c) as [? [? ?]]. auto.
  Qed.
End WithNumpyShuffle.
