(* C10 — lemmas about Model/LoaderFetch.v (the fetch step: range(n)[idx] before collate_fn). *)
From Coq Require Import ZArith List Arith Bool Lia.
From PF Require Import Lib.ListX Lib.Chunks Lib.PySlice Proofs.ChunksFacts Proofs.ListXFacts
                       Model.Loader Model.LoaderFetch Proofs.LoaderProofs.
Import ListNotations.

(* range(n)[i]: a negative index counts from the end once; outside [-n, n) IndexError *)
Lemma range_getitem_some : forall n i p,
  range_getitem n i = Some p <->
  ((0 <= i < Z.of_nat n)%Z /\ p = Z.to_nat i) \/ ((- Z.of_nat n <= i < 0)%Z /\ p = Z.to_nat (i + Z.of_nat n)).
Proof.
  intros n i p. unfold range_getitem, norm_index. cbv zeta.
  destruct (Z.ltb_spec i 0) as [E1|E1].
  - destruct (Z.ltb_spec (i + Z.of_nat n) 0) as [E2|E2];
      destruct (Z.leb_spec (Z.of_nat n) (i + Z.of_nat n)) as [E3|E3]; cbn [orb];
      (split; [intro H; first [discriminate | injection H as <-; right; split; [lia | reflexivity]]
              | intros [[H1 H2]|[H1 H2]]; subst; first [exfalso; lia | reflexivity]]).
  - destruct (Z.ltb_spec i 0) as [E2|E2]; [lia|].
    destruct (Z.leb_spec (Z.of_nat n) i) as [E3|E3]; cbn [orb].
    + split; [discriminate | intros [[H1 H2]|[H1 H2]]; exfalso; lia].
    + split.
      * intro H. injection H as <-. left. split; [lia | reflexivity].
      * intros [[H1 H2]|[H1 H2]]; [subst; reflexivity | exfalso; lia].
Qed.

Lemma range_getitem_none : forall n i,
  range_getitem n i = None <-> (Z.of_nat n <= i)%Z \/ (i < - Z.of_nat n)%Z.
Proof.
  intros n i. destruct (range_getitem n i) as [p|] eqn:E.
  - apply range_getitem_some in E. split; [discriminate | lia].
  - split; [intros _ | reflexivity].
    destruct (Z_lt_le_dec i (- Z.of_nat n)); [right; assumption|].
    destruct (Z_le_gt_dec (Z.of_nat n) i); [left; assumption|].
    exfalso. destruct (Z_lt_le_dec i 0).
    + assert (H : range_getitem n i = Some (Z.to_nat (i + Z.of_nat n))) by (apply range_getitem_some; right; split; [lia | reflexivity]).
      congruence.
    + assert (H : range_getitem n i = Some (Z.to_nat i)) by (apply range_getitem_some; left; split; [lia | reflexivity]).
      congruence.
Qed.

Lemma range_getitem_lt : forall n i p, range_getitem n i = Some p -> p < n.
Proof. intros n i p H. apply range_getitem_some in H. destruct H as [[H ->]|[H ->]]; lia. Qed.

Lemma mapM_none_in : forall {B C} (f : B -> option C) (l : list B) x, In x l -> f x = None -> mapM f l = None.
Proof.
  intros B C f l x. induction l as [|y l IH]; simpl; intros Hi Hx; [contradiction|].
  destruct Hi as [->|Hi]; [rewrite Hx; reflexivity|].
  rewrite (IH Hi Hx). destruct (f y); reflexivity.
Qed.

Section FetchFacts.
  Context {R : Type}.

  (* an index outside [-n, n) anywhere in the epoch raises: it is neither wrapped nor clamped *)
  Lemma fetch_out_of_range : forall (tf : list R) n bs s drop b i,
    In b (z_index_batches n bs s drop) -> In i b ->
    (Z.of_nat n <= i \/ i < - Z.of_nat n)%Z ->
    fetch_epoch tf n bs s drop = None.
  Proof.
    intros tf n bs s drop b i Hb Hi Hr. unfold fetch_epoch.
    apply (mapM_none_in _ _ b Hb). unfold fetch_batch, fetch_positions.
    rewrite (mapM_none_in _ _ i Hi); [reflexivity|]. apply range_getitem_none. exact Hr.
  Qed.

  (* the row an in-range index denotes *)
  Definition zrow (tf : list R) (d : R) (i : Z) : R :=
    nth (Z.to_nat (if (i <? 0)%Z then i + Z.of_nat (length tf) else i)%Z) tf d.

  Lemma fetch_batch_in_range : forall (tf : list R) d batch,
    Forall (fun i => (- Z.of_nat (length tf) <= i < Z.of_nat (length tf))%Z) batch ->
    fetch_batch tf (length tf) batch = Some (map (zrow tf d) batch).
  Proof.
    intros tf d batch H. unfold fetch_batch, fetch_positions.
    assert (Hp : mapM (range_getitem (length tf)) batch =
                 Some (map (fun i => Z.to_nat (if (i <? 0)%Z then i + Z.of_nat (length tf) else i)%Z) batch)).
    { apply mapM_Some_map. intros i Hi. rewrite Forall_forall in H. specialize (H i Hi).
      apply range_getitem_some. destruct (i <? 0)%Z eqn:E; [apply Z.ltb_lt in E | apply Z.ltb_ge in E].
      - right. split; [lia | reflexivity].
      - left. split; [lia | reflexivity]. }
    rewrite Hp. cbn [obind]. rewrite (tgather_nth _ _ d).
    - rewrite map_map. reflexivity.
    - apply Forall_forall. intros p Hp'. apply in_map_iff in Hp'. destruct Hp' as [i [<- Hi]].
      rewrite Forall_forall in H. specialize (H i Hi).
      destruct (i <? 0)%Z eqn:E; [apply Z.ltb_lt in E | apply Z.ltb_ge in E]; lia.
  Qed.

  (* all indices in range: the epoch never raises and every batch is the selection of the rows its
     indices denote (negative ones counted from the end), in the order given *)
  Lemma fetch_epoch_in_range : forall (tf : list R) d bs s drop,
    Forall (Forall (fun i => (- Z.of_nat (length tf) <= i < Z.of_nat (length tf))%Z))
           (z_index_batches (length tf) bs s drop) ->
    fetch_epoch tf (length tf) bs s drop =
    Some (map (map (zrow tf d)) (z_index_batches (length tf) bs s drop)).
  Proof.
    intros tf d bs s drop H. unfold fetch_epoch. apply mapM_Some_map.
    intros b Hb. rewrite Forall_forall in H. apply fetch_batch_in_range. apply H. exact Hb.
  Qed.

  (* on non-negative indices the fetch step is invisible: it is the direct row selection of Model/Loader.v *)
  Lemma fetch_batch_nat : forall (tf : list R) idx,
    fetch_batch tf (length tf) (map Z.of_nat idx) = tgather tf idx.
  Proof.
    intros tf idx. unfold fetch_batch, fetch_positions, tgather.
    induction idx as [|k r IH]; [reflexivity|]. cbn [map mapM].
    destruct (lt_dec k (length tf)) as [Hk|Hk].
    - assert (E : range_getitem (length tf) (Z.of_nat k) = Some k).
      { apply range_getitem_some. left. split; [lia | rewrite Nat2Z.id; reflexivity]. }
      rewrite E. unfold tget at 2. destruct (nth_error tf k) as [x|] eqn:Ex; [|apply nth_error_None in Ex; lia].
      destruct (mapM (range_getitem (length tf)) (map Z.of_nat r)) as [ps|] eqn:Eps; cbn [obind] in *.
      + cbn [mapM]. unfold tget at 1. rewrite Ex. rewrite IH. reflexivity.
      + rewrite <- IH. reflexivity.
    - assert (E : range_getitem (length tf) (Z.of_nat k) = None) by (apply range_getitem_none; left; lia).
      rewrite E. cbn [obind]. unfold tget. destruct (nth_error tf k) eqn:Ex; [|reflexivity].
      exfalso. apply Hk. apply nth_error_Some. congruence.
  Qed.

  Lemma chunks_fuel_map : forall {A B} (f : A -> B) fuel k (l : list A),
    chunks_fuel fuel k (map f l) = map (map f) (chunks_fuel fuel k l).
  Proof.
    intros A B f fuel k. induction fuel as [|fu IH]; intro l; [reflexivity|].
    destruct l as [|x r]; [reflexivity|]. cbn [map chunks_fuel].
    change (f x :: map f r) with (map f (x :: r)).
    rewrite firstn_map, skipn_map, IH. reflexivity.
  Qed.

  Lemma sampler_batches_map : forall {A B} (f : A -> B) bs (l : list A) drop,
    sampler_batches bs (map f l) drop = map (map f) (sampler_batches bs l drop).
  Proof.
    intros A B f bs l drop. unfold sampler_batches, chunks. rewrite map_length, chunks_fuel_map.
    destruct drop; [|reflexivity]. unfold drop_short.
    induction (chunks_fuel (length l) bs l) as [|c cs IH]; [reflexivity|].
    cbn [map filter]. rewrite map_length. destruct (length c =? bs); cbn [map]; rewrite IH; reflexivity.
  Qed.

  Definition lift_sampling (s : sampling) : zsampling :=
    match s with
    | Sequential => ZSequential
    | Shuffled o => ZShuffled o
    | Sampler idx => ZSampler (map Z.of_nat idx)
    | BatchSampler bss => ZBatchSampler (map (map Z.of_nat) bss)
    end.

  Lemma fetch_epoch_nat : forall (ld : loader R),
    ld_n ld = length (ld_tensor_frame ld) ->
    fetch_epoch (ld_tensor_frame ld) (ld_n ld) (ld_batch_size ld) (lift_sampling (ld_sampling ld)) (ld_drop_last ld)
    = loader_epoch ld.
  Proof.
    intros ld Hn. unfold fetch_epoch, loader_epoch, loader_collate.
    assert (Hb : z_index_batches (ld_n ld) (ld_batch_size ld) (lift_sampling (ld_sampling ld)) (ld_drop_last ld)
                 = map (map Z.of_nat) (loader_index_batches ld)).
    { unfold z_index_batches, loader_index_batches, loader_batches.
      destruct (ld_sampling ld); cbn [lift_sampling sampling_order];
        try (rewrite sampler_batches_map; reflexivity). reflexivity. }
    rewrite Hb, mapM_map. rewrite Hn. clear Hb.
    induction (loader_index_batches ld) as [|b bs IH]; [reflexivity|].
    cbn [mapM]. rewrite fetch_batch_nat, IH. reflexivity.
  Qed.
End FetchFacts.
