(* General facts about the Lib/ListX.v primitives: mapM / tgather, tslice,
   prefix sums (cumsum), batched_arange and the ragged gather pattern. *)
From Coq Require Import List Arith Bool Lia.
From PF Require Import Lib.ListX.
Import ListNotations.

(* ------------------------------------------------------------------ *)
(* small list helpers *)

Lemma combine_app : forall {B C} (l1 l2 : list B) (r1 r2 : list C),
  length l1 = length r1 ->
  combine (l1 ++ l2) (r1 ++ r2) = combine l1 r1 ++ combine l2 r2.
Proof.
  intros B C l1; induction l1 as [|x l1 IH]; intros l2 r1 r2 H; destruct r1 as [|y r1];
    simpl in *; try discriminate; auto.
  f_equal. apply IH. lia.
Qed.

Lemma combine_map_same : forall {B C D} (f : B -> C) (g : B -> D) (X : list B),
  combine (map f X) (map g X) = map (fun x => (f x, g x)) X.
Proof. intros. induction X; simpl; congruence. Qed.

Lemma map_nth_seq : forall {B} (l : list B) (d : B),
  l = map (fun r => nth r l d) (seq 0 (length l)).
Proof.
  intros B l d. induction l as [|x l IH]; simpl; auto.
  f_equal. rewrite <- seq_shift, map_map. exact IH.
Qed.

Lemma nth_firstn_lt : forall {B} (l : list B) n i d, i < n -> nth i (firstn n l) d = nth i l d.
Proof.
  intros B l; induction l as [|x l IH]; intros n i d H.
  - rewrite firstn_nil. reflexivity.
  - destruct n; [lia|]. destruct i; simpl; auto. apply IH. lia.
Qed.

Lemma nth_skipn' : forall {B} (l : list B) n i d, nth i (skipn n l) d = nth (n + i) l d.
Proof.
  intros B l; induction l as [|x l IH]; intros n i d.
  - rewrite skipn_nil. destruct i, n; reflexivity.
  - destruct n; simpl; auto.
Qed.

Lemma skipn_skipn' : forall {B} (l : list B) a b, skipn a (skipn b l) = skipn (b + a) l.
Proof.
  intros B l a b; revert l; induction b as [|b IH]; intros l; simpl; auto.
  destruct l; simpl; auto. rewrite skipn_nil. reflexivity.
Qed.

Lemma flat_map_ext_in : forall {B C} (f g : B -> list C) (l : list B),
  (forall x, In x l -> f x = g x) -> flat_map f l = flat_map g l.
Proof.
  intros B C f g l H. induction l as [|x l IH]; simpl; auto.
  rewrite H by (left; reflexivity). f_equal. apply IH. intros; apply H; right; assumption.
Qed.

Lemma flat_map_map : forall {B C D} (f : B -> C) (g : C -> list D) (l : list B),
  flat_map g (map f l) = flat_map (fun x => g (f x)) l.
Proof. intros. induction l; simpl; congruence. Qed.

Lemma map_flat_map : forall {B C D} (f : B -> list C) (g : C -> D) (l : list B),
  map g (flat_map f l) = flat_map (fun x => map g (f x)) l.
Proof. intros. induction l; simpl; auto. rewrite map_app. congruence. Qed.

Lemma flat_map_singleton : forall {B C} (f : B -> C) (l : list B),
  flat_map (fun x => [f x]) l = map f l.
Proof. intros. induction l; simpl; congruence. Qed.

Lemma length_flat_map_const : forall {B C} (f : B -> list C) (l : list B) w,
  (forall x, In x l -> length (f x) = w) -> length (flat_map f l) = length l * w.
Proof.
  intros B C f l w H. induction l as [|x l IH]; simpl; auto.
  rewrite app_length, H by (left; reflexivity). f_equal. apply IH. intros; apply H; right; assumption.
Qed.

Lemma seq_flat : forall n c, seq 0 (n * c) = flat_map (fun r => seq (r * c) c) (seq 0 n).
Proof.
  induction n as [|n IH]; intros c; [reflexivity|].
  rewrite (seq_S n 0), flat_map_app. cbn [flat_map]. rewrite app_nil_r, <- IH.
  replace (S n * c) with (n * c + c) by lia. rewrite seq_app. reflexivity.
Qed.

(* ------------------------------------------------------------------ *)
(* mapM / tgather *)

Lemma mapM_Some_map : forall {B C} (f : B -> option C) (g : B -> C) (l : list B),
  (forall x, In x l -> f x = Some (g x)) -> mapM f l = Some (map g l).
Proof.
  intros B C f g l H. induction l as [|x l IH]; simpl; auto.
  rewrite H by (left; reflexivity). rewrite IH; auto. intros; apply H; right; assumption.
Qed.

Lemma mapM_app : forall {B C} (f : B -> option C) (l1 l2 : list B),
  mapM f (l1 ++ l2) =
  match mapM f l1, mapM f l2 with Some a, Some b => Some (a ++ b) | _, _ => None end.
Proof.
  intros B C f l1 l2. induction l1 as [|x l1 IH]; simpl.
  - destruct (mapM f l2); reflexivity.
  - destruct (f x); auto. rewrite IH. destruct (mapM f l1); auto. destruct (mapM f l2); auto.
Qed.

Lemma mapM_length : forall {B C} (f : B -> option C) (l : list B) l',
  mapM f l = Some l' -> length l' = length l.
Proof.
  intros B C f l. induction l as [|x l IH]; simpl; intros l' H.
  - injection H as <-. reflexivity.
  - destruct (f x); try discriminate. destruct (mapM f l) eqn:E; try discriminate.
    injection H as <-. simpl. f_equal. apply IH. reflexivity.
Qed.

Lemma mapM_Forall : forall {B C} (f : B -> option C) (P : C -> Prop) (l : list B) l',
  (forall x y, f x = Some y -> P y) -> mapM f l = Some l' -> Forall P l'.
Proof.
  intros B C f P l. induction l as [|x l IH]; simpl; intros l' HP H.
  - injection H as <-. constructor.
  - destruct (f x) eqn:Ex; try discriminate. destruct (mapM f l) eqn:E; try discriminate.
    injection H as <-. constructor; eauto.
Qed.

Lemma mapM_map : forall {B C D} (f : C -> option D) (g : B -> C) (l : list B),
  mapM f (map g l) = mapM (fun x => f (g x)) l.
Proof.
  intros. induction l as [|x l IH]; simpl; auto. rewrite IH. reflexivity.
Qed.

Lemma tgather_nth : forall {B} (l : list B) (idx : list nat) (d : B),
  Forall (fun i => i < length l) idx -> tgather l idx = Some (map (fun i => nth i l d) idx).
Proof.
  intros B l idx d H. unfold tgather. apply mapM_Some_map.
  intros i Hi. unfold tget. apply nth_error_nth'. rewrite Forall_forall in H. auto.
Qed.

Lemma tgather_map_seq : forall {B} (f : nat -> B) (n : nat) (idx : list nat),
  Forall (fun i => i < n) idx -> tgather (map f (seq 0 n)) idx = Some (map f idx).
Proof.
  intros B f n idx H. unfold tgather. apply mapM_Some_map.
  intros i Hi. unfold tget. rewrite Forall_forall in H. specialize (H i Hi).
  rewrite nth_error_map. rewrite (nth_error_nth' _ 0) by (rewrite seq_length; auto).
  simpl. rewrite seq_nth by auto. reflexivity.
Qed.

Lemma tgather_app : forall {B} (l : list B) (i1 i2 : list nat),
  tgather l (i1 ++ i2) =
  match tgather l i1, tgather l i2 with Some a, Some b => Some (a ++ b) | _, _ => None end.
Proof. intros. apply mapM_app. Qed.

Lemma tgather_repeat : forall {B} (l : list B) k x c,
  nth_error l k = Some x -> tgather l (repeat k c) = Some (repeat x c).
Proof.
  intros B l k x c H. unfold tgather. induction c as [|c IH]; simpl; auto.
  rewrite IH. unfold tget. rewrite H. reflexivity.
Qed.

(* ------------------------------------------------------------------ *)
(* tslice *)

Lemma tslice_length : forall {B} (l : list B) a b,
  b <= length l -> length (tslice l a b) = b - a.
Proof. intros. unfold tslice. rewrite firstn_length, skipn_length. lia. Qed.

Lemma tslice_all : forall {B} (l : list B), tslice l 0 (length l) = l.
Proof. intros. unfold tslice. simpl. rewrite Nat.sub_0_r. apply firstn_all. Qed.

Lemma tslice_nth : forall {B} (l : list B) a b j d,
  j < b - a -> nth j (tslice l a b) d = nth (a + j) l d.
Proof. intros. unfold tslice. rewrite nth_firstn_lt by auto. apply nth_skipn'. Qed.

Lemma tslice_one : forall {B} (l : list B) k d, k < length l -> tslice l k (S k) = [nth k l d].
Proof.
  intros B l k d H. unfold tslice. replace (S k - k) with 1 by lia.
  destruct (skipn k l) as [|x r] eqn:E.
  - assert (length (skipn k l) = 0) by (rewrite E; reflexivity). rewrite skipn_length in *. lia.
  - simpl. f_equal. rewrite <- (Nat.add_0_r k) at 1. rewrite <- nth_skipn', E. reflexivity.
Qed.

Lemma tslice_tslice : forall {B} (l : list B) a b s e,
  a + e <= b -> tslice (tslice l a b) s e = tslice l (a + s) (a + e).
Proof.
  intros B l a b s e H. unfold tslice.
  rewrite skipn_firstn_comm, firstn_firstn, skipn_skipn'.
  replace (a + e - (a + s)) with (e - s) by lia. f_equal. lia.
Qed.

Lemma tslice_map : forall {B C} (f : B -> C) (l : list B) a b,
  tslice (map f l) a b = map f (tslice l a b).
Proof. intros. unfold tslice. rewrite skipn_map, firstn_map. reflexivity. Qed.

Lemma firstn_seq' : forall k a m, k <= m -> firstn k (seq a m) = seq a k.
Proof.
  induction k as [|k IH]; intros a m H; [reflexivity|].
  destruct m; [lia|]. simpl. f_equal. apply IH. lia.
Qed.

Lemma skipn_seq' : forall a s n, skipn a (seq s n) = seq (s + a) (n - a).
Proof.
  induction a as [|a IH]; intros s n.
  - simpl. rewrite Nat.add_0_r, Nat.sub_0_r. reflexivity.
  - destruct n; [reflexivity|]. simpl. rewrite IH. f_equal. lia.
Qed.

Lemma tslice_seq : forall n a b, b <= n -> tslice (seq 0 n) a b = seq a (b - a).
Proof.
  intros n a b H. unfold tslice. rewrite skipn_seq'. simpl. apply firstn_seq'. lia.
Qed.

Lemma map_nth_seq_tslice : forall {B} (l : list B) d a n,
  a + n <= length l -> map (fun i => nth i l d) (seq a n) = tslice l a (a + n).
Proof.
  intros B l d a n H.
  transitivity (tslice (map (fun r => nth r l d) (seq 0 (length l))) a (a + n)).
  - rewrite tslice_map, tslice_seq by lia. replace (a + n - a) with n by lia. reflexivity.
  - rewrite <- map_nth_seq. reflexivity.
Qed.

Lemma tgather_seq : forall {B} (l : list B) s c,
  s + c <= length l -> tgather l (seq s c) = Some (tslice l s (s + c)).
Proof.
  intros B l s c H. destruct l as [|d l'] eqn:El.
  - simpl in H. assert (c = 0) by lia. subst c. unfold tslice. rewrite skipn_nil, firstn_nil. reflexivity.
  - rewrite <- El in *. rewrite (tgather_nth l _ d).
    + rewrite map_nth_seq_tslice by auto. reflexivity.
    + apply Forall_forall. intros i Hi. apply in_seq in Hi. lia.
Qed.

(* ------------------------------------------------------------------ *)
(* sum / prefix sums / cumsum *)

Definition pre (L : list nat) (k : nat) : nat := sum (firstn k L).
Definition starts (L : list nat) : list nat := map (pre L) (seq 0 (length L)).

Lemma sum_app : forall l1 l2, sum (l1 ++ l2) = sum l1 + sum l2.
Proof. induction l1; intros; simpl; auto. rewrite IHl1. lia. Qed.

Lemma pre_0 : forall L, pre L 0 = 0.
Proof. reflexivity. Qed.

Lemma pre_all : forall L k, length L <= k -> pre L k = sum L.
Proof. intros. unfold pre. rewrite firstn_all2; auto. Qed.

Lemma pre_add : forall L a k, pre L (a + k) = pre L a + pre (skipn a L) k.
Proof.
  intros L a; revert L. induction a as [|a IH]; intros L k; [reflexivity|].
  destruct L as [|x L].
  - unfold pre. rewrite skipn_nil, !firstn_nil. reflexivity.
  - unfold pre in *. simpl. rewrite IH. lia.
Qed.

Lemma pre_mono : forall L a b, a <= b -> pre L a <= pre L b.
Proof. intros L a b H. replace b with (a + (b - a)) by lia. rewrite pre_add. lia. Qed.

Lemma pre_le_sum : forall L a, pre L a <= sum L.
Proof.
  intros. rewrite <- (pre_all L (a + length L)) by lia. apply pre_mono. lia.
Qed.

Lemma pre_S : forall L k, k < length L -> pre L (S k) = pre L k + nth k L 0.
Proof.
  intros L k; revert L. induction k as [|k IH]; intros L H; (destruct L as [|x L]; [simpl in H; lia|]).
  - unfold pre. simpl. lia.
  - simpl in H. specialize (IH L ltac:(lia)). unfold pre in *. simpl in *. lia.
Qed.

Lemma pre_firstn : forall L n k, k <= n -> pre (firstn n L) k = pre L k.
Proof. intros. unfold pre. rewrite firstn_firstn. replace (Nat.min k n) with k by lia. reflexivity. Qed.

Lemma pre_tslice : forall L a b k, a + k <= b -> pre (tslice L a b) k = pre L (a + k) - pre L a.
Proof.
  intros L a b k H. unfold tslice. rewrite pre_firstn by lia. rewrite pre_add. lia.
Qed.

Lemma pre_repeat : forall c n k, k <= n -> pre (repeat c n) k = k * c.
Proof.
  intros c n; induction n as [|n IH]; intros k H.
  - replace k with 0 by lia. reflexivity.
  - destruct k; [reflexivity|]. unfold pre in *. simpl. rewrite IH by lia. reflexivity.
Qed.

Lemma cumsum_from_length : forall l a, length (cumsum_from a l) = length l.
Proof. induction l; intros; simpl; auto. Qed.

Lemma cumsum_from_spec : forall l a,
  cumsum_from a l = map (fun k => a + pre l (S k)) (seq 0 (length l)).
Proof.
  induction l as [|x l IH]; intros a; simpl; auto.
  f_equal.
  - unfold pre. simpl. lia.
  - rewrite IH. rewrite <- seq_shift, map_map. apply map_ext. intros k.
    unfold pre. simpl. lia.
Qed.

Lemma offs_closed : forall L, 0 :: cumsum L = map (pre L) (seq 0 (S (length L))).
Proof.
  intros L. unfold cumsum. rewrite cumsum_from_spec. simpl. f_equal.
  rewrite <- seq_shift, map_map. reflexivity.
Qed.

Lemma offs_starts : forall L, 0 :: cumsum L = starts L ++ [sum L].
Proof.
  intros L. rewrite offs_closed, seq_S, map_app. simpl. unfold starts.
  rewrite pre_all by lia. reflexivity.
Qed.

Lemma offs_length : forall L, length (0 :: cumsum L) = S (length L).
Proof. intros. simpl. unfold cumsum. rewrite cumsum_from_length. reflexivity. Qed.

Lemma offs_last : forall L, last (0 :: cumsum L) 0 = sum L.
Proof. intros. rewrite offs_starts. apply last_last. Qed.

Lemma starts_length : forall L, length (starts L) = length L.
Proof. intros. unfold starts. rewrite map_length, seq_length. reflexivity. Qed.

Lemma starts_removelast : forall L, L <> [] -> 0 :: removelast (cumsum L) = starts L.
Proof.
  intros L H. assert (E : removelast (0 :: cumsum L) = starts L).
  { rewrite offs_starts. apply removelast_last. }
  rewrite <- E. destruct L as [|x L]; [congruence|]. reflexivity.
Qed.

Lemma combine_starts : forall {B} (Z : list B) L, length Z = length L ->
  combine Z (0 :: removelast (cumsum L)) = combine Z (starts L).
Proof.
  intros B Z L H. destruct L as [|x L].
  - destruct Z; [reflexivity|discriminate].
  - rewrite starts_removelast by discriminate. reflexivity.
Qed.

Lemma seq_shift_add : forall n a s, seq (a + s) n = map (fun k => a + k) (seq s n).
Proof.
  induction n as [|n IH]; intros a s; simpl; auto. f_equal.
  replace (S (a + s)) with (a + S s) by lia. apply IH.
Qed.

Lemma starts_app : forall L1 L2,
  starts (L1 ++ L2) = starts L1 ++ map (fun x => x + sum L1) (starts L2).
Proof.
  intros L1 L2. unfold starts. rewrite app_length, seq_app, map_app. f_equal.
  - apply map_ext_in. intros k Hk. apply in_seq in Hk. unfold pre.
    rewrite firstn_app. replace (k - length L1) with 0 by lia. simpl. rewrite app_nil_r. reflexivity.
  - replace (seq (0 + length L1) (length L2)) with (map (fun k => length L1 + k) (seq 0 (length L2)))
      by (rewrite <- seq_shift_add; f_equal; lia).
    rewrite !map_map. apply map_ext. intros k. unfold pre.
    rewrite firstn_app, sum_app. rewrite firstn_all2 by lia.
    replace (length L1 + k - length L1) with k by lia. lia.
Qed.

Lemma sum_map_length_concat : forall {B} (F : list (list B)), length (concat F) = sum (map (@length B) F).
Proof. intros. induction F; simpl; auto. rewrite app_length. congruence. Qed.

Lemma pre_map_length : forall {B} (F : list (list B)) k,
  pre (map (@length B) F) k = length (concat (firstn k F)).
Proof. intros. unfold pre. rewrite firstn_map. symmetry. apply sum_map_length_concat. Qed.

Lemma sorted_offs : forall L k, k < length L -> pre L k <= pre L (S k).
Proof. intros. apply pre_mono. lia. Qed.

(* ------------------------------------------------------------------ *)
(* concat versus prefix sums *)

Section Flat.
  Context {B : Type}.
  Variable F : list (list B).
  Let L := map (@length B) F.

  Lemma firstn_concat : forall n, firstn (pre L n) (concat F) = concat (firstn n F).
  Proof.
    unfold L. clear L. induction F as [|x F' IH]; intros n.
    - rewrite !firstn_nil. reflexivity.
    - destruct n; [reflexivity|]. unfold pre in *. simpl.
      rewrite firstn_app. rewrite firstn_all2 by lia. f_equal.
      replace (length x + sum (firstn n (map (@length B) F')) - length x)
        with (sum (firstn n (map (@length B) F'))) by lia. apply IH.
  Qed.

  Lemma skipn_concat : forall n, skipn (pre L n) (concat F) = concat (skipn n F).
  Proof.
    unfold L. clear L. induction F as [|x F' IH]; intros n.
    - rewrite !skipn_nil. reflexivity.
    - destruct n; [reflexivity|]. unfold pre in *. simpl.
      rewrite skipn_app. rewrite skipn_all2 by lia. simpl.
      replace (length x + sum (firstn n (map (@length B) F')) - length x)
        with (sum (firstn n (map (@length B) F'))) by lia. apply IH.
  Qed.
End Flat.

Lemma tslice_concat : forall {B} (F : list (list B)) a b, a <= b ->
  tslice (concat F) (pre (map (@length B) F) a) (pre (map (@length B) F) b) = concat (tslice F a b).
Proof.
  intros B F a b H. unfold tslice. rewrite skipn_concat.
  replace b with (a + (b - a)) at 1 by lia. rewrite pre_add.
  replace (pre (map (@length B) F) a + pre (skipn a (map (@length B) F)) (b - a) - pre (map (@length B) F) a)
    with (pre (skipn a (map (@length B) F)) (b - a)) by lia.
  rewrite skipn_map. apply firstn_concat.
Qed.

Lemma pre_le_length : forall {B} (F : list (list B)) k, pre (map (@length B) F) k <= length (concat F).
Proof. intros. rewrite sum_map_length_concat. apply pre_le_sum. Qed.

(* starts of a window of cells, rebased *)
Lemma seg_starts : forall {B} (F : list (list B)) a w, a + w <= length F ->
  starts (map (@length B) (tslice F a (a + w))) =
  map (fun k => pre (map (@length B) F) (a + k) - pre (map (@length B) F) a) (seq 0 w).
Proof.
  intros B F a w H. unfold starts. rewrite map_length, tslice_length by lia.
  replace (a + w - a) with w by lia. apply map_ext_in. intros k Hk. apply in_seq in Hk.
  rewrite <- tslice_map. apply pre_tslice. lia.
Qed.

Lemma seg_offs : forall {B} (F : list (list B)) a w, a + w <= length F ->
  0 :: cumsum (map (@length B) (tslice F a (a + w))) =
  map (fun k => pre (map (@length B) F) (a + k) - pre (map (@length B) F) a) (seq 0 (S w)).
Proof.
  intros B F a w H. rewrite offs_closed, map_length, tslice_length by lia.
  replace (a + w - a) with w by lia. apply map_ext_in. intros k Hk. apply in_seq in Hk.
  rewrite <- tslice_map. apply pre_tslice. lia.
Qed.

(* ------------------------------------------------------------------ *)
(* sub2 / add2 *)

Lemma sub2_map_same : forall {B} (f g : B -> nat) (X : list B),
  sub2 (map f X) (map g X) = map (fun x => f x - g x) X.
Proof. intros. unfold sub2. rewrite combine_map_same, map_map. reflexivity. Qed.

Lemma add2_map_same : forall {B} (f g : B -> nat) (X : list B),
  add2 (map f X) (map g X) = map (fun x => f x + g x) X.
Proof. intros. unfold add2. rewrite combine_map_same, map_map. reflexivity. Qed.

Lemma sub2_app : forall a1 a2 b1 b2, length a1 = length b1 ->
  sub2 (a1 ++ a2) (b1 ++ b2) = sub2 a1 b1 ++ sub2 a2 b2.
Proof. intros. unfold sub2. rewrite combine_app by auto. apply map_app. Qed.

Lemma add2_app : forall a1 a2 b1 b2, length a1 = length b1 ->
  add2 (a1 ++ a2) (b1 ++ b2) = add2 a1 b1 ++ add2 a2 b2.
Proof. intros. unfold add2. rewrite combine_app by auto. apply map_app. Qed.

Lemma sub2_flat_map : forall {B} (g1 g2 : B -> list nat) (X : list B),
  (forall x, In x X -> length (g1 x) = length (g2 x)) ->
  sub2 (flat_map g1 X) (flat_map g2 X) = flat_map (fun x => sub2 (g1 x) (g2 x)) X.
Proof.
  intros B g1 g2 X H. induction X as [|x X IH]; simpl; auto.
  rewrite sub2_app by (apply H; left; reflexivity). f_equal. apply IH. intros; apply H; right; assumption.
Qed.

Lemma add2_flat_map : forall {B} (g1 g2 : B -> list nat) (X : list B),
  (forall x, In x X -> length (g1 x) = length (g2 x)) ->
  add2 (flat_map g1 X) (flat_map g2 X) = flat_map (fun x => add2 (g1 x) (g2 x)) X.
Proof.
  intros B g1 g2 X H. induction X as [|x X IH]; simpl; auto.
  rewrite add2_app by (apply H; left; reflexivity). f_equal. apply IH. intros; apply H; right; assumption.
Qed.

Lemma add2_repeat_seq : forall c s j, add2 (repeat s c) (seq j c) = seq (s + j) c.
Proof.
  induction c as [|c IH]; intros s j; simpl; auto.
  unfold add2 in *. simpl. f_equal. rewrite IH. f_equal. lia.
Qed.

Lemma sub2_map_repeat : forall {B} (f : B -> nat) (X : list B) o,
  sub2 (map f X) (repeat o (length X)) = map (fun x => f x - o) X.
Proof. intros. induction X as [|x X IH]; simpl; auto. unfold sub2 in *. simpl. f_equal. apply IH. Qed.

Lemma add2_map_repeat : forall {B} (f : B -> nat) (X : list B) o,
  add2 (map f X) (repeat o (length X)) = map (fun x => f x + o) X.
Proof. intros. induction X as [|x X IH]; simpl; auto. unfold add2 in *. simpl. f_equal. apply IH. Qed.

(* ------------------------------------------------------------------ *)
(* batched_arange *)

Lemma repeat_interleave_spec : forall {B} (xs : list B) (cs : list nat),
  repeat_interleave xs cs = concat (map (fun p => repeat (fst p) (snd p)) (combine xs cs)).
Proof.
  intros B xs; induction xs as [|x xs IH]; intros cs; simpl; auto.
  destruct cs as [|c cs]; simpl; auto. rewrite IH. reflexivity.
Qed.

Lemma arange_seg : forall (ptr : list nat) k0 p0 c j,
  nth k0 ptr 0 = p0 ->
  map (fun p => fst p - nth (snd p) ptr 0) (combine (seq (p0 + j) c) (repeat k0 c)) = seq j c.
Proof.
  intros ptr k0 p0 c; induction c as [|c IH]; intros j H; simpl; auto.
  f_equal; [lia|]. replace (S (p0 + j)) with (p0 + S j) by lia. apply IH. assumption.
Qed.

Lemma arange_gen : forall (ptr : list nat) (rest : list nat) k0 p0,
  (forall j, j < length rest -> nth (k0 + j) ptr 0 = p0 + pre rest j) ->
  let B := concat (map (fun p => repeat (fst p) (snd p)) (combine (seq k0 (length rest)) rest)) in
  map (fun p => fst p - nth (snd p) ptr 0) (combine (seq p0 (length B)) B) = concat (map (seq 0) rest).
Proof.
  intros ptr rest; induction rest as [|c rest IH]; intros k0 p0 H; simpl; auto.
  rewrite app_length, repeat_length, seq_app.
  rewrite combine_app by (rewrite seq_length, repeat_length; reflexivity).
  rewrite map_app. f_equal.
  - rewrite <- (Nat.add_0_r p0) at 1. apply arange_seg.
    specialize (H 0 ltac:(simpl; lia)). rewrite Nat.add_0_r in H. rewrite H. unfold pre. simpl. lia.
  - apply IH. intros j Hj. specialize (H (S j) ltac:(simpl; lia)).
    replace (S k0 + j) with (k0 + S j) by lia. rewrite H. unfold pre. simpl. lia.
Qed.

Lemma batched_arange_spec : forall count : list nat,
  batched_arange count =
    (concat (map (fun p => repeat (fst p) (snd p)) (combine (seq 0 (length count)) count)),
     concat (map (fun c => seq 0 c) count)).
Proof.
  intros count. unfold batched_arange. rewrite repeat_interleave_spec. f_equal.
  apply (arange_gen (0 :: cumsum count) count 0 0).
  intros j Hj. rewrite offs_closed. simpl Nat.add.
  rewrite (nth_indep _ 0 (pre count 0)) by (rewrite map_length, seq_length; lia).
  rewrite map_nth, seq_nth by lia. reflexivity.
Qed.

Lemma tgather_batch_gen : forall {B} (counts : list nat) (pfx X : list B),
  length X = length counts ->
  tgather (pfx ++ X) (repeat_interleave (seq (length pfx) (length counts)) counts) =
  Some (flat_map (fun p => repeat (fst p) (snd p)) (combine X counts)).
Proof.
  intros B counts; induction counts as [|c counts IH]; intros pfx X H.
  - destruct X; [reflexivity|discriminate].
  - destruct X as [|x X]; [discriminate|]. simpl in H. simpl.
    rewrite tgather_app. rewrite (tgather_repeat _ _ x).
    + replace (pfx ++ x :: X) with ((pfx ++ [x]) ++ X) by (rewrite <- app_assoc; reflexivity).
      replace (S (length pfx)) with (length (pfx ++ [x])) by (rewrite app_length; simpl; lia).
      rewrite IH by lia. reflexivity.
    + rewrite nth_error_app2 by lia. rewrite Nat.sub_diag. reflexivity.
Qed.

Lemma tgather_batch : forall {B} (X : list B) (counts : list nat),
  length X = length counts ->
  tgather X (fst (batched_arange counts)) =
  Some (flat_map (fun p => repeat (fst p) (snd p)) (combine X counts)).
Proof. intros. apply (tgather_batch_gen counts [] X). assumption. Qed.

Lemma batch_index_spec : forall (sts counts : list nat),
  length sts = length counts ->
  batch_index sts (batched_arange counts) =
  Some (flat_map (fun p => seq (fst p) (snd p)) (combine sts counts)).
Proof.
  intros sts counts H. unfold batch_index. rewrite tgather_batch by auto.
  rewrite batched_arange_spec. simpl snd. f_equal.
  clear. revert counts. induction sts as [|s sts IH]; intros counts; simpl; auto.
  destruct counts as [|c counts]; simpl; auto.
  rewrite add2_app by (rewrite repeat_length, seq_length; reflexivity).
  rewrite add2_repeat_seq, Nat.add_0_r, IH. reflexivity.
Qed.

Lemma batch_index_map : forall {B} (f g : B -> nat) (X : list B),
  batch_index (map f X) (batched_arange (map g X)) = Some (flat_map (fun x => seq (f x) (g x)) X).
Proof.
  intros. rewrite batch_index_spec by (rewrite !map_length; reflexivity).
  rewrite combine_map_same, flat_map_map. reflexivity.
Qed.

Lemma tgather_batch_map : forall {B C} (f : B -> C) (g : B -> nat) (X : list B),
  tgather (map f X) (fst (batched_arange (map g X))) = Some (flat_map (fun x => repeat (f x) (g x)) X).
Proof.
  intros. rewrite tgather_batch by (rewrite !map_length; reflexivity).
  rewrite combine_map_same, flat_map_map. reflexivity.
Qed.

(* the ragged gather: windows of whole cells *)
Lemma gather_windows : forall {B C} (F : list (list B)) (X : list C) (fa fb : C -> nat),
  Forall (fun x => fa x <= fb x /\ fb x <= length F) X ->
  exists vidx,
    batch_index (map (fun x => pre (map (@length B) F) (fa x)) X)
                (batched_arange (map (fun x => pre (map (@length B) F) (fb x) - pre (map (@length B) F) (fa x)) X))
      = Some vidx /\
    tgather (concat F) vidx = Some (concat (map (fun x => concat (tslice F (fa x) (fb x))) X)).
Proof.
  intros B C F X fa fb H. eexists. split; [apply batch_index_map|].
  induction H as [|x X [Hx1 Hx2] HX IH]; [reflexivity|].
  simpl. rewrite tgather_app, IH.
  assert (Hm := pre_mono (map (@length B) F) _ _ Hx1).
  rewrite tgather_seq.
  - replace (pre (map (@length B) F) (fa x) + (pre (map (@length B) F) (fb x) - pre (map (@length B) F) (fa x)))
      with (pre (map (@length B) F) (fb x)) by lia.
    rewrite tslice_concat by auto. reflexivity.
  - pose proof (pre_le_length F (fb x)). lia.
Qed.

(* offsets of a selection of equal-width windows, as every kernel computes them:
   per-window rebased offsets plus the running total of earlier windows *)
Section Segments.
  Context {B : Type}.
  Variable F : list (list B).
  Let L := map (@length B) F.
  Variable a : nat -> nat.
  Variable w : nat.

  Definition seg_cnt (r : nat) : nat := pre L (a r + w) - pre L (a r).
  Definition seg_sel (n : nat) : list (list B) := flat_map (fun r => tslice F (a r) (a r + w)) (seq 0 n).

  Lemma seg_sel_length : forall n, (forall r, r < n -> a r + w <= length F) -> length (seg_sel n) = n * w.
  Proof.
    intros n H. unfold seg_sel. rewrite (length_flat_map_const _ _ w), seq_length; auto.
    intros r Hr. apply in_seq in Hr. rewrite tslice_length by (apply H; lia). lia.
  Qed.

  Lemma seg_sum : forall n, (forall r, r < n -> a r + w <= length F) ->
    sum (map (@length B) (seg_sel n)) = sum (map seg_cnt (seq 0 n)).
  Proof.
    induction n as [|n IH]; intros H; [reflexivity|].
    unfold seg_sel in *. rewrite seq_S, flat_map_app, !map_app, !sum_app. rewrite IH by (intros; apply H; lia).
    f_equal. simpl. rewrite app_nil_r. rewrite Nat.add_0_r.
    rewrite <- sum_map_length_concat. unfold seg_cnt, L.
    rewrite <- tslice_concat by lia. rewrite tslice_length; [reflexivity|].
    apply pre_le_length.
  Qed.

  Lemma seg_offsets : forall n, (forall r, r < n -> a r + w <= length F) ->
    starts (map (@length B) (seg_sel n)) =
    flat_map (fun r => map (fun k => pre L (a r + k) - pre L (a r) + sum (map seg_cnt (seq 0 r))) (seq 0 w)) (seq 0 n).
  Proof.
    induction n as [|n IH]; intros H; [reflexivity|].
    rewrite (seq_S n 0), flat_map_app. rewrite <- IH by (intros; apply H; lia).
    unfold seg_sel. rewrite (seq_S n 0), flat_map_app, map_app, starts_app. f_equal.
    simpl. rewrite !app_nil_r. fold (seg_sel n). rewrite seg_sum by (intros; apply H; lia).
    rewrite seg_starts by (apply H; lia). rewrite map_map. reflexivity.
  Qed.

  Lemma pre_seg_cnt : forall n r, r <= n -> pre (map seg_cnt (seq 0 n)) r = sum (map seg_cnt (seq 0 r)).
  Proof.
    intros n r H. unfold pre. rewrite firstn_map, firstn_seq' by auto. reflexivity.
  Qed.
  Lemma seg_offsets' : forall n, (forall r, r < n -> a r + w <= length F) ->
    starts (map (@length B) (seg_sel n)) =
    flat_map (fun r => map (fun k => pre L k - pre L (a r) + sum (map seg_cnt (seq 0 r))) (seq (a r) w)) (seq 0 n).
  Proof.
    intros n H. rewrite seg_offsets by auto. apply flat_map_ext. intros r.
    replace (seq (a r) w) with (map (fun k => a r + k) (seq 0 w))
      by (rewrite <- seq_shift_add; f_equal; lia).
    rewrite map_map. reflexivity.
  Qed.

  Lemma seg_offs_body : forall n, (forall r, r < n -> a r + w <= length F) ->
    flat_map (fun r => map (fun k => pre L k - pre L (a r) + pre (map seg_cnt (seq 0 n)) r) (seq (a r) w)) (seq 0 n)
      ++ [sum (map seg_cnt (seq 0 n))] =
    0 :: cumsum (map (@length B) (seg_sel n)).
  Proof.
    intros n H. rewrite offs_starts, seg_offsets', seg_sum by auto. f_equal.
    apply flat_map_ext_in. intros r Hr. apply in_seq in Hr. rewrite pre_seg_cnt by lia. reflexivity.
  Qed.

  Lemma seg_offs_last_special : forall n', (forall r, r < S n' -> a r + w <= length F) ->
    flat_map (fun r => map (fun k => pre L k - pre L (a r) + pre (map seg_cnt (seq 0 (S n'))) r)
                           (seq (a r) (if r <? n' then w else w + 1))) (seq 0 (S n')) =
    0 :: cumsum (map (@length B) (seg_sel (S n'))).
  Proof.
    intros n' H. rewrite <- seg_offs_body by auto.
    set (D := pre (map seg_cnt (seq 0 (S n')))).
    assert (HD : D n' + seg_cnt n' = sum (map seg_cnt (seq 0 (S n')))).
    { unfold D. rewrite pre_seg_cnt by lia. rewrite (seq_S n' 0), map_app, sum_app. simpl. lia. }
    rewrite <- HD. clearbody D.
    rewrite (seq_S n' 0), !flat_map_app. rewrite <- app_assoc. f_equal.
    - apply flat_map_ext_in. intros r Hr. apply in_seq in Hr.
      replace (r <? n') with true by (symmetry; apply Nat.ltb_lt; lia). reflexivity.
    - cbn [flat_map]. rewrite !app_nil_r. simpl Nat.add. rewrite Nat.ltb_irrefl.
      replace (w + 1) with (S w) by lia. rewrite seq_S, map_app. f_equal.
      simpl. f_equal. unfold seg_cnt. lia.
  Qed.
End Segments.

(* ------------------------------------------------------------------ *)
(* rectangular matrices as flat lists *)

Section Rect.
  Context {B : Type}.
  Variable c : nat.
  Definition rectl (m : list (list B)) : Prop := Forall (fun r => length r = c) m.

  Lemma rect_map_length : forall m, rectl m -> map (@length B) m = repeat c (length m).
  Proof.
    intros m H. induction H as [|x l Hx Hl IH]; simpl; auto. rewrite Hx, IH. reflexivity.
  Qed.

  Lemma rect_concat_length : forall m, rectl m -> length (concat m) = length m * c.
  Proof.
    intros m H. rewrite sum_map_length_concat, rect_map_length by auto.
    rewrite <- (pre_all _ (length m)) by (rewrite repeat_length; lia).
    apply pre_repeat. lia.
  Qed.

  Lemma rect_tslice : forall m a b, rectl m -> a <= b -> b <= length m ->
    tslice (concat m) (a * c) (b * c) = concat (tslice m a b).
  Proof.
    intros m a b H Hab Hb. rewrite <- tslice_concat by auto. rewrite rect_map_length by auto.
    rewrite !pre_repeat by lia. reflexivity.
  Qed.

  Lemma rect_row : forall m i, rectl m -> i < length m ->
    nth i m [] = tslice (concat m) (i * c) (i * c + c).
  Proof.
    intros m i H Hi. replace (i * c + c) with (S i * c) by lia.
    rewrite rect_tslice by (auto; lia). rewrite (tslice_one m i []) by auto. simpl. rewrite app_nil_r. reflexivity.
  Qed.

  Lemma rect_cell : forall m i j d, rectl m -> i < length m -> j < c ->
    nth j (nth i m []) d = nth (i * c + j) (concat m) d.
  Proof.
    intros m i j d H Hi Hj. rewrite (rect_row m i) by auto. apply tslice_nth. lia.
  Qed.

  Lemma rect_row_length : forall m i, rectl m -> i < length m -> length (nth i m []) = c.
  Proof.
    intros m i H Hi. unfold rectl in H. rewrite Forall_forall in H. apply H. apply nth_In. assumption.
  Qed.
End Rect.

(* ------------------------------------------------------------------ *)
(* nonzero / last / hd helpers *)

Lemma nonzero_from_bound : forall m k, Forall (fun i => i < k + length m) (nonzero_from k m).
Proof.
  induction m as [|b m IH]; intros k; simpl; [constructor|].
  specialize (IH (S k)). assert (H : Forall (fun i => i < k + S (length m)) (nonzero_from (S k) m)).
  { eapply Forall_impl; [|exact IH]. simpl. intros; lia. }
  destruct b; auto. constructor; auto. lia.
Qed.

Lemma nonzero_bound : forall m, Forall (fun i => i < length m) (nonzero m).
Proof. intros. apply (nonzero_from_bound m 0). Qed.

Lemma last_error_map_seq : forall {B} (f : nat -> B) a n,
  last_error (map f (seq a (S n))) = Some (f (a + n)).
Proof.
  intros. rewrite seq_S, map_app. simpl.
  destruct (map f (seq a n)) as [|x l] eqn:E; simpl; auto.
  f_equal. apply (last_last l (f (a + n)) x).
Qed.

Lemma removelast_map_seq : forall {B} (f : nat -> B) a n,
  removelast (map f (seq a (S n))) = map f (seq a n).
Proof. intros. rewrite seq_S, map_app. simpl. apply removelast_last. Qed.

Lemma chunk_rows_map_seq : forall {B} (f : nat -> B) r c a,
  chunk_rows r c (map f (seq a (r * c))) = map (fun i => map f (seq (a + i * c) c)) (seq 0 r).
Proof.
  intros B f r c; induction r as [|r IH]; intros a; [reflexivity|].
  cbn [chunk_rows]. replace (S r * c) with (c + r * c) by lia.
  rewrite seq_app, map_app.
  rewrite firstn_app, firstn_all2 by (rewrite map_length, seq_length; lia).
  rewrite map_length, seq_length, Nat.sub_diag. simpl firstn. rewrite app_nil_r.
  rewrite skipn_app, skipn_all2 by (rewrite map_length, seq_length; lia).
  rewrite map_length, seq_length, Nat.sub_diag. simpl skipn. rewrite app_nil_l.
  rewrite IH. simpl. rewrite Nat.add_0_r. f_equal.
  rewrite <- seq_shift, map_map. apply map_ext. intros i. f_equal. f_equal. lia.
Qed.
