(* Lemmas about Model/RaggedCat.v (C06): constructors, concatenation on both
   axes of both containers, to_dense, fillna_col, clone, dispatch. *)
From Coq Require Import ZArith List Bool Arith Lia.
From PF Require Import Lib.ListX Lib.PySlice Model.Ragged Model.RaggedSpec Model.RaggedRun Model.RaggedCat.
From PF Require Import Proofs.ListXFacts Proofs.MntProofs Proofs.MetProofs.
Import ListNotations.

(* ---------------------------------------------------------------------- *)
(* list helpers *)

Lemma concat_concat_map : forall {B} (l : list (list (list B))),
  concat (map (@concat B) l) = concat (concat l).
Proof.
  intros B l. induction l as [|x l IH]; simpl; auto. rewrite concat_app, IH. reflexivity.
Qed.

Lemma map_length_concat : forall {B} (l : list (list (list B))),
  map (@length B) (concat l) = concat (map (map (@length B)) l).
Proof. intros. rewrite concat_map. reflexivity. Qed.

Lemma Forall_concat : forall {B} (P : B -> Prop) (l : list (list B)),
  Forall (Forall P) l -> Forall P (concat l).
Proof.
  intros B P l H. induction H as [|x l Hx Hl IH]; simpl; [constructor|].
  apply Forall_app. split; assumption.
Qed.

Lemma forallb_Forall : forall {B} (f : B -> bool) (P : B -> Prop) (l : list B),
  (forall x, P x -> f x = true) -> Forall P l -> forallb f l = true.
Proof.
  intros B f P l Hf H. induction H as [|x l Hx Hl IH]; simpl; auto. rewrite Hf, IH by auto. reflexivity.
Qed.

Lemma forallb_exists_false : forall {B} (f : B -> bool) (l : list B) x,
  In x l -> f x = false -> forallb f l = false.
Proof.
  intros B f l x Hin Hx. induction l as [|y l IH]; simpl in *; [contradiction|].
  destruct Hin as [->|Hin]; [rewrite Hx; reflexivity|]. rewrite IH by assumption. apply andb_false_r.
Qed.

(* ---------------------------------------------------------------------- *)
(* set_nth / scatter / write_at *)
Section Prims.
  Context {X : Type}.

  Lemma set_nth_app : forall (a b : list X) o v, set_nth (a ++ o :: b) (length a) v = a ++ v :: b.
  Proof.
    intros a b o v. unfold set_nth. induction a as [|x a IH]; simpl; [reflexivity|].
    f_equal. exact IH.
  Qed.

  Lemma scatter_app : forall (i1 i2 : list nat) (s1 s2 : list X) buf, length i1 = length s1 ->
    scatter buf (i1 ++ i2) (s1 ++ s2) =
    match scatter buf i1 s1 with Some b => scatter b i2 s2 | None => None end.
  Proof.
    induction i1 as [|i i1 IH]; intros i2 s1 s2 buf H; destruct s1 as [|v s1]; simpl in *; try discriminate; auto.
    destruct (i <? length buf); auto.
  Qed.

  (* scattering a whole segment replaces it *)
  Lemma scatter_seq : forall (new old a b : list X), length old = length new ->
    scatter (a ++ old ++ b) (seq (length a) (length new)) new = Some (a ++ new ++ b).
  Proof.
    induction new as [|v new IH]; intros old a b H; destruct old as [|o old]; simpl in *; try discriminate; auto.
    replace (length a <? length (a ++ o :: old ++ b)) with true
      by (symmetry; apply Nat.ltb_lt; rewrite app_length; simpl; lia).
    rewrite set_nth_app.
    replace (a ++ v :: old ++ b) with ((a ++ [v]) ++ old ++ b) by (rewrite <- app_assoc; reflexivity).
    replace (S (length a)) with (length (a ++ [v])) by (rewrite app_length; simpl; lia).
    rewrite IH by lia. rewrite <- app_assoc. reflexivity.
  Qed.

  Lemma write_at_seg : forall (new old a b : list X), length old = length new ->
    write_at (a ++ old ++ b) (length a) new = Some (a ++ new ++ b).
  Proof.
    intros new old a b H. unfold write_at.
    replace (length a + length new <=? length (a ++ old ++ b)) with true
      by (symmetry; apply Nat.leb_le; rewrite !app_length; lia).
    rewrite firstn_app, Nat.sub_diag, firstn_all. simpl. rewrite app_nil_r.
    f_equal. f_equal. f_equal.
    rewrite skipn_app. rewrite skipn_all2 by lia. simpl.
    replace (length a + length new - length a) with (length old) by lia.
    rewrite skipn_app, Nat.sub_diag, skipn_all. reflexivity.
  Qed.

  Lemma write_tail_seg : forall (new old a : list X), length old = length new ->
    write_tail (a ++ old) (length a) new = Some (a ++ new).
  Proof.
    intros new old a H. unfold write_tail.
    replace (length a + length new =? length (a ++ old)) with true
      by (symmetry; apply Nat.eqb_eq; rewrite !app_length; lia).
    rewrite firstn_app, Nat.sub_diag, firstn_all. simpl. rewrite app_nil_r. reflexivity.
  Qed.

  (* every list of the right total length is a concatenation of blocks of given lengths *)
  Lemma cut_blocks : forall (lens : list nat) (buf : list X), length buf = sum lens ->
    exists F, concat F = buf /\ map (@length X) F = lens.
  Proof.
    induction lens as [|n lens IH]; intros buf H; simpl in H.
    - exists []. destruct buf; [auto|discriminate].
    - destruct (IH (skipn n buf)) as [F [HF1 HF2]]; [rewrite skipn_length; lia|].
      exists (firstn n buf :: F). simpl. rewrite HF1, HF2, firstn_skipn, firstn_length. split; auto.
      f_equal. lia.
  Qed.
End Prims.

(* ---------------------------------------------------------------------- *)
Section Proofs.
  Variable A : Type.
  Notation cellmat := (list (list (list A))).

  (* -------------------------------------------------------------- *)
  (* validate() accepts canonical representations *)
  Lemma mk_mnt_canon : forall c (m : cellmat), rect c m ->
    mk_mnt A (length m) c (concat (concat m)) (0 :: cumsum (map (@length A) (concat m)))
    = Some (mnt_of_cells c m).
  Proof.
    intros c m H. unfold mk_mnt.
    rewrite offs_last, offs_length, map_length, <- sum_map_length_concat.
    rewrite (rect_concat_length c m H). rewrite !Nat.eqb_refl.
    replace (S (length m * c) =? length m * c + 1) with true by (symmetry; apply Nat.eqb_eq; lia).
    reflexivity.
  Qed.

  Lemma mk_met_canon : forall ws (m : cellmat),
    mk_met A (length m) (length ws) (MkT2 (map (@concat A) m) (sum ws)) (0 :: cumsum ws)
    = Some (met_of_cells ws m).
  Proof.
    intros. unfold mk_met. rewrite offs_length.
    replace (S (length ws) =? length ws + 1) with true by (symmetry; apply Nat.eqb_eq; lia).
    reflexivity.
  Qed.

  (* -------------------------------------------------------------- *)
  (* from_tensor_mat / from_tensor_list *)
  Lemma mnt_from_mat_canon : forall c (m : cellmat), rect c m -> m <> [] -> c <> 0 ->
    mnt_from_mat A m = Some (mnt_of_cells c m).
  Proof.
    intros c m H Hm Hc. destruct m as [|r0 m']; [congruence|].
    unfold mnt_from_mat. assert (Hr0 : length r0 = c) by (inversion H; assumption).
    rewrite Hr0.
    rewrite (forallb_Forall _ (fun r => length r = c)) by (auto; intros x Hx; apply Nat.eqb_eq; exact Hx).
    replace (c =? 0) with false by (symmetry; apply Nat.eqb_neq; assumption).
    apply mk_mnt_canon. assumption.
  Qed.

  Lemma mnt_from_mat_empty : mnt_from_mat A [] = None.
  Proof. reflexivity. Qed.

  Lemma mnt_from_mat_ragged : forall (m : cellmat), (forall c, ~ rect c m) -> mnt_from_mat A m = None.
  Proof.
    intros m H. destruct m as [|r0 m']; [reflexivity|]. unfold mnt_from_mat.
    destruct (forallb (fun r => length r =? length r0) (r0 :: m')) eqn:E; [|reflexivity].
    exfalso. apply (H (length r0)). unfold rect. rewrite forallb_forall in E.
    apply Forall_forall. intros x Hx. apply Nat.eqb_eq. apply E. assumption.
  Qed.

  Lemma mnt_from_mat_nocols : forall (m : cellmat), rect 0 m -> mnt_from_mat A m = None.
  Proof.
    intros m H. destruct m as [|r0 m']; [reflexivity|]. unfold mnt_from_mat.
    assert (Hr0 : length r0 = 0) by (inversion H; assumption). rewrite Hr0.
    destruct (forallb _ _); reflexivity.
  Qed.

  Lemma met_from_cells_canon : forall ws (m : cellmat), rect_w ws m -> m <> [] -> ws <> [] ->
    met_from_cells A m = Some (met_of_cells ws m).
  Proof.
    intros ws m H Hm Hws. destruct m as [|r0 m']; [congruence|].
    unfold met_from_cells. assert (Hr0 : map (@length A) r0 = ws) by (inversion H; assumption).
    rewrite Hr0. assert (Hl : length r0 = length ws) by (rewrite <- Hr0, map_length; reflexivity).
    replace (length r0 =? 0) with false
      by (symmetry; apply Nat.eqb_neq; rewrite Hl; destruct ws; simpl; congruence).
    rewrite (forallb_Forall _ (fun r => map (@length A) r = ws)); auto.
    - rewrite Hl. apply mk_met_canon.
    - intros r Hr. apply andb_true_iff. split.
      + rewrite <- Hr. clear. induction r as [|x r IH]; simpl; auto. rewrite Nat.eqb_refl. exact IH.
      + apply Nat.eqb_eq. rewrite Hl, <- Hr, map_length. reflexivity.
  Qed.

  Lemma met_from_cells_empty : met_from_cells A [] = None.
  Proof. reflexivity. Qed.

  (* -------------------------------------------------------------- *)
  (* reading the cells back: t[i, j] *)
  Lemma nth_error_offs : forall L k, k <= length L -> nth_error (0 :: cumsum L) k = Some (pre L k).
  Proof.
    intros L k H. rewrite offs_closed. rewrite nth_error_map.
    rewrite (nth_error_nth' _ 0) by (rewrite seq_length; lia). rewrite seq_nth by lia. reflexivity.
  Qed.

  Lemma tslice_concat_one : forall {B} (F : list (list B)) k, k < length F ->
    tslice (concat F) (pre (map (@length B) F) k) (pre (map (@length B) F) (S k)) = nth k F [].
  Proof.
    intros B F k H. rewrite tslice_concat by lia. rewrite (tslice_one F k []) by assumption.
    simpl. apply app_nil_r.
  Qed.

  Lemma mnt_get_value_canon : forall c (m : cellmat) i j, rect c m -> i < length m -> j < c ->
    mnt_get_value A (mnt_of_cells c m) i j = Some (nth j (nth i m []) []).
  Proof.
    intros c m i j H Hi Hj. unfold mnt_get_value, mnt_of_cells. cbn [nc offs vals].
    assert (Hlen : length (concat m) = length m * c) by (apply rect_concat_length; assumption).
    assert (Hk : i * c + j < length (concat m)) by (rewrite Hlen; nia).
    unfold tget. rewrite !nth_error_offs by (rewrite map_length; lia). cbn [obind].
    replace (i * c + j + 1) with (S (i * c + j)) by lia.
    rewrite tslice_concat_one by assumption. f_equal. symmetry. apply rect_cell; assumption.
  Qed.

  Lemma met_get_value_canon : forall ws (m : cellmat) i j, rect_w ws m -> i < length m -> j < length ws ->
    met_get_value A (met_of_cells ws m) i j = Some (nth j (nth i m []) []).
  Proof.
    intros ws m i j H Hi Hj. unfold met_get_value, met_of_cells. cbn [evals t2rows eoffs].
    unfold tget. rewrite nth_error_map. rewrite (nth_error_nth' m []) by assumption. cbn [option_map obind].
    rewrite !nth_error_offs by lia. cbn [obind].
    assert (Hr : map (@length A) (nth i m []) = ws).
    { unfold rect_w in H. rewrite Forall_forall in H. apply H. apply nth_In. assumption. }
    rewrite <- Hr. replace (j + 1) with (S j) by lia.
    rewrite tslice_concat_one; [reflexivity|]. rewrite <- (map_length (@length A)), Hr. assumption.
  Qed.

  (* -------------------------------------------------------------- *)
  (* MultiNestedTensor.cat, dim = 0 *)
  Variable junk_o : nat -> nat.
  Variable junk_v : nat -> A.

  Lemma offs_app_shift : forall L1 L2 acc,
    map (fun o => o + acc) (0 :: cumsum (L1 ++ L2)) =
    map (fun o => o + acc) (starts L1) ++ map (fun o => o + (acc + sum L1)) (0 :: cumsum L2).
  Proof.
    intros L1 L2 acc. rewrite (offs_starts (L1 ++ L2)), (offs_starts L2), starts_app, sum_app.
    rewrite !map_app, map_map. simpl. rewrite <- app_assoc. f_equal. f_equal.
    - apply map_ext. intros; lia.
    - f_equal. lia.
  Qed.

  Lemma removelast_offs : forall L, removelast (0 :: cumsum L) = starts L.
  Proof. intros. rewrite offs_starts. apply removelast_last. Qed.

  Lemma last_error_offs : forall L, last_error (0 :: cumsum L) = Some (sum L).
  Proof.
    intros. rewrite offs_starts. destruct (starts L) as [|x l] eqn:E; simpl; [reflexivity|].
    f_equal. apply (last_last l (sum L) x).
  Qed.

  Lemma mnt_cat0_offsets_canon : forall c (ms : list cellmat), ms <> [] ->
    forall pfx rest accum,
    length rest = S (length (concat (concat ms))) ->
    mnt_cat0_offsets A (map (mnt_of_cells c) ms) (pfx ++ rest) accum (length pfx) =
    Some (pfx ++ map (fun o => o + accum) (0 :: cumsum (map (@length A) (concat (concat ms))))).
  Proof.
    intros c ms. induction ms as [|m ms IH]; intros Hne pfx rest accum Hlen; [congruence|].
    destruct ms as [|m2 ms'].
    - change (map (mnt_of_cells c) [m]) with [mnt_of_cells c m].
      cbn [mnt_cat0_offsets offs mnt_of_cells]. cbn [concat] in *. rewrite app_nil_r in *.
      apply write_tail_seg. rewrite map_length, offs_length, map_length. assumption.
    - change (map (mnt_of_cells c) (m :: m2 :: ms')) with (mnt_of_cells c m :: map (mnt_of_cells c) (m2 :: ms')).
      cbn [mnt_cat0_offsets]. change (map (mnt_of_cells c) (m2 :: ms')) with
        (mnt_of_cells c m2 :: map (mnt_of_cells c) ms') at 1. cbv iota.
      change (mnt_of_cells c m2 :: map (mnt_of_cells c) ms') with (map (mnt_of_cells c) (m2 :: ms')).
      cbn [offs mnt_of_cells].
      rewrite removelast_offs, last_error_offs.
      set (L1 := map (@length A) (concat m)).
      set (R := concat (m2 :: ms')) in *.
      assert (Hcc : concat (concat (m :: m2 :: ms')) = concat m ++ concat R).
      { unfold R. cbn [concat]. rewrite concat_app. reflexivity. }
      rewrite Hcc in *. rewrite app_length in Hlen.
      assert (Hcut : exists old rest', rest = old ++ rest' /\ length old = length L1
                                       /\ length rest' = S (length (concat R))).
      { exists (firstn (length L1) rest), (skipn (length L1) rest).
        unfold L1. rewrite map_length, firstn_skipn, firstn_length, skipn_length. repeat split; lia. }
      destruct Hcut as [old [rest' [-> [Hold Hrest']]]].
      rewrite (write_at_seg (map (fun o => o + accum) (starts L1)) old pfx rest')
        by (rewrite map_length, starts_length; assumption).
      cbn [obind]. rewrite starts_length.
      replace (length pfx + length L1) with (length (pfx ++ map (fun o => o + accum) (starts L1)))
        by (rewrite app_length, map_length, starts_length; reflexivity).
      rewrite app_assoc.
      rewrite IH by (try discriminate; assumption).
      rewrite map_app, offs_app_shift. fold L1. rewrite <- app_assoc.
      unfold L1. rewrite <- sum_map_length_concat. fold R. reflexivity.
  Qed.

  Lemma rect_concat : forall c (ms : list cellmat), Forall (rect c) ms -> rect c (concat ms).
  Proof. intros. apply Forall_concat. assumption. Qed.

  Lemma forallb_map_true : forall {B C} (f : C -> bool) (g : B -> C) (l : list B),
    (forall x, f (g x) = true) -> forallb f (map g l) = true.
  Proof. intros B C f g l H. induction l; simpl; auto. rewrite H, IHl. reflexivity. Qed.

  Lemma concat3_map : forall (ms : list cellmat),
    concat (map (fun m => concat (concat m)) ms) = concat (concat (concat ms)).
  Proof.
    induction ms as [|m ms IH]; simpl; auto. rewrite !concat_app, IH. reflexivity.
  Qed.

  Lemma map_add0 : forall l, map (fun o => o + 0) l = l.
  Proof. intros. rewrite <- (map_id l) at 2. apply map_ext. intros; lia. Qed.

  Lemma mnt_cat0_canon : forall c (ms : list cellmat), Forall (rect c) ms -> ms <> [] ->
    mnt_cat0 A junk_o (map (mnt_of_cells c) ms) = Some (mnt_of_cells c (concat ms)).
  Proof.
    intros c ms H Hne.
    assert (Hr : rect c (concat ms)) by (apply rect_concat; assumption).
    assert (Hoff := mnt_cat0_offsets_canon c ms Hne [] (empty_buf junk_o (length (concat ms) * c + 1)) 0).
    rewrite map_add0 in Hoff. simpl app in Hoff. simpl length in Hoff.
    unfold mnt_cat0. destruct ms as [|m0 ms']; [congruence|].
    remember (m0 :: ms') as ms eqn:Ems.
    rewrite Ems at 1. cbn [map].
    cbn [nc mnt_of_cells].
    rewrite (forallb_map_true (fun x => nc x =? c) (mnt_of_cells c)) by (intros; simpl; apply Nat.eqb_refl).
    rewrite !map_map. cbn [nr vals mnt_of_cells].
    unfold RaggedSpec.cellmat in *.
    change (fun x : list (list (list A)) => length x) with (@length (list (list A))).
    rewrite <- sum_map_length_concat, concat3_map.
    rewrite Hoff.
    - cbn [obind]. apply mk_mnt_canon. assumption.
    - unfold empty_buf. rewrite map_length, seq_length. rewrite (rect_concat_length c _ Hr). lia.
  Qed.

  (* -------------------------------------------------------------- *)
  (* MultiEmbeddingTensor.cat *)
  Lemma sum_concat : forall (l : list (list nat)), sum (concat l) = sum (map sum l).
  Proof. induction l as [|x l IH]; simpl; auto. rewrite sum_app, IH. reflexivity. Qed.

  Lemma length_concat_sum : forall {B} (l : list (list B)), length (concat l) = sum (map (@length B) l).
  Proof. intros. apply sum_map_length_concat. Qed.

  Lemma list_eqb_nat_refl : forall l : list nat, list_eqb Nat.eqb l l = true.
  Proof. induction l as [|x l IH]; simpl; auto. rewrite Nat.eqb_refl, IH. reflexivity. Qed.

  Lemma list_eqb_nat_eq : forall a b : list nat, list_eqb Nat.eqb a b = true -> a = b.
  Proof.
    induction a as [|x a IH]; intros [|y b] H; simpl in H; try discriminate; auto.
    apply andb_true_iff in H. destruct H as [H1 H2]. apply Nat.eqb_eq in H1. f_equal; auto.
  Qed.

  Lemma met_cat0_canon : forall ws (ms : list cellmat), ms <> [] ->
    met_cat0 A (map (met_of_cells ws) ms) = Some (met_of_cells ws (concat ms)).
  Proof.
    intros ws ms Hne. destruct ms as [|m0 [|m1 ms']]; [congruence| |].
    - simpl. rewrite app_nil_r. reflexivity.
    - remember (m0 :: m1 :: ms') as ms eqn:Ems.
      unfold met_cat0. rewrite Ems at 1. cbn [map]. cbv iota. cbn [ec met_of_cells].
      replace (met_of_cells ws m1 :: map (met_of_cells ws) ms') with (map (met_of_cells ws) (m1 :: ms')) by reflexivity.
      cbn [eoffs].
      rewrite (forallb_map_true (fun x => (ec x =? length ws) && list_eqb Nat.eqb (eoffs x) (0 :: cumsum ws))
                                (met_of_cells ws))
        by (intros; cbn [ec eoffs met_of_cells]; rewrite Nat.eqb_refl, list_eqb_nat_refl; reflexivity).
      unfold t2_cat0. rewrite Ems at 1. cbn [map]. cbn [evals met_of_cells t2w].
      replace (MkT2 (map (@concat A) m1) (sum ws) :: map (@evals A) (map (met_of_cells ws) ms'))
        with (map (fun m => MkT2 (map (@concat A) m) (sum ws)) (m1 :: ms'))
        by (simpl; rewrite map_map; reflexivity).
      rewrite (forallb_map_true (fun v => t2w v =? sum ws)) by (intros; simpl; apply Nat.eqb_refl).
      cbn [obind]. rewrite !map_map. cbn [evals met_of_cells t2rows er eoffs].
      unfold RaggedSpec.cellmat in *.
      change (fun x : list (list (list A)) => length x) with (@length (list (list A))).
      rewrite <- sum_map_length_concat. rewrite <- concat_map.
      apply mk_met_canon.
  Qed.

  Lemma cumsum_from_shift : forall l a, cumsum_from a l = map (fun x => x + a) (cumsum_from 0 l).
  Proof.
    intros l a. rewrite !cumsum_from_spec, map_map. apply map_ext. intros; lia.
  Qed.

  Lemma cumsum_from_app : forall l1 l2 a,
    cumsum_from a (l1 ++ l2) = cumsum_from a l1 ++ cumsum_from (a + sum l1) l2.
  Proof.
    induction l1 as [|x l1 IH]; intros l2 a; simpl.
    - rewrite Nat.add_0_r. reflexivity.
    - rewrite IH. do 3 f_equal. lia.
  Qed.

  Lemma cumsum_app : forall l1 l2, cumsum (l1 ++ l2) = cumsum l1 ++ map (fun x => x + sum l1) (cumsum l2).
  Proof.
    intros l1 l2. unfold cumsum. rewrite cumsum_from_app. simpl. f_equal. apply cumsum_from_shift.
  Qed.

  Definition met_of_pair (p : list nat * cellmat) : met A := met_of_cells (fst p) (snd p).

  Lemma met_cat1_offsets_canon : forall (ps : list (list nat * cellmat)) W,
    met_cat1_offsets A (map met_of_pair ps) (0 :: cumsum W) = Some (0 :: cumsum (W ++ concat (map fst ps))).
  Proof.
    induction ps as [|[ws m] ps IH]; intros W.
    - simpl. rewrite app_nil_r. reflexivity.
    - cbn [map met_cat1_offsets]. rewrite last_error_offs. cbn [obind].
      change (met_of_pair (ws, m)) with (met_of_cells ws m). cbn [eoffs met_of_cells tl].
      replace ((0 :: cumsum W) ++ map (fun o => o + sum W) (cumsum ws)) with (0 :: cumsum (W ++ ws))
        by (rewrite cumsum_app; reflexivity).
      rewrite IH. cbn [concat fst]. rewrite app_assoc. reflexivity.
  Qed.

  Lemma hcat_single : forall (m : cellmat), hcat (length m) [m] = m.
  Proof.
    intros m. unfold hcat. simpl.
    transitivity (map (fun r => nth r m []) (seq 0 (length m))).
    - apply map_ext. intros. apply app_nil_r.
    - symmetry. apply map_nth_seq.
  Qed.

  Lemma forallb_map_Forall : forall {B C} (f : C -> bool) (g : B -> C) (l : list B),
    Forall (fun x => f (g x) = true) l -> forallb f (map g l) = true.
  Proof. intros B C f g l H. induction H; simpl; auto. rewrite H, IHForall. reflexivity. Qed.

  Lemma nth_map_concat : forall {B} (m : list (list (list B))) r,
    nth r (map (@concat B) m) [] = concat (nth r m []).
  Proof. intros. change (@nil B) with (concat (@nil (list B))) at 1. apply map_nth. Qed.

  Lemma met_cat1_canon : forall n (ps : list (list nat * cellmat)), ps <> [] ->
    Forall (fun p => length (snd p) = n) ps ->
    met_cat1 A (map met_of_pair ps) = Some (met_of_cells (concat (map fst ps)) (hcat n (map snd ps))).
  Proof.
    intros n ps Hne Hn. destruct ps as [|p0 [|p1 ps']]; [congruence| |].
    - destruct p0 as [ws m]. inversion Hn; subst. simpl in *.
      rewrite app_nil_r. subst. rewrite hcat_single. reflexivity.
    - remember (p0 :: p1 :: ps') as ps eqn:Ems.
      assert (Hn0 : length (snd p0) = n) by (rewrite Ems in Hn; inversion Hn; assumption).
      assert (Hn' : Forall (fun p => length (snd p) = n) (p1 :: ps')) by (rewrite Ems in Hn; inversion Hn; assumption).
      assert (Hoff := met_cat1_offsets_canon ps []). simpl app in Hoff.
      unfold met_cat1. rewrite Ems at 1. cbn [map]. cbv iota.
      replace (met_of_pair p1 :: map met_of_pair ps') with (map met_of_pair (p1 :: ps')) by reflexivity.
      replace (met_of_pair p0 :: map met_of_pair (p1 :: ps')) with (map met_of_pair ps) by (rewrite Ems; reflexivity).
      change (er (met_of_pair p0)) with (length (snd p0)). rewrite Hn0.
      rewrite forallb_map_Forall.
      2: { eapply Forall_impl; [|exact Hn']. intros p Hp. apply Nat.eqb_eq. exact Hp. }
      change [0] with (0 :: cumsum []). rewrite Hoff.
      (* values *)
      unfold t2_cat1. rewrite Ems at 1. cbn [map].
      change (t2rows (evals (met_of_pair p0))) with (map (@concat A) (snd p0)). rewrite map_length, Hn0.
      replace (evals (met_of_pair p1) :: map (@evals A) (map met_of_pair ps'))
        with (map (fun p => evals (met_of_pair p)) (p1 :: ps'))
        by (simpl; rewrite map_map; reflexivity).
      rewrite forallb_map_Forall.
      2: { eapply Forall_impl; [|exact Hn']. intros p Hp. apply Nat.eqb_eq.
           change (t2rows (evals (met_of_pair p))) with (map (@concat A) (snd p)). rewrite map_length. exact Hp. }
      cbn [obind].
      rewrite <- (mk_met_canon (concat (map fst ps)) (hcat n (map snd ps))).
      unfold hcat at 1. rewrite map_length, seq_length.
      f_equal.
      + rewrite !map_map. cbn [ec met_of_pair met_of_cells]. rewrite length_concat_sum, map_map. reflexivity.
      + f_equal.
        * unfold hcat. rewrite (map_map _ (@concat A)). apply map_ext. intros r.
          rewrite <- concat_concat_map. rewrite !map_map. f_equal. apply map_ext. intros p.
          change (t2rows (evals (met_of_pair p))) with (map (@concat A) (snd p)). apply nth_map_concat.
        * rewrite sum_concat, !map_map. reflexivity.
  Qed.

  (* -------------------------------------------------------------- *)
  (* rejections *)
  Lemma mnt_cat0_mismatch : forall x0 rest x, In x rest -> nc x <> nc x0 ->
    mnt_cat0 A junk_o (x0 :: rest) = None.
  Proof.
    intros x0 rest x Hin Hx. unfold mnt_cat0.
    rewrite (forallb_exists_false _ rest x Hin); [reflexivity|]. apply Nat.eqb_neq. assumption.
  Qed.

  Lemma mnt_cat1_mismatch : forall x0 rest x, In x rest -> nr x <> nr x0 ->
    mnt_cat1 A junk_o junk_v (x0 :: rest) = None.
  Proof.
    intros x0 rest x Hin Hx. unfold mnt_cat1.
    rewrite (forallb_exists_false _ rest x Hin); [reflexivity|]. apply Nat.eqb_neq. assumption.
  Qed.

  Lemma met_cat0_mismatch : forall x0 rest x, In x rest -> ec x <> ec x0 -> met_cat0 A (x0 :: rest) = None.
  Proof.
    intros x0 rest x Hin Hx. unfold met_cat0. destruct rest as [|x1 rest']; [contradiction|].
    rewrite (forallb_exists_false _ (x1 :: rest') x Hin); [reflexivity|].
    apply andb_false_iff. left. apply Nat.eqb_neq. assumption.
  Qed.

  (* equal num_cols is not enough: every part must cut its columns where the first does *)
  Lemma met_cat0_offset_mismatch : forall x0 rest x, In x rest -> eoffs x <> eoffs x0 ->
    met_cat0 A (x0 :: rest) = None.
  Proof.
    intros x0 rest x Hin Hx. unfold met_cat0. destruct rest as [|x1 rest']; [contradiction|].
    rewrite (forallb_exists_false _ (x1 :: rest') x Hin); [reflexivity|].
    apply andb_false_iff. right. destruct (list_eqb Nat.eqb (eoffs x) (eoffs x0)) eqn:E; [|reflexivity].
    exfalso. apply Hx. apply list_eqb_nat_eq. exact E.
  Qed.

  Lemma offs_inj : forall ws ws' : list nat, 0 :: cumsum ws = 0 :: cumsum ws' -> ws = ws'.
  Proof.
    intros ws ws' H. rewrite <- (diffs_of_offs ws), <- (diffs_of_offs ws'), H. reflexivity.
  Qed.

  Lemma met_cat0_width_mismatch : forall ws ws' (m m' : cellmat) before after, ws' <> ws ->
    met_cat0 A (met_of_cells ws m :: before ++ met_of_cells ws' m' :: after) = None.
  Proof.
    intros ws ws' m m' before after Hne.
    apply (met_cat0_offset_mismatch _ _ (met_of_cells ws' m')).
    - apply in_or_app. right. left. reflexivity.
    - cbn [eoffs met_of_cells]. intro E. apply Hne. apply offs_inj. exact E.
  Qed.

  Lemma met_cat1_mismatch : forall x0 rest x, In x rest -> er x <> er x0 -> met_cat1 A (x0 :: rest) = None.
  Proof.
    intros x0 rest x Hin Hx. unfold met_cat1. destruct rest as [|x1 rest']; [contradiction|].
    rewrite (forallb_exists_false _ (x1 :: rest') x Hin); [reflexivity|]. apply Nat.eqb_neq. assumption.
  Qed.

  (* -------------------------------------------------------------- *)
  (* clone *)
  Lemma mnt_clone_canon : forall c (m : cellmat), rect c m ->
    mnt_clone A (mnt_of_cells c m) = Some (mnt_of_cells c m).
  Proof. intros. unfold mnt_clone. cbn [nr nc vals offs mnt_of_cells]. apply mk_mnt_canon. assumption. Qed.

  Lemma met_clone_canon : forall ws (m : cellmat),
    met_clone A (met_of_cells ws m) = Some (met_of_cells ws m).
  Proof. intros. unfold met_clone. cbn [er ec evals eoffs met_of_cells]. apply mk_met_canon. Qed.

  (* -------------------------------------------------------------- *)
  (* MultiEmbeddingTensor.fillna_col *)
  Lemma skipn_nth_cons : forall {B} (l : list B) j d, j < length l -> skipn j l = nth j l d :: skipn (S j) l.
  Proof.
    intros B l; induction l as [|x l IH]; intros j d H; simpl in H; [lia|].
    destruct j; [reflexivity|]. simpl. apply IH. lia.
  Qed.

  Lemma met_fillna_col_canon : forall is_na fill ws (m : cellmat) j, rect_w ws m -> j < length ws ->
    met_fillna_col A is_na (met_of_cells ws m) j fill = Some (met_of_cells ws (fill_cells is_na fill j m)).
  Proof.
    intros is_na fill ws m j H Hj. unfold met_fillna_col, met_of_cells. cbn [eoffs evals t2rows t2w er ec].
    rewrite !tget_offs by lia. cbn [obind]. unfold fill_cells. rewrite map_length. do 3 f_equal.
    rewrite !map_map. apply map_ext_in. intros row Hrow.
    assert (Hr : map (@length A) row = ws) by (unfold rect_w in H; rewrite Forall_forall in H; auto).
    assert (Hl : length row = length ws) by (rewrite <- Hr, map_length; reflexivity).
    rewrite <- Hr. replace (j + 1) with (S j) by lia.
    rewrite firstn_concat, tslice_concat_one by lia.
    replace (Nat.max (pre (map (@length A) row) j) (pre (map (@length A) row) (S j)))
      with (pre (map (@length A) row) (S j)) by (pose proof (pre_mono (map (@length A) row) j (S j)); lia).
    rewrite skipn_concat. unfold upd_nth. rewrite (skipn_nth_cons row j []) by lia.
    rewrite concat_app. reflexivity.
  Qed.

  (* -------------------------------------------------------------- *)
  (* _cat_tensor_data *)
  Lemma cat_tensor_data_nil : forall d, cat_tensor_data A junk_o junk_v [] d = None.
  Proof. reflexivity. Qed.
  Lemma cat_tensor_data_single : forall x d, cat_tensor_data A junk_o junk_v [x] d = Some x.
  Proof. reflexivity. Qed.

  Lemma mapM_as_mnt : forall ts : list (mnt A), mapM (as_mnt A) (map TMnt ts) = Some ts.
  Proof. induction ts as [|t ts IH]; simpl; auto. rewrite IH. reflexivity. Qed.
  Lemma mapM_as_met : forall ts : list (met A), mapM (as_met A) (map TMet ts) = Some ts.
  Proof. induction ts as [|t ts IH]; simpl; auto. rewrite IH. reflexivity. Qed.

  Lemma cat_tensor_data_mnt : forall t0 t1 ts d,
    cat_tensor_data A junk_o junk_v (map TMnt (t0 :: t1 :: ts)) d =
    option_map TMnt (mnt_cat A junk_o junk_v (t0 :: t1 :: ts) d).
  Proof.
    intros. unfold cat_tensor_data. cbn [map]. cbv iota.
    change (TMnt t0 :: TMnt t1 :: map TMnt ts) with (map (@TMnt A) (t0 :: t1 :: ts)).
    rewrite mapM_as_mnt. reflexivity.
  Qed.
  Lemma cat_tensor_data_met : forall t0 t1 ts d,
    cat_tensor_data A junk_o junk_v (map TMet (t0 :: t1 :: ts)) d =
    option_map TMet (met_cat A (t0 :: t1 :: ts) d).
  Proof.
    intros. unfold cat_tensor_data. cbn [map]. cbv iota.
    change (TMet t0 :: TMet t1 :: map TMet ts) with (map (@TMet A) (t0 :: t1 :: ts)).
    rewrite mapM_as_met. reflexivity.
  Qed.

  (* -------------------------------------------------------------- *)
  (* scattering whole cells: windows of a flat list of cells *)
  Lemma split3 : forall {B} (F : list B) a w,
    F = firstn a F ++ tslice F a (a + w) ++ skipn (a + w) F.
  Proof.
    intros B F a w. unfold tslice. replace (a + w - a) with w by lia.
    rewrite <- (skipn_skipn' F w a), firstn_skipn, firstn_skipn. reflexivity.
  Qed.

  Lemma scatter_app' : forall (i1 i2 : list nat) (s1 s2 : list A) buf b,
    scatter buf i1 s1 = Some b -> scatter buf (i1 ++ i2) (s1 ++ s2) = scatter b i2 s2.
  Proof.
    induction i1 as [|i i1 IH]; intros i2 s1 s2 buf b H; destruct s1 as [|v s1]; simpl in *; try discriminate.
    - injection H as <-. reflexivity.
    - destruct (i <? length buf); [|discriminate]. apply IH. assumption.
  Qed.

  Lemma scatter_window : forall (F new : list (list A)) a w,
    a + w <= length F -> map (@length A) new = map (@length A) (tslice F a (a + w)) ->
    scatter (concat F) (seq (pre (map (@length A) F) a)
                            (pre (map (@length A) F) (a + w) - pre (map (@length A) F) a)) (concat new)
    = Some (concat (firstn a F ++ new ++ skipn (a + w) F))
    /\ map (@length A) (firstn a F ++ new ++ skipn (a + w) F) = map (@length A) F.
  Proof.
    intros F new a w Haw Hnew. split.
    - assert (Hcnt : pre (map (@length A) F) (a + w) - pre (map (@length A) F) a = length (concat new)).
      { rewrite (sum_map_length_concat new), Hnew, <- sum_map_length_concat.
        rewrite <- tslice_concat by lia. rewrite tslice_length by apply pre_le_length. reflexivity. }
      rewrite Hcnt. rewrite pre_map_length.
      rewrite (split3 F a w) at 1. rewrite !concat_app.
      rewrite scatter_seq.
      + reflexivity.
      + rewrite !sum_map_length_concat, Hnew. reflexivity.
    - rewrite !map_app, Hnew, <- !map_app, <- split3. reflexivity.
  Qed.

  (* rows of a rectangular matrix inside its flattening *)
  Notation rows_of := (@rectl (list A)).

  Lemma rows_split : forall C M r, rows_of C M -> r < length M ->
    concat M = concat (firstn r M) ++ nth r M [] ++ concat (skipn (S r) M)
    /\ length (concat (firstn r M)) = r * C /\ length (nth r M []) = C.
  Proof.
    intros C M r H Hr. split; [|split].
    - rewrite <- (firstn_skipn r M) at 1. rewrite concat_app, (skipn_nth_cons M r []) by assumption. reflexivity.
    - assert (Hf : rectl C (firstn r M)).
      { unfold rectl, rows_of in *. rewrite Forall_forall in *. intros x Hx. apply H. eapply In_firstn. exact Hx. }
      rewrite (rect_concat_length C _ Hf), firstn_length. f_equal. lia.
    - unfold rows_of in H. rewrite Forall_forall in H. apply H. apply nth_In. assumption.
  Qed.

  Lemma rect_window : forall C M r c0 c (new : list (list A)), rows_of C M -> r < length M -> c0 + c <= C ->
    firstn (r * C + c0) (concat M) ++ new ++ skipn (r * C + c0 + c) (concat M) =
      concat (set_nth M r (firstn c0 (nth r M []) ++ new ++ skipn (c0 + c) (nth r M [])))
    /\ tslice (concat M) (r * C + c0) (r * C + c0 + c) = tslice (nth r M []) c0 (c0 + c).
  Proof.
    intros C M r c0 c new H Hr Hc. destruct (rows_split C M r H Hr) as [E [HX HR]].
    set (X := concat (firstn r M)) in *. set (R := nth r M []) in *. set (Y := concat (skipn (S r) M)) in *.
    assert (F1 : firstn (r * C + c0) (X ++ R ++ Y) = X ++ firstn c0 R).
    { rewrite firstn_app, firstn_all2 by lia. f_equal. rewrite HX.
      replace (r * C + c0 - r * C) with c0 by lia. rewrite firstn_app.
      replace (c0 - length R) with 0 by lia. simpl. apply app_nil_r. }
    assert (F2 : forall k, C <= c0 + k -> skipn (r * C + c0 + k) (X ++ R ++ Y) = skipn (c0 + k) R ++ skipn (c0 + k - C) Y).
    { intros k Hk. rewrite skipn_app, skipn_all2 by lia. simpl. rewrite HX.
      replace (r * C + c0 + k - r * C) with (c0 + k) by lia. rewrite skipn_app, HR. reflexivity. }
    assert (F3 : skipn (r * C + c0) (X ++ R ++ Y) = skipn c0 R ++ Y).
    { rewrite skipn_app, skipn_all2 by lia. simpl. rewrite HX.
      replace (r * C + c0 - r * C) with c0 by lia. rewrite skipn_app, HR.
      replace (c0 - C) with 0 by lia. reflexivity. }
    split.
    - rewrite E, F1. unfold set_nth. rewrite concat_app. cbn [concat]. fold X Y.
      rewrite <- !app_assoc. f_equal. f_equal. f_equal.
      rewrite skipn_app, skipn_all2 by lia. simpl. rewrite HX.
      replace (r * C + c0 + c - r * C) with (c0 + c) by lia. rewrite skipn_app, HR.
      replace (c0 + c - C) with 0 by lia. reflexivity.
    - rewrite E. unfold tslice. rewrite F3.
      replace (r * C + c0 + c - (r * C + c0)) with c by lia. replace (c0 + c - c0) with c by lia.
      rewrite firstn_app, skipn_length, HR. replace (c - (C - c0)) with 0 by lia. simpl. apply app_nil_r.
  Qed.

  Lemma set_nth_map_seq : forall {B} (g : nat -> B) n k v, k < n ->
    set_nth (map g (seq 0 n)) k v = map (fun r => if r =? k then v else g r) (seq 0 n).
  Proof.
    intros B g n k v H. unfold set_nth.
    rewrite firstn_map, skipn_map, firstn_seq', skipn_seq' by lia.
    assert (E : seq 0 n = seq 0 k ++ k :: seq (S k) (n - S k)).
    { replace n with (k + S (n - S k)) at 1 by lia. rewrite seq_app. reflexivity. }
    rewrite E. rewrite map_app. cbn [map]. rewrite Nat.eqb_refl. f_equal; [|f_equal].
    - apply map_ext_in. intros r Hr. apply in_seq in Hr.
      replace (r =? k) with false by (symmetry; apply Nat.eqb_neq; lia). reflexivity.
    - replace (0 + S k) with (S k) by lia. apply map_ext_in. intros r Hr. apply in_seq in Hr.
      replace (r =? k) with false by (symmetry; apply Nat.eqb_neq; lia). reflexivity.
  Qed.

  Lemma nth_map_seq : forall {B} (g : nat -> B) n k d, k < n -> nth k (map g (seq 0 n)) d = g k.
  Proof.
    intros B g n k d H. rewrite (nth_indep _ d (g 0)) by (rewrite map_length, seq_length; assumption).
    rewrite map_nth, seq_nth by assumption. reflexivity.
  Qed.

  (* the first k rows of M have their window [c0, c0+c) replaced by new r *)
  Definition upd_rows (M : list (list (list A))) (c0 c : nat) (new : nat -> list (list A)) (k : nat) :=
    map (fun r => if r <? k then firstn c0 (nth r M []) ++ new r ++ skipn (c0 + c) (nth r M []) else nth r M [])
        (seq 0 (length M)).

  Lemma upd_rows_0 : forall M c0 c new, upd_rows M c0 c new 0 = M.
  Proof. intros. unfold upd_rows. simpl. symmetry. apply map_nth_seq. Qed.

  Lemma upd_rows_rect : forall C M c0 c new k, rows_of C M -> c0 + c <= C ->
    (forall r, r < length M -> length (new r) = c) -> rows_of C (upd_rows M c0 c new k).
  Proof.
    intros C M c0 c new k H Hc Hn. unfold rectl, upd_rows. apply Forall_forall. intros row Hrow.
    apply in_map_iff in Hrow. destruct Hrow as [r [<- Hr]]. apply in_seq in Hr.
    assert (HR : length (nth r M []) = C) by (apply rect_row_length; [assumption|lia]).
    destruct (r <? k); [|assumption].
    rewrite !app_length, firstn_length, skipn_length, Hn, HR by lia. lia.
  Qed.

  Lemma scatter_col_windows : forall C (M : list (list (list A))) c0 c (new : nat -> list (list A)) L,
    rows_of C M -> c0 + c <= C -> map (@length A) (concat M) = L ->
    (forall r, r < length M -> map (@length A) (new r) = map (@length A) (tslice (nth r M []) c0 (c0 + c))) ->
    forall k, k <= length M ->
    scatter (concat (concat M))
            (flat_map (fun r => seq (pre L (r * C + c0)) (pre L (r * C + c0 + c) - pre L (r * C + c0))) (seq 0 k))
            (concat (flat_map new (seq 0 k)))
    = Some (concat (concat (upd_rows M c0 c new k)))
    /\ map (@length A) (concat (upd_rows M c0 c new k)) = L.
  Proof.
    intros C M c0 c new L HM Hc HL Hnew.
    assert (Hlen : forall r, r < length M -> length (new r) = c).
    { intros r Hr. rewrite <- (map_length (@length A)), (Hnew r Hr), map_length, tslice_length; [lia|].
      rewrite (rect_row_length C M r HM Hr). lia. }
    induction k as [|k IH]; intros Hk.
    - simpl. rewrite upd_rows_0. auto.
    - destruct (IH ltac:(lia)) as [E1 E2]. clear IH.
      set (Mk := upd_rows M c0 c new k) in *.
      assert (HMk : rows_of C Mk) by (apply upd_rows_rect; assumption).
      assert (HlMk : length Mk = length M) by (unfold Mk, upd_rows; rewrite map_length, seq_length; reflexivity).
      assert (Hrow : nth k Mk [] = nth k M []).
      { unfold Mk, upd_rows. rewrite nth_map_seq by lia. rewrite Nat.ltb_irrefl. reflexivity. }
      destruct (rect_window C Mk k c0 c (new k) HMk ltac:(lia) Hc) as [W1 W2]. rewrite Hrow in W1, W2.
      destruct (scatter_window (concat Mk) (new k) (k * C + c0) c) as [S1 S2].
      { rewrite (rect_concat_length C Mk HMk), HlMk. nia. }
      { rewrite W2. apply Hnew. lia. }
      rewrite E2 in S1, S2.
      assert (Hnext : set_nth Mk k (firstn c0 (nth k M []) ++ new k ++ skipn (c0 + c) (nth k M []))
                      = upd_rows M c0 c new (S k)).
      { unfold Mk, upd_rows. rewrite set_nth_map_seq by lia. apply map_ext_in. intros r Hr. apply in_seq in Hr.
        destruct (Nat.eq_dec r k) as [->|Hne].
        - rewrite Nat.eqb_refl. replace (k <? S k) with true by (symmetry; apply Nat.ltb_lt; lia). reflexivity.
        - replace (r =? k) with false by (symmetry; apply Nat.eqb_neq; assumption).
          destruct (r <? k) eqn:E.
          + apply Nat.ltb_lt in E. replace (r <? S k) with true by (symmetry; apply Nat.ltb_lt; lia). reflexivity.
          + apply Nat.ltb_ge in E. replace (r <? S k) with false by (symmetry; apply Nat.ltb_ge; lia). reflexivity. }
      rewrite seq_S, !flat_map_app, concat_app. cbn [flat_map]. rewrite !app_nil_r. simpl Nat.add.
      rewrite (scatter_app' _ _ _ _ _ _ E1). rewrite S1, W1, Hnext. split; [reflexivity|].
      rewrite <- Hnext, <- W1. exact S2.
  Qed.

  (* -------------------------------------------------------------- *)
  (* MultiNestedTensor.cat, dim = 1 *)
  Definition mnt_of_pair (p : nat * cellmat) : mnt A := mnt_of_cells (fst p) (snd p).
  (* a part: n rows of (fst p) cells *)
  Definition part_ok (n : nat) (p : nat * cellmat) : Prop := rect (fst p) (snd p) /\ length (snd p) = n.
  (* row r of the parts side by side *)
  Definition hrow (ps : list (nat * cellmat)) (r : nat) : list (list A) := concat (map (fun p => nth r (snd p) []) ps).

  Lemma hcat_hrow : forall n ps, hcat n (map snd ps) = map (hrow ps) (seq 0 n).
  Proof. intros. unfold hcat, hrow. apply map_ext. intros r. rewrite map_map. reflexivity. Qed.

  Lemma part_row_length : forall n p r, part_ok n p -> r < n -> length (nth r (snd p) []) = fst p.
  Proof. intros n p r [H1 H2] Hr. apply (rect_row_length (fst p)); [exact H1|lia]. Qed.

  Lemma hrow_length : forall n ps r, Forall (part_ok n) ps -> r < n -> length (hrow ps r) = sum (map fst ps).
  Proof.
    intros n ps r H Hr. unfold hrow. induction H as [|p ps Hp Hps IH]; simpl; auto.
    rewrite app_length, IH, (part_row_length n p r Hp Hr). reflexivity.
  Qed.

  Lemma chunk_rows_concat : forall {B} c (m : list (list B)), rectl c m -> chunk_rows (length m) c (concat m) = m.
  Proof.
    intros B c m H. induction H as [|x m Hx Hm IH]; simpl; auto.
    rewrite firstn_app, skipn_app, firstn_all2, skipn_all2 by lia.
    replace (c - length x) with 0 by lia. simpl. rewrite app_nil_r, IH. reflexivity.
  Qed.

  Lemma chunk_rows_map : forall {B D} (f : B -> D) n c (l : list B),
    chunk_rows n c (map f l) = map (map f) (chunk_rows n c l).
  Proof.
    intros B D f n c. induction n as [|n IH]; intros l; simpl; auto.
    rewrite firstn_map, skipn_map, IH. reflexivity.
  Qed.

  Lemma mnt_cat1_lengths_canon : forall n (ps : list (nat * cellmat)), Forall (part_ok n) ps ->
    forall (P J : nat -> list nat) c0,
    (forall r, r < n -> length (P r) = c0) ->
    (forall r, r < n -> length (J r) = sum (map fst ps)) ->
    mnt_cat1_lengths A (map mnt_of_pair ps) (map (fun r => P r ++ J r) (seq 0 n)) c0 =
    Some (map (fun r => P r ++ map (@length A) (hrow ps r)) (seq 0 n)).
  Proof.
    intros n ps H. induction H as [|[c m] ps Hp Hps IH]; intros P J c0 HP HJ.
    - simpl. f_equal. apply map_ext_in. intros r Hr. apply in_seq in Hr.
      specialize (HJ r ltac:(lia)). simpl in HJ. destruct (J r); [reflexivity|discriminate].
    - cbn [map mnt_cat1_lengths]. change (mnt_of_pair (c, m)) with (mnt_of_cells c m).
      destruct Hp as [Hrect Hlen]. cbn [fst snd] in Hrect, Hlen.
      cbn [offs nr nc mnt_of_cells]. unfold diffs. rewrite diffs_of_offs.
      unfold reshape. rewrite map_length, (rect_concat_length c m Hrect), Nat.eqb_refl. cbn [obind].
      rewrite chunk_rows_map, chunk_rows_concat by exact Hrect.
      unfold write_block. rewrite !map_length, seq_length, Hlen, Nat.eqb_refl.
      rewrite (map_nth_seq m []) at 1. rewrite Hlen, map_map, combine_map_same, mapM_map.
      rewrite (mapM_Some_map _ (fun r => (P r ++ map (@length A) (nth r m [])) ++ skipn c (J r))).
      2: { intros r Hr. apply in_seq in Hr. cbn [fst snd].
           assert (Hl : length (map (@length A) (nth r m [])) = c).
           { rewrite map_length. apply (rect_row_length c m r Hrect). lia. }
           rewrite <- (firstn_skipn c (J r)) at 1. rewrite <- (HP r) by lia.
           rewrite write_at_seg.
           - rewrite <- app_assoc. reflexivity.
           - rewrite firstn_length, Hl. specialize (HJ r ltac:(lia)). simpl in HJ. lia. }
      cbn [obind].
      rewrite (IH (fun r => P r ++ map (@length A) (nth r m [])) (fun r => skipn c (J r)) (c0 + c)).
      + f_equal. apply map_ext. intros r. unfold hrow. cbn [map concat snd].
        rewrite map_app, <- app_assoc. reflexivity.
      + intros r Hr. rewrite app_length, map_length, (HP r Hr), (rect_row_length c m r Hrect) by lia. reflexivity.
      + intros r Hr. rewrite skipn_length, (HJ r Hr). simpl. lia.
  Qed.

  (* one iteration of the values loop: the part (c, m) lands in the cell window [c0, c0 + c) of every row *)
  Lemma mnt_cat1_values_step : forall n C L (M : list (list (list A))) c0 c (m : cellmat) rest,
    rows_of C M -> length M = n -> map (@length A) (concat M) = L ->
    rect c m -> length m = n -> c0 + c <= C ->
    (forall r, r < n -> map (@length A) (nth r m []) = map (@length A) (tslice (nth r M []) c0 (c0 + c))) ->
    mnt_cat1_values A (mnt_of_cells c m :: rest) n C (0 :: cumsum L) (concat (concat M)) c0 =
    mnt_cat1_values A rest n C (0 :: cumsum L)
      (concat (concat (upd_rows M c0 c (fun r => nth r m []) n))) (c0 + c)
    /\ map (@length A) (concat (upd_rows M c0 c (fun r => nth r m []) n)) = L.
  Proof.
    intros n C L M c0 c m rest HM HlM HL Hrect Hlm Hc Hwin.
    assert (HlL : length L = n * C).
    { rewrite <- HL, map_length, (rect_concat_length C M HM), HlM. reflexivity. }
    destruct (scatter_col_windows C M c0 c (fun r => nth r m []) L HM Hc HL) with (k := n) as [S1 S2].
    { intros r Hr. apply Hwin. lia. }
    { lia. }
    split; [|exact S2].
    cbn [mnt_cat1_values]. cbn [nc vals mnt_of_cells].
    rewrite !map_map.
    rewrite !tgather_offs.
    2: { apply Forall_forall. intros i Hi. apply in_map_iff in Hi. destruct Hi as [r [<- Hr]]. apply in_seq in Hr.
         rewrite HlL. nia. }
    2: { apply Forall_forall. intros i Hi. apply in_map_iff in Hi. destruct Hi as [r [<- Hr]]. apply in_seq in Hr.
         rewrite HlL. nia. }
    cbn [obind]. rewrite !map_map, sub2_map_same, batch_index_map. cbn [obind].
    replace (concat (concat m)) with (concat (flat_map (fun r => nth r m []) (seq 0 n))).
    2: { rewrite flat_map_concat_map, <- Hlm, <- map_nth_seq. reflexivity. }
    rewrite (flat_map_ext _ (fun r => seq (pre L (r * C + c0)) (pre L (r * C + c0 + c) - pre L (r * C + c0)))).
    2: { intros r. replace (c0 + r * C) with (r * C + c0) by lia. reflexivity. }
    rewrite S1. reflexivity.
  Qed.

  Lemma map_length_skipn : forall (l : list (list A)) k, map (@length A) (skipn k l) = skipn k (map (@length A) l).
  Proof. intros. symmetry. apply skipn_map. Qed.

  Lemma mnt_cat1_values_canon : forall n C L (ps : list (nat * cellmat)), Forall (part_ok n) ps ->
    forall (D J : nat -> list (list A)) c0,
    (forall r, r < n -> length (D r) = c0) ->
    (forall r, r < n -> map (@length A) (J r) = map (@length A) (hrow ps r)) ->
    c0 + sum (map fst ps) = C ->
    map (@length A) (concat (map (fun r => D r ++ J r) (seq 0 n))) = L ->
    mnt_cat1_values A (map mnt_of_pair ps) n C (0 :: cumsum L)
                    (concat (concat (map (fun r => D r ++ J r) (seq 0 n)))) c0 =
    Some (concat (concat (map (fun r => D r ++ hrow ps r) (seq 0 n)))).
  Proof.
    intros n C L ps H. induction H as [|[c m] ps Hp Hps IH]; intros D J c0 HD HJ HC HL.
    - simpl. do 3 f_equal. apply map_ext_in. intros r Hr. apply in_seq in Hr.
      specialize (HJ r ltac:(lia)). unfold hrow in *. simpl in *. destruct (J r); [reflexivity|discriminate].
    - destruct Hp as [Hrect Hlen]. cbn [fst snd] in Hrect, Hlen. cbn [map fst] in HC. simpl sum in HC.
      cbn [map]. change (mnt_of_pair (c, m)) with (mnt_of_cells c m).
      set (M := map (fun r => D r ++ J r) (seq 0 n)) in *.
      assert (HlM : length M = n) by (unfold M; rewrite map_length, seq_length; reflexivity).
      assert (HJl : forall r, r < n -> length (J r) = c + sum (map fst ps)).
      { intros r Hr. rewrite <- (map_length (@length A)), (HJ r Hr), map_length.
        rewrite (hrow_length n ((c, m) :: ps) r); [reflexivity| |assumption].
        constructor; [split; assumption|assumption]. }
      assert (HM : rows_of C M).
      { unfold rectl, M. apply Forall_forall. intros row Hrow. apply in_map_iff in Hrow.
        destruct Hrow as [r [<- Hr]]. apply in_seq in Hr. rewrite app_length, HD, HJl by lia. lia. }
      assert (Hrow : forall r, r < n -> nth r M [] = D r ++ J r).
      { intros r Hr. unfold M. rewrite (nth_map_seq (fun r0 => D r0 ++ J r0) n r []) by assumption. reflexivity. }
      assert (Hmr : forall r, r < n -> length (nth r m []) = c).
      { intros r Hr. apply (rect_row_length c m r Hrect). lia. }
      assert (HJsplit : forall r, r < n -> map (@length A) (J r) =
                                         map (@length A) (nth r m []) ++ map (@length A) (hrow ps r)).
      { intros r Hr. rewrite (HJ r Hr). unfold hrow. cbn [map concat snd]. apply map_app. }
      destruct (mnt_cat1_values_step n C L M c0 c m (map mnt_of_pair ps) HM HlM HL Hrect Hlen ltac:(lia)) as [E1 E2].
      { intros r Hr. rewrite (Hrow r Hr). unfold tslice. replace (c0 + c - c0) with c by lia.
        rewrite skipn_app, skipn_all2, (HD r Hr), Nat.sub_diag by (rewrite HD; lia). simpl.
        rewrite <- firstn_map, (HJsplit r Hr), firstn_app, firstn_all2 by (rewrite map_length, Hmr; lia).
        rewrite map_length, (Hmr r Hr), Nat.sub_diag. simpl. rewrite app_nil_r. reflexivity. }
      rewrite E1.
      assert (Hupd : upd_rows M c0 c (fun r => nth r m []) n =
                     map (fun r => (D r ++ nth r m []) ++ skipn c (J r)) (seq 0 n)).
      { unfold upd_rows. rewrite HlM. apply map_ext_in. intros r Hr. apply in_seq in Hr.
        replace (r <? n) with true by (symmetry; apply Nat.ltb_lt; lia).
        rewrite (Hrow r) by lia.
        rewrite firstn_app, firstn_all2, (HD r), Nat.sub_diag by (try rewrite HD; lia). simpl. rewrite app_nil_r.
        rewrite skipn_app, skipn_all2, (HD r) by (try rewrite HD; lia).
        replace (c0 + c - c0) with c by lia. simpl. rewrite <- app_assoc. reflexivity. }
      rewrite Hupd in *.
      rewrite (IH (fun r => D r ++ nth r m []) (fun r => skipn c (J r)) (c0 + c)).
      + do 3 f_equal. apply map_ext. intros r. unfold hrow. cbn [map concat snd]. rewrite <- app_assoc. reflexivity.
      + intros r Hr. rewrite app_length, (HD r Hr), (Hmr r Hr). reflexivity.
      + intros r Hr. rewrite map_length_skipn, (HJsplit r Hr), skipn_app, skipn_all2 by (rewrite map_length, Hmr; lia).
        rewrite map_length, (Hmr r Hr), Nat.sub_diag. reflexivity.
      + lia.
      + exact E2.
  Qed.

  Lemma cut_blocks2 : forall (lens : list (list nat)) (buf : list A), length buf = sum (map sum lens) ->
    exists M : list (list (list A)), concat (concat M) = buf /\ map (map (@length A)) M = lens.
  Proof.
    induction lens as [|a lens IH]; intros buf H; simpl in H.
    - exists []. destruct buf; [auto|discriminate].
    - destruct (cut_blocks a (firstn (sum a) buf)) as [F [HF1 HF2]]; [rewrite firstn_length; lia|].
      destruct (IH (skipn (sum a) buf)) as [M [HM1 HM2]]; [rewrite skipn_length; lia|].
      exists (F :: M). simpl. rewrite concat_app, HF1, HM1, firstn_skipn, HF2, HM2. auto.
  Qed.

  Lemma length_cc_app : forall (l : list nat) (f g : nat -> list (list A)),
    length (concat (concat (map (fun r => f r ++ g r) l))) =
    length (concat (concat (map f l))) + length (concat (concat (map g l))).
  Proof.
    induction l as [|x l IH]; intros f g; simpl; auto.
    rewrite !concat_app, !app_length, IH. lia.
  Qed.

  Lemma total_length : forall n ps, Forall (part_ok n) ps ->
    sum (map (fun x => length (vals x)) (map mnt_of_pair ps)) = length (concat (concat (map (hrow ps) (seq 0 n)))).
  Proof.
    intros n ps H. induction H as [|[c m] ps Hp Hps IH].
    - simpl. induction (seq 0 n); simpl; auto.
    - cbn [map sum fold_right]. change (vals (mnt_of_pair (c, m))) with (concat (concat m)).
      fold (sum (map (fun x : mnt A => length (vals x)) (map mnt_of_pair ps))). rewrite IH.
      destruct Hp as [_ Hl]. cbn [snd] in Hl.
      rewrite (map_ext (hrow ((c, m) :: ps)) (fun r => nth r m [] ++ hrow ps r)) by reflexivity.
      rewrite length_cc_app. rewrite <- Hl, <- map_nth_seq. reflexivity.
  Qed.

  Lemma hcat_rect : forall n ps, Forall (part_ok n) ps -> rect (sum (map fst ps)) (hcat n (map snd ps)).
  Proof.
    intros n ps H. rewrite hcat_hrow. unfold rect. apply Forall_forall. intros row Hrow.
    apply in_map_iff in Hrow. destruct Hrow as [r [<- Hr]]. apply in_seq in Hr.
    apply (hrow_length n); [assumption|lia].
  Qed.

  Lemma mnt_cat1_canon : forall n (ps : list (nat * cellmat)), ps <> [] -> Forall (part_ok n) ps ->
    mnt_cat1 A junk_o junk_v (map mnt_of_pair ps) =
    Some (mnt_of_cells (sum (map fst ps)) (hcat n (map snd ps))).
  Proof.
    intros n ps Hne Hok.
    set (C := sum (map fst ps)). set (H := map (hrow ps) (seq 0 n)).
    assert (HH : hcat n (map snd ps) = H) by apply hcat_hrow.
    assert (HrH : rect C H) by (rewrite <- HH; apply hcat_rect; assumption).
    assert (HlH : length H = n) by (unfold H; rewrite map_length, seq_length; reflexivity).
    set (L := map (@length A) (concat H)).
    (* the two loops *)
    assert (E1 : mnt_cat1_lengths A (map mnt_of_pair ps)
                   (map (fun r => map (fun c => junk_o (r * C + c)) (seq 0 C)) (seq 0 n)) 0
                 = Some (map (fun r => map (@length A) (hrow ps r)) (seq 0 n))).
    { apply (mnt_cat1_lengths_canon n ps Hok (fun _ => []) (fun r => map (fun c => junk_o (r * C + c)) (seq 0 C)) 0).
      - reflexivity.
      - intros. rewrite map_length, seq_length. reflexivity. }
    assert (EL : concat (map (fun r => map (@length A) (hrow ps r)) (seq 0 n)) = L).
    { unfold L, H. rewrite concat_map, map_map. reflexivity. }
    set (total := sum (map (fun x => length (vals x)) (map mnt_of_pair ps))).
    assert (Htot : total = length (concat (concat H))) by (apply total_length; assumption).
    destruct (cut_blocks2 (map (map (@length A)) H) (empty_buf junk_v total)) as [J0 [HJ1 HJ2]].
    { unfold empty_buf. rewrite map_length, seq_length, Htot.
      rewrite (sum_map_length_concat (concat H)), concat_map, sum_concat. reflexivity. }
    assert (HlJ : length J0 = n).
    { rewrite <- (map_length (map (@length A))), HJ2, map_length. exact HlH. }
    assert (HJ0 : map (fun r => nth r J0 []) (seq 0 n) = J0) by (rewrite <- HlJ; symmetry; apply map_nth_seq).
    assert (E2 : mnt_cat1_values A (map mnt_of_pair ps) n C (0 :: cumsum L) (empty_buf junk_v total) 0
                 = Some (concat (concat H))).
    { rewrite <- HJ1. rewrite <- HJ0 at 1.
      apply (mnt_cat1_values_canon n C L ps Hok (fun _ => []) (fun r => nth r J0 []) 0).
      - reflexivity.
      - intros r Hr.
        change (@nil (list A)) with (@nil (list A)) at 1.
        assert (E := f_equal (fun l => nth r l []) HJ2). cbn beta in E.
        change (@nil nat) with (map (@length A) []) in E. rewrite !map_nth in E.
        rewrite E. unfold H. rewrite nth_map_seq by assumption. reflexivity.
      - reflexivity.
      - cbn [app]. rewrite HJ0. unfold L. rewrite !concat_map, HJ2. reflexivity. }
    (* assembling *)
    destruct ps as [|p0 ps']; [congruence|]. remember (p0 :: ps') as ps0 eqn:Eps.
    unfold mnt_cat1. rewrite Eps at 1. cbn [map].
    replace (mnt_of_pair p0 :: map mnt_of_pair ps') with (map mnt_of_pair ps0) by (rewrite Eps; reflexivity).
    assert (Hn0 : nr (mnt_of_pair p0) = n).
    { rewrite Eps in Hok. inversion Hok as [|? ? [_ Hl] _]. exact Hl. }
    rewrite Hn0.
    rewrite forallb_map_Forall.
    2: { rewrite Eps in Hok. inversion Hok as [|? ? _ Hrest]. eapply Forall_impl; [|exact Hrest].
         intros p [_ Hl]. apply Nat.eqb_eq. exact Hl. }
    replace (sum (map (@nc A) (map mnt_of_pair ps0))) with C by (unfold C; rewrite map_map; reflexivity).
    rewrite E1. cbn [obind]. rewrite EL. fold total. rewrite E2. cbn [obind].
    rewrite HH. rewrite <- HlH. apply mk_mnt_canon. exact HrH.
  Qed.

  (* -------------------------------------------------------------- *)
  (* MultiNestedTensor.fillna_col *)
  Lemma map_as_seq : forall {B D} (g : B -> D) (l : list B) d,
    map g l = map (fun r => g (nth r l d)) (seq 0 (length l)).
  Proof. intros. rewrite <- (map_map (fun r => nth r l d) g), <- map_nth_seq. reflexivity. Qed.

  Lemma upd_rows_fill : forall is_na fill c (m : cellmat) j, rect c m -> j < c ->
    upd_rows m j 1 (fun r => [map (fill_na A is_na fill) (nth j (nth r m []) [])]) (length m)
    = fill_cells is_na fill j m.
  Proof.
    intros is_na fill c m j H Hj. unfold upd_rows, fill_cells.
    rewrite (map_as_seq _ m []). apply map_ext_in. intros r Hr. apply in_seq in Hr.
    replace (r <? length m) with true by (symmetry; apply Nat.ltb_lt; lia).
    unfold upd_nth. assert (Hl : length (nth r m []) = c) by (apply (rect_row_length c m r H); lia).
    rewrite (skipn_nth_cons (nth r m []) j []) by lia. replace (j + 1) with (S j) by lia. reflexivity.
  Qed.

  Lemma mnt_fillna_col_canon : forall is_na fill c (m : cellmat) j, rect c m -> j < c ->
    mnt_fillna_col A is_na (mnt_of_cells c m) j fill = Some (mnt_of_cells c (fill_cells is_na fill j m)).
  Proof.
    intros is_na fill c m j H Hj.
    set (n := length m). set (L := map (@length A) (concat m)).
    set (new := fun r => [map (fill_na A is_na fill) (nth j (nth r m []) [])]).
    assert (HlL : length L = n * c) by (unfold L; rewrite map_length; apply rect_concat_length; assumption).
    destruct (scatter_col_windows c m j 1 new L H ltac:(lia) eq_refl) with (k := n) as [S1 S2].
    { intros r Hr. unfold new. assert (Hl : length (nth r m []) = c) by (apply (rect_row_length c m r H); assumption).
      replace (j + 1) with (S j) by lia.
      rewrite (tslice_one (nth r m []) j []) by lia. simpl. rewrite map_length. reflexivity. }
    { unfold n. lia. }
    assert (Hupd := upd_rows_fill is_na fill c m j H Hj). fold new n in Hupd. rewrite Hupd in S1, S2.
    unfold mnt_fillna_col. cbn [nr nc offs vals mnt_of_cells]. fold n L.
    rewrite !map_map. rewrite !tgather_offs.
    2: { apply Forall_forall. intros i Hi. apply in_map_iff in Hi. destruct Hi as [r [<- Hr]]. apply in_seq in Hr.
         rewrite HlL. nia. }
    2: { apply Forall_forall. intros i Hi. apply in_map_iff in Hi. destruct Hi as [r [<- Hr]]. apply in_seq in Hr.
         rewrite HlL. nia. }
    cbn [obind]. rewrite !map_map, sub2_map_same.
    destruct (gather_windows (concat m) (seq 0 n) (fun r => r * c + j) (fun r => S (r * c + j))) as [vidx [G1 G2]].
    { apply Forall_forall. intros r Hr. apply in_seq in Hr. split; [lia|].
      rewrite (rect_concat_length c m H). fold n. nia. }
    fold L in G1. rewrite G1. cbn [obind]. rewrite G2. cbn [obind].
    rewrite batch_index_map in G1. injection G1 as <-.
    replace (map (fill_na A is_na fill)
                 (concat (map (fun x => concat (tslice (concat m) (x * c + j) (S (x * c + j)))) (seq 0 n))))
      with (concat (flat_map new (seq 0 n))).
    2: { unfold new. rewrite flat_map_singleton, concat_map, map_map. f_equal. apply map_ext_in.
         intros r Hr. apply in_seq in Hr.
         rewrite (tslice_one (concat m) (r * c + j) []) by (rewrite (rect_concat_length c m H); fold n; nia).
         cbn [concat]. rewrite app_nil_r. f_equal. apply rect_cell; [assumption|fold n; lia|assumption]. }
    rewrite (flat_map_ext _ (fun r => seq (pre L (r * c + j)) (pre L (r * c + j + 1) - pre L (r * c + j)))).
    2: { intros r. replace (r * c + j + 1) with (S (r * c + j)) by lia. reflexivity. }
    rewrite S1. cbn [obind]. unfold mnt_of_cells, fill_cells. rewrite map_length. fold (fill_cells is_na fill j m).
    rewrite S2. reflexivity.
  Qed.

  (* -------------------------------------------------------------- *)
  (* MultiNestedTensor.to_dense *)
  Lemma batch_lt : forall L, Forall (fun b => b < length L) (fst (batched_arange L)).
  Proof.
    intros L. rewrite batched_arange_spec. cbn [fst]. apply Forall_concat. apply Forall_forall.
    intros l Hl. apply in_map_iff in Hl. destruct Hl as [[b k] [<- Hin]]. cbn [fst snd].
    apply in_combine_l in Hin. apply in_seq in Hin. apply Forall_forall. intros x Hx.
    apply repeat_spec in Hx. subst. lia.
  Qed.

  Lemma arange_lt : forall L, Forall (fun k => k < list_max L) (snd (batched_arange L)).
  Proof.
    intros L. rewrite batched_arange_spec. cbn [snd]. apply Forall_concat. apply Forall_forall.
    intros l Hl. apply in_map_iff in Hl. destruct Hl as [len [<- Hin]].
    apply Forall_forall. intros k Hk. apply in_seq in Hk.
    assert (Hle : Forall (fun x => x <= list_max L) L) by (apply list_max_le; lia).
    rewrite Forall_forall in Hle. specialize (Hle len Hin). lia.
  Qed.

  Lemma combine3_map : forall {B1 B2 D} (f1 : nat -> B1) (f2 : nat -> B2) (h : B1 * B2 * nat -> D) (Bt Ar : list nat),
    map h (combine (combine (map f1 Bt) (map f2 Bt)) Ar) =
    map (fun p => h (f1 (fst p), f2 (fst p), snd p)) (combine Bt Ar).
  Proof.
    intros B1 B2 D f1 f2 h Bt. induction Bt as [|b Bt IH]; intros Ar; [reflexivity|].
    destruct Ar as [|k Ar]; [reflexivity|]. simpl. f_equal. apply IH.
  Qed.

  Definition pad (fill : A) (Lmax : nat) (cl : list A) : list A := cl ++ repeat fill (Lmax - length cl).

  Lemma firstn_S_nth : forall {B} (l : list B) k d, k < length l -> firstn (S k) l = firstn k l ++ [nth k l d].
  Proof.
    intros B l; induction l as [|x l IH]; intros k d H; simpl in H; [lia|].
    destruct k; [reflexivity|]. simpl. f_equal. apply IH. lia.
  Qed.

  Lemma pad_rect : forall fill Lmax (cells : list (list A)), Forall (fun cl => length cl <= Lmax) cells ->
    rectl Lmax (map (pad fill Lmax) cells).
  Proof.
    intros fill Lmax cells H. unfold rectl. apply Forall_forall. intros x Hx. apply in_map_iff in Hx.
    destruct Hx as [cl [<- Hcl]]. rewrite Forall_forall in H. specialize (H cl Hcl).
    unfold pad. rewrite app_length, repeat_length. lia.
  Qed.

  Lemma scatter_pad : forall fill Lmax (cells : list (list A)), Forall (fun cl => length cl <= Lmax) cells ->
    forall k, k <= length cells ->
    scatter (repeat fill (length cells * Lmax))
            (flat_map (fun b => seq (b * Lmax) (length (nth b cells []))) (seq 0 k))
            (concat (firstn k cells))
    = Some (concat (map (pad fill Lmax) (firstn k cells)) ++ repeat fill ((length cells - k) * Lmax)).
  Proof.
    intros fill Lmax cells H. induction k as [|k IH]; intros Hk.
    - simpl. rewrite Nat.sub_0_r. reflexivity.
    - rewrite seq_S, flat_map_app, (firstn_S_nth cells k []) by lia. cbn [flat_map]. rewrite app_nil_r.
      rewrite concat_app. cbn [concat]. rewrite app_nil_r. simpl Nat.add.
      rewrite (scatter_app' _ _ _ _ _ _ (IH ltac:(lia))).
      set (cl := nth k cells []).
      assert (Hcl : length cl <= Lmax).
      { rewrite Forall_forall in H. apply H. apply nth_In. lia. }
      assert (HX : length (concat (map (pad fill Lmax) (firstn k cells))) = k * Lmax).
      { rewrite (rect_concat_length Lmax).
        - rewrite map_length, firstn_length. f_equal. lia.
        - apply pad_rect. rewrite Forall_forall in *. intros x Hx. apply H. eapply In_firstn. exact Hx. }
      replace ((length cells - k) * Lmax) with (length cl + ((Lmax - length cl) + (length cells - S k) * Lmax)) by nia.
      rewrite !repeat_app. rewrite <- HX.
      rewrite scatter_seq by (rewrite repeat_length; reflexivity).
      rewrite map_app, concat_app. cbn [map concat]. unfold pad at 3. fold cl. rewrite app_nil_r.
      rewrite <- !app_assoc. reflexivity.
  Qed.

  Lemma add2_map_l : forall (f : nat -> nat) (Bt Ar : list nat),
    add2 (map f Bt) Ar = map (fun p => f (fst p) + snd p) (combine Bt Ar).
  Proof.
    intros f Bt. unfold add2. induction Bt as [|b Bt IH]; intros Ar; [reflexivity|].
    destruct Ar as [|k Ar]; [reflexivity|]. simpl. f_equal. apply IH.
  Qed.

  Lemma Some_inj : forall {B} (a b : B), Some a = Some b -> a = b.
  Proof. intros B a b H. injection H as H. exact H. Qed.

  Lemma max_error_ne : forall l, l <> [] -> max_error l = Some (list_max l).
  Proof. intros l H. destruct l; [congruence|reflexivity]. Qed.

  Lemma mnt_to_dense_canon : forall fill c (m : cellmat), rect c m -> m <> [] -> c <> 0 ->
    mnt_to_dense A (mnt_of_cells c m) fill = Some (pad_cells fill m).
  Proof.
    intros fill c m H Hm Hc.
    set (n := length m). set (cells := concat m). set (L := map (@length A) cells).
    set (Lmax := list_max L).
    assert (HN : length cells = n * c) by (apply rect_concat_length; assumption).
    assert (HlL : length L = n * c) by (unfold L; rewrite map_length; exact HN).
    assert (Hle : Forall (fun cl => length cl <= Lmax) cells).
    { assert (E : Forall (fun x => x <= Lmax) L) by (apply list_max_le; unfold Lmax; lia).
      unfold L in E. rewrite Forall_map in E. exact E. }
    unfold mnt_to_dense. cbn [offs nr nc vals mnt_of_cells]. fold n cells L.
    unfold diffs. rewrite diffs_of_offs.
    assert (HLne : L <> []).
    { intro E. apply (f_equal (@length nat)) in E. rewrite HlL in E. simpl in E.
      destruct m; [congruence|]. unfold n in E. simpl in E. nia. }
    rewrite (max_error_ne L HLne). fold Lmax. cbn [obind].
    replace (c =? 0) with false by (symmetry; apply Nat.eqb_neq; assumption).
    (* bounds checks *)
    assert (Hb := batch_lt L). assert (Ha := arange_lt L). fold Lmax in Ha. rewrite HlL in Hb.
    set (ba := batched_arange L) in *.
    rewrite !forallb_map_Forall.
    2: { eapply Forall_impl; [|exact Hb]. intros b Hbn. apply Nat.ltb_lt. apply Nat.mod_upper_bound. assumption. }
    2: { eapply Forall_impl; [|exact Hb]. intros b Hbn. apply Nat.ltb_lt.
         cbn beta in Hbn. apply Nat.div_lt_upper_bound; [assumption|]. nia. }
    rewrite (forallb_Forall _ (fun k => k < Lmax)) by (auto; intros x Hx; apply Nat.ltb_lt; exact Hx).
    cbn [andb].
    (* the flat positions *)
    rewrite combine3_map. cbn [fst snd].
    rewrite (map_ext _ (fun p => fst p * Lmax + snd p)).
    2: { intros [b k]. cbn [fst snd]. f_equal. f_equal. rewrite (Nat.div_mod b c Hc) at 3. lia. }
    assert (Eidx : map (fun p => fst p * Lmax + snd p) (combine (fst ba) (snd ba))
                   = flat_map (fun b => seq (b * Lmax) (length (nth b cells []))) (seq 0 (n * c))).
    { unfold ba in *. assert (E := batch_index_spec (map (fun b => b * Lmax) (seq 0 (n * c))) L
                     ltac:(rewrite map_length, seq_length; lia)).
      unfold batch_index in E. rewrite (tgather_map_seq (fun b => b * Lmax)) in E by exact Hb.
      apply Some_inj in E. rewrite add2_map_l in E. rewrite E.
      unfold L at 1. rewrite (map_as_seq (@length A) cells []), HN, combine_map_same, flat_map_map. reflexivity. }
    rewrite Eidx.
    replace (concat cells) with (concat (firstn (length cells) cells)) by (rewrite firstn_all; reflexivity).
    replace (n * c * Lmax) with (length cells * Lmax) by (rewrite HN; reflexivity).
    replace (seq 0 (n * c)) with (seq 0 (length cells)) by (rewrite HN; reflexivity).
    rewrite (scatter_pad fill Lmax cells Hle (length cells)) by lia.
    cbn [obind]. rewrite Nat.sub_diag, firstn_all. simpl repeat. rewrite app_nil_r.
    f_equal.
    assert (Hp := pad_rect fill Lmax cells Hle).
    replace (n * c) with (length (map (pad fill Lmax) cells)) by (rewrite map_length; exact HN).
    rewrite (chunk_rows_concat Lmax _ Hp).
    unfold cells. rewrite concat_map.
    assert (Hr2 : rectl c (map (map (pad fill Lmax)) m)).
    { unfold rectl. apply Forall_forall. intros x Hx. apply in_map_iff in Hx. destruct Hx as [row [<- Hrow]].
      rewrite map_length. unfold rect in H. rewrite Forall_forall in H. auto. }
    replace n with (length (map (map (pad fill Lmax)) m)) by (rewrite map_length; reflexivity).
    rewrite (chunk_rows_concat c _ Hr2). reflexivity.
  Qed.

  (* -------------------------------------------------------------- *)
  (* the dim argument *)
  Lemma mnt_cat_dim0 : forall xs, mnt_cat A junk_o junk_v xs 0%Z = mnt_cat0 A junk_o xs.
  Proof. intros [|x xs]; reflexivity. Qed.
  Lemma mnt_cat_dim1 : forall xs, mnt_cat A junk_o junk_v xs 1%Z = mnt_cat1 A junk_o junk_v xs.
  Proof. intros [|x xs]; reflexivity. Qed.
  Lemma mnt_cat_neg : forall xs, mnt_cat A junk_o junk_v xs (-3)%Z = mnt_cat A junk_o junk_v xs 0%Z
                              /\ mnt_cat A junk_o junk_v xs (-2)%Z = mnt_cat A junk_o junk_v xs 1%Z.
  Proof. intros [|x xs]; split; reflexivity. Qed.
  Lemma met_cat_dim0 : forall xs, met_cat A xs 0%Z = met_cat0 A xs.
  Proof. intros [|x xs]; reflexivity. Qed.
  Lemma met_cat_dim1 : forall xs, met_cat A xs 1%Z = met_cat1 A xs.
  Proof. intros [|x xs]; reflexivity. Qed.
  Lemma met_cat_neg : forall xs, met_cat A xs (-3)%Z = met_cat A xs 0%Z /\ met_cat A xs (-2)%Z = met_cat A xs 1%Z.
  Proof. intros [|x xs]; split; reflexivity. Qed.

  (* -------------------------------------------------------------- *)
  (* nested-list facts about picking rows / columns *)
  Lemma pick_rows_concat : forall (poss : list (list nat)) (m : cellmat),
    pick_rows (concat poss) m = concat (map (fun pos => pick_rows pos m) poss).
  Proof. intros. unfold pick_rows. apply concat_map. Qed.

  Lemma pick_rows_all : forall (m : cellmat), pick_rows (seq 0 (length m)) m = m.
  Proof. intros. unfold pick_rows. symmetry. apply map_nth_seq. Qed.

  Lemma pick_cols_length : forall pos (m : cellmat), length (pick_cols pos m) = length m.
  Proof. intros. unfold pick_cols. apply map_length. Qed.

  Lemma pick_cols_row : forall pos (m : cellmat) r, r < length m ->
    nth r (pick_cols pos m) [] = map (fun j => nth j (nth r m []) []) pos.
  Proof.
    intros pos m r H. unfold pick_cols.
    rewrite (nth_indep _ [] ((fun row : list (list A) => map (fun j => nth j row []) pos) []))
      by (rewrite map_length; assumption).
    rewrite (map_nth (fun row : list (list A) => map (fun j => nth j row []) pos)). reflexivity.
  Qed.

  Lemma pick_cols_concat : forall (poss : list (list nat)) (m : cellmat),
    hcat (length m) (map (fun pos => pick_cols pos m) poss) = pick_cols (concat poss) m.
  Proof.
    intros poss m. unfold hcat. unfold pick_cols at 2.
    rewrite (map_as_seq (fun r0 : list (list A) => map (fun j => nth j r0 []) (concat poss)) m []).
    apply map_ext_in. intros r Hr. apply in_seq in Hr.
    rewrite map_map, concat_map. f_equal. apply map_ext. intros pos.
    rewrite pick_cols_row by lia. reflexivity.
  Qed.

  Lemma pick_cols_all : forall c (m : cellmat), rect c m -> pick_cols (seq 0 c) m = m.
  Proof.
    intros c m H. unfold pick_cols. rewrite <- (map_id m) at 2. apply map_ext_in. intros row Hrow.
    unfold rect in H. rewrite Forall_forall in H. rewrite <- (H row Hrow). symmetry. apply map_nth_seq.
  Qed.

  (* -------------------------------------------------------------- *)
  (* cat of selections = selection of the concatenated positions; split / cat round trip *)
  Definition valid_parts (n : nat) (ixs : list index) (poss : list (list nat)) : Prop :=
    Forall2 (fun ix pos => py_positions n ix = Some pos) ixs poss.

  Lemma mnt_select_rows_parts : forall c (m : cellmat) ixs poss, rect c m -> valid_parts (length m) ixs poss ->
    mapM (fun ix => select A _ (mnt_kernels A) (mnt_of_cells c m) ix 0) ixs
    = Some (map (mnt_of_cells c) (map (fun pos => pick_rows pos m) poss))
    /\ Forall (rect c) (map (fun pos => pick_rows pos m) poss).
  Proof.
    intros c m ixs poss H HV. induction HV as [|ix pos ixs poss Hix HV IH].
    - split; [reflexivity|constructor].
    - destruct IH as [IH1 IH2]. cbn [mapM map]. rewrite IH1.
      rewrite (mnt_select_refines_proof A c m ix 0 H ltac:(lia)). cbn [Nat.eqb]. rewrite Hix.
      split; [reflexivity|]. constructor; [|exact IH2].
      exact (pick_rect_proof A c m ix 0 pos H ltac:(lia) Hix).
  Qed.

  Lemma mnt_cat_row_selections : forall c (m : cellmat) ixs poss, rect c m -> ixs <> [] ->
    valid_parts (length m) ixs poss ->
    (parts <- mapM (fun ix => select A _ (mnt_kernels A) (mnt_of_cells c m) ix 0) ixs ;;
     mnt_cat A junk_o junk_v parts 0%Z)
    = Some (mnt_of_cells c (pick_rows (concat poss) m)).
  Proof.
    intros c m ixs poss H Hne HV. destruct (mnt_select_rows_parts c m ixs poss H HV) as [E1 E2].
    rewrite E1. cbn [obind]. rewrite mnt_cat_dim0, mnt_cat0_canon, <- pick_rows_concat; auto.
    destruct HV; [congruence|discriminate].
  Qed.

  Lemma mnt_select_cols_parts : forall c (m : cellmat) ixs poss, rect c m -> valid_parts c ixs poss ->
    mapM (fun ix => select A _ (mnt_kernels A) (mnt_of_cells c m) ix 1) ixs
    = Some (map mnt_of_pair (map (fun pos => (length pos, pick_cols pos m)) poss))
    /\ Forall (part_ok (length m)) (map (fun pos => (length pos, pick_cols pos m)) poss).
  Proof.
    intros c m ixs poss H HV. induction HV as [|ix pos ixs poss Hix HV IH].
    - split; [reflexivity|constructor].
    - destruct IH as [IH1 IH2]. cbn [mapM map]. rewrite IH1.
      rewrite (mnt_select_refines_proof A c m ix 1 H ltac:(lia)). cbn [Nat.eqb]. rewrite Hix.
      split; [reflexivity|]. constructor; [|exact IH2]. split; cbn [fst snd].
      + exact (pick_rect_proof A c m ix 1 pos H ltac:(lia) Hix).
      + apply pick_cols_length.
  Qed.

  Lemma mnt_cat_col_selections : forall c (m : cellmat) ixs poss, rect c m -> ixs <> [] ->
    valid_parts c ixs poss ->
    (parts <- mapM (fun ix => select A _ (mnt_kernels A) (mnt_of_cells c m) ix 1) ixs ;;
     mnt_cat A junk_o junk_v parts 1%Z)
    = Some (mnt_of_cells (length (concat poss)) (pick_cols (concat poss) m)).
  Proof.
    intros c m ixs poss H Hne HV. destruct (mnt_select_cols_parts c m ixs poss H HV) as [E1 E2].
    rewrite E1. cbn [obind]. rewrite mnt_cat_dim1, (mnt_cat1_canon (length m)); auto.
    - rewrite !map_map. cbn [fst snd]. rewrite <- length_concat_sum, pick_cols_concat. reflexivity.
    - destruct HV; [congruence|discriminate].
  Qed.

  Lemma met_select_rows_parts : forall ws (m : cellmat) ixs poss, rect_w ws m -> valid_parts (length m) ixs poss ->
    mapM (fun ix => select A _ (met_kernels A) (met_of_cells ws m) ix 0) ixs
    = Some (map (met_of_cells ws) (map (fun pos => pick_rows pos m) poss)).
  Proof.
    intros ws m ixs poss H HV. induction HV as [|ix pos ixs poss Hix HV IH]; [reflexivity|].
    cbn [mapM map]. rewrite IH.
    rewrite (met_select_refines_proof A ws m ix 0 H ltac:(lia)). cbn [Nat.eqb]. rewrite Hix. reflexivity.
  Qed.

  Lemma met_cat_row_selections : forall ws (m : cellmat) ixs poss, rect_w ws m -> ixs <> [] ->
    valid_parts (length m) ixs poss ->
    (parts <- mapM (fun ix => select A _ (met_kernels A) (met_of_cells ws m) ix 0) ixs ;; met_cat A parts 0%Z)
    = Some (met_of_cells ws (pick_rows (concat poss) m)).
  Proof.
    intros ws m ixs poss H Hne HV. rewrite (met_select_rows_parts ws m ixs poss H HV). cbn [obind].
    rewrite met_cat_dim0, met_cat0_canon, <- pick_rows_concat; auto.
    destruct HV; [congruence|discriminate].
  Qed.

  Lemma met_select_cols_parts : forall ws (m : cellmat) ixs poss, rect_w ws m -> valid_parts (length ws) ixs poss ->
    mapM (fun ix => select A _ (met_kernels A) (met_of_cells ws m) ix 1) ixs
    = Some (map met_of_pair (map (fun pos => (map (fun j => nth j ws 0) pos, pick_cols pos m)) poss)).
  Proof.
    intros ws m ixs poss H HV. induction HV as [|ix pos ixs poss Hix HV IH]; [reflexivity|].
    cbn [mapM map]. rewrite IH.
    rewrite (met_select_refines_proof A ws m ix 1 H ltac:(lia)). cbn [Nat.eqb]. rewrite Hix. reflexivity.
  Qed.

  Lemma met_cat_col_selections : forall ws (m : cellmat) ixs poss, rect_w ws m -> ixs <> [] ->
    valid_parts (length ws) ixs poss ->
    (parts <- mapM (fun ix => select A _ (met_kernels A) (met_of_cells ws m) ix 1) ixs ;; met_cat A parts 1%Z)
    = Some (met_of_cells (map (fun j => nth j ws 0) (concat poss)) (pick_cols (concat poss) m)).
  Proof.
    intros ws m ixs poss H Hne HV. rewrite (met_select_cols_parts ws m ixs poss H HV). cbn [obind].
    rewrite met_cat_dim1, (met_cat1_canon (length m)).
    - rewrite !map_map. cbn [fst snd]. rewrite pick_cols_concat, <- concat_map. reflexivity.
    - destruct HV; [congruence|discriminate].
    - apply Forall_forall. intros p Hp. apply in_map_iff in Hp. destruct Hp as [pos [<- _]].
      cbn [snd]. apply pick_cols_length.
  Qed.

  Lemma pick_ws_all : forall ws : list nat, map (fun j => nth j ws 0) (seq 0 (length ws)) = ws.
  Proof. intros. symmetry. apply map_nth_seq. Qed.

  (* -------------------------------------------------------------- *)
  (* pointwise readings of the two nested-list references *)
  Lemma upd_nth_other : forall {B} (f : B -> B) j j' (l : list B) d, j' <> j -> nth j' (upd_nth f j l) d = nth j' l d.
  Proof.
    intros B f j j' l d Hne. unfold upd_nth. rewrite <- (firstn_skipn j l) at 3.
    destruct (Nat.lt_ge_cases j' (length (firstn j l))) as [Hlt|Hge].
    - rewrite !app_nth1 by assumption. reflexivity.
    - rewrite !app_nth2 by assumption. destruct (skipn j l) as [|x r] eqn:E; [reflexivity|].
      assert (Hj : length (firstn j l) = j).
      { apply firstn_length_le. assert (length (skipn j l) > 0) by (rewrite E; simpl; lia).
        rewrite skipn_length in *. lia. }
      rewrite Hj in *. destruct (j' - j) eqn:E2; [lia|]. reflexivity.
  Qed.

  Lemma upd_nth_same : forall {B} (f : B -> B) j (l : list B) d, j < length l -> nth j (upd_nth f j l) d = f (nth j l d).
  Proof.
    intros B f j l d H. unfold upd_nth. rewrite (skipn_nth_cons l j d) by assumption.
    rewrite app_nth2 by (rewrite firstn_length; lia). rewrite firstn_length.
    replace (j - Nat.min j (length l)) with 0 by lia. reflexivity.
  Qed.

  Lemma fill_cells_row : forall is_na (fill : A) j (m : cellmat) i,
    nth i (fill_cells is_na fill j m) [] = upd_nth (map (fill_na A is_na fill)) j (nth i m []).
  Proof.
    intros. unfold fill_cells.
    assert (Hnil : upd_nth (map (fill_na A is_na fill)) j (@nil (list A)) = []) by (destruct j; reflexivity).
    destruct (Nat.lt_ge_cases i (length m)) as [Hlt|Hge].
    - rewrite (nth_indep _ [] (upd_nth (map (fill_na A is_na fill)) j [])) by (rewrite map_length; assumption).
      apply map_nth.
    - rewrite !nth_overflow by (try rewrite map_length; assumption). symmetry. exact Hnil.
  Qed.

  Lemma fill_cells_other : forall is_na (fill : A) j j' (m : cellmat) i, j' <> j ->
    nth j' (nth i (fill_cells is_na fill j m) []) [] = nth j' (nth i m []) [].
  Proof. intros. rewrite fill_cells_row. apply upd_nth_other. assumption. Qed.

  Lemma fill_cells_same : forall is_na (fill : A) j (m : cellmat) i, j < length (nth i m []) ->
    nth j (nth i (fill_cells is_na fill j m) []) [] = map (fill_na A is_na fill) (nth j (nth i m []) []).
  Proof. intros. rewrite fill_cells_row. apply upd_nth_same. assumption. Qed.

  Lemma pad_cells_cell : forall (fill : A) (m : cellmat) i j, i < length m -> j < length (nth i m []) ->
    let L := list_max (map (@length A) (concat m)) in
    let cell := nth j (nth i m []) [] in
    nth j (nth i (pad_cells fill m) []) [] = cell ++ repeat fill (L - length cell)
    /\ length cell <= L.
  Proof.
    intros fill m i j Hi Hj L cell. split.
    - unfold pad_cells. fold L. set (padf := fun c : list A => c ++ repeat fill (L - length c)).
      rewrite (nth_indep (map (map padf) m) [] (map padf [])) by (rewrite map_length; assumption).
      rewrite (map_nth (map padf)).
      rewrite (nth_indep (map padf (nth i m [])) [] (padf [])) by (rewrite map_length; assumption).
      rewrite (map_nth padf). reflexivity.
    - assert (E : Forall (fun x => x <= L) (map (@length A) (concat m))) by (apply list_max_le; unfold L; lia).
      rewrite Forall_map, Forall_forall in E. apply E. apply in_concat. exists (nth i m []).
      split; apply nth_In; assumption.
  Qed.

  Lemma pad_cells_nth : forall (fill : A) (m : cellmat) i j k, i < length m -> j < length (nth i m []) ->
    nth k (nth j (nth i (pad_cells fill m) []) []) fill = nth k (nth j (nth i m []) []) fill
    /\ length (nth j (nth i (pad_cells fill m) []) []) = list_max (map (@length A) (concat m)).
  Proof.
    intros fill m i j k Hi Hj. destruct (pad_cells_cell fill m i j Hi Hj) as [E Hle]. cbv zeta in E, Hle.
    rewrite E. split.
    - destruct (Nat.lt_ge_cases k (length (nth j (nth i m []) []))) as [Hlt|Hge].
      + apply app_nth1. assumption.
      + rewrite app_nth2 by assumption. rewrite (nth_overflow (nth j (nth i m []) [])) by assumption.
        apply nth_repeat.
    - rewrite app_length, repeat_length. lia.
  Qed.

  (* -------------------------------------------------------------- *)
  (* split / cat round trips *)
  Lemma mnt_roundtrip_rows : forall c (m : cellmat) ixs poss, rect c m -> ixs <> [] ->
    valid_parts (length m) ixs poss -> concat poss = seq 0 (length m) ->
    (parts <- mapM (fun ix => select A _ (mnt_kernels A) (mnt_of_cells c m) ix 0) ixs ;;
     mnt_cat A junk_o junk_v parts 0%Z) = Some (mnt_of_cells c m).
  Proof.
    intros c m ixs poss H Hne HV Hid. rewrite (mnt_cat_row_selections c m ixs poss H Hne HV), Hid, pick_rows_all.
    reflexivity.
  Qed.

  Lemma mnt_roundtrip_cols : forall c (m : cellmat) ixs poss, rect c m -> ixs <> [] ->
    valid_parts c ixs poss -> concat poss = seq 0 c ->
    (parts <- mapM (fun ix => select A _ (mnt_kernels A) (mnt_of_cells c m) ix 1) ixs ;;
     mnt_cat A junk_o junk_v parts 1%Z) = Some (mnt_of_cells c m).
  Proof.
    intros c m ixs poss H Hne HV Hid. rewrite (mnt_cat_col_selections c m ixs poss H Hne HV), Hid, seq_length.
    rewrite (pick_cols_all c m H). reflexivity.
  Qed.

  Lemma met_roundtrip_rows : forall ws (m : cellmat) ixs poss, rect_w ws m -> ixs <> [] ->
    valid_parts (length m) ixs poss -> concat poss = seq 0 (length m) ->
    (parts <- mapM (fun ix => select A _ (met_kernels A) (met_of_cells ws m) ix 0) ixs ;; met_cat A parts 0%Z)
    = Some (met_of_cells ws m).
  Proof.
    intros ws m ixs poss H Hne HV Hid. rewrite (met_cat_row_selections ws m ixs poss H Hne HV), Hid, pick_rows_all.
    reflexivity.
  Qed.

  Lemma rect_w_rect : forall ws (m : cellmat), rect_w ws m -> rect (length ws) m.
  Proof.
    intros ws m H. unfold rect, rect_w in *. eapply Forall_impl; [|exact H].
    intros r Hr. rewrite <- Hr, map_length. reflexivity.
  Qed.

  Lemma met_roundtrip_cols : forall ws (m : cellmat) ixs poss, rect_w ws m -> ixs <> [] ->
    valid_parts (length ws) ixs poss -> concat poss = seq 0 (length ws) ->
    (parts <- mapM (fun ix => select A _ (met_kernels A) (met_of_cells ws m) ix 1) ixs ;; met_cat A parts 1%Z)
    = Some (met_of_cells ws m).
  Proof.
    intros ws m ixs poss H Hne HV Hid. rewrite (met_cat_col_selections ws m ixs poss H Hne HV), Hid, pick_ws_all.
    rewrite (pick_cols_all (length ws) m (rect_w_rect ws m H)). reflexivity.
  Qed.

  Lemma met_from_cells_nocols : forall (m : cellmat), met_from_cells A ([] :: m) = None.
  Proof. reflexivity. Qed.

  (* -------------------------------------------------------------- *)
  (* from_tensor_list on its real input shape *)
  Lemma met_from_tensor_list_empty : met_from_tensor_list A [] = None.
  Proof. reflexivity. Qed.

  Lemma met_from_tensor_list_rows_mismatch : forall v0 rest v, In v rest ->
    length (t2rows v) <> length (t2rows v0) -> met_from_tensor_list A (v0 :: rest) = None.
  Proof.
    intros v0 rest v Hin Hne. unfold met_from_tensor_list.
    rewrite (forallb_exists_false _ rest v Hin); [reflexivity|]. apply Nat.eqb_neq. assumption.
  Qed.

  Lemma met_from_tensor_list_canon : forall ws (m : cellmat), rect_w ws m -> ws <> [] ->
    met_from_tensor_list A (cols_of ws m) = Some (met_of_cells ws m).
  Proof.
    intros ws m H Hne.
    set (g := fun j => MkT2 (map (fun row : list (list A) => nth j row []) m) (nth j ws 0)).
    assert (Hrows : forall j, length (t2rows (g j)) = length m) by (intros; unfold g; cbn [t2rows]; apply map_length).
    assert (Hw : map (@t2w A) (cols_of ws m) = ws).
    { unfold cols_of. rewrite map_map. cbn [t2w]. symmetry. apply map_nth_seq. }
    assert (Hlc : length (cols_of ws m) = length ws) by (unfold cols_of; rewrite map_length, seq_length; reflexivity).
    assert (Hval : t2_cat1 A (cols_of ws m) = Some (MkT2 (map (@concat A) m) (sum ws))).
    { unfold t2_cat1, cols_of. fold g. destruct ws as [|w0 ws']; [congruence|].
      cbn [length seq map]. rewrite Hrows.
      rewrite (forallb_map_true (fun v => length (t2rows v) =? length m) g) by (intros; rewrite Hrows; apply Nat.eqb_refl).
      change (g 0 :: map g (seq 1 (length ws'))) with (map g (seq 0 (length (w0 :: ws')))).
      f_equal. f_equal.
      - rewrite (map_as_seq (@concat A) m []). apply map_ext_in. intros r Hr. apply in_seq in Hr.
        f_equal. rewrite map_map.
        assert (Hl : length (nth r m []) = length (w0 :: ws')).
        { unfold rect_w in H. rewrite Forall_forall in H. rewrite <- (H (nth r m [])) by (apply nth_In; lia).
          rewrite map_length. reflexivity. }
        change (map (fun x : nat => nth r (t2rows (g x)) []) (seq 0 (length (w0 :: ws'))) = nth r m []).
        rewrite <- Hl. transitivity (map (fun j => nth j (nth r m []) []) (seq 0 (length (nth r m []))));
          [|symmetry; apply map_nth_seq].
        apply map_ext. intros j. unfold g. cbn [t2rows].
        rewrite (nth_indep _ [] ((fun row : list (list A) => nth j row []) [])) by (rewrite map_length; lia).
        apply (map_nth (fun row : list (list A) => nth j row [])).
      - change (t2w (g 0) :: map (@t2w A) (map g (seq 1 (length ws')))) with (map (@t2w A) (cols_of (w0 :: ws') m)).
        rewrite Hw. reflexivity. }
    unfold met_from_tensor_list. rewrite Hval.
    unfold cols_of at 1. fold g. destruct ws as [|w0 ws']; [congruence|]. cbn [length seq map]. rewrite Hrows.
    rewrite (forallb_map_true (fun v => length (t2rows v) =? length m) g) by (intros; rewrite Hrows; apply Nat.eqb_refl).
    cbn [obind].
    change (g 0 :: map g (seq 1 (length ws'))) with (cols_of (w0 :: ws') m).
    rewrite Hw, Hlc. apply mk_met_canon.
  Qed.
End Proofs.
