(* Lemmas about Model/RaggedCat.v (C06): constructors, concatenation on both
   axes of both containers, to_dense, fillna_col, clone, dispatch. *)
From Coq Require Import ZArith List Bool Arith Lia.
From PF Require Import Lib.ListX Lib.PySlice Model.Ragged Model.RaggedSpec Model.RaggedRun Model.RaggedCat.
From PF Require Import Proofs.ListXFacts Proofs.MntProofs Proofs.MetProofs.
Import ListNotations.

(* ---------------------------------------------------------------------- *)
(* list helpers *)

Lemma concat_concat_map : forall {B} (l : list (list (list B))),
  concat (map (@concat B) l) = concat (concat l).
Proof.
  intros B l. induction l as [|x l IH]; simpl; auto. rewrite concat_app, IH. reflexivity.
Qed.

Lemma map_length_concat : forall {B} (l : list (list (list B))),
  map (@length B) (concat l) = concat (map (map (@length B)) l).
Proof. intros. rewrite concat_map. reflexivity. Qed.

Lemma Forall_concat : forall {B} (P : B -> Prop) (l : list (list B)),
  Forall (Forall P) l -> Forall P (concat l).
Proof.
  intros B P l H. induction H as [|x l Hx Hl IH]; simpl; [constructor|].
  apply Forall_app. split; assumption.
Qed.

Lemma forallb_Forall : forall {B} (f : B -> bool) (P : B -> Prop) (l : list B),
  (forall x, P x -> f x = true) -> Forall P l -> forallb f l = true.
Proof.
  intros B f P l Hf H. induction H as [|x l Hx Hl IH]; simpl; auto. rewrite Hf, IH by auto. reflexivity.
Qed.

Lemma forallb_exists_false : forall {B} (f : B -> bool) (l : list B) x,
  In x l -> f x = false -> forallb f l = false.
Proof.
  intros B f l x Hin Hx. induction l as [|y l IH]; simpl in *; [contradiction|].
  destruct Hin as [->|Hin]; [rewrite Hx; reflexivity|]. rewrite IH by assumption. apply andb_false_r.
Qed.

(* ---------------------------------------------------------------------- *)
(* set_nth / scatter / write_at *)
Section Prims.
  Context {X : Type}.

  Lemma set_nth_app : forall (a b : list X) o v, set_nth (a ++ o :: b) (length a) v = a ++ v :: b.
  Proof.
    intros a b o v. unfold set_nth. induction a as [|x a IH]; simpl; [reflexivity|].
    f_equal. exact IH.
  Qed.

  Lemma scatter_app : forall (i1 i2 : list nat) (s1 s2 : list X) buf, length i1 = length s1 ->
    scatter buf (i1 ++ i2) (s1 ++ s2) =
    match scatter buf i1 s1 with Some b => scatter b i2 s2 | None => None end.
  Proof.
    induction i1 as [|i i1 IH]; intros i2 s1 s2 buf H; destruct s1 as [|v s1]; simpl in *; try discriminate; auto.
    destruct (i <? length buf); auto.
  Qed.

  (* scattering a whole segment replaces it *)
  Lemma scatter_seq : forall (new old a b : list X), length old = length new ->
    scatter (a ++ old ++ b) (seq (length a) (length new)) new = Some (a ++ new ++ b).
  Proof.
    induction new as [|v new IH]; intros old a b H; destruct old as [|o old]; simpl in *; try discriminate; auto.
    replace (length a <? length (a ++ o :: old ++ b)) with true
      by (symmetry; apply Nat.ltb_lt; rewrite app_length; simpl; lia).
    rewrite set_nth_app.
    replace (a ++ v :: old ++ b) with ((a ++ [v]) ++ old ++ b) by (rewrite <- app_assoc; reflexivity).
    replace (S (length a)) with (length (a ++ [v])) by (rewrite app_length; simpl; lia).
    rewrite IH by lia. rewrite <- app_assoc. reflexivity.
  Qed.

  Lemma write_at_seg : forall (new old a b : list X), length old = length new ->
    write_at (a ++ old ++ b) (length a) new = Some (a ++ new ++ b).
  Proof.
    intros new old a b H. unfold write_at.
    replace (length a + length new <=? length (a ++ old ++ b)) with true
      by (symmetry; apply Nat.leb_le; rewrite !app_length; lia).
    rewrite firstn_app, Nat.sub_diag, firstn_all. simpl. rewrite app_nil_r.
    f_equal. f_equal. f_equal.
    rewrite skipn_app. rewrite skipn_all2 by lia. simpl.
    replace (length a + length new - length a) with (length old) by lia.
    rewrite skipn_app, Nat.sub_diag, skipn_all. reflexivity.
  Qed.

  Lemma write_tail_seg : forall (new old a : list X), length old = length new ->
    write_tail (a ++ old) (length a) new = Some (a ++ new).
  Proof.
    intros new old a H. unfold write_tail.
    replace (length a + length new =? length (a ++ old)) with true
      by (symmetry; apply Nat.eqb_eq; rewrite !app_length; lia).
    rewrite firstn_app, Nat.sub_diag, firstn_all. simpl. rewrite app_nil_r. reflexivity.
  Qed.

  (* every list of the right total length is a concatenation of blocks of given lengths *)
  Lemma cut_blocks : forall (lens : list nat) (buf : list X), length buf = sum lens ->
    exists F, concat F = buf /\ map (@length X) F = lens.
  Proof.
    induction lens as [|n lens IH]; intros buf H; simpl in H.
    - exists []. destruct buf; [auto|discriminate].
    - destruct (IH (skipn n buf)) as [F [HF1 HF2]]; [rewrite skipn_length; lia|].
      exists (firstn n buf :: F). simpl. rewrite HF1, HF2, firstn_skipn, firstn_length. split; auto.
      f_equal. lia.
  Qed.
End Prims.

(* ---------------------------------------------------------------------- *)
Section Proofs.
  Variable A : Type.
  Notation cellmat := (cellmat A).

  (* -------------------------------------------------------------- *)
  (* validate() accepts canonical representations *)
  Lemma mk_mnt_canon : forall c (m : cellmat), rect c m ->
    mk_mnt A (length m) c (concat (concat m)) (0 :: cumsum (map (@length A) (concat m)))
    = Some (mnt_of_cells c m).
  Proof.
    intros c m H. unfold mk_mnt.
    rewrite offs_last, offs_length, map_length, <- sum_map_length_concat.
    rewrite (rect_concat_length c m H). rewrite !Nat.eqb_refl.
    replace (S (length m * c) =? length m * c + 1) with true by (symmetry; apply Nat.eqb_eq; lia).
    reflexivity.
  Qed.

  Lemma mk_met_canon : forall ws (m : cellmat),
    mk_met A (length m) (length ws) (MkT2 (map (@concat A) m) (sum ws)) (0 :: cumsum ws)
    = Some (met_of_cells ws m).
  Proof.
    intros. unfold mk_met. rewrite offs_length.
    replace (S (length ws) =? length ws + 1) with true by (symmetry; apply Nat.eqb_eq; lia).
    reflexivity.
  Qed.

  (* -------------------------------------------------------------- *)
  (* from_tensor_mat / from_tensor_list *)
  Lemma mnt_from_mat_canon : forall c (m : cellmat), rect c m -> m <> [] -> c <> 0 ->
    mnt_from_mat A m = Some (mnt_of_cells c m).
  Proof.
    intros c m H Hm Hc. destruct m as [|r0 m']; [congruence|].
    unfold mnt_from_mat. assert (Hr0 : length r0 = c) by (inversion H; assumption).
    rewrite Hr0.
    rewrite (forallb_Forall _ (fun r => length r = c)) by (auto; intros x Hx; apply Nat.eqb_eq; exact Hx).
    replace (c =? 0) with false by (symmetry; apply Nat.eqb_neq; assumption).
    apply mk_mnt_canon. assumption.
  Qed.

  Lemma mnt_from_mat_empty : mnt_from_mat A [] = None.
  Proof. reflexivity. Qed.

  Lemma mnt_from_mat_ragged : forall (m : cellmat), (forall c, ~ rect c m) -> mnt_from_mat A m = None.
  Proof.
    intros m H. destruct m as [|r0 m']; [reflexivity|]. unfold mnt_from_mat.
    destruct (forallb (fun r => length r =? length r0) (r0 :: m')) eqn:E; [|reflexivity].
    exfalso. apply (H (length r0)). unfold rect. rewrite forallb_forall in E.
    apply Forall_forall. intros x Hx. apply Nat.eqb_eq. apply E. assumption.
  Qed.

  Lemma mnt_from_mat_nocols : forall (m : cellmat), rect 0 m -> mnt_from_mat A m = None.
  Proof.
    intros m H. destruct m as [|r0 m']; [reflexivity|]. unfold mnt_from_mat.
    assert (Hr0 : length r0 = 0) by (inversion H; assumption). rewrite Hr0.
    destruct (forallb _ _); reflexivity.
  Qed.

  Lemma met_from_cells_canon : forall ws (m : cellmat), rect_w ws m -> m <> [] -> ws <> [] ->
    met_from_cells A m = Some (met_of_cells ws m).
  Proof.
    intros ws m H Hm Hws. destruct m as [|r0 m']; [congruence|].
    unfold met_from_cells. assert (Hr0 : map (@length A) r0 = ws) by (inversion H; assumption).
    rewrite Hr0. assert (Hl : length r0 = length ws) by (rewrite <- Hr0, map_length; reflexivity).
    replace (length r0 =? 0) with false
      by (symmetry; apply Nat.eqb_neq; rewrite Hl; destruct ws; simpl; congruence).
    rewrite (forallb_Forall _ (fun r => map (@length A) r = ws)); auto.
    - rewrite Hl. apply mk_met_canon.
    - intros r Hr. apply andb_true_iff. split.
      + rewrite <- Hr. clear. induction r as [|x r IH]; simpl; auto. rewrite Nat.eqb_refl. exact IH.
      + apply Nat.eqb_eq. rewrite Hl, <- Hr, map_length. reflexivity.
  Qed.

  Lemma met_from_cells_empty : met_from_cells A [] = None.
  Proof. reflexivity. Qed.

  (* -------------------------------------------------------------- *)
  (* reading the cells back: t[i, j] *)
  Lemma nth_error_offs : forall L k, k <= length L -> nth_error (0 :: cumsum L) k = Some (pre L k).
  Proof.
    intros L k H. rewrite offs_closed. rewrite nth_error_map.
    rewrite (nth_error_nth' _ 0) by (rewrite seq_length; lia). rewrite seq_nth by lia. reflexivity.
  Qed.

  Lemma tslice_concat_one : forall {B} (F : list (list B)) k, k < length F ->
    tslice (concat F) (pre (map (@length B) F) k) (pre (map (@length B) F) (S k)) = nth k F [].
  Proof.
    intros B F k H. rewrite tslice_concat by lia. rewrite (tslice_one F k []) by assumption.
    simpl. apply app_nil_r.
  Qed.

  Lemma mnt_get_value_canon : forall c (m : cellmat) i j, rect c m -> i < length m -> j < c ->
    mnt_get_value A (mnt_of_cells c m) i j = Some (nth j (nth i m []) []).
  Proof.
    intros c m i j H Hi Hj. unfold mnt_get_value, mnt_of_cells. cbn [nc offs vals].
    assert (Hlen : length (concat m) = length m * c) by (apply rect_concat_length; assumption).
    assert (Hk : i * c + j < length (concat m)) by (rewrite Hlen; nia).
    unfold tget. rewrite !nth_error_offs by (rewrite map_length; lia). cbn [obind].
    replace (i * c + j + 1) with (S (i * c + j)) by lia.
    rewrite tslice_concat_one by assumption. f_equal. symmetry. apply rect_cell; assumption.
  Qed.

  Lemma met_get_value_canon : forall ws (m : cellmat) i j, rect_w ws m -> i < length m -> j < length ws ->
    met_get_value A (met_of_cells ws m) i j = Some (nth j (nth i m []) []).
  Proof.
    intros ws m i j H Hi Hj. unfold met_get_value, met_of_cells. cbn [evals t2rows eoffs].
    unfold tget. rewrite nth_error_map. rewrite (nth_error_nth' m []) by assumption. cbn [option_map obind].
    rewrite !nth_error_offs by lia. cbn [obind].
    assert (Hr : map (@length A) (nth i m []) = ws).
    { unfold rect_w in H. rewrite Forall_forall in H. apply H. apply nth_In. assumption. }
    rewrite <- Hr. replace (j + 1) with (S j) by lia.
    rewrite tslice_concat_one; [reflexivity|]. rewrite <- (map_length (@length A)), Hr. assumption.
  Qed.
End Proofs.
