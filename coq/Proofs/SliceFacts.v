(* A strided slice in plain terms.  `range_up a b s` (Lib/PySlice.v) is written with the closed-form count
   (b - a + s - 1) / s that the code's `range`/`slice` arithmetic uses; this file proves that it enumerates exactly
   the positions a <= i < b with (i - a) divisible by s, in increasing order, for every a, b and every s > 0. *)
From Coq Require Import List Arith Bool Lia ZArith Sorted.
From PF Require Import Lib.ListX Lib.PySlice.
Import ListNotations.

Lemma count_up_spec : forall a b s k, 0 < s -> (k < count_up a b s <-> a + k * s < b).
Proof.
  intros a b s k Hs. unfold count_up. destruct (a <? b) eqn:E.
  - apply Nat.ltb_lt in E.
    pose proof (Nat.div_mod (b - a + s - 1) s ltac:(lia)) as Hdm.
    pose proof (Nat.mod_upper_bound (b - a + s - 1) s ltac:(lia)) as Hmod.
    set (q := (b - a + s - 1) / s) in *. set (r := (b - a + s - 1) mod s) in *.
    split; intro H.
    + assert (Hk : (k + 1) * s <= q * s) by (apply Nat.mul_le_mono_r; lia).
      rewrite (Nat.mul_comm s q) in Hdm. lia.
    + destruct (Nat.lt_ge_cases k q) as [Hlt|Hge]; [exact Hlt|exfalso].
      assert (Hk : q * s <= k * s) by (apply Nat.mul_le_mono_r; lia).
      rewrite (Nat.mul_comm s q) in Hdm. lia.
  - apply Nat.ltb_ge in E. split; intro H; [lia|]. exfalso. lia.
Qed.

Lemma range_up_In : forall a b s i, 0 < s ->
  (In i (range_up a b s) <-> (a <= i < b /\ (i - a) mod s = 0)).
Proof.
  intros a b s i Hs. unfold range_up. rewrite in_map_iff. split.
  - intros [k [Hk Hin]]. apply in_seq in Hin. destruct Hin as [_ Hin]. cbn in Hin.
    apply (count_up_spec a b s k Hs) in Hin. subst i. split; [lia|].
    replace (a + k * s - a) with (k * s) by lia. apply Nat.mod_mul. lia.
  - intros [[Hlo Hhi] Hmod].
    exists ((i - a) / s).
    pose proof (Nat.div_mod (i - a) s ltac:(lia)) as Hdm. rewrite Hmod in Hdm.
    rewrite (Nat.mul_comm s) in Hdm.
    split; [lia|]. apply in_seq. split; [lia|]. cbn. apply (count_up_spec a b s _ Hs). lia.
Qed.

Lemma map_affine_sorted : forall a s c start, 0 < s ->
  StronglySorted lt (map (fun k => a + k * s) (seq start c)).
Proof.
  intros a s c. induction c as [|c IH]; intros start Hs; [constructor|].
  cbn [seq map]. constructor; [apply IH; exact Hs|].
  rewrite Forall_map. rewrite Forall_forall. intros k Hin. apply in_seq in Hin.
  assert (H : (start + 1) * s <= k * s) by (apply Nat.mul_le_mono_r; lia). lia.
Qed.

Lemma range_up_sorted : forall a b s, 0 < s -> StronglySorted lt (range_up a b s).
Proof. intros a b s Hs. unfold range_up. apply map_affine_sorted. exact Hs. Qed.

Lemma clamp_bound_le : forall n d o, d <= n -> clamp_bound n d o <= n.
Proof.
  intros n d o Hd. unfold clamp_bound. destruct o as [v|]; [|exact Hd].
  destruct (v <? 0)%Z; lia.
Qed.

(* l[a:b:s] for s > 0: the positions are exactly lo <= i < hi with s | (i - lo), increasing, all < n, where
   (lo, hi) are the clamped bounds; s <= 0 is rejected. *)
Lemma slice_positions_plain : forall n a b s,
  py_positions n (ISlice a b s) =
  let st := match s with None => 1%Z | Some v => v end in
  if (st <=? 0)%Z then None else Some (range_up (fst (slice_indices n a b)) (snd (slice_indices n a b)) (Z.to_nat st)).
Proof. intros n a b s. cbn [py_positions]. destruct (slice_indices n a b). reflexivity. Qed.

Lemma slice_positions_spec : forall n a b s pos,
  py_positions n (ISlice a b s) = Some pos ->
  let lo := fst (slice_indices n a b) in
  let hi := snd (slice_indices n a b) in
  let st := Z.to_nat (match s with None => 1%Z | Some v => v end) in
  0 < st /\ hi <= n
  /\ (forall i, In i pos <-> (lo <= i < hi /\ (i - lo) mod st = 0))
  /\ StronglySorted lt pos.
Proof.
  intros n a b s pos H. rewrite slice_positions_plain in H. cbv zeta in H.
  destruct ((match s with None => 1%Z | Some v => v end) <=? 0)%Z eqn:E; [discriminate H|].
  injection H as <-. apply Z.leb_gt in E. cbv zeta.
  assert (Hst : 0 < Z.to_nat (match s with None => 1%Z | Some v => v end)) by lia.
  split; [exact Hst|]. split; [cbn [slice_indices snd]; apply clamp_bound_le; lia|].
  split; [intro i; apply range_up_In; exact Hst | apply range_up_sorted; exact Hst].
Qed.

Lemma slice_step_nonpositive : forall n a b v, (v <= 0)%Z -> py_positions n (ISlice a b (Some v)) = None.
Proof. intros n a b v H. rewrite slice_positions_plain. cbv zeta. rewrite (proj2 (Z.leb_le v 0) H). reflexivity. Qed.
