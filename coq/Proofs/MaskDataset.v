(* Dataset-level corollary of Proofs/MaskFacts.v: dataset[mask] keeps exactly the rows whose entry is True. *)
From Coq Require Import ZArith List Bool Arith Lia.
From PF Require Import Lib.ListX Lib.PySlice Model.Dataset Model.DatasetSpec Proofs.DatasetProofs Proofs.MaskFacts.
Import ListNotations.

Lemma select_mask_proof : forall (d : ds) (mk : list bool),
  materialized d = true -> aligned d ->
  index_select d (DIdx (IMask mk)) =
    if (length mk =? len d)%nat
    then Some (with_rows d (keep_true mk (df d)) (map rid (keep_true mk (df d))))
    else None.
Proof.
  intros d mk Hm Ha. rewrite (select_exact_proof d (DIdx (IMask mk)) Hm Ha).
  cbn [spec_index obind]. rewrite py_select_mask. unfold len.
  destruct (length mk =? length (df d))%nat; reflexivity.
Qed.
