(* Facts about Lib/Calendar.v, for every z : Z.
   Method: the within-era functions are checked exhaustively on one 400-year
   era (146 097 days, a finite domain: vm_compute), and lifted to all of Z by
   era periodicity (civil_of_days splits z into era and day-of-era by floor
   division; Z.div_mod + linear arithmetic). *)
From Coq Require Import ZArith Lia Bool List.
From PF Require Import Lib.Calendar.
Open Scope Z_scope.

Definition era_check (doe : Z) : bool :=
  let yoe := yoe_of_doe doe in
  let m := month_of_doe doe in
  let d := day_of_doe doe in
  (0 <=? yoe) && (yoe <? 400) && (1 <=? m) && (m <=? 12) && (1 <=? d) && (d <=? 31) && (doe_of yoe m d =? doe).

Fixpoint sweep (fuel : nat) (z : Z) : bool :=
  match fuel with
  | O => true
  | S f => era_check z && sweep f (z + 1)
  end.

Lemma sweep_sound : forall fuel z, sweep fuel z = true ->
  forall k, z <= k < z + Z.of_nat fuel -> era_check k = true.
Proof.
  induction fuel as [|f IH]; intros z H k Hk.
  - simpl in Hk. lia.
  - simpl in H. apply andb_prop in H. destruct H as [H0 H1].
    destruct (Z.eq_dec k z) as [->|Hne]; [exact H0|].
    apply (IH (z + 1) H1). lia.
Qed.

(* the finite-domain fact: every day of one era *)
Lemma era_sweep : sweep (Z.to_nat days_per_era) 0 = true.
Proof. vm_cast_no_check (eq_refl true). Qed.

Lemma era_check_all : forall doe, 0 <= doe < days_per_era -> era_check doe = true.
Proof.
  intros doe H. apply (sweep_sound _ _ era_sweep).
  rewrite Z2Nat.id by (unfold days_per_era; lia). lia.
Qed.

Lemma era_facts : forall doe, 0 <= doe < days_per_era ->
  0 <= yoe_of_doe doe < 400 /\ 1 <= month_of_doe doe <= 12 /\ 1 <= day_of_doe doe <= 31 /\
  doe_of (yoe_of_doe doe) (month_of_doe doe) (day_of_doe doe) = doe.
Proof.
  intros doe H. pose proof (era_check_all doe H) as C. unfold era_check in C.
  repeat (apply andb_prop in C; destruct C as [C ?]).
  repeat match goal with
  | h : (_ <=? _) = true |- _ => apply Z.leb_le in h
  | h : (_ <? _) = true |- _ => apply Z.ltb_lt in h
  | h : (_ =? _) = true |- _ => apply Z.eqb_eq in h
  end. lia.
Qed.

Lemma doe_range : forall z, 0 <= (z + epoch_shift) mod days_per_era < days_per_era.
Proof. intro z. apply Z.mod_pos_bound. unfold days_per_era. lia. Qed.

Theorem days_of_civil_of_days : forall z, days_of_civil (civil_of_days z) = z.
Proof.
  intro z. unfold civil_of_days, days_of_civil.
  set (z' := z + epoch_shift). set (era := z' / days_per_era). set (doe := z' mod days_per_era).
  destruct (era_facts doe (doe_range z)) as (Hy & Hm & Hd & Hdoe).
  set (yoe := yoe_of_doe doe) in *. set (m := month_of_doe doe) in *. set (d := day_of_doe doe) in *.
  assert (Hadj : (if m <=? 2 then (if m <=? 2 then yoe + era * 400 + 1 else yoe + era * 400) - 1
                  else (if m <=? 2 then yoe + era * 400 + 1 else yoe + era * 400)) = yoe + era * 400)
    by (destruct (m <=? 2); lia).
  rewrite Hadj.
  rewrite Z.div_add by lia. rewrite Z.mod_add by lia.
  rewrite (Z.div_small yoe 400) by lia. rewrite (Z.mod_small yoe 400) by lia.
  rewrite Hdoe. simpl.
  pose proof (Z.div_mod z' days_per_era) as E. unfold days_per_era in *.
  fold era doe in E. subst z'. lia.
Qed.

Theorem civil_of_days_inj : forall a b, civil_of_days a = civil_of_days b -> a = b.
Proof. intros a b H. rewrite <- (days_of_civil_of_days a), <- (days_of_civil_of_days b), H. reflexivity. Qed.

Theorem month_range : forall z, 1 <= month_of_days z <= 12.
Proof. intro z. unfold month_of_days, civil_of_days. simpl. apply (era_facts _ (doe_range z)). Qed.

Theorem day_range : forall z, 1 <= day_of_days z <= 31.
Proof. intro z. unfold day_of_days, civil_of_days. simpl. apply (era_facts _ (doe_range z)). Qed.

Theorem weekday_range : forall z, 0 <= weekday_of_days z < 7.
Proof. intro z. unfold weekday_of_days. apply Z.mod_pos_bound. lia. Qed.

(* a week later is the same weekday; the next day is the next weekday *)
Theorem weekday_succ : forall z, weekday_of_days (z + 1) = (weekday_of_days z + 1) mod 7.
Proof.
  intro z. unfold weekday_of_days. rewrite Z.add_mod_idemp_l by lia. f_equal. lia.
Qed.

(* 400 years are exactly 146097 days: the calendar is era-periodic *)
Theorem civil_era_periodic : forall z,
  civil_of_days (z + days_per_era) =
  let '(y, m, d) := civil_of_days z in (y + 400, m, d).
Proof.
  intro z. unfold civil_of_days.
  replace (z + days_per_era + epoch_shift) with ((z + epoch_shift) + 1 * days_per_era) by lia.
  rewrite Z.div_add by (unfold days_per_era; lia). rewrite Z.mod_add by (unfold days_per_era; lia).
  set (doe := (z + epoch_shift) mod days_per_era). set (era := (z + epoch_shift) / days_per_era).
  destruct (month_of_doe doe <=? 2); f_equal; f_equal; lia.
Qed.

Theorem time_of_day_range : forall s,
  0 <= hour_of_secs s < 24 /\ 0 <= minute_of_secs s < 60 /\ 0 <= second_of_secs s < 60.
Proof.
  intro s. unfold hour_of_secs, minute_of_secs, second_of_secs, secs_per_day.
  pose proof (Z.mod_pos_bound s 86400 ltac:(lia)) as H.
  set (r := s mod 86400) in *.
  pose proof (Z.mod_pos_bound r 3600 ltac:(lia)).
  pose proof (Z.mod_pos_bound r 60 ltac:(lia)).
  repeat split; try lia.
  - apply Z.div_pos; lia.
  - apply Z.div_lt_upper_bound; lia.
  - apply Z.div_pos; lia.
  - apply Z.div_lt_upper_bound; lia.
Qed.

(* the split of a second count is lossless *)
Theorem secs_decompose : forall s,
  s = days_of_secs s * secs_per_day + hour_of_secs s * 3600 + minute_of_secs s * 60 + second_of_secs s.
Proof.
  intro s. unfold days_of_secs, hour_of_secs, minute_of_secs, second_of_secs, secs_per_day.
  pose proof (Z.div_mod s 86400 ltac:(lia)).
  set (r := s mod 86400) in *.
  pose proof (Z.div_mod r 3600 ltac:(lia)).
  set (r2 := r mod 3600) in *.
  pose proof (Z.div_mod r2 60 ltac:(lia)).
  assert (r mod 60 = r2 mod 60).
  { rewrite (Z.div_mod r 3600) at 1 by lia. fold r2.
    replace (3600 * (r / 3600) + r2) with (r2 + (60 * (r / 3600)) * 60) by lia.
    apply Z.mod_add. lia. }
  lia.
Qed.

(* sanity anchors *)
Example epoch_is_1970_01_01 : civil_of_days 0 = (1970, 1, 1) /\ weekday_of_days 0 = 3.
Proof. vm_compute. split; reflexivity. Qed.
Example leap_day_2000 : civil_of_days 11016 = (2000, 2, 29) /\ days_of_civil (2000, 2, 29) = 11016.
Proof. vm_compute. split; reflexivity. Qed.
Example before_epoch_1700 : civil_of_days (-98615) = (1700, 1, 1).
Proof. vm_compute. reflexivity. Qed.
