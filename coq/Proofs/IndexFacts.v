(* Integer, list and index-tensor indices in plain terms: an entry i of a selection over n rows is accepted iff
   -n <= i < n and then denotes row (i mod n) -- negative entries wrap exactly once. *)
From Coq Require Import List Arith Bool Lia ZArith.
From PF Require Import Lib.ListX Lib.PySlice.
Import ListNotations.

Definition in_range_z (n : nat) (i : Z) : bool := ((- Z.of_nat n <=? i) && (i <? Z.of_nat n))%Z.

Lemma norm_index_plain : forall n i,
  norm_index n i = if in_range_z n i then Some (Z.to_nat (i mod Z.of_nat n)) else None.
Proof.
  intros n i. unfold norm_index, in_range_z. cbv zeta.
  destruct (i <? 0)%Z eqn:E0.
  - apply Z.ltb_lt in E0.
    destruct (Z.leb_spec (- Z.of_nat n) i) as [H1|H1].
    + rewrite (proj2 (Z.ltb_lt i (Z.of_nat n))) by lia. cbn [andb].
      rewrite (proj2 (Z.ltb_ge (i + Z.of_nat n) 0)) by lia.
      rewrite (proj2 (Z.leb_gt (Z.of_nat n) (i + Z.of_nat n))) by lia. cbn [orb].
      f_equal. f_equal. apply (Z.mod_unique_pos i (Z.of_nat n) (-1)); lia.
    + cbn [andb]. rewrite (proj2 (Z.ltb_lt (i + Z.of_nat n) 0)) by lia. reflexivity.
  - apply Z.ltb_ge in E0. cbv iota. rewrite (proj2 (Z.ltb_ge i 0) E0).
    rewrite (proj2 (Z.leb_le (- Z.of_nat n) i)) by lia. cbn [andb orb].
    destruct (Z.ltb_spec i (Z.of_nat n)) as [H1|H1].
    + rewrite (proj2 (Z.leb_gt (Z.of_nat n) i)) by lia. rewrite Z.mod_small by lia. reflexivity.
    + rewrite (proj2 (Z.leb_le (Z.of_nat n) i)) by lia. reflexivity.
Qed.

Lemma mapM_norm_index_plain : forall n l,
  mapM (norm_index n) l =
  if forallb (in_range_z n) l then Some (map (fun i => Z.to_nat (i mod Z.of_nat n)) l) else None.
Proof.
  intros n l. induction l as [|i r IH]; [reflexivity|].
  cbn [mapM forallb map]. rewrite IH, norm_index_plain.
  destruct (in_range_z n i); [|reflexivity]. cbn [andb].
  destruct (forallb (in_range_z n) r); reflexivity.
Qed.

Lemma list_positions_plain : forall n l,
  py_positions n (IList l) =
  if forallb (in_range_z n) l then Some (map (fun i => Z.to_nat (i mod Z.of_nat n)) l) else None.
Proof. intros n l. cbn [py_positions]. apply mapM_norm_index_plain. Qed.

Lemma tensor_positions_plain : forall n l,
  py_positions n (ITensor l) =
  if forallb (in_range_z n) l then Some (map (fun i => Z.to_nat (i mod Z.of_nat n)) l) else None.
Proof. intros n l. cbn [py_positions]. apply mapM_norm_index_plain. Qed.

Lemma int_positions_plain : forall n i,
  py_positions n (IInt i) = if in_range_z n i then Some [Z.to_nat (i mod Z.of_nat n)] else None.
Proof.
  intros n i. cbn [py_positions]. rewrite norm_index_plain. destruct (in_range_z n i); reflexivity.
Qed.

(* the number of selected rows is the number of entries: duplicates stay, order stays *)
Lemma list_positions_length : forall n l pos, py_positions n (IList l) = Some pos -> length pos = length l.
Proof.
  intros n l pos H. rewrite list_positions_plain in H.
  destruct (forallb (in_range_z n) l); [|discriminate H]. injection H as <-. apply map_length.
Qed.
